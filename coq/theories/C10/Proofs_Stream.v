(* C10 — stream side proofs: stage/flush over a drain of any size, any write budgets, any
   SetDeadline outcomes; what a client parses out of any prefix of the byte stream. *)
From Sdns Require Import Common.Base Gen.C10 C10.Model C10.ModelStream.
Open Scope nat_scope.

(* ------------------------------------------------------------------ subsequences *)
Inductive subseq {A} : list A -> list A -> Prop :=
| sub_nil l : subseq [] l
| sub_take x a b : subseq a b -> subseq (x :: a) (x :: b)
| sub_skip x a b : subseq a b -> subseq a (x :: b).

Lemma subseq_refl {A} (l : list A) : subseq l l.
Proof. induction l; constructor; auto. Qed.
Lemma subseq_app_r {A} (a b c : list A) : subseq a b -> subseq a (b ++ c).
Proof. induction 1; cbn; constructor; auto. Qed.
Lemma subseq_snoc {A} (a b : list A) x : subseq a b -> subseq (a ++ [x]) (b ++ [x]).
Proof. induction 1; cbn; try (constructor; auto; fail). induction l; cbn; constructor; auto. constructor. Qed.
Lemma subseq_app_l {A} (a b c : list A) : subseq a b -> subseq a (c ++ b).
Proof. induction c; cbn; auto. intros. constructor; auto. Qed.

(* ------------------------------------------------------------------ the connection *)
Lemma wire_cons d out scr : wire_bytes (mkWconn (d :: out) scr) = wire_bytes (mkWconn out scr) ++ d.
Proof. unfold wire_bytes. cbn. rewrite concat_app. cbn. now rewrite app_nil_r. Qed.

Lemma conn_write_spec k data k' ok :
  conn_write k data = (k', ok) ->
  exists m, wire_bytes k' = wire_bytes k ++ firstn m data /\ (ok = true -> firstn m data = data).
Proof.
  unfold conn_write. destruct k as [out scr]. cbn.
  destruct scr as [|[n|] r].
  - intros [= <- <-]. exists (length data). rewrite wire_cons, firstn_all. split; auto.
  - destruct (Nat.leb (length data) n).
    + intros [= <- <-]. exists (length data). rewrite wire_cons, firstn_all. split; auto.
    + intros [= <- <-]. exists n. rewrite wire_cons. split; auto. discriminate.
  - intros [= <- <-]. exists (length data). rewrite wire_cons, firstn_all. split; auto.
Qed.

Definition wire (st : sstate) : list byte := wire_bytes (t_conn st).
Definition stream_of (ps : list (list byte)) : list byte := concat (map frame ps).

Lemma stream_of_snoc ps p : stream_of (ps ++ [p]) = stream_of ps ++ frame p.
Proof. unfold stream_of. rewrite map_app, concat_app. cbn. now rewrite app_nil_r. Qed.

Arguments stream_of : simpl never.
Arguments wire : simpl never.
Arguments frame : simpl never.

Definition is_prefix (a b : list byte) : Prop := exists n, a = firstn n b.

Lemma prefix_app_firstn (a b : list byte) m : is_prefix (a ++ firstn m b) (a ++ b).
Proof.
  exists (length a + m). rewrite firstn_app. replace (length a + m - length a) with m by lia.
  rewrite (firstn_all2 (n := length a + m)) by lia. reflexivity.
Qed.
Lemma prefix_refl a : is_prefix a a.
Proof. exists (length a). now rewrite firstn_all. Qed.
Lemma prefix_app_r a b c : is_prefix a b -> is_prefix a (b ++ c).
Proof.
  intros [n ->]. exists (Nat.min n (length b)). rewrite firstn_app.
  replace (Nat.min n (length b) - length b) with 0 by lia. cbn. rewrite app_nil_r.
  destruct (Nat.le_ge_cases n (length b)).
  - now replace (Nat.min n (length b)) with n by lia.
  - rewrite !firstn_all2 by lia. reflexivity.
Qed.

(* the invariant of the write side *)
Definition sinv (st : sstate) : Prop :=
  is_prefix (wire st) (stream_of (t_acc st)) /\
  (t_werr st = false -> wire st ++ t_held st = stream_of (t_acc st) /\ t_acc st = t_ok st).

Lemma frame_prefix_split p : firstn (N.to_nat frame_prefix_len) (frame p) ++ p = frame p.
Proof. reflexivity. Qed.

Lemma s_arm_sinv st st' ok : s_arm st = (st', ok) -> sinv st ->
  sinv st' /\ t_acc st' = t_acc st /\ t_ok st' = t_ok st /\ t_held st' = t_held st /\ t_werr st' = t_werr st /\ t_conn st' = t_conn st.
Proof.
  unfold s_arm. destruct (t_arm st); intros [= <- <-] H; cbn; (split; [exact H|]); repeat split; auto.
Qed.

Lemma s_flush_sinv st st' e : s_flush st = (st', e) -> sinv st ->
  sinv st' /\ t_acc st' = t_acc st /\ t_ok st' = t_ok st /\
  (e = SNil -> t_held st' = [] /\ t_werr st' = false).
Proof.
  unfold s_flush. intros H Hi. destruct (t_werr st) eqn:Ew.
  - inversion H; subst. split; [exact Hi|]. split; auto. split; auto. discriminate.
  - pose proof Hi as [Hp Hw]. destruct (Hw Ew) as [Hw1 Hw2]. destruct (t_held st) as [|h t] eqn:Eh.
    + inversion H; subst. split; [exact Hi|]. split; auto.
    + destruct (conn_write (t_conn st) (h :: t)) as [k ok] eqn:Ec. inversion H; subst; clear H.
      destruct (conn_write_spec _ _ _ _ Ec) as (m & Hm1 & Hm2). cbn.
      split.
      * unfold sinv, wire. cbn. rewrite Hm1. split.
        -- rewrite <- Hw1. apply prefix_app_firstn.
        -- intros Eok. destruct ok; [|discriminate]. rewrite (Hm2 eq_refl), app_nil_r. auto.
      * split; auto. split; auto. destruct ok; [auto|discriminate].
Qed.

Lemma s_armflush_sinv st st' e : s_armflush st = (st', e) -> sinv st ->
  sinv st' /\ t_acc st' = t_acc st /\ t_ok st' = t_ok st /\
  (e = SNil -> t_held st' = [] /\ t_werr st' = false).
Proof.
  unfold s_armflush. destruct (s_arm st) as [st1 ok] eqn:Ea. intros H Hi.
  destruct (s_arm_sinv _ _ _ Ea Hi) as (Hi1 & A1 & A2 & A3 & A4 & A5).
  destruct ok.
  - destruct (s_flush_sinv _ _ _ H Hi1) as (Hi2 & B1 & B2 & B3).
    split; [exact Hi2|]. split; [congruence|]. split; [congruence|exact B3].
  - inversion H; subst. split; [exact Hi1|]. split; auto. split; auto. discriminate.
Qed.

(* one operation: the invariant, and how the two payload ledgers move *)
Definition ledger_step (o : sop) (e : serr) (st st' : sstate) : Prop :=
  (t_ok st' = t_ok st ++ (match e with SNil => sop_payloads o | _ => [] end)) /\
  (t_acc st' = t_acc st \/ exists p, sop_payloads o = [p] /\ t_acc st' = t_acc st ++ [p]).

Lemma s_stage_sinv D st p st' e : s_stage D st p = (st', e) -> sinv st ->
  sinv st' /\
  t_ok st' = t_ok st ++ (match e with SNil => [p] | _ => [] end) /\
  (t_acc st' = t_acc st \/ t_acc st' = t_acc st ++ [p]).
Proof.
  unfold s_stage. intros H Hi. destruct (t_werr st) eqn:Ew.
  { inversion H; subst. rewrite app_nil_r. auto. }
  destruct (N.ltb max_msg_size (N.of_nat (length p))).
  { inversion H; subst. rewrite app_nil_r. auto. }
  destruct (Nat.ltb D (N.to_nat frame_prefix_len + length p)).
  - (* on its own *)
    destruct (s_armflush st) as [st1 e1] eqn:Ef.
    destruct (s_armflush_sinv _ _ _ Ef Hi) as (Hi1 & A1 & A2 & A3).
    destruct e1; try (inversion H; subst; rewrite app_nil_r; (split; [exact Hi1|]); split; auto; fail).
    destruct (A3 eq_refl) as [Hh Hwe]. destruct Hi1 as [Hp1 Hw1]. destruct (Hw1 Hwe) as [Hw1a Hw1b].
    rewrite Hh, app_nil_r in Hw1a.
    destruct (conn_write (t_conn st1) _) as [k1 ok1] eqn:Ec1.
    destruct (conn_write_spec _ _ _ _ Ec1) as (m1 & Hm1 & Hm1').
    destruct ok1; cbn [negb] in H.
    + destruct (conn_write k1 p) as [k2 ok2] eqn:Ec2.
      destruct (conn_write_spec _ _ _ _ Ec2) as (m2 & Hm2 & Hm2').
      destruct ok2; inversion H; subst; clear H; cbn.
      * split; [|rewrite A1, A2; auto].
        unfold sinv, wire; cbn. rewrite Hm2, Hm1, (Hm1' eq_refl), (Hm2' eq_refl).
        unfold wire in Hw1a. rewrite Hw1a, <- app_assoc, frame_prefix_split, stream_of_snoc.
        split; [apply prefix_refl|]. intros _. rewrite Hh, app_nil_r. split; auto. congruence.
      * split; [|rewrite A1, A2, app_nil_r; auto].
        unfold sinv, wire; cbn. rewrite Hm2, Hm1, (Hm1' eq_refl).
        unfold wire in Hw1a. rewrite Hw1a, stream_of_snoc, <- app_assoc.
        split; [|discriminate].
        replace (frame p) with (firstn (N.to_nat frame_prefix_len) (frame p) ++ p) at 2 by apply frame_prefix_split.
        rewrite !app_assoc. apply prefix_app_firstn.
    + inversion H; subst; clear H; cbn. split; [|rewrite A1, A2, app_nil_r; auto].
      unfold sinv, wire; cbn. rewrite Hm1. unfold wire in Hw1a. rewrite Hw1a, stream_of_snoc.
      split; [|discriminate].
      replace (frame p) with (firstn (N.to_nat frame_prefix_len) (frame p) ++ p) at 2 by apply frame_prefix_split.
      rewrite app_assoc. apply prefix_app_r. apply prefix_app_firstn.
  - (* into the drain *)
    set (pre := if Nat.ltb D (length (t_held st) + (N.to_nat frame_prefix_len + length p)) then s_armflush st else (st, SNil)) in *.
    assert (Hpre : sinv (fst pre) /\ t_acc (fst pre) = t_acc st /\ t_ok (fst pre) = t_ok st /\
                   (snd pre = SNil -> t_werr (fst pre) = false)).
    { unfold pre. destruct (Nat.ltb D _).
      - destruct (s_armflush st) as [st1 e1] eqn:Ef.
        destruct (s_armflush_sinv _ _ _ Ef Hi) as (Hi1 & A1 & A2 & A3). cbn.
        split; [exact Hi1|]. split; auto. split; auto. intros E. apply A3; auto.
      - cbn. split; [exact Hi|]. auto. }
    destruct pre as [st1 e1]. cbn in Hpre. destruct Hpre as (Hi1 & A1 & A2 & A3).
    destruct e1; try (inversion H; subst; rewrite app_nil_r; (split; [exact Hi1|]); split; auto; fail).
    inversion H; subst; clear H; cbn. split; [|rewrite A1, A2; auto].
    destruct Hi1 as [Hp1 Hw1]. destruct (Hw1 (A3 eq_refl)) as [Hw1a Hw1b].
    unfold sinv, wire in *; cbn. rewrite stream_of_snoc, <- Hw1a. split.
    + rewrite <- app_assoc. exists (length (wire_bytes (t_conn st1))).
      rewrite firstn_app, firstn_all, Nat.sub_diag. cbn. now rewrite app_nil_r.
    + intros _. rewrite app_assoc. split; auto. congruence.
Qed.

Lemma s_step_sinv D st o st' e : s_step D st o = (st', e) -> sinv st -> sinv st' /\ ledger_step o e st st'.
Proof.
  unfold ledger_step. destruct o; cbn [s_step sop_payloads].
  - unfold tcp_job_write. destruct (N.ltb max_msg_size (N.of_nat (length p))).
    + intros [= <- <-] Hi. rewrite app_nil_r. auto.
    + intros H Hi. destruct (s_stage_sinv _ _ _ _ _ H Hi) as (A & B & C).
      split; auto. split; auto. destruct C; [left; auto | right; eauto].
  - intros H Hi. destruct (s_stage_sinv _ _ _ _ _ H Hi) as (A & B & C).
    split; auto. split; auto. destruct C; [left; auto | right; eauto].
  - intros H Hi. destruct (s_armflush_sinv _ _ _ H Hi) as (A & B & C & _).
    split; auto. rewrite C. destruct e; rewrite app_nil_r; auto.
  - destruct (s_arm st) as [st1 ok] eqn:Ea. intros [= <- <-] Hi.
    destruct (s_arm_sinv _ _ _ Ea Hi) as (A & B & C & _).
    split; auto. rewrite C. destruct ok; rewrite app_nil_r; auto.
Qed.

Lemma s_init_sinv script arms : sinv (s_init script arms).
Proof. split; cbn; [exists 0; reflexivity | auto]. Qed.

(* payloads whose stage returned nil, in order *)
Fixpoint ok_payloads (ops : list sop) (errs : list serr) : list (list byte) :=
  match ops, errs with
  | o :: r, e :: es => (match e with SNil => sop_payloads o | _ => [] end) ++ ok_payloads r es
  | _, _ => []
  end.

Lemma s_run_sinv D : forall ops st st' errs,
  s_run D st ops = (st', errs) -> sinv st ->
  sinv st' /\ length errs = length ops /\
  t_ok st' = t_ok st ++ ok_payloads ops errs /\
  exists more, subseq more (flat_map sop_payloads ops) /\ t_acc st' = t_acc st ++ more.
Proof.
  induction ops as [|o r IH]; intros st st' errs H Hi; cbn in H.
  - inversion H; subst. cbn. rewrite app_nil_r. split; [exact Hi|]. split; auto. split; auto.
    exists []. rewrite app_nil_r. split; [constructor|auto].
  - destruct (s_step D st o) as [st1 e] eqn:Es. destruct (s_run D st1 r) as [st2 es] eqn:Er.
    inversion H; subst; clear H.
    destruct (s_step_sinv _ _ _ _ _ Es Hi) as (Hi1 & L1 & L2).
    destruct (IH _ _ _ Er Hi1) as (Hi2 & Hl & L3 & more & Hs & L4).
    split; auto. split; [cbn; lia|]. split.
    + cbn. rewrite L3, L1, <- app_assoc. reflexivity.
    + cbn. destruct L2 as [E|(p & Ep & E)].
      * exists more. split; [apply subseq_app_l; auto | congruence].
      * exists (p :: more). rewrite Ep. cbn. split; [constructor; auto|].
        rewrite L4, E, <- app_assoc. reflexivity.
Qed.

(* ------------------------------------------------------------------ what a client parses *)
Open Scope N_scope.
Lemma frame_len_decode (n : N) : n < 65536 -> (n / 256) * 256 + n mod 256 = n.
Proof. intros H. pose proof (N.div_mod n 256 ltac:(lia)). lia. Qed.
Close Scope N_scope.

Definition fits16 (p : list byte) : Prop := (N.of_nat (length p) < 65536)%N.

Lemma parse_one_frame fuel p rest :
  fits16 p -> parse_frames (S fuel) (frame p ++ rest) =
              let '(ps, r) := parse_frames fuel rest in (p :: ps, r).
Proof.
  intros Hf. unfold frame. cbn [app parse_frames].
  rewrite (frame_len_decode _ Hf), Nat2N.id.
  rewrite app_length.
  destruct (Nat.ltb_spec (length p + length rest) (length p)) as [H|H]; [lia|].
  rewrite skipn_app, skipn_all, Nat.sub_diag. cbn [skipn app].
  rewrite firstn_app, firstn_all, Nat.sub_diag. cbn [firstn]. rewrite app_nil_r. reflexivity.
Qed.

(* an incomplete tail: shorter than the frame it starts *)
Definition partial_of (t p : list byte) : Prop := exists m, m < length (frame p) /\ t = firstn m (frame p).

Lemma parse_partial fuel t p : fits16 p -> partial_of t p -> parse_frames fuel t = ([], t).
Proof.
  intros Hf (m & Hm & ->). destruct fuel; [reflexivity|].
  unfold frame in *. cbn [app length] in Hm.
  destruct m as [|[|m]]; try reflexivity.
  cbn [app firstn parse_frames]. rewrite (frame_len_decode _ Hf), Nat2N.id.
  rewrite firstn_length. destruct (Nat.ltb_spec (Nat.min m (length p)) (length p)); [reflexivity|lia].
Qed.

Lemma parse_frames_stream ps : forall fuel t,
  Forall fits16 ps -> (t = [] \/ exists p, fits16 p /\ partial_of t p) ->
  length ps <= fuel ->
  parse_frames fuel (stream_of ps ++ t) = (ps, t).
Proof.
  induction ps as [|p r IH]; intros fuel t Hall Ht Hfuel.
  - cbn. destruct Ht as [->|(p & Hp & Hpar)].
    + destruct fuel; reflexivity.
    + eapply parse_partial; eauto.
  - inversion Hall; subst. destruct fuel; [cbn in Hfuel; lia|].
    unfold stream_of. cbn [map concat]. rewrite <- app_assoc.
    rewrite parse_one_frame by auto. fold (stream_of r).
    rewrite IH; auto. cbn in Hfuel. lia.
Qed.

(* every prefix of a stream of frames is some whole frames and an incomplete tail *)
Lemma prefix_of_stream ps : forall n,
  exists k t, firstn n (stream_of ps) = stream_of (firstn k ps) ++ t /\
              (t = [] \/ exists p, nth_error ps k = Some p /\ partial_of t p).
Proof.
  induction ps as [|p r IH]; intros n.
  - exists 0, []. cbn. rewrite firstn_nil. auto.
  - unfold stream_of. cbn [map concat]. fold (stream_of r). rewrite firstn_app.
    destruct (Nat.lt_ge_cases n (length (frame p))) as [Hlt|Hge].
    + exists 0, (firstn n (frame p)). replace (n - length (frame p)) with 0 by lia. cbn. rewrite app_nil_r.
      split; auto. right. exists p. split; auto. exists n. auto.
    + destruct (IH (n - length (frame p))) as (k & t & E & Ht).
      exists (S k), t. rewrite firstn_all2 by lia. rewrite E. cbn [firstn map concat nth_error].
      fold (stream_of (firstn k r)). rewrite app_assoc. split; auto.
Qed.

Theorem parse_prefix ps n :
  Forall fits16 ps ->
  exists k t, parse_stream (firstn n (stream_of ps)) = (firstn k ps, t).
Proof.
  intros Hall. destruct (prefix_of_stream ps n) as (k & t & E & Ht).
  exists k, t. unfold parse_stream. rewrite E. apply parse_frames_stream.
  - apply Forall_forall. intros x Hx. rewrite Forall_forall in Hall. apply Hall.
    clear -Hx. revert ps Hx. induction k; intros [|h r]; cbn; try tauto. intros [H|H]; auto.
  - destruct Ht as [->|(p & Hp & Hpar)]; auto. right. exists p. split; auto.
    rewrite Forall_forall in Hall. apply Hall. eapply nth_error_In; eauto.
  - rewrite app_length. unfold stream_of.
    assert (G : forall l, length l <= length (concat (map frame l))).
    { induction l as [|h r IH]; cbn [map concat length]; auto. rewrite app_length. unfold frame at 1. cbn [app length]. lia. }
    pose proof (G (firstn k ps)). unfold stream_of. lia.
Qed.
