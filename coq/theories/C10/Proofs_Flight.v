(* C10 — collapsed lookups (ModelFlight): the `shared` flag is sound for every interleaving. *)
From Sdns Require Import Common.Base C10.ModelFlight.
Open Scope nat_scope.

Lemma map_find_In key m c : map_find key m = Some c -> In (key, c) m.
Proof.
  induction m as [|[k c'] r IH]; cbn; [discriminate|].
  destruct (N.eqb_spec k key) as [->|Hne].
  - intros [= ->]. left. reflexivity.
  - intros H. right. auto.
Qed.

Lemma nth_upd_call l : forall i x j,
  nth_error (upd_call l i x) j =
  if Nat.eqb i j then match nth_error l i with Some _ => Some x | None => None end else nth_error l j.
Proof.
  induction l as [|h t IH]; intros i x j.
  - cbn. destruct i, j; cbn; auto. destruct (Nat.eqb i j); auto.
  - destruct i as [|i], j as [|j]; cbn; auto.
Qed.

Lemma nth_app_some {A} (l l' : list A) n x : nth_error l n = Some x -> nth_error (l ++ l') n = Some x.
Proof.
  intros H. rewrite nth_error_app1; auto. apply nth_error_Some. congruence.
Qed.

Lemma nth_app_last {A} (l : list A) x : nth_error (l ++ [x]) (length l) = Some x.
Proof. rewrite nth_error_app2 by lia. rewrite Nat.sub_diag. reflexivity. Qed.

Lemma nth_app_one {A} (l : list A) x n y :
  nth_error (l ++ [x]) n = Some y -> nth_error l n = Some y \/ (n = length l /\ y = x).
Proof.
  intros H. destruct (Nat.lt_ge_cases n (length l)) as [Hlt|Hge].
  - rewrite nth_error_app1 in H by auto. auto.
  - rewrite nth_error_app2 in H by auto. destruct (n - length l) as [|m] eqn:E.
    + cbn in H. injection H as <-. right. split; [lia|reflexivity].
    + cbn in H. destruct m; discriminate.
Qed.

Lemma caller_find_In k l o : caller_find k l = Some o -> In (k, o) l.
Proof.
  induction l as [|[a b] r IH]; cbn; [discriminate|].
  destruct (Nat.eqb_spec a k) as [->|Hne].
  - intros [= ->]. left. reflexivity.
  - intros H. right. auto.
Qed.

Lemma caller_set_In k o l k' o' :
  In (k', o') (caller_set k o l) -> (k' = k /\ o' = o) \/ In (k', o') l.
Proof.
  induction l as [|[a b] r IH]; cbn; [tauto|].
  destruct (Nat.eqb_spec a k) as [->|Hne].
  - intros [H|H]; [injection H as <- <-; auto | right; right; exact H].
  - intros [H|H]; [right; left; exact H|]. destruct (IH H) as [H'|H']; auto.
Qed.

Lemma two_in_length {A} (a b : A) l : In a l -> In b l -> a <> b -> 2 <= length l.
Proof.
  destruct l as [|x [|y r]]; cbn; intros Ha Hb Hne; try tauto; [|lia].
  destruct Ha as [<-|[]], Hb as [<-|[]]. congruence.
Qed.

(* ------------------------------------------------------------------ the invariant *)
Definition finv (s : fstate) : Prop :=
  (* the map only points at calls whose closure has not returned *)
  (forall key c, In (key, c) (f_map s) -> exists cl, nth_error (f_calls s) c = Some cl /\ fc_done cl = false) /\
  (* dups counts the chans beyond the first *)
  (forall c cl, nth_error (f_calls s) c = Some cl -> S (fc_dups cl) = length (fc_waiters cl)) /\
  (* a caller is one of the chans of its call; what it received is that call's final verdict *)
  (forall k o, In (k, o) (f_callers s) ->
     exists cl, nth_error (f_calls s) (call_of o) = Some cl /\ In k (fc_waiters cl) /\
       match o with
       | FGot _ sh ld => fc_done cl = true /\ sh = (0 <? fc_dups cl) /\ ld = head_is k (fc_waiters cl)
       | _ => True
       end).

Lemma finv_init : finv f_init.
Proof.
  repeat split; cbn; try tauto.
  intros c cl H. destruct c; discriminate.
Qed.

Lemma fstep_inv s o s' : finv s -> fstep s o = Some s' -> finv s'.
Proof.
  intros (H1 & H2 & H3) Hs. destruct o as [k key|c|key|k|k]; cbn in Hs.
  - (* FJoin *)
    destruct (caller_find k (f_callers s)); [discriminate|].
    destruct (map_find key (f_map s)) as [c|] eqn:Em.
    + destruct (nth_error (f_calls s) c) as [cl|] eqn:En; [|discriminate].
      injection Hs as <-.
      destruct (H1 _ _ (map_find_In _ _ _ Em)) as (cl0 & En0 & Hd). rewrite En in En0. injection En0 as <-.
      repeat split; cbn.
      * intros key0 c0 Hin. rewrite nth_upd_call. destruct (Nat.eqb_spec c c0) as [<-|Hne].
        -- rewrite En. eexists. split; [reflexivity|]. exact Hd.
        -- apply H1 with key0. exact Hin.
      * intros c0 cl0 Hn. rewrite nth_upd_call in Hn. destruct (Nat.eqb_spec c c0) as [<-|Hne].
        -- rewrite En in Hn. injection Hn as <-. cbn. rewrite app_length. cbn. pose proof (H2 _ _ En). lia.
        -- apply H2 with c0. exact Hn.
      * intros k0 o0 Hin. apply in_app_iff in Hin as [Hin|[Hin|[]]].
        -- destruct (H3 _ _ Hin) as (cl0 & Hn & Hw & Hm). rewrite nth_upd_call.
           destruct (Nat.eqb_spec c (call_of o0)) as [E|Hne].
           ++ rewrite En. rewrite <- E in Hn. rewrite En in Hn. injection Hn as <-.
              eexists. split; [reflexivity|]. split; [cbn; apply in_app_iff; left; exact Hw|].
              destruct o0; auto. destruct Hm as (Hdone & _). congruence.
           ++ exists cl0. auto.
        -- injection Hin as <- <-. cbn. rewrite nth_upd_call, Nat.eqb_refl, En.
           eexists. split; [reflexivity|]. split; [cbn; apply in_app_iff; right; left; reflexivity | exact I].
    + injection Hs as <-. repeat split; cbn.
      * intros key0 c0 [Hin|Hin].
        -- injection Hin as _ <-. rewrite nth_app_last. eexists. split; reflexivity.
        -- destruct (H1 _ _ Hin) as (cl0 & Hn & Hd). exists cl0. split; [apply nth_app_some; exact Hn | exact Hd].
      * intros c0 cl0 Hn. apply nth_app_one in Hn as [Hn|[_ ->]]; [apply H2 with c0; exact Hn | reflexivity].
      * intros k0 o0 Hin. apply in_app_iff in Hin as [Hin|[Hin|[]]].
        -- destruct (H3 _ _ Hin) as (cl0 & Hn & Hw & Hm). exists cl0. split; [apply nth_app_some; exact Hn | auto].
        -- injection Hin as <- <-. cbn. rewrite nth_app_last. eexists. split; [reflexivity|].
           split; [left; reflexivity | exact I].
  - (* FFinish *)
    destruct (nth_error (f_calls s) c) as [cl|] eqn:En; [|discriminate].
    destruct (fc_done cl) eqn:Ed; [discriminate|]. injection Hs as <-.
    repeat split; cbn.
    + intros key0 c0 Hin. apply filter_In in Hin as [Hin Hne]. cbn in Hne.
      rewrite nth_upd_call. destruct (Nat.eqb_spec c c0) as [<-|Hne'].
      * rewrite Nat.eqb_refl in Hne. discriminate.
      * apply H1 with key0. exact Hin.
    + intros c0 cl0 Hn. rewrite nth_upd_call in Hn. destruct (Nat.eqb_spec c c0) as [<-|Hne].
      * rewrite En in Hn. injection Hn as <-. cbn. apply H2 with c. exact En.
      * apply H2 with c0. exact Hn.
    + intros k0 o0 Hin. destruct (H3 _ _ Hin) as (cl0 & Hn & Hw & Hm). rewrite nth_upd_call.
      destruct (Nat.eqb_spec c (call_of o0)) as [E|Hne].
      * rewrite En. rewrite <- E in Hn. rewrite En in Hn. injection Hn as <-.
        eexists. split; [reflexivity|]. split; [exact Hw|].
        destruct o0; auto. destruct Hm as (Hdone & _). congruence.
      * exists cl0. auto.
  - (* FForget *)
    injection Hs as <-. repeat split; cbn; auto.
    intros key0 c0 Hin. apply filter_In in Hin as [Hin _]. apply H1 with key0. exact Hin.
  - (* FRecv *)
    destruct (caller_find k (f_callers s)) as [o|] eqn:Ec; [|discriminate].
    destruct o as [c| |]; try discriminate.
    destruct (nth_error (f_calls s) c) as [cl|] eqn:En; [|discriminate].
    destruct (fc_done cl) eqn:Ed; [|discriminate]. injection Hs as <-.
    repeat split; cbn; auto.
    intros k0 o0 Hin. apply caller_set_In in Hin as [[-> ->]|Hin]; [|apply H3; exact Hin].
    destruct (H3 _ _ (caller_find_In _ _ _ Ec)) as (cl0 & Hn & Hw & _). cbn in Hn. rewrite En in Hn. injection Hn as <-.
    cbn. exists cl. repeat split; auto.
  - (* FCancel *)
    destruct (caller_find k (f_callers s)) as [o|] eqn:Ec; [|discriminate].
    destruct o as [c| |]; try discriminate. injection Hs as <-.
    repeat split; cbn; auto.
    intros k0 o0 Hin. apply caller_set_In in Hin as [[-> ->]|Hin]; [|apply H3; exact Hin].
    destruct (H3 _ _ (caller_find_In _ _ _ Ec)) as (cl0 & Hn & Hw & _). cbn in Hn.
    cbn. exists cl0. repeat split; auto.
Qed.

Lemma fsteps_inv : forall l s, finv s -> finv (fsteps s l).
Proof.
  induction l as [|o r IH]; intros s Hi; cbn; [exact Hi|].
  destruct (fstep s o) as [s1|] eqn:E; [apply IH; eapply fstep_inv; eauto | apply IH; exact Hi].
Qed.

(* ------------------------------------------------------------------ what the flag promises *)
Lemma flight_lemma : forall ops,
  let s := fsteps f_init ops in
  (* two callers holding the SAME result object were both told so, and at most one of them ran the closure *)
  (forall k1 k2 c s1 l1 s2 l2, k1 <> k2 ->
     In (k1, FGot c s1 l1) (f_callers s) -> In (k2, FGot c s2 l2) (f_callers s) ->
     s1 = true /\ s2 = true /\ ~ (l1 = true /\ l2 = true)) /\
  (* a caller told "not shared" is the only caller that ever joined that call: nobody else holds,
     waits for, or walked away from that result *)
  (forall k c l, In (k, FGot c false l) (f_callers s) ->
     forall k2 o, In (k2, o) (f_callers s) -> call_of o = c -> k2 = k) /\
  (* what a caller got is the result of the call it joined, after that call's closure returned *)
  (forall k c sh l, In (k, FGot c sh l) (f_callers s) ->
     exists cl, nth_error (f_calls s) c = Some cl /\ fc_done cl = true /\ In k (fc_waiters cl)).
Proof.
  intros ops s. pose proof (fsteps_inv ops f_init finv_init) as (H1 & H2 & H3). fold s in H1, H2, H3.
  split; [|split].
  - intros k1 k2 c s1 l1 s2 l2 Hne Ha Hb.
    destruct (H3 _ _ Ha) as (cl & Hn & Hw & Hd & -> & ->).
    destruct (H3 _ _ Hb) as (cl' & Hn' & Hw' & Hd' & -> & ->).
    cbn in Hn, Hn'. rewrite Hn in Hn'. injection Hn' as <-.
    pose proof (two_in_length _ _ _ Hw Hw' Hne) as Hlen. pose proof (H2 _ _ Hn) as Hdups.
    assert (Hsh : (0 <? fc_dups cl) = true) by (apply Nat.ltb_lt; lia).
    rewrite Hsh. repeat split; auto.
    intros [Ea Eb]. destruct (fc_waiters cl) as [|h t]; cbn in Ea, Eb; [discriminate|].
    apply Nat.eqb_eq in Ea, Eb. congruence.
  - intros k c l Ha k2 o Hb Hc.
    destruct (H3 _ _ Ha) as (cl & Hn & Hw & Hd & Hsh & _). cbn in Hn.
    destruct (H3 _ _ Hb) as (cl' & Hn' & Hw' & _). rewrite Hc, Hn in Hn'. injection Hn' as <-.
    pose proof (H2 _ _ Hn) as Hdups. symmetry in Hsh. apply Nat.ltb_ge in Hsh.
    destruct (fc_waiters cl) as [|x [|y r]]; cbn in Hdups; try lia.
    destruct Hw as [<-|[]], Hw' as [<-|[]]. reflexivity.
  - intros k c sh l Ha. destruct (H3 _ _ Ha) as (cl & Hn & Hw & Hd & _). exists cl. auto.
Qed.

(* the variant that never tells the leader: a leader and a follower hold one object, the leader
   believing it its own *)
Lemma leader_unshared_witness :
  f_callers (fsteps_leader_unshared f_init [FJoin 1 7%N; FJoin 2 7%N; FFinish 0; FRecv 1; FRecv 2])
  = [(1, FGot 0 false true); (2, FGot 0 true false)] /\
  f_callers (fsteps f_init [FJoin 1 7%N; FJoin 2 7%N; FFinish 0; FRecv 1; FRecv 2])
  = [(1, FGot 0 true true); (2, FGot 0 true false)].
Proof. vm_compute. split; reflexivity. Qed.
