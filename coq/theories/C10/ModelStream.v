(* C10 — stream side: tcpStream.stage / flush (server/tcp_stream.go), tcpJob.Write /
   rejectInPlace (server/tcp_engine.go), dnsclient.WriteFrameFrom, and the read side
   (fillMore / next / body and the frame loop of serveConn).  Executable definitions only.

   The connection is the environment: every conn.Write call consumes one entry of a script
   that says how many bytes that call accepts (None: all; Some k with k < len: k bytes and an
   error, as net.Conn.Write must), every conn.Read call one entry saying how many bytes the
   kernel hands over at most (>= 1).  SetDeadline succeeds or fails as the operation says.
   The drain and fill buffer sizes are PARAMETERS of the model (the theorems hold for every
   size); the code's sizes come from Gen/C10.v. *)
From Sdns Require Export Common.Base Gen.C10 C10.Model.
Open Scope N_scope.

(* dns.MaxMsgSize = tcpJobBufSize: Gen.C10.tcp_job_buf_size is the source's value (evaluated with
   the miekg constant); Proofs_Pool.stream_constants proves it equal to this numeral, which the
   framing proofs compute with *)
Definition max_msg_size : N := 65535.

Definition frame (p : list byte) : list byte :=
  let n := N.of_nat (length p) in [n / 256; n mod 256] ++ p.

(* what a client does with the byte stream: whole frames, and the incomplete rest *)
Fixpoint parse_frames (fuel : nat) (bs : list byte) : list (list byte) * list byte :=
  match fuel with
  | O => ([], bs)
  | S f =>
      match bs with
      | h :: l :: rest =>
          let n := N.to_nat (h * 256 + l) in
          if (length rest <? n)%nat then ([], bs)
          else let '(ps, r) := parse_frames f (skipn n rest) in (firstn n rest :: ps, r)
      | _ => ([], bs)
      end
  end.
Definition parse_stream (bs : list byte) := parse_frames (length bs) bs.

(* ------------------------------------------------------------------ connection, write side *)
Record wconn := mkWconn {
  k_out : list (list byte);          (* what each conn.Write call put on the wire, newest first *)
  k_script : list (option nat)
}.
Definition wire_bytes (k : wconn) : list byte := concat (rev (k_out k)).
Definition conn_write (k : wconn) (data : list byte) : wconn * bool :=
  match k_script k with
  | [] => (mkWconn (data :: k_out k) [], true)
  | None :: r => (mkWconn (data :: k_out k) r, true)
  | Some n :: r =>
      if (length data <=? n)%nat then (mkWconn (data :: k_out k) r, true)
      else (mkWconn (firstn n data :: k_out k) r, false)
  end.

Record sstate := mkSstate {
  t_held : list byte;                (* drain[:held] *)
  t_werr : bool;                     (* s.werr != nil *)
  t_conn : wconn;
  t_arm : list bool;                 (* ENV: result of each coming conn.SetDeadline call (true when exhausted) *)
  t_acc : list (list byte);          (* GHOST: payloads whose frame went to the drain or to a direct write, oldest first *)
  t_ok : list (list byte)            (* GHOST: payloads whose stage returned nil, oldest first *)
}.
Definition s_init (script : list (option nat)) (arms : list bool) : sstate :=
  mkSstate [] false (mkWconn [] script) arms [] [].

Inductive serr := SNil | SWerr (* sticky *) | STooLarge | SArm | SWrite.
Definition serr_code (e : serr) : N :=
  match e with SNil => 0 | SWerr => 1 | STooLarge => 2 | SArm => 3 | SWrite => 4 end.

(* beforeWrite / beforeRead / body: s.arm() with a deadline that differs from the armed one:
   one conn.SetDeadline call *)
Definition s_arm (st : sstate) : sstate * bool :=
  match t_arm st with
  | [] => (st, true)
  | b :: r => (mkSstate (t_held st) (t_werr st) (t_conn st) r (t_acc st) (t_ok st), b)
  end.

(* func (s *tcpStream) flush(); its own arm() is a no-op: every caller has just armed *)
Definition s_flush (st : sstate) : sstate * serr :=
  if t_werr st then (st, SWerr)
  else match t_held st with
       | [] => (st, SNil)
       | h =>
           let '(k, ok) := conn_write (t_conn st) h in
           (mkSstate (firstn (N.to_nat flush_held) h) (negb ok) k (t_arm st) (t_acc st) (t_ok st), if ok then SNil else SWrite)
       end.
Definition s_armflush (st : sstate) : sstate * serr :=
  let '(st1, ok) := s_arm st in
  if ok then s_flush st1 else (st1, SArm).

(* func (s *tcpStream) stage(payload []byte), drain of size D *)
Definition s_stage (D : nat) (st : sstate) (p : list byte) : sstate * serr :=
  if t_werr st then (st, SWerr)
  else if max_msg_size <? N.of_nat (length p) then (st, STooLarge)
  else
    let need := (N.to_nat frame_prefix_len + length p)%nat in
    if (D <? need)%nat then
      (* too large for the buffer: flush what is staged, then the frame on its own *)
      match s_armflush st with
      | (st1, SNil) =>
          (* WriteFrameFrom: net.Buffers{prefix, payload}.WriteTo(conn) *)
          let '(k1, ok1) := conn_write (t_conn st1) (firstn (N.to_nat frame_prefix_len) (frame p)) in
          if negb ok1 then (mkSstate (t_held st1) true k1 (t_arm st1) (t_acc st1 ++ [p]) (t_ok st1), SWrite)
          else let '(k2, ok2) := conn_write k1 p in
               if ok2 then (mkSstate (t_held st1) false k2 (t_arm st1) (t_acc st1 ++ [p]) (t_ok st1 ++ [p]), SNil)
               else (mkSstate (t_held st1) true k2 (t_arm st1) (t_acc st1 ++ [p]) (t_ok st1), SWrite)
      | (st1, e) => (st1, e)
      end
    else
      let pre := if (D <? length (t_held st) + need)%nat then s_armflush st else (st, SNil) in
      match pre with
      | (st1, SNil) => (mkSstate (t_held st1 ++ frame p) false (t_conn st1) (t_arm st1) (t_acc st1 ++ [p]) (t_ok st1 ++ [p]), SNil)
      | (st1, e) => (st1, e)
      end.

(* func (j *tcpJob) Write(b): len(b) > tcpJobBufSize (= dns.MaxMsgSize) refuses before staging *)
Definition tcp_job_write (D : nat) (st : sstate) (p : list byte) : sstate * serr :=
  if max_msg_size <? N.of_nat (length p) then (st, STooLarge) else s_stage D st p.

Inductive sop :=
| SStage (p : list byte)                   (* tcpJob.Write *)
| SReject (rx : list byte) (notimp : bool) (* tcpJob.rejectInPlace *)
| SFlush                                   (* beforeWrite/beforeRead + flush *)
| SArmOnly.                                (* a SetDeadline with no write behind it (body) *)

Definition s_step (D : nat) (st : sstate) (o : sop) : sstate * serr :=
  match o with
  | SStage p => tcp_job_write D st p
  | SReject rx notimp => s_stage D st (reject_bytes rx notimp)
  | SFlush => s_armflush st
  | SArmOnly => let '(st1, ok) := s_arm st in (st1, if ok then SNil else SArm)
  end.
Fixpoint s_run (D : nat) (st : sstate) (l : list sop) : sstate * list serr :=
  match l with
  | [] => (st, [])
  | o :: r => let '(st1, e) := s_step D st o in
              let '(st2, es) := s_run D st1 r in (st2, e :: es)
  end.
Definition sop_payloads (o : sop) : list (list byte) :=
  match o with SStage p => [p] | SReject rx n => [reject_bytes rx n] | _ => [] end.

(* ------------------------------------------------------------------ read side *)
Record rconn := mkRconn {
  r_in : list byte;                  (* bytes the client has sent and the server has not read yet *)
  r_script : list nat                (* per conn.Read call: at most this many bytes (0 is read as 1) *)
}.
Record fstate := mkFstate {
  f_start : nat;                     (* s.start *)
  f_buf : list byte;                 (* fill[start:end] *)
  f_conn : rconn
}.
(* conn.Read(p) with len p = room: n >= 1 bytes, or EOF *)
Definition conn_read (k : rconn) (room : nat) : option (list byte * rconn) :=
  match r_in k with
  | [] => None
  | _ =>
      let want := match r_script k with [] => room | c :: _ => Nat.min room (Nat.max 1 c) end in
      Some (firstn want (r_in k), mkRconn (skipn want (r_in k)) (tl (r_script k)))
  end.
(* func (s *tcpStream) fillMore(), fill of size F *)
Definition f_fill_more (F : nat) (f : fstate) : option fstate :=
  let f1 := mkFstate 0 (f_buf f) (f_conn f) in                       (* compaction *)
  if (length (f_buf f1) =? F)%nat then None                           (* io.ErrShortBuffer *)
  else match conn_read (f_conn f1) (F - length (f_buf f1)) with
       | None => None
       | Some (bs, k) => Some (mkFstate 0 (f_buf f1 ++ bs) k)
       end.
(* func (s *tcpStream) next(n) *)
Fixpoint f_next (fuel F : nat) (f : fstate) (n : nat) : option (list byte * fstate) :=
  if (n <=? length (f_buf f))%nat
  then Some (firstn n (f_buf f), mkFstate (f_start f + n) (skipn n (f_buf f)) (f_conn f))
  else match fuel with
       | O => None
       | S fu => match f_fill_more F f with
                 | None => None
                 | Some f1 => f_next fu F f1 n
                 end
       end.
(* io.ReadFull(conn, dst) *)
Fixpoint read_full (fuel : nat) (k : rconn) (n : nat) : option (list byte * rconn) :=
  match n with
  | O => Some ([], k)
  | _ => match fuel with
         | O => None
         | S fu => match conn_read k n with
                   | None => None
                   | Some (bs, k1) =>
                       match read_full fu k1 (n - length bs) with
                       | None => None
                       | Some (bs2, k2) => Some (bs ++ bs2, k2)
                       end
                   end
         end
  end.
(* func (s *tcpStream) body(dst), len dst = n *)
Definition f_body (fuel F : nat) (f : fstate) (n : nat) : option (list byte * fstate) :=
  if (n <=? F)%nat then f_next fuel F f n
  else let held := firstn n (f_buf f) in
       match read_full fuel (f_conn f) (n - length held) with
       | None => None
       | Some (bs, k) => Some (held ++ bs, mkFstate (f_start f + length held) (skipn n (f_buf f)) k)
       end.
(* the frame loop of serveConn: prefix, length check, body; stops at the first error or
   out-of-range length *)
Definition min_tcp_frame : N := wire_header_len.
Fixpoint f_frames (fuel F : nat) (f : fstate) : list (list byte) :=
  match fuel with
  | O => []
  | S fu =>
      match f_next fuel F f (N.to_nat frame_prefix_len) with
      | None => []
      | Some (pre, f1) =>
          let len := nthb pre 0 * 256 + nthb pre 1 in
          if (len <? min_tcp_frame) || (max_msg_size <? len) then []
          else match f_body fuel F f1 (N.to_nat len) with
               | None => []
               | Some (b, f2) => b :: f_frames fu F f2
               end
      end
  end.

(* ------------------------------------------------------------------ one connection: serveConn *)
(* the handler's operations as stream operations: LeaseWire hands out tx[2:2], the body is
   appended there and Write copies it into the drain like any other buffer *)
Fixpoint tcp_hops (cur : list byte) (l : list hop) : list sop * bool (* panicked *) :=
  match l with
  | [] => ([], false)
  | HPanic :: _ => ([], true)
  | HWrite bs :: r => let '(o, p) := tcp_hops cur r in (SStage bs :: o, p)
  | HLease :: r => tcp_hops [] r
  | HAppend bs :: r => tcp_hops (cur ++ bs) r
  | HWriteLease :: r => let '(o, p) := tcp_hops cur r in (SStage cur :: o, p)
  (* tcpJob.WriteMsg: PackBuffer(j.tx[2:]) — in the job's own TX or an array of the library's —
     then the same size guard as Write and stream.stage(out), which COPIES out into the drain *)
  | HWriteMsg _ bs :: r => let '(o, p) := tcp_hops cur r in (SStage bs :: o, p)
  | HFlushStaged :: r => let '(o, p) := tcp_hops cur r in (SFlush :: o, p)
  end.
(* serveFrame: the operations of one frame, and whether the connection goes on *)
Definition frame_sops (rx : list byte) (sc : hscript) : list sop * bool :=
  match accept_verdict rx with
  | None => ([], false)
  | Some v =>
      if v =? accept_ignore then ([], true)
      else if v =? accept_notimp then ([SReject rx true], true)
      else if v =? accept_formerr then ([SReject rx false], true)
      else let '(o, p) := tcp_hops [] (h_main sc) in
           if p then (o, false)                      (* serveConn's recover: the connection ends *)
           else if h_ok sc then (o, true) else (o ++ [SReject rx false], true)
  end.
Fixpoint s_run_quiet (D : nat) (st : sstate) (l : list sop) : sstate :=
  match l with
  | [] => st
  | o :: r => s_run_quiet D (fst (s_step D st o)) r
  end.
Definition script_of (scripts : list (N * hscript)) (rx : list byte) : hscript :=
  match find (fun p => fst p =? be16 rx 0) scripts with
  | Some p => snd p
  | None => no_script
  end.

(* the loop; returns the final stream state and the trace of stream operations performed *)
Fixpoint conn_loop (fuel D F : nat) (scripts : list (N * hscript)) (f : fstate) (st : sstate) (tr : list sop)
  : sstate * list sop :=
  let finish (st : sstate) (tr : list sop) :=
    (* deferred: if stream.held > 0 { beforeWrite; flush } *)
    match t_held st with
    | [] => (st, tr)
    | _ => (fst (s_armflush st), tr ++ [SFlush])
    end in
  match fuel with
  | O => finish st tr
  | S fu =>
      (* about to block for a prefix: replies out first *)
      let pre := if (length (f_buf f) <? N.to_nat frame_prefix_len)%nat
                 then (let '(st1, e) := s_armflush st in (st1, tr ++ [SFlush], match e with SNil => true | _ => false end))
                 else (st, tr, true) in
      let '(st1, tr1, ok) := pre in
      if negb ok then finish st1 tr1
      else match f_next fuel F f (N.to_nat frame_prefix_len) with
           | None => finish st1 tr1
           | Some (pre, f1) =>
               let len := nthb pre 0 * 256 + nthb pre 1 in
               if (len <? min_tcp_frame) || (max_msg_size <? len) then finish st1 tr1
               else
                 (* body(): the wait for the rest of the frame is armed *)
                 let need_arm := (length (f_buf f1) <? N.to_nat len)%nat in
                 let '(st2, aok) := if need_arm then s_arm st1 else (st1, true) in
                 let tr2 := if need_arm then tr1 ++ [SArmOnly] else tr1 in
                 if negb aok then finish st2 tr2
                 else match f_body fuel F f1 (N.to_nat len) with
                      | None => finish st2 tr2
                      | Some (rx, f2) =>
                          let '(ops, go) := frame_sops rx (script_of scripts rx) in
                          let st3 := s_run_quiet D st2 ops in
                          if go then conn_loop fu D F scripts f2 st3 (tr2 ++ ops)
                          else finish st3 (tr2 ++ ops)
                      end
           end
  end.

(* ------------------------------------------------------------------ the frames a connection serves (session 3) *)
(* the frames serveConn SERVES: conn_loop's own recursion, returning the frame bodies handed to
   serveFrame instead of the stream trace *)
Fixpoint conn_frames (fuel D F : nat) (scripts : list (N * hscript)) (f : fstate) (st : sstate) : list (list byte) :=
  match fuel with
  | O => []
  | S fu =>
      let pre := if (length (f_buf f) <? N.to_nat frame_prefix_len)%nat
                 then (let '(st1, e) := s_armflush st in (st1, match e with SNil => true | _ => false end))
                 else (st, true) in
      let '(st1, ok) := pre in
      if negb ok then []
      else match f_next fuel F f (N.to_nat frame_prefix_len) with
           | None => []
           | Some (pre, f1) =>
               let len := (nthb pre 0 * 256 + nthb pre 1)%N in
               if ((len <? min_tcp_frame) || (max_msg_size <? len))%N then []
               else
                 let need_arm := (length (f_buf f1) <? N.to_nat len)%nat in
                 let '(st2, aok) := if need_arm then s_arm st1 else (st1, true) in
                 if negb aok then []
                 else match f_body fuel F f1 (N.to_nat len) with
                      | None => []
                      | Some (rx, f2) =>
                          let '(ops, go) := frame_sops rx (script_of scripts rx) in
                          let st3 := s_run_quiet D st2 ops in
                          rx :: (if go then conn_frames fu D F scripts f2 st3 else [])
                      end
           end
  end.

Definition frame_replies (scripts : list (N * hscript)) (rx : list byte) : list (list byte) :=
  flat_map sop_payloads (fst (frame_sops rx (script_of scripts rx))).

