(* C10 — pooled stream across connections; shared lookup with caller-side edits (phase 3). *)

From Sdns Require Import Common.Base Gen.C10 C10.Model C10.ModelStream C10.ModelShare C10.ModelPool
  C10.Proofs_UdpBase C10.Proofs_Stream C10.Proofs_Share.
Open Scope nat_scope.

(* ------------------------------------------------------------------ source ties of the stream side *)
Lemma stream_constants :
  tcp_job_buf_size = max_msg_size /\ min_tcp_frame_src = min_tcp_frame /\
  (forall n, go_largeClass n = (Z.of_N tcp_small_frame <? n)%Z).
Proof. repeat split. Qed.

(* ------------------------------------------------------------------ pooled stream *)
(* whatever the previous connection left in the stream (staged bytes, a sticky write error, ghost
   history), the next connection starts exactly like one on a brand-new stream *)
Lemma reset_forgets st script arms : s_reset st script arms = s_init script arms.
Proof. unfold s_reset, s_init. reflexivity. Qed.

Lemma conn_serve_fresh D F prev c :
  conn_serve D F prev c = conn_serve D F (s_init [] []) (mkConnio false (ci_input c) (ci_reads c) (ci_scripts c) (ci_budgets c) (ci_arms c)).
Proof. unfold conn_serve. cbn [ci_reused ci_input ci_reads ci_scripts ci_budgets ci_arms]. destruct (ci_reused c); [rewrite reset_forgets|]; reflexivity. Qed.

(* ... so what a connection's client receives does not depend on the connections served before
   it on the same pooled stream *)
Lemma conn_seq_independent D F : forall l prev,
  conn_seq D F prev l = map (fun c => rev (k_out (t_conn (conn_serve D F (s_init [] []) (mkConnio false (ci_input c) (ci_reads c) (ci_scripts c) (ci_budgets c) (ci_arms c)))))) l.
Proof.
  induction l as [|c r IH]; intros prev; cbn [conn_seq map]; auto.
  rewrite IH. rewrite (conn_serve_fresh D F prev c). reflexivity.
Qed.

(* ------------------------------------------------------------------ shared lookup with edits *)
Record linv2 (res : msg) (ids : list N) (shared : bool) (E : nat -> list byte) (s : lstate) : Prop := mkLinv2 {
  l2_ids : map fst (l_waiters s) = ids;
  l2_res : shared = true -> nth_error (l_heap s) 0 = Some res;
  l2_g1 : forall i id p, nth_error (l_waiters s) i = Some (id, G1 p) ->
            exists m, nth_error (l_heap s) p = Some m /\ m_body m = m_body res;
  l2_g2 : forall i id p, nth_error (l_waiters s) i = Some (id, G2 p) ->
            nth_error (l_heap s) p = Some (mkMsg id (m_body res ++ E i));
  l2_e : forall i, is_g2 (nth_error (l_waiters s) i) = false -> E i = [];
  l2_pos : shared = true -> forall i w p, nth_error (l_waiters s) i = Some w -> ptr_of w = Some p -> 1 <= p;
  l2_dist : shared = true -> forall i j wi wj p, i <> j -> nth_error (l_waiters s) i = Some wi ->
            nth_error (l_waiters s) j = Some wj -> ptr_of wi = Some p -> ptr_of wj = Some p -> False;
  l2_lt : forall i w p, nth_error (l_waiters s) i = Some w -> ptr_of w = Some p -> p < length (l_heap s);
  l2_solo : shared = false -> length ids <= 1 /\
            forall i id, nth_error (l_waiters s) i = Some (id, G0) ->
              exists m, nth_error (l_heap s) 0 = Some m /\ m_body m = m_body res
}.

Lemma linv2_ext res ids shared E E' s : (forall k, E' k = E k) -> linv2 res ids shared E s -> linv2 res ids shared E' s.
Proof.
  intros HE Hi. destruct Hi. constructor; auto.
  - intros i id p H. rewrite HE. eauto.
  - intros i H. rewrite HE. eauto.
Qed.

Lemma linv2_init res ids shared : (2 <= length ids -> shared = true) -> linv2 res ids shared (fun _ => []) (l_init res ids).
Proof.
  intros Hs. unfold l_init.
  assert (Hw : forall i w, nth_error (map (fun id : N => (id, G0)) ids) i = Some w -> snd w = G0).
  { intros i w H. apply nth_error_In in H. apply in_map_iff in H as (x & <- & _). reflexivity. }
  constructor; cbn [l_heap l_waiters].
  - rewrite map_map. cbn. apply map_id.
  - auto.
  - intros i id p H. apply Hw in H. discriminate.
  - intros i id p H. apply Hw in H. discriminate.
  - auto.
  - intros _ i w p H E. apply Hw in H. destruct w as [? st]. cbn in *. subst. discriminate.
  - intros _ i j wi wj p _ H _ E. apply Hw in H. destruct wi as [? st]. cbn in *. subst. discriminate.
  - intros i w p H E. apply Hw in H. destruct w as [? st]. cbn in *. subst. discriminate.
  - intros E. split.
    + destruct (Nat.le_gt_cases (length ids) 1); auto. rewrite Hs in E by lia. discriminate.
    + intros i id _. exists res. auto.
Qed.

(* two different waiters never hold the same message *)
Lemma l2_other res ids shared E s : linv2 res ids shared E s ->
  forall i k wi wk p q, k <> i -> nth_error (l_waiters s) i = Some wi -> ptr_of wi = Some p ->
    nth_error (l_waiters s) k = Some wk -> ptr_of wk = Some q -> q <> p.
Proof.
  intros Hi i k wi wk p q Hne Hwi Ep Hk Eq ->. destruct shared eqn:Es.
  - eapply (l2_dist _ _ _ _ _ Hi eq_refl k i); eauto.
  - destruct (l2_solo _ _ _ _ _ Hi eq_refl) as (Hlen & _).
    pose proof (l2_ids _ _ _ _ _ Hi) as Hids. apply (f_equal (@length N)) in Hids. rewrite map_length in Hids.
    apply nth_error_lt in Hk. apply nth_error_lt in Hwi. lia.
Qed.

Lemma solo_one res ids shared E s : linv2 res ids shared E s -> shared = false ->
  forall i k wi wk, nth_error (l_waiters s) i = Some wi -> nth_error (l_waiters s) k = Some wk -> k = i.
Proof.
  intros Hi Es i k wi wk H1 H2. destruct (l2_solo _ _ _ _ _ Hi Es) as (Hlen & _).
  pose proof (l2_ids _ _ _ _ _ Hi) as Hids. apply (f_equal (@length N)) in Hids. rewrite map_length in Hids.
  apply nth_error_lt in H1. apply nth_error_lt in H2. lia.
Qed.

Lemma is_g2_upd l i k (w : N * wstage) :
  i < length l -> is_g2 (nth_error (upd l i w) k) = if Nat.eqb k i then is_g2 (Some w) else is_g2 (nth_error l k).
Proof.
  intros L. destruct (Nat.eqb_spec k i) as [->|Hne].
  - rewrite nth_upd_same by auto. reflexivity.
  - rewrite nth_upd_other by auto. reflexivity.
Qed.

Lemma linv2_go res ids shared E s i : linv2 res ids shared E s -> linv2 res ids shared E (l_step 0 shared s i).
Proof.
  intros Hi. unfold l_step. destruct (nth_error (l_waiters s) i) as [[id [|p|p]]|] eqn:Ew; auto.
  - (* choose the message *)
    assert (Li : i < length (l_waiters s)) by (eapply nth_error_lt; eauto).
    destruct shared eqn:Es.
    + rewrite (l2_res _ _ _ _ _ Hi eq_refl).
      constructor; cbn [l_heap l_waiters].
      * rewrite (map_fst_upd _ _ _ _ Ew). apply (l2_ids _ _ _ _ _ Hi).
      * intros _. rewrite nth_error_app1; [apply (l2_res _ _ _ _ _ Hi eq_refl)|].
        pose proof (l2_res _ _ _ _ _ Hi eq_refl) as H. apply nth_error_lt in H. auto.
      * intros k id' p' H. apply nth_upd_cases in H as [(-> & E0 & _)|(Hne & H)].
        -- inversion E0; subst. rewrite nth_app_fresh. eexists. split; eauto.
        -- destruct (l2_g1 _ _ _ _ _ Hi _ _ _ H) as (m & Hm & Hb). exists m. split; auto.
           rewrite nth_error_app1; auto. eapply nth_error_lt; eauto.
      * intros k id' p' H. apply nth_upd_cases in H as [(-> & E0 & _)|(Hne & H)]; [discriminate|].
        rewrite nth_error_app1; [apply (l2_g2 _ _ _ _ _ Hi _ _ _ H)|].
        eapply (l2_lt _ _ _ _ _ Hi); eauto.
      * intros k Hk. rewrite is_g2_upd in Hk by auto. apply (l2_e _ _ _ _ _ Hi).
        revert Hk. destruct (Nat.eqb_spec k i) as [Hki|]; auto. intros _. rewrite Hki, Ew. reflexivity.
      * intros _ k w p' H E0. apply nth_upd_cases in H as [(-> & -> & _)|(Hne & H)].
        -- cbn in E0. inversion E0; subst. pose proof (l2_res _ _ _ _ _ Hi eq_refl) as H0. apply nth_error_lt in H0. lia.
        -- eapply (l2_pos _ _ _ _ _ Hi); eauto.
      * intros _ k1 k2 w1 w2 p' Hne H1 H2 E1 E2.
        apply nth_upd_cases in H1 as [(-> & -> & _)|(Hn1 & H1)]; apply nth_upd_cases in H2 as [(-> & -> & _)|(Hn2 & H2)].
        -- congruence.
        -- cbn in E1. inversion E1; subst. pose proof (l2_lt _ _ _ _ _ Hi _ _ _ H2 E2). lia.
        -- cbn in E2. inversion E2; subst. pose proof (l2_lt _ _ _ _ _ Hi _ _ _ H1 E1). lia.
        -- eapply (l2_dist _ _ _ _ _ Hi eq_refl k1 k2); eauto.
      * intros k w p' H E0. rewrite app_length. cbn. apply nth_upd_cases in H as [(-> & -> & _)|(Hne & H)].
        -- cbn in E0. inversion E0. lia.
        -- pose proof (l2_lt _ _ _ _ _ Hi _ _ _ H E0). lia.
      * discriminate.
    + destruct (l2_solo _ _ _ _ _ Hi eq_refl) as (Hlen & Hg0).
      destruct (Hg0 _ _ Ew) as (m0 & Hm0 & Hb0).
      constructor; cbn [l_heap l_waiters].
      * rewrite (map_fst_upd _ _ _ _ Ew). apply (l2_ids _ _ _ _ _ Hi).
      * discriminate.
      * intros k id' p' H. apply nth_upd_cases in H as [(-> & E0 & _)|(Hne & H)].
        -- inversion E0; subst. eauto.
        -- eapply (l2_g1 _ _ _ _ _ Hi); eauto.
      * intros k id' p' H. apply nth_upd_cases in H as [(-> & E0 & _)|(Hne & H)]; [discriminate|].
        eapply (l2_g2 _ _ _ _ _ Hi); eauto.
      * intros k Hk. rewrite is_g2_upd in Hk by auto. apply (l2_e _ _ _ _ _ Hi).
        revert Hk. destruct (Nat.eqb_spec k i) as [Hki|]; auto. intros _. rewrite Hki, Ew. reflexivity.
      * discriminate.
      * discriminate.
      * intros k w p' H E0. apply nth_upd_cases in H as [(-> & -> & _)|(Hne & H)].
        -- cbn in E0. inversion E0; subst. eapply nth_error_lt; eauto.
        -- eapply (l2_lt _ _ _ _ _ Hi); eauto.
      * intros _. split; auto. intros k id' H. apply nth_upd_cases in H as [(-> & E0 & _)|(Hne & H)]; [discriminate|].
        exfalso. apply Hne. eapply (solo_one _ _ _ _ _ Hi eq_refl i k); eauto.
  - (* rewrite the ID *)
    destruct (l2_g1 _ _ _ _ _ Hi _ _ _ Ew) as (m & Hm & Hb). rewrite Hm.
    assert (Hlt : p < length (l_heap s)) by (eapply nth_error_lt; eauto).
    assert (Li : i < length (l_waiters s)) by (eapply nth_error_lt; eauto).
    assert (Hother : forall k w q, k <> i -> nth_error (l_waiters s) k = Some w -> ptr_of w = Some q -> q <> p).
    { intros k w q Hne Hk Eq. eapply (l2_other _ _ _ _ _ Hi i k); eauto; reflexivity. }
    constructor; cbn [l_heap l_waiters].
    + rewrite (map_fst_upd _ _ _ _ Ew). apply (l2_ids _ _ _ _ _ Hi).
    + intros Es. rewrite nth_upd_other; [apply (l2_res _ _ _ _ _ Hi Es)|].
      pose proof (l2_pos _ _ _ _ _ Hi Es _ _ _ Ew eq_refl). lia.
    + intros k id' p' H. apply nth_upd_cases in H as [(-> & E0 & _)|(Hne & H)]; [discriminate|].
      rewrite nth_upd_other; [eapply (l2_g1 _ _ _ _ _ Hi); eauto|].
      intros <-. eapply (Hother k); eauto. reflexivity.
    + intros k id' p' H. apply nth_upd_cases in H as [(-> & E0 & _)|(Hne & H)].
      * inversion E0; subst. rewrite nth_upd_same by auto. rewrite Hb.
        rewrite (l2_e _ _ _ _ _ Hi i) by (rewrite Ew; reflexivity). rewrite app_nil_r. reflexivity.
      * rewrite nth_upd_other; [eapply (l2_g2 _ _ _ _ _ Hi); eauto|].
        intros <-. eapply (Hother k); eauto. reflexivity.
    + intros k Hk. rewrite is_g2_upd in Hk by auto. apply (l2_e _ _ _ _ _ Hi).
      revert Hk. destruct (Nat.eqb_spec k i) as [Hki|]; auto. discriminate.
    + intros Es k w p' H E0. apply nth_upd_cases in H as [(-> & -> & _)|(Hne & H)].
      * cbn in E0. injection E0 as <-. eapply (l2_pos _ _ _ _ _ Hi Es i (id, G1 p)); eauto.
      * eapply (l2_pos _ _ _ _ _ Hi); eauto.
    + intros Es k1 k2 w1 w2 p' Hne H1 H2 E1 E2.
      apply nth_upd_cases in H1 as [(-> & -> & _)|(Hn1 & H1)]; apply nth_upd_cases in H2 as [(-> & -> & _)|(Hn2 & H2)].
      * congruence.
      * cbn in E1. injection E1 as <-. eapply (Hother k2); eauto.
      * cbn in E2. injection E2 as <-. eapply (Hother k1); eauto.
      * eapply (l2_dist _ _ _ _ _ Hi Es k1 k2); eauto.
    + intros k w p' H E0. rewrite upd_length. apply nth_upd_cases in H as [(-> & -> & _)|(Hne & H)].
      * cbn in E0. injection E0 as <-. auto.
      * eapply (l2_lt _ _ _ _ _ Hi); eauto.
    + intros Es. destruct (l2_solo _ _ _ _ _ Hi Es) as (Hlen & Hg0). split; auto.
      intros k id' H. apply nth_upd_cases in H as [(-> & E0 & _)|(Hne & H)]; [discriminate|].
      exfalso. apply Hne. eapply (solo_one _ _ _ _ _ Hi Es i k); eauto.
Qed.

Lemma linv2_edit res ids shared E s i bs :
  linv2 res ids shared E s ->
  linv2 res ids shared (fun k => E k ++ eff_edit s (LEdit i bs) k) (l_edit s i bs).
Proof.
  intros Hi. unfold l_edit, eff_edit.
  destruct (nth_error (l_waiters s) i) as [[id st]|] eqn:Ew.
  2:{ eapply linv2_ext; [|exact Hi]. intros k. cbn [is_g2]. rewrite andb_false_r. apply app_nil_r. }
  destruct st as [|p|p].
  1,2: (eapply linv2_ext; [|exact Hi]); intros k; cbn [is_g2]; rewrite andb_false_r; apply app_nil_r.
  eapply (linv2_ext _ _ _ (fun k => E k ++ (if Nat.eqb i k then bs else []))).
  { intros k. cbn [is_g2]. rewrite andb_true_r. reflexivity. }
  pose proof (l2_g2 _ _ _ _ _ Hi _ _ _ Ew) as Hm. rewrite Hm. cbn [m_id m_body].
  assert (Hlt : p < length (l_heap s)) by (eapply nth_error_lt; eauto).
  assert (Hother : forall k w q, k <> i -> nth_error (l_waiters s) k = Some w -> ptr_of w = Some q -> q <> p).
  { intros k w q Hne Hk Eq. eapply (l2_other _ _ _ _ _ Hi i k); eauto; reflexivity. }
  constructor; cbn [l_heap l_waiters].
  - apply (l2_ids _ _ _ _ _ Hi).
  - intros Es. rewrite nth_upd_other; [apply (l2_res _ _ _ _ _ Hi Es)|].
    pose proof (l2_pos _ _ _ _ _ Hi Es _ _ _ Ew eq_refl). lia.
  - intros k id' p' H. rewrite nth_upd_other; [eapply (l2_g1 _ _ _ _ _ Hi); eauto|].
    intros <-. destruct (Nat.eq_dec k i) as [->|Hne]; [congruence|]. eapply (Hother k); eauto. reflexivity.
  - intros k id' p' H. destruct (Nat.eqb_spec i k) as [<-|Hne].
    + rewrite Ew in H. inversion H; subst. rewrite nth_upd_same by auto. rewrite app_assoc. reflexivity.
    + rewrite app_nil_r. rewrite nth_upd_other; [eapply (l2_g2 _ _ _ _ _ Hi); eauto|].
      intros <-. eapply (Hother k); eauto. reflexivity.
  - intros k Hk. destruct (Nat.eqb_spec i k) as [<-|Hne].
    + rewrite Ew in Hk. discriminate.
    + rewrite app_nil_r. apply (l2_e _ _ _ _ _ Hi). auto.
  - apply (l2_pos _ _ _ _ _ Hi).
  - apply (l2_dist _ _ _ _ _ Hi).
  - intros k w p' H E0. rewrite upd_length. eapply (l2_lt _ _ _ _ _ Hi); eauto.
  - intros Es. destruct (l2_solo _ _ _ _ _ Hi Es) as (Hlen & Hg0). split; auto.
    intros k id' H. assert (k = i) by (eapply (solo_one _ _ _ _ _ Hi Es i k); eauto). subst. congruence.
Qed.

Lemma linv2_act res ids shared E s a :
  linv2 res ids shared E s ->
  linv2 res ids shared (fun k => E k ++ eff_edit s a k) (l_act 0 shared s a).
Proof.
  intros Hi. destruct a as [i|i bs].
  - cbn [l_act]. eapply linv2_ext; [|apply linv2_go; exact Hi]. intros k. cbn. apply app_nil_r.
  - apply linv2_edit. auto.
Qed.

Lemma linv2_run res ids shared : forall sched E s,
  linv2 res ids shared E s ->
  linv2 res ids shared (fun k => E k ++ own_edits 0 shared s sched k) (l_run2 0 shared s sched).
Proof.
  unfold l_run2. induction sched as [|a r IH]; intros E s Hi; cbn [fold_left own_edits].
  - eapply linv2_ext; [|exact Hi]. intros k. apply app_nil_r.
  - eapply linv2_ext; [|apply IH; apply linv2_act; exact Hi]. intros k. cbn beta. rewrite app_assoc. reflexivity.
Qed.

(* under every schedule of the waiters' copy / set-ID steps AND their callers' later in-place
   edits: the flight's result is never modified while it is shared; a returned waiter's message
   is the result's content under its own id followed by what THAT waiter appended — nothing any
   other waiter did ever shows in it; no two waiters hold the same message *)
Theorem shared_private_lemma res ids shared sched :
  (2 <= length ids -> shared = true) ->
  let s := l_run2 0 shared (l_init res ids) sched in
  (shared = true -> nth_error (l_heap s) 0 = Some res) /\
  (forall i id p, nth_error (l_waiters s) i = Some (id, G2 p) ->
     nth_error (l_heap s) p = Some (mkMsg id (m_body res ++ own_edits 0 shared (l_init res ids) sched i))) /\
  (forall i j wi wj p, i <> j -> nth_error (l_waiters s) i = Some wi -> nth_error (l_waiters s) j = Some wj ->
     ptr_of wi = Some p -> ptr_of wj = Some p -> False).
Proof.
  intros Hs s. pose proof (linv2_run res ids shared sched _ _ (linv2_init res ids shared Hs)) as Hi. fold s in Hi.
  split; [apply (l2_res _ _ _ _ _ Hi)|]. split.
  - intros i id p H. apply (l2_g2 _ _ _ _ _ Hi _ _ _ H).
  - intros i j wi wj p Hne H1 H2 E1 E2. eapply (l2_other _ _ _ _ _ Hi j i wj wi p p); eauto.
Qed.

(* the variant in which the leader keeps the flight's result (and followers copy it) violates
   this: the leader returns, its caller edits, and a follower that copies afterwards carries the
   leader's client's bytes *)
Lemma leader_keeps_leaks :
  let s := fold_left (l_act_leader_keeps 0) [LGo 0; LGo 0; LEdit 0 [42%N]; LGo 1; LGo 1] (l_init (mkMsg 99 [7%N]) [1%N; 2%N]) in
  nth_error (l_waiters s) 1 = Some (2%N, G2 1) /\ nth_error (l_heap s) 1 = Some (mkMsg 2 [7%N; 42%N]).
Proof. vm_compute. split; reflexivity. Qed.

(* ------------------------------------------------------------------ slab cache: the shard sweep *)
Open Scope N_scope.
(* slabCache.get(shard): for i := 0; i < slabShardCount; i++ { c.shards[(shard+i)&(slabShardCount-1)].pop() } —
   the sweep visits EVERY shard, whatever the hint: an idle slab anywhere is found before get gives up *)
Lemma shard_sweep_covers : forall shard k, k < slab_shard_count ->
  exists i, i < slab_shard_count /\ N.land (shard + i) (slab_shard_count - 1) = k.
Proof.
  intros shard k Hk. unfold slab_shard_count in *.
  exists ((k + 16 - shard mod 16) mod 16). split.
  - apply N.mod_lt. discriminate.
  - change (16 - 1) with (N.ones 4). rewrite N.land_ones. change (2 ^ 4) with 16.
    pose proof (N.mod_lt shard 16 ltac:(discriminate)) as Hs.
    rewrite N.add_mod_idemp_r by discriminate.
    pose proof (N.div_mod' shard 16) as Hd.
    replace (shard + (k + 16 - shard mod 16)) with (k + (shard / 16 + 1) * 16) by lia.
    rewrite N.mod_add by discriminate. apply N.mod_small. exact Hk.
Qed.
(* ... and never leaves the array *)
Lemma shard_index_in_range : forall shard i, N.land (shard + i) (slab_shard_count - 1) < slab_shard_count.
Proof.
  intros. unfold slab_shard_count. change (16 - 1) with (N.ones 4). rewrite N.land_ones. apply N.mod_lt. discriminate.
Qed.
