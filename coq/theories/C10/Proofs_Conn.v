(* C10 — one connection: whatever serveConn does to the stream is a sequence of the stream
   operations of Proofs_Stream, issued frame by frame in the order the frames were read. *)
From Sdns Require Import Common.Base Gen.C10 C10.Model C10.ModelStream C10.Proofs_Stream.
Open Scope nat_scope.

Lemma s_run_quiet_fst D : forall ops st, s_run_quiet D st ops = fst (s_run D st ops).
Proof.
  induction ops as [|o r IH]; intros st; cbn; auto.
  destruct (s_step D st o) as [st1 e] eqn:E. cbn. rewrite IH. destruct (s_run D st1 r). reflexivity.
Qed.

Lemma s_run_quiet_app D : forall a b st, s_run_quiet D st (a ++ b) = s_run_quiet D (s_run_quiet D st a) b.
Proof. induction a as [|o r IH]; intros b st; cbn; auto. Qed.

Lemma finish_trace D st tr :
  let r := match t_held st with [] => (st, tr) | _ => (fst (s_armflush st), tr ++ [SFlush]) end in
  exists ops, snd r = tr ++ ops /\ fst r = s_run_quiet D st ops.
Proof.
  cbn. destruct (t_held st).
  - exists []. cbn. rewrite app_nil_r. auto.
  - exists [SFlush]. cbn. auto.
Qed.

Lemma trace_compose D st tr st1 tr1 ops1 (r : sstate * list sop) :
  tr1 = tr ++ ops1 -> st1 = s_run_quiet D st ops1 ->
  (exists ops, snd r = tr1 ++ ops /\ fst r = s_run_quiet D st1 ops) ->
  exists ops, snd r = tr ++ ops /\ fst r = s_run_quiet D st ops.
Proof.
  intros -> -> (ops & E1 & E2). exists (ops1 ++ ops). rewrite app_assoc, s_run_quiet_app. auto.
Qed.

Theorem conn_loop_trace D F scripts : forall fuel f st tr,
  exists ops, snd (conn_loop fuel D F scripts f st tr) = tr ++ ops /\
              fst (conn_loop fuel D F scripts f st tr) = s_run_quiet D st ops.
Proof.
  induction fuel as [|fu IH]; intros f st tr.
  - cbn [conn_loop]. apply (finish_trace D st tr).
  - cbn [conn_loop].
    destruct (Nat.ltb (length (f_buf f)) (N.to_nat frame_prefix_len)) eqn:Epre.
    + (* about to block: flush first *)
      destruct (s_armflush st) as [st1 e] eqn:Ef.
      assert (Hst1 : st1 = s_run_quiet D st [SFlush]) by (cbn; rewrite Ef; reflexivity).
      destruct e; cbn [negb];
        try (eapply (trace_compose D st tr st1 (tr ++ [SFlush]) [SFlush]); [reflexivity|exact Hst1|apply finish_trace]).
      destruct (f_next (S fu) F f (N.to_nat frame_prefix_len)) as [[pre f1]|];
        [|eapply (trace_compose D st tr st1 (tr ++ [SFlush]) [SFlush]); [reflexivity|exact Hst1|apply finish_trace]].
      destruct (_ || _);
        [eapply (trace_compose D st tr st1 (tr ++ [SFlush]) [SFlush]); [reflexivity|exact Hst1|apply finish_trace]|].
      destruct (Nat.ltb (length (f_buf f1)) _).
      * destruct (s_arm st1) as [st2 aok] eqn:Ea.
        assert (Hst2 : st2 = s_run_quiet D st [SFlush; SArmOnly]).
        { cbn. rewrite Ef. cbn. rewrite Ea. reflexivity. }
        destruct aok; cbn [negb];
          [|eapply (trace_compose D st tr st2 ((tr ++ [SFlush]) ++ [SArmOnly]) [SFlush; SArmOnly]);
            [rewrite <- app_assoc; reflexivity|exact Hst2|apply finish_trace]].
        destruct (f_body (S fu) F f1 _) as [[rx f2]|];
          [|eapply (trace_compose D st tr st2 ((tr ++ [SFlush]) ++ [SArmOnly]) [SFlush; SArmOnly]);
            [rewrite <- app_assoc; reflexivity|exact Hst2|apply finish_trace]].
        destruct (frame_sops rx (script_of scripts rx)) as [ops go].
        eapply (trace_compose D st tr (s_run_quiet D st2 ops) (((tr ++ [SFlush]) ++ [SArmOnly]) ++ ops) ([SFlush; SArmOnly] ++ ops)).
        { rewrite <- !app_assoc. reflexivity. }
        { rewrite s_run_quiet_app, <- Hst2. reflexivity. }
        destruct go; [apply IH | apply finish_trace].
      * destruct (f_body (S fu) F f1 _) as [[rx f2]|];
          [|eapply (trace_compose D st tr st1 (tr ++ [SFlush]) [SFlush]); [reflexivity|exact Hst1|apply finish_trace]].
        destruct (frame_sops rx (script_of scripts rx)) as [ops go].
        eapply (trace_compose D st tr (s_run_quiet D st1 ops) ((tr ++ [SFlush]) ++ ops) ([SFlush] ++ ops)).
        { rewrite <- !app_assoc. reflexivity. }
        { rewrite s_run_quiet_app, <- Hst1. reflexivity. }
        destruct go; [apply IH | apply finish_trace].
    + cbn [negb].
      destruct (f_next (S fu) F f (N.to_nat frame_prefix_len)) as [[pre f1]|]; [|apply finish_trace].
      destruct (_ || _); [apply finish_trace|].
      destruct (Nat.ltb (length (f_buf f1)) _).
      * destruct (s_arm st) as [st2 aok] eqn:Ea.
        assert (Hst2 : st2 = s_run_quiet D st [SArmOnly]) by (cbn; rewrite Ea; reflexivity).
        destruct aok; cbn [negb];
          [|eapply (trace_compose D st tr st2 (tr ++ [SArmOnly]) [SArmOnly]); [reflexivity|exact Hst2|apply finish_trace]].
        destruct (f_body (S fu) F f1 _) as [[rx f2]|];
          [|eapply (trace_compose D st tr st2 (tr ++ [SArmOnly]) [SArmOnly]); [reflexivity|exact Hst2|apply finish_trace]].
        destruct (frame_sops rx (script_of scripts rx)) as [ops go].
        eapply (trace_compose D st tr (s_run_quiet D st2 ops) ((tr ++ [SArmOnly]) ++ ops) ([SArmOnly] ++ ops)).
        { rewrite <- !app_assoc. reflexivity. }
        { rewrite s_run_quiet_app, <- Hst2. reflexivity. }
        destruct go; [apply IH | apply finish_trace].
      * destruct (f_body (S fu) F f1 _) as [[rx f2]|]; [|apply finish_trace].
        destruct (frame_sops rx (script_of scripts rx)) as [ops go].
        eapply (trace_compose D st tr (s_run_quiet D st ops) (tr ++ ops) ops); [reflexivity|reflexivity|].
        destruct go; [apply IH | apply finish_trace].
Qed.
