(* C10 — the DoQ frame writer, translated, is the model's [frame]. *)
From Sdns Require Import Common.Base Common.GoList Gen.C10 C10.ModelStream.
Open Scope N_scope.

Lemma copy_at_head2 (a b x y : N) r : go_copy_at (a :: b :: r) 0 [x; y] = x :: y :: r.
Proof.
  unfold go_copy_at. change (Z.to_nat 0) with 0%nat. cbn [length Nat.sub firstn app Nat.add].
  replace (Nat.min (S (S (length r))) 2) with 2%nat by lia. reflexivity.
Qed.
Lemma copy_at_body (x y : N) msg : go_copy_at (x :: y :: repeat 0 (length msg)) 2 msg = x :: y :: msg.
Proof.
  unfold go_copy_at. change (Z.to_nat 2) with 2%nat.
  assert (E : Nat.min (length (x :: y :: repeat 0 (length msg)) - 2) (length msg) = length msg).
  { cbn [length]. rewrite repeat_length. lia. }
  rewrite E, firstn_all. cbn [firstn]. 
  replace (skipn (2 + length msg) (x :: y :: repeat 0 (length msg))) with (@nil N).
  2:{ symmetry. apply skipn_all2. cbn [length]. rewrite repeat_length. lia. }
  rewrite app_nil_r. reflexivity.
Qed.

(* doq.addPrefixLen TRANSLATED (RFC 9250 4.2: a two-octet length in front of every message, as on
   TCP): for every message that fits a frame it is the model's [frame] — the function every stream
   theorem (stream_framing, stream_parse_whole, conn_replies_in_query_order) is stated with *)
Lemma gen_addPrefixLen msg : N.of_nat (length msg) <= max_msg_size -> go_addPrefixLen msg = frame msg.
Proof.
  unfold max_msg_size. intros H. unfold go_addPrefixLen, frame, go_make, go_put_be16, go_len, Z_to_uw, two16.
  set (n := length msg).
  assert (E1 : Z.to_N (Z.of_nat n mod Z.of_N 65536) = N.of_nat n).
  { rewrite Z.mod_small by lia. lia. }
  rewrite E1.
  assert (E2 : (N.of_nat n / 256) mod 256 = N.of_nat n / 256).
  { apply N.mod_small. apply N.div_lt_upper_bound; lia. }
  rewrite E2.
  replace (Z.to_nat (2 + Z.of_nat n)) with (S (S n)) by lia.
  cbn [repeat]. rewrite copy_at_head2. subst n. rewrite copy_at_body. reflexivity.
Qed.

(* a 300-octet message: prefix 1, 44 *)
Example addPrefixLen_example :
  firstn 3 (go_addPrefixLen (repeat 7 300)) = [1; 44; 7] /\ length (go_addPrefixLen (repeat 7 300)) = 302%nat.
Proof. vm_compute. split; reflexivity. Qed.
