(* C10 — chains across concurrent requests (phase 3).  Executable definitions only.

   A request runs on a middleware.Chain whose base writer is rebound to the request's transport
   (ModelShare.w_step: WReset / WWrite).  Two kinds of chain exist side by side:
     * JOB-OWNED: wire-born requests (Server.ServeRaw / ServeRawInline / ServeRawReplay on a
       strictSlots transport) use the chain stored in the transport's job slab:
       Pipeline.BindChain(chain); chain.ResetWire(w, req); ...; chain.Finish().  The chain
       never leaves its slab.
     * POOLED: every other request (DoH, DoQ, decoded fallback, sub-queries) draws one from
       Pipeline.chainPool: NewChain(); chain.Reset(w, msg); ...; PutChain(chain).
   Requests overlap in time (an upstream resolution parks a goroutine inside its chain), so the
   model is an interleaving of per-request steps.  The transport of request r is the number r.

   What the model does NOT assume: that a chain is idle when it is rebound.  KBeginWire is
   enabled whenever the SLAB is free (Model.v/single_owner: one goroutine serves a slab at a
   time), KBeginPool whenever the pool hands the chain out — exactly what the code relies on.
   That no chain then ever has two users is the theorem (Proofs_Chains). *)
From Sdns Require Export Common.Base Gen.C10 C10.Model C10.ModelShare.
Open Scope nat_scope.

Record kst := mkKst {
  k_n : nat;                              (* job slabs; slab j owns chain j *)
  k_chains : list writer;                 (* every chain ever made (its base writer); index = identity *)
  k_pool : list nat;                      (* Pipeline.chainPool *)
  k_busy : list (nat * nat);              (* (request, chain): serves in flight *)
  k_wire : list (nat * nat);              (* (request, slab): the wire-born ones among them *)
  k_log : list (nat * N * list byte)      (* GHOST, newest first: request r's Write reached transport t with bytes b *)
}.
Definition k_init (n : nat) : kst := mkKst n (repeat (mkWriter 0 writer_reset_size) n) [] [] [] [].
Definition tr_of (r : nat) : N := N.of_nat r.

Inductive kact :=
| KBeginWire (r j : nat)             (* BindChain(slab j's chain); ResetWire(transport of r, req) *)
| KBeginPool (r c : nat)             (* NewChain hands out c (pooled, or brand-new = next index); Reset(transport of r, msg) *)
| KWrite (r : nat) (bs : list byte)  (* a handler of r writes a reply through the chain's writer *)
| KEndWire (r : nat)                 (* chain.Finish(): the chain stays with its slab *)
| KEndPool (r : nat).                (* Pipeline.PutChain(chain) *)

Definition chain_of (r : nat) (b : list (nat * nat)) : option nat :=
  match find (fun p => Nat.eqb (fst p) r) b with Some p => Some (snd p) | None => None end.
Definition rm_req (r : nat) (b : list (nat * nat)) : list (nat * nat) :=
  filter (fun p => negb (Nat.eqb (fst p) r)) b.
Definition reset_chain (chains : list writer) (c r : nat) : list writer :=
  match nth_error chains c with
  | Some w => upd chains c (fst (w_step w (WReset (tr_of r))))
  | None => chains
  end.

(* None = the step is not enabled (the code cannot take it in this state) *)
Definition kstep (s : kst) (a : kact) : option kst :=
  match a with
  | KBeginWire r j =>
      if (j <? k_n s) && negb (mem_nat j (map snd (k_wire s))) && negb (mem_nat r (map fst (k_busy s)))
      then Some (mkKst (k_n s) (reset_chain (k_chains s) j r) (k_pool s) ((r, j) :: k_busy s) ((r, j) :: k_wire s) (k_log s))
      else None
  | KBeginPool r c =>
      if mem_nat r (map fst (k_busy s)) then None
      else if mem_nat c (k_pool s)
      then Some (mkKst (k_n s) (reset_chain (k_chains s) c r) (rem_nat c (k_pool s)) ((r, c) :: k_busy s) (k_wire s) (k_log s))
      else if Nat.eqb c (length (k_chains s))                          (* chainPool.New *)
      then Some (mkKst (k_n s) (k_chains s ++ [mkWriter (tr_of r) writer_reset_size]) (k_pool s) ((r, c) :: k_busy s) (k_wire s) (k_log s))
      else None
  | KWrite r bs =>
      match chain_of r (k_busy s) with
      | Some c =>
          match nth_error (k_chains s) c with
          | Some w =>
              let '(w1, e) := w_step w (WWrite bs) in
              Some (mkKst (k_n s) (upd (k_chains s) c w1) (k_pool s) (k_busy s) (k_wire s)
                          (match e with Some (t, b) => (r, t, b) :: k_log s | None => k_log s end))
          | None => None
          end
      | None => None
      end
  | KEndWire r =>
      if mem_nat r (map fst (k_wire s))
      then Some (mkKst (k_n s) (k_chains s) (k_pool s) (rm_req r (k_busy s)) (rm_req r (k_wire s)) (k_log s))
      else None
  | KEndPool r =>
      match chain_of r (k_busy s) with
      | Some c => if mem_nat r (map fst (k_wire s)) then None
                  else Some (mkKst (k_n s) (k_chains s) (c :: k_pool s) (rm_req r (k_busy s)) (k_wire s) (k_log s))
      | None => None
      end
  end.

(* steps that are not enabled are skipped *)
Fixpoint ksteps (s : kst) (l : list kact) : kst :=
  match l with
  | [] => s
  | a :: r => match kstep s a with Some s1 => ksteps s1 r | None => ksteps s r end
  end.

(* the VARIANT the property forbids (not the code): a wire-born serve is closed with PutChain —
   the job-owned chain lands in the pool while it still belongs to its slab *)
Definition kstep_put_owned (s : kst) (a : kact) : option kst :=
  match a with
  | KEndWire r =>
      match chain_of r (k_busy s) with
      | Some c => if mem_nat r (map fst (k_wire s))
                  then Some (mkKst (k_n s) (k_chains s) (c :: k_pool s) (rm_req r (k_busy s)) (rm_req r (k_wire s)) (k_log s))
                  else None
      | None => None
      end
  | _ => kstep s a
  end.
Fixpoint ksteps_put_owned (s : kst) (l : list kact) : kst :=
  match l with
  | [] => s
  | a :: r => match kstep_put_owned s a with Some s1 => ksteps_put_owned s1 r | None => ksteps_put_owned s r end
  end.
