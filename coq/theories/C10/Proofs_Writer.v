(* C10 — the base writer: one reply per request, to the bound transport, by whichever path. *)
From Sdns Require Import Common.Base Gen.C10 C10.Model C10.ModelShare C10.ModelWriter.
Open Scope N_scope.

(* the payload a request asks the writer to deliver, whichever form it takes *)
Definition own_call (r : wreq) (c : tcall) : Prop :=
  match r, c with
  | RBytes bs true _, TBytes b => b = bs
  | RWire body _, TBytes b => b = body
  | RMsg m _ _, TMsg m' => m' = m
  | RMsg m _ (Some body), TBytes b => b = body
  | _, _ => False
  end.

(* the specification: the FIRST request that is not an undecodable Write goes out, once, to t *)
Fixpoint wf_spec (t : N) (bytes_ok fresh : bool) (l : list wreq) : list (option (N * tcall)) :=
  match l with
  | [] => []
  | r :: rest =>
      if fresh
      then match r with
           | RBytes bs false _ => None :: wf_spec t bytes_ok true rest
           | RBytes bs true _ => Some (t, TBytes bs) :: wf_spec t bytes_ok false rest
           | RWire body _ => Some (t, TBytes body) :: wf_spec t bytes_ok false rest
           | RMsg m _ packed =>
               Some (t, match (if bytes_ok then packed else None) with Some b => TBytes b | None => TMsg m end)
               :: wf_spec t bytes_ok false rest
           end
      else None :: wf_spec t bytes_ok false rest
  end.

Lemma of_nat_not_unwritten n : (Z.of_nat n =? writer_unwritten_size)%Z = false.
Proof. apply Z.eqb_neq. unfold writer_unwritten_size. lia. Qed.

Lemma wf_run_spec : forall l w, snd (wf_run w l) = wf_spec (wf_tr w) (wf_bytes_ok w) (wf_unwritten w) l.
Proof.
  induction l as [|r rest IH]; intros w; cbn [wf_run wf_spec]; auto.
  unfold wf_write. destruct (wf_unwritten w) eqn:Eu; cbn [negb].
  - destruct r as [bs ok rc|m rc packed|body rc].
    + destruct ok.
      * specialize (IH (wf_with w true (wf_haswire w) (Z.of_nat (length bs)) rc)). destruct (wf_run _ rest) as [w2 es].
        cbn [snd] in *. rewrite IH. unfold wf_unwritten, wf_with, wf_bytes_ok. cbn. rewrite of_nat_not_unwritten. reflexivity.
      * specialize (IH (wf_with w true (wf_haswire w) (wf_size w) (wf_rcode w))). destruct (wf_run _ rest) as [w2 es].
        cbn [snd] in *. rewrite IH. unfold wf_unwritten in *. unfold wf_with, wf_bytes_ok. cbn. rewrite Eu. reflexivity.
    + destruct (if wf_bytes_ok w then packed else None) as [body|] eqn:Ep.
      * specialize (IH (wf_with w true (wf_haswire w) (Z.of_nat (length body)) rc)). destruct (wf_run _ rest) as [w2 es].
        cbn [snd] in *. rewrite IH. unfold wf_unwritten, wf_with, wf_bytes_ok. cbn. rewrite of_nat_not_unwritten. reflexivity.
      * specialize (IH (wf_with w true (wf_haswire w) 0 rc)). destruct (wf_run _ rest) as [w2 es].
        cbn [snd] in *. rewrite IH. reflexivity.
    + specialize (IH (wf_with w false true 0 rc)). destruct (wf_run _ rest) as [w2 es].
      cbn [snd] in *. rewrite IH. reflexivity.
  - specialize (IH w). destruct (wf_run w rest) as [w2 es]. cbn [snd] in *. rewrite IH, Eu. reflexivity.
Qed.

Definition is_some {A} (o : option A) : bool := match o with Some _ => true | None => false end.

Lemma wf_spec_written t b l : forallb (fun e => negb (is_some e)) (wf_spec t b false l) = true.
Proof. induction l as [|r rest IH]; cbn; auto. Qed.

(* at most one transport call, to t, carrying the payload of the request it answers; an
   internal consumer (or any writer that is not a declared byte sink) gets the message object *)
Lemma wf_spec_facts t b : forall l fresh,
  (length (filter is_some (wf_spec t b fresh l)) <= 1)%nat /\
  (forall i c t', nth_error (wf_spec t b fresh l) i = Some (Some (t', c)) ->
     t' = t /\ exists r, nth_error l i = Some r /\ own_call r c /\
     (b = false -> match r with RMsg m _ _ => c = TMsg m | _ => True end)).
Proof.
  induction l as [|r rest IH]; intros fresh.
  - cbn. split; [lia|]. intros [|i] c t' H; discriminate.
  - cbn [wf_spec]. destruct fresh.
    + assert (W : (length (filter is_some (wf_spec t b false rest)) = 0)%nat).
      { pose proof (wf_spec_written t b rest) as F. induction (wf_spec t b false rest) as [|e es IHes]; cbn in *; auto.
        apply Bool.andb_true_iff in F as (F1 & F2). destruct e; [discriminate|]. cbn. auto. }
      assert (N0 : forall i c t', nth_error (wf_spec t b false rest) i = Some (Some (t', c)) -> False).
      { intros i c t' H. pose proof (wf_spec_written t b rest) as F. rewrite forallb_forall in F.
        apply nth_error_In in H. apply F in H. discriminate. }
      destruct r as [bs [|] rc|m rc packed|body rc].
      * split; [cbn; rewrite W; lia|]. intros [|i] c t' H; cbn in H.
        -- inversion H; subst. split; auto. eexists. split; [reflexivity|]. split; cbn; auto.
        -- exfalso. eapply N0; eauto.
      * destruct (IH true) as (I1 & I2). split; [cbn; exact I1|]. intros [|i] c t' H; cbn in H; [discriminate|].
        destruct (I2 _ _ _ H) as (E & r & Hr & Ho). split; auto. exists r. auto.
      * split; [cbn; rewrite W; lia|]. intros [|i] c t' H; cbn in H.
        -- inversion H; subst. split; auto. eexists. split; [reflexivity|].
           destruct b.
           { destruct packed as [body|]; cbn; (split; [reflexivity|]); intros X; discriminate X. }
           { destruct packed as [body|]; cbn; (split; [reflexivity|]); intros _; reflexivity. }
        -- exfalso. eapply N0; eauto.
      * split; [cbn; rewrite W; lia|]. intros [|i] c t' H; cbn in H.
        -- inversion H; subst. split; auto. eexists. split; [reflexivity|]. split; cbn; auto.
        -- exfalso. eapply N0; eauto.
    + destruct (IH false) as (I1 & I2). split; [cbn; exact I1|]. intros [|i] c t' H; cbn in H; [discriminate|].
      destruct (I2 _ _ _ H) as (E & r' & Hr & Ho). split; auto. exists r'. auto.
Qed.

(* whatever the chain served before (any w0), after a rebinding to transport t: *)
Theorem base_writer_lemma w0 t tcp ip internal direct l :
  let es := snd (wf_run (wf_bind w0 t tcp ip internal direct) l) in
  es = wf_spec t (direct && negb internal) true l /\
  (length (filter is_some es) <= 1)%nat /\
  (forall i c t', nth_error es i = Some (Some (t', c)) ->
     t' = t /\ exists r, nth_error l i = Some r /\ own_call r c /\
     (direct && negb internal = false -> match r with RMsg m _ _ => c = TMsg m | _ => True end)).
Proof.
  intros es. assert (E : es = wf_spec t (direct && negb internal) true l).
  { subst es. rewrite wf_run_spec. reflexivity. }
  split; [exact E|]. rewrite E. apply wf_spec_facts.
Qed.

(* the first request that is not an undecodable Write always gets through after a rebinding *)
Lemma base_writer_first_reply w0 t tcp ip internal direct r rest :
  match r with RBytes _ false _ => False | _ => True end ->
  exists c, nth_error (snd (wf_run (wf_bind w0 t tcp ip internal direct) (r :: rest))) 0 = Some (Some (t, c)).
Proof.
  intros H. rewrite wf_run_spec. cbn.
  destruct r as [bs [|] rc|m rc packed|body rc]; try tauto; eexists; reflexivity.
Qed.

(* the variant that tries the library path after a successful direct-pack write: two transport
   calls for one request (computed witness; the code makes one) *)
Lemma fallthrough_writes_twice :
  let w := wf_bind (mkWfull 9 true true 300 3 false 9 true true) 4 false 7 false true in
  snd (wf_write_fallthrough w (RMsg 5 0 (Some [1; 2; 3]))) = [(4, TBytes [1; 2; 3]); (4, TMsg 5)] /\
  snd (fst (wf_write w (RMsg 5 0 (Some [1; 2; 3])))) = Some (4, TBytes [1; 2; 3]).
Proof. vm_compute. split; reflexivity. Qed.

Example base_writer_example :
  let w := wf_bind (mkWfull 9 true true 300 3 false 9 true true) 4 false 7 false true in
  snd (wf_run w [RBytes [9; 9] false 0; RMsg 5 3 None; RMsg 6 0 (Some [1]); RWire [2] 0])
  = [None; Some (4, TMsg 5); None; None].
Proof. vm_compute. reflexivity. Qed.
