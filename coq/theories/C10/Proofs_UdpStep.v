(* C10 — UDP engine proofs, part 3: every atomic action preserves the invariant and none panics. *)
From Sdns Require Import Common.Base Gen.C10 C10.Model C10.Proofs_UdpBase C10.Proofs_UdpMove C10.Proofs_UdpTags.
Open Scope nat_scope.
Arguments burst_of : simpl never.
Arguments udp_tx_max : simpl never.

(* ------------------------------------------------------------------ "sid is not in that list" *)
Section Keep.
  Variables (c : cfg) (s : ust) (own : list place) (sid : nat).
  Hypothesis Hinv : inv c s own.

  Lemma keep_idle : nth_error own sid <> Some PIdle ->
    forall x, In x (u_idle s) <-> In x (u_idle s) /\ x <> sid.
  Proof. intros Hp x. split; [|tauto]. intros H. split; auto. intros ->. apply Hp. apply (i_idle _ _ _ Hinv); auto. Qed.
  Lemma keep_held : (forall r, nth_error own sid <> Some (PHeld r)) ->
    forall r x, In (r, x) (u_held s) <-> In (r, x) (u_held s) /\ x <> sid.
  Proof. intros Hp r x. split; [|tauto]. intros H. split; auto. intros ->. apply (Hp r). apply (i_held _ _ _ Hinv); auto. Qed.
  Lemma keep_ready : nth_error own sid <> Some PReady ->
    forall x, In x (u_ready s) <-> In x (u_ready s) /\ x <> sid.
  Proof. intros Hp x. split; [|tauto]. intros H. split; auto. intros ->. apply Hp. apply (i_ready _ _ _ Hinv); auto. Qed.
  Lemma keep_serv : (forall w, nth_error own sid <> Some (PServ w)) ->
    forall x w, In (x, w) (u_serv s) <-> In (x, w) (u_serv s) /\ x <> sid.
  Proof. intros Hp x w. split; [|tauto]. intros H. split; auto. intros ->. apply (Hp w). apply (i_serv _ _ _ Hinv); auto. Qed.
  Lemma keep_burst : (forall b, nth_error own sid <> Some (PBurst b)) ->
    forall b x, In (b, x) (u_burst s) <-> In (b, x) (u_burst s) /\ x <> sid.
  Proof. intros Hp b x. split; [|tauto]. intros H. split; auto. intros ->. apply (Hp b). apply (i_burst _ _ _ Hinv); auto. Qed.

  Lemma notin_idle : nth_error own sid <> Some PIdle -> ~ In sid (u_idle s).
  Proof. intros Hp H. apply Hp. apply (i_idle _ _ _ Hinv); auto. Qed.
  Lemma notin_ready : nth_error own sid <> Some PReady -> ~ In sid (u_ready s).
  Proof. intros Hp H. apply Hp. apply (i_ready _ _ _ Hinv); auto. Qed.
  Lemma notin_held : (forall r, nth_error own sid <> Some (PHeld r)) -> ~ In sid (map snd (u_held s)).
  Proof.
    intros Hp H. apply in_map_iff in H as ([r x] & E & H). cbn in E. subst.
    apply (Hp r). apply (i_held _ _ _ Hinv); auto.
  Qed.
  Lemma notin_serv : (forall w, nth_error own sid <> Some (PServ w)) -> ~ In sid (map fst (u_serv s)).
  Proof.
    intros Hp H. apply in_map_iff in H as ([x w] & E & H). cbn in E. subst.
    apply (Hp w). apply (i_serv _ _ _ Hinv); auto.
  Qed.
  Lemma notin_burst : (forall b, nth_error own sid <> Some (PBurst b)) -> ~ In sid (map snd (u_burst s)).
  Proof.
    intros Hp H. apply in_map_iff in H as ([b x] & E & H). cbn in E. subst.
    apply (Hp b). apply (i_burst _ _ _ Hinv); auto.
  Qed.
End Keep.

Lemma upd_own_sid (own : list place) sid p q : nth_error own sid = Some q -> nth_error (upd own sid p) sid = Some p.
Proof. intros H. apply nth_upd_same. eapply nth_error_lt; eauto. Qed.

Lemma burst_of_del_le b sid l : length (burst_of b (burst_del sid l)) <= length (burst_of b l).
Proof.
  unfold burst_of, burst_del. rewrite !map_length.
  induction l as [|[b' x] t IH]; cbn; auto.
  destruct (Nat.eqb x sid); cbn; destruct (Nat.eqb b' b); cbn; lia.
Qed.

Lemma burst_of_app b l b' x :
  burst_of b (l ++ [(b', x)]) = if Nat.eqb b' b then burst_of b l ++ [x] else burst_of b l.
Proof.
  unfold burst_of. rewrite filter_app, map_app. cbn. destruct (Nat.eqb b' b); cbn; auto. now rewrite app_nil_r.
Qed.

Lemma burst_of_del_nil b sid l : burst_of b l = [] -> burst_of b (burst_del sid l) = [].
Proof.
  intros H. pose proof (burst_of_del_le b sid l) as L. rewrite H in L. cbn in L.
  destruct (burst_of b (burst_del sid l)); auto. cbn in L. lia.
Qed.

(* ------------------------------------------------------------------ release *)
(* s is s0 with sid already taken out of its owner's list (and possibly its burst field cleared) *)
Lemma u_release_inv c s0 s own sid p from j jm :
  inv c s0 own ->
  nth_error own sid = Some p -> get_slab s0 sid = Some j ->
  p <> PIdle -> p <> PReady ->
  nth_error (u_slabs s) sid = Some jm -> s_state jm = from -> s_lease jm = s_lease j ->
  (forall x, x <> sid -> nth_error (u_slabs s) x = nth_error (u_slabs s0) x) ->
  length (u_slabs s) = length (u_slabs s0) ->
  u_log s = u_log s0 -> u_idle s = u_idle s0 -> u_ready s = u_ready s0 ->
  (forall w, In w (u_wdef s) -> In w (u_wdef s0)) ->
  (forall r x, In (r, x) (u_held s) <-> In (r, x) (u_held s0) /\ x <> sid) -> NoDup (map snd (u_held s)) ->
  (forall x w, In (x, w) (u_serv s) <-> In (x, w) (u_serv s0) /\ x <> sid) -> NoDup (map fst (u_serv s)) ->
  (forall b x, In (b, x) (u_burst s) <-> In (b, x) (u_burst s0) /\ x <> sid) -> NoDup (map snd (u_burst s)) ->
  (forall b, length (burst_of b (u_burst s)) <= length (burst_of b (u_burst s0))) ->
  exists s', u_release s sid from = Ok s' /\ inv c s' (upd own sid PIdle) /\
             u_held s' = u_held s /\ u_ready s' = u_ready s /\ u_serv s' = u_serv s /\ u_burst s' = u_burst s /\
             u_wdef s' = u_wdef s /\ length (u_slabs s') = length (u_slabs s) /\
             (forall x, x <> sid -> nth_error (u_slabs s') x = nth_error (u_slabs s) x).
Proof.
  intros Hinv Hp Hj Hni Hnr Hjm Hst Hls Hso Hsl Hlg Hid Hrd Hwd Hh Hhn Hsv Hsvn Hb Hbn Hbl.
  unfold u_release, get_slab. rewrite Hjm.
  unfold job_release. rewrite (transition_ok jm from st_free Hst).
  eexists. split; [reflexivity|].
  pose proof (i_local _ _ _ Hinv sid p j Hp Hj) as [Hbd Hloc].
  assert (Hlt : sid < length (u_slabs s0)) by (eapply nth_error_lt; eauto).
  assert (Hlt' : sid < length (u_slabs s)) by lia.
  split; [|cbn; rewrite ?upd_length; repeat split; auto; intros; apply nth_upd_other; auto].
  eapply inv_move with (s := s0) (sid := sid) (pn := PIdle) (evs := [ERelease sid (s_lease jm)]); eauto; cbn.
  - rewrite !upd_length, Hsl. apply (i_len _ _ _ Hinv).
  - eapply upd_own_sid; eauto.
  - intros x Hx. apply nth_upd_other; auto.
  - apply nth_upd_same; auto.
  - intros x Hx. rewrite nth_upd_other by auto. auto.
  - rewrite upd_length, Hsl. lia.
  - intros x. rewrite Hid. pose proof (keep_idle c s0 own sid Hinv) as K.
    rewrite Hp in K. specialize (K ltac:(congruence) x). split.
    + intros [<-|H]; [right; auto | left; apply K; auto].
    + intros [[H _]|[-> _]]; auto.
  - rewrite Hid. constructor; [|apply (i_idle_nd _ _ _ Hinv)].
    eapply notin_idle; eauto. rewrite Hp. congruence.
  - intros r x. rewrite Hh. split; [auto | intros [H|[_ H]]; [auto|discriminate]].
  - intros x. rewrite Hrd. pose proof (keep_ready c s0 own sid Hinv) as K.
    rewrite Hp in K. specialize (K ltac:(congruence) x). split; [left; apply K; auto | intros [H|[_ H]]; [tauto|discriminate]].
  - rewrite Hrd. apply (i_ready_nd _ _ _ Hinv).
  - intros x w. rewrite Hsv. split; [auto | intros [H|[_ H]]; [auto|discriminate]].
  - intros b x. rewrite Hb. split; [auto | intros [H|[_ H]]; [auto|discriminate]].
  - rewrite Hlg. reflexivity.
  - intros e [<-|[]]. reflexivity.
  - constructor; [apply (i_log _ _ _ Hinv) | exact I].
  - (* the released slab *)
    split.
    + intros e [<-|He] Es; cbn; [lia|]. rewrite Hlg in He. rewrite Hls. apply Hbd; auto.
    + cbn. auto.
  - intros b. specialize (Hbl b). pose proof (i_bsize _ _ _ Hinv b). lia.
  - intros w Hw. apply Hwd in Hw. pose proof (i_wdef _ _ _ Hinv w Hw) as [Hwl E]. specialize (Hbl w).
    split; auto. rewrite E in Hbl. cbn in Hbl. destruct (burst_of w (u_burst s)); auto. cbn in Hbl. lia.
Qed.

(* ------------------------------------------------------------------ flushTX *)

Definition flush_facts (s s' : ust) (own own' : list place) (sids : list nat) : Prop :=
  length own' = length own /\
  (forall x, ~ In x sids -> nth_error own' x = nth_error own x /\ nth_error (u_slabs s') x = nth_error (u_slabs s) x) /\
  u_held s' = u_held s /\ u_ready s' = u_ready s /\ u_serv s' = u_serv s /\ u_wdef s' = u_wdef s /\
  (forall b' x, In (b', x) (u_burst s') <-> In (b', x) (u_burst s) /\ ~ In x sids) /\
  (forall b', length (burst_of b' (u_burst s')) <= length (burst_of b' (u_burst s))) /\
  length (u_slabs s') = length (u_slabs s).

Lemma flush_release_inv c sids : forall s own b,
  inv c s own -> NoDup sids -> (forall x, In x sids -> In (b, x) (u_burst s)) ->
  exists s' own', flush_release s sids = Ok s' /\ inv c s' own' /\ flush_facts s s' own own' sids.
Proof.
  induction sids as [|sid r IH]; intros s own b Hinv Hnd Hin.
  - exists s, own. cbn. split; auto. split; auto. unfold flush_facts. repeat split; auto; try tauto.
  - inversion Hnd as [|? ? Hnr Hnd']; subst.
    assert (Hb : In (b, sid) (u_burst s)) by (apply Hin; left; auto).
    pose proof (proj1 (i_burst _ _ _ Hinv b sid) Hb) as Hp.
    destruct (inv_slab _ _ _ _ _ Hinv Hp) as [j Hj].
    pose proof (i_local _ _ _ Hinv sid _ j Hp Hj) as [_ (Hst & _)].
    cbn [flush_release].
    destruct (u_release_inv c s (set_bursts s (burst_del sid (u_burst s))) own sid (PBurst b) st_serving j j)
      as (s1 & E1 & Hinv1 & Hh1 & Hr1 & Hs1 & Hb1 & Hw1 & Hl1 & Ho1); auto; try discriminate; try reflexivity; cbn.
    + apply (keep_held c s own sid Hinv). intros r0. rewrite Hp. discriminate.
    + apply (i_held_nd _ _ _ Hinv).
    + apply (keep_serv c s own sid Hinv). intros w. rewrite Hp. discriminate.
    + apply (i_serv_nd _ _ _ Hinv).
    + intros b' x. rewrite burst_del_In. cbn. tauto.
    + unfold burst_del. apply NoDup_map_filter. apply (i_burst_nd _ _ _ Hinv).
    + intros b'. apply burst_of_del_le.
    + rewrite E1. cbn in Hh1, Hr1, Hs1, Hb1, Hw1, Hl1.
      destruct (IH s1 (upd own sid PIdle) b Hinv1 Hnd') as (s2 & own2 & E2 & Hinv2 & F).
      { intros x Hx. rewrite Hb1. apply burst_del_In. split; [apply Hin; right; auto|]. cbn. intros ->. auto. }
      exists s2, own2. split; auto. split; auto.
      destruct F as (F1 & F2 & F3 & F4 & F5 & F6 & F7 & F8 & F9).
      unfold flush_facts. rewrite F1, upd_length, F3, F4, F5, F6, Hh1, Hr1, Hs1, Hw1, F9, Hl1.
      repeat split; auto.
      * destruct (F2 x) as [G _]; [intros Hx; apply H; right; auto|]. rewrite G.
        apply nth_upd_other. intros ->. apply H. left; auto.
      * destruct (F2 x) as [_ G]; [intros Hx; apply H; right; auto|]. rewrite G.
        apply Ho1. intros ->. apply H. left; auto.
      * apply F7 in H. rewrite Hb1 in H. destruct H as [H _]. apply burst_del_In in H. tauto.
      * apply F7 in H. rewrite Hb1 in H. destruct H as [H G]. apply burst_del_In in H. cbn in H.
        intros [<-|Hx]; tauto.
      * intros [H G]. apply F7. split.
        -- rewrite Hb1. apply burst_del_In. split; auto. cbn. intros ->. apply G. left; auto.
        -- intros Hx. apply G. right; auto.
      * intros b'. specialize (F8 b'). rewrite Hb1 in F8. pose proof (burst_of_del_le b' sid (u_burst s)). lia.
Qed.

(* the datagrams a flush logs *)
Definition staged_send (c : cfg) (s : ust) (own : list place) (e : event) : Prop :=
  exists sid b j, nth_error own sid = Some (PBurst b) /\ nth_error (u_slabs s) sid = Some j /\
                  e = ESend sid (s_lease j) (send_dest c j) (tx_get (s_tx j) (s_txlen j)).

Lemma group_events_staged c s own b sids :
  inv c s own -> (forall x, In x sids -> In (b, x) (u_burst s)) ->
  forall e, In e (group_events c s sids) -> staged_send c s own e.
Proof.
  intros Hinv Hin e He.
  assert (G : forall want, In e (flat_map (fun sid => match get_slab s sid with
                         | Some j => if Bool.eqb (is_direct c j) want then send_event c sid j else []
                         | None => [] end) sids) -> staged_send c s own e).
  { intros want H. apply in_flat_map in H as (sid & Hs & H).
    destruct (get_slab s sid) as [j|] eqn:Hj; [|destruct H].
    destruct (Bool.eqb _ _); [|destruct H]. unfold send_event in H.
    destruct (s_txlen j) eqn:Et; [destruct H|]. destruct H as [<-|[]].
    exists sid, b, j. split; [apply (i_burst _ _ _ Hinv); auto|]. split; auto. now rewrite Et. }
  unfold group_events in He. destruct (c_batchtx c); [apply in_app_iff in He as [He|He]|]; eapply G; eauto.
Qed.

(* the runs are a partition of the burst, in order *)
Lemma runs_concat s : forall sids, concat (runs_by_sock s sids) = sids.
Proof.
  induction sids as [|sid r IH]; cbn [runs_by_sock]; auto.
  destruct (runs_by_sock s r) as [|[|sid2 g] gs] eqn:E; cbn [concat] in *.
  - subst r. reflexivity.
  - rewrite <- IH. reflexivity.
  - destruct (job_sock s sid =? job_sock s sid2)%N; cbn [concat app]; rewrite <- IH; reflexivity.
Qed.

Lemma flush_events_staged c s own b sids :
  inv c s own -> (forall x, In x sids -> In (b, x) (u_burst s)) ->
  forall e, In e (flush_events c s sids) -> staged_send c s own e.
Proof.
  intros Hinv Hin e He. unfold flush_events in He. apply in_flat_map in He as (g & Hg & He).
  eapply (group_events_staged c s own b g); eauto.
  intros x Hx. apply Hin. rewrite <- (runs_concat s sids). apply in_concat. exists g. auto.
Qed.

Lemma send_dest_raddr c j log sid : filled log sid j -> send_dest c j = s_raddr j.
Proof.
  intros [_ H]. unfold send_dest. destruct (c_batchtx c); auto.
  destruct (s_rawsa j) eqn:E; auto.
Qed.

Lemma staged_sends_ok c s own evs :
  inv c s own -> (forall e, In e evs -> staged_send c s own e) -> log_ok (evs ++ u_log s).
Proof.
  intros Hinv. induction evs as [|e t IH]; intros H; cbn.
  - apply (i_log _ _ _ Hinv).
  - constructor; [apply IH; intros; apply H; right; auto|].
    destruct (H e (or_introl eq_refl)) as (sid & b & j & Hp & Hj & ->).
    pose proof (i_local _ _ _ Hinv sid _ j Hp Hj) as [_ (Hst & Htx & Hlive & Hfill & Hwr & Ht1 & Ht2)].
    cbn. rewrite (send_dest_raddr c j _ sid Hfill). rewrite tx_get_firstn by auto.
    split; auto. split; [|split].
    + destruct Hfill as [Hf _]. eexists. apply in_app_iff. right. eauto.
    + apply in_app_iff. right. apply Hwr. auto.
    + intros Hr. apply in_app_iff in Hr as [Hr|Hr]; [|apply Hlive; auto].
      destruct (H _ (or_intror Hr)) as (? & ? & ? & _ & _ & E). discriminate.
Qed.

Lemma staged_send_benign c s own e sid p j :
  staged_send c s own e -> nth_error own sid = Some p -> nth_error (u_slabs s) sid = Some j -> benign e sid p j.
Proof.
  intros (sid' & b & j' & Hp' & Hj' & ->) Hp Hj E. cbn in E. subst sid'.
  rewrite Hj in Hj'. inversion Hj'; subst. cbn. split; auto.
Qed.

Lemma u_flush_inv c s own b :
  inv c s own ->
  exists s' own', u_flush c s b = Ok s' /\ inv c s' own' /\
                  flush_facts s s' own own' (burst_of b (u_burst s)) /\ burst_of b (u_burst s') = [].
Proof.
  intros Hinv. unfold u_flush.
  set (sids := burst_of b (u_burst s)).
  assert (Hin : forall x, In x sids -> In (b, x) (u_burst s)) by (intros x; apply burst_of_In).
  assert (Hst : forall e, In e (rev (flush_events c s sids)) -> staged_send c s own e).
  { intros e He. apply in_rev in He. eapply flush_events_staged; eauto. }
  assert (Hinv1 : inv c (set_log s (rev (flush_events c s sids) ++ u_log s)) own).
  { apply inv_log; auto.
    - eapply staged_sends_ok; eauto.
    - intros e He. destruct (Hst e He) as (sid & ? & j & _ & Hj & ->). cbn. eapply nth_error_lt; eauto.
    - intros e sid p j He Hp Hj. eapply staged_send_benign; eauto. }
  destruct (flush_release_inv c sids _ own b Hinv1) as (s' & own' & E & Hinv' & F); auto.
  { unfold sids, burst_of. apply NoDup_map_filter. apply (i_burst_nd _ _ _ Hinv). }
  exists s', own'. split; auto. split; auto. split; [exact F|].
  destruct F as (_ & _ & _ & _ & _ & _ & F7 & _).
  destruct (burst_of b (u_burst s')) as [|x t] eqn:Eb; auto. exfalso.
  assert (Hx : In x (burst_of b (u_burst s'))) by (rewrite Eb; left; auto).
  apply burst_of_In in Hx. apply F7 in Hx as [Hx Hn]. cbn in Hx. apply Hn. apply burst_of_In. auto.
Qed.
