(* C10 — internal sub-queries (middleware/queryer.go: pipelineQueryer.Query, BufferWriter,
   bufferWriterPool) under overlapping callers.  Executable definitions only.

   Query answers a client-shaped request through the internal sub-pipeline:

       w := getBufferWriter();  defer putBufferWriter(w)        // w.msg = nil; pool.Put(w)
       ch := q.sub.NewChain();  defer q.sub.PutChain(ch)
       ch.Reset(w, req);  ch.Next(ctx)
       if !w.Written() { return nil, ErrNoResponse };  return w.Msg(), nil

   Both per-query objects are POOLED: the BufferWriter (the Transport that captures the reply in
   its msg field) and the Chain (whose base writer is rebound to the BufferWriter by Reset —
   ModelShare.w_step).  Many client requests run sub-queries at the same time (cache prefetch,
   CNAME chase, dns64, DS walks), each parked inside its chain for the length of an upstream
   resolution, so the model is an interleaving of per-query atomic steps; the three closing
   steps of one Query (evaluate the result, deferred PutChain, deferred putBufferWriter) are
   separate actions because other goroutines run between them.

   A handler's write goes to whatever transport the CHAIN's base writer is bound to (not "to
   the query's writer"): that the two coincide for every query in flight is part of the theorem.
   sync.Pool: Get hands out any object Put earlier and not handed out since, or a new one; which
   one is an input of the step (the driver observes it). A message is a number. *)
From Sdns Require Export Common.Base Gen.C10 C10.Model C10.ModelShare.
Open Scope nat_scope.

Inductive qphase :=
| QRun                       (* inside ch.Next: handlers may write *)
| QClosing                   (* result evaluated (or a panic is unwinding): PutChain is next *)
| QChainPut.                 (* PutChain done: putBufferWriter is next *)

Record qlive := mkQlive {
  ql_q : nat;                (* the query *)
  ql_w : nat;                (* the BufferWriter in Query's frame *)
  ql_c : nat;                (* the Chain in Query's frame *)
  ql_ph : qphase;
  ql_first : option N        (* GHOST: the first message a handler of this query wrote *)
}.

Record qst := mkQst {
  q_writers : list (option N);      (* every BufferWriter ever made: its msg field; index = identity *)
  q_wpool : list nat;               (* bufferWriterPool *)
  q_chains : list writer;           (* every chain of the sub-pipeline: its base writer (transport = BufferWriter index) *)
  q_cpool : list nat;               (* sub.chainPool *)
  q_live : list qlive;
  q_res : list (nat * option N * option N)
                                    (* GHOST, newest first: (query, what Query returned — None = ErrNoResponse —,
                                       the first message that query's own handlers wrote) *)
}.
Definition q_init : qst := mkQst [] [] [] [] [] [].

Inductive qact :=
| QBegin (q w c : nat)       (* getBufferWriter hands out w, NewChain hands out c (pooled, or brand-new = next index); ch.Reset(w, req) *)
| QWrite (q : nat) (m : N)   (* a handler of q writes message m through the chain's Writer *)
| QRead (q : nat)            (* ch.Next returned: w.Written() / w.Msg() evaluated as Query's result *)
| QPanic (q : nat)           (* a handler panicked past the chain: no result; the defers run *)
| QPutChain (q : nat)        (* deferred q.sub.PutChain(ch) *)
| QPutWriter (q : nat).      (* deferred putBufferWriter(w) *)

Definition live_find (q : nat) (l : list qlive) : option qlive := find (fun x => Nat.eqb (ql_q x) q) l.
Definition live_rm (q : nat) (l : list qlive) : list qlive := filter (fun x => negb (Nat.eqb (ql_q x) q)) l.
Definition live_set (x : qlive) (l : list qlive) : list qlive :=
  map (fun y => if Nat.eqb (ql_q y) (ql_q x) then x else y) l.
Definition is_run (p : qphase) : bool := match p with QRun => true | _ => false end.
Definition is_closing (p : qphase) : bool := match p with QClosing => true | _ => false end.
Definition is_chainput (p : qphase) : bool := match p with QChainPut => true | _ => false end.

(* sync.Pool.Get: an object the pool holds (taken out), or a brand-new one (the next index) *)
Definition pool_get {A} (pool : list nat) (all : list A) (fresh : A) (i : nat) : option (list A * list nat) :=
  if mem_nat i pool then Some (all, rem_nat i pool)
  else if Nat.eqb i (length all) then Some (all ++ [fresh], pool)
  else None.

(* what putBufferWriter assigns to w.msg before the Put: nil (Gen.C10.query_put_assigns is the
   source's statement list; Proofs_Query.query_put_clears_msg) *)
Definition put_writer_msg (old : option N) : option N := None.

Definition qstep_gen (clear : option N -> option N) (s : qst) (a : qact) : option qst :=
  match a with
  | QBegin q w c =>
      if negb (is_none (live_find q (q_live s))) then None
      else
        (* bufferWriterPool.New: &BufferWriter{local, remote} — msg nil; chainPool.New: newChain *)
        match pool_get (q_wpool s) (q_writers s) None w, pool_get (q_cpool s) (q_chains s) (mkWriter 0 writer_reset_size) c with
        | Some (writers, wpool), Some (chains, cpool) =>
            (* ch.Reset(w, req) -> rebindWriter -> responseWriter.Reset(w) *)
            match nth_error chains c with
            | Some b =>
                Some (mkQst writers wpool (upd chains c (fst (w_step b (WReset (N.of_nat w))))) cpool
                            (mkQlive q w c QRun None :: q_live s) (q_res s))
            | None => None
            end
        | _, _ => None
        end
  | QWrite q m =>
      match live_find q (q_live s) with
      | Some x =>
          if negb (is_run (ql_ph x)) then None
          else match nth_error (q_chains s) (ql_c x) with
               | Some b =>
                   (* responseWriter.WriteMsg: refused when written; else Transport.WriteMsg(m) on the
                      transport the base writer is bound to: BufferWriter.WriteMsg — w.msg = m *)
                   let '(b1, e) := w_step b (WWrite [m]) in
                   let writers := match e with
                                  | Some (t, _) => upd (q_writers s) (N.to_nat t) (Some m)
                                  | None => q_writers s
                                  end in
                   let x1 := mkQlive q (ql_w x) (ql_c x) QRun (match ql_first x with None => Some m | f => f end) in
                   Some (mkQst writers (q_wpool s) (upd (q_chains s) (ql_c x) b1) (q_cpool s)
                               (live_set x1 (q_live s)) (q_res s))
               | None => None
               end
      | None => None
      end
  | QRead q =>
      match live_find q (q_live s) with
      | Some x =>
          if negb (is_run (ql_ph x)) then None
          else match nth_error (q_writers s) (ql_w x) with
               | Some r =>
                   Some (mkQst (q_writers s) (q_wpool s) (q_chains s) (q_cpool s)
                               (live_set (mkQlive q (ql_w x) (ql_c x) QClosing (ql_first x)) (q_live s))
                               ((q, r, ql_first x) :: q_res s))
               | None => None
               end
      | None => None
      end
  | QPanic q =>
      match live_find q (q_live s) with
      | Some x =>
          if negb (is_run (ql_ph x)) then None
          else Some (mkQst (q_writers s) (q_wpool s) (q_chains s) (q_cpool s)
                           (live_set (mkQlive q (ql_w x) (ql_c x) QClosing (ql_first x)) (q_live s)) (q_res s))
      | None => None
      end
  | QPutChain q =>
      match live_find q (q_live s) with
      | Some x =>
          if negb (is_closing (ql_ph x)) then None
          else Some (mkQst (q_writers s) (q_wpool s) (q_chains s) (ql_c x :: q_cpool s)
                           (live_set (mkQlive q (ql_w x) (ql_c x) QChainPut (ql_first x)) (q_live s)) (q_res s))
      | None => None
      end
  | QPutWriter q =>
      match live_find q (q_live s) with
      | Some x =>
          if negb (is_chainput (ql_ph x)) then None
          else match nth_error (q_writers s) (ql_w x) with
               | Some old =>
                   Some (mkQst (upd (q_writers s) (ql_w x) (clear old)) (ql_w x :: q_wpool s) (q_chains s) (q_cpool s)
                               (live_rm q (q_live s)) (q_res s))
               | None => None
               end
      | None => None
      end
  end.

(* the code *)
Definition qstep := qstep_gen put_writer_msg.
(* steps that are not enabled are skipped *)
Fixpoint qsteps (s : qst) (l : list qact) : qst :=
  match l with
  | [] => s
  | a :: r => match qstep s a with Some s1 => qsteps s1 r | None => qsteps s r end
  end.
(* ... or must all be enabled (what the driver did, the code could do) *)
Fixpoint qsteps_strict (s : qst) (l : list qact) : option qst :=
  match l with
  | [] => Some s
  | a :: r => match qstep s a with Some s1 => qsteps_strict s1 r | None => None end
  end.

(* the VARIANT the property forbids (not the code): the writer goes back to the pool with the
   captured reply still in it *)
Definition qstep_keep := qstep_gen (fun old => old).
Fixpoint qsteps_keep (s : qst) (l : list qact) : qst :=
  match l with
  | [] => s
  | a :: r => match qstep_keep s a with Some s1 => qsteps_keep s1 r | None => qsteps_keep s r end
  end.

(* the driver's coarse operations: a Query's three closing steps run back to back when nobody
   else is scheduled in between *)
Inductive qop := OQBegin (q w c : nat) | OQWrite (q : nat) (m : N) | OQEnd (q : nat) | OQPanicEnd (q : nat).
Definition qplan (o : qop) : list qact :=
  match o with
  | OQBegin q w c => [QBegin q w c]
  | OQWrite q m => [QWrite q m]
  | OQEnd q => [QRead q; QPutChain q; QPutWriter q]
  | OQPanicEnd q => [QPanic q; QPutChain q; QPutWriter q]
  end.
