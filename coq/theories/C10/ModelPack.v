(* C10 — the pooled pack state behind responseWriter.WriteMsg's direct path (internal/wire/pack.go:
   TryPack borrows a packState — output buffer and compression dictionary — from packStatePool,
   packs the message into it, hands the bytes to the consumer and puts the state back when the
   consumer has returned; middleware/response_writer.go: the consumer calls Transport.Write(body)).
   Executable definitions only.

   "The slice given to consume is valid only for the duration of the call": the bytes a transport
   is handed are a REFERENCE into the pack state's buffer until the transport has taken them — an
   owned stream transport flushes a full drain buffer to its (possibly slow) client first and
   copies the new payload afterwards; a datagram send reads them inside its syscall.  Other
   requests are served meanwhile, on other goroutines, and pack their own replies.  The model is an
   interleaving of the atomic steps of any number of concurrent WriteMsg calls:
     PPack r k bs     TryPack for request r: packStatePool hands out state k (pooled, or a brand-new
                      one) and r's message is packed into its buffer (bs = the packed form)
     PWriteBegin r    the consumer calls Transport.Write(body): the transport now holds the slice
     PCopy r          the transport takes the bytes (copy into the drain / TX buffer, or the send)
     PRelease r       the consumer has returned: TryPack puts the state back
   sync.Pool: Get hands out any object Put earlier and not handed out since, or a new one. *)
From Sdns Require Export Common.Base Gen.C10 C10.Model.
Open Scope nat_scope.

Inductive pphase := PhPacked | PhParked | PhCopied.
Record pwrite := mkPwrite {
  pw_r : nat;                 (* the request *)
  pw_k : nat;                 (* the pack state TryPack borrowed for it *)
  pw_own : list byte;         (* GHOST: the packed form of ITS message *)
  pw_ph : pphase
}.
Record pst := mkPst {
  p_bufs : list (list byte);  (* every pack state's buffer; index = identity *)
  p_pool : list nat;          (* packStatePool *)
  p_live : list pwrite;
  p_log : list (nat * list byte * list byte)
                              (* GHOST, newest first: (request, the bytes its transport took, the packed form of its message) *)
}.
Definition p_init : pst := mkPst [] [] [] [].

Inductive pact :=
| PPack (r k : nat) (bs : list byte)
| PWriteBegin (r : nat)
| PCopy (r : nat)
| PRelease (r : nat).

Definition pfind (r : nat) (l : list pwrite) : option pwrite := find (fun x => Nat.eqb (pw_r x) r) l.
Definition pset (x : pwrite) (l : list pwrite) : list pwrite :=
  map (fun y => if Nat.eqb (pw_r y) (pw_r x) then x else y) l.
Definition prm (r : nat) (l : list pwrite) : list pwrite := filter (fun x => negb (Nat.eqb (pw_r x) r)) l.
Fixpoint prem_one (x : nat) (l : list nat) : list nat :=
  match l with
  | [] => []
  | y :: t => if Nat.eqb y x then t else y :: prem_one x t
  end.

(* [early]: the state goes back to the pool when the transport write BEGINS (the variant) instead
   of when the consumer has returned (the code) *)
Definition pstep_gen (early : bool) (s : pst) (a : pact) : option pst :=
  match a with
  | PPack r k bs =>
      match pfind r (p_live s) with
      | Some _ => None
      | None =>
          if mem_nat k (p_pool s)
          then Some (mkPst (upd (p_bufs s) k bs) (prem_one k (p_pool s)) (mkPwrite r k bs PhPacked :: p_live s) (p_log s))
          else if Nat.eqb k (length (p_bufs s))
          then Some (mkPst (p_bufs s ++ [bs]) (p_pool s) (mkPwrite r k bs PhPacked :: p_live s) (p_log s))
          else None
      end
  | PWriteBegin r =>
      match pfind r (p_live s) with
      | Some x => match pw_ph x with
                  | PhPacked => Some (mkPst (p_bufs s) (if early then pw_k x :: p_pool s else p_pool s)
                                            (pset (mkPwrite r (pw_k x) (pw_own x) PhParked) (p_live s)) (p_log s))
                  | _ => None
                  end
      | None => None
      end
  | PCopy r =>
      match pfind r (p_live s) with
      | Some x => match pw_ph x, nth_error (p_bufs s) (pw_k x) with
                  | PhParked, Some got =>
                      Some (mkPst (p_bufs s) (p_pool s) (pset (mkPwrite r (pw_k x) (pw_own x) PhCopied) (p_live s))
                                  ((r, got, pw_own x) :: p_log s))
                  | _, _ => None
                  end
      | None => None
      end
  | PRelease r =>
      match pfind r (p_live s) with
      | Some x => match pw_ph x with
                  | PhCopied => Some (mkPst (p_bufs s) (if early then p_pool s else pw_k x :: p_pool s) (prm r (p_live s)) (p_log s))
                  | _ => None
                  end
      | None => None
      end
  end.

Definition pstep := pstep_gen false.
Fixpoint psteps (s : pst) (l : list pact) : pst :=
  match l with
  | [] => s
  | a :: r => match pstep s a with Some s1 => psteps s1 r | None => psteps s r end
  end.
Fixpoint psteps_strict (s : pst) (l : list pact) : option pst :=
  match l with
  | [] => Some s
  | a :: r => match pstep s a with Some s1 => psteps_strict s1 r | None => None end
  end.
Definition pstep_early := pstep_gen true.
Fixpoint psteps_early (s : pst) (l : list pact) : pst :=
  match l with
  | [] => s
  | a :: r => match pstep_early s a with Some s1 => psteps_early s1 r | None => psteps_early s r end
  end.
