(* C10 — the pooled writer across requests, and the shared upstream lookup. *)
From Sdns Require Import Common.Base Gen.C10 C10.Model C10.ModelShare C10.Proofs_UdpBase.
Open Scope nat_scope.

(* ------------------------------------------------------------------ writer *)
(* the specification: a reply goes to the transport of the latest Reset, once *)
Fixpoint w_spec (t : N) (fresh : bool) (ops : list wop) : list (option (N * list byte)) :=
  match ops with
  | [] => []
  | WReset t' :: r => None :: w_spec t' true r
  | WWrite bs :: r => (if fresh then Some (t, bs) else None) :: w_spec t false r
  end.

Lemma reset_is_unwritten : writer_reset_size = writer_unwritten_size.
Proof. reflexivity. Qed.

Lemma writer_run_spec : forall ops w, snd (w_run w ops) = w_spec (w_tr w) (negb (w_written w)) ops.
Proof.
  induction ops as [|o r IH]; intros w; cbn; auto.
  destruct o as [t|bs]; cbn.
  - specialize (IH (mkWriter t writer_reset_size)). destruct (w_run _ r) as [w2 es]. cbn [snd fst w_tr] in *. rewrite IH.
    reflexivity.
  - destruct (w_written w) eqn:Ew; cbn.
    + specialize (IH w). destruct (w_run w r) as [w2 es]. cbn [snd fst] in *. rewrite IH, Ew. reflexivity.
    + specialize (IH (mkWriter (w_tr w) (Z.of_nat (length bs)))). destruct (w_run _ r) as [w2 es]. cbn [snd fst w_tr] in *.
      rewrite IH. unfold w_written at 1. cbn [w_size].
      assert (E : (Z.of_nat (length bs) =? writer_unwritten_size)%Z = false).
      { apply Z.eqb_neq. unfold writer_unwritten_size. lia. }
      rewrite E. reflexivity.
Qed.

(* whatever the chain served before, the first reply after a rebinding reaches the new transport *)
Lemma w_spec_app t fresh a b :
  w_spec t fresh (a ++ b) =
  w_spec t fresh a ++ w_spec (fold_left (fun t o => match o with WReset t' => t' | _ => t end) a t)
                             (fold_left (fun f o => match o with WReset _ => true | WWrite _ => false end) a fresh) b.
Proof. revert t fresh. induction a as [|o r IH]; intros t fresh; cbn; auto. destruct o; cbn; rewrite IH; reflexivity. Qed.

Theorem writer_first_write_after_reset w pre t bs rest :
  nth_error (snd (w_run w (pre ++ WReset t :: WWrite bs :: rest))) (S (length pre)) = Some (Some (t, bs)).
Proof.
  rewrite writer_run_spec, w_spec_app. cbn [w_spec].
  assert (L : forall t0 f, length (w_spec t0 f pre) = length pre).
  { induction pre as [|o r IH]; intros; cbn; auto. destruct o; cbn; rewrite IH; auto. }
  rewrite nth_error_app2 by (rewrite L; lia). rewrite L. replace (S (length pre) - length pre) with 1 by lia. reflexivity.
Qed.

(* ------------------------------------------------------------------ shared lookup *)
Definition ptr_of (w : N * wstage) : option nat :=
  match snd w with G0 => None | G1 p => Some p | G2 p => Some p end.

Record linv (res : msg) (ids : list N) (shared : bool) (s : lstate) : Prop := mkLinv {
  li_ids : map fst (l_waiters s) = ids;
  li_res : shared = true -> nth_error (l_heap s) 0 = Some res;
  li_g1 : forall i id p, nth_error (l_waiters s) i = Some (id, G1 p) ->
            exists m, nth_error (l_heap s) p = Some m /\ m_body m = m_body res;
  li_g2 : forall i id p, nth_error (l_waiters s) i = Some (id, G2 p) ->
            nth_error (l_heap s) p = Some (mkMsg id (m_body res));
  li_pos : shared = true -> forall i w p, nth_error (l_waiters s) i = Some w -> ptr_of w = Some p -> 1 <= p;
  li_dist : shared = true -> forall i j wi wj p, i <> j -> nth_error (l_waiters s) i = Some wi ->
            nth_error (l_waiters s) j = Some wj -> ptr_of wi = Some p -> ptr_of wj = Some p -> False;
  li_lt : forall i w p, nth_error (l_waiters s) i = Some w -> ptr_of w = Some p -> p < length (l_heap s);
  li_solo : shared = false -> length ids <= 1 /\ exists m, nth_error (l_heap s) 0 = Some m /\ m_body m = m_body res
}.

Lemma map_fst_upd (l : list (N * wstage)) i id st :
  nth_error l i = Some (id, st) -> forall st', map fst (upd l i (id, st')) = map fst l.
Proof.
  revert i. induction l as [|h t IH]; intros [|i] H st'; cbn in *; try discriminate.
  - inversion H; subst. reflexivity.
  - rewrite (IH i H). reflexivity.
Qed.

Lemma nth_upd_cases {A} (l : list A) i k x y :
  nth_error (upd l i x) k = Some y -> (k = i /\ y = x /\ i < length l) \/ (k <> i /\ nth_error l k = Some y).
Proof.
  destruct (Nat.eq_dec k i) as [->|Hne].
  - intros H. pose proof (nth_error_lt _ _ _ H) as L. rewrite upd_length in L.
    rewrite nth_upd_same in H by auto. inversion H; auto.
  - rewrite nth_upd_other by auto. auto.
Qed.

Lemma linv_init res ids shared : (2 <= length ids -> shared = true) -> linv res ids shared (l_init res ids).
Proof.
  intros Hs. unfold l_init.
  assert (Hw : forall i w, nth_error (map (fun id : N => (id, G0)) ids) i = Some w -> ptr_of w = None).
  { intros i w H. apply nth_error_In in H. apply in_map_iff in H as (x & <- & _). reflexivity. }
  constructor; cbn.
  - rewrite map_map. cbn. apply map_id.
  - auto.
  - intros i id p H. apply Hw in H. discriminate.
  - intros i id p H. apply Hw in H. discriminate.
  - intros _ i w p H E. apply Hw in H. congruence.
  - intros _ i j wi wj p _ H _ E. apply Hw in H. congruence.
  - intros i w p H E. apply Hw in H. congruence.
  - intros E. split.
    + destruct (Nat.le_gt_cases (length ids) 1); auto. rewrite Hs in E by lia. discriminate.
    + exists res. auto.
Qed.

Lemma linv_step res ids shared s i : linv res ids shared s -> linv res ids shared (l_step 0 shared s i).
Proof.
  intros Hi. unfold l_step. destruct (nth_error (l_waiters s) i) as [[id [|p|p]]|] eqn:Ew; auto.
  - (* choose the message *)
    destruct shared eqn:Es.
    + rewrite (li_res _ _ _ _ Hi eq_refl).
      constructor; cbn [l_heap l_waiters].
      * rewrite (map_fst_upd _ _ _ _ Ew). apply (li_ids _ _ _ _ Hi).
      * intros _. rewrite nth_error_app1; [apply (li_res _ _ _ _ Hi eq_refl)|].
        pose proof (li_res _ _ _ _ Hi eq_refl) as H. apply nth_error_lt in H. auto.
      * intros k id' p' H. apply nth_upd_cases in H as [(-> & E & _)|(Hne & H)].
        -- inversion E; subst. rewrite nth_app_fresh. eexists. split; eauto.
        -- destruct (li_g1 _ _ _ _ Hi _ _ _ H) as (m & Hm & Hb). exists m. split; auto.
           rewrite nth_error_app1; auto. eapply nth_error_lt; eauto.
      * intros k id' p' H. apply nth_upd_cases in H as [(-> & E & _)|(Hne & H)]; [discriminate|].
        rewrite nth_error_app1; [apply (li_g2 _ _ _ _ Hi _ _ _ H)|].
        eapply (li_lt _ _ _ _ Hi); eauto.
      * intros _ k w p' H E. apply nth_upd_cases in H as [(-> & -> & _)|(Hne & H)].
        -- cbn in E. inversion E; subst. pose proof (li_res _ _ _ _ Hi eq_refl) as H0. apply nth_error_lt in H0. lia.
        -- eapply (li_pos _ _ _ _ Hi); eauto.
      * intros _ k1 k2 w1 w2 p' Hne H1 H2 E1 E2.
        apply nth_upd_cases in H1 as [(-> & -> & _)|(Hn1 & H1)]; apply nth_upd_cases in H2 as [(-> & -> & _)|(Hn2 & H2)].
        -- congruence.
        -- cbn in E1. inversion E1; subst. pose proof (li_lt _ _ _ _ Hi _ _ _ H2 E2). lia.
        -- cbn in E2. inversion E2; subst. pose proof (li_lt _ _ _ _ Hi _ _ _ H1 E1). lia.
        -- eapply (li_dist _ _ _ _ Hi eq_refl k1 k2); eauto.
      * intros k w p' H E. rewrite app_length. cbn. apply nth_upd_cases in H as [(-> & -> & _)|(Hne & H)].
        -- cbn in E. inversion E. lia.
        -- pose proof (li_lt _ _ _ _ Hi _ _ _ H E). lia.
      * discriminate.
    + destruct (li_solo _ _ _ _ Hi eq_refl) as (Hlen & m0 & Hm0 & Hb0).
      constructor; cbn [l_heap l_waiters].
      * rewrite (map_fst_upd _ _ _ _ Ew). apply (li_ids _ _ _ _ Hi).
      * discriminate.
      * intros k id' p' H. apply nth_upd_cases in H as [(-> & E & _)|(Hne & H)].
        -- inversion E; subst. eauto.
        -- eapply (li_g1 _ _ _ _ Hi); eauto.
      * intros k id' p' H. apply nth_upd_cases in H as [(-> & E & _)|(Hne & H)]; [discriminate|].
        eapply (li_g2 _ _ _ _ Hi); eauto.
      * discriminate.
      * discriminate.
      * intros k w p' H E. apply nth_upd_cases in H as [(-> & -> & _)|(Hne & H)].
        -- cbn in E. inversion E; subst. eapply nth_error_lt; eauto.
        -- eapply (li_lt _ _ _ _ Hi); eauto.
      * intros _. split; auto. eauto.
  - (* rewrite the ID *)
    destruct (li_g1 _ _ _ _ Hi _ _ _ Ew) as (m & Hm & Hb). rewrite Hm.
    assert (Hlt : p < length (l_heap s)) by (eapply nth_error_lt; eauto).
    (* nobody else points at p *)
    assert (Hother : forall k w q, k <> i -> nth_error (l_waiters s) k = Some w -> ptr_of w = Some q -> q <> p).
    { intros k w q Hne Hk Eq ->. destruct shared eqn:Es.
      - eapply (li_dist _ _ _ _ Hi eq_refl k i); eauto.
      - destruct (li_solo _ _ _ _ Hi eq_refl) as (Hlen & _).
        pose proof (li_ids _ _ _ _ Hi) as Hids. apply (f_equal (@length N)) in Hids. rewrite map_length in Hids.
        apply nth_error_lt in Hk. apply nth_error_lt in Ew. lia. }
    constructor; cbn [l_heap l_waiters].
    + rewrite (map_fst_upd _ _ _ _ Ew). apply (li_ids _ _ _ _ Hi).
    + intros Es. rewrite nth_upd_other; [apply (li_res _ _ _ _ Hi Es)|].
      pose proof (li_pos _ _ _ _ Hi Es _ _ _ Ew eq_refl). lia.
    + intros k id' p' H. apply nth_upd_cases in H as [(-> & E & _)|(Hne & H)]; [discriminate|].
      rewrite nth_upd_other; [eapply (li_g1 _ _ _ _ Hi); eauto|].
      intros <-. eapply (Hother k); eauto. reflexivity.
    + intros k id' p' H. apply nth_upd_cases in H as [(-> & E & _)|(Hne & H)].
      * inversion E; subst. rewrite nth_upd_same by auto. rewrite Hb. reflexivity.
      * rewrite nth_upd_other; [eapply (li_g2 _ _ _ _ Hi); eauto|].
        intros <-. eapply (Hother k); eauto. reflexivity.
    + intros Es k w p' H E. apply nth_upd_cases in H as [(-> & -> & _)|(Hne & H)].
      * cbn in E. injection E as <-. eapply (li_pos _ _ _ _ Hi Es i (id, G1 p)); eauto.
      * eapply (li_pos _ _ _ _ Hi); eauto.
    + intros Es k1 k2 w1 w2 p' Hne H1 H2 E1 E2.
      apply nth_upd_cases in H1 as [(-> & -> & _)|(Hn1 & H1)]; apply nth_upd_cases in H2 as [(-> & -> & _)|(Hn2 & H2)].
      * congruence.
      * cbn in E1. injection E1 as <-. eapply (Hother k2); eauto.
      * cbn in E2. injection E2 as <-. eapply (Hother k1); eauto.
      * eapply (li_dist _ _ _ _ Hi Es k1 k2); eauto.
    + intros k w p' H E. rewrite upd_length. apply nth_upd_cases in H as [(-> & -> & _)|(Hne & H)].
      * cbn in E. injection E as <-. auto.
      * eapply (li_lt _ _ _ _ Hi); eauto.
    + intros Es. destruct (li_solo _ _ _ _ Hi Es) as (Hlen & m0 & Hm0 & Hb0). split; auto.
      destruct (Nat.eq_dec p 0) as [->|Hp].
      * rewrite nth_upd_same by auto. eexists. split; eauto.
      * rewrite nth_upd_other by auto. eauto.
Qed.

Lemma linv_run res ids shared sched : forall s, linv res ids shared s -> linv res ids shared (l_run 0 shared s sched).
Proof.
  unfold l_run. induction sched as [|i r IH]; intros s Hi; cbn; auto. apply IH. apply linv_step. auto.
Qed.

(* under every schedule: a waiter that has returned holds a message with ITS id and the
   result's content, and no other waiter holds that same message *)
Theorem shared_isolated res ids shared sched :
  (2 <= length ids -> shared = true) ->
  let s := l_run 0 shared (l_init res ids) sched in
  map fst (l_waiters s) = ids /\
  (forall i id p, nth_error (l_waiters s) i = Some (id, G2 p) ->
     nth_error (l_heap s) p = Some (mkMsg id (m_body res))) /\
  (forall i j wi wj p, i <> j -> nth_error (l_waiters s) i = Some wi -> nth_error (l_waiters s) j = Some wj ->
     ptr_of wi = Some p -> ptr_of wj = Some p -> False).
Proof.
  intros Hs s. pose proof (linv_run res ids shared sched _ (linv_init res ids shared Hs)) as Hi. fold s in Hi.
  split; [apply (li_ids _ _ _ _ Hi)|]. split; [apply (li_g2 _ _ _ _ Hi)|].
  intros i j wi wj p Hne H1 H2 E1 E2. destruct shared eqn:Es.
  - eapply (li_dist _ _ _ _ Hi eq_refl i j); eauto.
  - destruct (li_solo _ _ _ _ Hi eq_refl) as (Hlen & _).
    pose proof (li_ids _ _ _ _ Hi) as Hids. apply (f_equal (@length N)) in Hids. rewrite map_length in Hids.
    apply nth_error_lt in H1. apply nth_error_lt in H2. lia.
Qed.
