(* C10 — pooled writer rebinding (middleware/response_writer.go: Reset / Written / Write,
   middleware/chain.go: Reset / ResetWire / rebindWriter) and the shared upstream lookup
   (middleware/resolver/resolver.go: groupLookup — `if shared { resp = resp.Copy() }; resp.Id = req.Id`).
   Executable definitions only. *)
From Sdns Require Export Common.Base Gen.C10 C10.Model.
Open Scope N_scope.

(* ------------------------------------------------------------------ the chain's base writer *)
Record writer := mkWriter {
  w_tr : N;                 (* the Transport the writer is bound to *)
  w_size : Z                (* -1 = unwritten *)
}.
(* responseWriter.Written is `w.size != -1`: the translated method (Gen.C10.go_responseWriter_Written)
   is proved equal to this reading in Proofs_Edns.gen_responseWriter_Written *)
Definition writer_unwritten_size : Z := -1.
Definition w_written (w : writer) : bool := negb (w_size w =? writer_unwritten_size)%Z.
Inductive wop :=
| WReset (t : N)            (* Chain.Reset / ResetWire -> rebindWriter -> responseWriter.Reset(t) *)
| WWrite (bs : list byte).  (* Write / WriteMsg / WriteWire of a well-formed reply *)
Definition w_step (w : writer) (o : wop) : writer * option (N * list byte) :=
  match o with
  | WReset t => (mkWriter t writer_reset_size, None)
  | WWrite bs => if w_written w then (w, None)   (* errAlreadyWritten *)
                 else (mkWriter (w_tr w) (Z.of_nat (length bs)), Some (w_tr w, bs))
  end.
Fixpoint w_run (w : writer) (l : list wop) : writer * list (option (N * list byte)) :=
  match l with
  | [] => (w, [])
  | o :: r => let '(w1, e) := w_step w o in
              let '(w2, es) := w_run w1 r in (w2, e :: es)
  end.

(* every field the base writer keeps between requests (middleware.responseWriter: msg wire size
   rcode proto remoteip internal directPack, + the embedded Transport), as Reset leaves them for a
   transport described by (id, stream?, client address): NOTHING of the previous request enters *)
Record wfull := mkWfull {
  wf_tr : N; wf_hasmsg : bool; wf_haswire : bool; wf_size : Z; wf_rcode : Z; wf_tcp : bool; wf_ip : N;
  wf_internal : bool; wf_direct : bool
}.
Definition wf_reset (w : wfull) (t : N) (tcp : bool) (ip : N) : wfull :=
  mkWfull t false false writer_reset_size 0 tcp ip false false.

(* ------------------------------------------------------------------ shared lookup *)
Record msg := mkMsg { m_id : N; m_body : list byte }.
(* a waiter of one singleflight generation: its own request ID and how far it got *)
Inductive wstage :=
| G0                        (* waiting for the result *)
| G1 (p : nat)              (* has chosen its message: a copy when shared, the result itself when not *)
| G2 (p : nat).             (* has rewritten the ID and returned p *)
Record lstate := mkLstate {
  l_heap : list msg;        (* index = pointer *)
  l_waiters : list (N * wstage)
}.
(* one step of waiter i; r = the leader's result, shared = singleflight.Result.Shared *)
Definition l_step (r : nat) (shared : bool) (s : lstate) (i : nat) : lstate :=
  match nth_error (l_waiters s) i with
  | None => s
  | Some (id, G0) =>
      if shared
      then match nth_error (l_heap s) r with
           | None => s
           | Some m => mkLstate (l_heap s ++ [mkMsg (m_id m) (m_body m)]) (upd (l_waiters s) i (id, G1 (length (l_heap s))))
           end
      else mkLstate (l_heap s) (upd (l_waiters s) i (id, G1 r))
  | Some (id, G1 p) =>
      match nth_error (l_heap s) p with
      | None => s
      | Some m => mkLstate (upd (l_heap s) p (mkMsg id (m_body m))) (upd (l_waiters s) i (id, G2 p))
      end
  | Some (_, G2 _) => s
  end.
Definition l_run (r : nat) (shared : bool) (s : lstate) (sched : list nat) : lstate :=
  fold_left (l_step r shared) sched s.
Definition l_init (res : msg) (ids : list N) : lstate := mkLstate [res] (map (fun id => (id, G0)) ids).
