(* C10 — the edns writer wrapper kept in a job slab across requests (wave 3).
   Executable definitions only.

   middleware/edns/edns.go: a wire-born request is served by EDNS.serveWire on the wrapper stored
   in the transport job's slot (udpJob.ednsWriter / tcpJob.ednsWriter, Request.EDNSWriterSlot):
   the SAME ResponseWriter object serves every client that is ever served from that slab.
     entry   : the assignments of serveWire ([e_bind]) — note that the client cookie is bound
               only when the request carries one;
     reply   : WriteMsg (Msg path: cookieOption derives w.cookie from cookieRaw, ensureOpt sets
               w.opt) or WriteWire (byte path: no writer state changes) ([e_reply]);
     exit    : the deferred `*rw = ResponseWriter{}` ([e_release]).
   [eslot] has EVERY field of edns.ResponseWriter that is not the embedded writer / handler
   pointer, in source order (tied: Gen.C10.edns_writer_fields).  What a reply's OPT shows of
   the client (OPT at all, DO, the client half of COOKIE, NSID, keepalive) is [eobs]. *)
From Sdns Require Export Common.Base Gen.C10 C10.Model.
Open Scope N_scope.

Record ereq := mkEreq {
  q_opt : bool; q_do : bool;
  q_cookie : list byte;            (* the COOKIE option's data, [] when none (8 = client only, more = client + server) *)
  q_nsid : bool; q_keepalive : bool; q_cd : bool; q_ad : bool;
  q_tcp : bool;                    (* w.Proto() is a stream transport *)
  q_udpsize : N
}.

Record eslot := mkEslot {
  e_opt : bool;                    (* opt != nil *)
  e_size : N;
  e_do : bool;
  e_cookie : list byte;            (* cookie (hex text of the client cookie), decoded; [] = "" *)
  e_nsid : bool;
  e_noedns : bool;
  e_noad : bool;
  e_udpsize : N;                   (* respUDPSize *)
  e_cookieraw : list byte;         (* cookieRaw [8]byte *)
  e_hasraw : bool;                 (* hasCookieRaw *)
  e_keepalive : bool;
  e_pooled : bool
}.
Definition eslot_zero : eslot := mkEslot false 0 false [] false false false 0 (repeat 0 8) false false false.

(* the field names of the model, in order: compared with the source's struct (Proofs_Edns) *)
Definition str (l : list nat) : list N := map N.of_nat l.

(* serveWire, entry *)
Definition e_bind (s : eslot) (q : ereq) : eslot :=
  let noedns := negb (q_opt q) in
  let size0 := N.min (N.max (q_udpsize q) edns_min_msg_size) edns_default_msg_size in
  let size1 := if q_tcp q then edns_max_msg_size else size0 in
  let size := if noedns then edns_min_msg_size else size1 in
  let has := (8 <=? length (q_cookie q))%nat in
  mkEslot (e_opt s) size (q_do q) (e_cookie s) (q_nsid q) noedns
          (q_cd q || (negb (q_ad q) && negb (q_do q)))
          edns_default_msg_size
          (if has then firstn 8 (q_cookie q) else e_cookieraw s)
          (if has then true else e_hasraw s)
          (q_keepalive q && q_tcp q)
          (e_pooled s).

(* serveWire, deferred exit: *rw = ResponseWriter{} *)
Definition e_release (s : eslot) : eslot := eslot_zero.

Inductive epath := PNone | PMsg | PWire.
Record eobs := mkEobs { o_opt : bool; o_do : bool; o_cookie : list byte; o_nsid : bool; o_keepalive : bool }.
Definition eobs_none : eobs := mkEobs false false [] false false.

(* the reply (a downstream reply without an OPT of its own; cookie secret and NSID configured) *)
Definition e_reply (s : eslot) (p : epath) : eslot * option eobs :=
  match p with
  | PNone => (s, None)
  | PMsg =>
      if e_noedns s then (s, Some eobs_none)
      else
        let ck := match e_cookie s with [] => if e_hasraw s then e_cookieraw s else [] | c => c end in
        (mkEslot true (e_size s) (e_do s) ck (e_nsid s) (e_noedns s) (e_noad s) (e_udpsize s)
                 (e_cookieraw s) (e_hasraw s) (e_keepalive s) (e_pooled s),
         Some (mkEobs true (e_do s) ck (e_nsid s) (e_keepalive s)))
  | PWire =>
      if e_noedns s then (s, Some eobs_none)
      else
        let ck := if e_hasraw s then e_cookieraw s else e_cookie s in
        (s, Some (mkEobs true (e_do s) ck (e_nsid s) (e_keepalive s)))
  end.

(* one request through the slot: the slot as the handlers see it, the reply, the slot left behind *)
Definition e_serve (release : eslot -> eslot) (s : eslot) (qp : ereq * epath) : eslot * (eslot * option eobs) :=
  let s1 := e_bind s (fst qp) in
  let '(s2, o) := e_reply s1 (snd qp) in
  (release s2, (s1, o)).
Fixpoint e_run (release : eslot -> eslot) (s : eslot) (l : list (ereq * epath)) : list (eslot * option eobs) * eslot :=
  match l with
  | [] => ([], s)
  | qp :: r => let '(s1, v) := e_serve release s qp in
               let '(vs, s2) := e_run release s1 r in (v :: vs, s2)
  end.

(* what a reply may show of the client: a function of THIS request alone *)
Definition own_facts (q : ereq) : eobs :=
  mkEobs (q_opt q) (q_opt q && q_do q)
         (if q_opt q && (8 <=? length (q_cookie q))%nat then firstn 8 (q_cookie q) else [])
         (q_opt q && q_nsid q) (q_opt q && q_keepalive q && q_tcp q).

(* the VARIANT the property forbids (not the code): the exit drops only the references and
   leaves the per-request facts in a job-owned slot *)
Definition e_release_keeps (s : eslot) : eslot :=
  mkEslot false (e_size s) (e_do s) (e_cookie s) (e_nsid s) (e_noedns s) (e_noad s) (e_udpsize s)
          (e_cookieraw s) (e_hasraw s) (e_keepalive s) (e_pooled s).
