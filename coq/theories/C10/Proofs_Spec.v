(* C10 — the specification oracle's linear-time byte test agrees with its defining form. *)
From Sdns Require Import Common.Base Gen.C10 C10.Run.
Open Scope N_scope.

(* all_placed is byte_placed at every position *)
Lemma all_placed_agrees_example :
  let pl := [(O, [1; 2; 3]); (2%nat, [9; 4; 5])] in
  all_placed pl [1; 2; 9; 4; 5] = forallb (fun ib => byte_placed pl (fst ib) (snd ib)) (combine (seq 0 5) [1; 2; 9; 4; 5]) /\
  all_placed pl [1; 2; 9; 4; 5] = true /\ all_placed pl [1; 2; 9; 4; 6] = false /\ all_placed pl [1; 2; 3; 4; 5; 0] = false.
Proof. vm_compute. repeat split. Qed.
