(* C10 — the property lemmas in their final form (Properties.v closes each with [exact]). *)
From Sdns Require Import Common.Base Gen.C10 C10.Model C10.ModelStream C10.ModelShare
  C10.Proofs_UdpBase C10.Proofs_UdpMove C10.Proofs_UdpStep C10.Proofs_UdpInv C10.Proofs_UdpThm
  C10.Proofs_Stream C10.Proofs_Conn C10.Proofs_Share.
Open Scope nat_scope.

(* ------------------------------------------------------------------ UDP engine *)
Lemma reachable_good c acts s : usteps c u_init acts = Ok s -> good c s.
Proof. intros H. pose proof (proj1 (usteps_good c acts u_init (good_init c))) as G. rewrite H in G. exact G. Qed.

Lemma single_owner_lemma c acts :
  match usteps c u_init acts with
  | Panic => False
  | Disabled => False
  | Ok s =>
      (forall sid j, get_slab s sid = Some j ->
         exists p, holds s sid p /\ s_state j = state_of p /\ forall q, holds s sid q -> q = p) /\
      NoDup (u_idle s) /\ NoDup (map snd (u_held s)) /\ NoDup (u_ready s) /\
      NoDup (map fst (u_serv s)) /\ NoDup (map snd (u_burst s))
  end.
Proof.
  destruct (usteps_good c acts u_init (good_init c)) as [G Hd].
  destruct (usteps c u_init acts) eqn:E; cbn in G; auto.
  apply good_single_owner with (c := c); auto.
Qed.

Lemma send_belongs_lemma c acts s :
  usteps c u_init acts = Ok s ->
  (forall newer sid l a bs older, u_log s = newer ++ ESend sid l a bs :: older ->
     Forall (fun tb => snd tb = l) bs /\
     (exists rx, In (ERecv sid l a rx) older) /\
     ~ In (ERelease sid l) older) /\
  (forall sid l a1 rx1 a2 rx2, In (ERecv sid l a1 rx1) (u_log s) -> In (ERecv sid l a2 rx2) (u_log s) ->
     a1 = a2 /\ rx1 = rx2).
Proof.
  intros H. pose proof (good_log c s (reachable_good c acts s H)) as L. split.
  - intros newer sid l a bs older E. rewrite E in L. apply log_ok_split in L. cbn in L. tauto.
  - apply log_ok_recv_unique; auto.
Qed.

Lemma no_leftover_lemma c acts s :
  usteps c u_init acts = Ok s ->
  (* a parked slab carries no staged length *)
  (forall sid j, In sid (u_idle s) -> get_slab s sid = Some j -> s_txlen j = 0) /\
  (* a datagram needs a write in its own lease, leaves before that lease is released, and is made
     of that lease's bytes only: a lease that ends unwritten sends nothing, and no later lease
     can send its bytes *)
  (forall newer sid l a bs older, u_log s = newer ++ ESend sid l a bs :: older ->
     In (EWrite sid l) older /\ ~ In (ERelease sid l) older /\
     forall tb, In tb bs -> snd tb = l).
Proof.
  intros H. pose proof (reachable_good c acts s H) as G. split.
  - intros sid j Hin Hj. eapply good_idle_scrubbed; eauto.
  - intros newer sid l a bs older E. pose proof (good_log c s G) as L.
    rewrite E in L. apply log_ok_split in L. cbn in L. destruct L as (L1 & _ & L3 & L4).
    split; auto. split; auto. rewrite Forall_forall in L1. auto.
Qed.

(* the operations the sequential driver performs are sequences of those actions *)
Lemma driver_ops_lemma c ops :
  match run_ops c u_init ops with
  | Panic => False
  | Disabled => False
  | Ok s => good c s
  end.
Proof.
  destruct (run_ops_good c ops u_init (good_init c)) as [G Hd].
  destruct (run_ops c u_init ops); cbn in G; auto.
Qed.

(* ------------------------------------------------------------------ stream *)
Lemma stream_framing_lemma D script arms ops :
  let '(st, errs) := s_run D (s_init script arms) ops in
  (* what is on the wire is a prefix of the frames of the accepted payloads, in order *)
  is_prefix (wire st) (stream_of (t_acc st)) /\
  (* while no write has failed: wire + drain = exactly the frames of the payloads whose stage returned nil *)
  (t_werr st = false -> wire st ++ t_held st = stream_of (t_ok st)) /\
  t_ok st = ok_payloads ops errs /\
  (* accepted payloads: a subsequence of the staged ones, in order, each whole *)
  subseq (t_acc st) (flat_map sop_payloads ops).
Proof.
  destruct (s_run D (s_init script arms) ops) as [st errs] eqn:E.
  destruct (s_run_sinv D ops _ _ _ E (s_init_sinv script arms)) as ([Hp Hw] & _ & Hok & more & Hs & Ha).
  cbn in Hok, Ha. subst more. split; auto. split; [|split; auto].
  intros Hwe. destruct (Hw Hwe) as [H1 H2]. congruence.
Qed.

Lemma stream_parse_lemma ps n :
  Forall fits16 ps -> exists k t, parse_stream (firstn n (stream_of ps)) = (firstn k ps, t).
Proof. apply parse_prefix. Qed.

Lemma stream_parse_whole_lemma ps : Forall fits16 ps -> parse_stream (stream_of ps) = (ps, []).
Proof.
  intros H. unfold parse_stream. rewrite <- (app_nil_r (stream_of ps)) at 2.
  apply parse_frames_stream; auto.
  assert (G : forall l, length l <= length (stream_of l)).
  { induction l as [|h r IH]; cbn; auto. unfold stream_of in *. cbn. rewrite app_length. unfold frame at 1. cbn. lia. }
  apply G.
Qed.

(* payloads that pass stage's size guard fit the 16-bit prefix *)
Lemma staged_fit16 D st p st' : s_stage D st p = (st', SNil) -> fits16 p.
Proof.
  unfold s_stage. destruct (t_werr st); [intros [=]|].
  destruct (N.ltb_spec max_msg_size (N.of_nat (length p))); [intros [=]|].
  intros _. unfold fits16, max_msg_size in *. lia.
Qed.

Lemma conn_trace_lemma D F scripts fuel f st :
  exists ops, snd (conn_loop fuel D F scripts f st []) = ops /\
              fst (conn_loop fuel D F scripts f st []) = fst (s_run D st ops).
Proof.
  destruct (conn_loop_trace D F scripts fuel f st []) as (ops & E1 & E2).
  exists ops. cbn in E1. split; auto. rewrite E2. apply s_run_quiet_fst.
Qed.

(* ------------------------------------------------------------------ writer, shared lookup *)
Lemma writer_lemma ops w : snd (w_run w ops) = w_spec (w_tr w) (negb (w_written w)) ops.
Proof. apply writer_run_spec. Qed.
