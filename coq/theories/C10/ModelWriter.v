(* C10 — the chain's base writer, every way a reply can enter it (middleware/response_writer.go:
   Write, WriteMsg with its two paths; middleware/wire_response.go: WriteWire / CommitWire).
   Executable definitions only.

   All wire-born and pooled requests answer through this writer, so which Transport method is
   called, how often, with what, is the last hop of every reply:
     Write(bs)        — errAlreadyWritten when written; w.msg = new(dns.Msg); Unpack(bs) — on failure
                        the error is returned and the writer stays UNWRITTEN (msg holds the wreck);
                        else rcode from the decoded message, Transport.Write(bs), size = len(bs)
     WriteMsg(m)      — errAlreadyWritten when written; when directPack && !internal: wire.TryPack(m, consume)
                        — if TryPack handles m, consume sets msg = m, rcode, size = len(body) and calls
                        Transport.Write(body); the result is returned and NOTHING ELSE is tried;
                        if it declines (or the writer is not a declared byte sink, or it is an internal
                        sub-query's writer): msg = m, rcode, size = 0, Transport.WriteMsg(m)
     WriteWire(body)  — errAlreadyWritten when written; msg = nil, wire = body, rcode from the caller,
                        Transport.Write(body), size = 0
   The ENVIRONMENT: whether bytes decode and to which rcode, whether TryPack handles a message
   and which bytes it yields (by its contract: what dns.Msg.Pack would produce). *)
From Sdns Require Export Common.Base Gen.C10 C10.Model C10.ModelShare.
Open Scope N_scope.

(* what the writer hands its transport *)
Inductive tcall :=
| TBytes (bs : list byte)        (* Transport.Write(bs) *)
| TMsg (m : N).                  (* Transport.WriteMsg(m): the message OBJECT *)

Inductive wreq :=
| RBytes (bs : list byte) (unpacks : bool) (rcode : Z)
| RMsg (m : N) (rcode : Z) (packed : option (list byte))
| RWire (body : list byte) (rcode : Z).

Inductive werr := WOk | WAlready | WUnpack.

Definition wf_unwritten (w : wfull) : bool := (wf_size w =? writer_unwritten_size)%Z.
Definition wf_with (w : wfull) (hasmsg haswire : bool) (size rcode : Z) : wfull :=
  mkWfull (wf_tr w) hasmsg haswire size rcode (wf_tcp w) (wf_ip w) (wf_internal w) (wf_direct w).
(* may WriteMsg hand the transport raw bytes? `w.directPack && !w.internal` *)
Definition wf_bytes_ok (w : wfull) : bool := wf_direct w && negb (wf_internal w).

Definition wf_write (w : wfull) (r : wreq) : wfull * option (N * tcall) * werr :=
  if negb (wf_unwritten w) then (w, None, WAlready)
  else match r with
       | RBytes bs ok rc =>
           if ok then (wf_with w true (wf_haswire w) (Z.of_nat (length bs)) rc, Some (wf_tr w, TBytes bs), WOk)
           else (wf_with w true (wf_haswire w) (wf_size w) (wf_rcode w), None, WUnpack)
       | RMsg m rc packed =>
           match (if wf_bytes_ok w then packed else None) with
           | Some body => (wf_with w true (wf_haswire w) (Z.of_nat (length body)) rc, Some (wf_tr w, TBytes body), WOk)
           | None => (wf_with w true (wf_haswire w) 0 rc, Some (wf_tr w, TMsg m), WOk)
           end
       | RWire body rc => (wf_with w false true 0 rc, Some (wf_tr w, TBytes body), WOk)
       end.

Fixpoint wf_run (w : wfull) (l : list wreq) : wfull * list (option (N * tcall)) :=
  match l with
  | [] => (w, [])
  | r :: rest => let '(w1, e, _) := wf_write w r in
                 let '(w2, es) := wf_run w1 rest in (w2, e :: es)
  end.

(* Chain.Reset / ResetWire on transport t (stream? / address / Internal()), then AllowDirectPack or not *)
Definition wf_bind (w : wfull) (t : N) (tcp : bool) (ip : N) (internal direct : bool) : wfull :=
  let w1 := wf_reset w t tcp ip in
  mkWfull (wf_tr w1) (wf_hasmsg w1) (wf_haswire w1) (wf_size w1) (wf_rcode w1) (wf_tcp w1) (wf_ip w1) internal direct.

(* the VARIANT the property forbids (not the code): after a direct-pack write the library path is
   tried as well *)
Definition wf_write_fallthrough (w : wfull) (r : wreq) : wfull * list (N * tcall) :=
  if negb (wf_unwritten w) then (w, [])
  else match r with
       | RMsg m rc (Some body) =>
           if wf_bytes_ok w then (wf_with w true (wf_haswire w) 0 rc, [(wf_tr w, TBytes body); (wf_tr w, TMsg m)])
           else (wf_with w true (wf_haswire w) 0 rc, [(wf_tr w, TMsg m)])
       | _ => let '(w1, e, _) := wf_write w r in (w1, match e with Some c => [c] | None => [] end)
       end.
