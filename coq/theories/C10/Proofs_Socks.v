(* C10 — several sockets on one engine: flushTX's runs (wave 5). *)
From Sdns Require Import Common.Base Gen.C10 C10.Model C10.Proofs_UdpBase C10.Proofs_UdpMove C10.Proofs_UdpTags C10.Proofs_UdpStep.
Open Scope nat_scope.

(* every run is one socket's *)
Lemma runs_one_socket s : forall sids g, In g (runs_by_sock s sids) ->
  forall x y, In x g -> In y g -> job_sock s x = job_sock s y.
Proof.
  induction sids as [|sid r IH]; cbn [runs_by_sock]; [intros g []|].
  destruct (runs_by_sock s r) as [|[|sid2 g0] gs] eqn:E.
  - intros g [<-|[]] x y [<-|[]] [<-|[]]. reflexivity.
  - intros g [<-|Hg] x y Hx Hy.
    + destruct Hx as [<-|[]]. destruct Hy as [<-|[]]. reflexivity.
    + eapply IH; eauto. right. exact Hg.
  - destruct (job_sock s sid =? job_sock s sid2)%N eqn:Eq.
    + apply N.eqb_eq in Eq. intros g [<-|Hg] x y Hx Hy.
      * assert (H0 : forall z, In z (sid2 :: g0) -> job_sock s z = job_sock s sid2).
        { intros z Hz. eapply (IH (sid2 :: g0)); [left; reflexivity|exact Hz|left; reflexivity]. }
        destruct Hx as [<-|Hx]; destruct Hy as [<-|Hy]; auto.
        -- rewrite Eq. symmetry. apply H0. exact Hy.
        -- rewrite Eq. apply H0. exact Hx.
        -- rewrite (H0 _ Hx), (H0 _ Hy). reflexivity.
      * eapply IH; eauto. right. exact Hg.
    + intros g [<-|Hg] x y Hx Hy.
      * destruct Hx as [<-|[]]. destruct Hy as [<-|[]]. reflexivity.
      * eapply IH; eauto.
Qed.

(* the single-socket engine of the earlier model is the special case: one run, one sendGroup *)
Lemma runs_single s k : forall sids, (forall x, In x sids -> job_sock s x = k) ->
  runs_by_sock s sids = match sids with [] => [] | _ => [sids] end.
Proof.
  induction sids as [|sid r IH]; intros H; cbn [runs_by_sock]; auto.
  rewrite IH by (intros x Hx; apply H; right; exact Hx).
  destruct r as [|sid2 r']; auto.
  rewrite (H sid) by (left; reflexivity). rewrite (H sid2) by (right; left; reflexivity).
  rewrite N.eqb_refl. reflexivity.
Qed.

Lemma group_events_nil c s : group_events c s [] = [].
Proof. unfold group_events. destruct (c_batchtx c); reflexivity. Qed.

Theorem single_socket_one_group c s k sids :
  (forall x, In x sids -> job_sock s x = k) -> flush_events c s sids = group_events c s sids.
Proof.
  intros H. unfold flush_events. rewrite (runs_single s k sids H).
  destruct sids; cbn [flat_map]; [symmetry; apply group_events_nil|apply app_nil_r].
Qed.

(* the sockets of a flush: every staged job is handed to exactly one sendGroup, that group is
   its own socket's, and the groups follow the burst's order *)
Theorem flush_runs_lemma s sids :
  concat (runs_by_sock s sids) = sids /\
  (forall g, In g (runs_by_sock s sids) -> forall x y, In x g -> In y g -> job_sock s x = job_sock s y).
Proof. split; [apply runs_concat|apply runs_one_socket]. Qed.

(* two sockets, one burst [a0 (socket 0); b (socket 1); a1 (socket 0)], all batched: three
   sendGroups in burst order — NOT "socket 0's datagrams, then socket 1's" *)
Example two_socket_runs :
  let j a := mkSlab st_serving a (Some a) [] (tag 1 [7%N]) 1 true false None 1 0 no_script in
  let s := mkUst [j 1%N; j 1025%N; j 2%N] [] [] [] [] [(0, 0); (0, 1); (0, 2)] [] 3 [] in
  runs_by_sock s [0; 1; 2] = [[0]; [1]; [2]] /\
  map (fun e => match e with ESend sid _ a _ => (sid, a) | _ => (99, 0%N) end) (flush_events (mkCfg 8 2 1 true) s [0; 1; 2])
  = [(0, 1%N); (1, 1025%N); (2, 2%N)].
Proof. vm_compute. split; reflexivity. Qed.
