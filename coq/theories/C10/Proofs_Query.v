(* C10 — internal sub-queries on pooled BufferWriters and pooled chains under every interleaving. *)
From Sdns Require Import Common.Base Gen.C10 C10.Model C10.ModelShare C10.ModelQuery C10.Proofs_UdpBase.
Open Scope nat_scope.

Definition not_put (x : qlive) : Prop := ql_ph x <> QChainPut.

Record qinv (s : qst) : Prop := mkQinv {
  qi_q : forall x y, In x (q_live s) -> In y (q_live s) -> ql_q x = ql_q y -> x = y;
  (* no BufferWriter has two users *)
  qi_w : forall x y, In x (q_live s) -> In y (q_live s) -> ql_w x = ql_w y -> x = y;
  (* no chain has two users (a query that has put its chain back no longer uses it) *)
  qi_c : forall x y, In x (q_live s) -> In y (q_live s) -> not_put x -> not_put y -> ql_c x = ql_c y -> x = y;
  qi_wlt : forall x, In x (q_live s) -> ql_w x < length (q_writers s);
  qi_clt : forall x, In x (q_live s) -> ql_c x < length (q_chains s);
  (* a pooled writer holds no message and has no user *)
  qi_wpool : forall w, In w (q_wpool s) ->
               nth_error (q_writers s) w = Some None /\ forall x, In x (q_live s) -> ql_w x <> w;
  qi_wpool_nd : NoDup (q_wpool s);
  qi_cpool : forall c, In c (q_cpool s) ->
               c < length (q_chains s) /\ forall x, In x (q_live s) -> not_put x -> ql_c x <> c;
  qi_cpool_nd : NoDup (q_cpool s);
  (* the key fact: while handlers of a query run, its chain's base writer is bound to ITS
     BufferWriter, and that writer holds exactly what this query's handlers wrote first *)
  qi_run : forall x, In x (q_live s) -> ql_ph x = QRun ->
             exists b, nth_error (q_chains s) (ql_c x) = Some b /\ w_tr b = N.of_nat (ql_w x) /\
                       nth_error (q_writers s) (ql_w x) = Some (ql_first x) /\
                       w_written b = negb (is_none (ql_first x));
  qi_res : forall q r f, In (q, r, f) (q_res s) -> r = f
}.

Lemma qinv_init : qinv q_init.
Proof. constructor; cbn; try (intros; tauto); constructor. Qed.

Lemma live_find_In q l x : live_find q l = Some x -> In x l /\ ql_q x = q.
Proof.
  unfold live_find. intros H. apply find_some in H as [Hin Hb]. apply Nat.eqb_eq in Hb. auto.
Qed.
Lemma live_find_None q l : live_find q l = None -> forall x, In x l -> ql_q x <> q.
Proof.
  unfold live_find. intros H x Hin E. eapply find_none in H; eauto. cbn in H.
  rewrite E, Nat.eqb_refl in H. discriminate.
Qed.
Lemma live_rm_In q l x : In x (live_rm q l) <-> In x l /\ ql_q x <> q.
Proof.
  unfold live_rm. rewrite filter_In. split; intros [H1 H2]; split; auto.
  - intros E. rewrite E, Nat.eqb_refl in H2. discriminate.
  - apply Bool.negb_true_iff. apply Nat.eqb_neq. auto.
Qed.
(* replacing the record of query q: what is in the list afterwards *)
Lemma live_set_In x1 l y :
  In y (live_set x1 l) ->
  (y = x1 /\ exists x0, In x0 l /\ ql_q x0 = ql_q x1) \/ (In y l /\ ql_q y <> ql_q x1).
Proof.
  unfold live_set. intros H. apply in_map_iff in H as (z & E & Hz).
  destruct (Nat.eqb (ql_q z) (ql_q x1)) eqn:Eq.
  - apply Nat.eqb_eq in Eq. left. split; auto. exists z. auto.
  - apply Nat.eqb_neq in Eq. right. subst y. auto.
Qed.

Lemma pool_get_cases {A} pool (all : list A) fresh i all' pool' :
  pool_get pool all fresh i = Some (all', pool') ->
  (In i pool /\ all' = all /\ pool' = rem_nat i pool) \/
  (~ In i pool /\ i = length all /\ all' = all ++ [fresh] /\ pool' = pool).
Proof.
  unfold pool_get. destruct (mem_nat i pool) eqn:Em.
  - intros H. inversion H; subst. left. apply mem_nat_In in Em. auto.
  - destruct (Nat.eqb i (length all)) eqn:En; [|discriminate].
    intros H. inversion H; subst. right. apply Nat.eqb_eq in En.
    split; [|auto]. intros X. apply mem_nat_In in X. congruence.
Qed.

Lemma w_reset_facts b t : w_tr (fst (w_step b (WReset t))) = t /\ w_written (fst (w_step b (WReset t))) = false.
Proof. split; reflexivity. Qed.

Lemma nth_error_app_keep {A} (l : list A) x i v : nth_error l i = Some v -> nth_error (l ++ [x]) i = Some v.
Proof. intros H. rewrite nth_app_old; auto. eapply nth_error_lt; eauto. Qed.

(* a live record keeps its identity fields when its phase / ghost changes *)
Ltac live_cases H :=
  apply live_set_In in H as [(-> & ? & ? & ?)|(? & ?)].

(* replacing the record of a live query by one with the same query number: every record of the
   new list is the new one, or an old one of ANOTHER query *)
Lemma live_set_cases l x x1 y :
  (forall a b, In a l -> In b l -> ql_q a = ql_q b -> a = b) -> In x l -> ql_q x1 = ql_q x ->
  In y (live_set x1 l) -> y = x1 \/ (In y l /\ y <> x /\ ql_q y <> ql_q x).
Proof.
  intros Hu Hx Eq Hy. apply live_set_In in Hy as [(-> & _)|(Hy & Hne)]; [left; reflexivity|].
  right. rewrite Eq in Hne. split; [auto|]. split; [|auto]. intros ->. apply Hne. reflexivity.
Qed.

(* the bookkeeping shared by the steps that only change the phase / ghost of one live query x
   (same writer, same chain) and nothing of the pools: the sharing facts carry over *)
Lemma live_set_sharing s x x1 :
  qinv s -> In x (q_live s) -> ql_q x1 = ql_q x -> ql_w x1 = ql_w x -> ql_c x1 = ql_c x ->
  (not_put x1 -> not_put x) ->
  let l' := live_set x1 (q_live s) in
  (forall a b, In a l' -> In b l' -> ql_q a = ql_q b -> a = b) /\
  (forall a b, In a l' -> In b l' -> ql_w a = ql_w b -> a = b) /\
  (forall a b, In a l' -> In b l' -> not_put a -> not_put b -> ql_c a = ql_c b -> a = b) /\
  (forall a, In a l' -> ql_w a < length (q_writers s)) /\
  (forall a, In a l' -> ql_c a < length (q_chains s)) /\
  (forall w, In w (q_wpool s) -> forall a, In a l' -> ql_w a <> w) /\
  (forall c, In c (q_cpool s) -> forall a, In a l' -> not_put a -> ql_c a <> c).
Proof.
  intros Hi Hx Eq Ew Ec Hnp l'.
  assert (Hcase : forall y, In y l' -> y = x1 \/ (In y (q_live s) /\ y <> x /\ ql_q y <> ql_q x)).
  { intros y Hy. eapply live_set_cases; eauto. apply (qi_q _ Hi). }
  split; [|split; [|split; [|split; [|split; [|split]]]]].
  - intros a b Ha Hb E. destruct (Hcase _ Ha) as [->|(Ha0 & Hane & Haq)]; destruct (Hcase _ Hb) as [->|(Hb0 & Hbne & Hbq)]; auto.
    + exfalso. apply Hbq. congruence.
    + exfalso. apply Haq. congruence.
    + eapply (qi_q _ Hi); eauto.
  - intros a b Ha Hb E. destruct (Hcase _ Ha) as [->|(Ha0 & Hane & Haq)]; destruct (Hcase _ Hb) as [->|(Hb0 & Hbne & Hbq)]; auto.
    + exfalso. apply Hbne. eapply (qi_w _ Hi); eauto. congruence.
    + exfalso. apply Hane. eapply (qi_w _ Hi); eauto. congruence.
    + eapply (qi_w _ Hi); eauto.
  - intros a b Ha Hb Hna Hnb E. destruct (Hcase _ Ha) as [->|(Ha0 & Hane & Haq)]; destruct (Hcase _ Hb) as [->|(Hb0 & Hbne & Hbq)]; auto.
    + exfalso. apply Hbne. eapply (qi_c _ Hi); eauto. congruence.
    + exfalso. apply Hane. eapply (qi_c _ Hi); eauto. congruence.
    + eapply (qi_c _ Hi); eauto.
  - intros a Ha. destruct (Hcase _ Ha) as [->|(Ha0 & _)]; [rewrite Ew|]; apply (qi_wlt _ Hi); auto.
  - intros a Ha. destruct (Hcase _ Ha) as [->|(Ha0 & _)]; [rewrite Ec|]; apply (qi_clt _ Hi); auto.
  - intros w Hw a Ha. destruct (qi_wpool _ Hi _ Hw) as (_ & Hu).
    destruct (Hcase _ Ha) as [->|(Ha0 & _)]; [rewrite Ew|]; auto.
  - intros c Hc a Ha Hna. destruct (qi_cpool _ Hi _ Hc) as (_ & Hu).
    destruct (Hcase _ Ha) as [->|(Ha0 & _)]; [rewrite Ec|]; auto.
Qed.

Lemma qinv_step s a s' : qinv s -> qstep s a = Some s' -> qinv s'.
Proof.
  intros Hi. unfold qstep. destruct a as [q w c|q m|q|q|q|q]; cbn [qstep_gen].
  - (* QBegin *)
    destruct (live_find q (q_live s)) eqn:Ef; cbn [is_none negb]; [discriminate|].
    pose proof (live_find_None _ _ Ef) as Hq.
    destruct (pool_get (q_wpool s) (q_writers s) None w) as [[writers wpool]|] eqn:Ew; [|discriminate].
    destruct (pool_get (q_cpool s) (q_chains s) (mkWriter 0 writer_reset_size) c) as [[chains cpool]|] eqn:Ec; [|discriminate].
    destruct (nth_error chains c) as [b|] eqn:Eb; [|discriminate].
    intros H. inversion H; subst; clear H.
    apply pool_get_cases in Ew. apply pool_get_cases in Ec.
    (* facts about the writer handed out *)
    assert (Hw : nth_error writers w = Some None /\ (forall x, In x (q_live s) -> ql_w x <> w) /\
                 length (q_writers s) <= length writers /\
                 (forall i v, nth_error (q_writers s) i = Some v -> nth_error writers i = Some v) /\
                 (forall w', In w' wpool -> In w' (q_wpool s) /\ w' <> w) /\ NoDup wpool).
    { destruct Ew as [(Hin & -> & ->)|(Hn & -> & -> & ->)].
      - destruct (qi_wpool _ Hi _ Hin) as (H1 & H2).
        split; [exact H1|]. split; [exact H2|]. split; [lia|]. split; [auto|]. split.
        + intros w' Hw'. apply rem_nat_In in Hw'. tauto.
        + unfold rem_nat. apply NoDup_filter. apply (qi_wpool_nd _ Hi).
      - split; [apply nth_app_fresh|]. split.
        { intros x Hx E. pose proof (qi_wlt _ Hi _ Hx). lia. }
        split; [rewrite app_length; lia|]. split.
        { intros i v Hv. apply nth_error_app_keep; auto. }
        split.
        + intros w' Hw'. split; auto. intros ->.
          destruct (qi_wpool _ Hi _ Hw') as (H1 & _). apply nth_error_lt in H1. lia.
        + apply (qi_wpool_nd _ Hi). }
    destruct Hw as (Hw1 & Hw2 & Hw3 & Hw4 & Hw5 & Hw6).
    assert (Hc : (forall x, In x (q_live s) -> not_put x -> ql_c x <> c) /\
                 length (q_chains s) <= length chains /\
                 (forall i v, nth_error (q_chains s) i = Some v -> nth_error chains i = Some v) /\
                 (forall c', In c' cpool -> In c' (q_cpool s) /\ c' <> c) /\ NoDup cpool).
    { destruct Ec as [(Hin & -> & ->)|(Hn & -> & -> & ->)].
      - destruct (qi_cpool _ Hi _ Hin) as (H1 & H2).
        split; [exact H2|]. split; [lia|]. split; [auto|]. split.
        + intros c' Hc'. apply rem_nat_In in Hc'. tauto.
        + unfold rem_nat. apply NoDup_filter. apply (qi_cpool_nd _ Hi).
      - split.
        { intros x Hx Hnp E. pose proof (qi_clt _ Hi _ Hx). lia. }
        split; [rewrite app_length; lia|]. split.
        { intros i v Hv. apply nth_error_app_keep; auto. }
        split.
        + intros c' Hc'. split; auto. intros ->.
          destruct (qi_cpool _ Hi _ Hc') as (H1 & _). lia.
        + apply (qi_cpool_nd _ Hi). }
    destruct Hc as (Hc1 & Hc2 & Hc3 & Hc4 & Hc5).
    assert (Hwlt : w < length writers) by (eapply nth_error_lt; eauto).
    assert (Hclt : c < length chains) by (eapply nth_error_lt; eauto).
    set (new := mkQlive q w c QRun None).
    constructor; cbn [q_writers q_wpool q_chains q_cpool q_live q_res].
    + intros x y [<-|Hx] [<-|Hy] E; auto.
      * exfalso. eapply Hq; eauto.
      * exfalso. eapply Hq; eauto.
      * eapply (qi_q _ Hi); eauto.
    + intros x y [<-|Hx] [<-|Hy] E; auto.
      * exfalso. eapply Hw2; eauto.
      * exfalso. eapply Hw2; eauto.
      * eapply (qi_w _ Hi); eauto.
    + intros x y [<-|Hx] [<-|Hy] Hnx Hny E; auto.
      * exfalso. eapply Hc1; eauto.
      * exfalso. eapply Hc1; eauto.
      * eapply (qi_c _ Hi); eauto.
    + intros x [<-|Hx]; [exact Hwlt|]. pose proof (qi_wlt _ Hi _ Hx). lia.
    + intros x [<-|Hx]; rewrite upd_length; [exact Hclt|]. pose proof (qi_clt _ Hi _ Hx). lia.
    + intros w' Hw'. destruct (Hw5 _ Hw') as (Hold & Hne).
      destruct (qi_wpool _ Hi _ Hold) as (H1 & H2). split; [auto|].
      intros x [<-|Hx]; cbn; auto.
    + exact Hw6.
    + intros c' Hc'. destruct (Hc4 _ Hc') as (Hold & Hne).
      destruct (qi_cpool _ Hi _ Hold) as (H1 & H2). rewrite upd_length. split; [lia|].
      intros x [<-|Hx] Hnp; cbn; auto.
    + exact Hc5.
    + intros x [<-|Hx] Hp.
      * cbn [ql_c ql_w ql_first new]. rewrite nth_upd_same by auto.
        eexists. split; [reflexivity|]. split; [reflexivity|]. split; [exact Hw1|]. reflexivity.
      * destruct (qi_run _ Hi _ Hx Hp) as (b0 & Hb0 & Ht & Hm & Hf).
        assert (ql_c x <> c). { apply Hc1; auto. unfold not_put. rewrite Hp. discriminate. }
        exists b0. rewrite nth_upd_other by auto. repeat split; auto.
    + apply (qi_res _ Hi).
  - (* QWrite *)
    destruct (live_find q (q_live s)) as [x|] eqn:Ef; [|discriminate].
    apply live_find_In in Ef as (Hx & Eq).
    destruct (ql_ph x) eqn:Ep; cbn [is_run negb]; try discriminate.
    destruct (nth_error (q_chains s) (ql_c x)) as [b|] eqn:Eb; [|discriminate].
    destruct (qi_run _ Hi _ Hx Ep) as (b0 & Hb0 & Ht & Hm & Hwr).
    rewrite Eb in Hb0. inversion Hb0; subst b0; clear Hb0.
    destruct (w_step b (WWrite [m])) as [b1 e] eqn:Es.
    set (first' := match ql_first x with None => Some m | f => f end).
    set (writers' := match e with Some (t, _) => upd (q_writers s) (N.to_nat t) (Some m) | None => q_writers s end).
    set (x1 := mkQlive q (ql_w x) (ql_c x) QRun first').
    intros H. inversion H; subst s'; clear H.
    assert (K : w_tr b1 = N.of_nat (ql_w x) /\ nth_error writers' (ql_w x) = Some first' /\
                w_written b1 = negb (is_none first') /\
                (forall i, i <> ql_w x -> nth_error writers' i = nth_error (q_writers s) i) /\
                length writers' = length (q_writers s)).
    { pose proof (qi_wlt _ Hi _ Hx) as Hlt.
      cbn in Es. destruct (w_written b) eqn:Ewr; inversion Es; subst b1 e; clear Es; subst writers' first'.
      - destruct (ql_first x) as [f|]; [|discriminate]. repeat split; auto.
      - destruct (ql_first x) as [f|]; [discriminate|]. rewrite Ht, Nat2N.id.
        split; [reflexivity|]. split; [apply nth_upd_same; auto|]. split; [reflexivity|].
        split; [|apply upd_length]. intros i Hne. apply nth_upd_other. auto. }
    destruct K as (K1 & K2 & K3 & K4 & K5).
    assert (Hc1 : ql_c x < length (q_chains s)) by (eapply nth_error_lt; eauto).
    destruct (live_set_sharing s x x1 Hi Hx) as (S1 & S2 & S3 & S4 & S5 & S6 & S7); auto.
    { unfold not_put. rewrite Ep. discriminate. }
    assert (Hcase : forall y, In y (live_set x1 (q_live s)) -> y = x1 \/ (In y (q_live s) /\ y <> x /\ ql_q y <> ql_q x)).
    { intros y Hy. eapply live_set_cases; eauto. apply (qi_q _ Hi). }
    constructor; cbn [q_writers q_wpool q_chains q_cpool q_live q_res]; auto.
    + intros a Ha. rewrite K5. auto.
    + intros a Ha. rewrite upd_length. auto.
    + intros w' Hw'. destruct (qi_wpool _ Hi _ Hw') as (H1 & H2). split; [|apply S6; auto].
      rewrite K4; auto. intros ->. eapply H2; eauto.
    + apply (qi_wpool_nd _ Hi).
    + intros c' Hc'. destruct (qi_cpool _ Hi _ Hc') as (H1 & H2). rewrite upd_length. split; [auto|apply S7; auto].
    + apply (qi_cpool_nd _ Hi).
    + intros y Hy Hp. destruct (Hcase _ Hy) as [->|(Hy0 & Hne & Hqne)].
      * cbn [x1 ql_c ql_w ql_first]. rewrite nth_upd_same by auto. exists b1. repeat split; auto.
      * destruct (qi_run _ Hi _ Hy0 Hp) as (by0 & Hby & Hty & Hmy & Hwy).
        assert (ql_c y <> ql_c x).
        { intros E. apply Hne. eapply (qi_c _ Hi); eauto; unfold not_put; [rewrite Hp|rewrite Ep]; discriminate. }
        assert (ql_w y <> ql_w x).
        { intros E. apply Hne. eapply (qi_w _ Hi); eauto. }
        exists by0. rewrite nth_upd_other by auto. rewrite K4 by auto. repeat split; auto.
    + apply (qi_res _ Hi).
  - (* QRead *)
    destruct (live_find q (q_live s)) as [x|] eqn:Ef; [|discriminate].
    apply live_find_In in Ef as (Hx & Eq).
    destruct (ql_ph x) eqn:Ep; cbn [is_run negb]; try discriminate.
    destruct (nth_error (q_writers s) (ql_w x)) as [r|] eqn:Er; [|discriminate].
    destruct (qi_run _ Hi _ Hx Ep) as (b0 & Hb0 & Ht & Hm & Hwr).
    set (x1 := mkQlive q (ql_w x) (ql_c x) QClosing (ql_first x)).
    intros H. inversion H; subst s'; clear H.
    destruct (live_set_sharing s x x1 Hi Hx) as (S1 & S2 & S3 & S4 & S5 & S6 & S7); auto.
    { unfold not_put. rewrite Ep. discriminate. }
    assert (Hcase : forall y, In y (live_set x1 (q_live s)) -> y = x1 \/ (In y (q_live s) /\ y <> x /\ ql_q y <> ql_q x)).
    { intros y Hy. eapply live_set_cases; eauto. apply (qi_q _ Hi). }
    constructor; cbn [q_writers q_wpool q_chains q_cpool q_live q_res]; auto.
    + intros w' Hw'. destruct (qi_wpool _ Hi _ Hw') as (H1 & H2). split; [auto|apply S6; auto].
    + apply (qi_wpool_nd _ Hi).
    + intros c' Hc'. destruct (qi_cpool _ Hi _ Hc') as (H1 & H2). split; [auto|apply S7; auto].
    + apply (qi_cpool_nd _ Hi).
    + intros y Hy Hp. destruct (Hcase _ Hy) as [->|(Hy0 & Hne & Hqne)]; [discriminate Hp|].
      apply (qi_run _ Hi); auto.
    + intros q' r' f' [E|Hin]; [|eapply (qi_res _ Hi); eauto].
      inversion E; subst. congruence.
  - (* QPanic *)
    destruct (live_find q (q_live s)) as [x|] eqn:Ef; [|discriminate].
    apply live_find_In in Ef as (Hx & Eq).
    destruct (ql_ph x) eqn:Ep; cbn [is_run negb]; try discriminate.
    set (x1 := mkQlive q (ql_w x) (ql_c x) QClosing (ql_first x)).
    intros H. inversion H; subst s'; clear H.
    destruct (live_set_sharing s x x1 Hi Hx) as (S1 & S2 & S3 & S4 & S5 & S6 & S7); auto.
    { unfold not_put. rewrite Ep. discriminate. }
    assert (Hcase : forall y, In y (live_set x1 (q_live s)) -> y = x1 \/ (In y (q_live s) /\ y <> x /\ ql_q y <> ql_q x)).
    { intros y Hy. eapply live_set_cases; eauto. apply (qi_q _ Hi). }
    constructor; cbn [q_writers q_wpool q_chains q_cpool q_live q_res]; auto.
    + intros w' Hw'. destruct (qi_wpool _ Hi _ Hw') as (H1 & H2). split; [auto|apply S6; auto].
    + apply (qi_wpool_nd _ Hi).
    + intros c' Hc'. destruct (qi_cpool _ Hi _ Hc') as (H1 & H2). split; [auto|apply S7; auto].
    + apply (qi_cpool_nd _ Hi).
    + intros y Hy Hp. destruct (Hcase _ Hy) as [->|(Hy0 & Hne & Hqne)]; [discriminate Hp|].
      apply (qi_run _ Hi); auto.
    + apply (qi_res _ Hi).
  - (* QPutChain *)
    destruct (live_find q (q_live s)) as [x|] eqn:Ef; [|discriminate].
    apply live_find_In in Ef as (Hx & Eq).
    destruct (ql_ph x) eqn:Ep; cbn [is_closing negb]; try discriminate.
    set (x1 := mkQlive q (ql_w x) (ql_c x) QChainPut (ql_first x)).
    intros H. inversion H; subst s'; clear H.
    assert (Hnpx : not_put x) by (unfold not_put; rewrite Ep; discriminate).
    destruct (live_set_sharing s x x1 Hi Hx) as (S1 & S2 & S3 & S4 & S5 & S6 & S7); auto.
    assert (Hcase : forall y, In y (live_set x1 (q_live s)) -> y = x1 \/ (In y (q_live s) /\ y <> x /\ ql_q y <> ql_q x)).
    { intros y Hy. eapply live_set_cases; eauto. apply (qi_q _ Hi). }
    constructor; cbn [q_writers q_wpool q_chains q_cpool q_live q_res]; auto.
    + intros w' Hw'. destruct (qi_wpool _ Hi _ Hw') as (H1 & H2). split; [auto|apply S6; auto].
    + apply (qi_wpool_nd _ Hi).
    + intros c' [<-|Hc'].
      * split; [apply (qi_clt _ Hi); auto|].
        intros y Hy Hny. destruct (Hcase _ Hy) as [->|(Hy0 & Hne & Hqne)].
        -- exfalso. apply Hny. reflexivity.
        -- intros E. apply Hne. eapply (qi_c _ Hi); eauto.
      * destruct (qi_cpool _ Hi _ Hc') as (H1 & H2). split; [auto|apply S7; auto].
    + constructor; [|apply (qi_cpool_nd _ Hi)].
      intros X. destruct (qi_cpool _ Hi _ X) as (_ & H2). eapply H2; eauto.
    + intros y Hy Hp. destruct (Hcase _ Hy) as [->|(Hy0 & Hne & Hqne)]; [discriminate Hp|].
      apply (qi_run _ Hi); auto.
    + apply (qi_res _ Hi).
  - (* QPutWriter *)
    destruct (live_find q (q_live s)) as [x|] eqn:Ef; [|discriminate].
    apply live_find_In in Ef as (Hx & Eq).
    destruct (ql_ph x) eqn:Ep; cbn [is_chainput negb]; try discriminate.
    destruct (nth_error (q_writers s) (ql_w x)) as [old|] eqn:Eo; [|discriminate].
    intros H. inversion H; subst s'; clear H.
    assert (Hwlt : ql_w x < length (q_writers s)) by (eapply nth_error_lt; eauto).
    assert (Hsub : forall y, In y (live_rm q (q_live s)) -> In y (q_live s) /\ y <> x).
    { intros y Hy. apply live_rm_In in Hy as (Hy & Hne). split; auto. intros ->. auto. }
    constructor; cbn [q_writers q_wpool q_chains q_cpool q_live q_res].
    + intros a b Ha Hb. apply Hsub in Ha as (Ha & _). apply Hsub in Hb as (Hb & _). apply (qi_q _ Hi); auto.
    + intros a b Ha Hb. apply Hsub in Ha as (Ha & _). apply Hsub in Hb as (Hb & _). apply (qi_w _ Hi); auto.
    + intros a b Ha Hb. apply Hsub in Ha as (Ha & _). apply Hsub in Hb as (Hb & _). apply (qi_c _ Hi); auto.
    + intros a Ha. apply Hsub in Ha as (Ha & _). rewrite upd_length. apply (qi_wlt _ Hi); auto.
    + intros a Ha. apply Hsub in Ha as (Ha & _). apply (qi_clt _ Hi); auto.
    + intros w' [<-|Hw'].
      * split; [apply nth_upd_same; auto|].
        intros y Hy E. apply Hsub in Hy as (Hy & Hne). apply Hne. eapply (qi_w _ Hi); eauto.
      * destruct (qi_wpool _ Hi _ Hw') as (H1 & H2).
        assert (ql_w x <> w') by (apply H2; auto).
        split; [rewrite nth_upd_other; auto|].
        intros y Hy. apply Hsub in Hy as (Hy & _). auto.
    + constructor; [|apply (qi_wpool_nd _ Hi)].
      intros X. destruct (qi_wpool _ Hi _ X) as (_ & H2). eapply H2; eauto.
    + intros c' Hc'. destruct (qi_cpool _ Hi _ Hc') as (H1 & H2). split; auto.
      intros y Hy. apply Hsub in Hy as (Hy & _). auto.
    + apply (qi_cpool_nd _ Hi).
    + intros y Hy Hp. apply Hsub in Hy as (Hy & Hne).
      destruct (qi_run _ Hi _ Hy Hp) as (by0 & Hby & Hty & Hmy & Hwy).
      assert (ql_w y <> ql_w x).
      { intros E. apply Hne. eapply (qi_w _ Hi); eauto. }
      exists by0. rewrite nth_upd_other by auto. repeat split; auto.
    + apply (qi_res _ Hi).
Qed.

Lemma qinv_steps : forall l s, qinv s -> qinv (qsteps s l).
Proof.
  induction l as [|a r IH]; intros s Hi; cbn; auto.
  destruct (qstep s a) as [s1|] eqn:E; auto. apply IH. eapply qinv_step; eauto.
Qed.

(* the ghost [ql_first] is what it is called: a message recorded as "the first one query q's own
   handlers wrote" was written by a step [QWrite q m] of the schedule *)
Definition qown (s : qst) (acts : list qact) : Prop :=
  (forall x m, In x (q_live s) -> ql_first x = Some m -> In (QWrite (ql_q x) m) acts) /\
  (forall q r m, In (q, r, Some m) (q_res s) -> In (QWrite q m) acts).

Lemma qown_mono s acts a : qown s acts -> qown s (acts ++ [a]).
Proof. intros (H1 & H2). split; intros; apply in_or_app; left; eauto. Qed.

Lemma qown_step s a s' acts : qown s acts -> qstep s a = Some s' -> qown s' (acts ++ [a]).
Proof.
  intros Ho. pose proof (qown_mono _ _ a Ho) as (M1 & M2). clear Ho.
  unfold qstep. destruct a as [q w c|q m|q|q|q|q]; cbn [qstep_gen].
  - destruct (live_find q (q_live s)); cbn [is_none negb]; [discriminate|].
    destruct (pool_get (q_wpool s) _ _ w) as [[writers wpool]|]; [|discriminate].
    destruct (pool_get (q_cpool s) _ _ c) as [[chains cpool]|]; [|discriminate].
    destruct (nth_error chains c); [|discriminate].
    intros H. inversion H; subst; clear H. split; cbn [q_live q_res]; auto.
    intros x m [<-|Hx] E; [discriminate E|eauto].
  - destruct (live_find q (q_live s)) as [x|] eqn:Ef; [|discriminate].
    apply live_find_In in Ef as (Hx & Eq). subst q.
    destruct (is_run (ql_ph x)); cbn [negb]; [|discriminate].
    destruct (nth_error (q_chains s) (ql_c x)); [|discriminate].
    destruct (w_step _ _) as [b1 e].
    intros H. inversion H; subst s'; clear H. split; cbn [q_live q_res]; auto.
    intros y m' Hy E. apply live_set_In in Hy as [(-> & _)|(Hy & _)]; [|eauto].
    cbn in E. destruct (ql_first x) as [f|] eqn:Efx.
    + cbn. apply M1; auto. congruence.
    + inversion E; subst. apply in_or_app. right. left. reflexivity.
  - destruct (live_find q (q_live s)) as [x|] eqn:Ef; [|discriminate].
    apply live_find_In in Ef as (Hx & Eq). subst q.
    destruct (is_run (ql_ph x)); cbn [negb]; [|discriminate].
    destruct (nth_error (q_writers s) (ql_w x)) as [r|]; [|discriminate].
    intros H. inversion H; subst s'; clear H. split; cbn [q_live q_res].
    + intros y m' Hy E. apply live_set_In in Hy as [(-> & _)|(Hy & _)]; [|eauto].
      cbn in E |- *. apply M1; auto.
    + intros q' r' m' [E|Hin]; [|eauto]. inversion E; subst. apply M1; auto.
  - destruct (live_find q (q_live s)) as [x|] eqn:Ef; [|discriminate].
    apply live_find_In in Ef as (Hx & Eq). subst q.
    destruct (is_run (ql_ph x)); cbn [negb]; [|discriminate].
    intros H. inversion H; subst s'; clear H. split; cbn [q_live q_res]; auto.
    intros y m' Hy E. apply live_set_In in Hy as [(-> & _)|(Hy & _)]; [|eauto].
    cbn in E |- *. apply M1; auto.
  - destruct (live_find q (q_live s)) as [x|] eqn:Ef; [|discriminate].
    apply live_find_In in Ef as (Hx & Eq). subst q.
    destruct (is_closing (ql_ph x)); cbn [negb]; [|discriminate].
    intros H. inversion H; subst s'; clear H. split; cbn [q_live q_res]; auto.
    intros y m' Hy E. apply live_set_In in Hy as [(-> & _)|(Hy & _)]; [|eauto].
    cbn in E |- *. apply M1; auto.
  - destruct (live_find q (q_live s)) as [x|] eqn:Ef; [|discriminate].
    destruct (is_chainput (ql_ph x)); cbn [negb]; [|discriminate].
    destruct (nth_error (q_writers s) (ql_w x)); [|discriminate].
    intros H. inversion H; subst s'; clear H. split; cbn [q_live q_res]; auto.
    intros y m' Hy E. apply live_rm_In in Hy as (Hy & _). eauto.
Qed.

Lemma qown_steps : forall l s pre, qown s pre -> qown (qsteps s l) (pre ++ l).
Proof.
  induction l as [|a r IH]; intros s pre Ho; cbn [qsteps].
  - rewrite app_nil_r. exact Ho.
  - replace (pre ++ a :: r) with ((pre ++ [a]) ++ r) by (rewrite <- app_assoc; reflexivity).
    destruct (qstep s a) as [s1|] eqn:E; apply IH.
    + eapply qown_step; eauto.
    + apply qown_mono; auto.
Qed.

(* EVERY interleaving of the atomic steps of any number of concurrent Query calls — whatever
   objects the two pools hand out, handlers that write once, twice or never, or panic:
   (1) what a Query call returns is exactly the first message its OWN handlers wrote, and
       "no response" exactly when they wrote none — never a message another query wrote, never
       one a previous user of the pooled writer left behind;
   (2) that message was written by a step of that very query;
   (3) no BufferWriter is ever used by two queries at once, (4) no chain either (up to its
       PutChain), (5) a writer in the pool holds no message and has no user. *)
Theorem query_lemma l :
  let s := qsteps q_init l in
  (forall q r f, In (q, r, f) (q_res s) -> r = f) /\
  (forall q r m, In (q, r, Some m) (q_res s) -> In (QWrite q m) l) /\
  (forall x y, In x (q_live s) -> In y (q_live s) -> ql_w x = ql_w y -> x = y) /\
  (forall x y, In x (q_live s) -> In y (q_live s) -> ql_ph x <> QChainPut -> ql_ph y <> QChainPut ->
               ql_c x = ql_c y -> x = y) /\
  (forall w, In w (q_wpool s) -> nth_error (q_writers s) w = Some None /\
                                 forall x, In x (q_live s) -> ql_w x <> w).
Proof.
  intros s. pose proof (qinv_steps l _ qinv_init) as Hi. fold s in Hi.
  assert (Ho : qown s ([] ++ l)).
  { apply qown_steps. split; cbn; intros; tauto. }
  cbn [app] in Ho. destruct Ho as (_ & O2).
  split; [apply (qi_res _ Hi)|]. split; [exact O2|]. split; [apply (qi_w _ Hi)|].
  split; [apply (qi_c _ Hi)|]. apply (qi_wpool _ Hi).
Qed.

(* the driver's coarse operations are lists of these steps: covered *)
Lemma query_ops_covered (ops : list qop) :
  let s := qsteps q_init (flat_map qplan ops) in
  forall q r f, In (q, r, f) (q_res s) -> r = f.
Proof. intros s. apply (query_lemma (flat_map qplan ops)). Qed.

(* non-vacuity: three overlapping queries; 2 ends first and 3 takes over 2's chain while 2 still
   holds its writer; 1 tries a second write (refused); 4 reuses writer 1 and chain 0, writes
   nothing and comes back empty-handed *)
Definition query_example_schedule : list qact :=
  [QBegin 1 0 0; QBegin 2 1 1; QWrite 2 22; QWrite 1 11; QWrite 1 12; QRead 2; QPutChain 2;
   QBegin 3 2 1; QPutWriter 2; QWrite 3 33; QRead 1; QPutChain 1; QPutWriter 1;
   QBegin 4 1 0; QRead 3; QRead 4; QPutChain 4; QPutWriter 4; QPutChain 3; QPutWriter 3]%N.
Lemma query_example :
  let s := qsteps q_init query_example_schedule in
  qsteps_strict q_init query_example_schedule = Some s /\
  q_res s = [(4, None, None); (3, Some 33%N, Some 33%N); (1, Some 11%N, Some 11%N); (2, Some 22%N, Some 22%N)] /\
  q_live s = [] /\ q_writers s = [None; None; None].
Proof. vm_compute. repeat split. Qed.

(* the VARIANT in which putBufferWriter does not clear the captured reply: the next user of the
   pooled writer, whose handlers write nothing, is handed the previous query's reply.  The code
   (put_writer_msg) returns "no response" on the same schedule. *)
Definition query_leak_schedule : list qact :=
  [QBegin 1 0 0; QWrite 1 7; QRead 1; QPutChain 1; QPutWriter 1; QBegin 2 0 0; QRead 2]%N.
Lemma put_without_clear_leaks :
  q_res (qsteps_keep q_init query_leak_schedule) = [(2, Some 7%N, None); (1, Some 7%N, Some 7%N)] /\
  q_res (qsteps q_init query_leak_schedule) = [(2, None, None); (1, Some 7%N, Some 7%N)].
Proof. vm_compute. split; reflexivity. Qed.

(* what putBufferWriter assigns before the Put, and in which order Query registers its defers
   (source text, Gen/C10.v): `w.msg = nil`; putBufferWriter is deferred FIRST, so it runs LAST —
   after PutChain *)
Definition str_msg : list N := [109; 115; 103]%N.                                              (* "msg" *)
Definition str_putBufferWriter : list N := [112;117;116;66;117;102;102;101;114;87;114;105;116;101;114]%N.
Definition str_PutChain : list N := [113;46;115;117;98;46;80;117;116;67;104;97;105;110]%N.  (* "q.sub.PutChain" *)
Lemma query_source_ties :
  query_put_assigns = [str_msg] /\ query_defers = [str_putBufferWriter; str_PutChain] /\
  put_writer_msg (Some 5%N) = None.
Proof. repeat split. Qed.

(* BufferWriter.WriteMsg / Msg TRANSLATED from the source (Gen/C10.v): WriteMsg stores the message
   it is given, whatever the writer held before, and reports no error; Msg hands back what is
   stored — the model's `upd writers t (Some m)` and QRead's "the result is what the writer
   holds" *)
Lemma gen_BufferWriter_WriteMsg w m : go_BufferWriter_WriteMsg w m = (false, mk_T_BufferWriter m).
Proof. reflexivity. Qed.
Lemma gen_BufferWriter_Msg w m : go_BufferWriter_Msg (snd (go_BufferWriter_WriteMsg w m)) = m.
Proof. reflexivity. Qed.
