(* C10 — UDP engine proofs, part 2: the generic "one slab moves from one owner to another"
   step of the invariant, and how log extensions affect the other slabs. *)
From Sdns Require Import Common.Base Gen.C10 C10.Model C10.Proofs_UdpBase.
Open Scope nat_scope.

(* an event that does not disturb what is known about slab sid *)
Definition benign (e : event) (sid : nat) (p : place) (j : slab) : Prop :=
  ev_sid e = sid ->
  ev_lease e <= s_lease j /\
  match e with
  | ERelease _ l => l <> s_lease j
  | ERecv _ l _ _ => forall r, p = PHeld r -> l <> s_lease j
  | _ => True
  end.

Lemma local_ok_cons c log sid p j e :
  local_ok c log sid p j -> benign e sid p j -> local_ok c (e :: log) sid p j.
Proof.
  intros [Hb Hp] Hben. split.
  - intros e' [<-|Hin] Hs; [apply Hben; auto | apply Hb; auto].
  - assert (Hlive : live log sid j -> live (e :: log) sid j).
    { unfold live. intros Hl [E|Hin]; [|auto]. subst e. cbn in Hben. destruct (Hben eq_refl) as [_ H]. auto. }
    assert (Hfill : filled log sid j -> filled (e :: log) sid j).
    { unfold filled. intros [H1 H2]. split; [right|]; auto. }
    assert (Hwr : wrote log sid j -> wrote (e :: log) sid j).
    { unfold wrote. intros H Hn. right; auto. }
    destruct p as [|r| | |].
    + tauto.
    + destruct Hp as (H1 & H2 & H3 & H4). repeat split; auto.
      intros a rx [E|Hin]; [|eapply H4; eauto].
      subst e. cbn in Hben. destruct (Hben eq_refl) as [_ H]. eapply H; eauto.
    + tauto.
    + tauto.
    + tauto.
Qed.

Lemma local_ok_app c log sid p j evs :
  local_ok c log sid p j -> (forall e, In e evs -> benign e sid p j) -> local_ok c (evs ++ log) sid p j.
Proof.
  induction evs as [|e t IH]; cbn; auto. intros H Hb. apply local_ok_cons; auto.
Qed.

Lemma benign_other e sid p j : ev_sid e <> sid -> benign e sid p j.
Proof. intros H E. congruence. Qed.

(* ------------------------------------------------------------------ the move lemma *)
Section Move.
  Variables (c : cfg) (s s' : ust) (own own' : list place) (sid : nat) (pn : place) (j' : slab) (evs : list event).
  Hypothesis Hinv : inv c s own.
  Hypothesis Hlen : length own' = length (u_slabs s').
  Hypothesis Hown_sid : nth_error own' sid = Some pn.
  Hypothesis Hown_other : forall x, x <> sid -> nth_error own' x = nth_error own x.
  Hypothesis Hslab_sid : nth_error (u_slabs s') sid = Some j'.
  Hypothesis Hslab_other : forall x, x <> sid -> nth_error (u_slabs s') x = nth_error (u_slabs s) x.
  Hypothesis Hgrow : length (u_slabs s) <= length (u_slabs s').
  Hypothesis Hidle : forall x, In x (u_idle s') <-> (In x (u_idle s) /\ x <> sid) \/ (x = sid /\ pn = PIdle).
  Hypothesis Hidle_nd : NoDup (u_idle s').
  Hypothesis Hheld : forall r x, In (r, x) (u_held s') <-> (In (r, x) (u_held s) /\ x <> sid) \/ (x = sid /\ pn = PHeld r).
  Hypothesis Hheld_nd : NoDup (map snd (u_held s')).
  Hypothesis Hready : forall x, In x (u_ready s') <-> (In x (u_ready s) /\ x <> sid) \/ (x = sid /\ pn = PReady).
  Hypothesis Hready_nd : NoDup (u_ready s').
  Hypothesis Hserv : forall x who, In (x, who) (u_serv s') <-> (In (x, who) (u_serv s) /\ x <> sid) \/ (x = sid /\ pn = PServ who).
  Hypothesis Hserv_nd : NoDup (map fst (u_serv s')).
  Hypothesis Hburst : forall b x, In (b, x) (u_burst s') <-> (In (b, x) (u_burst s) /\ x <> sid) \/ (x = sid /\ pn = PBurst b).
  Hypothesis Hburst_nd : NoDup (map snd (u_burst s')).
  Hypothesis Hlog : u_log s' = evs ++ u_log s.
  Hypothesis Hevs_sid : forall e, In e evs -> ev_sid e = sid.
  Hypothesis Hlog_ok : log_ok (evs ++ u_log s).
  Hypothesis Hlocal : local_ok c (u_log s') sid pn j'.
  Hypothesis Hbsize : forall b, (N.of_nat (length (burst_of b (u_burst s'))) <= udp_tx_max)%N.
  Hypothesis Hwdef : forall w, In w (u_wdef s') -> w < c_workers c /\ burst_of w (u_burst s') = [].

  Lemma inv_move : inv c s' own'.
  Proof.
    destruct Hinv. constructor; auto.
    - intros x. rewrite Hidle. destruct (Nat.eq_dec x sid) as [->|Hne].
      + rewrite Hown_sid. split; [intros [[_ H]|[_ ->]]; congruence | intros [= ->]; auto].
      + rewrite Hown_other, <- i_idle by auto. tauto.
    - intros r x. rewrite Hheld. destruct (Nat.eq_dec x sid) as [->|Hne].
      + rewrite Hown_sid. split; [intros [[_ H]|[_ ->]]; congruence | intros [= ->]; auto].
      + rewrite Hown_other, <- i_held by auto. tauto.
    - intros x. rewrite Hready. destruct (Nat.eq_dec x sid) as [->|Hne].
      + rewrite Hown_sid. split; [intros [[_ H]|[_ ->]]; congruence | intros [= ->]; auto].
      + rewrite Hown_other, <- i_ready by auto. tauto.
    - intros x who. rewrite Hserv. destruct (Nat.eq_dec x sid) as [->|Hne].
      + rewrite Hown_sid. split; [intros [[_ H]|[_ ->]]; congruence | intros [= ->]; auto].
      + rewrite Hown_other, <- i_serv by auto. tauto.
    - intros b x. rewrite Hburst. destruct (Nat.eq_dec x sid) as [->|Hne].
      + rewrite Hown_sid. split; [intros [[_ H]|[_ ->]]; congruence | intros [= ->]; auto].
      + rewrite Hown_other, <- i_burst by auto. tauto.
    - intros x p j Hp Hj. destruct (Nat.eq_dec x sid) as [->|Hne].
      + rewrite Hown_sid in Hp. rewrite Hslab_sid in Hj. inversion Hp; inversion Hj; subst. auto.
      + rewrite Hown_other in Hp by auto. rewrite Hslab_other in Hj by auto.
        rewrite Hlog. apply local_ok_app; eauto.
        intros e He. apply benign_other. rewrite (Hevs_sid e He). auto.
    - rewrite Hlog. auto.
    - intros e. rewrite Hlog. intros He. apply in_app_iff in He as [He|He].
      + rewrite (Hevs_sid e He). eapply nth_error_lt; eauto.
      + specialize (i_logsid e He). lia.
  Qed.
End Move.

(* ------------------------------------------------------------------ only the log grows *)
Lemma inv_log c s own evs :
  inv c s own ->
  log_ok (evs ++ u_log s) ->
  (forall e, In e evs -> ev_sid e < length (u_slabs s)) ->
  (forall e sid p j, In e evs -> nth_error own sid = Some p -> nth_error (u_slabs s) sid = Some j -> benign e sid p j) ->
  inv c (set_log s (evs ++ u_log s)) own.
Proof.
  intros [] Hok Hsid Hben. constructor; cbn; auto.
  - intros sid p j Hp Hj. apply local_ok_app; eauto.
  - intros e He. apply in_app_iff in He as [He|He]; auto.
Qed.

(* ------------------------------------------------------------------ facts read off the invariant *)
Lemma inv_slab c s own sid p : inv c s own -> nth_error own sid = Some p -> exists j, get_slab s sid = Some j.
Proof.
  intros [] Hp. unfold get_slab. destruct (nth_error (u_slabs s) sid) eqn:E; eauto.
  apply nth_error_None in E. apply nth_error_lt in Hp. lia.
Qed.

Lemma inv_own c s own sid j : inv c s own -> get_slab s sid = Some j -> exists p, nth_error own sid = Some p.
Proof.
  intros [] Hj. destruct (nth_error own sid) eqn:E; eauto.
  apply nth_error_None in E. apply nth_error_lt in Hj. lia.
Qed.
