(* C10 — replies reach only their own client and carry only their own bytes.

   Model of the owned UDP engine (server/udp_engine.go, udp_tx.go, udp_batch_linux.go,
   slab_cache.go) as an interleaving transition system.  Executable definitions only.

   What is modelled, line by line:
     udpJob.transition / release / Write / LeaseWire / rejectInPlace / sendDirect,
     udpEngine.take / enqueueCounted / serve / serveInline / flushTX / sendGroup,
     udpTXBurst.add / full / release, the worker loop body, the two readers' per-packet
     field assignments (reader: raddr + rawSALen=0; finishRecv: raddr + rawSA).
   What is abstracted:
     * a client address (netip.AddrPort and the verbatim kernel sockaddr) is a number;
     * the TX buffer is the list of bytes ever written to it (positions beyond are the
       initial zeroes), every byte paired with a GHOST tag = the lease in which it was written;
     * the slab cache's sixteen LIFO shards are a set: [ATake] names the slab the cache
       handed out (any idle slab; a fresh one only when none is idle, as slabCache.get sweeps
       every shard before giving up);
     * goroutines are actors that own lists of slab indices; one atomic action = a stretch of
       code of ONE goroutine that touches only slabs that goroutine holds;
     * pktinfo (wildcard binds), metrics, the inFlight/quiescence counter, time.

   Constants (state names, buffer sizes, what release() assigns) come from Gen/C10.v. *)
From Sdns Require Export Common.Base Gen.C10.
Open Scope N_scope.

Definition byte := N.
(* a TX byte with the ghost tag of the lease that wrote it; lease 0 = never written *)
Definition tbyte := (byte * nat)%type.

(* ------------------------------------------------------------------ helpers *)
Fixpoint upd {A} (l : list A) (i : nat) (x : A) : list A :=
  match l, i with
  | [], _ => []
  | _ :: t, O => x :: t
  | h :: t, S k => h :: upd t k x
  end.
Definition mem_nat (x : nat) (l : list nat) : bool := existsb (Nat.eqb x) l.
Definition rem_nat (x : nat) (l : list nat) : list nat := filter (fun y => negb (Nat.eqb y x)) l.
Definition tag (l : nat) (bs : list byte) : list tbyte := map (fun b => (b, l)) bs.
Definition untag (bs : list tbyte) : list byte := map fst bs.
(* copy(dst, src) for len src <= cap dst, on the "bytes ever written" representation *)
Definition copy_into (tx b : list tbyte) : list tbyte := b ++ skipn (length b) tx.
(* tx[:n] *)
Definition tx_get (tx : list tbyte) (n : nat) : list tbyte :=
  firstn n tx ++ repeat (0, O) (n - length tx).
(* append(lease[:o], bs...) written through into tx at offset o *)
Definition write_at (tx : list tbyte) (o : nat) (b : list tbyte) : list tbyte :=
  tx_get tx o ++ b ++ skipn (o + length b) tx.

(* ------------------------------------------------------------------ the slab *)
(* what the stub/real handler will do with a request: the ENVIRONMENT of the engine *)
Inductive hop :=
| HWrite (bs : list byte)        (* Transport.Write of a caller-owned buffer *)
| HLease                         (* LeaseWire: returns tx[:udp_lease_start] *)
| HAppend (bs : list byte)       (* append(lease, bs...) — lands in tx *)
| HWriteLease                    (* Transport.Write(lease) — the in-place path *)
| HWriteMsg (ulen : nat) (bs : list byte)
                                 (* Transport.WriteMsg(m): m packs to bs; ulen = m's UNCOMPRESSED length *)
| HFlushStaged                   (* StagedFlusher.FlushStaged *)
| HPanic.                        (* the handler panics past the chain's recovery *)

Record hscript := mkScript {
  h_inline : list hop;           (* ServeRawInline pass *)
  h_handoff : bool;              (* ... returned false: hand off to a worker *)
  h_main : list hop;             (* ServeRaw / ServeRawReplay pass *)
  h_ok : bool                    (* ... returned true; false = undecodable body -> FORMERR *)
}.
Definition no_script := mkScript [] false [] true.

Record slab := mkSlab {
  s_state : N;                   (* udpJobFree | Reading | Queued | Serving *)
  s_raddr : N;                   (* j.raddr (and j.remote) *)
  s_rawsa : option N;            (* j.rawSA[:rawSALen]; None = rawSALen 0 *)
  s_rx : list byte;              (* j.rx[:rxLen] *)
  s_tx : list tbyte;             (* j.tx *)
  s_txlen : nat;                 (* j.txLen *)
  s_written : bool;
  s_replay : bool;
  s_burst : option nat;          (* j.burst: the burst slot of the goroutine serving it *)
  s_lease : nat;                 (* GHOST: how many times this slab has been taken *)
  s_leaselen : nat;              (* GHOST: len of the handler's LeaseWire slice *)
  s_script : hscript             (* ENV: what the handler does with the request in rx *)
}.
Definition fresh_slab : slab := mkSlab st_free 0 None [] [] 0 false false None 0 0 no_script.

Definition set_state j v := mkSlab v (s_raddr j) (s_rawsa j) (s_rx j) (s_tx j) (s_txlen j) (s_written j) (s_replay j) (s_burst j) (s_lease j) (s_leaselen j) (s_script j).
Definition set_recv j a sa rx sc := mkSlab (s_state j) a sa rx (s_tx j) (s_txlen j) (s_written j) (s_replay j) (s_burst j) (s_lease j) (s_leaselen j) sc.
Definition set_rx j v := mkSlab (s_state j) (s_raddr j) (s_rawsa j) v (s_tx j) (s_txlen j) (s_written j) (s_replay j) (s_burst j) (s_lease j) (s_leaselen j) (s_script j).
Definition set_tx j v := mkSlab (s_state j) (s_raddr j) (s_rawsa j) (s_rx j) v (s_txlen j) (s_written j) (s_replay j) (s_burst j) (s_lease j) (s_leaselen j) (s_script j).
Definition set_txlen j v := mkSlab (s_state j) (s_raddr j) (s_rawsa j) (s_rx j) (s_tx j) v (s_written j) (s_replay j) (s_burst j) (s_lease j) (s_leaselen j) (s_script j).
Definition set_written j v := mkSlab (s_state j) (s_raddr j) (s_rawsa j) (s_rx j) (s_tx j) (s_txlen j) v (s_replay j) (s_burst j) (s_lease j) (s_leaselen j) (s_script j).
Definition set_replay j v := mkSlab (s_state j) (s_raddr j) (s_rawsa j) (s_rx j) (s_tx j) (s_txlen j) (s_written j) v (s_burst j) (s_lease j) (s_leaselen j) (s_script j).
Definition set_burst j v := mkSlab (s_state j) (s_raddr j) (s_rawsa j) (s_rx j) (s_tx j) (s_txlen j) (s_written j) (s_replay j) v (s_lease j) (s_leaselen j) (s_script j).
Definition set_lease j v := mkSlab (s_state j) (s_raddr j) (s_rawsa j) (s_rx j) (s_tx j) (s_txlen j) (s_written j) (s_replay j) (s_burst j) v (s_leaselen j) (s_script j).
Definition set_leaselen j v := mkSlab (s_state j) (s_raddr j) (s_rawsa j) (s_rx j) (s_tx j) (s_txlen j) (s_written j) (s_replay j) (s_burst j) (s_lease j) v (s_script j).

(* func (j *udpJob) transition(from, to uint8): None = panic("udp job ownership violated") *)
Definition transition (j : slab) (from to : N) : option slab :=
  if s_state j =? from then Some (set_state j to) else None.

(* func (j *udpJob) release(from uint8), the slab's own fields (cache.put / leased are in [ust]) *)
Definition scrub (j : slab) : slab :=
  set_replay
    (set_txlen
       (set_rx (set_written j release_written) (firstn (N.to_nat release_rxlen) (s_rx j)))
       (N.to_nat release_txlen))
    release_replay.
Definition job_release (j : slab) (from : N) : option slab :=
  match transition j from st_free with
  | Some j1 => Some (scrub j1)
  | None => None
  end.

(* func (j *udpJob) Write(b []byte) — the copying path (b is not the TX buffer itself) *)
Inductive wres :=
| WStaged
| WSent (addr : N) (bs : list tbyte)     (* burst == nil: WriteMsgUDPAddrPort(b, j.raddr) *)
| WTooLarge.
Definition job_write (j : slab) (bs : list byte) : slab * wres :=
  let j1 := set_written j true in
  if udp_buf_size <? N.of_nat (length bs) then (j1, WTooLarge)
  else match s_burst j with
       | Some _ => (set_txlen (set_tx j1 (copy_into (s_tx j1) (tag (s_lease j) bs))) (length bs), WStaged)
       | None => (j1, WSent (s_raddr j) (tag (s_lease j) bs))
       end.
(* ... and the in-place path: b = tx[:leaselen] (&b[0] == &j.tx[0], or len 0) *)
Definition job_write_lease (j : slab) : slab * wres :=
  let j1 := set_written j true in
  match s_burst j with
  | Some _ => (set_txlen j1 (s_leaselen j), WStaged)
  | None => (j1, WSent (s_raddr j) (tx_get (s_tx j) (s_leaselen j)))
  end.
(* func (j *udpJob) WriteMsg(m): out, err := m.PackBuffer(j.tx[:]); _, err = j.Write(out).
   The library's PackBuffer (miekg/dns msg.go, packBufferWithCompressionMap) sizes by the
   UNCOMPRESSED length of m: `if packLen := uncompressedLen + 1; len(msg) < packLen { msg =
   make([]byte, packLen) }` — it packs where the caller said only when ulen + 1 <= len(j.tx), and
   into an array of its own otherwise, from which it returns the (possibly much shorter)
   compressed message [bs].  So:
     in place — the packed bytes land in tx FIRST (whatever Write does next, burst or not), then
                Write sees &out[0] == &j.tx[0] and stages by length alone;
     grown    — Write(out) is the copying path of a foreign buffer (or refuses it by size).
   That a reply which FITS the slab was therefore packed IN the slab is false: fitting is about
   [length bs], the choice of array about [ulen]. *)
Definition pack_in_place (ulen : nat) : bool := N.of_nat ulen <? udp_buf_size.
Definition job_write_msg (j : slab) (ulen : nat) (bs : list byte) : slab * wres :=
  if pack_in_place ulen
  then let j1 := set_written (set_tx j (copy_into (s_tx j) (tag (s_lease j) bs))) true in
       if udp_buf_size <? N.of_nat (length bs) then (j1, WTooLarge)   (* length bs <= ulen: does not arise *)
       else match s_burst j with
            | Some _ => (set_txlen j1 (length bs), WStaged)
            | None => (j1, WSent (s_raddr j) (tag (s_lease j) bs))
            end
  else job_write j bs.
(* LeaseWire + append.  udpJob.LeaseWire is TRANSLATED (Gen.C10.go_udpJob_LeaseWire): it returns
   j.tx[:0] (or nil for a capacity beyond the buffer) — Proofs_Edns.gen_udpJob_LeaseWire *)
Definition udp_lease_start : N := 0.
Definition job_lease (j : slab) : slab := set_leaselen j (N.to_nat udp_lease_start).
Definition job_append (j : slab) (bs : list byte) : option slab :=
  if udp_buf_size <? N.of_nat (s_leaselen j + length bs) then None   (* append would reallocate: not this path *)
  else Some (set_leaselen (set_tx j (write_at (s_tx j) (s_leaselen j) (tag (s_lease j) bs))) (s_leaselen j + length bs)).

(* wire.ParseHeader + server.acceptHeader: the TRANSLATED source functions (Gen/C10.v:
   go_ParseHeader, go_acceptHeader with wire.Header.QR / Opcode), not a hand model *)
Definition nthb (l : list byte) (i : nat) : byte := nth i l 0.
Definition be16 (l : list byte) (i : nat) : N := nthb l i * 256 + nthb l (S i).
Definition accept_verdict (rx : list byte) : option N :=
  let '(h, ok) := go_ParseHeader rx in
  if ok then Some (go_acceptHeader h) else None.
(* func (j *udpJob) rejectInPlace(verdict): dns.RcodeFormatError = 1, dns.RcodeNotImplemented = 4 *)
Definition reject_bytes (rx : list byte) (notimp : bool) : list byte :=
  let b2 := nthb rx 2 in
  let opcode := N.land (N.shiftr b2 3) 15 in
  [nthb rx 0; nthb rx 1; N.lor (N.lor 128 (N.shiftl opcode 3)) (N.land b2 1);
   (if notimp then 4 else 1); 0; 0; 0; 0; 0; 0; 0; 0].

(* ------------------------------------------------------------------ the engine *)
Inductive actor := Worker (w : nat) | Overflow | Inline (r : nat).
Definition actor_eqb (a b : actor) : bool :=
  match a, b with
  | Worker x, Worker y => Nat.eqb x y
  | Overflow, Overflow => true
  | Inline x, Inline y => Nat.eqb x y
  | _, _ => false
  end.

Record cfg := mkCfg {
  c_cap : N;             (* slabCap *)
  c_qcap : nat;          (* cap(e.ready) *)
  c_workers : nat;       (* burst slots: worker w -> w, reader r -> workers + r *)
  c_batchtx : bool       (* txConns armed and not retired: sendmmsg path *)
}.

Inductive event :=
| ERecv (sid lease : nat) (addr : N) (rx : list byte)
| EWrite (sid lease : nat)                       (* the handler/engine wrote bytes for this lease *)
| ESend (sid lease : nat) (addr : N) (bs : list tbyte)
| ERelease (sid lease : nat).

Record ust := mkUst {
  u_slabs : list slab;             (* every slab ever allocated; index = identity *)
  u_idle : list nat;               (* e.cache *)
  u_held : list (nat * nat);       (* (reader, slab): armed, waiting for a datagram *)
  u_ready : list nat;              (* e.ready, FIFO *)
  u_serv : list (nat * actor);     (* (slab, goroutine running serve/serveInline on it) *)
  u_burst : list (nat * nat);      (* (burst slot, slab) in add order *)
  u_wdef : list nat;               (* workers that took the select's default branch (flushed, now blocked in <-e.ready) *)
  u_leased : N;                    (* e.leased *)
  u_log : list event               (* GHOST, newest first *)
}.
Definition u_init : ust := mkUst [] [] [] [] [] [] [] 0 [].

Definition set_slabs s v := mkUst v (u_idle s) (u_held s) (u_ready s) (u_serv s) (u_burst s) (u_wdef s) (u_leased s) (u_log s).
Definition set_idle s v := mkUst (u_slabs s) v (u_held s) (u_ready s) (u_serv s) (u_burst s) (u_wdef s) (u_leased s) (u_log s).
Definition set_held s v := mkUst (u_slabs s) (u_idle s) v (u_ready s) (u_serv s) (u_burst s) (u_wdef s) (u_leased s) (u_log s).
Definition set_ready s v := mkUst (u_slabs s) (u_idle s) (u_held s) v (u_serv s) (u_burst s) (u_wdef s) (u_leased s) (u_log s).
Definition set_serv s v := mkUst (u_slabs s) (u_idle s) (u_held s) (u_ready s) v (u_burst s) (u_wdef s) (u_leased s) (u_log s).
Definition set_bursts s v := mkUst (u_slabs s) (u_idle s) (u_held s) (u_ready s) (u_serv s) v (u_wdef s) (u_leased s) (u_log s).
Definition set_wdef s v := mkUst (u_slabs s) (u_idle s) (u_held s) (u_ready s) (u_serv s) (u_burst s) v (u_leased s) (u_log s).
Definition set_leased s v := mkUst (u_slabs s) (u_idle s) (u_held s) (u_ready s) (u_serv s) (u_burst s) (u_wdef s) v (u_log s).
Definition set_log s v := mkUst (u_slabs s) (u_idle s) (u_held s) (u_ready s) (u_serv s) (u_burst s) (u_wdef s) (u_leased s) v.
Definition get_slab (s : ust) (sid : nat) : option slab := nth_error (u_slabs s) sid.
Definition put_slab (s : ust) (sid : nat) (j : slab) : ust := set_slabs s (upd (u_slabs s) sid j).
Definition add_log (s : ust) (e : event) : ust := set_log s (e :: u_log s).

Inductive res := Ok (s : ust) | Disabled | Panic.

Definition pair_eqb (a b : nat * nat) : bool := Nat.eqb (fst a) (fst b) && Nat.eqb (snd a) (snd b).
Definition held_mem (r sid : nat) (l : list (nat * nat)) : bool := existsb (pair_eqb (r, sid)) l.
Definition held_rem (sid : nat) (l : list (nat * nat)) : list (nat * nat) := filter (fun p => negb (Nat.eqb (snd p) sid)) l.
Definition serv_find (sid : nat) (l : list (nat * actor)) : option actor :=
  match find (fun p => Nat.eqb (fst p) sid) l with Some p => Some (snd p) | None => None end.
Definition serv_of (a : actor) (l : list (nat * actor)) : option nat :=
  match find (fun p => actor_eqb (snd p) a) l with Some p => Some (fst p) | None => None end.
Definition serv_rem (sid : nat) (l : list (nat * actor)) := filter (fun p => negb (Nat.eqb (fst p) sid)) l.
Definition burst_of (b : nat) (l : list (nat * nat)) : list nat := map snd (filter (fun p => Nat.eqb (fst p) b) l).
Definition burst_rem (b : nat) (l : list (nat * nat)) := filter (fun p => negb (Nat.eqb (fst p) b)) l.

(* release of slab sid from state [from], engine side: cache.put, leased-- *)
Definition u_release (s : ust) (sid : nat) (from : N) : res :=
  match get_slab s sid with
  | None => Disabled
  | Some j =>
      match job_release j from with
      | None => Panic
      | Some j1 =>
          let s1 := put_slab s sid j1 in
          Ok (add_log (set_leased (set_idle s1 (sid :: u_idle s1)) (u_leased s1 - 1)) (ERelease sid (s_lease j)))
      end
  end.

(* sendGroup / sendDirect for one job of a burst.  With the batch path armed a job without a raw
   sockaddr is sent directly WHILE the batch is being armed, i.e. ahead of the sendmmsg of the
   others (one socket modelled: one group). *)
Definition is_direct (c : cfg) (j : slab) : bool :=
  negb (c_batchtx c) || match s_rawsa j with None => true | Some _ => false end.
Definition send_dest (c : cfg) (j : slab) : N :=
  if c_batchtx c then match s_rawsa j with Some a => a | None => s_raddr j end else s_raddr j.
Definition send_event (c : cfg) (sid : nat) (j : slab) : list event :=
  match s_txlen j with
  | O => []
  | n => [ESend sid (s_lease j) (send_dest c j) (tx_get (s_tx j) n)]
  end.
(* one sendGroup: the events of one socket's run of a burst, oldest first *)
Definition group_events (c : cfg) (s : ust) (sids : list nat) : list event :=
  let ev (want_direct : bool) :=
    flat_map (fun sid => match get_slab s sid with
                         | Some j => if Bool.eqb (is_direct c j) want_direct then send_event c sid j else []
                         | None => []
                         end) sids in
  if c_batchtx c then ev true ++ ev false else ev true.

(* SEVERAL SOCKETS (wave 5).  An engine serves a list of sockets (an SO_REUSEPORT group, or one
   socket per bound address) that share the slab cache, the lease counter, the ready queue and
   the workers; reader r reads socket r.  A client "address" of this model is a FLOW: the client's
   address/port AND the server socket its datagrams arrive on — the kernel's reuseport hash or
   the destination address fixes that socket per flow.  Flows are numbered socket * 1024 +
   client, so [sock_of] is the socket (j.pc, assigned next to j.raddr by both readers) a reply
   must leave from.  flushTX cuts a burst into maximal runs of consecutive jobs of one socket
   and calls sendGroup once per run (one sendmmsg carries one socket's datagrams). *)
Definition sock_of (a : N) : N := a / 1024.
Definition job_sock (s : ust) (sid : nat) : N :=
  match get_slab s sid with Some j => sock_of (s_raddr j) | None => 0 end.
Fixpoint runs_by_sock (s : ust) (sids : list nat) : list (list nat) :=
  match sids with
  | [] => []
  | sid :: r =>
      match runs_by_sock s r with
      | (sid2 :: g) :: gs => if job_sock s sid =? job_sock s sid2 then (sid :: sid2 :: g) :: gs
                             else [sid] :: (sid2 :: g) :: gs
      | [] :: gs => [sid] :: gs        (* never arises: a run is not empty *)
      | [] => [[sid]]
      end
  end.
(* oldest first *)
Definition flush_events (c : cfg) (s : ust) (sids : list nat) : list event :=
  flat_map (group_events c s) (runs_by_sock s sids).

(* flushTX(b): send every staged job of burst slot b (sendGroup), then burst.release():
   for each slot in order: jobs[i] = nil; j.release(udpJobServing) *)
Definition burst_del (sid : nat) (l : list (nat * nat)) := filter (fun p => negb (Nat.eqb (snd p) sid)) l.
Fixpoint flush_release (s : ust) (sids : list nat) : res :=
  match sids with
  | [] => Ok s
  | sid :: r => match u_release (set_bursts s (burst_del sid (u_burst s))) sid st_serving with
                | Ok s1 => flush_release s1 r
                | x => x
                end
  end.
Definition u_flush (c : cfg) (s : ust) (b : nat) : res :=
  let sids := burst_of b (u_burst s) in
  flush_release (set_log s (rev (flush_events c s sids) ++ u_log s)) sids.

(* burst.add(j): index out of range (a panic) when the array is full *)
Definition burst_add (s : ust) (b sid : nat) : res :=
  if N.of_nat (length (burst_of b (u_burst s))) <? udp_tx_max
  then Ok (set_bursts s (u_burst s ++ [(b, sid)]))
  else Panic.
Definition burst_full (s : ust) (b : nat) : bool := N.of_nat (length (burst_of b (u_burst s))) =? udp_tx_max.

(* enqueueCounted: state = Queued (a plain store, no check); ready queue or overflow goroutine.
   The overflow goroutine's first step (serve: transition Queued->Serving, j.burst = nil) touches
   only this slab, which nobody else can reach, so it is folded into the same atomic action. *)
Definition u_enqueue (c : cfg) (s : ust) (sid : nat) (j : slab) : res :=
  let jq := set_state j st_queued in
  if (length (u_ready s) <? c_qcap c)%nat
  then let s1 := put_slab s sid jq in Ok (set_ready s1 (u_ready s1 ++ [sid]))
  else match transition jq st_queued st_serving with
       | None => Panic
       | Some js =>
           let s1 := put_slab s sid (set_leaselen (set_burst js None) 0) in
           Ok (set_serv s1 ((sid, Overflow) :: u_serv s1))
       end.

Inductive rkind := RBatch | RPortable.

Inductive act :=
| ATake (r sid : nat)                                  (* e.take + transition(Free, Reading) [+ arm] *)
| ARecvFail (r sid : nat)                              (* read error / MSG_TRUNC / bad sockaddr: release(Reading) *)
| ARecvEnq (r sid : nat) (k : rkind) (addr : N) (rx : list byte) (sc : hscript)   (* fill the slab, enqueue *)
| ARecvInline (r sid : nat) (addr : N) (rx : list byte) (sc : hscript)             (* fill (batch), serveInline entry *)
| ABeginServe (w : nat)                                (* worker w: <-e.ready; serve entry *)
| AIdleFlush (w : nat)                                 (* worker w: select's default branch: flushTX, then block in <-e.ready *)
| AHWrite (sid : nat) (bs : list byte)                 (* during a serve of sid ... *)
| AHLease (sid : nat)
| AHAppend (sid : nat) (bs : list byte)
| AHWriteLease (sid : nat)
| AHWriteMsg (sid : nat) (ulen : nat) (bs : list byte)   (* Transport.WriteMsg: PackBuffer(j.tx[:]) + Write(out) *)
| AHFlushStaged (sid : nat)
| AHReject (sid : nat) (notimp : bool)                 (* rejectInPlace *)
| AEndServe (sid : nat)                                (* serve's deferred terminal (+ worker's `if burst.full()` flush) *)
| AEndInline (sid : nat) (done : bool)                 (* serveInline's deferred terminal (+ enqueueCounted on handoff) *)
| AFlush (b : nat).                                    (* flushTX of burst slot b (reader's end of cycle, shutdown) *)

Definition handler_write (c : cfg) (s : ust) (sid : nat) (f : slab -> slab * wres) : res :=
  match get_slab s sid, serv_find sid (u_serv s) with
  | Some j, Some _ =>
      let '(j1, r) := f j in
      let s1 := add_log (put_slab s sid j1) (EWrite sid (s_lease j)) in
      match r with
      | WSent a bs => Ok (add_log s1 (ESend sid (s_lease j) a bs))
      | _ => Ok s1
      end
  | _, _ => Disabled
  end.

Definition is_none {A} (o : option A) : bool := match o with None => true | Some _ => false end.

Definition ustep (c : cfg) (s : ust) (a : act) : res :=
  match a with
  | ATake r sid =>
      (* if e.leased.Add(1) > e.slabCap { rollback; return nil } *)
      if c_cap c <=? u_leased s then Disabled
      else
        let fresh := Nat.eqb sid (length (u_slabs s)) && match u_idle s with [] => true | _ => false end in
        if negb (mem_nat sid (u_idle s) || fresh) then Disabled
        else
          let slabs := if fresh then u_slabs s ++ [fresh_slab] else u_slabs s in
          match nth_error slabs sid with
          | None => Disabled
          | Some j =>
              match transition j st_free st_reading with
              | None => Panic
              | Some j1 =>
                  Ok (set_leased (set_held (set_idle (set_slabs s (upd slabs sid (set_lease j1 (S (s_lease j1)))))
                                                     (rem_nat sid (u_idle s)))
                                           ((r, sid) :: u_held s))
                                 (u_leased s + 1))
              end
          end
  | ARecvFail r sid =>
      if held_mem r sid (u_held s)
      then u_release (set_held s (held_rem sid (u_held s))) sid st_reading
      else Disabled
  | ARecvEnq r sid k addr rx sc =>
      if held_mem r sid (u_held s)
      then match get_slab s sid with
           | None => Disabled
           | Some j =>
               (* reader(): j.rawSALen = 0;  finishRecv: copy(j.rawSA, names[i]); j.rawSALen = saLen *)
               let sa := match k with RBatch => Some addr | RPortable => (if reader_rawsalen =? 0 then None else s_rawsa j) end in
               let j1 := set_recv j addr sa rx sc in
               u_enqueue c (add_log (set_held s (held_rem sid (u_held s))) (ERecv sid (s_lease j) addr rx)) sid j1
           end
      else Disabled
  | ARecvInline r sid addr rx sc =>
      if held_mem r sid (u_held s) && is_none (serv_of (Inline r) (u_serv s))
      then match get_slab s sid with
           | None => Disabled
           | Some j =>
               let j1 := set_recv j addr (Some addr) rx sc in
               match transition j1 st_reading st_serving with
               | None => Panic
               | Some j2 =>
                   let j3 := set_leaselen (set_burst j2 (Some (c_workers c + r)%nat)) 0 in
                   let s1 := put_slab (set_held s (held_rem sid (u_held s))) sid j3 in
                   Ok (add_log (set_serv s1 ((sid, Inline r) :: u_serv s1)) (ERecv sid (s_lease j) addr rx))
               end
           end
      else Disabled
  | ABeginServe w =>
      if (w <? c_workers c)%nat && is_none (serv_of (Worker w) (u_serv s))
      then match u_ready s with
           | [] => Disabled
           | sid :: rest =>
               match get_slab s sid with
               | None => Disabled
               | Some j =>
                   match transition j st_queued st_serving with
                   | None => Panic
                   | Some j1 =>
                       let s1 := put_slab (set_ready s rest) sid (set_leaselen (set_burst j1 (Some w)) 0) in
                       Ok (set_serv s1 ((sid, Worker w) :: u_serv s1))
                   end
               end
           end
      else Disabled
  | AIdleFlush w =>
      if (w <? c_workers c)%nat && is_none (serv_of (Worker w) (u_serv s)) && negb (mem_nat w (u_wdef s))
         && match u_ready s with [] => true | _ => false end
      then match u_flush c s w with
           | Ok s1 => Ok (set_wdef s1 (w :: u_wdef s1))
           | x => x
           end
      else Disabled
  | AHWrite sid bs => handler_write c s sid (fun j => job_write j bs)
  | AHWriteLease sid => handler_write c s sid job_write_lease
  | AHWriteMsg sid ulen bs => handler_write c s sid (fun j => job_write_msg j ulen bs)
  | AHReject sid notimp => handler_write c s sid (fun j => job_write j (reject_bytes (s_rx j) notimp))
  | AHLease sid =>
      match get_slab s sid, serv_find sid (u_serv s) with
      | Some j, Some _ => Ok (put_slab s sid (job_lease j))
      | _, _ => Disabled
      end
  | AHAppend sid bs =>
      match get_slab s sid, serv_find sid (u_serv s) with
      | Some j, Some _ => match job_append j bs with
                          | Some j1 => Ok (add_log (put_slab s sid j1) (EWrite sid (s_lease j)))
                          | None => Disabled
                          end
      | _, _ => Disabled
      end
  | AHFlushStaged sid =>
      match get_slab s sid, serv_find sid (u_serv s) with
      | Some j, Some _ => match s_burst j with Some b => u_flush c s b | None => Ok s end
      | _, _ => Disabled
      end
  | AEndServe sid =>
      match get_slab s sid, serv_find sid (u_serv s) with
      | Some j, Some who =>
          match who with
          | Inline _ => Disabled
          | _ =>
              let s1 := put_slab (set_serv s (serv_rem sid (u_serv s))) sid (set_burst j None) in
              (* the worker loop's `if burst.full() { flushTX }` runs only in the select's first
                 branch; after the default branch's blocking receive there is no such check *)
              let after_default := match who with Worker w => mem_nat w (u_wdef s) | _ => false end in
              let s2 := match who with Worker w => set_wdef s1 (rem_nat w (u_wdef s1)) | _ => s1 end in
              match s_txlen j with
              | O => u_release s2 sid st_serving
              | _ => match s_burst j with
                     | None => Panic                     (* burst.add on a nil burst *)
                     | Some b => match burst_add s2 b sid with
                                 | Ok s3 => if negb after_default && burst_full s3 b then u_flush c s3 b else Ok s3
                                 | x => x
                                 end
                     end
              end
          end
      | _, _ => Disabled
      end
  | AEndInline sid done =>
      match get_slab s sid, serv_find sid (u_serv s) with
      | Some j, Some (Inline r) =>
          let jn := set_burst j None in
          match s_txlen j with
          | O => let s1 := put_slab (set_serv s (serv_rem sid (u_serv s))) sid jn in
                 if done then u_release s1 sid st_serving
                 else match transition (set_replay jn true) st_serving st_reading with
                      | None => Panic
                      | Some jr => u_enqueue c s1 sid jr
                      end
          | _ => match s_burst j with
                 | None => Panic
                 | Some b =>
                     (* `j.burst = nil` precedes the flush in the source; the flush never looks at
                        this job (it is not in the burst yet), so the store is modelled after it *)
                     match (if burst_full s b then u_flush c s b else Ok s) with
                     | Ok s2 => burst_add (put_slab (set_serv s2 (serv_rem sid (u_serv s2))) sid jn) b sid
                     | x => x
                     end
                 end
          end
      | _, _ => Disabled
      end
  | AFlush b => u_flush c s b
  end.

(* a Disabled action is one the code cannot perform in this state: it is skipped *)
Fixpoint usteps (c : cfg) (s : ust) (l : list act) : res :=
  match l with
  | [] => Ok s
  | a :: r => match ustep c s a with
              | Ok s1 => usteps c s1 r
              | Disabled => usteps c s r
              | Panic => Panic
              end
  end.

(* ------------------------------------------------------------------ coarse operations
   What the sequential driver performs on the real engine; each is DEFINED as a sequence of the
   atomic actions above, so everything proved for all action sequences covers them. *)
Fixpoint hop_acts (sid : nat) (l : list hop) : list act * bool (* panicked *) :=
  match l with
  | [] => ([], false)
  | HPanic :: _ => ([], true)
  | h :: r =>
      let '(acts, p) := hop_acts sid r in
      ((match h with
        | HWrite bs => AHWrite sid bs
        | HLease => AHLease sid
        | HAppend bs => AHAppend sid bs
        | HWriteLease => AHWriteLease sid
        | HWriteMsg ulen bs => AHWriteMsg sid ulen bs
        | HFlushStaged => AHFlushStaged sid
        | HPanic => AHLease sid
        end) :: acts, p)
  end.

(* the body of serve() between the entry transition and the deferred terminal *)
Definition serve_acts (sid : nat) (rx : list byte) (sc : hscript) : list act :=
  match accept_verdict rx with
  | None => []
  | Some v =>
      if v =? accept_ignore then []
      else if v =? accept_notimp then [AHReject sid true]
      else if v =? accept_formerr then [AHReject sid false]
      else let '(acts, p) := hop_acts sid (h_main sc) in
           if p || h_ok sc then acts else acts ++ [AHReject sid false]
  end.
Definition inline_acts (sid : nat) (rx : list byte) (sc : hscript) : list act * bool (* done *) :=
  match accept_verdict rx with
  | None => ([], true)
  | Some v =>
      if v =? accept_ignore then ([], true)
      else if v =? accept_notimp then ([AHReject sid true], true)
      else if v =? accept_formerr then ([AHReject sid false], true)
      else let '(acts, p) := hop_acts sid (h_inline sc) in
           (acts, p || negb (h_handoff sc))
  end.

Inductive uop :=
| OTake (r sid : nat)
| ORecvFail (r sid : nat)
| ORecv (r sid : nat) (k : rkind) (inline : bool) (addr : N) (rx : list byte) (sc : hscript)
| OWork (w : nat)
| OFlush (b : nat).

Definition plan (c : cfg) (s : ust) (o : uop) : list act :=
  match o with
  | OTake r sid => [ATake r sid]
  | ORecvFail r sid => [ARecvFail r sid]
  | ORecv r sid k inline addr rx sc =>
      let qfull := negb (length (u_ready s) <? c_qcap c)%nat in
      let ov := if qfull then serve_acts sid rx sc ++ [AEndServe sid] else [] in
      if inline
      then let '(acts, done) := inline_acts sid rx sc in
           (* a staged reply is terminal; otherwise a handoff re-enqueues, possibly onto an overflow goroutine *)
           ARecvInline r sid addr rx sc :: acts ++ [AEndInline sid done] ++ (if done then [] else ov)
      else ARecvEnq r sid k addr rx sc :: ov
  | OWork w =>
      match u_ready s with
      | [] => [AIdleFlush w]
      | sid :: _ =>
          match get_slab s sid with
          | None => []
          | Some j => ABeginServe w :: serve_acts sid (s_rx j) (s_script j) ++ [AEndServe sid]
          end
      end
  | OFlush b => [AFlush b]
  end.

Fixpoint run_ops (c : cfg) (s : ust) (l : list uop) : res :=
  match l with
  | [] => Ok s
  | o :: r => match usteps c s (plan c s o) with
              | Ok s1 => run_ops c s1 r
              | x => x
              end
  end.

(* datagrams a client address received, oldest first *)
Definition sent_to (addr : N) (log : list event) : list (list byte) :=
  rev (flat_map (fun e => match e with
                          | ESend _ _ a bs => if a =? addr then [untag bs] else []
                          | _ => []
                          end) log).
