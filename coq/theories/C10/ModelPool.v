(* C10 — pooled objects across their users (phase 3).  Executable definitions only.

   1. The per-connection framing stream is POOLED (tcpEngine.streams, a sync.Pool): serveConn
      takes one, `reset(conn)`s it, serves the connection, flushes what is still staged,
      `reset(nil)`s it and puts it back; the next connection may get the very same object.
      [s_reset] is tcpStream.reset on the modelled fields (what it assigns to `held` comes from
      Gen/C10.v), [conn_seq] is a sequence of connections served one after the other, each on
      the stream the previous one left behind (or on a fresh one, as the pool decides).

   2. The message a groupLookup caller gets back is the caller's to keep: upstack the response
      is edited IN PLACE (setTags / CD, rcode rewrite, bailiwick filter, the edns writer
      re-attaching the client's OPT).  [l_act] adds that step to the waiters of ModelShare:
      after it has returned, a waiter may append bytes to ITS message at any time, interleaved
      with the other waiters' copy / set-ID steps. *)
From Sdns Require Export Common.Base Gen.C10 C10.Model C10.ModelStream C10.ModelShare.
Open Scope N_scope.

(* ------------------------------------------------------------------ pooled stream *)
(* func (s *tcpStream) reset(conn): s.start, s.end = 0, 0; s.held = <reset_held>; s.werr = nil;
   the deadlines are cleared (every SetDeadline of the new connection is a real call: [arms]) *)
Definition s_reset (st : sstate) (script : list (option nat)) (arms : list bool) : sstate :=
  mkSstate (firstn (N.to_nat reset_held) (t_held st)) false (mkWconn [] script) arms [] [].

(* one connection: the client's byte stream, per-Read chunking, handler scripts by query ID,
   per-Write budgets, per-SetDeadline outcomes, and whether the pool handed back the stream of
   the previous connection *)
Record connio := mkConnio {
  ci_reused : bool;
  ci_input : list byte;
  ci_reads : list nat;
  ci_scripts : list (N * hscript);
  ci_budgets : list (option nat);
  ci_arms : list bool
}.

(* serveConn on the stream [prev] left by the previous connection (after serveConn's deferred
   flush, which conn_loop's [finish] models): returns the stream as this connection leaves it *)
Definition conn_serve (D F : nat) (prev : sstate) (c : connio) : sstate :=
  let st0 := if ci_reused c then s_reset prev (ci_budgets c) (ci_arms c)
             else s_init (ci_budgets c) (ci_arms c) in
  fst (conn_loop (S (length (ci_input c))) D F (ci_scripts c)
                 (mkFstate 0 [] (mkRconn (ci_input c) (ci_reads c))) st0 []).

(* the conn.Write calls of every connection, in connection order *)
Fixpoint conn_seq (D F : nat) (prev : sstate) (l : list connio) : list (list (list byte)) :=
  match l with
  | [] => []
  | c :: r => let st := conn_serve D F prev c in rev (k_out (t_conn st)) :: conn_seq D F st r
  end.

(* ------------------------------------------------------------------ shared lookup, caller-side edits *)
Inductive lact :=
| LGo (i : nat)                      (* waiter i's next step inside groupLookup (ModelShare.l_step) *)
| LEdit (i : nat) (bs : list byte).  (* waiter i, back in its caller: edits ITS message in place *)

Definition l_edit (s : lstate) (i : nat) (bs : list byte) : lstate :=
  match nth_error (l_waiters s) i with
  | Some (_, G2 p) =>
      match nth_error (l_heap s) p with
      | Some m => mkLstate (upd (l_heap s) p (mkMsg (m_id m) (m_body m ++ bs))) (l_waiters s)
      | None => s
      end
  | _ => s
  end.
Definition l_act (r : nat) (shared : bool) (s : lstate) (a : lact) : lstate :=
  match a with LGo i => l_step r shared s i | LEdit i bs => l_edit s i bs end.
Definition l_run2 (r : nat) (shared : bool) (s : lstate) (sched : list lact) : lstate :=
  fold_left (l_act r shared) sched s.

(* what waiter k itself appended to its message along a schedule (an edit before it has
   returned is not enabled: there is no message to edit yet) *)
Definition is_g2 (o : option (N * wstage)) : bool :=
  match o with Some (_, G2 _) => true | _ => false end.
Definition eff_edit (s : lstate) (a : lact) (k : nat) : list byte :=
  match a with
  | LEdit i bs => if Nat.eqb i k && is_g2 (nth_error (l_waiters s) i) then bs else []
  | LGo _ => []
  end.
Fixpoint own_edits (r : nat) (shared : bool) (s : lstate) (sched : list lact) (k : nat) : list byte :=
  match sched with
  | [] => []
  | a :: rest => eff_edit s a k ++ own_edits r shared (l_act r shared s a) rest k
  end.

(* the VARIANT the property forbids (not the code): the leader (waiter 0) keeps the flight's
   result itself and only followers copy.  Used for a computed counter-example only. *)
Definition l_step_leader_keeps (r : nat) (s : lstate) (i : nat) : lstate :=
  match i, nth_error (l_waiters s) i with
  | O, Some (id, G0) => mkLstate (l_heap s) (upd (l_waiters s) i (id, G1 r))
  | _, _ => l_step r true s i
  end.
Definition l_act_leader_keeps (r : nat) (s : lstate) (a : lact) : lstate :=
  match a with LGo i => l_step_leader_keeps r s i | LEdit i bs => l_edit s i bs end.
