(* C10 — the Msg path of the owned UDP transport: udpJob.WriteMsg = PackBuffer(j.tx[:]) + Write(out).
   What the burst sends for the job afterwards is the packed message, wherever the library
   packed it and whatever the slab's TX buffer held before. *)
From Sdns Require Import Common.Base Gen.C10 C10.Model C10.Proofs_UdpBase C10.Proofs_UdpTags.
Open Scope nat_scope.

(* what flushTX / sendDirect will send for the job: j.tx[:j.txLen] *)
Definition staged (j : slab) : list tbyte := tx_get (s_tx j) (s_txlen j).

Lemma tx_get_copy_into (tx b : list tbyte) : tx_get (copy_into tx b) (length b) = b.
Proof.
  unfold tx_get, copy_into.
  assert (H : length b - length (b ++ skipn (length b) tx) = 0) by (rewrite app_length; lia).
  rewrite H. cbn [repeat]. rewrite app_nil_r, firstn_app, Nat.sub_diag, (firstn_all b). cbn [firstn].
  apply app_nil_r.
Qed.

Lemma fits_ltb (bs : list byte) : (N.of_nat (length bs) <= udp_buf_size)%N -> (udp_buf_size <? N.of_nat (length bs))%N = false.
Proof. intros H. apply N.ltb_ge. exact H. Qed.

(* on a worker's or a reader's burst: staged = the message, by its own length *)
Lemma write_msg_staged j ulen bs b :
  s_burst j = Some b -> (N.of_nat (length bs) <= udp_buf_size)%N ->
  let r := job_write_msg j ulen bs in
  snd r = WStaged /\ s_txlen (fst r) = length bs /\ staged (fst r) = tag (s_lease j) bs /\ s_written (fst r) = true.
Proof.
  intros Hb Hfit. unfold job_write_msg, job_write. rewrite (fits_ltb _ Hfit).
  destruct (pack_in_place ulen); cbn; rewrite Hb; cbn; unfold staged; cbn;
    (repeat split; auto);
    replace (length bs) with (length (tag (s_lease j) bs)) at 2 by apply tag_length;
    replace (length bs) with (length (tag (s_lease j) bs)) at 1 by apply tag_length;
    apply tx_get_copy_into.
Qed.

(* on the overflow goroutine (no burst): the message leaves at once, to the job's own address,
   and nothing is left staged *)
Lemma write_msg_direct j ulen bs :
  s_burst j = None -> (N.of_nat (length bs) <= udp_buf_size)%N ->
  let r := job_write_msg j ulen bs in
  snd r = WSent (s_raddr j) (tag (s_lease j) bs) /\ s_txlen (fst r) = s_txlen j.
Proof.
  intros Hb Hfit. unfold job_write_msg, job_write. rewrite (fits_ltb _ Hfit).
  destruct (pack_in_place ulen); cbn; rewrite Hb; cbn; auto.
Qed.

(* a message whose wire form exceeds the slab is refused: nothing staged, nothing sent *)
Lemma write_msg_refused j ulen bs :
  (udp_buf_size < N.of_nat (length bs))%N ->
  let r := job_write_msg j ulen bs in snd r = WTooLarge /\ s_txlen (fst r) = s_txlen j.
Proof.
  intros Hbig. apply N.ltb_lt in Hbig. unfold job_write_msg, job_write. rewrite Hbig.
  destruct (pack_in_place ulen); cbn; auto.
Qed.

Lemma msg_reply_lemma j ulen bs :
  (N.of_nat (length bs) <= udp_buf_size)%N ->
  let r := job_write_msg j ulen bs in
  match s_burst j with
  | Some _ => snd r = WStaged /\ s_txlen (fst r) = length bs /\ staged (fst r) = tag (s_lease j) bs
  | None => snd r = WSent (s_raddr j) (tag (s_lease j) bs) /\ s_txlen (fst r) = s_txlen j
  end.
Proof.
  intros Hfit. destruct (s_burst j) as [b|] eqn:Hb.
  - destruct (write_msg_staged j ulen bs b Hb Hfit) as (H1 & H2 & H3 & _). auto.
  - apply write_msg_direct; auto.
Qed.

(* VARIANT (not the code): "a result that fits the slab was packed in the slab" — stage by length
   whenever the packed message fits, without looking where it was packed *)
Definition job_write_msg_bylen (j : slab) (ulen : nat) (bs : list byte) : slab * wres :=
  match s_burst j with
  | Some _ =>
      if (N.of_nat (length bs) <=? udp_buf_size)%N
      then let j0 := if pack_in_place ulen then set_tx j (copy_into (s_tx j) (tag (s_lease j) bs)) else j in
           (set_txlen (set_written j0 true) (length bs), WStaged)
      else job_write_msg j ulen bs
  | None => job_write_msg j ulen bs
  end.

(* slab on its second lease; its TX buffer still holds the reply of the first (never cleared) *)
Definition stale_slab : slab :=
  mkSlab st_serving 22 (Some 22%N) [0; 8; 1; 0; 0; 1; 0; 0; 0; 0; 0; 0]%N (tag 1 [0; 7; 9; 9; 9]%N) 0 false false (Some 0) 2 0 no_script.

Lemma bylen_leaks :
  staged (fst (job_write_msg_bylen stale_slab 5000 [0; 8; 1]%N)) = tag 1 [0; 7; 9]%N /\
  staged (fst (job_write_msg stale_slab 5000 [0; 8; 1]%N)) = tag 2 [0; 8; 1]%N /\
  staged (fst (job_write_msg_bylen stale_slab 40 [0; 8; 1]%N)) = tag 2 [0; 8; 1]%N.
Proof. vm_compute. repeat split. Qed.
