(* C10 — UDP engine proofs: the TX buffer's provenance tags under Write / LeaseWire+append. *)
From Sdns Require Import Common.Base Gen.C10 C10.Model C10.Proofs_UdpBase.
Open Scope nat_scope.

Lemma firstn_add' {A} (l : list A) n m : firstn (n + m) l = firstn n l ++ firstn m (skipn n l).
Proof. revert l; induction n as [|n IH]; intros [|h t]; cbn; auto. - now rewrite firstn_nil. - now rewrite IH. Qed.
Lemma In_firstn' {A} (l : list A) n x : In x (firstn n l) -> In x l.
Proof. revert l; induction n as [|n IH]; intros [|h t]; cbn; auto. - tauto. - intros [H|H]; auto. Qed.

Lemma Forall_firstn_le {A} (P : A -> Prop) (l : list A) n m :
  n <= m -> Forall P (firstn m l) -> Forall P (firstn n l).
Proof.
  intros Hle H. rewrite Forall_forall in *. intros x Hx. apply H.
  replace m with (n + (m - n)) by lia. rewrite firstn_add'. apply in_app_iff. auto.
Qed.

Lemma Forall_firstn_skipn {A} (P : A -> Prop) (l : list A) k q :
  Forall P (firstn (k + q) l) -> Forall P (firstn q (skipn k l)).
Proof. rewrite firstn_add'. intros H. apply Forall_app in H. tauto. Qed.

Lemma Forall_firstn_app {A} (P : A -> Prop) (a r : list A) m :
  Forall P a -> Forall P (firstn (m - length a) r) -> Forall P (firstn m (a ++ r)).
Proof.
  intros Ha Hr. rewrite firstn_app. apply Forall_app. split; auto.
  rewrite Forall_forall in *. intros x Hx. apply Ha. eapply In_firstn'. exact Hx.
Qed.

Lemma tag_length l bs : length (tag l bs) = length bs.
Proof. apply map_length. Qed.
Lemma tag_tags l bs : Forall (fun tb : tbyte => snd tb = l) (tag l bs).
Proof. unfold tag. apply Forall_forall. intros x Hx. apply in_map_iff in Hx as (b & <- & _). reflexivity. Qed.

Lemma copy_into_length tx b : length (copy_into tx b) = Nat.max (length b) (length tx).
Proof. unfold copy_into. rewrite app_length, skipn_length. lia. Qed.

(* Write(b) on the copying path: the first max(len b, n) bytes are tagged if the first n were *)
Lemma copy_into_tags (P : tbyte -> Prop) tx b n :
  Forall P (firstn n tx) -> Forall P b ->
  Forall P (firstn (Nat.max (length b) n) (copy_into tx b)).
Proof.
  intros Ht Hb. unfold copy_into. apply Forall_firstn_app; auto.
  destruct (Nat.le_ge_cases n (length b)).
  - replace (Nat.max (length b) n - length b) with 0 by lia. constructor.
  - apply Forall_firstn_skipn.
    replace (length b + (Nat.max (length b) n - length b)) with n by lia. auto.
Qed.

Lemma tx_get_firstn tx n : n <= length tx -> tx_get tx n = firstn n tx.
Proof. intros H. unfold tx_get. replace (n - length tx) with 0 by lia. cbn. apply app_nil_r. Qed.

Lemma write_at_length tx o b : o <= length tx -> length (write_at tx o b) = Nat.max (length tx) (o + length b).
Proof.
  intros Ho. unfold write_at. rewrite tx_get_firstn by auto.
  rewrite !app_length, firstn_length, skipn_length. lia.
Qed.

(* append at offset o: the first max(n, o + len b) bytes are tagged if the first max(n, o) were *)
Lemma write_at_tags (P : tbyte -> Prop) tx o b n :
  o <= length tx -> Forall P (firstn (Nat.max n o) tx) -> Forall P b ->
  Forall P (firstn (Nat.max n (o + length b)) (write_at tx o b)).
Proof.
  intros Ho Ht Hb. unfold write_at. rewrite tx_get_firstn by auto.
  apply Forall_firstn_app.
  - eapply Forall_firstn_le; [|exact Ht]. lia.
  - rewrite firstn_length. replace (Nat.min o (length tx)) with o by lia.
    apply Forall_firstn_app; auto.
    destruct (Nat.le_ge_cases n (o + length b)).
    + replace (Nat.max n (o + length b) - o - length b) with 0 by lia. constructor.
    + apply Forall_firstn_skipn.
      replace (o + length b + (Nat.max n (o + length b) - o - length b)) with n by lia.
      eapply Forall_firstn_le; [|exact Ht]. lia.
Qed.
