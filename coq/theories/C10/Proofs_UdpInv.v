(* C10 — UDP engine proofs, part 5: the reader's and the worker's actions, and the step theorem. *)
From Sdns Require Import Common.Base Gen.C10 C10.Model C10.Proofs_UdpBase C10.Proofs_UdpMove
  C10.Proofs_UdpTags C10.Proofs_UdpStep C10.Proofs_UdpActs.
Open Scope nat_scope.
Arguments burst_of : simpl never.
Arguments udp_tx_max : simpl never.
Arguments copy_into : simpl never.
Arguments tag : simpl never.
Arguments tx_get : simpl never.
Arguments write_at : simpl never.

Definition good (c : cfg) (s : ust) : Prop := exists own, inv c s own /\ wsize c s.
Definition step_ok (c : cfg) (r : res) : Prop :=
  match r with Ok s' => good c s' | Disabled => True | Panic => False end.

Lemma own_ne (own : list place) sid p q : nth_error own sid = Some p -> p <> q -> nth_error own sid <> Some q.
Proof. intros -> H [= E]. auto. Qed.

(* ---- e.take + transition(Free, Reading) *)
Lemma take_ok c s r sid : good c s -> step_ok c (ustep c s (ATake r sid)).
Proof.
  intros (own & Hinv & Hws). cbn [ustep].
  destruct (N.leb (c_cap c) (u_leased s)); [exact I|].
  destruct (mem_nat sid (u_idle s)) eqn:Hm.
  - (* a parked slab *)
    apply mem_nat_In in Hm. cbn [orb negb].
    assert (Hfresh : (Nat.eqb sid (length (u_slabs s)) && match u_idle s with [] => true | _ => false end) = false).
    { destruct (u_idle s); [destruct Hm|]. apply andb_false_r. }
    rewrite Hfresh.
    pose proof (proj1 (i_idle _ _ _ Hinv sid) Hm) as Hp.
    destruct (inv_slab _ _ _ _ _ Hinv Hp) as [j Hj]. unfold get_slab in Hj. rewrite Hj.
    pose proof (i_local _ _ _ Hinv sid _ j Hp Hj) as [Hb (Hst & Htx)].
    rewrite (transition_ok j _ st_reading Hst).
    assert (Hlt : sid < length (u_slabs s)) by (eapply nth_error_lt; eauto).
    exists (upd own sid (PHeld r)). split; [|exact Hws].
    eapply inv_move with (s := s) (sid := sid) (pn := PHeld r) (evs := []); eauto; cbn.
    + rewrite !upd_length. apply (i_len _ _ _ Hinv).
    + eapply upd_own_sid; eauto.
    + intros x Hx. apply nth_upd_other; auto.
    + apply nth_upd_same; auto.
    + intros x Hx. apply nth_upd_other; auto.
    + rewrite upd_length. lia.
    + intros x. rewrite rem_nat_In. split; [auto | intros [H|[_ H]]; [auto|discriminate]].
    + unfold rem_nat. apply NoDup_filter. apply (i_idle_nd _ _ _ Hinv).
    + intros r0 x. split.
      * intros [[= <- <-]|H]; [right; auto|left].
        apply (keep_held c s own sid Hinv); auto. intros r1. rewrite Hp. discriminate.
      * intros [[H _]|[-> [= <-]]]; auto.
    + constructor; [|apply (i_held_nd _ _ _ Hinv)].
      apply (notin_held c s own sid Hinv). intros r1. rewrite Hp. discriminate.
    + intros x. rewrite (keep_ready c s own sid Hinv) at 1 by (rewrite Hp; discriminate).
      split; [auto | intros [H|[_ H]]; [auto|discriminate]].
    + apply (i_ready_nd _ _ _ Hinv).
    + intros x w. rewrite (keep_serv c s own sid Hinv) at 1 by (intros w0; rewrite Hp; discriminate).
      split; [auto | intros [H|[_ H]]; [auto|discriminate]].
    + apply (i_serv_nd _ _ _ Hinv).
    + intros b x. rewrite (keep_burst c s own sid Hinv) at 1 by (intros b0; rewrite Hp; discriminate).
      split; [auto | intros [H|[_ H]]; [auto|discriminate]].
    + apply (i_burst_nd _ _ _ Hinv).
    + intros e [].
    + apply (i_log _ _ _ Hinv).
    + (* the taken slab *)
      split.
      * intros e He Hs. cbn. specialize (Hb e He Hs). lia.
      * cbn. repeat split; auto.
        -- intros Hin. specialize (Hb _ Hin eq_refl). cbn in Hb. lia.
        -- intros a rx Hin. specialize (Hb _ Hin eq_refl). cbn in Hb. lia.
    + apply (i_bsize _ _ _ Hinv).
    + apply (i_wdef _ _ _ Hinv).
  - cbn [orb]. destruct (Nat.eqb sid (length (u_slabs s)) && match u_idle s with [] => true | _ => false end) eqn:Hfresh; [|exact I].
    cbn [negb]. apply andb_prop in Hfresh as [Hs Hidle]. apply Nat.eqb_eq in Hs.
    destruct (u_idle s) eqn:Ei; [|discriminate]. subst sid.
    rewrite nth_app_fresh. cbn [fresh_slab].
    rewrite (transition_ok fresh_slab st_free st_reading eq_refl).
    pose proof (i_len _ _ _ Hinv) as Hl.
    assert (Hnone : nth_error own (length (u_slabs s)) = None) by (apply nth_error_None; lia).
    exists (own ++ [PHeld r]). split; [|exact Hws].
    eapply inv_move with (s := s) (sid := length (u_slabs s)) (pn := PHeld r) (evs := []); eauto; cbn.
    + rewrite upd_length, !app_length. cbn. lia.
    + rewrite <- Hl. apply nth_app_fresh.
    + intros x Hx. destruct (Nat.lt_ge_cases x (length own)).
      * apply nth_app_old; auto.
      * rewrite (proj2 (nth_error_None own x)) by lia. apply nth_error_None. rewrite app_length. cbn. lia.
    + apply nth_upd_same. rewrite app_length. cbn. lia.
    + intros x Hx. rewrite nth_upd_other by auto. destruct (Nat.lt_ge_cases x (length (u_slabs s))).
      * apply nth_app_old; auto.
      * rewrite (proj2 (nth_error_None (u_slabs s) x)) by lia. apply nth_error_None. rewrite app_length. cbn. lia.
    + rewrite upd_length, app_length. lia.
    + intros x. rewrite Ei. cbn. split; [tauto | intros [[[] _]|[_ H]]; discriminate].
    + constructor.
    + intros r0 x. split.
      * intros [[= <- <-]|H]; [right; auto|left].
        apply (keep_held c s own _ Hinv); auto. intros r1. rewrite Hnone. discriminate.
      * intros [[H _]|[-> [= <-]]]; auto.
    + constructor; [|apply (i_held_nd _ _ _ Hinv)].
      apply (notin_held c s own _ Hinv). intros r1. rewrite Hnone. discriminate.
    + intros x. rewrite (keep_ready c s own _ Hinv) at 1 by (rewrite Hnone; discriminate).
      split; [auto | intros [H|[_ H]]; [auto|discriminate]].
    + apply (i_ready_nd _ _ _ Hinv).
    + intros x w. rewrite (keep_serv c s own _ Hinv) at 1 by (intros w0; rewrite Hnone; discriminate).
      split; [auto | intros [H|[_ H]]; [auto|discriminate]].
    + apply (i_serv_nd _ _ _ Hinv).
    + intros b x. rewrite (keep_burst c s own _ Hinv) at 1 by (intros b0; rewrite Hnone; discriminate).
      split; [auto | intros [H|[_ H]]; [auto|discriminate]].
    + apply (i_burst_nd _ _ _ Hinv).
    + intros e [].
    + apply (i_log _ _ _ Hinv).
    + split.
      * intros e He Hs. pose proof (i_logsid _ _ _ Hinv e He). lia.
      * cbn. repeat split; auto.
        -- intros Hin. pose proof (i_logsid _ _ _ Hinv _ Hin). cbn in H. lia.
        -- intros a rx Hin. pose proof (i_logsid _ _ _ Hinv _ Hin). cbn in H. lia.
    + apply (i_bsize _ _ _ Hinv).
    + apply (i_wdef _ _ _ Hinv).
Qed.

(* ---- release of a held slab (read error, truncation, bad sockaddr) *)
Lemma recv_fail_ok c s r sid : good c s -> step_ok c (ustep c s (ARecvFail r sid)).
Proof.
  intros (own & Hinv & Hws). cbn [ustep].
  destruct (held_mem r sid (u_held s)) eqn:Hm; [|exact I].
  apply held_mem_In in Hm. pose proof (proj1 (i_held _ _ _ Hinv r sid) Hm) as Hp.
  destruct (inv_slab _ _ _ _ _ Hinv Hp) as [j Hj].
  pose proof (i_local _ _ _ Hinv sid _ j Hp Hj) as [_ (Hst & _)].
  destruct (u_release_inv c s (set_held s (held_rem sid (u_held s))) own sid (PHeld r) st_reading j j)
    as (s1 & E1 & Hinv1 & Hh1 & Hr1 & Hs1 & Hb1 & Hw1 & Hl1 & Ho1); auto; try discriminate; try reflexivity; cbn.
  - intros r0 x. rewrite held_rem_In. cbn. tauto.
  - unfold held_rem. apply NoDup_map_filter. apply (i_held_nd _ _ _ Hinv).
  - apply (keep_serv c s own sid Hinv). intros w. rewrite Hp. discriminate.
  - apply (i_serv_nd _ _ _ Hinv).
  - apply (keep_burst c s own sid Hinv). intros b. rewrite Hp. discriminate.
  - apply (i_burst_nd _ _ _ Hinv).
  - rewrite E1. eexists. split; eauto. intros b Hb. rewrite Hb1. cbn. apply Hws; auto.
Qed.

(* ---- enqueueCounted.  s is s0 with sid taken out of its list and evs logged *)
Lemma enqueue_ok c s0 s own sid p jn evs :
  inv c s0 own -> wsize c s0 ->
  nth_error own sid = Some p -> p <> PIdle -> p <> PReady -> (forall b, p <> PBurst b) ->
  (forall x, x <> sid -> nth_error (u_slabs s) x = nth_error (u_slabs s0) x) -> length (u_slabs s) = length (u_slabs s0) ->
  u_log s = evs ++ u_log s0 -> u_idle s = u_idle s0 -> u_ready s = u_ready s0 ->
  u_wdef s = u_wdef s0 -> u_burst s = u_burst s0 ->
  (forall r x, In (r, x) (u_held s) <-> In (r, x) (u_held s0) /\ x <> sid) -> NoDup (map snd (u_held s)) ->
  (forall x w, In (x, w) (u_serv s) <-> In (x, w) (u_serv s0) /\ x <> sid) -> NoDup (map fst (u_serv s)) ->
  (forall e, In e evs -> ev_sid e = sid) -> log_ok (evs ++ u_log s0) ->
  local_ok c (evs ++ u_log s0) sid PReady (set_state jn st_queued) ->
  step_ok c (u_enqueue c s sid jn).
Proof.
  intros Hinv Hws Hp Hni Hnr Hnb Hso Hsl Hlg Hid Hrd Hwd Hbu Hh Hhn Hsv Hsvn Hev Hlok Hloc.
  assert (Hlt : sid < length (u_slabs s0)).
  { destruct (inv_slab _ _ _ _ _ Hinv Hp) as [j Hj]. eapply nth_error_lt; eauto. }
  destruct Hloc as [Hb (Hst & Htx & Hlive & Hfill)].
  unfold u_enqueue. destruct (Nat.ltb (length (u_ready s)) (c_qcap c)).
  - (* the ready queue *)
    exists (upd own sid PReady). split; [|intros b Hb'; cbn; rewrite Hbu; apply Hws; auto].
    eapply inv_move with (s := s0) (sid := sid) (pn := PReady) (evs := evs); eauto; cbn.
    + rewrite !upd_length, Hsl. apply (i_len _ _ _ Hinv).
    + eapply upd_own_sid; eauto.
    + intros x Hx. apply nth_upd_other; auto.
    + apply nth_upd_same; lia.
    + intros x Hx. rewrite nth_upd_other by auto. auto.
    + rewrite upd_length, Hsl. lia.
    + intros x. rewrite Hid. rewrite (keep_idle c s0 own sid Hinv) at 1 by (rewrite Hp; congruence).
      split; [auto | intros [H|[_ H]]; [auto|discriminate]].
    + rewrite Hid. apply (i_idle_nd _ _ _ Hinv).
    + intros r x. rewrite Hh. split; [auto | intros [H|[_ H]]; [auto|discriminate]].
    + intros x. rewrite Hrd, in_app_iff. cbn. split.
      * intros [H|[<-|[]]]; [left|right; auto].
        apply (keep_ready c s0 own sid Hinv); auto. rewrite Hp. congruence.
      * intros [[H _]|[-> _]]; auto.
    + rewrite Hrd. apply NoDup_app_one; [apply (i_ready_nd _ _ _ Hinv)|].
      apply (notin_ready c s0 own sid Hinv). rewrite Hp. congruence.
    + intros x w. rewrite Hsv. split; [auto | intros [H|[_ H]]; [auto|discriminate]].
    + intros b x. rewrite Hbu. rewrite (keep_burst c s0 own sid Hinv) at 1 by (intros b0; rewrite Hp; intros [= E]; eapply Hnb; eauto).
      split; [auto | intros [H|[_ H]]; [auto|discriminate]].
    + rewrite Hbu. apply (i_burst_nd _ _ _ Hinv).
    + rewrite Hlg. split; auto.
    + intros b. rewrite Hbu. apply (i_bsize _ _ _ Hinv).
    + intros w Hw. rewrite Hwd in Hw. rewrite Hbu. apply (i_wdef _ _ _ Hinv); auto.
  - (* an overflow goroutine *)
    rewrite (transition_ok (set_state jn st_queued) st_queued st_serving eq_refl).
    exists (upd own sid (PServ Overflow)). split; [|intros b Hb'; cbn; rewrite Hbu; apply Hws; auto].
    eapply inv_move with (s := s0) (sid := sid) (pn := PServ Overflow) (evs := evs); eauto; cbn.
    + rewrite !upd_length, Hsl. apply (i_len _ _ _ Hinv).
    + eapply upd_own_sid; eauto.
    + intros x Hx. apply nth_upd_other; auto.
    + apply nth_upd_same; lia.
    + intros x Hx. rewrite nth_upd_other by auto. auto.
    + rewrite upd_length, Hsl. lia.
    + intros x. rewrite Hid. rewrite (keep_idle c s0 own sid Hinv) at 1 by (rewrite Hp; congruence).
      split; [auto | intros [H|[_ H]]; [auto|discriminate]].
    + rewrite Hid. apply (i_idle_nd _ _ _ Hinv).
    + intros r x. rewrite Hh. split; [auto | intros [H|[_ H]]; [auto|discriminate]].
    + intros x. rewrite Hrd. rewrite (keep_ready c s0 own sid Hinv) at 1 by (rewrite Hp; congruence).
      split; [auto | intros [H|[_ H]]; [auto|discriminate]].
    + rewrite Hrd. apply (i_ready_nd _ _ _ Hinv).
    + intros x w. split.
      * intros [[= <- <-]|H]; [right; auto|left]. apply Hsv; auto.
      * intros [[H Hx]|[-> [= <-]]]; auto. right. apply Hsv. auto.
    + constructor; auto. intros Hin. apply in_map_iff in Hin as ([x w] & E & Hin). cbn in E. subst x.
      apply Hsv in Hin. tauto.
    + intros b x. rewrite Hbu. rewrite (keep_burst c s0 own sid Hinv) at 1 by (intros b0; rewrite Hp; intros [= E]; eapply Hnb; eauto).
      split; [auto | intros [H|[_ H]]; [auto|discriminate]].
    + rewrite Hbu. apply (i_burst_nd _ _ _ Hinv).
    + rewrite Hlg. split; [exact Hb|]. cbn in Htx.
      split; [reflexivity|]. split; [reflexivity|]. split; [auto|]. split; [discriminate|].
      split; [exact Hlive|]. split; [exact Hfill|]. split.
      { unfold wrote. cbn. intros H. congruence. }
      unfold tags_ok. cbn. rewrite Htx. cbn. split; [lia|constructor].
    + intros b. rewrite Hbu. apply (i_bsize _ _ _ Hinv).
    + intros w Hw. rewrite Hwd in Hw. rewrite Hbu. apply (i_wdef _ _ _ Hinv); auto.
Qed.

(* ---- a datagram lands in a held slab and is enqueued *)
Lemma recv_enq_ok c s r sid k addr rx sc : good c s -> step_ok c (ustep c s (ARecvEnq r sid k addr rx sc)).
Proof.
  intros (own & Hinv & Hws). cbn [ustep].
  destruct (held_mem r sid (u_held s)) eqn:Hm; [|exact I].
  apply held_mem_In in Hm. pose proof (proj1 (i_held _ _ _ Hinv r sid) Hm) as Hp.
  destruct (inv_slab _ _ _ _ _ Hinv Hp) as [j Hj]. rewrite Hj.
  pose proof (i_local _ _ _ Hinv sid _ j Hp Hj) as [Hb (Hst & Htx & Hlive & Hnorecv)].
  eapply (enqueue_ok c s _ own sid (PHeld r) _ [ERecv sid (s_lease j) addr rx]); eauto; try discriminate; try reflexivity; cbn.
  - intros r0 x. rewrite held_rem_In. cbn. tauto.
  - unfold held_rem. apply NoDup_map_filter. apply (i_held_nd _ _ _ Hinv).
  - apply (keep_serv c s own sid Hinv). intros w. rewrite Hp. discriminate.
  - apply (i_serv_nd _ _ _ Hinv).
  - intros e [<-|[]]. reflexivity.
  - constructor; [apply (i_log _ _ _ Hinv)|]. cbn. intros a rx'. apply Hnorecv.
  - split.
    + intros e [<-|He] Es; cbn; [lia|]. apply Hb; auto.
    + cbn. repeat split; auto.
      * unfold live. cbn. intros [E|Hin]; [discriminate|]. apply Hlive; auto.
      * left. reflexivity.
      * intros a. destruct k; cbn; [intros [= <-]; auto | discriminate].
Qed.

(* ---- a datagram lands in a held slab and is served on the reader *)
Lemma recv_inline_ok c s r sid addr rx sc : good c s -> step_ok c (ustep c s (ARecvInline r sid addr rx sc)).
Proof.
  intros (own & Hinv & Hws). cbn [ustep].
  destruct (held_mem r sid (u_held s)) eqn:Hm; [|exact I].
  destruct (is_none (serv_of (Inline r) (u_serv s))); [|exact I]. cbn [andb].
  apply held_mem_In in Hm. pose proof (proj1 (i_held _ _ _ Hinv r sid) Hm) as Hp.
  destruct (inv_slab _ _ _ _ _ Hinv Hp) as [j Hj]. rewrite Hj.
  pose proof (i_local _ _ _ Hinv sid _ j Hp Hj) as [Hb (Hst & Htx & Hlive & Hnorecv)].
  rewrite (transition_ok (set_recv j addr (Some addr) rx sc) st_reading st_serving Hst).
  assert (Hlt : sid < length (u_slabs s)) by (eapply nth_error_lt; eauto).
  exists (upd own sid (PServ (Inline r))). split; [|exact Hws].
  eapply inv_move with (s := s) (sid := sid) (pn := PServ (Inline r)) (evs := [ERecv sid (s_lease j) addr rx]); eauto; cbn.
  - rewrite !upd_length. apply (i_len _ _ _ Hinv).
  - eapply upd_own_sid; eauto.
  - intros x Hx. apply nth_upd_other; auto.
  - apply nth_upd_same; auto.
  - intros x Hx. apply nth_upd_other; auto.
  - rewrite upd_length. lia.
  - intros x. rewrite (keep_idle c s own sid Hinv) at 1 by (rewrite Hp; congruence).
    split; [auto | intros [H|[_ H]]; [auto|discriminate]].
  - apply (i_idle_nd _ _ _ Hinv).
  - intros r0 x. rewrite held_rem_In. cbn. split; [auto | intros [H|[_ H]]; [auto|discriminate]].
  - unfold held_rem. apply NoDup_map_filter. apply (i_held_nd _ _ _ Hinv).
  - intros x. rewrite (keep_ready c s own sid Hinv) at 1 by (rewrite Hp; congruence).
    split; [auto | intros [H|[_ H]]; [auto|discriminate]].
  - apply (i_ready_nd _ _ _ Hinv).
  - intros x w. split.
    + intros [[= <- <-]|H]; [right; auto|left].
      apply (keep_serv c s own sid Hinv); auto. intros w0. rewrite Hp. discriminate.
    + intros [[H _]|[-> [= <-]]]; auto.
  - constructor; [|apply (i_serv_nd _ _ _ Hinv)].
    apply (notin_serv c s own sid Hinv). intros w0. rewrite Hp. discriminate.
  - intros b x. rewrite (keep_burst c s own sid Hinv) at 1 by (intros b0; rewrite Hp; discriminate).
    split; [auto | intros [H|[_ H]]; [auto|discriminate]].
  - apply (i_burst_nd _ _ _ Hinv).
  - intros e [<-|[]]. reflexivity.
  - constructor; [apply (i_log _ _ _ Hinv)|]. cbn. intros a rx'. apply Hnorecv.
  - split.
    + intros e [<-|He] Es; cbn; [lia|]. apply Hb; auto.
    + cbn in Htx |- *.
      split; [reflexivity|]. split; [reflexivity|]. split; [discriminate|]. split; [discriminate|].
      split. { unfold live. cbn. intros [E|Hin]; [discriminate|]. apply Hlive; auto. }
      split. { split; [left; reflexivity|]. cbn. intros a [= <-]. auto. }
      split. { unfold wrote. cbn. intros H. congruence. }
      unfold tags_ok. cbn. rewrite Htx. cbn. split; [lia|constructor].
  - apply (i_bsize _ _ _ Hinv).
  - apply (i_wdef _ _ _ Hinv).
Qed.

(* ---- a worker takes the head of the ready queue *)
Lemma begin_serve_ok c s w : good c s -> step_ok c (ustep c s (ABeginServe w)).
Proof.
  intros (own & Hinv & Hws). cbn [ustep].
  destruct (Nat.ltb w (c_workers c)) eqn:Hw; [|exact I].
  destruct (is_none (serv_of (Worker w) (u_serv s))); [|exact I]. cbn [andb].
  destruct (u_ready s) as [|sid rest] eqn:Er; [exact I|].
  assert (Hm : In sid (u_ready s)) by (rewrite Er; left; auto).
  pose proof (proj1 (i_ready _ _ _ Hinv sid) Hm) as Hp.
  destruct (inv_slab _ _ _ _ _ Hinv Hp) as [j Hj]. rewrite Hj.
  pose proof (i_local _ _ _ Hinv sid _ j Hp Hj) as [Hb (Hst & Htx & Hlive & Hfill)].
  rewrite (transition_ok j st_queued st_serving Hst).
  assert (Hlt : sid < length (u_slabs s)) by (eapply nth_error_lt; eauto).
  pose proof (i_ready_nd _ _ _ Hinv) as Hnd. rewrite Er in Hnd. inversion Hnd as [|? ? Hnin Hnd']; subst.
  exists (upd own sid (PServ (Worker w))). split; [|exact Hws].
  eapply inv_move with (s := s) (sid := sid) (pn := PServ (Worker w)) (evs := []); eauto; cbn.
  - rewrite !upd_length. apply (i_len _ _ _ Hinv).
  - eapply upd_own_sid; eauto.
  - intros x Hx. apply nth_upd_other; auto.
  - apply nth_upd_same; auto.
  - intros x Hx. apply nth_upd_other; auto.
  - rewrite upd_length. lia.
  - intros x. rewrite (keep_idle c s own sid Hinv) at 1 by (rewrite Hp; congruence).
    split; [auto | intros [H|[_ H]]; [auto|discriminate]].
  - apply (i_idle_nd _ _ _ Hinv).
  - intros r0 x. rewrite (keep_held c s own sid Hinv) at 1 by (intros r1; rewrite Hp; discriminate).
    split; [auto | intros [H|[_ H]]; [auto|discriminate]].
  - apply (i_held_nd _ _ _ Hinv).
  - intros x. rewrite Er. cbn. split.
    + intros H. left. split; auto. intros ->. auto.
    + intros [[[<-|H] Hx]|[_ H]]; [congruence|auto|discriminate].
  - intros x w0. split.
    + intros [[= <- <-]|H]; [right; auto|left].
      apply (keep_serv c s own sid Hinv); auto. intros w1. rewrite Hp. discriminate.
    + intros [[H _]|[-> [= <-]]]; auto.
  - constructor; [|apply (i_serv_nd _ _ _ Hinv)].
    apply (notin_serv c s own sid Hinv). intros w0. rewrite Hp. discriminate.
  - intros b x. rewrite (keep_burst c s own sid Hinv) at 1 by (intros b0; rewrite Hp; discriminate).
    split; [auto | intros [H|[_ H]]; [auto|discriminate]].
  - apply (i_burst_nd _ _ _ Hinv).
  - intros e [].
  - apply (i_log _ _ _ Hinv).
  - split; [exact Hb|]. cbn in Htx |- *.
    split; [reflexivity|]. split; [reflexivity|]. split; [discriminate|].
    split. { intros w0 [= <-]. apply Nat.ltb_lt. auto. }
    split; [exact Hlive|]. split; [exact Hfill|].
    split. { unfold wrote. cbn. intros H. congruence. }
    unfold tags_ok. cbn. rewrite Htx. cbn. split; [lia|constructor].
  - apply (i_bsize _ _ _ Hinv).
  - apply (i_wdef _ _ _ Hinv).
Qed.

(* ---- flushes *)
Lemma wsize_shrink c s s' :
  wsize c s -> (forall b, length (burst_of b (u_burst s')) <= length (burst_of b (u_burst s))) -> wsize c s'.
Proof. intros H L b Hb. specialize (H b Hb). specialize (L b). lia. Qed.

Lemma flush_ok c s b : good c s -> step_ok c (u_flush c s b).
Proof.
  intros (own & Hinv & Hws).
  destruct (u_flush_inv c s own b Hinv) as (s' & own' & E & Hinv' & F & _). rewrite E.
  exists own'. split; auto. eapply wsize_shrink; eauto. apply F.
Qed.

Lemma idle_flush_ok c s w : good c s -> step_ok c (ustep c s (AIdleFlush w)).
Proof.
  intros (own & Hinv & Hws). cbn [ustep].
  destruct (Nat.ltb w (c_workers c)) eqn:Hwl; [|exact I]. cbn [andb].
  destruct (_ && _ && _); [|exact I]. apply Nat.ltb_lt in Hwl.
  destruct (u_flush_inv c s own w Hinv) as (s' & own' & E & Hinv' & F & Hnil). rewrite E.
  exists own'. split.
  - destruct Hinv'. constructor; auto. cbn. intros w' [<-|Hw']; auto.
  - cbn. eapply wsize_shrink; eauto. apply F.
Qed.

Lemma hflush_ok c s sid : good c s -> step_ok c (ustep c s (AHFlushStaged sid)).
Proof.
  intros G. cbn [ustep]. destruct (get_slab s sid) as [j|]; [|exact I].
  destruct (serv_find sid (u_serv s)); [|exact I].
  destruct (s_burst j); [apply flush_ok; auto | exact G].
Qed.

(* ---- serve's deferred terminal *)
Lemma tx_max_pos : (0 < udp_tx_max)%N.
Proof. pose proof tx_max_ge_2. lia. Qed.

Lemma end_serve_ok c s sid : good c s -> step_ok c (ustep c s (AEndServe sid)).
Proof.
  intros (own & Hinv & Hws). cbn [ustep].
  destruct (get_slab s sid) as [j|] eqn:Hj; [|exact I].
  destruct (serv_find sid (u_serv s)) as [who|] eqn:Hf; [|exact I].
  apply serv_find_In in Hf. pose proof (proj1 (i_serv _ _ _ Hinv _ _) Hf) as Hp.
  pose proof (i_local _ _ _ Hinv sid _ j Hp Hj) as [Hb (Hst & Hbu & Hov & Hwk & Hlive & Hfill & Hwr & Htag)].
  assert (Hlt : sid < length (u_slabs s)) by (eapply nth_error_lt; eauto).
  destruct who as [w| |r]; [| |exact I].
  - (* a pool worker *)
    cbn in Hbu. rewrite Hbu. cbn [u_wdef put_slab set_serv set_slabs].
    destruct (s_txlen j) eqn:Etx.
    + (* nothing staged: release *)
      destruct (u_release_inv c s
                  (set_wdef (put_slab (set_serv s (serv_rem sid (u_serv s))) sid (set_burst j None)) (rem_nat w (u_wdef s)))
                  own sid (PServ (Worker w)) st_serving j (set_burst j None))
        as (s1 & E1 & Hinv1 & Hh1 & Hr1 & Hs1 & Hb1 & Hw1 & Hl1 & Ho1); auto; try discriminate; try reflexivity; cbn.
      * apply nth_upd_same; auto.
      * intros x Hx. apply nth_upd_other; auto.
      * apply upd_length.
      * intros w0. rewrite rem_nat_In. tauto.
      * apply (keep_held c s own sid Hinv). intros r0. rewrite Hp. discriminate.
      * apply (i_held_nd _ _ _ Hinv).
      * intros x w0. rewrite serv_rem_In. cbn. tauto.
      * unfold serv_rem. apply NoDup_map_filter. apply (i_serv_nd _ _ _ Hinv).
      * apply (keep_burst c s own sid Hinv). intros b. rewrite Hp. discriminate.
      * apply (i_burst_nd _ _ _ Hinv).
      * cbn in E1. rewrite E1. eexists. split; eauto. intros b Hb'. rewrite Hb1. cbn. apply Hws; auto.
    + (* staged: into the worker's burst *)
      assert (Hwlt : w < c_workers c) by (apply Hwk; auto).
      pose proof (Hws w Hwlt) as Hsz.
      unfold burst_add. cbn [u_burst set_wdef put_slab set_serv set_slabs].
      destruct (N.ltb_spec (N.of_nat (length (burst_of w (u_burst s)))) udp_tx_max) as [_|Hge]; [|lia].
      set (s3 := set_bursts (set_wdef (put_slab (set_serv s (serv_rem sid (u_serv s))) sid (set_burst j None)) (rem_nat w (u_wdef s)))
                            (u_burst s ++ [(w, sid)])).
      assert (Hinv3 : inv c s3 (upd own sid (PBurst w))).
      { eapply inv_move with (s := s) (sid := sid) (pn := PBurst w) (evs := []); eauto; cbn.
        - rewrite !upd_length. apply (i_len _ _ _ Hinv).
        - eapply upd_own_sid; eauto.
        - intros x Hx. apply nth_upd_other; auto.
        - apply nth_upd_same; auto.
        - intros x Hx. apply nth_upd_other; auto.
        - rewrite upd_length. lia.
        - intros x. rewrite (keep_idle c s own sid Hinv) at 1 by (rewrite Hp; congruence).
          split; [auto | intros [H|[_ H]]; [auto|discriminate]].
        - apply (i_idle_nd _ _ _ Hinv).
        - intros r0 x. rewrite (keep_held c s own sid Hinv) at 1 by (intros r1; rewrite Hp; discriminate).
          split; [auto | intros [H|[_ H]]; [auto|discriminate]].
        - apply (i_held_nd _ _ _ Hinv).
        - intros x. rewrite (keep_ready c s own sid Hinv) at 1 by (rewrite Hp; congruence).
          split; [auto | intros [H|[_ H]]; [auto|discriminate]].
        - apply (i_ready_nd _ _ _ Hinv).
        - intros x w0. rewrite serv_rem_In. cbn. split; [auto | intros [H|[_ H]]; [auto|discriminate]].
        - unfold serv_rem. apply NoDup_map_filter. apply (i_serv_nd _ _ _ Hinv).
        - intros b x. rewrite in_app_iff. cbn. split.
          + intros [H|[[= <- <-]|[]]]; [left|right; auto].
            apply (keep_burst c s own sid Hinv); auto. intros b0. rewrite Hp. discriminate.
          + intros [[H _]|[-> [= <-]]]; auto.
        - rewrite map_app. cbn. apply NoDup_app_one; [apply (i_burst_nd _ _ _ Hinv)|].
          apply (notin_burst c s own sid Hinv). intros b0. rewrite Hp. discriminate.
        - intros e [].
        - apply (i_log _ _ _ Hinv).
        - split; [exact Hb|]. cbn.
          split; [exact Hst|]. split; [lia|]. split; [exact Hlive|]. split; [exact Hfill|]. split; [exact Hwr|].
          eapply (tags_ok_le j); [|exact Htag]. lia.
        - intros b. rewrite burst_of_app. destruct (Nat.eqb w b) eqn:Ewb.
          + apply Nat.eqb_eq in Ewb. subst b. rewrite app_length. cbn. lia.
          + apply (i_bsize _ _ _ Hinv).
        - intros w0 Hw0. apply rem_nat_In in Hw0 as [Hw0 Hne]. rewrite burst_of_app.
          destruct (Nat.eqb_spec w w0); [congruence|]. apply (i_wdef _ _ _ Hinv); auto. }
      fold s3.
      assert (Hlen3 : forall b, length (burst_of b (u_burst s3)) =
                                if Nat.eqb w b then S (length (burst_of b (u_burst s))) else length (burst_of b (u_burst s))).
      { intros b. unfold s3. cbn. rewrite burst_of_app. destruct (Nat.eqb w b); auto. rewrite app_length. cbn. lia. }
      destruct (negb (mem_nat w (u_wdef s)) && burst_full s3 w) eqn:Efl.
      * (* full: the worker flushes before it serves again *)
        destruct (u_flush_inv c s3 _ w Hinv3) as (s4 & own4 & E4 & Hinv4 & F4 & Hnil). rewrite E4.
        exists own4. split; auto. intros b Hb'.
        destruct (Nat.eq_dec b w) as [->|Hne].
        -- rewrite Hnil. cbn. apply tx_max_pos.
        -- destruct F4 as (_ & _ & _ & _ & _ & _ & _ & F8 & _). specialize (F8 b). rewrite Hlen3 in F8.
           destruct (Nat.eqb_spec w b); [congruence|]. specialize (Hws b Hb'). lia.
      * exists (upd own sid (PBurst w)). split; auto. intros b Hb'. rewrite Hlen3.
        destruct (Nat.eqb_spec w b) as [<-|Hne]; [|apply Hws; auto].
        apply andb_false_iff in Efl as [Efl|Efl].
        -- apply Bool.negb_false_iff in Efl. apply mem_nat_In in Efl.
           rewrite (proj2 (i_wdef _ _ _ Hinv w Efl)). cbn. pose proof tx_max_ge_2. lia.
        -- unfold burst_full in Efl. apply N.eqb_neq in Efl. rewrite Hlen3, Nat.eqb_refl in Efl. lia.
  - (* an overflow goroutine: nothing is ever staged *)
    rewrite (Hov eq_refl).
    destruct (u_release_inv c s
                (put_slab (set_serv s (serv_rem sid (u_serv s))) sid (set_burst j None))
                own sid (PServ Overflow) st_serving j (set_burst j None))
      as (s1 & E1 & Hinv1 & Hh1 & Hr1 & Hs1 & Hb1 & Hw1 & Hl1 & Ho1); auto; try discriminate; try reflexivity; cbn.
    + apply nth_upd_same; auto.
    + intros x Hx. apply nth_upd_other; auto.
    + apply upd_length.
    + apply (keep_held c s own sid Hinv). intros r0. rewrite Hp. discriminate.
    + apply (i_held_nd _ _ _ Hinv).
    + intros x w0. rewrite serv_rem_In. cbn. tauto.
    + unfold serv_rem. apply NoDup_map_filter. apply (i_serv_nd _ _ _ Hinv).
    + apply (keep_burst c s own sid Hinv). intros b. rewrite Hp. discriminate.
    + apply (i_burst_nd _ _ _ Hinv).
    + cbn in E1. rewrite E1. eexists. split; eauto. intros b Hb'. rewrite Hb1. cbn. apply Hws; auto.
Qed.

(* ---- serveInline's deferred terminal *)
Lemma end_inline_ok c s sid done : good c s -> step_ok c (ustep c s (AEndInline sid done)).
Proof.
  intros (own & Hinv & Hws). cbn [ustep].
  destruct (get_slab s sid) as [j|] eqn:Hj; [|exact I].
  destruct (serv_find sid (u_serv s)) as [who|] eqn:Hf; [|exact I].
  destruct who as [w| |r]; try exact I.
  apply serv_find_In in Hf. pose proof (proj1 (i_serv _ _ _ Hinv _ _) Hf) as Hp.
  pose proof (i_local _ _ _ Hinv sid _ j Hp Hj) as [Hb (Hst & Hbu & Hov & Hwk & Hlive & Hfill & Hwr & Htag)].
  assert (Hlt : sid < length (u_slabs s)) by (eapply nth_error_lt; eauto).
  destruct (s_txlen j) eqn:Etx.
  - destruct done.
    + (* terminal without a reply *)
      destruct (u_release_inv c s
                  (put_slab (set_serv s (serv_rem sid (u_serv s))) sid (set_burst j None))
                  own sid (PServ (Inline r)) st_serving j (set_burst j None))
        as (s1 & E1 & Hinv1 & Hh1 & Hr1 & Hs1 & Hb1 & Hw1 & Hl1 & Ho1); auto; try discriminate; try reflexivity; cbn.
      * apply nth_upd_same; auto.
      * intros x Hx. apply nth_upd_other; auto.
      * apply upd_length.
      * apply (keep_held c s own sid Hinv). intros r0. rewrite Hp. discriminate.
      * apply (i_held_nd _ _ _ Hinv).
      * intros x w0. rewrite serv_rem_In. cbn. tauto.
      * unfold serv_rem. apply NoDup_map_filter. apply (i_serv_nd _ _ _ Hinv).
      * apply (keep_burst c s own sid Hinv). intros b. rewrite Hp. discriminate.
      * apply (i_burst_nd _ _ _ Hinv).
      * rewrite E1. eexists. split; eauto. intros b Hb'. rewrite Hb1. cbn. apply Hws; auto.
    + (* handoff: back to Reading, marked for replay, onto the ring *)
      rewrite (transition_ok (set_replay (set_burst j None) true) st_serving st_reading Hst).
      eapply (enqueue_ok c s _ own sid (PServ (Inline r)) _ []); eauto; try discriminate; try reflexivity; cbn.
      * intros x Hx. apply nth_upd_other; auto.
      * apply upd_length.
      * apply (keep_held c s own sid Hinv). intros r0. rewrite Hp. discriminate.
      * apply (i_held_nd _ _ _ Hinv).
      * intros x w0. rewrite serv_rem_In. cbn. tauto.
      * unfold serv_rem. apply NoDup_map_filter. apply (i_serv_nd _ _ _ Hinv).
      * intros e [].
      * apply (i_log _ _ _ Hinv).
      * split; [exact Hb|]. cbn. repeat split; auto; apply Hfill.
  - (* a staged reply is terminal *)
    cbn in Hbu. rewrite Hbu.
    set (b := c_workers c + r).
    assert (Hpre : exists s2 own2, (if burst_full s b then u_flush c s b else Ok s) = Ok s2 /\ inv c s2 own2 /\
               nth_error own2 sid = Some (PServ (Inline r)) /\ get_slab s2 sid = Some j /\
               (forall b', length (burst_of b' (u_burst s2)) <= length (burst_of b' (u_burst s))) /\
               (N.of_nat (length (burst_of b (u_burst s2))) < udp_tx_max)%N /\ u_wdef s2 = u_wdef s).
    { destruct (burst_full s b) eqn:Efull.
      - destruct (u_flush_inv c s own b Hinv) as (s2 & own2 & E2 & Hinv2 & F & Hnil).
        exists s2, own2. split; auto. split; auto.
        destruct F as (F1 & F2 & F3 & F4 & F5 & F6 & F7 & F8 & F9).
        assert (Hnin : ~ In sid (burst_of b (u_burst s))).
        { intros Hin. apply burst_of_In in Hin. apply (i_burst _ _ _ Hinv) in Hin. congruence. }
        destruct (F2 sid Hnin) as [G1 G2].
        split; [congruence|]. split; [unfold get_slab in *; congruence|]. split; auto.
        split; [rewrite Hnil; cbn; apply tx_max_pos | auto].
      - exists s, own. split; auto. split; auto. split; auto. split; auto. split; auto.
        split; auto. unfold burst_full in Efull. apply N.eqb_neq in Efull.
        pose proof (i_bsize _ _ _ Hinv b). lia. }
    destruct Hpre as (s2 & own2 & E2 & Hinv2 & Hp2 & Hj2 & Hlen2 & Hroom & Hwd2). rewrite E2.
    assert (Hlt2 : sid < length (u_slabs s2)) by (eapply nth_error_lt; eauto).
    pose proof (i_local _ _ _ Hinv2 sid _ j Hp2 Hj2) as [Hb2 (_ & _ & _ & _ & Hlive2 & Hfill2 & Hwr2 & Htag2)].
    unfold burst_add. cbn [u_burst put_slab set_serv set_slabs].
    destruct (N.ltb_spec (N.of_nat (length (burst_of b (u_burst s2)))) udp_tx_max) as [_|Hge]; [|lia].
    exists (upd own2 sid (PBurst b)). split.
    + eapply inv_move with (s := s2) (sid := sid) (pn := PBurst b) (evs := []); eauto; cbn.
      * rewrite !upd_length. apply (i_len _ _ _ Hinv2).
      * eapply upd_own_sid; eauto.
      * intros x Hx. apply nth_upd_other; auto.
      * apply nth_upd_same; auto.
      * intros x Hx. apply nth_upd_other; auto.
      * rewrite upd_length. lia.
      * intros x. rewrite (keep_idle c s2 own2 sid Hinv2) at 1 by (rewrite Hp2; congruence).
        split; [auto | intros [H|[_ H]]; [auto|discriminate]].
      * apply (i_idle_nd _ _ _ Hinv2).
      * intros r0 x. rewrite (keep_held c s2 own2 sid Hinv2) at 1 by (intros r1; rewrite Hp2; discriminate).
        split; [auto | intros [H|[_ H]]; [auto|discriminate]].
      * apply (i_held_nd _ _ _ Hinv2).
      * intros x. rewrite (keep_ready c s2 own2 sid Hinv2) at 1 by (rewrite Hp2; congruence).
        split; [auto | intros [H|[_ H]]; [auto|discriminate]].
      * apply (i_ready_nd _ _ _ Hinv2).
      * intros x w0. rewrite serv_rem_In. cbn. split; [auto | intros [H|[_ H]]; [auto|discriminate]].
      * unfold serv_rem. apply NoDup_map_filter. apply (i_serv_nd _ _ _ Hinv2).
      * intros b0 x. rewrite in_app_iff. cbn. split.
        -- intros [H|[[= <- <-]|[]]]; [left|right; auto].
           apply (keep_burst c s2 own2 sid Hinv2); auto. intros b1. rewrite Hp2. discriminate.
        -- intros [[H _]|[-> [= <-]]]; auto.
      * rewrite map_app. cbn. apply NoDup_app_one; [apply (i_burst_nd _ _ _ Hinv2)|].
        apply (notin_burst c s2 own2 sid Hinv2). intros b1. rewrite Hp2. discriminate.
      * intros e [].
      * apply (i_log _ _ _ Hinv2).
      * split; [exact Hb2|]. cbn.
        split; [exact Hst|]. split; [lia|]. split; [exact Hlive2|]. split; [exact Hfill2|]. split; [exact Hwr2|].
        eapply (tags_ok_le j); [|exact Htag2]. lia.
      * intros b0. rewrite burst_of_app. destruct (Nat.eqb_spec b b0) as [<-|Hne].
        -- rewrite app_length. cbn. lia.
        -- apply (i_bsize _ _ _ Hinv2).
      * intros w0 Hw0. rewrite burst_of_app. destruct (Nat.eqb_spec b w0) as [<-|Hne].
        -- (* a reader's slot is not a worker's: the default-branch mark never names it *)
           exfalso. rewrite Hwd2 in Hw0. pose proof (proj1 (i_wdef _ _ _ Hinv _ Hw0)) as Hl. unfold b in Hl. lia.
        -- apply (i_wdef _ _ _ Hinv2); auto.
    + intros b0 Hb0. cbn. rewrite burst_of_app. destruct (Nat.eqb_spec b b0) as [<-|Hne].
      * unfold b in Hb0. lia.
      * specialize (Hlen2 b0). specialize (Hws b0 Hb0). lia.
Qed.
