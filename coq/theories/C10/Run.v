(* C10 — correspondence: the case type and the two checkers evaluated with vm_compute on what
   the Go drivers recorded.
   check_case: the model computes what the implementation did.
   spec_case : what the implementation did satisfies the property, judged WITHOUT the automata:
               from the packets the clients sent and the bytes the handlers wrote alone. *)
From Sdns Require Export Common.Base Gen.C10 C10.Model C10.ModelStream C10.ModelShare C10.ModelPool C10.ModelChains C10.ModelEdns C10.ModelFlight C10.ModelQuery C10.ModelWriter C10.ModelWrap C10.ModelPack.
Open Scope N_scope.

(* byte strings travel run-length encoded: (count, byte) *)
Definition rle := list (N * N).
Definition unrle (r : rle) : list byte := flat_map (fun p => repeat (snd p) (N.to_nat (fst p))) r.

Inductive hopN := HW (r : rle) | HL | HA (r : rle) | HWL | HF | HP | HM (ulen : N) (r : rle).
Inductive scriptN := SC (inl : list hopN) (handoff : bool) (main : list hopN) (ok : bool).
Definition hop_of (h : hopN) : hop :=
  match h with
  | HW r => HWrite (unrle r) | HL => HLease | HA r => HAppend (unrle r)
  | HWL => HWriteLease | HF => HFlushStaged | HP => HPanic
  | HM u r => HWriteMsg (N.to_nat u) (unrle r)
  end.
Definition script_of_n (s : scriptN) : hscript :=
  match s with SC i h m o => mkScript (map hop_of i) h (map hop_of m) o end.

Inductive uopN :=
| UTake (r sid : N) (got : bool)
| URecvFail (r sid : N)
| URecv (r sid : N) (batch inline : bool) (addr : N) (rx : rle) (sc : scriptN)
| UWork (w : N)
| UFlush (b : N).

(* observed slab at the end: state, txLen, written, replay, rxLen, rawSALen != 0 *)
Definition slab_obs := (N * N * bool * bool * N * bool)%type.

(* one connection of a sequence served on one engine: did it run on the pooled stream the
   previous connection handed back; then the fields of CaseConn *)
Inductive connrec :=
  CR (reused : bool) (frames : list rle) (junk : rle) (scripts : list (N * scriptN)) (reads : list N)
     (budgets : list N) (arms : list bool) (writes : list rle).

(* requests overlapping on job-owned and pooled chains: begin wire-born r on slab j / begin pooled r
   on the chain c that NewChain handed out / r writes / end (Finish) / end (PutChain) *)
Inductive kopN := KBW (r j : N) | KBP (r c : N) | KW (r : N) (bs : rle) | KEW (r : N) | KEP (r : N).

(* the edns writer wrapper of one job slot across requests: every field of the wrapper as the
   last handler saw it (mid) and as the serve left it (post); request facts; path taken
   (0 nothing written, 1 WriteMsg, 2 WriteWire); what the reply's OPT showed of the client *)
Inductive eviewN :=
  EV (opt : bool) (size : N) (do : bool) (cookie : list N) (nsid noedns noad : bool) (udpsize : N)
     (raw : list N) (hasraw keepalive pooled : bool).
Inductive eserveN :=
  ES (qopt qdo : bool) (qcookie : list N) (qnsid qka qcd qad qtcp : bool) (qsize : N) (path : N)
     (mid : eviewN) (rep : option (bool * bool * list N * bool * bool)) (post : eviewN).

(* collapsed lookups: the steps of SingleflightWrapper / singleflight.Group as the driver took them;
   per caller: number, key asked, and what it came back with (call number of the result object,
   the key that call's closure was started for, shared, leader) or nothing *)
Inductive fopN := FJ (k key : N) | FF (c : N) | FG (key : N) | FR (k : N) | FC (k : N).

(* overlapping calls of the real pipelineQueryer.Query: begin q on BufferWriter w and chain c (numbered
   as first seen) / a handler of q writes message m / q's handlers return (the call delivers its
   result) / q's handler panics (the call's defers run, nothing is delivered) *)
Inductive qopN := QB (q w c : N) | QW (q m : N) | QE (q : N) | QX (q : N).

(* write requests entering the chain's base writer: Write(bytes; do they decode; rcode) / WriteMsg(message
   number; rcode; what wire.TryPack yields for it, None = declines) / WriteWire(body; rcode) *)
Inductive wreqN := WB (bs : rle) (ok : bool) (rc : N) | WM (m rc : N) (packed : option rle) | WW (body : rle) (rc : N).

(* overlapping requests on the production chain as the LAST handler sees them: r arrives wrapped by the
   middlewares in front (wrapper identity numbered as first seen, level = its Go type) outermost
   first / r is answered / r's chain unwinds through depth wrappers *)
Inductive xopN := XB (r : N) (wraps : list (N * N)) | XW (r : N) | XE (r depth : N).

(* the pooled pack state under a parked transport write: TryPack for request r borrows state k (numbered by
   the address of the buffer the transport was handed) and packs bs / r's Transport.Write begins / r's
   transport takes the bytes / r's TryPack returns *)
Inductive popN := PP (r k : N) (bs : rle) | PWB (r : N) | PC (r : N) | PR (r : N).

Inductive case :=
  (* sequential operations on the real udpEngine pieces: per client address the datagrams it
     received in order; the slabs at the end; did anything panic *)
| CaseUdp (cap qcap workers : N) (batchtx : bool) (ops : list uopN)
          (recv : list (N * list rle)) (final : list slab_obs) (panicked : bool)
  (* one connection through the real serveConn over a scripted conn: the query frames in order,
     junk after them, handler scripts by query ID, per-Read chunk sizes, per-Write budgets
     (0 = unlimited, k+1 = k bytes), per-SetDeadline results; observed: the chunks written *)
| CaseConn (frames : list rle) (junk : rle) (scripts : list (N * scriptN)) (reads : list N)
           (budgets : list N) (arms : list bool) (writes : list rle)
  (* a pooled chain's writer across requests: Reset(transport) / write; observed emissions
     (transport, bytes) per operation (None: nothing reached a transport) *)
| CaseWriter (ops : list (option N * rle)) (obs : list (option (N * rle)))
  (* connections served one after the other by one engine (pooled tcpStream and slabs) *)
| CaseConnSeq (conns : list connrec)
  (* the chain's base writer right after Chain.Reset / ResetWire on a transport (id, stream?, last
     octet of the client address), whatever the chain served before: observed rcode, stream?,
     address octet, internal, written, directPack, msg != nil, wire != nil *)
| CaseWReset (tid : N) (tcp : bool) (ip : N) (obs : N * bool * N * bool * bool * bool * bool * bool)
  (* consecutive wire-born requests of different clients through the real EDNS.serveWire on ONE
     job-owned wrapper slot *)
| CaseEdns (serves : list eserveN)
  (* interleaved requests on the real Pipeline / Chain objects (slab-owned chains 0..nslabs-1,
     pooled chains numbered as NewChain first hands them out); observed per operation: which
     transport received which bytes (a request's transport is its number) *)
| CaseChains (nslabs : N) (ops : list kopN) (obs : list (option (N * rle)))
  (* n waiters of one shared lookup: result id/body, waiter ids, shared flag, what each waiter's
     caller appended to ITS message right after the return; observed (id, body) each waiter
     holds when all are done, and whether all returned messages are distinct objects *)
| CaseShare (rid : N) (body : rle) (ids : list N) (shared : bool) (edits : list rle) (got : list (N * rle)) (distinct : bool)
  (* callers of the real SingleflightWrapper.TimedDoChanWithRole under a deterministic interleaving *)
| CaseFlight (ops : list fopN) (obs : list (N * N * option (N * N * bool * bool)))
  (* overlapping internal sub-queries; observed, in the order the calls came back: (query, the
     message Query returned or None = ErrNoResponse) *)
| CaseQuery (ops : list qopN) (obs : list (N * option N))
  (* one request on a rebound chain (transport id, stream?, Internal()?, AllowDirectPack?): the write
     requests its handlers issued; observed per request: nothing, or (transport, Some bytes handed to
     Transport.Write | None and the number of the message handed to Transport.WriteMsg); the writer
     at the end: rcode, written, msg != nil, wire != nil *)
  (* observed per operation: for an answer, the request (exchange / stream) that received it *)
| CaseWrap (ops : list xopN) (obs : list (option N))
  (* observed, in the order the transports took them: (request, bytes taken) *)
| CasePack (ops : list popN) (obs : list (N * rle))
| CaseWPath (t : N) (tcp internal direct : bool) (reqs : list wreqN) (obs : list (option (N * option rle * N)))
            (fin : N * bool * bool * bool).

(* ------------------------------------------------------------------ helpers *)
Fixpoint list_eqb {A B} (eqb : A -> B -> bool) (a : list A) (b : list B) : bool :=
  match a, b with
  | [], [] => true
  | x :: xs, y :: ys => eqb x y && list_eqb eqb xs ys
  | _, _ => false
  end.
Definition bytes_eqb := list_eqb N.eqb.
Definition count_bytes (d : list byte) (l : list (list byte)) : nat := length (filter (bytes_eqb d) l).
Fixpoint is_subseq (a b : list (list byte)) : bool :=
  match a, b with
  | [], _ => true
  | _, [] => false
  | x :: xs, y :: ys => if bytes_eqb x y then is_subseq xs ys else is_subseq a ys
  end.

Definition uop_of (o : uopN) : uop :=
  match o with
  | UTake r sid _ => OTake (N.to_nat r) (N.to_nat sid)
  | URecvFail r sid => ORecvFail (N.to_nat r) (N.to_nat sid)
  | URecv r sid batch inline addr rx sc =>
      ORecv (N.to_nat r) (N.to_nat sid) (if batch then RBatch else RPortable) inline addr (unrle rx) (script_of_n sc)
  | UWork w => OWork (N.to_nat w)
  | UFlush b => OFlush (N.to_nat b)
  end.

(* run the recorded operations; [None] = the model panicked or a take disagreed *)
Fixpoint run_uops (c : cfg) (s : ust) (l : list uopN) : option ust :=
  match l with
  | [] => Some s
  | o :: r =>
      let agrees :=
        match o with
        | UTake rd sid got =>
            let can := negb (c_cap c <=? u_leased s) in
            Bool.eqb can got &&
            (negb got || match ustep c s (ATake (N.to_nat rd) (N.to_nat sid)) with Ok _ => true | _ => false end)
        | _ => true
        end in
      if negb agrees then None
      else match usteps c s (plan c s (uop_of o)) with
           | Ok s1 => run_uops c s1 r
           | _ => None
           end
  end.

Definition slab_view (j : slab) : slab_obs :=
  (s_state j, N.of_nat (s_txlen j), s_written j, s_replay j, N.of_nat (length (s_rx j)),
   match s_rawsa j with Some _ => true | None => false end).
Definition slab_obs_eqb (a b : slab_obs) : bool :=
  let '(s1, t1, w1, r1, x1, a1) := a in
  let '(s2, t2, w2, r2, x2, a2) := b in
  (s1 =? s2) && (t1 =? t2) && Bool.eqb w1 w2 && Bool.eqb r1 r2 && (x1 =? x2) && Bool.eqb a1 a2.

(* what the handler of one packet may legitimately have handed the transport: every Write
   argument of both passes and the in-place rejections of that packet *)
Fixpoint written_by (cur : list byte) (l : list hop) : list (list byte) :=
  match l with
  | [] => []
  | HWrite bs :: r => bs :: written_by cur r
  | HWriteMsg _ bs :: r => bs :: written_by cur r
  | HLease :: r => written_by [] r
  | HAppend bs :: r => written_by (cur ++ bs) r
  | HWriteLease :: r => cur :: written_by cur r
  | _ :: r => written_by cur r
  end.
Definition packet_replies (rx : list byte) (sc : hscript) : list (list byte) :=
  written_by [] (h_inline sc) ++ written_by [] (h_main sc) ++ [reject_bytes rx true; reject_bytes rx false].
(* ... and, byte by byte, where in the reply buffer that packet's handler put which bytes
   (a Write lands at offset 0, an append behind the lease built so far) *)
Fixpoint placed_by (off : nat) (l : list hop) : list (nat * list byte) :=
  match l with
  | [] => []
  | HWrite bs :: r => (O, bs) :: placed_by off r
  | HWriteMsg _ bs :: r => (O, bs) :: placed_by off r
  | HLease :: r => placed_by O r
  | HAppend bs :: r => (off, bs) :: placed_by (off + length bs) r
  | _ :: r => placed_by off r
  end.
Definition packet_placed (rx : list byte) (sc : hscript) : list (nat * list byte) :=
  placed_by O (h_inline sc) ++ placed_by O (h_main sc) ++ [(O, reject_bytes rx true); (O, reject_bytes rx false)].
Definition byte_placed (pl : list (nat * list byte)) (i : nat) (b : byte) : bool :=
  existsb (fun p => (fst p <=? i)%nat && (i <? fst p + length (snd p))%nat && (nth (i - fst p) (snd p) 256 =? b)) pl.
(* a datagram is made of one packet's own bytes only: its length is that of one of the
   packet's writes and every byte sits where that packet's handler put it *)
(* the same test for every position of d at once, in one pass per placement (byte_placed looks every
   byte up with nth: quadratic in the datagram length): position i of [placed_mask d (off, bs)] says
   off <= i < off + length bs and bs[i - off] = d[i] *)
Fixpoint eqs (a b : list byte) : list bool :=
  match a, b with
  | x :: a', y :: b' => (x =? y) :: eqs a' b'
  | _, _ => []
  end.
Definition placed_mask (d : list byte) (p : nat * list byte) : list bool :=
  repeat false (fst p) ++ eqs (skipn (fst p) d) (snd p).
Fixpoint or_mask (acc m : list bool) : list bool :=
  match acc with
  | [] => []
  | x :: acc' => match m with [] => acc | y :: m' => (x || y) :: or_mask acc' m' end
  end.
Definition all_placed (pl : list (nat * list byte)) (d : list byte) : bool :=
  forallb (fun b => b) (fold_left or_mask (map (placed_mask d) pl) (repeat false (length d))).
Definition own_bytes_only (d : list byte) (rx : list byte) (sc : hscript) : bool :=
  existsb (bytes_eqb d) (packet_replies rx sc) ||
  (existsb (fun w => (length w =? length d)%nat) (packet_replies rx sc) &&
   all_placed (packet_placed rx sc) d).
Definition client_packets (addr : N) (ops : list uopN) : list (list byte * hscript) :=
  flat_map (fun o => match o with
                     | URecv _ _ _ _ a rx sc => if a =? addr then [(unrle rx, script_of_n sc)] else []
                     | _ => []
                     end) ops.
Definition client_replies (addr : N) (ops : list uopN) : list (list byte) :=
  flat_map (fun p => packet_replies (fst p) (snd p)) (client_packets addr ops).

Definition budget_of (b : N) : option nat := if b =? 0 then None else Some (N.to_nat (b - 1)).

Definition conn_input (frames : list rle) (junk : rle) : list byte :=
  concat (map (fun r => frame (unrle r)) frames) ++ unrle junk.
Definition conn_scripts (scripts : list (N * scriptN)) := map (fun p => (fst p, script_of_n (snd p))) scripts.

Definition has_panic (sc : hscript) : bool := existsb (fun h => match h with HPanic => true | _ => false end) (h_main sc).

Definition opt_emit_eqb (a : option (N * list byte)) (b : option (N * rle)) : bool :=
  match a, b with
  | None, None => true
  | Some (t, bs), Some (t', r) => (t =? t') && bytes_eqb bs (unrle r)
  | _, _ => false
  end.

Definition all_waiters_done (s : lstate) : list (option nat) :=
  map (fun w => match snd w with G2 p => Some p | _ => None end) (l_waiters s).

(* one connection judged on its own (see spec_case) *)
Definition conn_spec (frames : list rle) (junk : rle) (scripts : list (N * scriptN)) (budgets : list N)
                     (arms : list bool) (writes : list rle) : bool :=
  let wire := concat (map unrle writes) in
  let '(fs, rest) := parse_stream wire in
  let scs := conn_scripts scripts in
  let per_frame := map (fun r => let rx := unrle r in (rx, script_of scs rx)) frames in
  let replies := flat_map (fun p => flat_map sop_payloads (fst (frame_sops (fst p) (snd p)))) per_frame in
  let clean := forallb (fun b => b =? 0) budgets && forallb (fun b => b) arms &&
               forallb (fun p => negb (has_panic (snd p))) per_frame &&
               forallb (fun d => N.of_nat (length d) <=? max_msg_size) replies &&
               match junk with [] => true | _ => false end in
  is_subseq fs replies &&
  (negb clean || (list_eqb bytes_eqb fs replies && match rest with [] => true | _ => false end)).

Definition connio_of (c : connrec) : connio :=
  match c with
  | CR reused frames junk scripts reads budgets arms _ =>
      mkConnio reused (conn_input frames junk) (map N.to_nat reads) (conn_scripts scripts) (map budget_of budgets) arms
  end.
Definition connrec_writes (c : connrec) : list (list byte) :=
  match c with CR _ _ _ _ _ _ _ writes => map unrle writes end.

Definition kact_of (o : kopN) : kact :=
  match o with
  | KBW r j => KBeginWire (N.to_nat r) (N.to_nat j)
  | KBP r c => KBeginPool (N.to_nat r) (N.to_nat c)
  | KW r bs => KWrite (N.to_nat r) (unrle bs)
  | KEW r => KEndWire (N.to_nat r)
  | KEP r => KEndPool (N.to_nat r)
  end.
(* every recorded operation must be ENABLED in the model (the pool really held the chain it
   handed out, the slab really was free, ...) and emit what was observed *)
Fixpoint run_kops (s : kst) (ops : list kopN) (obs : list (option (N * rle))) : bool :=
  match ops, obs with
  | [], [] => true
  | o :: r, e :: r' =>
      match kstep s (kact_of o) with
      | None => false
      | Some s1 =>
          let emitted := if (length (k_log s) <? length (k_log s1))%nat
                         then match k_log s1 with (_, t, b) :: _ => Some (t, b) | [] => None end
                         else None in
          opt_emit_eqb emitted e && run_kops s1 r r'
      end
  | _, _ => false
  end.
(* judged without the automaton: a reply reaches the transport of the request that wrote it; a
   chain handed out by NewChain is no slab's chain and is not in use by a request in flight *)
Fixpoint chains_spec (nslabs : N) (users : list (N * N)) (ops : list kopN) (obs : list (option (N * rle))) : bool :=
  match ops, obs with
  | [], [] => true
  | o :: r, e :: r' =>
      let drop q := filter (fun p => negb (fst p =? q)) users in
      match o with
      | KBW q j => match e with None => chains_spec nslabs ((q, j) :: users) r r' | Some _ => false end
      | KBP q c => match e with
                   | None => (nslabs <=? c) && negb (existsb (fun p => snd p =? c) users) && chains_spec nslabs ((q, c) :: users) r r'
                   | Some _ => false
                   end
      | KW q bs => match e with
                   | Some (t, got) => (t =? q) && bytes_eqb (unrle got) (unrle bs) && chains_spec nslabs users r r'
                   | None => chains_spec nslabs users r r'      (* a second write of one request is refused *)
                   end
      | KEW q => match e with None => chains_spec nslabs (drop q) r r' | Some _ => false end
      | KEP q => match e with None => chains_spec nslabs (drop q) r r' | Some _ => false end
      end
  | _, _ => false
  end.

Definition eview_of (s : eslot) : eviewN :=
  EV (e_opt s) (e_size s) (e_do s) (e_cookie s) (e_nsid s) (e_noedns s) (e_noad s) (e_udpsize s)
     (e_cookieraw s) (e_hasraw s) (e_keepalive s) (e_pooled s).
Definition eview_eqb (a b : eviewN) : bool :=
  match a, b with
  | EV o1 s1 d1 c1 n1 ne1 na1 u1 r1 h1 k1 p1, EV o2 s2 d2 c2 n2 ne2 na2 u2 r2 h2 k2 p2 =>
      Bool.eqb o1 o2 && (s1 =? s2) && Bool.eqb d1 d2 && bytes_eqb c1 c2 && Bool.eqb n1 n2 && Bool.eqb ne1 ne2 &&
      Bool.eqb na1 na2 && (u1 =? u2) && bytes_eqb r1 r2 && Bool.eqb h1 h2 && Bool.eqb k1 k2 && Bool.eqb p1 p2
  end.
Definition eobs_eqb (a : eobs) (b : bool * bool * list N * bool * bool) : bool :=
  let '(o, d, c, n, k) := b in
  Bool.eqb (o_opt a) o && Bool.eqb (o_do a) d && bytes_eqb (o_cookie a) c && Bool.eqb (o_nsid a) n && Bool.eqb (o_keepalive a) k.
Definition ereq_of (e : eserveN) : ereq :=
  match e with ES qopt qdo qc qn qk qcd qad qtcp qs _ _ _ _ => mkEreq qopt qdo qc qn qk qcd qad qtcp qs end.
Definition epath_of (n : N) : epath := if n =? 1 then PMsg else if n =? 2 then PWire else PNone.
Fixpoint run_edns (s : eslot) (l : list eserveN) : bool :=
  match l with
  | [] => true
  | (ES _ _ _ _ _ _ _ _ _ path mid rep post) as e :: r =>
      let s1 := e_bind s (ereq_of e) in
      let '(s2, o) := e_reply s1 (epath_of path) in
      let s3 := e_release s2 in
      eview_eqb (eview_of s1) mid &&
      match o, rep with
      | None, None => true
      | Some a, Some b => eobs_eqb a b
      | _, _ => false
      end &&
      eview_eqb (eview_of s3) post && run_edns s3 r
  end.

Definition wview (w : wfull) : N * bool * N * bool * bool * bool * bool * bool :=
  (Z.to_N (wf_rcode w), wf_tcp w, wf_ip w, wf_internal w, negb (wf_size w =? writer_unwritten_size)%Z, wf_direct w, wf_hasmsg w, wf_haswire w).
Definition wview_eqb (a b : N * bool * N * bool * bool * bool * bool * bool) : bool :=
  let '(r1, t1, i1, n1, w1, d1, m1, x1) := a in
  let '(r2, t2, i2, n2, w2, d2, m2, x2) := b in
  (r1 =? r2) && Bool.eqb t1 t2 && (i1 =? i2) && Bool.eqb n1 n2 && Bool.eqb w1 w2 && Bool.eqb d1 d2 && Bool.eqb m1 m2 && Bool.eqb x1 x2.

Definition fop_of (o : fopN) : fop :=
  match o with
  | FJ k key => FJoin (N.to_nat k) key | FF c => FFinish (N.to_nat c) | FG key => FForget key
  | FR k => FRecv (N.to_nat k) | FC k => FCancel (N.to_nat k)
  end.
Definition flight_obs_ok (s : fstate) (o : N * N * option (N * N * bool * bool)) : bool :=
  let '(k, key, r) := o in
  match caller_find (N.to_nat k) (f_callers s), r with
  | Some (FGot c sh ld), Some (c', ckey, sh', ld') =>
      (N.of_nat c =? c') && Bool.eqb sh sh' && Bool.eqb ld ld' &&
      match nth_error (f_calls s) c with Some cl => (fc_key cl =? ckey) && (fc_key cl =? key) | None => false end
  | Some (FCancelled _), None => true
  | _, _ => false
  end.

Definition qop_of (o : qopN) : qop :=
  match o with
  | QB q w c => OQBegin (N.to_nat q) (N.to_nat w) (N.to_nat c)
  | QW q m => OQWrite (N.to_nat q) m
  | QE q => OQEnd (N.to_nat q)
  | QX q => OQPanicEnd (N.to_nat q)
  end.
Definition opt_n_eqb (a b : option N) : bool :=
  match a, b with Some x, Some y => x =? y | None, None => true | _, _ => false end.
Definition qres_eqb (a : nat * option N * option N) (b : N * option N) : bool :=
  let '(q, r, _) := a in (N.of_nat q =? fst b) && opt_n_eqb r (snd b).
(* judged without the automaton: the first message the handlers of q wrote, from the operations alone *)
Fixpoint q_first_write (q : N) (ops : list qopN) : option N :=
  match ops with
  | [] => None
  | QW q' m :: r => if q' =? q then Some m else q_first_write q r
  | _ :: r => q_first_write q r
  end.
(* ... and no writer / chain handed to a query while another query in flight holds it *)
Fixpoint q_disjoint (live : list (N * N * N)) (ops : list qopN) : bool :=
  match ops with
  | [] => true
  | QB q w c :: r =>
      negb (existsb (fun x => let '(q', w', c') := x in (q' =? q) || (w' =? w) || (c' =? c)) live) &&
      q_disjoint ((q, w, c) :: live) r
  | QE q :: r | QX q :: r => q_disjoint (filter (fun x => negb (fst (fst x) =? q)) live) r
  | _ :: r => q_disjoint live r
  end.

Definition wreq_of (r : wreqN) : wreq :=
  match r with
  | WB bs ok rc => RBytes (unrle bs) ok (Z.of_N rc)
  | WM m rc packed => RMsg m (Z.of_N rc) (match packed with Some b => Some (unrle b) | None => None end)
  | WW body rc => RWire (unrle body) (Z.of_N rc)
  end.
Definition tcall_eqb (a : option (N * tcall)) (b : option (N * option rle * N)) : bool :=
  match a, b with
  | None, None => true
  | Some (t, TBytes bs), Some (t', Some r, _) => (t =? t') && bytes_eqb bs (unrle r)
  | Some (t, TMsg m), Some (t', None, m') => (t =? t') && (m =? m')
  | _, _ => false
  end.
(* judged without the automaton: the payload is the request's own *)
Definition own_payload (r : wreqN) (o : N * option rle * N) : bool :=
  match r, o with
  | WB bs true _, (_, Some got, _) => bytes_eqb (unrle got) (unrle bs)
  | WW body _, (_, Some got, _) => bytes_eqb (unrle got) (unrle body)
  | WM m _ _, (_, None, m') => m' =? m
  | WM _ _ (Some body), (_, Some got, _) => bytes_eqb (unrle got) (unrle body)
  | _, _ => false
  end.

Definition xop_of (o : xopN) : xop :=
  match o with
  | XB r wraps => OXBegin (N.to_nat r) (map (fun p => (N.to_nat (fst p), N.to_nat (snd p))) wraps)
  | XW r => OXWrite (N.to_nat r)
  | XE r d => OXEnd (N.to_nat r) (N.to_nat d)
  end.
(* every recorded operation must be ENABLED in the model (the pools really could hand those wrappers
   out at those levels) and an answer must arrive where it was seen to arrive *)
Fixpoint run_xops (s : xst) (ops : list xopN) (obs : list (option N)) : bool :=
  match ops, obs with
  | [], [] => true
  | o :: r, e :: r' =>
      match xsteps_strict s (xplan (xop_of o)) with
      | None => false
      | Some s1 =>
          match o, e with
          | XW q, Some rcv =>
              match x_log s1 with
              | (q', Some (r2, facts)) :: _ =>
                  (N.of_nat q' =? q) && (N.of_nat r2 =? rcv) &&
                  forallb (fun f => match f with Some f' => N.of_nat f' =? q | None => false end) facts &&
                  run_xops s1 r r'
              | _ => false
              end
          | XW _, None => false
          | _, None => run_xops s1 r r'
          | _, Some _ => false
          end
      end
  | _, _ => false
  end.
(* judged without the automaton: an answer arrives at the request that was answered; no wrapper is on
   the chains of two requests in flight; a wrapper keeps its type *)
Fixpoint wraps_spec (live : list (N * list (N * N))) (levels : list (N * N)) (ops : list xopN) (obs : list (option N)) : bool :=
  match ops, obs with
  | [], [] => true
  | XB r wraps :: rest, None :: rest' =>
      forallb (fun p => negb (existsb (fun x => existsb (fun p' => fst p' =? fst p) (snd x)) live) &&
                        forallb (fun l => negb (fst l =? fst p) || (snd l =? snd p)) levels) wraps &&
      (length (nodup N.eq_dec (map fst wraps)) =? length wraps)%nat &&
      wraps_spec ((r, wraps) :: live) (wraps ++ levels) rest rest'
  | XW r :: rest, Some rcv :: rest' => (rcv =? r) && wraps_spec live levels rest rest'
  | XE r _ :: rest, None :: rest' => wraps_spec (filter (fun x => negb (fst x =? r)) live) levels rest rest'
  | _, _ => false
  end.

Definition pop_of (o : popN) : pact :=
  match o with
  | PP r k bs => PPack (N.to_nat r) (N.to_nat k) (unrle bs)
  | PWB r => PWriteBegin (N.to_nat r)
  | PC r => PCopy (N.to_nat r)
  | PR r => PRelease (N.to_nat r)
  end.
Fixpoint packed_for (r : N) (ops : list popN) : option (list byte) :=
  match ops with
  | [] => None
  | PP r' _ bs :: rest => if r' =? r then Some (unrle bs) else packed_for r rest
  | _ :: rest => packed_for r rest
  end.

(* ------------------------------------------------------------------ check_case *)
Definition check_case (c : case) : bool :=
  match c with
  | CaseUdp cap qcap workers batchtx ops recv final panicked =>
      let cf := mkCfg cap (N.to_nat qcap) (N.to_nat workers) batchtx in
      match run_uops cf u_init ops with
      | None => panicked
      | Some s =>
          negb panicked &&
          forallb (fun p => list_eqb bytes_eqb (sent_to (fst p) (u_log s)) (map unrle (snd p))) recv &&
          (* nothing went to an address nobody listens on *)
          forallb (fun e => match e with ESend _ _ a _ => existsb (fun p => fst p =? a) recv | _ => true end) (u_log s) &&
          list_eqb slab_obs_eqb (map slab_view (u_slabs s)) final
      end
  | CaseConn frames junk scripts reads budgets arms writes =>
      let input := conn_input frames junk in
      let f0 := mkFstate 0 [] (mkRconn input (map N.to_nat reads)) in
      let st0 := s_init (map budget_of budgets) arms in
      let '(st, _) := conn_loop (S (length input)) (N.to_nat tcp_drain_size) (N.to_nat tcp_fill_size)
                                (conn_scripts scripts) f0 st0 [] in
      list_eqb bytes_eqb (rev (k_out (t_conn st))) (map unrle writes)
  | CaseConnSeq conns =>
      list_eqb (list_eqb bytes_eqb)
               (conn_seq (N.to_nat tcp_drain_size) (N.to_nat tcp_fill_size) (s_init [] []) (map connio_of conns))
               (map connrec_writes conns)
  | CaseWReset tid tcp ip obs =>
      (* the previous state is irrelevant (writer_reset_forgets): any stand-in will do *)
      wview_eqb (wview (wf_reset (mkWfull 77 true true 300 3 (negb tcp) 9 true true) tid tcp ip)) obs
  | CaseEdns serves => run_edns eslot_zero serves
  | CaseChains nslabs ops obs => run_kops (k_init (N.to_nat nslabs)) ops obs
  | CaseWriter ops obs =>
      let wops := map (fun o => match fst o with Some t => WReset t | None => WWrite (unrle (snd o)) end) ops in
      (* a chain that has never been bound has no transport: the first operation is a Reset *)
      let '(_, es) := w_run (mkWriter 0 writer_reset_size) wops in
      list_eqb opt_emit_eqb es obs
  | CaseShare rid body ids shared edits got distinct =>
      (* every waiter runs to completion and edits its message, one after the other (the
         schedule is irrelevant: shared_lookup_private) *)
      let n := length ids in
      let sched := flat_map (fun i => [LGo i; LGo i; LEdit i (unrle (nth i edits []))]) (seq 0 n) in
      let s := l_run2 0 shared (l_init (mkMsg rid (unrle body)) ids) sched in
      let ps := all_waiters_done s in
      list_eqb (fun p g => match p with
                           | Some q => match nth_error (l_heap s) q with
                                       | Some m => (m_id m =? fst g) && bytes_eqb (m_body m) (unrle (snd g))
                                       | None => false
                                       end
                           | None => false
                           end) ps got &&
      Bool.eqb distinct (shared || (n <=? 1)%nat)
  | CaseFlight ops obs =>
      (* every step the driver took is ENABLED in the model, and every caller came back with
         exactly what the model says: that call's object, that flag, that role — or nothing *)
      match fsteps_strict f_init (map fop_of ops) with
      | Some s => (length (f_callers s) =? length obs)%nat && forallb (flight_obs_ok s) obs
      | None => false
      end
  | CaseQuery ops obs =>
      (* every step the driver took is ENABLED in the model (the pools really could hand those
         objects out), every call came back with what the model says, nothing is left in flight *)
      match qsteps_strict q_init (flat_map qplan (map qop_of ops)) with
      | Some s => list_eqb qres_eqb (rev (q_res s)) obs && match q_live s with [] => true | _ => false end
      | None => false
      end
  | CaseWrap ops obs => run_xops x_init ops obs
  | CasePack ops obs =>
      (* every step ENABLED (the pool really could hand that state out: nobody has it borrowed) and
         every transport took what the model says *)
      match psteps_strict p_init (map pop_of ops) with
      | Some s => list_eqb (fun a b => let '(r, got, _) := a in (N.of_nat r =? fst b) && bytes_eqb got (unrle (snd b)))
                           (rev (p_log s)) obs
      | None => false
      end
  | CaseWPath t tcp internal direct reqs obs fin =>
      (* the previous state is irrelevant (base_writer_every_path_once): any stand-in will do *)
      let '(w, es) := wf_run (wf_bind (mkWfull 77 true true 300 3 (negb tcp) 9 true true) t tcp t internal direct) (map wreq_of reqs) in
      list_eqb tcall_eqb es obs &&
      let '(rc, wr, hm, hw) := fin in
      (Z.to_N (wf_rcode w) =? rc) && Bool.eqb (negb (wf_unwritten w)) wr && Bool.eqb (wf_hasmsg w) hm && Bool.eqb (wf_haswire w) hw
  end.

(* ------------------------------------------------------------------ spec_case *)
Definition spec_case (c : case) : bool :=
  match c with
  | CaseUdp cap qcap workers batchtx ops recv final panicked =>
      (* no panic; every datagram a client received consists of bytes the handler wrote for ONE
         packet THAT client sent (normally: it is one of that packet's Write arguments), and no
         reply is delivered more often than it was written *)
      negb panicked &&
      forallb (fun p =>
                 let got := map unrle (snd p) in
                 let legit := client_replies (fst p) ops in
                 forallb (fun d => existsb (fun q => own_bytes_only d (fst q) (snd q)) (client_packets (fst p) ops) &&
                                   (count_bytes d got <=? Nat.max 1 (count_bytes d legit))%nat) got)
              recv
  | CaseConn frames junk scripts reads budgets arms writes =>
      (* what the client reads parses into whole frames that are, in order, replies to its
         queries in query order; when nothing failed and nothing was refused, all of them *)
      conn_spec frames junk scripts budgets arms writes
  | CaseConnSeq conns =>
      (* ... and so for every connection of a sequence, whatever was served before it on the
         same engine: nothing of an earlier connection's replies shows up in a later one *)
      forallb (fun c => match c with CR _ frames junk scripts _ budgets arms writes =>
                          conn_spec frames junk scripts budgets arms writes end) conns
  | CaseWReset tid tcp ip obs =>
      (* the writer shows the NEW transport's facts and no reply state at all *)
      wview_eqb (0, tcp, ip, false, false, false, false, false) obs
  | CaseEdns serves =>
      (* whatever was served before on that slot: what a reply's OPT shows of the client (OPT at
         all, DO, the client half of COOKIE, NSID, keepalive) is what THIS request carried *)
      forallb (fun e => match e with
                        | ES _ _ _ _ _ _ _ _ _ _ _ (Some b) _ => eobs_eqb (own_facts (ereq_of e)) b
                        | _ => true
                        end) serves
  | CaseChains nslabs ops obs => chains_spec nslabs [] ops obs
  | CaseWriter ops obs =>
      (* every emission goes to the transport of the latest Reset before it, carries the bytes
         of that very write, and the first write after a Reset always gets through *)
      let fix go (cur : option N) (fresh : bool) (ops : list (option N * rle)) (obs : list (option (N * rle))) : bool :=
        match ops, obs with
        | [], [] => true
        | (Some t, _) :: r, None :: r' => go (Some t) true r r'
        | (None, bs) :: r, e :: r' =>
            match e with
            | Some (t, got) =>
                match cur with
                | Some t0 => (t =? t0) && bytes_eqb (unrle got) (unrle bs) && fresh && go cur false r r'
                | None => false
                end
            | None => negb fresh && go cur false r r'
            end
        | _, _ => false
        end in
      go None false ops obs
  | CaseShare rid body ids shared edits got distinct =>
      (* each waiter holds the result's content under its own ID followed by what ITS caller
         appended and nothing else; distinct objects when shared *)
      list_eqb (fun ie g => (fst ie =? fst g) && bytes_eqb (unrle body ++ unrle (snd ie)) (unrle (snd g)))
               (combine ids (edits ++ repeat [] (length ids - length edits))) got &&
      (distinct || (length ids <=? 1)%nat)
  | CaseFlight ops obs =>
      (* judged on the observation alone: a result is the answer to the key its holder asked for;
         two holders of ONE result object were both told it is shared and are not both its
         leader; a holder told "not shared" holds it alone *)
      let held := flat_map (fun o => match o with (k, key, Some (c, ckey, sh, ld)) => [(k, key, c, ckey, sh, ld)] | _ => [] end) obs in
      forallb (fun a => let '(k, key, c, ckey, sh, ld) := a in
                 (key =? ckey) &&
                 forallb (fun b => let '(k2, _, c2, _, sh2, ld2) := b in
                            (k =? k2) || negb (c =? c2) || (sh && sh2 && negb (ld && ld2))) held) held
  | CaseQuery ops obs =>
      (* judged on the observation alone: a call comes back with the first message ITS OWN handlers
         wrote, with "no response" when they wrote none; overlapping calls never hold the same
         BufferWriter or the same chain *)
      forallb (fun o => opt_n_eqb (snd o) (q_first_write (fst o) ops)) obs && q_disjoint [] ops
  | CaseWrap ops obs => wraps_spec [] [] ops obs
  | CasePack ops obs =>
      (* judged on the observation alone: what a request's transport took is the packed form of ITS message *)
      forallb (fun o => match packed_for (fst o) ops with
                        | Some own => bytes_eqb (unrle (snd o)) own
                        | None => false
                        end) obs
  | CaseWPath t tcp internal direct reqs obs fin =>
      (* at most one transport call for the request, to the transport the chain is bound to, carrying
         the payload of the write it answers; a writer that is internal or not a declared byte sink
         hands on the message object of a WriteMsg, never bytes *)
      (length (filter (fun o => match o with Some _ => true | None => false end) obs) <=? 1)%nat &&
      (length reqs =? length obs)%nat &&
      forallb (fun ro => match snd ro with
                         | None => true
                         | Some o => (fst (fst o) =? t) && own_payload (fst ro) o &&
                                     ((direct && negb internal) ||
                                      match fst ro, o with WM _ _ _, (_, Some _, _) => false | _, _ => true end)
                         end) (combine reqs obs)
  end.
