(* C01 — the zone-membership test.  The model's [in_zone] works on label lists; the code's dnsutil.NameInZone works on
   presentation-format strings (cut at the zone's length, demand a separator dot in front, make sure that dot is not an
   escaped one).  Gen/C01.v holds the machine translation [go_NameInZone] (with its helper loop [go_escapedDot_loop1]);
   here the two are proved equal on the presentation of label lists whose labels are non-empty and free of '.' and
   of backslash (what the drivers generate; escaped labels are the subject of the escapedDot guard itself and of C02).
   [in_zone] is what validate_signer, sig_matches_rrset, collect, the signature index, filter_zone and bailiwick rest on. *)
From Sdns Require Import Common.Base Common.GoList Gen.C01 C01.Model C01.Proofs_sig.
Open Scope N_scope.

Lemma split_at_sep {A} (c : A) : forall x x' y y',
  ~ In c x -> x ++ c :: y = x' ++ c :: y' ->
  (x = x' /\ y = y') \/ exists w, x' = x ++ c :: w /\ y = w ++ c :: y'.
Proof.
  induction x as [|a x IH]; intros x' y y' Hc H.
  - destruct x' as [|a' x'']; cbn in H.
    + injection H as ->. left. auto.
    + injection H as <- ->. right. exists x''. auto.
  - destruct x' as [|a' x'']; cbn in H.
    + injection H as -> _. exfalso. apply Hc. left. reflexivity.
    + injection H as <- H. destruct (IH x'' y y') as [[-> ->]|(w & -> & ->)]; [intros Hi; apply Hc; right; exact Hi|exact H| |].
      * left. auto.
      * right. exists w. auto.
Qed.

Lemma list_split_nth {A} (d : A) : forall (s : list A) k, (k < length s)%nat ->
  s = firstn k s ++ nth k s d :: skipn (S k) s.
Proof.
  induction s as [|a s IH]; intros k Hk; [cbn in Hk; lia|].
  destruct k as [|k]; [reflexivity|]. cbn [firstn nth skipn app]. f_equal. apply IH. cbn in Hk. lia.
Qed.

Section Presentation.
  Variable lbl : N -> list N.
  Hypothesis lbl_nonempty : forall l, lbl l <> [].
  Hypothesis lbl_plain : forall l c, In c (lbl l) -> c <> 46 /\ c <> 92.
  Hypothesis lbl_inj : forall a b, lbl a = lbl b -> a = b.

  Definition pres' (n : name) : list N := flat_map (fun l => lbl l ++ [46]) n.
  Definition pres (n : name) : list N := match n with [] => [46] | _ => pres' n end.

  Lemma pres'_cons l n : pres' (l :: n) = lbl l ++ 46 :: pres' n.
  Proof. unfold pres'. cbn [flat_map]. rewrite <- app_assoc. reflexivity. Qed.
  Lemma pres'_app a b : pres' (a ++ b) = pres' a ++ pres' b.
  Proof. unfold pres'. apply flat_map_app. Qed.
  Lemma no_dot l : ~ In 46 (lbl l).
  Proof. intros H. destruct (lbl_plain l 46 H) as [H1 _]. congruence. Qed.

  Lemma pres'_inj : forall a b, pres' a = pres' b -> a = b.
  Proof.
    induction a as [|la a IH]; intros [|lb b] H; [reflexivity| | |].
    - rewrite pres'_cons in H. destruct (lbl lb); discriminate.
    - rewrite pres'_cons in H. destruct (lbl la); discriminate.
    - rewrite !pres'_cons in H.
      destruct (split_at_sep 46 _ _ _ _ (no_dot la) H) as [[Hl Hr]|(w & Hl & _)].
      + f_equal; [apply lbl_inj; exact Hl|apply IH; exact Hr].
      + exfalso. apply (no_dot lb). rewrite Hl. apply in_or_app. right. left. reflexivity.
  Qed.

  (* a dot in the presentation is a label boundary *)
  Lemma dot_is_boundary : forall n A B, pres' n = A ++ 46 :: B ->
    exists n1 n2, n = n1 ++ n2 /\ pres' n1 = A ++ [46] /\ pres' n2 = B.
  Proof.
    induction n as [|l n IH]; intros A B H.
    - destruct A; discriminate.
    - rewrite pres'_cons in H.
      destruct (split_at_sep 46 _ _ _ _ (no_dot l) H) as [[Hl Hr]|(w & Hl & Hr)].
      + exists [l], n. split; [reflexivity|]. split; [|exact Hr].
        rewrite pres'_cons. cbn. rewrite Hl. reflexivity.
      + destruct (IH w B Hr) as (n1 & n2 & -> & H1 & H2).
        exists (l :: n1), n2. split; [reflexivity|]. split; [|exact H2].
        rewrite pres'_cons, H1, Hl. rewrite <- app_assoc. reflexivity.
  Qed.

  Lemma in_zone_iff n z : in_zone n z = true <-> exists n1, n = n1 ++ z.
  Proof.
    unfold in_zone, lastn. split.
    - intros H. apply andb_true_iff in H as [Hl He]. apply name_eqb_eq in He.
      exists (firstn (length n - length z) n). rewrite <- He at 2. symmetry. apply firstn_skipn.
    - intros (n1 & ->). rewrite app_length. apply andb_true_iff. split; [apply Nat.leb_le; lia|].
      replace (length n1 + length z - length z)%nat with (length n1) by lia.
      rewrite skipn_app, skipn_all, Nat.sub_diag. cbn. apply name_eqb_refl.
  Qed.

  Lemma pres'_length_pos l n : (2 <= length (pres' (l :: n)))%nat.
  Proof.
    rewrite pres'_cons, app_length. cbn [length]. pose proof (lbl_nonempty l). destruct (lbl l); [congruence|cbn; lia].
  Qed.

  (* the last two octets of a non-empty presentation: an octet of a label that is not a backslash, then the dot *)
  Lemma pres'_tail : forall n, n <> [] -> exists P b, pres' n = P ++ [b; 46] /\ b <> 92.
  Proof.
    induction n as [|l n IH]; intros Hn; [congruence|].
    rewrite pres'_cons. destruct n as [|l' n'].
    - cbn. destruct (exists_last (lbl_nonempty l)) as (P & b & Hl).
      exists P, b. split; [rewrite Hl, <- app_assoc; reflexivity|].
      apply (lbl_plain l b). rewrite Hl. apply in_or_app. right. left. reflexivity.
    - destruct IH as (P & b & Hp & Hb); [discriminate|].
      exists (lbl l ++ 46 :: P), b. split; [rewrite Hp, <- app_assoc; reflexivity|exact Hb].
  Qed.

  Lemma escapedDot_plain fuel P b rest : (1 <= fuel)%nat -> b <> 92 ->
    go_escapedDot fuel (P ++ b :: 46 :: rest) (go_len P + 1) = Some false.
  Proof.
    intros Hf Hb. unfold go_escapedDot. destruct fuel as [|f]; [lia|].
    cbn [go_escapedDot_loop1].
    replace (go_len P + 1 - 1)%Z with (go_len P) by lia.
    assert (Hi : go_idx 0 (P ++ b :: 46 :: rest) (go_len P) = b).
    { unfold go_idx, go_len. destruct (Z.of_nat (length P) <? 0)%Z eqn:E; [apply Z.ltb_lt in E; lia|].
      rewrite Nat2Z.id. apply nth_middle. }
    rewrite Hi. apply N.eqb_neq in Hb. rewrite Hb, andb_false_r. reflexivity.
  Qed.

  Theorem gen_NameInZone_lemma fuel n z : (1 <= fuel)%nat ->
    go_NameInZone fuel (pres n) (pres z) = Some (in_zone n z).
  Proof.
    intros Hf. unfold go_NameInZone.
    destruct z as [|lz z'].
    - cbn [pres go_list_eqb N.eqb Pos.eqb orb]. 
      assert (in_zone n [] = true) as -> by (apply in_zone_iff; exists n; rewrite app_nil_r; reflexivity).
      reflexivity.
    - set (z := lz :: z') in *. assert (Hpz : pres z = pres' z) by reflexivity. rewrite !Hpz.
      assert (Hz2 : (2 <= length (pres' z))%nat) by apply pres'_length_pos.
      assert (Hne1 : go_list_eqb N.eqb (pres' z) [46] = false).
      { destruct (go_list_eqb N.eqb (pres' z) [46]) eqn:E; [|reflexivity]. apply go_bytes_eqb_eq in E. rewrite E in Hz2. cbn in Hz2. lia. }
      assert (Hne0 : go_list_eqb N.eqb (pres' z) [] = false).
      { destruct (go_list_eqb N.eqb (pres' z) []) eqn:E; [|reflexivity]. apply go_bytes_eqb_eq in E. rewrite E in Hz2. cbn in Hz2. lia. }
      rewrite Hne1, Hne0. cbn [orb].
      destruct n as [|ln n'].
      + cbn [pres]. 
        assert (go_list_eqb N.eqb [46] (pres' z) = false) as ->.
        { destruct (go_list_eqb N.eqb [46] (pres' z)) eqn:E; [|reflexivity]. apply go_bytes_eqb_eq in E. rewrite <- E in Hz2. cbn in Hz2. lia. }
        assert ((go_len [46%N] <=? go_len (pres' z))%Z = true) as ->.
        { apply Z.leb_le. unfold go_len. cbn [length]. lia. }
        assert (in_zone [] z = false) as -> by reflexivity. reflexivity.
      + set (n := ln :: n') in *. assert (Hpn0 : pres n = pres' n) by reflexivity. rewrite !Hpn0.
        destruct (go_list_eqb N.eqb (pres' n) (pres' z)) eqn:Eeq.
        { apply go_bytes_eqb_eq in Eeq. apply pres'_inj in Eeq. rewrite Eeq.
          assert (in_zone z z = true) as -> by (apply in_zone_iff; exists []; reflexivity). reflexivity. }
        assert (Hnz : n <> z).
        { intros ->. assert (go_list_eqb N.eqb (pres' z) (pres' z) = true) by (apply go_bytes_eqb_eq; reflexivity). congruence. }
        destruct (in_zone n z) eqn:Ein.
        * (* n = n1 ++ z with a non-empty n1 *)
          apply in_zone_iff in Ein as (n1 & Hn).
          assert (Hn1 : n1 <> []) by (intros ->; apply Hnz; exact Hn).
          destruct (pres'_tail n1 Hn1) as (P & b & Hp & Hb).
          assert (Hpn : pres' n = P ++ b :: 46 :: pres' z).
          { rewrite Hn, pres'_app, Hp, <- app_assoc. reflexivity. }
          rewrite Hpn.
          assert (Hlen : go_len (P ++ b :: 46 :: pres' z) = (go_len P + 2 + go_len (pres' z))%Z).
          { unfold go_len. rewrite app_length. cbn [length]. lia. }
          assert (Z.leb (go_len (P ++ b :: 46 :: pres' z)) (go_len (pres' z)) = false) as ->.
          { apply Z.leb_gt. rewrite Hlen. pose proof (go_len_nonneg P). lia. }
          cbv zeta.
          replace (Z.sub (go_len (P ++ b :: 46 :: pres' z)) (go_len (pres' z))) with (go_len P + 2)%Z by lia.
          replace (go_len P + 2 - 1)%Z with (go_len P + 1)%Z by lia.
          assert (Hdot : go_idx 0 (P ++ b :: 46 :: pres' z) (go_len P + 1) = 46).
          { unfold go_idx, go_len. destruct (Z.of_nat (length P) + 1 <? 0)%Z eqn:E; [apply Z.ltb_lt in E; lia|].
            replace (Z.to_nat (Z.of_nat (length P) + 1)) with (length (P ++ [b])) by (rewrite app_length; cbn; lia).
            replace (P ++ b :: 46 :: pres' z) with ((P ++ [b]) ++ 46 :: pres' z) by (rewrite <- app_assoc; reflexivity).
            apply nth_middle. }
          assert (Hsl : go_slice_from (P ++ b :: 46 :: pres' z) (go_len P + 2) = pres' z).
          { unfold go_slice_from, go_len.
            replace (Z.to_nat (Z.of_nat (length P) + 2)) with (length (P ++ [b; 46])) by (rewrite app_length; cbn; lia).
            replace (P ++ b :: 46 :: pres' z) with ((P ++ [b; 46]) ++ pres' z) by (rewrite <- app_assoc; reflexivity).
            rewrite skipn_app, skipn_all, Nat.sub_diag. reflexivity. }
          rewrite Hdot, Hsl.
          assert (go_list_eqb N.eqb (pres' z) (pres' z) = true) as -> by (apply go_bytes_eqb_eq; reflexivity).
          cbn [N.eqb Pos.eqb negb orb].
          rewrite (escapedDot_plain fuel P b (pres' z) Hf Hb). reflexivity.
        * (* not below the zone: whichever test refuses, the answer is false *)
          destruct (go_len (pres' n) <=? go_len (pres' z))%Z eqn:Ele; [reflexivity|].
          apply Z.leb_gt in Ele. cbv zeta.
          set (cut := (go_len (pres' n) - go_len (pres' z))%Z).
          destruct (negb (go_idx 0 (pres' n) (cut - 1) =? 46) || negb (go_list_eqb N.eqb (go_slice_from (pres' n) cut) (pres' z))) eqn:Et; [reflexivity|].
          exfalso. apply orb_false_iff in Et as [E1 E2].
          apply negb_false_iff in E1. apply N.eqb_eq in E1. apply negb_false_iff in E2. apply go_bytes_eqb_eq in E2.
          unfold go_len in *. 
          set (k := (length (pres' n) - length (pres' z) - 1)%nat).
          assert (Hk : (k < length (pres' n))%nat) by (unfold k; lia).
          assert (Hcut : Z.to_nat cut = S k) by (unfold cut, k; lia).
          assert (Hcut1 : Z.to_nat (cut - 1) = k) by (unfold cut, k; lia).
          unfold go_idx in E1. destruct (cut - 1 <? 0)%Z eqn:E0; [apply Z.ltb_lt in E0; unfold cut in E0; lia|].
          rewrite Hcut1 in E1. unfold go_slice_from in E2. rewrite Hcut in E2.
          pose proof (list_split_nth 0 (pres' n) k Hk) as Hs. rewrite E1, E2 in Hs.
          destruct (dot_is_boundary n _ _ Hs) as (n1 & n2 & Hn & _ & H2).
          apply pres'_inj in H2. subst n2.
          assert (in_zone n z = true) by (apply in_zone_iff; exists n1; exact Hn). congruence.
  Qed.
End Presentation.
