(* C01 — the descent with QNAME minimisation (Model.descend_m).
   (1) With minimisation off for the walk (nomin, or cfg.QnameMinLevel = 0) it IS Model.descend, whatever the oracle.
   (2) With it on, for EVERY transcript: the delegation cache keeps only handed-down DS sets, and the walk ends in
       answer()'s verdict about the name, in authority()'s verdict about the name or about a SUFFIX of it (the question
       actually asked), in the RFC 8020 cut — NXDOMAIN for the whole name — which exists only on top of an authenticated
       (AD) name-error verdict of authority() about a suffix of the name, in a bare upstream rcode, or in an error.
   (3) AD on the reply of such a walk is one of those verdicts' own AD. *)
From Sdns Require Import Common.Base Gen.C01 C01.Model C01.Proofs_sig C01.Proofs_descent.
Open Scope N_scope.

(* ---- names ---- *)
Lemma lastn_all (n : name) : lastn (length n) n = n.
Proof. unfold lastn. rewrite Nat.sub_diag. reflexivity. Qed.
Lemma length_lastn k (n : name) : (k <= length n)%nat -> length (lastn k n) = k.
Proof. intros H. unfold lastn. rewrite skipn_length. lia. Qed.
Lemma in_zone_refl n : in_zone n n = true.
Proof. unfold in_zone. rewrite Nat.leb_refl, lastn_all, name_eqb_refl. reflexivity. Qed.
Lemma in_zone_lastn k n : (k <= length n)%nat -> in_zone n (lastn k n) = true.
Proof.
  intros H. unfold in_zone. rewrite (length_lastn k n H).
  apply Nat.leb_le in H. rewrite H, name_eqb_refl. reflexivity.
Qed.
Lemma in_zone_strict r z : in_zone r z = true -> name_eqb r z = false -> (length z < length r)%nat.
Proof.
  unfold in_zone. intros H Hn. apply andb_true_iff in H as [Hl He]. apply Nat.leb_le in Hl.
  destruct (Nat.eq_dec (length z) (length r)) as [Heq|]; [|lia].
  rewrite Heq, lastn_all in He. rewrite He in Hn. discriminate.
Qed.
Lemma valid_referral_deeper ns f zone q : valid_referral ns f zone q = true -> (length zone < length (r_owner f))%nat.
Proof.
  unfold valid_referral, progressing. intros H.
  apply andb_true_iff in H as [_ H]. apply andb_true_iff in H as [H _]. apply andb_true_iff in H as [Hz Hn].
  apply in_zone_strict; [exact Hz|apply negb_true_iff; exact Hn].
Qed.

(* the question asked at a level is the name or a suffix of it *)
Lemma minimise_suffix qmin nomin level q : in_zone q (fst (minimise qmin nomin level q)) = true.
Proof.
  unfold minimise.
  destruct ((qmin =? 0)%nat || nomin || (qmin <=? level)%nat || (length q <=? S level)%nat) eqn:Ec; cbn [fst].
  - apply in_zone_refl.
  - apply orb_false_iff in Ec as [_ Ec]. apply Nat.leb_gt in Ec. apply in_zone_lastn. lia.
Qed.
Lemma minimise_off qmin nomin level q : (qmin = 0%nat \/ nomin = true) -> minimise qmin nomin level q = (q, false).
Proof. unfold minimise. intros [-> | ->]; cbn; [reflexivity|rewrite orb_true_r; reflexivity]. Qed.

(* ---- (1) minimisation off: the model of the wave-6 descent ---- *)
Lemma descend_m_off E aggr qmin q t cd : (qmin = 0%nat \/ True) ->
  forall resps level (zone : name) pds dc, (level <= length zone)%nat ->
  descend_m E aggr qmin q t cd true level zone pds dc resps = descend E q t cd zone pds dc resps.
Proof.
  intros _. induction resps as [|resp rest IH]; intros level zone pds dc Hl; [reflexivity|].
  cbn [descend_m descend]. rewrite (minimise_off qmin true level q (or_intror eq_refl)). cbn [fst snd andb].
  destruct (m_ans resp) as [|a0 al]; [|reflexivity].
  destruct (m_ns resp) as [|n0 nl]; [reflexivity|].
  destruct (first_ns (n0 :: nl)) as [f|]; [|reflexivity].
  destruct (has_soa (n0 :: nl)); [reflexivity|].
  destruct (valid_referral (n0 :: nl) f zone q) eqn:Ev; cbn [negb]; [|reflexivity].
  match goal with |- context [validate_delegation ?a ?b ?c ?d ?e ?g] => destruct (validate_delegation a b c d e g) as [e0|ds] end; [reflexivity|].
  pose proof (valid_referral_deeper _ _ _ _ Ev) as Hd.
  replace (length (r_owner f) <? level)%nat with false by (symmetry; apply Nat.ltb_ge; lia).
  destruct (dc_find dc (r_owner f)) as [cached|].
  - apply IH. lia.
  - apply IH. lia.
Qed.

Theorem descent_nomin_is_descend_lemma E aggr qmin q t cd dc resps :
  resolve_from_cache_m E aggr qmin q t cd true dc resps = resolve_from_cache E q t cd dc resps.
Proof.
  unfold resolve_from_cache_m, resolve_from_cache. destruct (search_cache dc q) as [zone pds]. cbn [fst snd].
  apply descend_m_off; [right; exact I|lia].
Qed.

(* ---- (2) what a minimised walk can end with ---- *)
Inductive final_verdict_m (E : env) (q : name) (t : N) (cd : bool) : outcome -> Prop :=
| fvm_answer zone pds resp : handed_down E q cd zone pds ->
    final_verdict_m E q t cd (validate_answer E q t cd resp pds (Some zone))
| fvm_negative zone pds resp mq : handed_down E q cd zone pds -> in_zone q mq = true ->
    final_verdict_m E q t cd (validate_negative E mq t cd resp pds (Some zone))
| fvm_cut zone pds resp mq r : handed_down E q cd zone pds -> in_zone q mq = true ->
    m_rcode resp = RC_NXDOMAIN -> validate_negative E mq t cd resp pds (Some zone) = Accept r -> m_ad r = true ->
    final_verdict_m E q t cd (Accept (requestion r q))
| fvm_bare id rc : rc <> 0 -> rc <> RC_NXDOMAIN -> final_verdict_m E q t cd (Accept (mk_msg id q t rc [] [] false))
| fvm_fail e : final_verdict_m E q t cd (Fail e).

Lemma descend_m_invariant E aggr qmin q t cd : forall resps nomin level zone pds dc,
  handed_down E q cd zone pds -> dc_sound E q cd dc ->
  dc_sound E q cd (dr_cache (descend_m E aggr qmin q t cd nomin level zone pds dc resps)) /\
  final_verdict_m E q t cd (dr_out (descend_m E aggr qmin q t cd nomin level zone pds dc resps)).
Proof.
  induction resps as [|resp rest IH]; intros nomin level zone pds dc Hh Hs; cbn [descend_m].
  - split; [exact Hs|constructor].
  - pose proof (minimise_suffix qmin nomin level q) as Hmq.
    set (mq := fst (minimise qmin nomin level q)) in *.
    set (minimized := snd (minimise qmin nomin level q)).
    assert (Hretry := IH nomin (S level) zone pds dc Hh Hs).
    destruct (m_ans resp) as [|a0 al] eqn:Ea.
    + destruct (m_ns resp) as [|n0 nl] eqn:En.
      * destruct minimized; [exact Hretry|].
        destruct ((m_rcode resp =? RC_NXDOMAIN) || (m_rcode resp =? 0)) eqn:Erc.
        -- cbn. split; [exact Hs|]. eapply (fvm_negative E q t cd zone pds resp q); [exact Hh|apply in_zone_refl].
        -- apply orb_false_iff in Erc as [E3 E0]. apply N.eqb_neq in E3, E0.
           cbn. split; [exact Hs|constructor; assumption].
      * match goal with |- context [match ?c with Some o => _ | None => _ end] => remember c as cut eqn:Ecut end.
        destruct cut as [o|].
        -- (* authority() failed on the minimised name error, or the RFC 8020 cut *)
           cbn. split; [exact Hs|].
           destruct (minimized && (m_rcode resp =? RC_NXDOMAIN) && has_soa (n0 :: nl)) eqn:Ec; [|discriminate].
           apply andb_true_iff in Ec as [Ec _]. apply andb_true_iff in Ec as [_ Erc]. apply N.eqb_eq in Erc.
           destruct (validate_negative E mq t cd resp pds (Some zone)) as [e|r] eqn:Evn.
           ++ injection Ecut as ->. constructor.
           ++ destruct (m_ad r && aggr (m_id resp)) eqn:Ead; [|discriminate].
              injection Ecut as ->. apply andb_true_iff in Ead as [Ead _].
              eapply fvm_cut; [exact Hh|exact Hmq|exact Erc|exact Evn|exact Ead].
        -- clear Ecut.
           destruct (minimized && existsb (fun r : rr => (r_type r =? T_SOA) || (r_type r =? T_CNAME)) (n0 :: nl));
             [exact Hretry|].
           destruct (first_ns (n0 :: nl)) as [f|] eqn:Ef.
           ++ destruct (has_soa (n0 :: nl)).
              ** cbn. split; [exact Hs|]. eapply fvm_negative; [exact Hh|exact Hmq].
              ** destruct (valid_referral (n0 :: nl) f zone q) eqn:Ev; cbn [negb].
                 --- destruct (validate_delegation E cd resp (r_owner f) pds (Some zone)) as [e|ds] eqn:Evd.
                     +++ cbn. split; [exact Hs|constructor].
                     +++ assert (Hnew : handed_down E q cd (r_owner f) ds).
                         { eapply hd_cut; [exact Hh| | |exact Evd]; rewrite En; assumption. }
                         destruct (length (r_owner f) <? level)%nat.
                         *** destruct ((0 <? qmin)%nat && negb nomin).
                             ---- apply IH; [|exact Hs].
                                  pose proof (search_cache_sound E q cd dc Hs q) as Hc. exact Hc.
                             ---- cbn. split; [exact Hs|constructor].
                         *** destruct (dc_find dc (r_owner f)) as [cached|] eqn:Ec.
                             ---- apply IH; [apply Hs; exact Ec|exact Hs].
                             ---- apply IH; [exact Hnew|].
                                  destruct (e_dnssec E && match e_anchors E with [] => true | _ :: _ => false end);
                                    [exact Hs|apply dc_sound_cons; assumption].
                 --- cbn. split; [exact Hs|constructor].
           ++ cbn. split; [exact Hs|]. eapply fvm_negative; [exact Hh|exact Hmq].
    + destruct minimized; [exact Hretry|]. cbn. split; [exact Hs|econstructor; exact Hh].
Qed.

Theorem descent_min_keeps_handed_down_ds_lemma E aggr qmin q t cd nomin dc resps :
  dc_sound E q cd dc ->
  dc_sound E q cd (dr_cache (resolve_from_cache_m E aggr qmin q t cd nomin dc resps)) /\
  final_verdict_m E q t cd (dr_out (resolve_from_cache_m E aggr qmin q t cd nomin dc resps)).
Proof.
  intros Hs. unfold resolve_from_cache_m. apply descend_m_invariant; [|exact Hs].
  exact (search_cache_sound E q cd dc Hs q).
Qed.

(* ---- (3) AD on the reply of a minimised walk ---- *)
Theorem descent_min_ad_rests_on_verdict_lemma E aggr qmin q t cd nomin dc resps m :
  dc_sound E q cd dc ->
  dr_out (resolve_from_cache_m E aggr qmin q t cd nomin dc resps) = Accept m -> m_ad m = true ->
  exists zone pds resp mq, handed_down E q cd zone pds /\ in_zone q zone = true /\ in_zone q mq = true /\
    (validate_answer E q t cd resp pds (Some zone) = Accept m \/
     validate_negative E mq t cd resp pds (Some zone) = Accept m \/
     (exists r, m_rcode resp = RC_NXDOMAIN /\ validate_negative E mq t cd resp pds (Some zone) = Accept r /\
                m_ad r = true /\ m = requestion r q)).
Proof.
  intros Hs Ho Had. destruct (descent_min_keeps_handed_down_ds_lemma E aggr qmin q t cd nomin dc resps Hs) as [_ Hf].
  revert Ho. generalize (dr_out (resolve_from_cache_m E aggr qmin q t cd nomin dc resps)) Hf. clear Hf.
  intros o Hf Ho. destruct Hf as [zone pds resp Hh|zone pds resp mq Hh Hq|zone pds resp mq r Hh Hq Hrc Hv Har|id rc H0 H3|e].
  - exists zone, pds, resp, q. split; [exact Hh|]. split; [eapply handed_down_on_path; exact Hh|].
    split; [apply in_zone_refl|]. left. exact Ho.
  - exists zone, pds, resp, mq. split; [exact Hh|]. split; [eapply handed_down_on_path; exact Hh|].
    split; [exact Hq|]. right. left. exact Ho.
  - exists zone, pds, resp, mq. split; [exact Hh|]. split; [eapply handed_down_on_path; exact Hh|].
    split; [exact Hq|]. right. right. exists r. injection Ho as <-. repeat split; assumption.
  - injection Ho as Hm. rewrite <- Hm in Had. cbn in Had. discriminate.
  - discriminate.
Qed.

(* "missing its denial proof -> SERVFAIL", minimised walks included: every NOERROR / NXDOMAIN reply is answer()'s verdict about
   the name, authority()'s verdict about the name or a suffix of it, or the RFC 8020 cut on top of an authenticated one *)
Theorem descent_min_denial_is_validated_lemma E aggr qmin q t cd nomin dc resps m :
  dc_sound E q cd dc ->
  dr_out (resolve_from_cache_m E aggr qmin q t cd nomin dc resps) = Accept m -> (m_rcode m = 0 \/ m_rcode m = RC_NXDOMAIN) ->
  exists zone pds resp mq, handed_down E q cd zone pds /\ in_zone q zone = true /\ in_zone q mq = true /\
    (validate_answer E q t cd resp pds (Some zone) = Accept m \/
     validate_negative E mq t cd resp pds (Some zone) = Accept m \/
     (exists r, m_rcode resp = RC_NXDOMAIN /\ validate_negative E mq t cd resp pds (Some zone) = Accept r /\
                m_ad r = true /\ m = requestion r q)).
Proof.
  intros Hs Ho Hrc. destruct (descent_min_keeps_handed_down_ds_lemma E aggr qmin q t cd nomin dc resps Hs) as [_ Hf].
  revert Ho. generalize (dr_out (resolve_from_cache_m E aggr qmin q t cd nomin dc resps)) Hf. clear Hf.
  intros o Hf Ho. destruct Hf as [zone pds resp Hh|zone pds resp mq Hh Hq|zone pds resp mq r Hh Hq Hrc' Hv Har|id rc H0 H3|e].
  - exists zone, pds, resp, q. split; [exact Hh|]. split; [eapply handed_down_on_path; exact Hh|].
    split; [apply in_zone_refl|]. left. exact Ho.
  - exists zone, pds, resp, mq. split; [exact Hh|]. split; [eapply handed_down_on_path; exact Hh|].
    split; [exact Hq|]. right. left. exact Ho.
  - exists zone, pds, resp, mq. split; [exact Hh|]. split; [eapply handed_down_on_path; exact Hh|].
    split; [exact Hq|]. right. right. exists r. injection Ho as <-. repeat split; assumption.
  - injection Ho as Hm. rewrite <- Hm in Hrc. cbn in Hrc. destruct Hrc; contradiction.
  - discriminate.
Qed.

(* non-vacuity: minimisation on (level 5), name [3;2;1] below the root, no anchors, CD set (nothing is validated, so the
   shape of the walk shows): the root is asked [1] and refers to [1]; zone [1] is asked [2;1]: a bare NXDOMAIN -> one label
   deeper at the same servers; the full name gets the answer.  With nomin the first question is already the full name. *)
Definition mref : msg := mk_msg 1 [1] 1 0 [] [mk_rr [1] T_NS 1 5 RdOther] false.
Definition mbare : msg := mk_msg 2 [2; 1] 1 RC_NXDOMAIN [] [] false.
Definition mans : msg := mk_msg 3 [3; 2; 1] 1 0 [mk_rr [3; 2; 1] 1 1 6 RdOther] [] false.
Example minimised_walk_retries_after_bare_nxdomain :
  minimise 5 false 0 [3; 2; 1] = ([1], true) /\ minimise 5 false 1 [3; 2; 1] = ([2; 1], true) /\
  minimise 5 false 2 [3; 2; 1] = ([3; 2; 1], false) /\
  dr_out (resolve_from_cache_m E_desc (fun _ => false) 5 [3; 2; 1] 1 true false [] [mref; mbare; mans]) = Accept mans /\
  dr_left (resolve_from_cache_m E_desc (fun _ => false) 5 [3; 2; 1] 1 true false [] [mref; mbare; mans]) = 0%nat /\
  dr_out (resolve_from_cache_m E_desc (fun _ => false) 5 [3; 2; 1] 1 true true [] [mref; mk_msg 2 [3; 2; 1] 1 RC_NXDOMAIN [] [] false; mans])
    = Accept (mk_msg 2 [3; 2; 1] 1 RC_NXDOMAIN [] [] false).
Proof. vm_compute. repeat split; reflexivity. Qed.
