(* C01 — answer_ad_sound is FALSE of the code as it stands (F9): findDS, when the signer differs from
   the owner of the DS set in hand, takes the signer's DS RRset out of a sub-query answer without
   asking whether that answer was itself authenticated.  Below an insecure cut the DS RRset is
   unsigned data (AD=0 in the store); the resolver nevertheless uses it as a trust link and sets
   AD=1 on whatever the key it names has signed. *)
From Sdns Require Import Common.Base Gen.C01 C01.Model C01.Proofs_sig.
Open Scope N_scope.

(* where the DS set that authenticated the signer may legitimately come from *)
Definition ds_provenance_ok (E : env) (s : name) (pds ds : list rr) : Prop :=
  ds = pds \/ ds_from_root_keys E = Ok ds \/
  exists dm, e_ds E s false = LMsg dm /\ m_ad dm = true /\ ds = extract (m_ans dm) (Some s) T_DS.

Definition answer_ad_sound_statement : Prop :=
  forall E qname qtype resp0 pds zone m,
    let resp := bailiwick zone resp0 in
    dname_target resp = None -> m_ad resp0 = false ->
    validate_answer E qname qtype false resp0 pds zone = Accept m -> m_ad m = true ->
    forall s ds, In s (find_signers (e_nrank E) (m_ans resp) qname true) ->
      find_ds E (Some s) qname pds false = Ok ds -> verify_dnssec E s resp ds = (true, None) ->
      ds_provenance_ok E s pds ds.

Section Witness.
  (* parent "p." is signed and anchored through pds; "c.p." is an INSECURE child; "g.c.p." publishes
     keys; everything below the insecure cut is the attacker's to write *)
  Definition p : name := [1].
  Definition g : name := [3; 2; 1].
  Definition q : name := [9; 3; 2; 1].
  Definition pds : list rr := [mk_rr p T_DS 1 1 (RdDS 100 15 2 (DigOf 2 p 257 3 15 1) 1)].
  (* attacker key claiming g's name, material 666 *)
  Definition ds_g := mk_rr g T_DS 1 2 (RdDS 200 15 2 (DigOf 2 g 257 3 15 666) 2).
  Definition ds_msg : msg := mk_msg 1 g T_DS 0 [ds_g] [] false.      (* unsigned, AD = 0 *)
  Definition key_g := mk_rr g T_DNSKEY 1 3 (RdKey 257 3 15 666 200).
  Definition key_msg : msg := mk_msg 2 g T_DNSKEY 0 [key_g] [] false.
  Definition sig_a : sigd :=
    mk_sig 1 15 4 300 2000 1000 200 g (SigBy 666 (Signed 1 15 4 300 2000 1000 200 g q 1 [4])) 1.
  Definition forged : msg :=
    mk_msg 3 q 1 0 [mk_rr q 1 1 4 RdOther; mk_rr q T_RRSIG 1 5 (RdSig sig_a)] [] false.
  Definition anchor := mk_key [] 1 257 3 15 7 300.
  Definition E9 : env :=
    mk_env (fun n => N.of_nat (length n)) 1500%Z true [anchor]
           (fun n _ => if name_eqb n g then LMsg ds_msg else LErr 1)
           (fun n => if name_eqb n g then LMsg key_msg else LErr 2)
           (fun _ _ _ => LErr 3) (fun _ _ _ _ => OErr EDSRecords) (fun _ _ _ _ => WErr EDSRecords).
End Witness.

(* the witness that refuted answer_ad_sound before the repair: the unsigned DS is no longer a trust link, and
   without a proof that the cut above it is insecure the forged answer is refused *)
Lemma f9_witness_refused : validate_answer E9 q 1 false forged pds (Some p) = Fail EDSRecords.
Proof. vm_compute. reflexivity. Qed.
