(* C01 — "including replies later served from caches filled during the same history": the cache as a store of
   verdicts and the alias chase over it.  AD on a composed reply rests on the AD bit of EVERY entry that contributed
   records, each of which is the verdict the resolver filed; the client's flags then apply as for a single entry. *)
From Sdns Require Import Common.Base Gen.C01 C01.Model.
Open Scope N_scope.

Lemma composed_ad_all st owners :
  composed_ad st owners = true -> forall n, In n owners -> exists e, cs_find st n = Some e /\ ce_ad e = true.
Proof.
  unfold composed_ad. intros H n Hn. rewrite forallb_forall in H. specialize (H n Hn).
  unfold stored_ad in H. destruct (cs_find st n) as [e|]; [exists e; split; [reflexivity|exact H]|discriminate].
Qed.

Lemma served_ad_sound_lemma q st owners :
  served_ad q st owners = true ->
  q_cd q = false /\ (q_do q = true \/ q_ad q = true) /\
  forall n, In n owners -> exists e, cs_find st n = Some e /\ ce_ad e = true.
Proof.
  unfold served_ad, client_ad_cached, client_ad, cache_ad, noad. intros H.
  destruct (q_cd q) eqn:Ecd; cbn in H; [discriminate|].
  destruct (q_ad q) eqn:Ead, (q_do q) eqn:Edo; cbn in H; try discriminate;
    (split; [reflexivity|split; [auto|apply composed_ad_all; exact H]]).
Qed.

(* the path the chase follows: every entry on it is in the store, consecutive entries are alias links (the target of one
   is the owner of the next), no name twice, and a complete path ends in terminal data *)
Inductive linked (st : cstore) : list N -> Prop :=
| linked_nil : linked st []
| linked_one n e : cs_find st n = Some e -> linked st [n]
| linked_cons n m rest e : cs_find st n = Some e -> ce_next e = Some m -> linked st (m :: rest) -> linked st (n :: m :: rest).

Lemma walk_head st fuel cur seen p c x rest : walk st fuel cur seen = (p, c) -> p = x :: rest -> x = cur.
Proof.
  destruct fuel as [|f]; cbn [walk]; [intros H; injection H as <- _; discriminate|].
  destruct (existsb (N.eqb cur) seen); [intros H; injection H as <- _; discriminate|].
  destruct (cs_find st cur) as [e|]; [|intros H; injection H as <- _; discriminate].
  destruct (ce_next e) as [t|].
  - destruct (walk st f t (cur :: seen)) as [p' c']. intros H Hp. injection H as <- _. injection Hp as -> _. reflexivity.
  - intros H Hp. injection H as <- _. injection Hp as -> _. reflexivity.
Qed.

Lemma walk_linked_lemma st fuel : forall cur seen p c, walk st fuel cur seen = (p, c) -> linked st p.
Proof.
  induction fuel as [|f IH]; intros cur seen p c; cbn [walk]; [intros H; injection H as <- _; constructor|].
  destruct (existsb (N.eqb cur) seen); [intros H; injection H as <- _; constructor|].
  destruct (cs_find st cur) as [e|] eqn:Ef; [|intros H; injection H as <- _; constructor].
  destruct (ce_next e) as [t|] eqn:En.
  - destruct (walk st f t (cur :: seen)) as [p' c'] eqn:Ew. intros H. injection H as <- _.
    pose proof (IH _ _ _ _ Ew) as Hl.
    destruct p' as [|x rest]; [econstructor; exact Ef|].
    assert (x = t) as -> by (eapply walk_head; [exact Ew|reflexivity]).
    econstructor; eauto.
  - intros H. injection H as <- _. econstructor. exact Ef.
Qed.

Lemma walk_complete_terminal st fuel : forall cur seen p,
  walk st fuel cur seen = (p, true) -> exists l e, p <> [] /\ last p 0 = l /\ cs_find st l = Some e /\ ce_next e = None.
Proof.
  induction fuel as [|f IH]; intros cur seen p; cbn [walk]; [discriminate|].
  destruct (existsb (N.eqb cur) seen); [discriminate|].
  destruct (cs_find st cur) as [e|] eqn:Ef; [|discriminate].
  destruct (ce_next e) as [t|] eqn:En.
  - destruct (walk st f t (cur :: seen)) as [p' c'] eqn:Ew. intros H. injection H as <- ->.
    destruct (IH _ _ _ Ew) as (l & e' & Hne & Hl & Hf & Hn).
    exists l, e'. split; [discriminate|]. split; [|auto].
    destruct p' as [|x r]; [congruence|]. exact Hl.
  - intros H. injection H as <-. exists cur, e. repeat split; auto. discriminate.
Qed.

(* the statement the property makes about replies composed from the caches: AD toward the client on a reply chased over
   the store means the client did not set CD, set DO or AD, and EVERY hop of the chase was filed with AD *)
Theorem chase_ad_every_hop_lemma q st fuel qn path complete :
  walk st fuel qn [] = (path, complete) ->
  forall owners, is_prefix owners path = true -> served_ad q st owners = true ->
  q_cd q = false /\ (q_do q = true \/ q_ad q = true) /\ linked st path /\
  forall n, In n owners -> exists e, cs_find st n = Some e /\ ce_ad e = true.
Proof.
  intros Hw owners _ Hs. destruct (served_ad_sound_lemma q st owners Hs) as (Hc & Hf & Ha).
  split; [exact Hc|]. split; [exact Hf|]. split; [eapply walk_linked_lemma; exact Hw|exact Ha].
Qed.

(* … and every one of those bits is a verdict: with a store filled only by filing resolver outcomes, each hop's entry
   stands for an answer the validator accepted WITH AD (answer_ad_partial / answer_ad_sound then say what that means) *)
Theorem served_ad_rests_on_verdicts_lemma q st owners (filed : N -> outcome) :
  (forall n e, cs_find st n = Some e -> filed_ad (filed n) = Some (ce_ad e)) ->
  served_ad q st owners = true ->
  forall n, In n owners -> exists m, filed n = Accept m /\ m_ad m = true.
Proof.
  intros Hinv Hs n Hn. destruct (served_ad_sound_lemma q st owners Hs) as (_ & _ & Ha).
  destruct (Ha n Hn) as (e & He & Had). specialize (Hinv n e He).
  unfold filed_ad in Hinv. destruct (filed n) as [er|m]; [discriminate|].
  exists m. split; [reflexivity|]. injection Hinv as ->. exact Had.
Qed.

(* what a validating reader can meet: the CD=0 partition holds a bit only after a CD=0 request, and it is the verdict *)
Lemma file_verdict_cd0_lemma v cd a p1 : file_verdict v cd = (Some a, p1) -> cd = false /\ a = v.
Proof. unfold file_verdict. destruct cd; intros H; [discriminate|]. injection H as <- _. auto. Qed.

(* one unauthenticated hop anywhere in the chain takes the AD bit off the composed reply, whatever the client asks *)
Lemma one_bad_hop_no_ad_lemma q st owners n e :
  In n owners -> cs_find st n = Some e -> ce_ad e = false -> served_ad q st owners = false.
Proof.
  intros Hn He Had. destruct (served_ad q st owners) eqn:Es; [|reflexivity].
  destruct (served_ad_sound_lemma q st owners Es) as (_ & _ & Ha). destruct (Ha n Hn) as (e' & He' & Had').
  rewrite He in He'. injection He' as <-. congruence.
Qed.

(* non-vacuity: a two-hop chase, both hops filed with AD, a DO client — and the same with the alias entry unauthenticated *)
Example two_hop_chase :
  let st := [(0, mk_centry true (Some 1) TData); (1, mk_centry true None TData)] in
  walk st 16 0 [] = ([0; 1], true) /\ served_ad (mk_creq false true false) st [0; 1] = true /\
  served_ad (mk_creq false true false) [(0, mk_centry false (Some 1) TData); (1, mk_centry true None TData)] [0; 1] = false /\
  served_ad (mk_creq true true false) st [0; 1] = false.
Proof. vm_compute. repeat split; reflexivity. Qed.
Example looping_chase_is_incomplete :
  walk [(0, mk_centry true (Some 1) TData); (1, mk_centry true (Some 0) TData)] 16 0 [] = ([0; 1], false).
Proof. vm_compute. reflexivity. Qed.

(* ---- the reply composed for a chain that ends, a chain ending in a DENIAL included (session 4) ----
   The entry the chain ends at may hand in no answer record at all — only the rcode and the authority section.  It is
   still one of the responses on the path: "AD is set only when every RRset in the reply was validated". *)
Lemma chase_reply_shape q st fuel qn r :
  chase_reply q st fuel qn = Some r ->
  exists path, walk st fuel qn [] = (path, true) /\ path <> [] /\ cr_ad r = served_ad q st path /\
    cr_answer r ++ cr_auth r = path /\
    ((term_of st (last path 0) = TData /\ cr_auth r = [] /\ cr_rcode r = 0) \/
     (term_of st (last path 0) <> TData /\ cr_auth r = [last path 0] /\
      (cr_rcode r = 3 <-> term_of st (last path 0) = TNxDomain))).
Proof.
  unfold chase_reply. destruct (walk st fuel qn []) as [path c] eqn:Ew. destruct c; [|discriminate].
  intros H. injection H as <-. exists path. split; [reflexivity|].
  destruct (walk_complete_terminal _ _ _ _ _ Ew) as (l & e & Hne & _).
  split; [exact Hne|]. split; [reflexivity|]. cbn [cr_answer cr_auth cr_rcode].
  destruct (term_of st (last path 0)) eqn:Et.
  - split; [apply app_nil_r|]. left. repeat split; reflexivity.
  - split; [symmetry; apply app_removelast_last; exact Hne|]. right.
    split; [discriminate|]. split; [reflexivity|]. split; discriminate.
  - split; [symmetry; apply app_removelast_last; exact Hne|]. right.
    split; [discriminate|]. split; [reflexivity|]. split; reflexivity.
Qed.

(* AD on the composed reply: the client's flags allow it, and EVERY entry that contributed a record — to the answer or
   to the authority section — was filed with AD *)
Theorem chase_reply_ad_sound_lemma q st fuel qn r :
  chase_reply q st fuel qn = Some r -> cr_ad r = true ->
  q_cd q = false /\ (q_do q = true \/ q_ad q = true) /\
  forall n, In n (cr_answer r ++ cr_auth r) -> exists e, cs_find st n = Some e /\ ce_ad e = true.
Proof.
  intros Hr Had. destruct (chase_reply_shape _ _ _ _ _ Hr) as (path & _ & _ & Hs & Hp & _).
  rewrite Hs in Had. destruct (served_ad_sound_lemma _ _ _ Had) as (Hc & Hf & Ha).
  split; [exact Hc|]. split; [exact Hf|]. rewrite Hp. exact Ha.
Qed.

(* a denial at the end of an alias chain: the reply's rcode and authority section are that ONE entry's, it is an entry
   without an alias link, and the reply carries AD only if that denial itself was filed with AD — however many
   authenticated aliases led to it (the statement seeded change C01-12 falsifies) *)
Theorem chased_denial_rests_on_its_own_verdict_lemma q st fuel qn r :
  chase_reply q st fuel qn = Some r -> (cr_auth r <> [] \/ cr_rcode r = 3) ->
  exists l e, cr_auth r = [l] /\ cs_find st l = Some e /\ ce_next e = None /\ ce_term e <> TData /\
              (cr_rcode r = 3 <-> ce_term e = TNxDomain) /\
              (cr_ad r = true -> ce_ad e = true) /\ (ce_ad e = false -> cr_ad r = false).
Proof.
  intros Hr Hneg. destruct (chase_reply_shape _ _ _ _ _ Hr) as (path & Hw & Hne & Hs & Hp & Hk).
  destruct (walk_complete_terminal _ _ _ _ _ Hw) as (l & e & _ & Hl & Hf & Hn).
  destruct Hk as [(Ht & Ha & Hrc)|(Ht & Ha & Hrc)].
  - destruct Hneg as [H|H]; [contradiction|]. rewrite Hrc in H. discriminate.
  - rewrite Hl in *. unfold term_of in Ht, Hrc. rewrite Hf in Ht, Hrc.
    assert (Hin : In l path) by (rewrite <- Hp, Ha; apply in_or_app; right; left; reflexivity).
    assert (Had : cr_ad r = true -> ce_ad e = true).
    { intros H. rewrite Hs in H. destruct (served_ad_sound_lemma _ _ _ H) as (_ & _ & Hall).
      destruct (Hall l Hin) as (e' & He' & Hb). rewrite Hf in He'. injection He' as <-. exact Hb. }
    exists l, e. repeat split; auto; try apply Hrc.
    intros Hb. destruct (cr_ad r); [|reflexivity]. rewrite Had in Hb by reflexivity. discriminate.
Qed.

(* non-vacuity, and the shape C01-12 is about: two authenticated aliases into an UNVALIDATED NXDOMAIN / NODATA — the
   client gets the aliases, the denial's rcode and SOA, and no AD; with the denial validated, AD *)
Example alias_into_unvalidated_denial :
  let q := mk_creq false true false in
  chase_reply q [(0, mk_centry true (Some 1) TData); (1, mk_centry true (Some 2) TData); (2, mk_centry false None TNxDomain)] 16 0
    = Some (mk_creply 3 false [0; 1] [2]) /\
  chase_reply q [(0, mk_centry true (Some 1) TData); (1, mk_centry false None TNoData)] 16 0 = Some (mk_creply 0 false [0] [1]) /\
  chase_reply q [(0, mk_centry true (Some 1) TData); (1, mk_centry true None TNxDomain)] 16 0 = Some (mk_creply 3 true [0] [1]) /\
  chase_reply q [(0, mk_centry true (Some 1) TData); (1, mk_centry true None TData)] 16 0 = Some (mk_creply 0 true [0; 1] []) /\
  chase_reply q [(0, mk_centry true (Some 1) TData); (1, mk_centry true (Some 0) TData)] 16 0 = None.
Proof. vm_compute. repeat split; reflexivity. Qed.
