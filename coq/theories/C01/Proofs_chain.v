(* C01 — the DS -> DNSKEY link.
   chain_sound: a DNSKEY answer accepted by verifyDNSSEC against an authentic DS set contains only the
   zone's own keys.  True of the code since d62d15b (the DNSKEY RRset must verify under a DS-matched
   key).  The validator as it was before that commit is kept below as [verify_dnssec_before_d62d15b]
   with the witness on which it failed (an Example, for the record and for the revert regression). *)
From Sdns Require Import Common.Base Gen.C01 C01.Model C01.Proofs_sig.
Open Scope N_scope.

(* ------------------------------------------------------------- the defect *)
Section Witness.
  Definition zn : name := [7].
  Definition kK := mk_key zn 1 257 3 15 1 1111.     (* the zone's KSK: material 1 *)
  Definition kA := mk_key zn 1 256 3 15 666 2222.   (* the attacker's key: material 666 *)
  Definition rK := mk_rr zn T_DNSKEY 1 10 (RdKey 257 3 15 1 1111).
  Definition rA := mk_rr zn T_DNSKEY 1 11 (RdKey 256 3 15 666 2222).
  Definition ds_parent := [mk_rr zn T_DS 1 20 (RdDS 1111 15 2 (DigOf 2 zn 257 3 15 1) 1)].
  Definition sA : sigd :=
    mk_sig T_DNSKEY 15 1 3600 2000 1000 2222 zn (SigBy 666 (Signed T_DNSKEY 15 1 3600 2000 1000 2222 zn zn 1 [10; 11])) 1.
  Definition forged_keys : msg :=
    mk_msg 1 zn T_DNSKEY 0 [rK; rA; mk_rr zn T_RRSIG 1 12 (RdSig sA)] [] false.
  Definition E0 : env :=
    mk_env (fun _ => 0) 1500%Z true [] (fun _ _ => LErr 0) (fun _ => LErr 0) (fun _ _ _ => LErr 0)
           (fun _ _ _ _ => OErr EDSRecords) (fun _ _ _ _ => WErr EDSRecords).
  (* the only honest material is 1; nothing at all was signed by the zone *)
  Definition honest0 (m : N) : Prop := m = 1.
  Definition zone_signed0 (_ : signed) : Prop := False.
End Witness.

(* verifyDNSSEC as it was before d62d15b: any key of the RRset may sign the RRset *)
Definition verify_dnssec_before_d62d15b (E : env) (signer : name) (resp : msg) (parentDS : list rr) : bool * option err :=
  let own := (m_qtype resp =? T_DNSKEY) && name_eqb (m_qname resp) signer in
  if own && match signer with [] => true | _ => false end then verify_root_keys E resp else
  match (if own then LMsg resp else e_key E signer) with
  | LErr i => (false, Some (ELookup i))
  | LMsg km =>
      let keys := keys_of_msg signer km in
      match keys with
      | [] => (false, Some ENoDNSKEY)
      | _ =>
          match parentDS with
          | [] => (false, Some EDSSetEmpty)
          | _ =>
              match verify_ds keys parentDS with
              | (true, Some _) => (false, None)
              | (false, Some e) => (false, Some e)
              | (_, None) =>
                  if m_qtype resp =? T_RRSIG then (false, None) else
                  match verify_rrsig (e_nrank E) (e_now E) signer keys (m_ans resp) (m_ns resp) with
                  | (_, Some e) => (false, Some e)
                  | (false, None) => (false, None)
                  | (true, None) => (true, None)
                  end
              end
          end
      end
  end.

(* the statement: a DNSKEY response accepted against an authentic DS set yields only the zone's own keys *)
Definition chain_sound_statement (vd : env -> name -> msg -> list rr -> bool * option err) : Prop :=
  forall (honest : N -> Prop) (zone_signed : signed -> Prop) E z resp ds,
    z <> [] -> m_qtype resp = T_DNSKEY -> m_qname resp = z ->
    (forall d k, In d ds -> ds_binds d k -> honest (k_mat k)) ->
    unforgeable honest zone_signed (m_ans resp ++ m_ns resp) ->
    (forall c a l o e i t sg ow cl rds, zone_signed (Signed c a l o e i t sg ow cl rds) -> c = T_DNSKEY ->
       forall r k, In r (m_ans resp) -> In (r_id r) rds -> key_of r = Some k -> honest (k_mat k)) ->
    vd E z resp ds = (true, None) ->
    forall k, In k (keys_of_msg z resp) -> honest (k_mat k).

Lemma old_variant_refuted : ~ chain_sound_statement verify_dnssec_before_d62d15b.
Proof.
  intros H.
  assert (Hk : honest0 (k_mat kA)).
  { apply (H honest0 zone_signed0 E0 zn forged_keys ds_parent).
    - discriminate.
    - reflexivity.
    - reflexivity.
    - intros d k [<-|[]] (tag & alg & dt & dg & rk & Hrd & _ & _ & _ & _ & _ & _ & _ & _ & Hdg).
      cbn in Hrd. injection Hrd as <- <- <- <- <-. injection Hdg as _ _ _ _ Hm. unfold honest0. congruence.
    - intros r s m sd Hin Hs Hb Hh. unfold honest0 in Hh. subst m.
      cbn in Hin. destruct Hin as [<-|[<-|[<-|[]]]]; cbn in Hs; try discriminate.
      injection Hs as <-. cbn in Hb. discriminate.
    - intros c a l o e i t sg ow cl rds Hz. destruct Hz.
    - vm_compute. reflexivity.
    - vm_compute. right. left. reflexivity. }
  unfold honest0 in Hk. cbn in Hk. discriminate.
Qed.

(* --------------------------------------------------------------- the code since d62d15b *)
Lemma ds_binds_b_spec d k : ds_binds_b d k = true -> ds_binds d k.
Proof.
  unfold ds_binds_b, ds_binds. destruct (r_rd d); try discriminate.
  (* the two support predicates are translated Go switches ([if … then true else false]): keep them folded *)
  remember (supported_digest dt) as sd eqn:Esd. remember (supported_alg alg) as sa eqn:Esa. intros H.
  repeat (apply andb_true_iff in H as [H ?]). subst sd sa.
  repeat match goal with
         | H : (_ =? _) = true |- _ => apply N.eqb_eq in H
         | H : name_eqb _ _ = true |- _ => apply name_eqb_eq in H
         | H : digest_eqb _ _ = true |- _ => apply digest_eqb_eq in H
         end.
  exists tag, alg, dt, dg, rank. repeat split; auto.
Qed.
(* the witness of the defect is refused by the repaired validator *)
Lemma current_rejects_witness : verify_dnssec E0 zn forged_keys ds_parent = (false, Some EMissingDNSKEY).
Proof. vm_compute. reflexivity. Qed.

Definition own_query (signer : name) (resp : msg) : bool := (m_qtype resp =? T_DNSKEY) && name_eqb (m_qname resp) signer.
Definition root_own (signer : name) (resp : msg) : bool :=
  own_query signer resp && match signer with [] => true | _ => false end.
Lemma verify_dnssec_inv E signer resp parentDS :
  root_own signer resp = false ->
  verify_dnssec E signer resp parentDS = (true, None) ->
  exists m, (if own_query signer resp then LMsg resp else e_key E signer) = LMsg m /\
    (own_query signer resp = true ->
       verify_rrsig (e_nrank E) (e_now E) signer (ds_matched parentDS (keys_of_msg signer m)) (dnskey_part signer m) [] = (true, None)) /\
    verify_rrsig (e_nrank E) (e_now E) signer (keys_of_msg signer m) (m_ans resp) (m_ns resp) = (true, None).
Proof.
  unfold root_own, own_query. intros Hro.
  unfold verify_dnssec. rewrite Hro.
  destruct ((m_qtype resp =? T_DNSKEY) && name_eqb (m_qname resp) signer) eqn:Eown.
  - intros H. exists resp. split; [reflexivity|].
    remember (keys_of_msg signer resp) as keys eqn:Hkeys.
    destruct keys as [|k0 ks]; [discriminate|].
    destruct parentDS as [|d0 ds]; [discriminate|].
    repeat match type of H with
           | context[match ds_matched ?a ?b with _ => _ end] => destruct (ds_matched a b) eqn:?
           | context[let (_, _) := ?x in _] => destruct x as [? [?|]] eqn:?
           | context[if ?b then _ else _] => destruct b eqn:?
           end; try discriminate.
    all: split; [intros _; reflexivity|reflexivity].
  - destruct (e_key E signer) as [i|m]; [discriminate|].
    intros H. exists m. split; [reflexivity|]. split; [discriminate|].
    remember (keys_of_msg signer m) as keys eqn:Hkeys.
    destruct keys as [|k0 ks]; [discriminate|].
    destruct parentDS as [|d0 ds]; [discriminate|].
    repeat match type of H with
           | context[let (_, _) := ?x in _] => destruct x as [? [?|]] eqn:?
           | context[if ?b then _ else _] => destruct b eqn:?
           end; try discriminate.
    all: reflexivity.
Qed.

Section Fixed.
  Variable honest : N -> Prop.
  Variable zone_signed : signed -> Prop.

  (* what the zone's signer puts under a DNSKEY signature are its own keys *)
  Definition publishes_own_keys (l : list rr) : Prop :=
    forall c a lb o e i t sg ow cl rds, zone_signed (Signed c a lb o e i t sg ow cl rds) -> c = T_DNSKEY ->
      forall r k, In r l -> In (r_id r) rds -> key_of r = Some k -> honest (k_mat k).

  Lemma in_canon_rds set r : In r set -> In (r_id r) (canon_rds set).
  Proof.
    intros H. unfold canon_rds. apply sort_by_in.
    assert (G : forall l x, In x l -> In x (dedup_by N.eqb l)).
    { induction l as [|y l IH]; cbn; intros x Hx; [exact Hx|].
      destruct (existsb (N.eqb y) l) eqn:Ex.
      - destruct Hx as [->|Hx]; [|auto]. apply existsb_exists in Ex as [z [Hz Hyz]]. apply N.eqb_eq in Hyz. subst z. auto.
      - destruct Hx as [->|Hx]; [left; reflexivity|right; auto]. }
    apply G. apply in_map. exact H.
  Qed.

  (* keys the repaired check lets through are the zone's own *)
  Lemma dnskey_rrset_authentic nrank now signer km parentDS :
    (forall d k, In d parentDS -> ds_binds d k -> honest (k_mat k)) ->
    unforgeable honest zone_signed (m_ans km) ->
    publishes_own_keys (m_ans km) ->
    verify_rrsig nrank now signer (ds_matched parentDS (keys_of_msg signer km)) (dnskey_part signer km) [] = (true, None) ->
    forall k, In k (keys_of_msg signer km) -> honest (k_mat k).
  Proof.
    intros Hds Hu Hpub Hv k Hk.
    (* the record carrying k *)
    unfold keys_of_msg in Hk. apply in_flat_map in Hk as [r [Hr Hk]].
    destruct (r_type r =? T_DNSKEY) eqn:Et; [|destruct Hk].
    destruct (key_of r) as [k'|] eqn:Ek; [|destruct Hk].
    destruct (name_eqb (k_owner k') signer && _) eqn:Ec; [|destruct Hk].
    destruct Hk as [<-|[]].
    apply andb_true_iff in Ec as [Eo _].
    assert (Hown : name_eqb (r_owner r) signer = true).
    { unfold key_of in Ek. destruct (r_rd r); try discriminate. injection Ek as <-. exact Eo. }
    assert (Hpart : In r (dnskey_part signer km)).
    { unfold dnskey_part. apply filter_In. split; [exact Hr|]. rewrite Hown, Et. reflexivity. }
    pose proof (verify_rrsig_sound_lemma honest zone_signed nrank now signer _ _ [] Hv) as S.
    destruct S as [Sa _].
    - intros k0 Hk0. unfold ds_matched in Hk0. apply filter_In in Hk0 as [_ Hex].
      apply existsb_exists in Hex as [d [Hd Hb]]. apply ds_binds_b_spec in Hb. eapply Hds; eauto.
    - intros r0 s m sd Hin Hs Hb Hh. rewrite app_nil_r in Hin.
      unfold dnskey_part in Hin. apply filter_In in Hin as [Hin _]. eapply Hu; eauto.
    - assert (Hns : is_sig r = false) by (unfold is_sig; apply N.eqb_eq in Et; rewrite Et; reflexivity).
      assert (Hsy : is_synth (dnames_of signer (dnskey_part signer km) []) r = false).
      { unfold is_synth. unfold key_of in Ek. destruct (r_rd r); try discriminate; reflexivity. }
      destruct (Sa r Hpart Hns Hsy) as [_ [set (Hin & Hall & sr & s & _ & _ & Hzs & _ & Hm)]].
      unfold signed_of in Hzs. destruct set as [|h set']; [destruct Hin|].
      assert (Hh : gk h = gk r).
      { destruct (proj1 (Hall h) (or_introl eq_refl)) as [(_ & _ & G)|([] & _)]. exact G. }
      unfold sig_matches_rrset in Hm.
      repeat (apply andb_true_iff in Hm as [Hm ?]).
      eapply Hpub; [exact Hzs| | exact Hr | apply in_canon_rds; exact Hin | exact Ek].
      match goal with H : (r_type h =? s_cov s) = true |- _ => apply N.eqb_eq in H; rewrite <- H end.
      unfold gk in Hh. injection Hh as _ Ht _. rewrite Ht. apply N.eqb_eq. exact Et.
  Qed.

  (* the DNSKEY answer itself: accept ⇒ every key of its RRset is the zone's own *)
  Lemma keys_fixed_honest E signer resp parentDS :
    root_own signer resp = false -> own_query signer resp = true ->
    (forall d k, In d parentDS -> ds_binds d k -> honest (k_mat k)) ->
    unforgeable honest zone_signed (m_ans resp) -> publishes_own_keys (m_ans resp) ->
    verify_dnssec E signer resp parentDS = (true, None) ->
    forall k, In k (keys_of_msg signer resp) -> honest (k_mat k).
  Proof.
    intros Hnr Hown Hds Hu Hp Hv.
    apply verify_dnssec_inv in Hv as (m & Em & Hv1 & _); [|exact Hnr].
    rewrite Hown in Em. injection Em as <-.
    eapply dnskey_rrset_authentic; eauto.
  Qed.

  (* the repaired verifyDNSSEC: accept ⇒ every RRset of the validated response was signed by the zone,
     provided the keys it used are the zone's own — which the lemma above gives for the DNSKEY answer,
     and which is the invariant of the store for keys fetched through a sub-query *)
  Theorem verify_dnssec_sound_lemma E signer resp parentDS :
    root_own signer resp = false ->
    (forall d k, In d parentDS -> ds_binds d k -> honest (k_mat k)) ->
    (if own_query signer resp
     then unforgeable honest zone_signed (m_ans resp) /\ publishes_own_keys (m_ans resp)
     else forall m, e_key E signer = LMsg m -> forall k, In k (keys_of_msg signer m) -> honest (k_mat k)) ->
    unforgeable honest zone_signed (m_ans resp ++ m_ns resp) ->
    verify_dnssec E signer resp parentDS = (true, None) ->
    let dn := dnames_of signer (m_ans resp) (m_ns resp) in
    (forall r, In r (m_ans resp) -> is_sig r = false -> is_synth dn r = false ->
       in_zone (r_owner r) signer = true /\
       exists set, vouched_set zone_signed (e_now E) signer (m_ans resp) (m_ns resp) dn r set) /\
    (forall r, In r (m_ns resp) -> passes signer dn true r = true ->
       exists set, vouched_set zone_signed (e_now E) signer (m_ans resp) (m_ns resp) dn r set).
  Proof.
    intros Hnr Hds Hsrc Hu Hv dn.
    pose proof Hv as Hv0.
    apply verify_dnssec_inv in Hv as (m & Em & _ & Hv2); [|exact Hnr].
    destruct (own_query signer resp) eqn:Eown.
    - injection Em as <-. destruct Hsrc as [Hu1 Hp].
      assert (Hk : forall k, In k (keys_of_msg signer resp) -> honest (k_mat k))
        by (eapply keys_fixed_honest; eauto).
      exact (verify_rrsig_sound_lemma honest zone_signed _ _ _ _ _ _ Hv2 Hk Hu).
    - exact (verify_rrsig_sound_lemma honest zone_signed _ _ _ _ _ _ Hv2 (Hsrc m Em) Hu).
  Qed.
End Fixed.

(* chain_sound, as stated, holds of the code *)
Lemma chain_sound_lemma : chain_sound_statement verify_dnssec.
Proof.
  intros honest zone_signed E z resp ds Hz Hq Hn Hds Hu Hp Hv k Hk.
  assert (Hown : own_query z resp = true).
  { unfold own_query. rewrite Hq, Hn, N.eqb_refl, name_eqb_refl. reflexivity. }
  assert (Hro : root_own z resp = false).
  { unfold root_own. rewrite Hown. destruct z; [contradiction|reflexivity]. }
  assert (Hu1 : unforgeable honest zone_signed (m_ans resp)).
  { intros r s m sd Hin. apply Hu. apply in_app_iff. left. exact Hin. }
  assert (Hp1 : publishes_own_keys honest zone_signed (m_ans resp)).
  { intros c a lb o e i t sg ow cl rds Hzs Hc r k0 Hr. eapply Hp; eauto. }
  exact (keys_fixed_honest honest zone_signed E z resp ds Hro Hown Hds Hu1 Hp1 Hv k Hk).
Qed.

(* the root's own DNSKEY answer: only configured anchors (flags 257) may sign it *)
Lemma verify_root_keys_sound (honest : N -> Prop) (zone_signed : signed -> Prop) E resp :
  (forall k, In k (e_anchors E) -> honest (k_mat k)) ->
  unforgeable honest zone_signed (m_ans resp ++ m_ns resp) ->
  verify_root_keys E resp = (true, None) ->
  let dn := dnames_of [] (m_ans resp) (m_ns resp) in
  (forall r, In r (m_ans resp) -> is_sig r = false -> is_synth dn r = false ->
     in_zone (r_owner r) [] = true /\
     exists set, vouched_set zone_signed (e_now E) [] (m_ans resp) (m_ns resp) dn r set) /\
  (forall r, In r (m_ns resp) -> passes [] dn true r = true ->
     exists set, vouched_set zone_signed (e_now E) [] (m_ans resp) (m_ns resp) dn r set).
Proof.
  intros Ha Hu Hv. unfold verify_root_keys in Hv.
  destruct (filter (fun k => k_flags k =? root_key_flags) (e_anchors E)) as [|k0 ks] eqn:Ef; [discriminate|].
  rewrite <- Ef in Hv.
  destruct (ds_from_root_keys E); [destruct (filter _ _); discriminate|].
  assert (Hv' : verify_rrsig (e_nrank E) (e_now E) [] (filter (fun k => k_flags k =? root_key_flags) (e_anchors E)) (m_ans resp) (m_ns resp) = (true, None)).
  { rewrite Ef in Hv. rewrite Ef.
    destruct (verify_ds (k0 :: ks) a) as [u [e|]]; [discriminate|].
    destruct (verify_rrsig (e_nrank E) (e_now E) [] (k0 :: ks) (m_ans resp) (m_ns resp)) as [b [e|]] eqn:Ev; [discriminate|].
    destruct b; [reflexivity|].
    exfalso. unfold verify_rrsig in Ev.
    destruct (collect [] _ false (m_ans resp) [] false) as [g1 b1].
    destruct (collect [] _ true (m_ns resp) g1 b1) as [g b2].
    destruct b2; [discriminate|]. destruct g; [discriminate|].
    destruct (filter is_sig (m_ans resp) ++ filter is_sig (m_ns resp)); [discriminate|].
    destruct (check_groups _ _ _ _); discriminate. }
  apply (verify_rrsig_sound_lemma honest zone_signed _ _ _ _ _ _ Hv'); [|exact Hu].
  intros k Hk. apply filter_In in Hk as [Hk _]. auto.
Qed.
