(* C01 — correspondence: case type and the two checkers evaluated with vm_compute on what
   the Go drivers observed.
   check_case: the model computes what the implementation did.
   spec_case : what the implementation did satisfies the specification, stated directly
               (not through the model's control flow). *)
From Sdns Require Export Common.Base Gen.C01 C01.Model.
Open Scope N_scope.

(* ---- environment as data ---- *)
Record envd := mk_envd {
  d_names : list name;                                   (* names in play, in Go string order *)
  d_now : Z; d_dnssec : bool; d_anchors : list key;
  d_ds : list (name * bool * lookup);
  d_key : list (name * lookup);
  d_dname : list (name * N * lookup);
  d_orc : list (N * N * name * name * ores);
  d_wild : list (N * list (N * N) * name * name * wres) }.
    (* message id, (type, rdata id) of the NSEC/NSEC3 records the verifier was run on, next closer, signer, verdict *)

Fixpoint name_index (names : list name) (n : name) (i : N) : N :=
  match names with
  | [] => i
  | x :: r => if name_eqb x n then i else name_index r n (i + 1)
  end.
Fixpoint find_ds_tab (t : list (name * bool * lookup)) (n : name) (cd : bool) : lookup :=
  match t with
  | [] => LErr 99
  | (n', cd', l) :: r => if name_eqb n n' && Bool.eqb cd cd' then l else find_ds_tab r n cd
  end.
Fixpoint find_key_tab (t : list (name * lookup)) (n : name) : lookup :=
  match t with
  | [] => LErr 99
  | (n', l) :: r => if name_eqb n n' then l else find_key_tab r n
  end.
Fixpoint find_dname_tab (t : list (name * N * lookup)) (n : name) (qt : N) : lookup :=
  match t with
  | [] => LErr 98
  | (n', qt', l) :: r => if name_eqb n n' && (qt =? qt') then l else find_dname_tab r n qt
  end.
Fixpoint find_orc_tab (t : list (N * N * name * name * ores)) (k id : N) (subj z : name) : ores :=
  match t with
  | [] => OErr (EOracle 999)
  | (k', id', s', z', o) :: r =>
      if (k =? k') && (id =? id') && name_eqb subj s' && name_eqb z z' then o else find_orc_tab r k id subj z
  end.
Fixpoint pairs_eqb (a b : list (N * N)) : bool :=
  match a, b with
  | [], [] => true
  | (x, y) :: a', (x', y') :: b' => (x =? x') && (y =? y') && pairs_eqb a' b'
  | _, _ => false
  end.
Definition ids (l : list rr) : list (N * N) := map (fun r => (r_type r, r_id r)) l.
Fixpoint find_wild_tab (t : list (N * list (N * N) * name * name * wres)) (id : N) (view : list rr) (nc z : name) : wres :=
  match t with
  | [] => WErr (EOracle 999)
  | (id', v', nc', z', o) :: r =>
      if (id =? id') && pairs_eqb (ids view) v' && name_eqb nc nc' && name_eqb z z' then o else find_wild_tab r id view nc z
  end.
Definition env_of (d : envd) : env :=
  mk_env (fun n => name_index (d_names d) n 0) (d_now d) (d_dnssec d) (d_anchors d)
         (find_ds_tab (d_ds d)) (find_key_tab (d_key d))
         (fun n qt _ => find_dname_tab (d_dname d) n qt)
         (find_orc_tab (d_orc d)) (find_wild_tab (d_wild d)).

(* ---- observations ---- *)
Inductive obs := OFail (e : err) | OAccept (ad : bool) (rcode : N) (ans ns : list (N * N)).  (* (type, rdata id) *)
Inductive obs_ds := ODsFail (e : err) | ODsOk (ds : list (N * N)).

(* ground truth of a lab scenario, computed by the driver from the zone data it generated *)
Record labgt := mk_labgt {
  g_secure : bool;        (* qname lies under an unbroken signed chain from the anchor *)
  g_untampered : bool;    (* no upstream response on the path was altered in this run *)
  g_expect_rcode : N;     (* rcode the zone data dictates *)
  g_have_anchor : bool;
  g_ad_optional : bool }. (* the denial rests on an Opt-Out span: served, but AD must not be expected *)
Record labobs := mk_labobs {
  b_cd : bool; b_do : bool; b_adreq : bool; b_edns : bool;
  b_rcode : N; b_ad : bool; b_ede : bool;
  b_data_ok : bool;       (* every answer record (and negative proof SOA) is in the generated ground truth for that name/type *)
  b_chain_signed : bool } (* every RRset of the reply belongs to a zone signed up to the anchor *).

(* what the client of an alias question got from edns + cache: rcode, AD, owners of the answer records (entry numbers), the
   entries the authority section's records came from, and whether the question fell through to the next handler *)
Record ochase := mk_ochase { oc_rcode : N; oc_ad : bool; oc_owners : list N; oc_auth : list N; oc_miss : bool }.

Inductive case :=
  (* dnssec.VerifyDSWithWork *)
| CaseDS (keys : list key) (dsset : list rr) (unsup : bool) (e : option err)
  (* dnssec.DSMatchedKeys: materials of the keys returned (ascending, distinct) *)
| CaseMatched (keys : list key) (dsset : list rr) (matched : list N)
  (* dnssec.VerifyRRSIGWithWork; names in Go string order *)
| CaseSig (names : list name) (now : Z) (signer : name) (keys : list key) (ans ns : list rr) (ok : bool) (e : option err)
  (* dnssec.VerifyWildcardAnswerForZoneWithWork with the next-closer oracle's answers *)
| CaseWild (ans : list rr) (orc : list (name * wres)) (secure : bool) (e : option err)
  (* dnssec.ValidateSigner *)
| CaseSigner (signer qname : name) (e : option err)
  (* Resolver.findRRSIGSigners *)
| CaseSigners (names : list name) (sect : list rr) (qname : name) (in_answer : bool) (signers : list name)
  (* Resolver.verifyDNSSEC *)
| CaseVerify (d : envd) (signer : name) (resp : msg) (parentDS : list rr) (ok : bool) (e : option err)
  (* Resolver.findDS *)
| CaseFindDS (d : envd) (signer : option name) (qname : name) (parentDS : list rr) (cd : bool) (o : obs_ds)
  (* Resolver.isZoneSecure / provenInsecureDelegation *)
| CaseZoneSecure (d : envd) (qname : name) (parentDS : list rr) (zone : option name) (secure : bool)
| CaseProvenInsecure (d : envd) (zone : option name) (qname : name) (parentDS : list rr) (proven : bool)
  (* Resolver.answer / authority / validateDelegation *)
| CaseAnswer (d : envd) (qname : name) (qtype : N) (cd : bool) (resp : msg) (parentDS : list rr) (zone : option name) (o : obs)
| CaseNegative (d : envd) (qname : name) (qtype : N) (cd : bool) (resp : msg) (parentDS : list rr) (zone : option name) (o : obs)
| CaseDeleg (d : envd) (cd : bool) (resp : msg) (q : name) (parentDS : list rr) (zone : option name) (o : obs_ds)
  (* end to end on loopback: edns + cache + resolver against a scripted hierarchy *)
| CaseLab (g : labgt) (b : labobs)
  (* edns.ResponseWriter (WriteMsg and WriteWire) / cache entry served to a request *)
| CaseClientAD (q : creq) (resp_ad : bool) (observed : bool)
| CaseCacheAD (q : creq) (stored_ad : bool) (observed : bool)
  (* an alias chain answered from several cache entries (one stored verdict per hop) through edns + cache *)
| CaseChainAD (q : creq) (hops : list bool) (observed : bool)
  (* the same over an explicit store: entries with their own AD bit and alias links (straight, looping, re-spelled) *)
| CaseChase (q : creq) (st : cstore) (qname : N) (o : ochase)
  (* a resolver verdict written through the cache's ResponseWriter: what each CD partition holds afterwards *)
| CaseFiled (verdict_ad req_cd : bool) (part0 part1 : option bool)
  (* Resolver.Resolve walking from the root hints: the responses the zones' servers served, in order, and the outcome; what
     the delegation cache then holds per zone (DS set as (type, rdata id) pairs); the same question resolved again *)
| CaseDescent (d : envd) (qname : name) (qtype : N) (cd : bool) (served1 : list msg) (o1 : obs)
              (cache : list (name * option (list (N * N)))) (served2 : list msg) (o2 : obs)
  (* the same with QNAME minimisation as configured: cfg.QnameMinLevel, the nomin argument of Resolve, the ids of the
     minimised name errors that are eligible for the RFC 8020 cut; every served message carries the question it answered *)
| CaseDescentMin (d : envd) (qmin : N) (nomin : bool) (aggr : list N) (qname : name) (qtype : N) (cd : bool)
              (served1 : list msg) (o1 : obs) (cache : list (name * option (list (N * N)))) (served2 : list msg) (o2 : obs).

Definition opt_err_eqb (a b : option err) : bool :=
  match a, b with
  | None, None => true
  | Some x, Some y => err_eqb x y
  | _, _ => false
  end.
Fixpoint names_eqb (a b : list name) : bool :=
  match a, b with
  | [], [] => true
  | x :: a', y :: b' => name_eqb x y && names_eqb a' b'
  | _, _ => false
  end.
Definition obs_eqb (m : outcome) (o : obs) : bool :=
  match m, o with
  | Fail e, OFail e' => err_eqb e e'
  | Accept r, OAccept ad rc a n => Bool.eqb (m_ad r) ad && (m_rcode r =? rc) && pairs_eqb (ids (m_ans r)) a && pairs_eqb (ids (m_ns r)) n
  | _, _ => false
  end.
Definition obs_ds_eqb (m : res (list rr)) (o : obs_ds) : bool :=
  match m, o with
  | Er e, ODsFail e' => err_eqb e e'
  | Ok l, ODsOk l' => pairs_eqb (ids l) l'
  | _, _ => false
  end.
Definition wild_tab (t : list (name * wres)) (n : name) : wres :=
  (fix go t := match t with [] => WErr (EOracle 999) | (n', o) :: r => if name_eqb n n' then o else go r end) t.

Definition check_case (c : case) : bool :=
  match c with
  | CaseDS keys dsset unsup e =>
      let '(u, e') := verify_ds keys dsset in Bool.eqb u unsup && opt_err_eqb e' e
  | CaseMatched keys dsset matched =>
      nlist_eqb (sort_by N.ltb (dedup_by N.eqb (map k_mat (ds_matched dsset keys)))) matched
  | CaseSig names now signer keys ans ns ok e =>
      let '(ok', e') := verify_rrsig (fun n => name_index names n 0) now signer keys ans ns in
      Bool.eqb ok' ok && opt_err_eqb e' e
  | CaseWild ans orc secure e =>
      let '(s', e') := verify_wildcard (wild_tab orc) ans true in
      opt_err_eqb e' e && match e with None => Bool.eqb s' secure | Some _ => true end
  | CaseSigner signer qname e => opt_err_eqb (validate_signer signer qname) e
  | CaseSigners names sect qname ia signers =>
      names_eqb (find_signers (fun n => name_index names n 0) sect qname ia) signers
  | CaseVerify d signer resp pds ok e =>
      let '(ok', e') := verify_dnssec (env_of d) signer resp pds in Bool.eqb ok' ok && opt_err_eqb e' e
  | CaseFindDS d signer qname pds cd o => obs_ds_eqb (find_ds (env_of d) signer qname pds cd) o
  | CaseZoneSecure d qname pds zone s => Bool.eqb (is_zone_secure (env_of d) qname pds zone) s
  | CaseProvenInsecure d zone qname pds p => Bool.eqb (proven_insecure_delegation (env_of d) zone qname pds) p
  | CaseAnswer d qname qtype cd resp pds zone o => obs_eqb (validate_answer (env_of d) qname qtype cd resp pds zone) o
  | CaseNegative d qname qtype cd resp pds zone o => obs_eqb (validate_negative (env_of d) qname qtype cd resp pds zone) o
  | CaseDeleg d cd resp q pds zone o => obs_ds_eqb (validate_delegation (env_of d) cd resp q pds zone) o
  | CaseLab g b =>
      (* an untouched secure hierarchy validates: the zone's rcode, and AD for a client that asked for it *)
      if g_untampered g && g_secure g && g_have_anchor g && negb (b_cd b)
      then (b_rcode b =? g_expect_rcode g) && (if g_ad_optional g then negb (b_ad b) else Bool.eqb (b_ad b) (b_do b || b_adreq b))
      else true
  | CaseClientAD q ad o => Bool.eqb (client_ad q ad) o
  | CaseCacheAD q ad o => Bool.eqb (cache_ad q ad) o
  | CaseChainAD q hops o => Bool.eqb (client_ad_cached q (forallb (fun b => b) hops)) o
  | CaseChase q st qn o =>
      let '(path, complete) := walk st 16 qn [] in
      negb (oc_miss o) &&
      match chase_reply q st 16 qn with
      | Some r => (* the chain ends: in data, or in a denial that brings the rcode and the authority section *)
          (oc_rcode o =? cr_rcode r) && nlist_eqb (oc_owners o) (cr_answer r) && nlist_eqb (oc_auth o) (cr_auth r) &&
          Bool.eqb (oc_ad o) (cr_ad r)
      | None => (* an alias loop: refused, or the records gathered before the revisit — never more than the path holds *)
           ((oc_rcode o =? 2) && nlist_eqb (oc_owners o) [] && negb (oc_ad o)) ||
           ((* an alias onto the question's own name, in whatever spelling, is refused outright (additionalAnswer's first
               comparison, case-folded since a4faf69); a longer loop may hand back the records gathered before the revisit *)
            negb (self_alias st qn) && nlist_eqb (oc_auth o) [] &&
            (oc_rcode o =? 0) && match oc_owners o with [] => false | _ => true end && is_prefix (oc_owners o) path &&
            Bool.eqb (oc_ad o) (served_ad q st (oc_owners o)))
      end
  | CaseFiled v cd p0 p1 =>
      let '(m0, m1) := file_verdict v cd in
      match m0, p0 with Some a, Some b => Bool.eqb a b | None, None => true | _, _ => false end &&
      match m1, p1 with Some a, Some b => Bool.eqb a b | None, None => true | _, _ => false end
  | CaseDescent d q t cd s1 o1 cache s2 o2 =>
      let E := env_of d in
      let r1 := resolve_from_cache E q t cd [] s1 in
      let r2 := resolve_from_cache E q t cd (dr_cache r1) s2 in
      (* the walk consumes exactly what was served and ends as the code did *)
      obs_eqb (dr_out r1) o1 && (dr_left r1 =? 0)%nat &&
      (* the delegation cache holds, per cut crossed, the DS set validate_delegation returned there *)
      forallb (fun zo => match dc_find (dr_cache r1) (fst zo), snd zo with
                         | Some ds, Some l => pairs_eqb (ids ds) l
                         | None, None => true
                         | _, _ => false end) cache &&
      (* the second walk starts at the deepest cached cut with the DS set filed there *)
      obs_eqb (dr_out r2) o2 && (dr_left r2 =? 0)%nat
  | CaseDescentMin d qmin nomin aggr q t cd s1 o1 cache s2 o2 =>
      let E := env_of d in
      let ag := fun id => existsb (N.eqb id) aggr in
      let r1 := resolve_from_cache_m E ag (N.to_nat qmin) q t cd nomin [] s1 in
      let r2 := resolve_from_cache_m E ag (N.to_nat qmin) q t cd nomin (dr_cache r1) s2 in
      obs_eqb (dr_out r1) o1 && (dr_left r1 =? 0)%nat &&
      forallb (fun zo => match dc_find (dr_cache r1) (fst zo), snd zo with
                         | Some ds, Some l => pairs_eqb (ids ds) l
                         | None, None => true
                         | _, _ => false end) cache &&
      obs_eqb (dr_out r2) o2 && (dr_left r2 =? 0)%nat
  end.

(* ---- specification oracles ---- *)
(* "accept ⇒ every validated RRset carries a signature term made with the material of a
   supplied key, bound to it by tag/algorithm/class/owner/protocol 3/ZONE bit, over exactly
   that RRset, inside its validity window" — stated per record, without grouping, sorting or
   candidate filtering *)
Definition same_set (r : rr) (l : list rr) : list rr :=
  filter (fun x => negb (is_sig x) && name_eqb (r_owner x) (r_owner r) && (r_type x =? r_type r) && (r_class x =? r_class r)) l.
Definition vouched (now : Z) (keys : list key) (all : list rr) (r : rr) : bool :=
  let set := same_set r all in
  existsb (fun sr =>
    match sig_of sr with
    | Some s =>
        name_eqb (r_owner sr) (r_owner r) && (s_cov s =? r_type r) && (r_class sr =? r_class r) &&
        valid_period (s_inc s) (s_exp s) now && in_zone (r_owner r) (s_signer s) &&
        (N.to_nat (s_labels s) <=? length (r_owner r))%nat &&
        existsb (fun k => (k_tag k =? s_tag s) && (k_alg k =? s_alg s) && (k_class k =? r_class sr) &&
                          name_eqb (k_owner k) (s_signer s) && (k_proto k =? 3) && zone_bit (k_flags k) &&
                          match s_body s with SigBy m sd => (m =? k_mat k) && signed_eqb sd (signed_of sr s set) | SigJunk _ => false end) keys
    | None => false
    end) all.
Definition synth_ok (signer : name) (all : list rr) (r : rr) : bool :=
  match r_rd r with
  | RdCname t => (r_type r =? T_CNAME) &&
      is_synth_cname (r_owner r) t (filter (fun d => match r_rd d with RdDname _ => in_zone (r_owner d) signer | _ => false end) all)
  | _ => false
  end.
Definition spec_rrsig (now : Z) (signer : name) (keys : list key) (ans ns : list rr) : bool :=
  (* the DNS part of a message is what a section lists apart from the signatures; RRsets are
     identified inside their validation pass (answer ++ authority minus authority NS / foreign) *)
  let pass := filter (fun r => is_sig r || in_zone (r_owner r) signer) ans ++
              filter (fun r => is_sig r || (in_zone (r_owner r) signer && negb (r_type r =? T_NS))) ns in
  forallb (fun r => is_sig r || synth_ok signer (ans ++ ns) r || (in_zone (r_owner r) signer && vouched now keys pass r)) ans &&
  forallb (fun r => is_sig r || (r_type r =? T_NS) || negb (in_zone (r_owner r) signer) || synth_ok signer (ans ++ ns) r || vouched now keys pass r) ns.

Definition SERVFAIL : N := 2.

(* RFC 4035 §5.3.4 on the input, without the model's control flow: AD over an answer that holds wildcard-expanded
   signatures needs ONE ancestor zone of qname, named as signer in the answer, such that every expansion's next closer
   name is denied — authenticated, no Opt-Out span — by NSEC/NSEC3 records of the authority section that lie INSIDE that
   zone (owner and, for NSEC, next name).  Records owned elsewhere were not validated by anybody and prove nothing. *)
Definition wild_expanded (r : rr) : option (name * sigd) :=
  match sig_of r with
  | Some s => if (length (r_owner r) <=? N.to_nat (s_labels s))%nat then None
              else Some (lastn (N.to_nat (s_labels s) + 1) (r_owner r), s)
  | None => None
  end.
Definition spec_wild_denied (d : envd) (qname : name) (resp : msg) : bool :=
  match filter (fun r => match wild_expanded r with Some _ => true | None => false end) (m_ans resp) with
  | [] => true
  | exps =>
      existsb (fun zr => match sig_of zr with
        | Some zs => let z := s_signer zs in
            in_zone qname z &&
            forallb (fun r => match wild_expanded r with
              | Some (nc, _) => match find_wild_tab (d_wild d) (m_id resp) (denial_records (filter_zone (m_ns resp) z)) nc z with
                                | WRes true true => true | _ => false end
              | None => true end) exps
        | None => false end) (m_ans resp)
  end.

Definition spec_case (c : case) : bool :=
  match c with
  | CaseDS keys dsset unsup e =>
      (* success ⇒ some supported DS of the set is the digest of a bound key *)
      match e with
      | None => existsb (fun d => match r_rd d with
                  | RdDS tag alg dt dg _ => supported_digest dt && supported_alg alg &&
                      existsb (fun k => (k_tag k =? tag) && (k_alg k =? alg) && (k_class k =? r_class d) &&
                                        name_eqb (k_owner k) (r_owner d) && (k_proto k =? 3) && zone_bit (k_flags k) &&
                                        digest_eqb dg (DigOf dt (k_owner k) (k_flags k) (k_proto k) (k_alg k) (k_mat k))) keys
                  | _ => false end) dsset
      | Some _ => true
      end
  | CaseMatched keys dsset matched =>
      (* every key handed back is, itself, the preimage of a supported DS of the set and bound to it *)
      forallb (fun m => existsb (fun k => (k_mat k =? m) && existsb (fun d => match r_rd d with
                  | RdDS tag alg dt dg _ => supported_digest dt && supported_alg alg && (k_tag k =? tag) && (k_alg k =? alg) &&
                      (k_class k =? r_class d) && name_eqb (k_owner k) (r_owner d) && (k_proto k =? 3) && zone_bit (k_flags k) &&
                      digest_eqb dg (DigOf dt (k_owner k) (k_flags k) (k_proto k) (k_alg k) (k_mat k))
                  | _ => false end) dsset) keys) matched
  | CaseSig names now signer keys ans ns ok e =>
      if ok then spec_rrsig now signer keys ans ns && match e with None => true | _ => false end
      else match e with Some _ => true | None => false end
  | CaseWild ans orc secure e =>
      (* no error ⇒ every wildcard-expanded signature in the answer has its next closer name denied;
         secure ⇒ every such denial is authenticated *)
      match e with
      | Some _ => true
      | None => forallb (fun r => match sig_of r with
                  | Some s => if (length (r_owner r) <=? N.to_nat (s_labels s))%nat then true else
                              match wild_tab orc (lastn (N.to_nat (s_labels s) + 1) (r_owner r)) with
                              | WRes true a => negb secure || a
                              | _ => false end
                  | None => true end) ans
      end
  | CaseSigner signer qname e => match e with None => in_zone qname signer | Some _ => negb (in_zone qname signer) end
  | CaseSigners _ sect qname ia signers =>
      (* every candidate signer is the SignerName of an RRSIG of that section covering a present RRset *)
      forallb (fun s => existsb (fun r => match sig_of r with Some g => name_eqb (s_signer g) s | None => false end) sect) signers
  | CaseVerify d signer resp pds ok e =>
      (* ok ⇒ a supported DS of the supplied set matches a key of the signer's DNSKEY set *)
      if ok then negb (existsb (fun x => negb (is_ds x)) pds) && has_supported_ds pds else true
  | CaseFindDS _ _ _ _ _ _ => true
  | CaseZoneSecure _ _ pds _ s => if s then has_supported_ds pds else true
  | CaseProvenInsecure _ _ _ _ _ => true
  | CaseAnswer d qname qtype cd resp pds zone o =>
      match o with
      | OAccept ad _ _ _ =>
          (* AD only when not CD, an anchor exists, and some RRSIG in the answer names an ancestor signer *)
          if ad then negb cd && match d_anchors d with [] => false | _ => true end &&
                     existsb (fun r => match sig_of r with Some s => in_zone qname (s_signer s) | None => false end) (m_ans resp) &&
                     spec_wild_denied d qname (bailiwick zone resp)
          else true
      | OFail e => true
      end && (if negb cd && d_dnssec d && match d_anchors d with [] => true | _ => false end
              then match o with OFail ETrustAnchorsUnavailable | OFail (EDnameLeg _) => true | _ => false end else true)
  | CaseNegative d qname qtype cd resp pds zone o =>
      match o with
      | OAccept ad _ _ _ => if ad then negb cd && match d_anchors d with [] => false | _ => true end else true
      | OFail _ => true
      end && (if negb cd && d_dnssec d && match d_anchors d with [] => true | _ => false end
              then match o with OFail ETrustAnchorsUnavailable | OFail EQuestion => true | _ => false end else true)
  | CaseDeleg d cd resp q pds zone o =>
      if negb cd && d_dnssec d && match d_anchors d with [] => true | _ => false end
      then match o with ODsFail ETrustAnchorsUnavailable => true | _ => false end else true
  | CaseLab g b =>
      (* C01 as stated, on the client-visible reply *)
      (* validating client, name under a signed chain: the zone's data or SERVFAIL *)
      (* (a name inside a validated Opt-Out span — g_ad_optional — may be an unsigned delegation left out of the chain: the
         chain is not secure for it, what is served for it WITHOUT AD is outside this clause; AD stays bound below) *)
      (if negb (b_cd b) && g_secure g && negb (g_ad_optional g) && negb (b_rcode b =? SERVFAIL) then b_data_ok b else true) &&
      (* SERVFAIL toward an EDNS client carries an extended error *)
      (if negb (b_cd b) && (b_rcode b =? SERVFAIL) && b_edns b && negb (g_untampered g) then b_ede b else true) &&
      (* AD only over a chain signed up to the anchor, with genuine data *)
      (if b_ad b then b_chain_signed b && b_data_ok b && g_have_anchor g else true) &&
      (* never AD toward CD, or toward a client that set neither DO nor AD *)
      (if b_cd b || (negb (b_do b) && negb (b_adreq b)) then negb (b_ad b) else true) &&
      (* no anchor: SERVFAIL, not unvalidated data *)
      (if negb (g_have_anchor g) && negb (b_cd b) then b_rcode b =? SERVFAIL else true)
  | CaseClientAD q ad o => if o then ad && negb (q_cd q) && (q_do q || q_ad q) else true
  | CaseCacheAD q ad o => if o then ad && negb (q_cd q) else true
  | CaseChainAD q hops o =>
      (* AD toward the client only if EVERY entry the reply was composed from was validated *)
      if o then forallb (fun b => b) hops && negb (q_cd q) && (q_do q || q_ad q) else true
  | CaseChase q st _ o =>
      (* AD toward the client only if EVERY entry a record of the reply came from — answer OR authority section — was filed
         with AD, the client did not set CD and asked with DO or AD; an authenticated NXDOMAIN shows the denial it rests on —
         read off the reply, without walking the store *)
      if oc_ad o then forallb (fun n => match cs_find st n with Some e => ce_ad e | None => false end) (oc_owners o ++ oc_auth o) &&
                      negb (q_cd q) && (q_do q || q_ad q) &&
                      ((oc_rcode o =? 0) || ((oc_rcode o =? 3) && match oc_auth o with [] => false | _ => true end))
      else true
  | CaseFiled v cd p0 p1 =>
      (* a validating (CD=0) reader only ever meets a bit the resolver set for a CD=0 request *)
      match p0 with Some a => negb cd && Bool.eqb a v | None => cd end
  | CaseDescent d q t cd s1 o1 cache s2 o2 | CaseDescentMin d _ _ _ q t cd s1 o1 cache s2 o2 =>
      let ad_of := fun o => match o with OAccept ad _ _ _ => ad | OFail _ => false end in
      let no_data := fun o => match o with OFail _ => true | OAccept _ _ [] [] => true | OAccept _ _ _ _ => false end in
      (* AD on the reply of a walk from the root: the client did not set CD, an anchor exists, and EVERY referral crossed
         handed down a DS RRset for the zone it delegates — read off the transcript, without running any validator *)
      (if ad_of o1 then negb cd && match d_anchors d with [] => false | _ => true end &&
                        forallb (fun m => match m_ans m, first_ns (m_ns m) with
                                          | [], Some f => has_soa (m_ns m) ||
                                                          match extract (m_ns m) (Some (r_owner f)) T_DS with [] => false | _ => true end
                                          | _, _ => true end) s1
       else true) &&
      (* the walk that starts from the delegation cache meets the same servers: it is never MORE authenticated *)
      (if ad_of o2 then ad_of o1 else true) &&
      (* a DS set is filed with a cut only by a walk that had an anchor or whose client set CD *)
      (if negb cd && d_dnssec d && match d_anchors d with [] => true | _ => false end
       then no_data o1 && no_data o2 && forallb (fun zo => match snd zo with None => true | Some _ => false end) cache else true)
  end.
