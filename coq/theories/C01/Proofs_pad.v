(* C01 — authority records owned OUTSIDE the signer's zone are inert for the whole validator, not only for
   the wildcard step: VerifyRRSIG's collect skips them, its signature index ignores their RRSIGs, the DNAME
   collection wants in-zone owners.  Together with [foreign_padding_inert] (Proofs_top) this is why the
   order "filter the authority section to the signer, THEN look for the next-closer denial" in answer() is
   the only place where such records could matter (seeded change C01-7 moved the filter behind the check). *)
From Sdns Require Import Common.Base Gen.C01 C01.Model C01.Proofs_sig C01.Proofs_chain C01.Proofs_top.
Open Scope N_scope.

Definition foreign (signer : name) (l : list rr) : Prop :=
  forall r, In r l -> in_zone (r_owner r) signer = false.

Lemma foreign_app signer a b : foreign signer (a ++ b) <-> foreign signer a /\ foreign signer b.
Proof.
  unfold foreign. split.
  - intros H. split; intros r Hr; apply H; apply in_or_app; [left|right]; exact Hr.
  - intros [Ha Hb] r Hr. apply in_app_or in Hr as [Hr|Hr]; [apply Ha|apply Hb]; exact Hr.
Qed.

Lemma foreign_cons signer x l : foreign signer (x :: l) -> in_zone (r_owner x) signer = false /\ foreign signer l.
Proof. intros H. split; [apply H; left; reflexivity|intros r Hr; apply H; right; exact Hr]. Qed.

Lemma collect_app signer dn fa l1 : forall l2 g bad,
  collect signer dn fa (l1 ++ l2) g bad =
  let '(g', bad') := collect signer dn fa l1 g bad in collect signer dn fa l2 g' bad'.
Proof.
  induction l1 as [|r l1 IH]; intros l2 g bad; [reflexivity|].
  cbn [app collect].
  destruct (is_sig r); [apply IH|].
  destruct ((r_type r =? T_NS) && fa); [apply IH|].
  destruct (match r_rd r with RdCname t => (r_type r =? T_CNAME) && is_synth_cname (r_owner r) t dn | _ => false end); [apply IH|].
  destruct (negb (in_zone (r_owner r) signer)); apply IH.
Qed.

Lemma collect_foreign_authority signer dn l : forall g bad,
  foreign signer l -> collect signer dn true l g bad = (g, bad).
Proof.
  induction l as [|r l IH]; intros g bad Hf; [reflexivity|].
  apply foreign_cons in Hf as [Hr Hl]. cbn [collect].
  destruct (is_sig r); [apply IH; exact Hl|].
  destruct ((r_type r =? T_NS) && true); [apply IH; exact Hl|].
  destruct (match r_rd r with RdCname t => (r_type r =? T_CNAME) && is_synth_cname (r_owner r) t dn | _ => false end); [apply IH; exact Hl|].
  rewrite Hr. cbn [negb]. rewrite orb_false_r. apply IH. exact Hl.
Qed.

Lemma filter_foreign_nil signer (P : rr -> bool) l :
  (forall r, P r = true -> in_zone (r_owner r) signer = true) -> foreign signer l -> filter P l = [].
Proof.
  intros HP. induction l as [|r l IH]; intros Hf; [reflexivity|].
  apply foreign_cons in Hf as [Hr Hl]. cbn [filter].
  destruct (P r) eqn:E; [apply HP in E; congruence|apply IH; exact Hl].
Qed.

Definition sig_index_step (signer : name) (g : list (gkey * list rr)) (sr : rr) : list (gkey * list rr) :=
  match sig_of sr with
  | Some s => if in_zone (r_owner sr) signer then group_add (r_owner sr, s_cov s, r_class sr) sr g else g
  | None => g
  end.

Lemma fold_sig_index_foreign signer l : forall g, foreign signer l -> fold_left (sig_index_step signer) l g = g.
Proof.
  induction l as [|r l IH]; intros g Hf; [reflexivity|].
  apply foreign_cons in Hf as [Hr Hl]. cbn [fold_left]. unfold sig_index_step at 2.
  rewrite Hr. destruct (sig_of r); apply IH; exact Hl.
Qed.

Lemma foreign_filter signer P l : foreign signer l -> foreign signer (filter P l).
Proof. intros H r Hr. apply filter_In in Hr as [Hr _]. apply H. exact Hr. Qed.

Lemma sig_index_padding signer a pre n post :
  foreign signer pre -> foreign signer post ->
  sig_index signer (a ++ pre ++ n ++ post) = sig_index signer (a ++ n).
Proof.
  intros Hp Hq. unfold sig_index. fold (sig_index_step signer).
  rewrite !fold_left_app.
  rewrite (fold_sig_index_foreign signer pre _ Hp).
  rewrite (fold_sig_index_foreign signer post _ Hq). reflexivity.
Qed.

Lemma sort_by_nonempty {A} (lt : A -> A -> bool) l : l <> [] -> sort_by lt l <> [].
Proof.
  intros Hl Hs. destruct l as [|x l]; [congruence|].
  assert (In x (sort_by lt (x :: l))) by (apply sort_by_in; left; reflexivity).
  rewrite Hs in H. contradiction.
Qed.

(* the verdict of VerifyRRSIG is the same with and without foreign padding of the authority section; the
   only thing that can differ is WHICH error a refusal names, in one corner: no RRSIG at all in the message
   proper but one among the padding (ENoSignatures becomes EMissingSigned) *)
Theorem verify_rrsig_ignores_foreign_authority_lemma nrank now signer keys ans ns pre post :
  foreign signer (pre ++ post) ->
  let padded := verify_rrsig nrank now signer keys ans (pre ++ ns ++ post) in
  let plain := verify_rrsig nrank now signer keys ans ns in
  fst padded = fst plain /\ (snd padded = None <-> snd plain = None) /\
  ((filter is_sig (pre ++ post) = [] \/ filter is_sig (ans ++ ns) <> []) -> padded = plain).
Proof.
  intros Hf. apply foreign_app in Hf as [Hp Hq]. cbn zeta.
  unfold verify_rrsig. destruct keys as [|k0 keys']; [split; [reflexivity|split; [tauto|reflexivity]]|].
  set (keys := k0 :: keys').
  set (P := fun r : rr => match r_rd r with RdDname _ => in_zone (r_owner r) signer | _ => false end).
  assert (HP : forall r, P r = true -> in_zone (r_owner r) signer = true).
  { intros r. unfold P. destruct (r_rd r); try discriminate. auto. }
  assert (Hdn : filter P (ans ++ pre ++ ns ++ post) = filter P (ans ++ ns)).
  { rewrite !filter_app. rewrite (filter_foreign_nil signer P pre HP Hp), (filter_foreign_nil signer P post HP Hq).
    rewrite app_nil_r. reflexivity. }
  rewrite Hdn. set (dn := filter P (ans ++ ns)).
  destruct (collect signer dn false ans [] false) as [g1 bad1] eqn:E1.
  assert (Hc : collect signer dn true (pre ++ ns ++ post) g1 bad1 = collect signer dn true ns g1 bad1).
  { rewrite collect_app, (collect_foreign_authority signer dn pre g1 bad1 Hp).
    rewrite collect_app. destruct (collect signer dn true ns g1 bad1) as [g2 bad2].
    apply collect_foreign_authority. exact Hq. }
  rewrite Hc. destruct (collect signer dn true ns g1 bad1) as [g bad] eqn:E2.
  destruct bad; [split; [reflexivity|split; [tauto|reflexivity]]|].
  destruct g as [|g0 g']; [split; [reflexivity|split; [tauto|reflexivity]]|].
  set (gg := g0 :: g').
  rewrite !filter_app.
  set (A := filter is_sig ans). set (N := filter is_sig ns).
  set (PP := filter is_sig pre). set (Q := filter is_sig post).
  assert (Hidx : sig_index signer (A ++ PP ++ N ++ Q) = sig_index signer (A ++ N)).
  { apply sig_index_padding; apply foreign_filter; assumption. }
  destruct (A ++ N) as [|s0 sl] eqn:EAN.
  - (* no RRSIG in the message proper *)
    apply app_eq_nil in EAN as [EA EN]. rewrite EA, EN. cbn [app].
    destruct (PP ++ Q) as [|p0 pl] eqn:EPQ.
    + split; [reflexivity|split; [tauto|reflexivity]].
    + assert (Hi : sig_index signer (p0 :: pl) = []).
      { rewrite <- EPQ. unfold sig_index. fold (sig_index_step signer). rewrite fold_left_app.
        rewrite (fold_sig_index_foreign signer PP [] (foreign_filter signer is_sig pre Hp)).
        apply fold_sig_index_foreign. apply foreign_filter. exact Hq. }
      rewrite Hi.
      destruct (sort_by (fun a b => gkey_lt nrank (fst a) (fst b)) gg) as [|[kk set] rest] eqn:Es.
      { exfalso. apply (sort_by_nonempty (fun a b => gkey_lt nrank (fst a) (fst b)) gg); [discriminate|exact Es]. }
      cbn [check_groups group_find].
      split; [reflexivity|]. split; [split; discriminate|].
      intros [Hno|Hsome].
      * discriminate Hno.
      * exfalso. apply Hsome. reflexivity.
  - assert (Hne : A ++ PP ++ N ++ Q <> []).
    { intros Hn. apply app_eq_nil in Hn as [HA Hn]. apply app_eq_nil in Hn as [_ Hn]. apply app_eq_nil in Hn as [HN _].
      rewrite HA, HN in EAN. discriminate. }
    destruct (A ++ PP ++ N ++ Q) as [|x xs] eqn:EX; [congruence|].
    rewrite Hidx. split; [reflexivity|]. split; [tauto|]. intros _. reflexivity.
Qed.

(* ---- the same for verifyDNSSEC, the per-signer loop and answer() as a whole ---- *)
Definition pad_ns (resp : msg) (pre post : list rr) : msg :=
  mk_msg (m_id resp) (m_qname resp) (m_qtype resp) (m_rcode resp) (m_ans resp) (pre ++ m_ns resp ++ post) (m_ad resp).

Lemma verify_rrsig_pad nrank now signer keys ans ns pre post :
  foreign signer (pre ++ post) -> filter is_sig (pre ++ post) = [] ->
  verify_rrsig nrank now signer keys ans (pre ++ ns ++ post) = verify_rrsig nrank now signer keys ans ns.
Proof.
  intros Hf Hs.
  destruct (verify_rrsig_ignores_foreign_authority_lemma nrank now signer keys ans ns pre post Hf) as (_ & _ & H).
  apply H. left. exact Hs.
Qed.

Lemma verify_root_keys_pad E resp pre post :
  foreign [] (pre ++ post) -> filter is_sig (pre ++ post) = [] ->
  verify_root_keys E (pad_ns resp pre post) = verify_root_keys E resp.
Proof.
  intros Hf Hs. unfold verify_root_keys, pad_ns. cbn [m_ans m_ns].
  rewrite (verify_rrsig_pad (e_nrank E) (e_now E) [] _ (m_ans resp) (m_ns resp) pre post Hf Hs). reflexivity.
Qed.

Lemma verify_dnssec_pad E s resp ds pre post :
  foreign s (pre ++ post) -> filter is_sig (pre ++ post) = [] ->
  verify_dnssec E s (pad_ns resp pre post) ds = verify_dnssec E s resp ds.
Proof.
  intros Hf Hs.
  assert (Hrr : forall keys, verify_rrsig (e_nrank E) (e_now E) s keys (m_ans resp) (pre ++ m_ns resp ++ post) =
                             verify_rrsig (e_nrank E) (e_now E) s keys (m_ans resp) (m_ns resp))
    by (intros; apply verify_rrsig_pad; assumption).
  unfold verify_dnssec, verify_root_keys, keys_of_msg, dnskey_part, pad_ns.
  cbn [m_qtype m_qname m_ans m_ns m_id].
  destruct ((m_qtype resp =? T_DNSKEY) && name_eqb (m_qname resp) s) eqn:Eo; cbn [andb]; cbv zeta.
  - destruct s as [|l s'].
    + rewrite Hrr. reflexivity.
    + cbn [m_ans]. rewrite Hrr. reflexivity.
  - destruct (e_key E s) as [i|km]; [reflexivity|]. rewrite Hrr. reflexivity.
Qed.

Lemma signer_loop_pad E qname resp pds zone pre post signers : forall last,
  (forall s, In s signers -> foreign s (pre ++ post)) -> filter is_sig (pre ++ post) = [] ->
  signer_loop E qname (pad_ns resp pre post) pds zone signers last = signer_loop E qname resp pds zone signers last.
Proof.
  induction signers as [|s rest IH]; intros last Hf Hs; [reflexivity|].
  cbn [signer_loop].
  assert (IH' : forall l, signer_loop E qname (pad_ns resp pre post) pds zone rest l = signer_loop E qname resp pds zone rest l).
  { intros l. apply IH; [intros s' Hs'; apply Hf; right; exact Hs'|exact Hs]. }
  destruct (validate_signer s qname); [apply IH'|].
  destruct (find_ds E (Some s) qname pds false) as [e|[|d ds]]; [apply IH'| |].
  - match goal with |- (if ?c then _ else _) = _ => destruct c end; [apply IH'|reflexivity].
  - rewrite (verify_dnssec_pad E s resp (d :: ds) pre post (Hf s (or_introl eq_refl)) Hs).
    destruct (verify_dnssec E s resp (d :: ds)) as [ok [e|]]; [apply IH'|reflexivity].
Qed.

(* answer(): a response and the same response with its authority section padded, front and back, by records that
   lie outside the zone of every candidate signer (and are not RRSIGs) get the same verdict, the same AD bit and
   the same sections.  The stated order of answer() — filter, then next-closer check — is what makes this true. *)
Theorem answer_ignores_foreign_authority_lemma E qname qtype cd resp pre post pds zone :
  (forall s, In s (find_signers (e_nrank E) (m_ans (bailiwick zone resp)) qname true) -> foreign s (pre ++ post)) ->
  filter is_sig (pre ++ post) = [] ->
  dname_target (bailiwick zone resp) = None ->
  validate_answer E qname qtype cd (pad_ns resp pre post) pds zone = validate_answer E qname qtype cd resp pds zone.
Proof.
  intros Hf Hs Hdn. unfold validate_answer.
  change (bailiwick zone (pad_ns resp pre post)) with (pad_ns (bailiwick zone resp) pre post).
  set (r0 := bailiwick zone resp) in *.
  unfold validate_answer_core.
  change (dname_target (pad_ns r0 pre post)) with (dname_target r0). rewrite Hdn.
  assert (Htgt : (if qtype =? T_CNAME then None else @None lookup) = None) by (destruct (qtype =? T_CNAME); reflexivity).
  rewrite Htgt.
  destruct cd; [reflexivity|].
  destruct (e_dnssec E && match e_anchors E with [] => true | _ => false end); [reflexivity|].
  change (m_ans (pad_ns r0 pre post)) with (m_ans r0).
  destruct (find_signers (e_nrank E) (m_ans r0) qname true) as [|s0 sl] eqn:Es.
  - destruct (is_zone_secure E qname pds zone && negb (proven_insecure_delegation E zone qname pds)); reflexivity.
  - rewrite (signer_loop_pad E qname r0 pds zone pre post (s0 :: sl) None Hf Hs).
    destruct (signer_loop E qname r0 pds zone (s0 :: sl) None) as [e| |ok s] eqn:El; [reflexivity|reflexivity|].
    destruct ok; [|reflexivity].
    apply signer_loop_verified in El as (Hin & _).
    change (m_ns (pad_ns r0 pre post)) with (pre ++ m_ns r0 ++ post).
    change (m_id (pad_ns r0 pre post)) with (m_id r0).
    rewrite (foreign_padding_inert_lemma (m_ns r0) pre post s (Hf s Hin)).
    destruct (verify_wildcard (fun nc => e_wild E (m_id r0) (denial_records (filter_zone (m_ns r0) s)) nc s) (m_ans r0) true) as [sec [e|]]; reflexivity.
Qed.

(* ---- the general form: any foreign padding (RRSIGs included), with or without a DNAME leg ---- *)
Definition vsim (a b : bool * option err) : Prop := fst a = fst b /\ (snd a = None <-> snd b = None).

Lemma vsim_refl a : vsim a a. Proof. split; [reflexivity|tauto]. Qed.
Lemma vsim_some b e b' e' : vsim (b, Some e) (b', Some e') -> vsim (false, Some e) (false, Some e').
Proof. intros _. split; [reflexivity|split; discriminate]. Qed.

Lemma verify_rrsig_vsim nrank now signer keys ans ns pre post :
  foreign signer (pre ++ post) ->
  vsim (verify_rrsig nrank now signer keys ans (pre ++ ns ++ post)) (verify_rrsig nrank now signer keys ans ns).
Proof.
  intros Hf. destruct (verify_rrsig_ignores_foreign_authority_lemma nrank now signer keys ans ns pre post Hf) as (H1 & H2 & _).
  split; assumption.
Qed.

(* the tail of verifyDNSSEC / verifyRootKeys maps similar signature verdicts to similar results *)
Lemma tail3_vsim (P Q : bool * option err) : vsim P Q ->
  vsim (match P with (_, Some e) => (false, Some e) | (false, None) => (false, None) | (true, None) => (true, None) end)
       (match Q with (_, Some e) => (false, Some e) | (false, None) => (false, None) | (true, None) => (true, None) end).
Proof.
  destruct P as [[|] [e|]], Q as [[|] [e'|]]; intros [H1 H2]; cbn in *; try discriminate;
    try (exfalso; destruct H2 as [H2a H2b]; first [specialize (H2a eq_refl); discriminate | specialize (H2b eq_refl); discriminate]);
    first [apply vsim_refl | split; [reflexivity|split; discriminate]].
Qed.
Lemma tail2_vsim (P Q : bool * option err) : vsim P Q ->
  vsim (match P with (_, Some e) => (false, Some e) | (_, None) => (true, None) end)
       (match Q with (_, Some e) => (false, Some e) | (_, None) => (true, None) end).
Proof.
  destruct P as [[|] [e|]], Q as [[|] [e'|]]; intros [H1 H2]; cbn in *; try discriminate;
    try (exfalso; destruct H2 as [H2a H2b]; first [specialize (H2a eq_refl); discriminate | specialize (H2b eq_refl); discriminate]);
    first [apply vsim_refl | split; [reflexivity|split; discriminate]].
Qed.

Ltac same_scrutinee :=
  repeat match goal with
         | |- vsim (match ?x with _ => _ end) (match ?x with _ => _ end) => destruct x
         | |- vsim ?a ?a => apply vsim_refl
         end.

Lemma verify_dnssec_vsim E s resp ds pre post :
  foreign s (pre ++ post) ->
  vsim (verify_dnssec E s (pad_ns resp pre post) ds) (verify_dnssec E s resp ds).
Proof.
  intros Hf.
  assert (Hrr : forall keys, vsim (verify_rrsig (e_nrank E) (e_now E) s keys (m_ans resp) (pre ++ m_ns resp ++ post))
                                  (verify_rrsig (e_nrank E) (e_now E) s keys (m_ans resp) (m_ns resp)))
    by (intros; apply verify_rrsig_vsim; assumption).
  unfold verify_dnssec, verify_root_keys, keys_of_msg, dnskey_part, pad_ns.
  cbn [m_qtype m_qname m_ans m_ns m_id].
  destruct ((m_qtype resp =? T_DNSKEY) && name_eqb (m_qname resp) s) eqn:Eo; cbn [andb]; cbv zeta.
  - destruct s as [|l s'].
    + same_scrutinee; try apply vsim_refl; try (apply tail2_vsim; apply Hrr); try (apply tail3_vsim; apply Hrr).
    + cbn [m_ans]. same_scrutinee; try apply vsim_refl; try (apply tail3_vsim; apply Hrr); try (apply tail2_vsim; apply Hrr).
  - destruct (e_key E s) as [i|km]; [apply vsim_refl|].
    same_scrutinee; try apply vsim_refl; try (apply tail3_vsim; apply Hrr); try (apply tail2_vsim; apply Hrr).
Qed.

Definition ssim (a b : settle) : Prop :=
  match a, b with SFail _, SFail _ => True | _, _ => a = b end.
Lemma ssim_refl a : ssim a a. Proof. destruct a; cbn; auto. Qed.

Lemma signer_loop_ssim E qname resp pds zone pre post signers : forall last last',
  (forall s, In s signers -> foreign s (pre ++ post)) ->
  ssim (signer_loop E qname (pad_ns resp pre post) pds zone signers last) (signer_loop E qname resp pds zone signers last').
Proof.
  induction signers as [|s rest IH]; intros last last' Hf; [cbn; exact I|].
  cbn [signer_loop].
  assert (IH' : forall l l', ssim (signer_loop E qname (pad_ns resp pre post) pds zone rest l) (signer_loop E qname resp pds zone rest l')).
  { intros l l'. apply IH. intros s' Hs'. apply Hf. right. exact Hs'. }
  destruct (validate_signer s qname); [apply IH'|].
  destruct (find_ds E (Some s) qname pds false) as [e|[|d ds]]; [apply IH'| |].
  - match goal with |- ssim (if ?c then _ else _) _ => destruct c end; [apply IH'|apply ssim_refl].
  - destruct (verify_dnssec_vsim E s resp (d :: ds) pre post (Hf s (or_introl eq_refl))) as [H1 H2].
    destruct (verify_dnssec E s (pad_ns resp pre post) (d :: ds)) as [ok [e|]], (verify_dnssec E s resp (d :: ds)) as [ok' [e'|]]; cbn in H1, H2.
    + apply IH'.
    + exfalso. destruct H2 as [_ H2]. specialize (H2 eq_refl). discriminate.
    + exfalso. destruct H2 as [H2 _]. specialize (H2 eq_refl). discriminate.
    + subst ok'. apply ssim_refl.
Qed.

Lemma filter_zone_pad ns pre post s :
  foreign s (pre ++ post) -> filter_zone (pre ++ ns ++ post) s = filter_zone ns s.
Proof.
  intros Hf. apply foreign_app in Hf as [Hp Hq]. unfold filter_zone. rewrite !filter_app.
  set (P := fun r : rr => in_zone (r_owner r) s && match r_rd r with RdNsec nx => in_zone nx s | _ => true end).
  assert (HP : forall r, P r = true -> in_zone (r_owner r) s = true) by (intros r H; apply andb_true_iff in H as [H _]; exact H).
  rewrite (filter_foreign_nil s P pre HP Hp), (filter_foreign_nil s P post HP Hq), app_nil_r. reflexivity.
Qed.

(* two outcomes agree for the client: both are refusals (SERVFAIL either way; only the name of the error may differ), or
   both are the same reply — question, rcode, answer section, AD bit — and any difference in the authority section is
   confined to a reply that carries NO AD *)
Definition osim (a b : outcome) : Prop :=
  match a, b with
  | Fail _, Fail _ => True
  | Accept ma, Accept mb =>
      m_id ma = m_id mb /\ m_qname ma = m_qname mb /\ m_qtype ma = m_qtype mb /\ m_rcode ma = m_rcode mb /\
      m_ans ma = m_ans mb /\ m_ad ma = m_ad mb /\ (m_ns ma = m_ns mb \/ m_ad mb = false)
  | _, _ => False
  end.

Definition rsim (a b : res msg) : Prop :=
  match a, b with
  | Er _, Er _ => True
  | Ok ma, Ok mb =>
      m_id ma = m_id mb /\ m_qname ma = m_qname mb /\ m_qtype ma = m_qtype mb /\ m_rcode ma = m_rcode mb /\
      m_ans ma = m_ans mb /\ m_ad ma = m_ad mb /\ (m_ns ma = m_ns mb \/ m_ad mb = false)
  | _, _ => False
  end.

Theorem answer_foreign_padding_general_lemma E qname qtype cd resp pre post pds zone :
  (forall s, In s (find_signers (e_nrank E) (m_ans (bailiwick zone resp)) qname true) -> foreign s (pre ++ post)) ->
  m_ad resp = false ->
  osim (validate_answer E qname qtype cd (pad_ns resp pre post) pds zone) (validate_answer E qname qtype cd resp pds zone).
Proof.
  intros Hf Had0. unfold validate_answer.
  change (bailiwick zone (pad_ns resp pre post)) with (pad_ns (bailiwick zone resp) pre post).
  assert (Had : m_ad (bailiwick zone resp) = false) by exact Had0.
  set (r0 := bailiwick zone resp) in *.
  unfold validate_answer_core.
  change (dname_target (pad_ns r0 pre post)) with (dname_target r0).
  set (tgt := if qtype =? T_CNAME then None else match dname_target r0 with None => None | Some t => Some (e_dname E t qtype cd) end).
  destruct tgt as [[i|t]|] eqn:Et; [exact I| |].
  all: change (m_ans (pad_ns r0 pre post)) with (m_ans r0).
  all: match goal with
       | |- osim (match ?vp with Er _ => _ | Ok _ => _ end) (match ?v with Er _ => _ | Ok _ => _ end) =>
           assert (Hv : rsim vp v)
       end.
  1,3: (destruct cd; [cbn; repeat split; auto|];
        destruct (e_dnssec E && match e_anchors E with [] => true | _ => false end); [exact I|];
        destruct (find_signers (e_nrank E) (m_ans r0) qname true) as [|s0 sl] eqn:Es;
        [destruct (is_zone_secure E qname pds zone && negb (proven_insecure_delegation E zone qname pds)); [exact I|cbn; repeat split; auto]|];
        pose proof (signer_loop_ssim E qname r0 pds zone pre post (s0 :: sl) None None Hf) as Hl;
        destruct (signer_loop E qname (pad_ns r0 pre post) pds zone (s0 :: sl) None) as [e| |ok s] eqn:Elp,
                 (signer_loop E qname r0 pds zone (s0 :: sl) None) as [e'| |ok' s'] eqn:El; cbn in Hl; try discriminate; try exact I;
        [cbn; repeat split; auto|];
        injection Hl as -> ->;
        destruct ok'; [|cbn; repeat split; auto];
        apply signer_loop_verified in El as (Hin & _);
        change (m_ns (pad_ns r0 pre post)) with (pre ++ m_ns r0 ++ post);
        change (m_id (pad_ns r0 pre post)) with (m_id r0);
        rewrite (filter_zone_pad (m_ns r0) pre post s' (Hf s' Hin));
        destruct (verify_wildcard (fun nc => e_wild E (m_id r0) (denial_records (filter_zone (m_ns r0) s')) nc s') (m_ans r0) true) as [sec [e|]];
        [exact I|cbn; repeat split; auto]).
  - (* a DNAME leg *)
    match goal with |- osim (match ?vp with Er _ => _ | Ok _ => _ end) (match ?v with Er _ => _ | Ok _ => _ end) =>
      destruct vp as [ep|rp], v as [e|r]; cbn in Hv; try contradiction; try exact I end.
    destruct Hv as (H1 & H2 & H3 & H4 & H5 & H6 & H7).
    destruct (m_rcode t =? RC_SERVFAIL); [exact I|]. cbv zeta.
    destruct (m_rcode t =? RC_NXDOMAIN).
    + cbn. rewrite H1, H2, H3, H5, H6. repeat split; auto.
    + destruct (m_ans t); cbn; rewrite H1, H2, H3, H5, H6; repeat split; auto.
      destruct H7 as [H7|H7]; [left; rewrite H7; reflexivity|right].
      destruct cd; [exact H7|rewrite H7; reflexivity].
  - match goal with |- osim (match ?vp with Er _ => _ | Ok _ => _ end) (match ?v with Er _ => _ | Ok _ => _ end) =>
      destruct vp as [ep|rp], v as [e|r]; cbn in Hv; try contradiction; try exact I end.
    destruct Hv as (H1 & H2 & H3 & H4 & H5 & H6 & H7).
    cbn. rewrite H1, H2, H3, H4, H5, H6. repeat split; auto.
Qed.
