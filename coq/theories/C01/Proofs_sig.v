(* C01 — soundness of the signature layer: VerifyDS and VerifyRRSIG (model), for every key-tag
   assignment, every order of the records and every sort order Go may use. *)
From Coq Require Import Permutation.
From Sdns Require Import Common.Base Gen.C01 C01.Model.
Open Scope N_scope.

(* ------------------------------------------------------------ equalities *)
Lemma name_eqb_eq a b : name_eqb a b = true <-> a = b.
Proof.
  revert b. induction a as [|x a IH]; destruct b as [|y b]; cbn; split; try congruence; try discriminate; auto.
  - intros H. apply andb_true_iff in H as [H1 H2]. apply N.eqb_eq in H1. apply IH in H2. congruence.
  - intros H. injection H as -> ->. rewrite N.eqb_refl. cbn. apply IH. reflexivity.
Qed.
Lemma name_eqb_refl a : name_eqb a a = true.
Proof. apply name_eqb_eq. reflexivity. Qed.
Lemma nlist_eqb_eq a b : nlist_eqb a b = true <-> a = b.
Proof.
  revert b. induction a as [|x a IH]; destruct b as [|y b]; cbn; split; try congruence; try discriminate; auto.
  - intros H. apply andb_true_iff in H as [H1 H2]. apply N.eqb_eq in H1. apply IH in H2. congruence.
  - intros H. injection H as -> ->. rewrite N.eqb_refl. cbn. apply IH. reflexivity.
Qed.
Lemma signed_eqb_eq a b : signed_eqb a b = true -> a = b.
Proof.
  destruct a, b. cbn. intros H.
  repeat (apply andb_true_iff in H as [H ?]).
  repeat match goal with
         | H : (_ =? _) = true |- _ => apply N.eqb_eq in H
         | H : name_eqb _ _ = true |- _ => apply name_eqb_eq in H
         | H : nlist_eqb _ _ = true |- _ => apply nlist_eqb_eq in H
         end.
  congruence.
Qed.
Lemma digest_eqb_eq a b : digest_eqb a b = true -> a = b.
Proof.
  destruct a, b; cbn; try discriminate; intros H; auto.
  - repeat (apply andb_true_iff in H as [H ?]).
    repeat match goal with
           | H : (_ =? _) = true |- _ => apply N.eqb_eq in H
           | H : name_eqb _ _ = true |- _ => apply name_eqb_eq in H
           end. congruence.
  - apply N.eqb_eq in H. congruence.
Qed.
Lemma gkey_eqb_eq a b : gkey_eqb a b = true <-> a = b.
Proof.
  destruct a as [[n t] c], b as [[n' t'] c']. cbn. split.
  - intros H. repeat (apply andb_true_iff in H as [H ?]).
    apply name_eqb_eq in H. apply N.eqb_eq in H0, H1. congruence.
  - intros H. injection H as -> -> ->. rewrite name_eqb_refl, !N.eqb_refl. reflexivity.
Qed.

(* ------------------------------------------------------ sorting, filters *)
Lemma insert_by_perm {A} (lt : A -> A -> bool) x l : Permutation (x :: l) (insert_by lt x l).
Proof.
  induction l as [|y l IH]; cbn; [reflexivity|].
  destruct (lt x y); [reflexivity|]. rewrite perm_swap. constructor. exact IH.
Qed.
Lemma sort_by_perm {A} (lt : A -> A -> bool) l : Permutation l (sort_by lt l).
Proof.
  induction l as [|x l IH]; cbn; [constructor|].
  etransitivity; [|apply insert_by_perm]. constructor. exact IH.
Qed.
Lemma sort_by_in {A} (lt : A -> A -> bool) l x : In x (sort_by lt l) <-> In x l.
Proof. split; apply Permutation_in; [symmetry|]; apply sort_by_perm. Qed.
Lemma nub_by_incl {A} (eqb : A -> A -> bool) seen l x : In x (nub_by eqb seen l) -> In x l.
Proof.
  revert seen. induction l as [|y l IH]; cbn; intros seen H; [exact H|].
  destruct (existsb (eqb y) seen); [right; eauto|]. destruct H as [->|H]; [left; reflexivity|right; eauto].
Qed.

(* --------------------------------------------------------------- VerifyDS *)
Definition ds_binds (d : rr) (k : key) : Prop :=
  exists tag alg dt dg rk, r_rd d = RdDS tag alg dt dg rk /\
    supported_digest dt = true /\ supported_alg alg = true /\
    k_tag k = tag /\ k_alg k = alg /\ k_class k = r_class d /\ k_owner k = r_owner d /\
    k_proto k = ds_candidate_protocol /\ zone_bit (k_flags k) = true /\
    dg = DigOf dt (k_owner k) (k_flags k) (k_proto k) (k_alg k) (k_mat k).

Lemma verify_one_ds_matched keys d :
  verify_one_ds keys d = DsMatched -> exists k, In k keys /\ ds_binds d k.
Proof.
  unfold verify_one_ds. destruct (r_rd d) eqn:Erd; try discriminate.
  destruct (supported_digest dt && supported_alg alg) eqn:Esup; cbn [negb]; [|discriminate].
  apply andb_true_iff in Esup as [Hd Ha].
  destruct (filter (fun k => k_tag k =? tag) keys) as [|k0 raw] eqn:Eraw; [discriminate|].
  destruct (filter (usable_ds_candidate d tag alg) (k0 :: raw)) as [|c0 cands] eqn:Ecand; [discriminate|].
  destruct dg eqn:Edg; try discriminate;
  (destruct (existsb _ (c0 :: cands)) eqn:Eex; [|discriminate]; intros _;
   apply existsb_exists in Eex as [k [Hin Hm]];
   rewrite <- Ecand in Hin; apply filter_In in Hin as [Hin Hus];
   rewrite <- Eraw in Hin; apply filter_In in Hin as [Hin _];
   exists k; split; [exact Hin|];
   unfold usable_ds_candidate in Hus;
   repeat (apply andb_true_iff in Hus as [Hus ?]);
   unfold ds_digest_matches in Hm; apply andb_true_iff in Hm as [_ Hm]; apply digest_eqb_eq in Hm;
   exists tag, alg, dt, dg, rank; subst dg;
   repeat match goal with
          | H : (_ =? _) = true |- _ => apply N.eqb_eq in H
          | H : name_eqb _ _ = true |- _ => apply name_eqb_eq in H
          end;
   repeat split; auto; congruence).
Qed.

Lemma verify_ds_loop_matched keys l sup last u e :
  verify_ds_loop keys l sup last = (true, u, e) -> exists d k, In d l /\ In k keys /\ ds_binds d k.
Proof.
  revert sup last. induction l as [|d l IH]; cbn; intros sup last H; [discriminate|].
  destruct (verify_one_ds keys d) eqn:E1.
  - apply verify_one_ds_matched in E1 as [k [Hk Hb]]. exists d, k. auto.
  - apply IH in H as (d' & k & ? & ? & ?). exists d', k. auto.
  - apply IH in H as (d' & k & ? & ? & ?). exists d', k. auto.
Qed.

(* VerifyDS succeeds only if a supported DS of the set is the digest of a bound key of the set *)
Lemma verify_ds_sound keys dsset u :
  verify_ds keys dsset = (u, None) -> exists d k, In d dsset /\ In k keys /\ ds_binds d k.
Proof.
  unfold verify_ds. destruct (verify_ds_loop keys (sorted_ds dsset) false None) as [[m sup] last] eqn:E.
  destruct m.
  - intros _. apply verify_ds_loop_matched in E as (d & k & Hd & Hk & Hb).
    exists d, k. split; [|auto].
    unfold sorted_ds in Hd. apply sort_by_in in Hd. apply nub_by_incl in Hd. apply filter_In in Hd as [Hd _]. exact Hd.
  - destruct (sorted_ds dsset); [discriminate|]. destruct (negb sup); discriminate.
Qed.

(* ------------------------------------------------------------ VerifyRRSIG *)
Definition grp {A} (k : gkey) (g : list (gkey * list A)) : list A :=
  match group_find k g with Some l => l | None => [] end.

Lemma group_find_add_same k (r : rr) g : group_find k (group_add k r g) = Some (grp k g ++ [r]).
Proof.
  unfold grp. induction g as [|[k' l] g IH]; cbn.
  - assert (gkey_eqb k k = true) as -> by (apply gkey_eqb_eq; reflexivity). reflexivity.
  - destruct (gkey_eqb k k') eqn:E; cbn; rewrite E; [reflexivity|exact IH].
Qed.
Lemma group_find_add_other k k' (r : rr) g : k <> k' -> group_find k (group_add k' r g) = group_find k g.
Proof.
  intros Hne. induction g as [|[k2 l] g IH]; cbn.
  - destruct (gkey_eqb k k') eqn:E; [apply gkey_eqb_eq in E; contradiction|reflexivity].
  - destruct (gkey_eqb k' k2) eqn:E2; cbn.
    + apply gkey_eqb_eq in E2. subst k2.
      destruct (gkey_eqb k k') eqn:E; [apply gkey_eqb_eq in E; contradiction|reflexivity].
    + destruct (gkey_eqb k k2); [reflexivity|exact IH].
Qed.
Lemma in_group_add k (r x : rr) k' g :
  In x (grp k (group_add k' r g)) <-> In x (grp k g) \/ (k = k' /\ x = r).
Proof.
  unfold grp at 1. destruct (gkey_eqb k k') eqn:E.
  - apply gkey_eqb_eq in E. subst k'. rewrite group_find_add_same. rewrite in_app_iff. cbn. intuition.
  - assert (k <> k') by (intros ->; assert (gkey_eqb k' k' = true) by (apply gkey_eqb_eq; reflexivity); congruence).
    rewrite group_find_add_other by assumption. fold (grp k g). intuition.
Qed.
Lemma group_add_keys k (r : rr) g k0 l0 :
  In (k0, l0) (group_add k r g) -> k0 = k \/ exists l1, In (k0, l1) g.
Proof.
  induction g as [|[k' l] g IH]; cbn.
  - intros [H|[]]. injection H as <- _. auto.
  - destruct (gkey_eqb k k') eqn:E; cbn.
    + intros [H|H]; [injection H as <- _; apply gkey_eqb_eq in E; auto|right; eauto].
    + intros [H|H]; [injection H as <- <-; right; eauto|].
      apply IH in H as [H|[l1 H]]; [auto|right; eauto].
Qed.
(* keys stay unique, so a listed group is the one the finder returns *)
Lemma group_add_fst k (r : rr) g x : In x (map fst (group_add k r g)) <-> x = k \/ In x (map fst g).
Proof.
  induction g as [|[k' l] g IH]; cbn.
  - intuition.
  - destruct (gkey_eqb k k') eqn:E; cbn.
    + apply gkey_eqb_eq in E. subst k'. intuition.
    + rewrite IH. intuition.
Qed.
Lemma group_add_nodup k (r : rr) g : NoDup (map fst g) -> NoDup (map fst (group_add k r g)).
Proof.
  induction g as [|[k' l] g IH]; cbn; intros H.
  - constructor; [intros []|constructor].
  - destruct (gkey_eqb k k') eqn:E; cbn; [exact H|].
    inversion H as [|? ? Hn Hd]; subst. constructor; [|auto].
    rewrite group_add_fst. intros [->|Hin]; [|contradiction].
    assert (gkey_eqb k k = true) by (apply gkey_eqb_eq; reflexivity). congruence.
Qed.
Lemma find_of_in {A} k (l : A) g : NoDup (map fst g) -> In (k, l) g -> group_find k g = Some l.
Proof.
  induction g as [|[k' l'] g IH]; cbn; intros Hnd Hin; [destruct Hin|].
  inversion Hnd as [|? ? Hn Hd]; subst.
  destruct Hin as [H|Hin].
  - injection H as -> ->. assert (gkey_eqb k k = true) as -> by (apply gkey_eqb_eq; reflexivity). reflexivity.
  - destruct (gkey_eqb k k') eqn:E; [|auto].
    apply gkey_eqb_eq in E. subst k'. exfalso. apply Hn. apply (in_map fst) in Hin. exact Hin.
Qed.

Lemma in_of_find {A} k (l : A) g : group_find k g = Some l -> In (k, l) g.
Proof.
  induction g as [|[k' l'] g IH]; cbn; intros H; [discriminate|].
  destruct (gkey_eqb k k') eqn:E; [|right; auto].
  apply gkey_eqb_eq in E. injection H as ->. left. congruence.
Qed.

(* what a record must look like to enter the validation pass *)
Definition is_synth (dnames : list rr) (r : rr) : bool :=
  match r_rd r with RdCname t => (r_type r =? T_CNAME) && is_synth_cname (r_owner r) t dnames | _ => false end.
Definition passes (signer : name) (dnames : list rr) (from_auth : bool) (r : rr) : bool :=
  negb (is_sig r) && negb ((r_type r =? T_NS) && from_auth) && negb (is_synth dnames r) && in_zone (r_owner r) signer.
Definition gk (r : rr) : gkey := (r_owner r, r_type r, r_class r).

Lemma collect_spec signer dnames fa l : forall g bad g' bad',
  collect signer dnames fa l g bad = (g', bad') ->
  (forall k x, In x (grp k g') <-> In x (grp k g) \/ (In x l /\ passes signer dnames fa x = true /\ gk x = k)) /\
  (NoDup (map fst g) -> NoDup (map fst g')) /\
  (bad' = false -> bad = false /\
     (fa = false -> forall x, In x l -> is_sig x = false -> is_synth dnames x = false -> in_zone (r_owner x) signer = true)).
Proof.
  induction l as [|r l IH]; intros g bad g' bad' H; cbn in H.
  - injection H as <- <-. split; [|split]; [intros; cbn; intuition|auto|intros; split; [auto|intros _ x []]].
  - assert (Hsyn : (match r_rd r with RdCname t => (r_type r =? T_CNAME) && is_synth_cname (r_owner r) t dnames | _ => false end) = is_synth dnames r) by reflexivity.
    rewrite Hsyn in H.
    destruct (is_sig r) eqn:Es.
    { apply IH in H as (H1 & H2 & H3). split; [|split; [exact H2|]].
      - intros k x. rewrite H1. cbn. unfold passes at 2.
        split; [intros [?|(?&?&?)]; auto|intros [?|([->|?]&Hp&?)]; auto].
        unfold passes in Hp. rewrite Es in Hp. discriminate.
      - intros Hb. destruct (H3 Hb) as [Hb0 Hall]. split; [exact Hb0|].
        intros Hfa x [->|Hin] Hs Hy; [congruence|auto]. }
    destruct ((r_type r =? T_NS) && fa) eqn:Ens.
    { apply IH in H as (H1 & H2 & H3). split; [|split; [exact H2|]].
      - intros k x. rewrite H1. cbn.
        split; [intros [?|(?&?&?)]; auto|intros [?|([->|?]&Hp&?)]; auto].
        unfold passes in Hp. rewrite Ens in Hp. rewrite andb_false_r in Hp. discriminate.
      - intros Hb. destruct (H3 Hb) as [Hb0 Hall]. split; [exact Hb0|].
        intros Hfa. subst fa. rewrite andb_false_r in Ens. discriminate. }
    destruct (is_synth dnames r) eqn:Ey.
    { apply IH in H as (H1 & H2 & H3). split; [|split; [exact H2|]].
      - intros k x. rewrite H1. cbn.
        split; [intros [?|(?&?&?)]; auto|intros [?|([->|?]&Hp&?)]; auto].
        unfold passes in Hp. rewrite Ey in Hp. cbn in Hp. rewrite !andb_false_r in Hp. discriminate.
      - intros Hb. destruct (H3 Hb) as [Hb0 Hall]. split; [exact Hb0|].
        intros Hfa x [->|Hin] Hs Hy; [congruence|auto]. }
    destruct (in_zone (r_owner r) signer) eqn:Ez; cbn [negb] in H.
    { apply IH in H as (H1 & H2 & H3). split; [|split].
      - intros k x. rewrite H1. rewrite in_group_add. cbn.
        split.
        + intros [[?|[-> ->]]|(?&?&?)]; auto.
          right. split; [auto|]. split; [|reflexivity].
          unfold passes. rewrite Es, Ens, Ey, Ez. reflexivity.
        + intros [?|([->|?]&Hp&Hk)]; [auto|left; right; split; [symmetry; exact Hk|reflexivity]|auto].
      - intros Hn. apply H2. apply group_add_nodup. exact Hn.
      - intros Hb. destruct (H3 Hb) as [Hb0 Hall]. split; [exact Hb0|].
        intros Hfa x [->|Hin] Hs Hy; [exact Ez|auto]. }
    { apply IH in H as (H1 & H2 & H3). split; [|split; [exact H2|]].
      - intros k x. rewrite H1. cbn.
        split; [intros [?|(?&?&?)]; auto|intros [?|([->|?]&Hp&?)]; auto].
        unfold passes in Hp. rewrite Ez in Hp. rewrite !andb_false_r in Hp. discriminate.
      - intros Hb. destruct (H3 Hb) as [Hb0 Hall].
        apply orb_false_iff in Hb0 as [Hb0 Hfa']. split; [exact Hb0|].
        intros Hfa. subst fa. discriminate. }
Qed.

(* one signature verified: which key, what was signed *)
Lemma verify_one_sig_ok now keys set sr s :
  verify_one_sig now keys set sr s = None ->
  exists k, In k keys /\ usable_sig_candidate sr s k = true /\
            s_body s = SigBy (k_mat k) (signed_of sr s set) /\
            valid_period (s_inc s) (s_exp s) now = true /\ sig_matches_rrset sr s set = true /\
            supported_alg (s_alg s) = true.
Proof.
  unfold verify_one_sig.
  destruct (filter (fun k => k_tag k =? s_tag s) keys) as [|c0 cands] eqn:Ec; [discriminate|].
  destruct (existsb (fun k => name_eqb (k_owner k) (s_signer s)) (c0 :: cands)); cbn [negb]; [|discriminate].
  destruct (valid_period (s_inc s) (s_exp s) now) eqn:Ev; cbn [negb]; [|discriminate].
  destruct (supported_alg (s_alg s)) eqn:Ea; cbn [negb]; [|discriminate].
  destruct (sig_matches_rrset sr s set) eqn:Em; cbn [negb]; [|discriminate].
  destruct (filter (usable_sig_candidate sr s) (c0 :: cands)) as [|e0 el] eqn:Ee; [discriminate|].
  destruct ((s_labels s =? 0) && _); [discriminate|].
  destruct (existsb (fun k => crypto_ok k sr s set) (e0 :: el)) eqn:Ex; [|discriminate].
  intros _. apply existsb_exists in Ex as [k [Hin Hc]].
  rewrite <- Ee in Hin. apply filter_In in Hin as [Hin Hu].
  rewrite <- Ec in Hin. apply filter_In in Hin as [Hin _].
  exists k. repeat split; auto.
  unfold crypto_ok in Hc. destruct (s_body s); [|discriminate].
  apply andb_true_iff in Hc as [Hm Hs]. apply N.eqb_eq in Hm. apply signed_eqb_eq in Hs. congruence.
Qed.

Lemma try_sigs_ok now keys set sigs last :
  try_sigs now keys set sigs last = None ->
  exists sr s, In sr sigs /\ sig_of sr = Some s /\ verify_one_sig now keys set sr s = None.
Proof.
  revert last. induction sigs as [|sr sigs IH]; cbn; intros last H; [discriminate|].
  destruct (sig_of sr) as [s|] eqn:Es.
  - destruct (verify_one_sig now keys set sr s) eqn:Ev.
    + apply IH in H as (sr' & s' & ? & ? & ?). exists sr', s'. auto.
    + exists sr, s. auto.
  - apply IH in H as (sr' & s' & ? & ? & ?). exists sr', s'. auto.
Qed.

Lemma check_groups_ok now keys sigidx gs :
  check_groups now keys sigidx gs = None ->
  forall k set, In (k, set) gs ->
  exists sl, group_find k sigidx = Some sl /\ try_sigs now keys set (sorted_sigs sl) None = None.
Proof.
  induction gs as [|[k0 set0] gs IH]; cbn; intros H k set Hin; [destruct Hin|].
  destruct (group_find k0 sigidx) as [sl|] eqn:Ef; [|discriminate].
  destruct (try_sigs now keys set0 (sorted_sigs sl) None) eqn:Et; [discriminate|].
  destruct Hin as [Heq|Hin]; [injection Heq as <- <-; eauto|eauto].
Qed.

Lemma sig_index_in signer sigs k sl x :
  group_find k (sig_index signer sigs) = Some sl -> In x sl -> In x sigs.
Proof.
  unfold sig_index.
  assert (G : forall g, (forall k sl x, group_find k g = Some sl -> In x sl -> In x sigs \/ False) ->
              forall l, (forall y, In y l -> In y sigs) ->
              forall k sl x, group_find k (fold_left (fun g sr =>
                 match sig_of sr with
                 | Some s => if in_zone (r_owner sr) signer then group_add (r_owner sr, s_cov s, r_class sr) sr g else g
                 | None => g end) l g) = Some sl -> In x sl -> In x sigs).
  { intros g Hg l. revert g Hg. induction l as [|sr l IH]; cbn; intros g Hg Hl k0 sl0 x0 Hf Hx.
    - destruct (Hg _ _ _ Hf Hx) as [?|[]]; assumption.
    - eapply IH; [| |exact Hf|exact Hx]; [|auto].
      intros k1 sl1 x1 Hf1 Hx1. left.
      destruct (sig_of sr) as [s|]; [|destruct (Hg _ _ _ Hf1 Hx1) as [?|[]]; assumption].
      destruct (in_zone (r_owner sr) signer); [|destruct (Hg _ _ _ Hf1 Hx1) as [?|[]]; assumption].
      assert (Hin : In x1 (grp k1 (group_add (r_owner sr, s_cov s, r_class sr) sr g))) by (unfold grp; rewrite Hf1; exact Hx1).
      apply in_group_add in Hin as [Hin|[_ ->]]; [|auto].
      unfold grp in Hin. destruct (group_find k1 g) eqn:Eg; [|destruct Hin].
      destruct (Hg _ _ _ Eg Hin) as [?|[]]; assumption. }
  intros Hf Hx. eapply (G [] ); [|intros y Hy; exact Hy|exact Hf|exact Hx].
  intros ? ? ? Hc. discriminate.
Qed.

(* ---- the statement ---- *)
Section Sound.
  (* key materials whose private half only the zone's signer holds, and what that signer signed *)
  Variable honest : N -> Prop.
  Variable zone_signed : signed -> Prop.
  (* Dolev-Yao: a signature term under honest material appears in a message only if the signer made it *)
  Definition unforgeable (l : list rr) : Prop :=
    forall r s m sd, In r l -> sig_of r = Some s -> s_body s = SigBy m sd -> honest m -> zone_signed sd.

  (* the RRset of record r inside the validation pass of (ans, ns) *)
  Definition vouched_set (now : Z) (signer : name) (ans ns : list rr) (dnames : list rr) (r : rr) (set : list rr) : Prop :=
    In r set /\
    (forall x, In x set <-> (In x ans /\ passes signer dnames false x = true /\ gk x = gk r) \/
                            (In x ns /\ passes signer dnames true x = true /\ gk x = gk r)) /\
    exists sr s, In sr (ans ++ ns) /\ sig_of sr = Some s /\
      zone_signed (signed_of sr s set) /\ valid_period (s_inc s) (s_exp s) now = true /\
      sig_matches_rrset sr s set = true.

  Definition dnames_of (signer : name) (ans ns : list rr) : list rr :=
    filter (fun r => match r_rd r with RdDname _ => in_zone (r_owner r) signer | _ => false end) (ans ++ ns).

  Theorem verify_rrsig_sound_lemma nrank now signer keys ans ns :
    verify_rrsig nrank now signer keys ans ns = (true, None) ->
    (forall k, In k keys -> honest (k_mat k)) ->
    unforgeable (ans ++ ns) ->
    let dn := dnames_of signer ans ns in
    (* every record of the Answer section is a signature, a DNAME synthesis, or part of a signed in-zone RRset *)
    (forall r, In r ans -> is_sig r = false -> is_synth dn r = false ->
       in_zone (r_owner r) signer = true /\ exists set, vouched_set now signer ans ns dn r set) /\
    (* every in-zone Authority record other than NS likewise *)
    (forall r, In r ns -> passes signer dn true r = true -> exists set, vouched_set now signer ans ns dn r set).
  Proof.
    intros Hv Hk Hu dn.
    unfold verify_rrsig in Hv. destruct keys as [|k0 keys']; [discriminate|].
    fold (dnames_of signer ans ns) in Hv. fold dn in Hv.
    destruct (collect signer dn false ans [] false) as [g1 bad1] eqn:E1.
    destruct (collect signer dn true ns g1 bad1) as [g bad] eqn:E2.
    destruct bad eqn:Eb; [discriminate|].
    apply collect_spec in E1 as (A1 & A2 & A3). apply collect_spec in E2 as (B1 & B2 & B3).
    destruct (B3 eq_refl) as [Hb1 _]. subst bad1. destruct (A3 eq_refl) as [_ Hans]. specialize (Hans eq_refl).
    assert (Hnd : NoDup (map fst g)) by (apply B2, A2; constructor).
    (* membership in the final groups *)
    assert (Hmem : forall k x, In x (grp k g) <->
              (In x ans /\ passes signer dn false x = true /\ gk x = k) \/ (In x ns /\ passes signer dn true x = true /\ gk x = k)).
    { intros k x. rewrite B1, A1. unfold grp at 1. cbn. intuition. }
    (* every group was checked *)
    assert (Hgrp : forall k set, In (k, set) g -> set <> [] ->
              exists sr s, In sr (ans ++ ns) /\ sig_of sr = Some s /\ zone_signed (signed_of sr s set) /\
                           valid_period (s_inc s) (s_exp s) now = true /\ sig_matches_rrset sr s set = true).
    { intros k set Hin Hne. destruct g as [|g0 gr] eqn:Eg; [destruct Hin|]. rewrite <- Eg in *.
      destruct (filter is_sig ans ++ filter is_sig ns) as [|s0 sl0] eqn:Esigs; [destruct g; discriminate|].
      rewrite <- Esigs in Hv.
      assert (Hv' : check_groups now (k0 :: keys') (sig_index signer (filter is_sig ans ++ filter is_sig ns))
                      (sort_by (fun a b => gkey_lt nrank (fst a) (fst b)) g) = None).
      { destruct g; [discriminate|]. destruct (check_groups _ _ _ _); [discriminate|reflexivity]. }
      pose proof (check_groups_ok _ _ _ _ Hv' k set) as Hc.
      destruct Hc as (sl & Hf & Ht); [apply sort_by_in; exact Hin|].
      apply try_sigs_ok in Ht as (sr & s & Hsr & Hs & Hone).
      apply verify_one_sig_ok in Hone as (kk & Hkk & Hus & Hbody & Hper & Hmat & _).
      unfold sorted_sigs in Hsr. apply sort_by_in in Hsr. apply nub_by_incl in Hsr.
      pose proof (sig_index_in _ _ _ _ _ Hf Hsr) as Hin_sigs.
      assert (Hin_msg : In sr (ans ++ ns)).
      { apply in_app_iff in Hin_sigs as [H|H]; apply filter_In in H as [H _]; apply in_app_iff; auto. }
      exists sr, s. repeat split; auto.
      eapply Hu; [exact Hin_msg|exact Hs|exact Hbody|apply Hk; exact Hkk]. }
    (* a record that passes sits in its listed group *)
    assert (Hrec : forall r, (In r ans /\ passes signer dn false r = true) \/ (In r ns /\ passes signer dn true r = true) ->
              exists set, vouched_set now signer ans ns dn r set).
    { intros r Hr.
      assert (Hin : In r (grp (gk r) g)) by (apply Hmem; destruct Hr as [[? ?]|[? ?]]; [left|right]; auto).
      unfold grp in Hin. destruct (group_find (gk r) g) as [set|] eqn:Ef; [|destruct Hin].
      assert (Hlisted : In (gk r, set) g).
      { apply in_of_find. exact Ef. }
      destruct (Hgrp _ _ Hlisted) as (sr & s & ? & ? & ? & ? & ?); [intros ->; destruct Hin|].
      exists set. split; [exact Hin|]. split.
      - intros x. specialize (Hmem (gk r) x). unfold grp in Hmem. rewrite Ef in Hmem. exact Hmem.
      - exists sr, s. auto. }
    split.
    - intros r Hin Hs Hy. pose proof (Hans r Hin Hs Hy) as Hz. split; [exact Hz|].
      apply Hrec. left. split; [exact Hin|]. unfold passes. rewrite Hs, Hy, Hz. rewrite andb_false_r. reflexivity.
    - intros r Hin Hp. apply Hrec. right. auto.
  Qed.
End Sound.
