(* C01 — dnsutil.FilterRRsToZone, machine-translated (Gen/C01.v: go_FilterRRsToZone with its range loop, dns.RR as a sum
   type, dns.CanonicalName, NameInZone and its escaped-dot loop), IS the model's [filter_zone]: the filter answer() and
   authority() put in front of the wildcard next-closer check and of the NSEC / NSEC3 denial checks (the mechanism of the
   seeded changes C01-7 / C01-10).  Stated over the presentation of names (Proofs_zone.v) whose labels are non-empty, free
   of '.', backslash and upper-case letters — what dns.CanonicalName leaves of a wire name — and for EVERY representation
   [emb] of the model's records as dns.RR values that agrees on the owner name, on "the dynamic type is *dns.NSEC" and on
   the NSEC's next name. *)
From Sdns Require Import Common.Base Common.GoList Gen.C01 C01.Model C01.Proofs_sig C01.Proofs_zone.
Open Scope N_scope.

Section Filter.
  Variable lbl : N -> list N.
  Hypothesis lbl_nonempty : forall l, lbl l <> [].
  Hypothesis lbl_plain : forall l c, In c (lbl l) -> c <> 46 /\ c <> 92.
  Hypothesis lbl_inj : forall a b, lbl a = lbl b -> a = b.
  Hypothesis lbl_lower : forall l c, In c (lbl l) -> c < 65 \/ 90 < c.

  Notation pres := (pres lbl).
  Notation pres' := (pres' lbl).

  Lemma lower_byte_id c : (c < 65 \/ 90 < c) -> go_ascii_lower_byte c = c.
  Proof. intros H. unfold go_ascii_lower_byte. destruct ((65 <=? c) && (c <=? 90)) eqn:E; [lia|reflexivity]. Qed.

  Lemma pres'_chars : forall n c, In c (pres' n) -> c < 65 \/ 90 < c.
  Proof.
    induction n as [|l n IH]; intros c H; [destruct H|].
    rewrite pres'_cons in H. apply in_app_or in H as [H|[<-|H]]; [eapply lbl_lower; exact H|lia|apply IH; exact H].
  Qed.
  Lemma pres_chars n c : In c (pres n) -> c < 65 \/ 90 < c.
  Proof. destruct n as [|l n]; [intros [<-|[]]; lia|apply pres'_chars]. Qed.

  Lemma lower_pres n : go_ascii_lower (pres n) = pres n.
  Proof.
    unfold go_ascii_lower. rewrite <- (map_id (pres n)) at 2. apply map_ext_in.
    intros c Hc. apply lower_byte_id. eapply pres_chars; exact Hc.
  Qed.

  Lemma fqdn_pres n : go_is_fqdn_ascii (pres n) = true.
  Proof.
    destruct n as [|l n]; [reflexivity|].
    destruct (pres'_tail lbl lbl_nonempty lbl_plain (l :: n)) as (P & b & Hp & Hb); [discriminate|].
    unfold go_is_fqdn_ascii. cbn [Proofs_zone.pres]. rewrite Hp, rev_app_distr. cbn [rev app].
    destruct b as [|p]; [reflexivity|].
    cbn [go_trailing_backslashes]. destruct (N.eq_dec (N.pos p) 92) as [E|E]; [contradiction|].
    destruct p as [p|p|]; try reflexivity;
      repeat (destruct p as [p|p|]; try reflexivity; try (exfalso; apply E; reflexivity)).
  Qed.

  Lemma canon_pres n : go_canonical_name_ascii (pres n) = pres n.
  Proof. unfold go_canonical_name_ascii, go_fqdn_ascii. rewrite fqdn_pres. apply lower_pres. Qed.

  (* a representation of the model's records as dns.RR values *)
  Variable emb : rr -> I_RR.
  Hypothesis emb_owner : forall r, T_RR_Header_Name (I_RR_Header (emb r)) = pres (r_owner r).
  Hypothesis emb_nsec : forall r, match r_rd r with
    | RdNsec nx => exists v, emb r = I_RR_of_NSEC v /\ T_NSEC_NextDomain v = pres nx
    | _ => forall v, emb r <> I_RR_of_NSEC v end.

  Definition keep (z : name) (r : rr) : bool :=
    in_zone (r_owner r) z && match r_rd r with RdNsec nx => in_zone nx z | _ => true end.

  Lemma nth_mid (done rest : list rr) x :
    go_idx I_RR_nil (map emb (done ++ x :: rest)) (Z.of_nat (length done)) = emb x.
  Proof.
    unfold go_idx. replace (Z.of_nat (length done) <? 0)%Z with false by (symmetry; apply Z.ltb_ge; lia).
    rewrite Nat2Z.id, map_app, app_nth2; rewrite map_length; [|lia]. rewrite Nat.sub_diag. reflexivity.
  Qed.

  Lemma filter_loop fuel z vr vz : (1 <= fuel)%nat -> forall rest done out lf, (length rest < lf)%nat ->
    go_FilterRRsToZone_loop1 fuel (map emb (done ++ rest)) lf (Z.of_nat (length done)) vr vz (pres z) out
    = (GoNext, (vr, vz, pres z, out ++ map emb (filter (keep z) rest))).
  Proof.
    intros Hf. induction rest as [|x rest IH]; intros done out lf Hl.
    - destruct lf as [|lf]; [cbn in Hl; lia|]. cbn [go_FilterRRsToZone_loop1].
      replace (Z.of_nat (length done) <? go_len (map emb (done ++ [])))%Z with false
        by (symmetry; apply Z.ltb_ge; unfold go_len; rewrite map_length, List.app_nil_r; lia).
      cbn [filter map]. rewrite (List.app_nil_r out). reflexivity.
    - destruct lf as [|lf]; [cbn in Hl; lia|]. cbn [go_FilterRRsToZone_loop1].
      replace (Z.of_nat (length done) <? go_len (map emb (done ++ x :: rest)))%Z with true
        by (symmetry; apply Z.ltb_lt; unfold go_len; rewrite map_length, app_length; cbn; lia).
      rewrite nth_mid, emb_owner, canon_pres.
      rewrite (gen_NameInZone_lemma lbl lbl_nonempty lbl_plain lbl_inj fuel (r_owner x) z Hf).
      assert (Hnext : forall out', go_FilterRRsToZone_loop1 fuel (map emb (done ++ x :: rest)) lf
                 (Z.of_nat (length done) + 1) vr vz (pres z) out'
               = (GoNext, (vr, vz, pres z, out' ++ map emb (filter (keep z) rest)))).
      { intros out'. replace (done ++ x :: rest) with ((done ++ [x]) ++ rest) by (rewrite <- app_assoc; reflexivity).
        replace (Z.of_nat (length done) + 1)%Z with (Z.of_nat (length (done ++ [x]))) by (rewrite app_length; cbn; lia).
        apply IH. cbn in Hl. lia. }
      cbn [filter].
      change (keep z x) with (in_zone (r_owner x) z && match r_rd x with RdNsec nx => in_zone nx z | _ => true end).
      destruct (in_zone (r_owner x) z) eqn:Eo; cbn [negb andb].
      + pose proof (emb_nsec x) as Hn. destruct (r_rd x) as [| | |nx| | |] eqn:Erd.
        4:{ destruct Hn as (v & Ev & Hnx). rewrite Ev. cbv beta iota zeta. rewrite Hnx, canon_pres.
            rewrite (gen_NameInZone_lemma lbl lbl_nonempty lbl_plain lbl_inj fuel nx z Hf).
            destruct (in_zone nx z); cbn [negb]; rewrite Hnext; [cbn [map]; rewrite Ev, <- app_assoc|]; reflexivity. }
        all: destruct (emb x) as [|v0|tg0 h0] eqn:Ee; [|exfalso; exact (Hn v0 eq_refl)|];
             cbv beta iota zeta; rewrite Hnext; cbn [map]; rewrite Ee, <- app_assoc; reflexivity.
      + apply Hnext.
  Qed.

  Theorem gen_FilterRRsToZone_lemma fuel l z : (1 <= fuel)%nat ->
    go_FilterRRsToZone fuel (map emb l) (pres z) = Some (map emb (filter_zone l z)).
  Proof.
    intros Hf. unfold go_FilterRRsToZone. rewrite canon_pres.
    pose proof (filter_loop fuel z (map emb l) (pres z) Hf l [] (go_make I_RR_nil 0) (S (length (map emb l)))) as H.
    cbn [app length Z.of_nat] in H. rewrite H; [|rewrite map_length; lia]. reflexivity.
  Qed.
End Filter.
