(* C01 — chain induction, answer()/authority() structure, tamper algebra,
   fail-closed without anchors, AD discipline toward the client. *)
From Sdns Require Import Common.Base Gen.C01 C01.Model C01.Proofs_sig C01.Proofs_chain C01.Proofs_f9.
Open Scope N_scope.

(* ------------------------------------------------ induction on the referral depth *)
Section Chain.
  Variable honest : name -> N -> Prop.         (* zone -> its own key materials *)
  Variable zsigned : name -> signed -> Prop.   (* zone -> what its signer signed *)
  Variable E : env.

  Definition ds_authentic (c : name) (ds : list rr) : Prop :=
    forall d k, In d ds -> ds_binds d k -> honest c (k_mat k).

  (* world hypotheses: nobody forges under a zone's material; a zone signs DNSKEY RRsets made of
     its own keys and DS RRsets that are digests of the child's own keys *)
  Hypothesis Hforge : forall z l, unforgeable (honest z) (zsigned z) l.
  Hypothesis Hkeys : forall z l, publishes_own_keys (honest z) (zsigned z) l.
  Hypothesis Hds : forall z c a lb o e i t sg ow cl rds, zsigned z (Signed c a lb o e i t sg ow cl rds) -> c = T_DS ->
      forall d k, In (r_id d) rds -> r_type d = T_DS -> ds_binds d k -> honest (r_owner d) (k_mat k).

  (* one hop of the descent: the DS response dm for child c is validated with zone z's keys; the
     child's own DNSKEY answer km is validated against the DS set taken from dm *)
  Fixpoint chain_ok (z : name) (keys : list key) (hops : list (name * msg * msg)) : Prop :=
    match hops with
    | [] => True
    | (c, dm, km) :: rest =>
        c <> [] /\ own_query c km = true /\
        verify_rrsig (e_nrank E) (e_now E) z keys (m_ans dm) (m_ns dm) = (true, None) /\
        verify_dnssec E c km (extract (m_ans dm) (Some c) T_DS) = (true, None) /\
        chain_ok c (keys_of_msg c km) rest
    end.
  Fixpoint last_keys (z : name) (keys : list key) (hops : list (name * msg * msg)) : name * list key :=
    match hops with
    | [] => (z, keys)
    | (c, _, km) :: rest => last_keys c (keys_of_msg c km) rest
    end.
  Definition keys_honest (z : name) (keys : list key) : Prop := forall k, In k keys -> honest z (k_mat k).

  Lemma ds_hop_sound z keys c dm :
    keys_honest z keys ->
    verify_rrsig (e_nrank E) (e_now E) z keys (m_ans dm) (m_ns dm) = (true, None) ->
    ds_authentic c (extract (m_ans dm) (Some c) T_DS).
  Proof.
    intros Hk Hv d k Hd Hb.
    unfold extract in Hd. apply filter_In in Hd as [Hd Hf]. apply andb_true_iff in Hf as [Ht Ho].
    apply N.eqb_eq in Ht. apply name_eqb_eq in Ho.
    pose proof (verify_rrsig_sound_lemma (honest z) (zsigned z) _ _ _ _ _ _ Hv Hk (Hforge z _)) as S. cbn zeta in S.
    destruct S as [Sa _].
    assert (Hns : is_sig d = false) by (unfold is_sig; rewrite Ht; reflexivity).
    assert (Hsy : is_synth (dnames_of z (m_ans dm) (m_ns dm)) d = false).
    { destruct Hb as (tag & alg & dt & dg & rk & Hrd & _). unfold is_synth. rewrite Hrd. reflexivity. }
    destruct (Sa d Hd Hns Hsy) as [_ [set (Hin & Hall & sr & s & _ & _ & Hzs & _ & Hm)]].
    unfold signed_of in Hzs. destruct set as [|h set']; [destruct Hin|].
    assert (Hh : gk h = gk d).
    { destruct (proj1 (Hall h) (or_introl eq_refl)) as [(_ & _ & G)|(_ & _ & G)]; exact G. }
    unfold sig_matches_rrset in Hm. repeat (apply andb_true_iff in Hm as [Hm ?]).
    rewrite <- Ho.
    eapply Hds; [exact Hzs| |apply in_canon_rds; exact Hin|exact Ht|exact Hb].
    match goal with H : (r_type h =? s_cov s) = true |- _ => apply N.eqb_eq in H; rewrite <- H end.
    unfold gk in Hh. injection Hh as _ Hty _. congruence.
  Qed.

  Theorem chain_sound_fixed_lemma hops : forall z keys,
    keys_honest z keys -> chain_ok z keys hops ->
    let '(c, kc) := last_keys z keys hops in keys_honest c kc.
  Proof.
    induction hops as [|[[c dm] km] rest IH]; intros z keys Hk Hc; cbn.
    - exact Hk.
    - cbn in Hc. destruct Hc as (Hne & Hown & Hvd & Hvk & Hrest).
      apply IH; [|exact Hrest].
      assert (Hro : root_own c km = false).
      { unfold root_own. rewrite Hown. destruct c; [contradiction|reflexivity]. }
      assert (Hdsa : ds_authentic c (extract (m_ans dm) (Some c) T_DS)) by (eapply ds_hop_sound; eauto).
      exact (keys_fixed_honest (honest c) (zsigned c) E c km _ Hro Hown Hdsa (Hforge c _) (Hkeys c _) Hvk).
  Qed.

  (* the anchor: the DS set made from the configured root keys binds exactly those keys *)
  Lemma root_ds_authentic ds0 :
    (forall k, In k (e_anchors E) -> honest [] (k_mat k)) ->
    ds_from_root_keys E = Ok ds0 -> ds_authentic [] ds0.
  Proof.
    intros Hanch Hd d k Hin Hb. unfold ds_from_root_keys in Hd.
    destruct (e_anchors E) as [|a0 al] eqn:Ea; [discriminate|]. injection Hd as <-.
    match type of Hin with In _ (_ :: map ?f ?t) => apply (in_map_iff f (a0 :: al) d) in Hin as [a [<- Hina]] end.
    destruct Hb as (tag & alg & dt & dg & rk & Hrd & _ & _ & _ & _ & _ & _ & _ & _ & Hdg).
    cbn in Hrd. injection Hrd as _ _ _ <- _. injection Hdg as _ _ _ _ _ Hm.
    rewrite <- Hm. apply Hanch. exact Hina.
  Qed.
End Chain.

(* --------------------------------------------- answer(): what AD=1 rests on *)
Lemma signer_loop_verified E qname resp pds zone signers last ok s :
  signer_loop E qname resp pds zone signers last = SVerified ok s ->
  In s signers /\ validate_signer s qname = None /\
  exists ds, find_ds E (Some s) qname pds false = Ok ds /\ ds <> [] /\ verify_dnssec E s resp ds = (ok, None).
Proof.
  revert last. induction signers as [|s0 rest IH]; cbn [signer_loop]; intros last H; [discriminate|].
  destruct (validate_signer s0 qname) eqn:Evs.
  - apply IH in H as (Hi & Hv' & Hex); split; [right; exact Hi|split; [exact Hv'|exact Hex]].
  - destruct (find_ds E (Some s0) qname pds false) as [e|ds] eqn:Efd.
    + apply IH in H as (Hi & Hv' & Hex); split; [right; exact Hi|split; [exact Hv'|exact Hex]].
    + destruct ds as [|d0 ds'].
      * destruct (unsigned_is_bogus E qname pds zone); [apply IH in H as (Hi & Hv' & Hex); split; [right; exact Hi|split; [exact Hv'|exact Hex]]|discriminate].
      * destruct (verify_dnssec E s0 resp (d0 :: ds')) as [b [e|]] eqn:Ev.
        -- apply IH in H as (Hi & Hv' & Hex); split; [right; exact Hi|split; [exact Hv'|exact Hex]].
        -- injection H as <- <-. split; [left; reflexivity|]. split; [exact Evs|].
           exists (d0 :: ds'). split; [exact Efd|]. split; [discriminate|exact Ev].
Qed.

Lemma signer_loop_insecure E qname resp pds zone signers last :
  signer_loop E qname resp pds zone signers last = SInsecure ->
  exists s, In s signers /\ validate_signer s qname = None /\ find_ds E (Some s) qname pds false = Ok [] /\
            unsigned_is_bogus E qname pds zone = false.
Proof.
  revert last. induction signers as [|s0 rest IH]; cbn [signer_loop]; intros last H; [discriminate|].
  destruct (validate_signer s0 qname) eqn:Evs.
  - apply IH in H as (s & Hi & Hrest); exists s; split; [right; exact Hi|exact Hrest].
  - destruct (find_ds E (Some s0) qname pds false) as [e|ds] eqn:Efd.
    + apply IH in H as (s & Hi & Hrest); exists s; split; [right; exact Hi|exact Hrest].
    + destruct ds as [|d0 ds'].
      * destruct (unsigned_is_bogus E qname pds zone) eqn:Ez; [apply IH in H as (s & Hi & Hrest); exists s; split; [right; exact Hi|exact Hrest]|].
        exists s0. split; [left; reflexivity|auto].
      * destruct (verify_dnssec E s0 resp (d0 :: ds')) as [b [e|]]; [apply IH in H as (s & Hi & Hrest); exists s; split; [right; exact Hi|exact Hrest]|discriminate].
Qed.

(* No DNAME leg (the common case; with a leg AD is additionally ANDed with the target's AD). *)
Lemma answer_ad_core E qname qtype cd resp pds zone m :
  dname_target resp = None ->
  validate_answer_core E qname qtype cd resp pds zone = Accept m -> m_ad resp = false ->
  m_ad m = true ->
  cd = false /\ (e_dnssec E = true -> e_anchors E <> []) /\
  exists s ds, In s (find_signers (e_nrank E) (m_ans resp) qname true) /\
    in_zone qname s = true /\
    find_ds E (Some s) qname pds false = Ok ds /\ ds <> [] /\
    verify_dnssec E s resp ds = (true, None) /\
    verify_wildcard (fun nc => e_wild E (m_id resp) (denial_records (filter_zone (m_ns resp) s)) nc s) (m_ans resp) true = (true, None).
Proof.
  intros Hdn Hv Hin Had. unfold validate_answer_core in Hv. rewrite Hdn in Hv.
  assert (Htgt : (if qtype =? T_CNAME then None else @None lookup) = None) by (destruct (qtype =? T_CNAME); reflexivity).
  rewrite Htgt in Hv.
  destruct cd.
  { injection Hv as <-. cbn in Had. congruence. }
  split; [reflexivity|].
  destruct (e_dnssec E && match e_anchors E with [] => true | _ => false end) eqn:Ea; [discriminate|].
  split.
  { intros Hd Hn. rewrite Hd, Hn in Ea. discriminate. }
  destruct (find_signers (e_nrank E) (m_ans resp) qname true) as [|s0 sl] eqn:Es.
  { destruct (is_zone_secure E qname pds zone && negb (proven_insecure_delegation E zone qname pds)); [discriminate|].
    injection Hv as <-. cbn in Had. congruence. }
  destruct (signer_loop E qname resp pds zone (s0 :: sl) None) as [e| |ok s] eqn:El; [discriminate| |].
  { injection Hv as <-. cbn in Had. congruence. }
  destruct ok.
  - destruct (verify_wildcard (fun nc => e_wild E (m_id resp) (denial_records (filter_zone (m_ns resp) s)) nc s) (m_ans resp) true) as [sec [e|]] eqn:Ew; [discriminate|].
    injection Hv as <-. cbn in Had. subst sec.
    apply signer_loop_verified in El as (Hs & Hvs & ds & Hfd & Hne & Hvd).
    exists s, ds. repeat split; auto.
    unfold validate_signer in Hvs. destruct (in_zone qname s); [reflexivity|discriminate].
  - injection Hv as <-. cbn in Had. discriminate.
Qed.

Theorem answer_ad_partial_lemma E qname qtype cd resp0 pds zone m :
  let resp := bailiwick zone resp0 in
  dname_target resp = None ->
  validate_answer E qname qtype cd resp0 pds zone = Accept m -> m_ad resp0 = false ->
  m_ad m = true ->
  cd = false /\ (e_dnssec E = true -> e_anchors E <> []) /\
  exists s ds, In s (find_signers (e_nrank E) (m_ans resp) qname true) /\
    in_zone qname s = true /\
    find_ds E (Some s) qname pds false = Ok ds /\ ds <> [] /\
    verify_dnssec E s resp ds = (true, None) /\
    verify_wildcard (fun nc => e_wild E (m_id resp) (denial_records (filter_zone (m_ns resp) s)) nc s) (m_ans resp) true = (true, None).
Proof.
  intros resp Hdn Hv Hin Had. eapply answer_ad_core; eauto.
Qed.


(* ---- what the RFC 4035 §5.3.4 next-closer check is shown (seeded change C01-7) ----
   VerifyRRSIG skips authority records owned outside the signer's zone (referral remnants), so nobody has
   validated them; nextCloserDeniedWithWork's NSEC branch binds nothing to a zone.  answer() therefore filters the
   authority section to the validated signer BEFORE the wildcard step.  In the model the verifier's input is
   [denial_records (filter_zone (m_ns resp) s)]: *)
Lemma denial_view_in_signer_zone_lemma ns s r :
  In r (denial_records (filter_zone ns s)) ->
  In r ns /\ in_zone (r_owner r) s = true /\
  (forall nx, r_rd r = RdNsec nx -> in_zone nx s = true) /\
  ((r_type r =? T_NSEC) || (r_type r =? T_NSEC3)) = true.
Proof.
  unfold denial_records, filter_zone. intros H.
  apply filter_In in H as [H Ht]. apply filter_In in H as [Hin Hz].
  apply andb_true_iff in Hz as [Hz Hn].
  split; [exact Hin|]. split; [exact Hz|]. split; [|exact Ht].
  intros nx Hrd. rewrite Hrd in Hn. exact Hn.
Qed.

(* padding the authority section with records owned outside the signer's zone — signed by somebody else or
   not at all — changes nothing of what the next-closer check sees, wherever the padding is placed *)
Lemma foreign_padding_inert_lemma ns pre post s :
  (forall r, In r (pre ++ post) -> in_zone (r_owner r) s = false) ->
  denial_records (filter_zone (pre ++ ns ++ post) s) = denial_records (filter_zone ns s).
Proof.
  intros Hf. unfold filter_zone.
  assert (Hnil : forall l, (forall r, In r l -> in_zone (r_owner r) s = false) ->
            filter (fun r => in_zone (r_owner r) s && match r_rd r with RdNsec nx => in_zone nx s | _ => true end) l = []).
  { induction l as [|x l IH]; intros Hl; [reflexivity|]. cbn [filter].
    rewrite (Hl x (or_introl eq_refl)). cbn. apply IH. intros r Hr. apply Hl. right. exact Hr. }
  rewrite !filter_app.
  rewrite (Hnil pre), (Hnil post).
  - cbn [app]. rewrite app_nil_r. reflexivity.
  - intros r Hr. apply Hf. apply in_or_app. right. exact Hr.
  - intros r Hr. apply Hf. apply in_or_app. left. exact Hr.
Qed.

(* …and so does an NSEC owned inside the zone whose next name points out of it (a span forged to straddle qname) *)
Lemma straddling_nsec_inert_lemma ns s r nx :
  r_rd r = RdNsec nx -> in_zone nx s = false ->
  denial_records (filter_zone (r :: ns) s) = denial_records (filter_zone ns s).
Proof.
  intros Hrd Hnx. unfold filter_zone. cbn [filter]. rewrite Hrd, Hnx, andb_false_r. reflexivity.
Qed.

(* the whole validator, not only the view: with the same oracles, answer() gives the same verdict whether or not
   foreign NSEC/NSEC3 padding accompanies the answer — provided the signature pass gives the same verdict, which
   is what [verify_rrsig]'s skip of out-of-zone authority records is for (collect, Proofs_sig) *)
Lemma wildcard_step_ignores_foreign_padding_lemma E id ans ns pre post s :
  (forall r, In r (pre ++ post) -> in_zone (r_owner r) s = false) ->
  verify_wildcard (fun nc => e_wild E id (denial_records (filter_zone (pre ++ ns ++ post) s)) nc s) ans true =
  verify_wildcard (fun nc => e_wild E id (denial_records (filter_zone ns s)) nc s) ans true.
Proof. intros Hf. rewrite (foreign_padding_inert_lemma ns pre post s Hf). reflexivity. Qed.

(* the seeded variant — the check run on the unfiltered section — is shown the foreign record *)
Example unfiltered_view_is_shown_the_foreign_nsec :
  let z := [5; 1] in let sib_lo := [4; 1] in let sib_hi := [6; 1] in
  let foreign := mk_rr sib_lo T_NSEC 1 9 (RdNsec sib_hi) in
  denial_records (filter_zone [foreign] z) = [] /\ denial_records [foreign] = [foreign].
Proof. vm_compute. split; reflexivity. Qed.

(* ------------------------------------------- answer(): AD=1 means zone-signed data *)
Section AnswerSound.
  Variable honest : name -> N -> Prop.
  Variable zsigned : name -> signed -> Prop.

  Lemma verify_dnssec_root_own E resp pds :
    root_own [] resp = true -> verify_dnssec E [] resp pds = verify_root_keys E resp.
  Proof.
    unfold root_own, own_query, verify_dnssec. intros H. rewrite andb_true_r in H. rewrite H. reflexivity.
  Qed.

  Theorem answer_ad_sound_lemma E qname qtype cd resp0 pds zone m :
    let resp := bailiwick zone resp0 in
    (forall z l, unforgeable (honest z) (zsigned z) l) ->
    (forall z l, publishes_own_keys (honest z) (zsigned z) l) ->
    (forall k, In k (e_anchors E) -> honest [] (k_mat k)) ->
    (forall z km, e_key E z = LMsg km -> forall k, In k (keys_of_msg z km) -> honest z (k_mat k)) ->
    (forall s ds, find_ds E (Some s) qname pds false = Ok ds ->
       forall d k, In d ds -> ds_binds d k -> honest s (k_mat k)) ->
    dname_target resp = None ->
    validate_answer E qname qtype cd resp0 pds zone = Accept m -> m_ad resp0 = false -> m_ad m = true ->
    exists s, in_zone qname s = true /\
      let dn := dnames_of s (m_ans resp) (m_ns resp) in
      forall r, In r (m_ans resp) -> is_sig r = false -> is_synth dn r = false ->
        in_zone (r_owner r) s = true /\
        exists set, vouched_set (zsigned s) (e_now E) s (m_ans resp) (m_ns resp) dn r set.
  Proof.
    intros resp Hforge Hkeys Hanch Hstore Hprov Hdn Hv Hin Had.
    destruct (answer_ad_core E qname qtype cd resp pds zone m Hdn Hv Hin Had) as (_ & _ & s & ds & _ & Hz & Hfd & _ & Hvd & _).
    exists s. split; [exact Hz|]. cbn zeta.
    destruct (root_own s resp) eqn:Ero.
    - assert (s = []) as -> by (unfold root_own in Ero; apply andb_true_iff in Ero as [_ E1]; destruct s; [reflexivity|discriminate]).
      rewrite (verify_dnssec_root_own E resp ds Ero) in Hvd.
      exact (proj1 (verify_root_keys_sound (honest []) (zsigned []) E resp Hanch (Hforge [] _) Hvd)).
    - refine (proj1 (verify_dnssec_sound_lemma (honest s) (zsigned s) E s resp ds Ero (Hprov s ds Hfd) _ (Hforge s _) Hvd)).
      destruct (own_query s resp); [split; [apply Hforge|apply Hkeys]|apply Hstore].
  Qed.

  Lemma lookup_ds_ok E n cd m : lookup_ds E n cd = Ok m -> e_ds E n cd = LMsg m.
  Proof.
    unfold lookup_ds. destruct (e_ds E n cd) as [i|m0]; [discriminate|].
    destruct (m_ans m0), (m_ns m0); try discriminate; intros H; injection H as <-; reflexivity.
  Qed.

  (* where findDS takes the signer's DS set from *)
  Lemma find_ds_signer_cases E s qname pds ds :
    find_ds E (Some s) qname pds false = Ok ds ->
    (s = [] /\ pds = [] /\ ds_from_root_keys E = Ok ds) \/
    (pds = [] /\ ds = []) \/
    (exists d rest, pds = d :: rest /\ r_owner d = s /\ ds = pds) \/
    (exists d rest dm, pds = d :: rest /\ r_owner d <> s /\ e_ds E s false = LMsg dm /\
                       ds = if m_ad dm then extract (m_ans dm) (Some s) T_DS else []).
  Proof.
    unfold find_ds. destruct s as [|l0 sl]; destruct pds as [|d rest]; intros H.
    - left. auto.
    - destruct (name_eqb (r_owner d) []) eqn:En.
      + apply name_eqb_eq in En. injection H as <-. right. right. left. eauto.
      + right. right. right. destruct (lookup_ds E [] false) as [e|dm] eqn:El; [discriminate|]. injection H as <-. cbn [orb].
        apply lookup_ds_ok in El.
        exists d, rest, dm. split; [reflexivity|]. split; [intros Hc; rewrite Hc, name_eqb_refl in En; discriminate|]. split; [exact El|reflexivity].
    - injection H as <-. right. left. auto.
    - destruct (name_eqb (r_owner d) (l0 :: sl)) eqn:En.
      + apply name_eqb_eq in En. injection H as <-. right. right. left. eauto.
      + right. right. right. destruct (lookup_ds E (l0 :: sl) false) as [e|dm] eqn:El; [discriminate|]. injection H as <-. cbn [orb].
        apply lookup_ds_ok in El.
        exists d, rest, dm. split; [reflexivity|]. split; [intros Hc; rewrite Hc, name_eqb_refl in En; discriminate|]. split; [exact El|reflexivity].
  Qed.

  (* answer_ad_sound with the DS provenance split by source: the only thing the code does not supply is
     that the sub-query DS answer used as a trust link carried AD (F9) *)
  Theorem answer_ad_sound_min_lemma E qname qtype cd resp0 pds zone m :
    let resp := bailiwick zone resp0 in
    (forall z l, unforgeable (honest z) (zsigned z) l) ->
    (forall z l, publishes_own_keys (honest z) (zsigned z) l) ->
    (forall k, In k (e_anchors E) -> honest [] (k_mat k)) ->
    (* descent invariant: the inherited DS set is authentic for the zone it names (chain_sound_depth, referral_ds_authentic) *)
    (forall d rest, pds = d :: rest -> forall d' k, In d' pds -> ds_binds d' k -> honest (r_owner d) (k_mat k)) ->
    (* store invariants: what was stored went through the validator (chain_sound; this theorem, recursively, for DS questions) *)
    (forall z km, e_key E z = LMsg km -> forall k, In k (keys_of_msg z km) -> honest z (k_mat k)) ->
    (forall z dm, e_ds E z false = LMsg dm -> m_ad dm = true ->
       forall d k, In d (extract (m_ans dm) (Some z) T_DS) -> ds_binds d k -> honest z (k_mat k)) ->
    (* nothing more: since the F9 repair findDS itself drops a sub-query DS answer that does not carry AD *)
    dname_target resp = None ->
    validate_answer E qname qtype cd resp0 pds zone = Accept m -> m_ad resp0 = false -> m_ad m = true ->
    exists s, in_zone qname s = true /\
      let dn := dnames_of s (m_ans resp) (m_ns resp) in
      forall r, In r (m_ans resp) -> is_sig r = false -> is_synth dn r = false ->
        in_zone (r_owner r) s = true /\
        exists set, vouched_set (zsigned s) (e_now E) s (m_ans resp) (m_ns resp) dn r set.
  Proof.
    intros resp Hforge Hkeys Hanch Hpds Hstore Hstoreds Hdn Hv Hin Had.
    destruct (answer_ad_core E qname qtype cd resp pds zone m Hdn Hv Hin Had) as (_ & _ & s & ds & _ & Hz & Hfd & Hne & Hvd & _).
    exists s. split; [exact Hz|]. cbn zeta.
    assert (Hauth : forall d k, In d ds -> ds_binds d k -> honest s (k_mat k)).
    { destruct (find_ds_signer_cases E s qname pds ds Hfd) as [(-> & _ & Hr)|[(_ & ->)|[(d & rest & Hp & Ho & ->)|(d & rest & dm & Hp & Ho & Hd & Hds)]]].
      - exact (root_ds_authentic honest E ds Hanch Hr).
      - contradiction.
      - intros d' k Hd' Hb. rewrite <- Ho. eapply Hpds; eauto.
      - destruct (m_ad dm) eqn:Ead; subst ds; [|exfalso; apply Hne; reflexivity].
        intros d' k Hd' Hb. eapply Hstoreds; eauto. }
    destruct (root_own s resp) eqn:Ero.
    - assert (s = []) as -> by (unfold root_own in Ero; apply andb_true_iff in Ero as [_ E1]; destruct s; [reflexivity|discriminate]).
      rewrite (verify_dnssec_root_own E resp ds Ero) in Hvd.
      exact (proj1 (verify_root_keys_sound (honest []) (zsigned []) E resp Hanch (Hforge [] _) Hvd)).
    - refine (proj1 (verify_dnssec_sound_lemma (honest s) (zsigned s) E s resp ds Ero Hauth _ (Hforge s _) Hvd)).
      destruct (own_query s resp); [split; [apply Hforge|apply Hkeys]|apply Hstore].
  Qed.
End AnswerSound.

(* Since the F9 repair (findDS: an answer the sub-query's own validation did not authenticate supplies no trust link)
   every non-empty DS set findDS hands to verifyDNSSEC is the inherited one, the anchors', or taken from a sub-query
   answer that carries AD. *)
Lemma trust_link_provenance_lemma E s qname pds ds :
  find_ds E (Some s) qname pds false = Ok ds -> ds <> [] -> ds_provenance_ok E s pds ds.
Proof.
  intros H Hne. unfold ds_provenance_ok.
  destruct (find_ds_signer_cases E s qname pds ds H) as [(-> & _ & Hr)|[(_ & ->)|[(d & rest & Hp & Ho & ->)|(d & rest & dm & Hp & Ho & Hd & Hds)]]].
  - right. left. exact Hr.
  - contradiction.
  - left. reflexivity.
  - destruct (m_ad dm) eqn:Ead; subst ds; [|contradiction].
    right. right. exists dm. auto.
Qed.

(* unsigned data is accepted only when the zone is not secure or an insecure delegation is proven *)
Theorem unsigned_only_when_insecure_lemma E qname qtype resp0 pds zone m :
  let resp := bailiwick zone resp0 in
  dname_target resp = None ->
  validate_answer E qname qtype false resp0 pds zone = Accept m ->
  find_signers (e_nrank E) (m_ans resp) qname true = [] ->
  is_zone_secure E qname pds zone = false \/ proven_insecure_delegation E zone qname pds = true.
Proof.
  intros resp Hdn Hv Hs. unfold validate_answer, validate_answer_core in Hv. fold resp in Hv. rewrite Hdn, Hs in Hv.
  assert (Htgt : (if qtype =? T_CNAME then None else @None lookup) = None) by (destruct (qtype =? T_CNAME); reflexivity).
  rewrite Htgt in Hv.
  destruct (e_dnssec E && match e_anchors E with [] => true | _ => false end); [discriminate|].
  destruct (is_zone_secure E qname pds zone); [|left; reflexivity].
  destruct (proven_insecure_delegation E zone qname pds); [right; reflexivity|discriminate].
Qed.

(* a proven insecure delegation rests on a DS-denial response that verifyDNSSEC accepted *)
Lemma pid_loop_true E qname fuel n signer ds :
  pid_loop E qname fuel n signer ds = true ->
  exists signer' ds' cand dsset, authenticated_delegation_ds E signer' cand ds' = Ok (dsset, true).
Proof.
  revert n signer ds. induction fuel as [|f IH]; cbn [pid_loop]; intros n signer ds H; [discriminate|].
  destruct (length qname <? n)%nat; [discriminate|].
  destruct (authenticated_delegation_ds E signer (lastn n qname) ds) as [e|[dsset ins]] eqn:Ea; [discriminate|].
  destruct ins; [eauto|].
  destruct dsset; [discriminate|]. eapply IH. exact H.
Qed.
Lemma authenticated_delegation_verified E signer child pds dsset ins :
  authenticated_delegation_ds E signer child pds = Ok (dsset, ins) ->
  exists m, lookup_ds E child true = Ok m /\ verify_dnssec E signer m pds = (true, None).
Proof.
  unfold authenticated_delegation_ds. destruct (lookup_ds E child true) as [e|m]; [discriminate|].
  destruct (verify_dnssec E signer m pds) as [[|] [e|]] eqn:Ev; try discriminate. intros _. exists m. split; [reflexivity|exact Ev].
Qed.
Theorem insecure_needs_validated_proof_lemma E zone qname pds :
  proven_insecure_delegation E zone qname pds = true ->
  exists signer ds child m, lookup_ds E child true = Ok m /\ verify_dnssec E signer m ds = (true, None).
Proof.
  unfold proven_insecure_delegation. destruct (name_eqb qname _ || _); [discriminate|].
  intros H. apply pid_loop_true in H as (s & ds & cand & dsset & Ha).
  apply authenticated_delegation_verified in Ha as (m & ? & ?). exists s, ds, cand, m. auto.
Qed.

(* --------------------------------------------------- fail closed without anchors *)
Theorem no_anchor_fail_closed_lemma E qname qtype resp pds zone :
  e_dnssec E = true -> e_anchors E = [] ->
  (exists e, validate_answer E qname qtype false resp pds zone = Fail e /\ (e = ETrustAnchorsUnavailable \/ exists i, e = EDnameLeg i)) /\
  (exists e, validate_negative E qname qtype false resp pds zone = Fail e /\ (e = ETrustAnchorsUnavailable \/ e = EQuestion)) /\
  (forall q, validate_delegation E false resp q pds zone = Er ETrustAnchorsUnavailable).
Proof.
  intros Hd Ha. split; [|split].
  - unfold validate_answer, validate_answer_core. rewrite Hd, Ha. cbn.
    destruct (if qtype =? T_CNAME then None else match dname_target (bailiwick zone resp) with Some t => Some (e_dname E t qtype false) | None => None end) as [[i|t]|];
      eauto.
  - unfold validate_negative. rewrite Hd, Ha. cbn. destruct (negb _); eauto.
  - intros q. unfold validate_delegation. rewrite Hd, Ha. reflexivity.
Qed.

(* every failure is told to an EDNS client as an RFC 8914 code *)
Definition ede_known (c : N) : Prop := c = 0 \/ c = 6 \/ c = 7 \/ c = 9 \/ c = 10 \/ c = 12.
Lemma ede_of_model_errors :
  Forall (fun e => ede_known (ede e))
    [ENoDNSKEY; EMissingKSK; EFailedToConvertKSK; EMismatchingDS; ENoSignatures; EMissingDNSKEY;
     EInvalidSignaturePeriod; EMissingSigned; EDSRecords; ETrustAnchorsUnavailable; ENSECMissingCoverage;
     EWildcardNoDenial; EAlg; ESig; EPack; EDSSetEmpty; EDSNotFound; EQuestion].
Proof. repeat apply Forall_cons; try apply Forall_nil; vm_compute; tauto. Qed.

(* ----------------------------------------------------------- tamper algebra *)
Section Tamper.
  Variable honest : N -> Prop.
  Variable zone_signed : signed -> Prop.

  (* a record the adversary can write on its own: any record whose signature body, if any, is junk
     or made with material that is not the zone's *)
  Definition adv_rr (r : rr) : Prop :=
    forall s m sd, sig_of r = Some s -> s_body s = SigBy m sd -> ~ honest m.

  (* field edits keep the signature BODY (the octets the zone's signer produced) or replace it *)
  Definition same_body_or_adv (r r' : rr) : Prop :=
    adv_rr r' \/ (forall s', sig_of r' = Some s' -> exists s, sig_of r = Some s /\ s_body s' = s_body s).

  Inductive tamper : list rr -> list rr -> Prop :=
  | T_id l : tamper l l
  | T_drop l1 r l2 : tamper (l1 ++ r :: l2) (l1 ++ l2)                        (* drop a record / signature / DS / NSEC *)
  | T_inject l1 r l2 : adv_rr r -> tamper (l1 ++ l2) (l1 ++ r :: l2)           (* foreign or forged record, foreign-signer RRSIG *)
  | T_edit l1 r r' l2 : same_body_or_adv r r' -> tamper (l1 ++ r :: l2) (l1 ++ r' :: l2)
      (* alter record data, owner, class; alter any RRSIG field: signer name, labels, window,
         type covered, key tag, algorithm; flip signature octets *)
  | T_dup l1 r l2 : tamper (l1 ++ r :: l2) (l1 ++ r :: r :: l2)                (* replay inside the message *)
  | T_swap l1 a b l2 : tamper (l1 ++ a :: b :: l2) (l1 ++ b :: a :: l2)        (* reorder *)
  | T_trans l1 l2 l3 : tamper l1 l2 -> tamper l2 l3 -> tamper l1 l3.           (* any combination *)

  Lemma tamper_unforgeable l l' : tamper l l' -> unforgeable honest zone_signed l -> unforgeable honest zone_signed l'.
  Proof.
    induction 1; intros Hu; auto.
    - intros x s m sd Hin. apply Hu. apply in_app_iff in Hin as [?|?]; apply in_app_iff; [left|right; right]; auto.
    - intros x s m sd Hin Hs Hb Hh. apply in_app_iff in Hin as [Hin|[<-|Hin]].
      + eapply Hu; eauto. apply in_app_iff; auto.
      + exfalso. eapply H; eauto.
      + eapply Hu; eauto. apply in_app_iff; auto.
    - intros x s m sd Hin Hs Hb Hh. apply in_app_iff in Hin as [Hin|[<-|Hin]].
      + eapply Hu; eauto. apply in_app_iff; auto.
      + destruct H as [Hadv|Hsame].
        * exfalso. eapply Hadv; eauto.
        * destruct (Hsame s Hs) as (s0 & Hs0 & Hbody).
          eapply (Hu r s0 m sd); [apply in_app_iff; right; left; reflexivity|exact Hs0|congruence|exact Hh].
      + eapply Hu; eauto. apply in_app_iff; right; right; auto.
    - intros x s m sd Hin. apply Hu. apply in_app_iff in Hin as [?|[<-|[<-|?]]]; apply in_app_iff; cbn; auto.
    - intros x s m sd Hin. apply Hu. apply in_app_iff in Hin as [?|[<-|[<-|?]]]; apply in_app_iff; cbn; auto.
  Qed.

  (* whatever the adversary does to a genuine response (ans ++ ns seen as one record list), the
     validator either refuses it or every RRset it lets through is one the zone's signer signed, in
     exactly that composition, inside its validity window *)
  Theorem tamper_servfail_lemma nrank now signer keys ans0 ns0 ans ns :
    (forall k, In k keys -> honest (k_mat k)) ->
    unforgeable honest zone_signed (ans0 ++ ns0) ->
    tamper (ans0 ++ ns0) (ans ++ ns) ->
    (exists e, verify_rrsig nrank now signer keys ans ns = (false, Some e)) \/
    (let dn := dnames_of signer ans ns in
     (forall r, In r ans -> is_sig r = false -> is_synth dn r = false ->
        in_zone (r_owner r) signer = true /\ exists set, vouched_set zone_signed now signer ans ns dn r set) /\
     (forall r, In r ns -> passes signer dn true r = true -> exists set, vouched_set zone_signed now signer ans ns dn r set)).
  Proof.
    intros Hk Hu Ht.
    destruct (verify_rrsig nrank now signer keys ans ns) as [b [e|]] eqn:Ev.
    - left. exists e. destruct b; [|reflexivity].
      (* (true, Some _) never happens *)
      exfalso. unfold verify_rrsig in Ev. destruct keys; [discriminate|].
      destruct (collect signer _ false ans [] false) as [g1 b1].
      destruct (collect signer _ true ns g1 b1) as [g b2].
      destruct b2; [discriminate|]. destruct g; [discriminate|].
      destruct (filter is_sig ans ++ filter is_sig ns); [discriminate|].
      destruct (check_groups _ _ _ _); discriminate.
    - destruct b.
      + right. apply (verify_rrsig_sound_lemma honest zone_signed nrank now signer keys ans ns Ev Hk).
        eapply tamper_unforgeable; eauto.
      + exfalso. unfold verify_rrsig in Ev. destruct keys; [discriminate|].
        destruct (collect signer _ false ans [] false) as [g1 b1].
        destruct (collect signer _ true ns g1 b1) as [g b2].
        destruct b2; [discriminate|]. destruct g; [discriminate|].
        destruct (filter is_sig ans ++ filter is_sig ns); [discriminate|].
        destruct (check_groups _ _ _ _); discriminate.
  Qed.
End Tamper.

(* ------------------------------------------------------ AD toward the client *)
Theorem client_ad_discipline_lemma q ad :
  client_ad q ad = true -> ad = true /\ q_cd q = false /\ (q_do q = true \/ q_ad q = true).
Proof.
  unfold client_ad, noad. destruct (q_cd q), (q_ad q), (q_do q), ad; cbn; intros H; try discriminate; auto.
Qed.
Theorem client_ad_cached_lemma q stored :
  client_ad_cached q stored = true -> stored = true /\ q_cd q = false /\ (q_do q = true \/ q_ad q = true).
Proof.
  unfold client_ad_cached, cache_ad. intros H. apply client_ad_discipline_lemma in H as (H1 & H2 & H3).
  rewrite H2 in H1. auto.
Qed.
Theorem cache_ad_lemma q stored : cache_ad q stored = true -> stored = true /\ q_cd q = false.
Proof. unfold cache_ad. destruct (q_cd q); [discriminate|auto]. Qed.
