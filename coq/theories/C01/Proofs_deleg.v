(* C01 — Resolver.validateDelegation and Resolver.authority: what an inherited DS set, an "insecure"
   verdict and AD on a denial rest on. *)
From Sdns Require Import Common.Base Gen.C01 C01.Model C01.Proofs_sig C01.Proofs_chain C01.Proofs_top.
Open Scope N_scope.

Definition effective_ds (E : env) (pds : list rr) (zone : option name) : res (list rr) :=
  match (match zone with Some z => z | None => [] end), pds with
  | [], [] => ds_from_root_keys E
  | _, _ => Ok pds
  end.
Definition parent_signer (zone : option name) : name := match zone with Some z => z | None => [] end.

Lemma deleg_loop_verified E q resp orig zone signers last s :
  deleg_loop E q resp orig zone signers last = DVerified s ->
  In s signers /\ in_zone q s = true /\
  exists dss, find_ds E (Some s) q orig false = Ok dss /\ dss <> [] /\ has_supported_ds dss = true /\
              verify_dnssec E s resp dss = (true, None).
Proof.
  revert last. induction signers as [|s0 rest IH]; cbn [deleg_loop]; intros last H; [discriminate|].
  assert (Hrec : forall l, deleg_loop E q resp orig zone rest l = DVerified s ->
            In s (s0 :: rest) /\ in_zone q s = true /\
            exists dss, find_ds E (Some s) q orig false = Ok dss /\ dss <> [] /\ has_supported_ds dss = true /\
                        verify_dnssec E s resp dss = (true, None)).
  { intros l Hl. apply IH in Hl as (Hi & Hr). split; [right; exact Hi|exact Hr]. }
  destruct (validate_signer s0 q) eqn:Evs; [eauto|].
  destruct (find_ds E (Some s0) q orig false) as [e|dss] eqn:Efd; [eauto|].
  destruct dss as [|d0 ds'].
  - destruct (unsigned_is_bogus E q orig zone); [eauto|discriminate].
  - destruct (has_supported_ds (d0 :: ds')) eqn:Ehs; cbn [negb] in H; [|discriminate].
    destruct (verify_dnssec E s0 resp (d0 :: ds')) as [[|] [e|]] eqn:Ev; try (eauto; fail); try discriminate.
    injection H as <-. split; [left; reflexivity|]. split.
    + unfold validate_signer in Evs. destruct (in_zone q s0); [reflexivity|discriminate].
    + exists (d0 :: ds'). repeat split; auto. discriminate.
Qed.

Lemma deleg_loop_unverified E q resp orig zone signers last ds :
  deleg_loop E q resp orig zone signers last = DUnverified ds ->
  exists s, In s signers /\ in_zone q s = true /\
    ((find_ds E (Some s) q orig false = Ok [] /\ unsigned_is_bogus E q orig zone = false /\ ds = []) \/
     (exists dss, find_ds E (Some s) q orig false = Ok dss /\ dss <> [] /\ has_supported_ds dss = false /\ ds = dss) \/
     (exists dss, find_ds E (Some s) q orig false = Ok dss /\ dss <> [] /\ verify_dnssec E s resp dss = (false, None) /\ ds = [])).
Proof.
  revert last. induction signers as [|s0 rest IH]; cbn [deleg_loop]; intros last H; [discriminate|].
  assert (Hrec : forall l, deleg_loop E q resp orig zone rest l = DUnverified ds ->
            exists s, In s (s0 :: rest) /\ in_zone q s = true /\
    ((find_ds E (Some s) q orig false = Ok [] /\ unsigned_is_bogus E q orig zone = false /\ ds = []) \/
     (exists dss, find_ds E (Some s) q orig false = Ok dss /\ dss <> [] /\ has_supported_ds dss = false /\ ds = dss) \/
     (exists dss, find_ds E (Some s) q orig false = Ok dss /\ dss <> [] /\ verify_dnssec E s resp dss = (false, None) /\ ds = []))).
  { intros l Hl. apply IH in Hl as (s & Hi & Hr). exists s. split; [right; exact Hi|exact Hr]. }
  destruct (validate_signer s0 q) eqn:Evs; [eauto|].
  assert (Hz : in_zone q s0 = true) by (unfold validate_signer in Evs; destruct (in_zone q s0); [reflexivity|discriminate]).
  destruct (find_ds E (Some s0) q orig false) as [e|dss] eqn:Efd; [eauto|].
  destruct dss as [|d0 ds'].
  - destruct (unsigned_is_bogus E q orig zone) eqn:Ez; [eauto|].
    injection H as <-. exists s0. split; [left; reflexivity|]. split; [exact Hz|]. left. auto.
  - destruct (has_supported_ds (d0 :: ds')) eqn:Ehs; cbn [negb] in H.
    + destruct (verify_dnssec E s0 resp (d0 :: ds')) as [[|] [e|]] eqn:Ev; try (eauto; fail); try discriminate.
      injection H as <-. exists s0. split; [left; reflexivity|]. split; [exact Hz|]. right. right.
      exists (d0 :: ds'). repeat split; auto. discriminate.
    + injection H as <-. exists s0. split; [left; reflexivity|]. split; [exact Hz|]. right. left.
      exists (d0 :: ds'). repeat split; auto. discriminate.
Qed.

(* every way validateDelegation can hand a DS set to the child zone *)
Inductive deleg_reason (E : env) (resp : msg) (q : name) (pds : list rr) (zone : option name) (eds ds : list rr) : Prop :=
| DR_parent_insecure :       (* the parent itself has no usable DS: nothing to prove, the inherited set is passed on *)
    find_signers (e_nrank E) (m_ns resp) q false = [] -> has_supported_ds eds = false -> ds = pds ->
    deleg_reason E resp q pds zone eds ds
| DR_lookup ins :            (* unsigned referral under a secure parent: the DS answer is fetched and validated explicitly *)
    find_signers (e_nrank E) (m_ns resp) q false = [] -> has_supported_ds eds = true ->
    authenticated_delegation_ds E (parent_signer zone) q eds = Ok (ds, ins) ->
    deleg_reason E resp q pds zone eds ds
| DR_signed_ds s dss :       (* the referral carries the child's DS, validated under signer s *)
    In s (find_signers (e_nrank E) (m_ns resp) q false) -> in_zone q s = true ->
    find_ds E (Some s) q eds false = Ok dss -> dss <> [] -> has_supported_ds dss = true ->
    verify_dnssec E s resp dss = (true, None) ->
    ds = extract (m_ns resp) (Some q) T_DS -> ds <> [] ->
    deleg_reason E resp q pds zone eds ds
| DR_signed_denial s dss k b : (* the referral carries a validated NSEC/NSEC3 proof that the cut has no DS *)
    In s (find_signers (e_nrank E) (m_ns resp) q false) -> in_zone q s = true ->
    find_ds E (Some s) q eds false = Ok dss -> dss <> [] -> has_supported_ds dss = true ->
    verify_dnssec E s resp dss = (true, None) ->
    extract (m_ns resp) (Some q) T_DS = [] -> (k = K_DELEG3 \/ k = K_DELEGN) -> e_orc E k (m_id resp) q s = OOk b ->
    ds = [] ->
    deleg_reason E resp q pds zone eds ds
| DR_signer_insecure s :     (* the signer zone itself has no DS and is not expected to be signed *)
    In s (find_signers (e_nrank E) (m_ns resp) q false) -> in_zone q s = true ->
    find_ds E (Some s) q eds false = Ok [] -> unsigned_is_bogus E q eds zone = false -> ds = [] ->
    deleg_reason E resp q pds zone eds ds
| DR_signer_unsupported s dss : (* the signer's DS set is non-empty but nothing in it is usable (RFC 6840 §5.2) *)
    In s (find_signers (e_nrank E) (m_ns resp) q false) -> in_zone q s = true ->
    find_ds E (Some s) q eds false = Ok dss -> dss <> [] ->
    (has_supported_ds dss = false /\ ds = dss \/ verify_dnssec E s resp dss = (false, None) /\ ds = []) ->
    deleg_reason E resp q pds zone eds ds.

Theorem validate_delegation_inv E resp q pds zone ds :
  validate_delegation E false resp q pds zone = Ok ds ->
  (e_dnssec E = true -> e_anchors E <> []) /\
  exists eds, effective_ds E pds zone = Ok eds /\ deleg_reason E resp q pds zone eds ds.
Proof.
  unfold validate_delegation. cbn [negb].
  destruct (e_dnssec E && match e_anchors E with [] => true | _ => false end) eqn:Ea; [discriminate|].
  intros H. split.
  { intros Hd Hn. rewrite Hd, Hn in Ea. discriminate. }
  fold (parent_signer zone) in H.
  assert (Heff : (match parent_signer zone, pds with [], [] => ds_from_root_keys E | _, _ => Ok pds end) = effective_ds E pds zone) by reflexivity.
  rewrite Heff in H.
  destruct (effective_ds E pds zone) as [e|eds]; [discriminate|].
  exists eds. split; [reflexivity|].
  destruct (find_signers (e_nrank E) (m_ns resp) q false) as [|s0 sl] eqn:Es.
  - destruct (has_supported_ds eds) eqn:Eh; cbn [negb] in H.
    + destruct (authenticated_delegation_ds E (parent_signer zone) q eds) as [e|[d ins]] eqn:Ead; [discriminate|].
      injection H as <-. exact (DR_lookup E resp q pds zone eds d ins Es Eh Ead).
    + injection H as <-. exact (DR_parent_insecure E resp q pds zone eds pds Es Eh eq_refl).
  - destruct (deleg_loop E q resp eds zone (s0 :: sl) None) as [e|d|s] eqn:El; [discriminate| |].
    + injection H as <-. apply deleg_loop_unverified in El as (s & Hin & Hz & Hcases).
      rewrite <- Es in Hin.
      destruct Hcases as [(Hf & Hzs & ->)|[(dss & Hf & Hne & Hs & ->)|(dss & Hf & Hne & Hv & ->)]].
      * exact (DR_signer_insecure E resp q pds zone eds [] s Hin Hz Hf Hzs eq_refl).
      * exact (DR_signer_unsupported E resp q pds zone eds dss s dss Hin Hz Hf Hne (or_introl (conj Hs eq_refl))).
      * exact (DR_signer_unsupported E resp q pds zone eds [] s dss Hin Hz Hf Hne (or_intror (conj Hv eq_refl))).
    + apply deleg_loop_verified in El as (Hin & Hz & dss & Hf & Hne & Hs & Hv).
      rewrite <- Es in Hin.
      destruct (extract (m_ns resp) (Some q) T_DS) as [|c0 cl] eqn:Ex.
      * destruct (filter_zone (extract (m_ns resp) None T_NSEC3) s) as [|n0 nl].
        -- destruct (filter_zone (extract (m_ns resp) None T_NSEC) s) as [|m0 ml]; [discriminate|].
           destruct (e_orc E K_DELEGN (m_id resp) q s) as [e|b] eqn:Eo; [discriminate|]. injection H as <-.
           exact (DR_signed_denial E resp q pds zone eds [] s dss K_DELEGN b Hin Hz Hf Hne Hs Hv Ex (or_intror eq_refl) Eo eq_refl).
        -- destruct (e_orc E K_DELEG3 (m_id resp) q s) as [e|b] eqn:Eo; [discriminate|]. injection H as <-.
           exact (DR_signed_denial E resp q pds zone eds [] s dss K_DELEG3 b Hin Hz Hf Hne Hs Hv Ex (or_introl eq_refl) Eo eq_refl).
      * injection H as <-.
        refine (DR_signed_ds E resp q pds zone eds (c0 :: cl) s dss Hin Hz Hf Hne Hs Hv _ _); [symmetry; exact Ex|discriminate].
Qed.

(* "a zone is treated as unsigned only on a validated proof that its parent holds no usable DS":
   under a parent with a usable DS set, an empty DS set for the child comes out only with a validated
   denial (in the referral or fetched), or because the SIGNER named in the referral has no usable DS itself *)
Corollary insecure_child_needs_proof E resp q pds zone :
  validate_delegation E false resp q pds zone = Ok [] ->
  forall eds, effective_ds E pds zone = Ok eds -> has_supported_ds eds = true ->
  (exists s dss k b, verify_dnssec E s resp dss = (true, None) /\ e_orc E k (m_id resp) q s = OOk b) \/
  (exists ins, authenticated_delegation_ds E (parent_signer zone) q eds = Ok ([], ins)) \/
  (exists s, In s (find_signers (e_nrank E) (m_ns resp) q false) /\ in_zone q s = true /\
     ((find_ds E (Some s) q eds false = Ok [] /\ unsigned_is_bogus E q eds zone = false) \/
      exists dss, find_ds E (Some s) q eds false = Ok dss /\ dss <> [] /\ verify_dnssec E s resp dss = (false, None))).
Proof.
  intros H eds He Hs. apply validate_delegation_inv in H as (_ & eds' & He' & R).
  rewrite He in He'. injection He' as <-.
  destruct R as [? Hn ?|ins ? ? Ha|s dss ? ? ? ? ? ? Hd Hne|s dss k b ? ? ? ? ? Hv ? ? Ho ?|s Hin Hz Hf Hzs ?|s dss Hin Hz Hf Hne [[? Hd]|[Hv ?]]].
  - congruence.
  - right. left. eauto.
  - contradiction.
  - left. eauto 6.
  - right. right. exists s. auto.
  - subst dss. contradiction.
  - right. right. exists s. split; [auto|]. split; [auto|]. right. eauto.
Qed.


(* a DS set handed to the child out of a signed referral is authentic, given authentic inputs *)
Section DelegSound.
  Variable honest : name -> N -> Prop.
  Variable zsigned : name -> signed -> Prop.
  Hypothesis Hforge : forall z l, unforgeable (honest z) (zsigned z) l.
  Hypothesis Hdsrule : forall z c a lb o e i t sg ow cl rds, zsigned z (Signed c a lb o e i t sg ow cl rds) -> c = T_DS ->
      forall d k, In (r_id d) rds -> r_type d = T_DS -> ds_binds d k -> honest (r_owner d) (k_mat k).

  Theorem referral_ds_authentic_lemma E resp q s dss :
    m_qtype resp <> T_DNSKEY -> in_zone q s = true ->
    (forall km, e_key E s = LMsg km -> forall k, In k (keys_of_msg s km) -> honest s (k_mat k)) ->
    ds_authentic honest s dss ->
    verify_dnssec E s resp dss = (true, None) ->
    ds_authentic honest q (extract (m_ns resp) (Some q) T_DS).
  Proof.
    intros Hq Hz Hstore Hauth Hv d k Hd Hb.
    unfold extract in Hd. apply filter_In in Hd as [Hd Hf]. apply andb_true_iff in Hf as [Ht Ho].
    apply N.eqb_eq in Ht. apply name_eqb_eq in Ho.
    assert (Hown : own_query s resp = false).
    { unfold own_query. destruct (m_qtype resp =? T_DNSKEY) eqn:E1; [apply N.eqb_eq in E1; contradiction|reflexivity]. }
    assert (Hro : root_own s resp = false) by (unfold root_own; rewrite Hown; reflexivity).
    pose proof (verify_dnssec_sound_lemma (honest s) (zsigned s) E s resp dss Hro Hauth) as S. rewrite Hown in S. cbn zeta in S.
    destruct (S Hstore (Hforge s _) Hv) as [_ Sn].
    assert (Hpass : passes s (dnames_of s (m_ans resp) (m_ns resp)) true d = true).
    { destruct Hb as (tag & alg & dt & dg & rk & Hrd & _).
      unfold passes, is_sig, is_synth. rewrite Ht, Hrd, Ho, Hz. reflexivity. }
    destruct (Sn d Hd Hpass) as [set (Hin & Hall & sr & sg & _ & _ & Hzs & _ & Hm)].
    unfold signed_of in Hzs. destruct set as [|h set']; [destruct Hin|].
    assert (Hh : gk h = gk d).
    { destruct (proj1 (Hall h) (or_introl eq_refl)) as [(_ & _ & G)|(_ & _ & G)]; exact G. }
    unfold sig_matches_rrset in Hm. repeat (apply andb_true_iff in Hm as [Hm ?]).
    rewrite <- Ho.
    eapply Hdsrule; [exact Hzs| |apply in_canon_rds; exact Hin|exact Ht|exact Hb].
    match goal with H : (r_type h =? s_cov sg) = true |- _ => apply N.eqb_eq in H; rewrite <- H end.
    unfold gk in Hh. injection Hh as _ Hty _. congruence.
  Qed.
End DelegSound.

(* ----------------------------------------------------------- authority(): AD on a denial *)
Theorem negative_ad_lemma E qname qtype resp pds zone m :
  validate_negative E qname qtype false resp pds zone = Accept m -> m_ad resp = false -> m_ad m = true ->
  (e_dnssec E = true -> e_anchors E <> []) /\
  exists s ds, In s (find_signers (e_nrank E) (m_ns resp) qname false) /\ in_zone qname s = true /\
    find_ds E (Some s) qname pds false = Ok ds /\ ds <> [] /\ verify_dnssec E s resp ds = (true, None) /\
    (* a negative response carries a denial the verifier for its family accepted as authenticated *)
    ((m_rcode resp =? RC_NXDOMAIN) || ((m_rcode resp =? 0) && match m_ans resp with [] => true | _ => false end) = true ->
       exists k, e_orc E k (m_id resp) qname s = OOk true \/
                 ((k = K_NXDN \/ k = K_NODATAN) /\ exists b, e_orc E k (m_id resp) qname s = OOk b)).
Proof.
  unfold validate_negative. intros H Hin Had.
  destruct (negb _); [discriminate|]. cbn [negb] in H.
  destruct (e_dnssec E && match e_anchors E with [] => true | _ => false end) eqn:Ea; [discriminate|].
  split. { intros Hd Hn. rewrite Hd, Hn in Ea. discriminate. }
  destruct (find_signers (e_nrank E) (m_ns resp) qname false) as [|s0 sl] eqn:Es.
  { destruct (is_zone_secure E qname pds zone && _); [discriminate|]. injection H as <-. congruence. }
  destruct (signer_loop E qname resp pds zone (s0 :: sl) None) as [e| |ok s] eqn:El; [discriminate| |].
  { injection H as <-. congruence. }
  destruct (e_dnssec E && ok) eqn:Eok; cbn [negb] in H; [|injection H as <-; congruence].
  apply andb_true_iff in Eok as [_ ->].
  apply signer_loop_verified in El as (Hs & Hvs & ds & Hfd & Hne & Hvd).
  exists s, ds. repeat split; auto.
  { unfold validate_signer in Hvs. destruct (in_zone qname s); [reflexivity|discriminate]. }
  intros Hneg. rewrite Hneg in H. cbn [negb] in H.
  destruct (filter_zone (extract (m_ns resp) None T_NSEC3) s) as [|n0 nl].
  - destruct (filter_zone (extract (m_ns resp) None T_NSEC) s) as [|m0 ml]; [discriminate|].
    destruct (m_rcode resp =? RC_NXDOMAIN).
    + destruct (e_orc E K_NXDN (m_id resp) qname s) as [e|b] eqn:Eo; [discriminate|]. exists K_NXDN. right. eauto.
    + destruct (e_orc E K_NODATAN (m_id resp) qname s) as [e|b] eqn:Eo; [discriminate|]. exists K_NODATAN. right. eauto.
  - destruct (m_rcode resp =? RC_NXDOMAIN).
    + destruct (e_orc E K_NXD3 (m_id resp) qname s) as [e|b] eqn:Eo; [discriminate|]. injection H as <-. cbn in Had. subst b. exists K_NXD3. left. exact Eo.
    + destruct (e_orc E K_NODATA3 (m_id resp) qname s) as [e|b] eqn:Eo; [discriminate|]. injection H as <-. cbn in Had. subst b. exists K_NODATA3. left. exact Eo.
Qed.
