(* C01 — dnssec.signatureMatchesRRset, machine-translated (Gen/C01.v: go_signatureMatchesRRset with miekg's dns.IsRRset,
   dns.CountLabel / dns.NextLabel and their three loops, dns.CanonicalName, dns.Fqdn, strings.ToLower, strings.EqualFold,
   dnsutil.NameInZone), IS the model's [sig_matches_rrset] — the binding of an RRSIG to the RRset it may cover (class, type
   covered, label count, owner, owner inside the signer's zone) that verify_one_sig, the signature index and spec_rrsig rest
   on.  Stated over the presentation of names (Proofs_zone.v) with labels non-empty, free of '.', backslash and upper-case
   letters, for every representation of the records as dns.RR values / of the signature as a dns.RRSIG that agrees on the
   fields the function reads, and for RRsets as the validator forms them (one owner, type and class). *)
From Sdns Require Import Common.Base Common.GoList Gen.C01 C01.Model C01.Proofs_sig C01.Proofs_zone C01.Proofs_filter.
Open Scope N_scope.

Section Match.
  Variable lbl : N -> list N.
  Hypothesis lbl_nonempty : forall l, lbl l <> [].
  Hypothesis lbl_plain : forall l c, In c (lbl l) -> c <> 46 /\ c <> 92.
  Hypothesis lbl_inj : forall a b, lbl a = lbl b -> a = b.
  Hypothesis lbl_lower : forall l c, In c (lbl l) -> c < 65 \/ 90 < c.

  Notation pres := (pres lbl).
  Notation pres' := (pres' lbl).
  Ltac lens := unfold go_len; repeat (rewrite app_length || cbn [length]); lia.

  (* ---- lists ---- *)
  Lemma idx_at {A} (d : A) X c Y : go_idx d (X ++ c :: Y) (Z.of_nat (length X)) = c.
  Proof.
    unfold go_idx. replace (Z.of_nat (length X) <? 0)%Z with false by (symmetry; apply Z.ltb_ge; lia).
    rewrite Nat2Z.id, app_nth2 by lia. rewrite Nat.sub_diag. reflexivity.
  Qed.

  (* ---- dns.NextLabel on a string whose current label is plain ---- *)
  Lemma scan_label fuel off e : forall L X B m, ~ In 46 L ->
    go_NextLabel_loop1 fuel (length L + m) (X ++ L ++ 46 :: B) off (Z.of_nat (length X)) e
    = go_NextLabel_loop1 fuel m (X ++ L ++ 46 :: B) off (Z.of_nat (length X + length L)) e.
  Proof.
    induction L as [|c L IH]; intros X B m Hn.
    - cbn [length plus app]. rewrite Nat.add_0_r. reflexivity.
    - cbn [length plus]. cbn [go_NextLabel_loop1].
      replace (Z.of_nat (length X) <? go_len (X ++ (c :: L) ++ 46%N :: B) - 1)%Z with true
        by (symmetry; apply Z.ltb_lt; lens).
      cbn [app]. rewrite idx_at.
      assert (Hc : (c =? 46) = false) by (apply N.eqb_neq; intros ->; apply Hn; left; reflexivity).
      rewrite Hc. cbn [negb].
      replace (X ++ c :: L ++ 46 :: B) with ((X ++ [c]) ++ L ++ 46 :: B) by (rewrite <- app_assoc; reflexivity).
      replace (Z.of_nat (length X) + 1)%Z with (Z.of_nat (length (X ++ [c]))) by (rewrite app_length; cbn; lia).
      rewrite IH by (intros H; apply Hn; right; exact H).
      rewrite app_length. cbn [length]. f_equal. lia.
  Qed.

  Lemma at_dot_mid fuel off e X0 b B m : (1 <= fuel)%nat -> b <> 92 -> B <> [] ->
    fst (go_NextLabel_loop1 fuel (S m) ((X0 ++ [b]) ++ 46 :: B) off (Z.of_nat (length (X0 ++ [b]))) e)
    = GoRet ((Z.of_nat (length (X0 ++ [b])) + 1)%Z, false).
  Proof.
    intros Hf Hb HB. cbn [go_NextLabel_loop1].
    replace (Z.of_nat (length (X0 ++ [b])) <? go_len ((X0 ++ [b]) ++ 46%N :: B) - 1)%Z with true.
    2:{ symmetry. apply Z.ltb_lt. unfold go_len. rewrite !app_length. cbn [length]. destruct B; [congruence|cbn [length]; lia]. }
    rewrite idx_at. cbn [N.eqb Pos.eqb negb].
    destruct fuel as [|f]; [lia|]. cbn [go_NextLabel_loop2].
    replace (Z.of_nat (length (X0 ++ [b])) - 1)%Z with (Z.of_nat (length X0)) by (rewrite app_length; cbn; lia).
    replace (0 <=? Z.of_nat (length X0))%Z with true by (symmetry; apply Z.leb_le; lia).
    rewrite <- app_assoc. cbn [app]. rewrite idx_at.
    replace (b =? 92) with false by (symmetry; apply N.eqb_neq; exact Hb). cbn [andb].
    replace (Z.of_nat (length X0) - Z.of_nat (length (X0 ++ [b])))%Z with (-1)%Z by (rewrite app_length; cbn; lia).
    reflexivity.
  Qed.

  Lemma at_dot_end fuel off e X m :
    go_NextLabel_loop1 fuel (S m) (X ++ [46]) off (Z.of_nat (length X)) e = (GoNext, (X ++ [46], off, Z.of_nat (length X), e)).
  Proof.
    cbn [go_NextLabel_loop1].
    replace (Z.of_nat (length X) <? go_len (X ++ [46%N]) - 1)%Z with false
      by (symmetry; apply Z.ltb_ge; unfold go_len; rewrite app_length; cbn; lia).
    reflexivity.
  Qed.

  Lemma lbl_last l : exists L0 b, lbl l = L0 ++ [b] /\ b <> 92.
  Proof.
    destruct (exists_last (lbl_nonempty l)) as (L0 & b & Hl). exists L0, b. split; [exact Hl|].
    apply (lbl_plain l b). rewrite Hl. apply in_or_app. right. left. reflexivity.
  Qed.
  Lemma lbl_no_dot l : ~ In 46 (lbl l).
  Proof. intros H. destruct (lbl_plain l 46 H) as [H1 _]. congruence. Qed.

  Lemma next_label_mid fuel X l B : (length (lbl l) + 2 <= fuel)%nat -> B <> [] ->
    go_NextLabel fuel (X ++ lbl l ++ 46 :: B) (Z.of_nat (length X))
    = Some (Z.of_nat (length X + length (lbl l) + 1), false).
  Proof.
    intros Hf HB. unfold go_NextLabel.
    replace (go_list_eqb N.eqb (X ++ lbl l ++ 46 :: B) []) with false
      by (symmetry; destruct X; [pose proof (lbl_nonempty l); destruct (lbl l); [congruence|reflexivity]|reflexivity]).
    replace fuel with (length (lbl l) + (fuel - length (lbl l)))%nat at 2 by lia.
    rewrite scan_label by apply lbl_no_dot.
    destruct (lbl_last l) as (L0 & b & Hl & Hb).
    replace (fuel - length (lbl l))%nat with (S (fuel - length (lbl l) - 1)) by lia.
    pose proof (at_dot_mid fuel (Z.of_nat (length X)) false (X ++ L0) b B (fuel - length (lbl l) - 1) ltac:(lia) Hb HB) as H.
    replace ((X ++ L0) ++ [b]) with (X ++ lbl l) in H by (rewrite Hl, app_assoc; reflexivity).
    rewrite <- app_assoc in H. rewrite app_length in H.
    destruct (go_NextLabel_loop1 _ _ _ _ _ _) as [c st]. cbn [fst] in H. subst c.
    f_equal. f_equal. lia.
  Qed.

  Lemma next_label_end fuel X l : (length (lbl l) + 1 <= fuel)%nat ->
    go_NextLabel fuel (X ++ lbl l ++ [46]) (Z.of_nat (length X))
    = Some (Z.of_nat (length X + length (lbl l) + 1), true).
  Proof.
    intros Hf. unfold go_NextLabel.
    replace (go_list_eqb N.eqb (X ++ lbl l ++ [46]) []) with false
      by (symmetry; destruct X; [pose proof (lbl_nonempty l); destruct (lbl l); [congruence|reflexivity]|reflexivity]).
    replace fuel with (length (lbl l) + (fuel - length (lbl l)))%nat at 2 by lia.
    rewrite scan_label by apply lbl_no_dot.
    replace (fuel - length (lbl l))%nat with (S (fuel - length (lbl l) - 1)) by lia.
    replace (X ++ lbl l ++ [46]) with ((X ++ lbl l) ++ [46]) by (rewrite <- app_assoc; reflexivity).
    rewrite <- app_length. rewrite at_dot_end. f_equal. f_equal. rewrite app_length. lia.
  Qed.

  (* ---- dns.CountLabel ---- *)
  Lemma count_loop fuel : forall n X labels lf e, n <> [] -> (length n <= lf)%nat ->
    (length (X ++ pres' n) + 2 <= fuel)%nat ->
    fst (go_CountLabel_loop1 fuel lf (X ++ pres' n) labels (Z.of_nat (length X)) e)
    = GoRet (labels + Z.of_nat (length n))%Z.
  Proof.
    induction n as [|l n IH]; intros X labels lf e Hn Hl Hf; [congruence|].
    destruct lf as [|lf]; [cbn in Hl; lia|]. cbn [go_CountLabel_loop1].
    rewrite pres'_cons in *. destruct n as [|l' n'].
    - change (pres' []) with (@nil N) in *.
      rewrite next_label_end by (rewrite !app_length in Hf; cbn [length] in Hf; lia).
      cbn [fst length]. f_equal; lia.
    - rewrite next_label_mid.
      2:{ rewrite !app_length in Hf. cbn [length] in Hf. lia. }
      2:{ rewrite pres'_cons. destruct (lbl l'); discriminate. }
      replace (X ++ lbl l ++ 46 :: pres' (l' :: n')) with ((X ++ lbl l ++ [46]) ++ pres' (l' :: n'))
        by (rewrite <- !app_assoc; reflexivity).
      replace (length X + length (lbl l) + 1)%nat with (length (X ++ lbl l ++ [46])) by (rewrite !app_length; cbn; lia).
      rewrite IH; [|discriminate|cbn [length] in *; lia|].
      + f_equal; cbn [length]; lia.
      + rewrite <- !app_assoc. cbn [app]. exact Hf.
  Qed.

  Lemma len_le_pres' n : (length n <= length (pres' n))%nat.
  Proof. induction n as [|a n IHn]; [cbn; lia|]. rewrite pres'_cons, app_length. cbn [length]. lia. Qed.

  Theorem gen_CountLabel_lemma fuel n : (length (pres n) + 2 <= fuel)%nat ->
    go_CountLabel fuel (pres n) = Some (Z.of_nat (length n)).
  Proof.
    intros Hf. unfold go_CountLabel. destruct n as [|l n]; [reflexivity|].
    cbn [Proofs_zone.pres] in *.
    replace (go_list_eqb N.eqb (pres' (l :: n)) [46]) with false.
    2:{ symmetry. rewrite pres'_cons. pose proof (lbl_nonempty l) as Hne. pose proof (lbl_no_dot l) as Hd.
        destruct (lbl l) as [|c r]; [congruence|]. cbn [app go_list_eqb].
        destruct (c =? 46) eqn:Ec; [apply N.eqb_eq in Ec; subst c; exfalso; apply Hd; left; reflexivity|reflexivity]. }
    pose proof (count_loop fuel (l :: n) [] 0%Z fuel false ltac:(discriminate)) as H.
    cbn [app length Z.of_nat] in H.
    assert (Hlen : (length (l :: n) <= fuel)%nat) by (pose proof (len_le_pres' (l :: n)); lia).
    specialize (H Hlen Hf).
    destruct (go_CountLabel_loop1 _ _ _ _ _ _) as [c st]. cbn [fst] in H. subst c. f_equal.
  Qed.
  (* ---- names under the string functions ---- *)
  Let lower_p := lower_pres lbl lbl_nonempty lbl_plain lbl_inj lbl_lower.
  Let fqdn_p := fqdn_pres lbl lbl_nonempty lbl_plain.
  Let canon_p := canon_pres lbl lbl_nonempty lbl_plain lbl_inj lbl_lower.

  Lemma pres_inj a b : pres a = pres b -> a = b.
  Proof.
    destruct a as [|la a], b as [|lb b]; cbn [Proofs_zone.pres]; intros H; [reflexivity| | |].
    - rewrite pres'_cons in H. pose proof (lbl_nonempty lb). destruct (lbl lb) as [|c [|c' r]]; try congruence; discriminate.
    - rewrite pres'_cons in H. pose proof (lbl_nonempty la). destruct (lbl la) as [|c [|c' r]]; try congruence; discriminate.
    - apply (pres'_inj lbl lbl_plain lbl_inj). exact H.
  Qed.

  Lemma equal_fold_pres a b : go_equal_fold_ascii (pres a) (pres b) = name_eqb a b.
  Proof.
    unfold go_equal_fold_ascii. rewrite !lower_p.
    destruct (name_eqb a b) eqn:E.
    - apply name_eqb_eq in E. subst b. apply go_bytes_eqb_eq. reflexivity.
    - destruct (go_list_eqb N.eqb (pres a) (pres b)) eqn:F; [|reflexivity].
      apply go_bytes_eqb_eq in F. apply pres_inj in F. subst b. rewrite name_eqb_refl in E. discriminate.
  Qed.

  (* ---- records as dns.RR values, the signature as a dns.RRSIG: agreement on what the function reads ---- *)
  Variable emb : rr -> I_RR.
  Hypothesis emb_name : forall r, T_RR_Header_Name (I_RR_Header (emb r)) = pres (r_owner r).
  Hypothesis emb_type : forall r, T_RR_Header_Rrtype (I_RR_Header (emb r)) = r_type r.
  Hypothesis emb_class : forall r, T_RR_Header_Class (I_RR_Header (emb r)) = r_class r.

  Definition sig_agrees (g : Gen.C01.T_RRSIG) (sr : rr) (s : sigd) : Prop :=
    T_RR_Header_Name (T_RRSIG_Hdr g) = pres (r_owner sr) /\ T_RR_Header_Class (T_RRSIG_Hdr g) = r_class sr /\
    T_RRSIG_TypeCovered g = s_cov s /\ T_RRSIG_Labels g = s_labels s /\ T_RRSIG_SignerName g = pres (s_signer s).

  (* an RRset as the validator forms it: one owner, type and class (collect groups by exactly these) *)
  Definition one_rrset (h : rr) (set : list rr) : Prop :=
    forall r, In r set -> r_owner r = r_owner h /\ r_type r = r_type h /\ r_class r = r_class h.

  Lemma isrrset_loop (h : rr) vr : forall rest done lf, (length rest < lf)%nat -> one_rrset h rest ->
    fst (go_IsRRset_loop1 (map emb (done ++ rest)) lf (Z.of_nat (length done)) vr (I_RR_Header (emb h))) = GoNext.
  Proof.
    induction rest as [|x rest IH]; intros done lf Hl Ho.
    - destruct lf as [|lf]; [cbn in Hl; lia|]. cbn [go_IsRRset_loop1].
      replace (Z.of_nat (length done) <? go_len (map emb (done ++ [])))%Z with false
        by (symmetry; apply Z.ltb_ge; unfold go_len; rewrite map_length, List.app_nil_r; lia).
      reflexivity.
    - destruct lf as [|lf]; [cbn in Hl; lia|]. cbn [go_IsRRset_loop1].
      replace (Z.of_nat (length done) <? go_len (map emb (done ++ x :: rest)))%Z with true
        by (symmetry; apply Z.ltb_lt; unfold go_len; rewrite map_length, app_length; cbn; lia).
      rewrite map_app. cbn [map]. replace (length done) with (length (map emb done)) by apply map_length.
      rewrite idx_at. cbv zeta.
      destruct (Ho x (or_introl eq_refl)) as (Eo & Et & Ec).
      rewrite !emb_type, !emb_class, !emb_name, Eo, Et, Ec, !N.eqb_refl.
      replace (go_list_eqb N.eqb (pres (r_owner h)) (pres (r_owner h))) with true
        by (symmetry; apply go_bytes_eqb_eq; reflexivity).
      cbn [negb orb].
      replace (map emb done ++ emb x :: map emb rest) with (map emb ((done ++ [x]) ++ rest))
        by (rewrite !map_app; cbn [map]; rewrite <- app_assoc; reflexivity).
      replace (Z.of_nat (length (map emb done)) + 1)%Z with (Z.of_nat (length (done ++ [x])))
        by (rewrite map_length, app_length; cbn; lia).
      apply IH; [cbn in Hl; lia|]. intros r Hr. apply Ho. right. exact Hr.
  Qed.

  Lemma gen_IsRRset_lemma h t : one_rrset h t -> go_IsRRset (map emb (h :: t)) = true.
  Proof.
    intros Ho. unfold go_IsRRset. cbn [map]. unfold go_len at 1. cbn [length].
    replace (Z.of_nat (S (length (map emb t))) =? 0)%Z with false by (symmetry; apply Z.eqb_neq; lia).
    rewrite go_idx_0. cbv zeta. unfold go_slice_from. cbn [Z.to_nat Pos.to_nat Pos.iter_op Nat.add skipn].
    pose proof (isrrset_loop h (emb h :: map emb t) t [] (S (length (map emb t))) ltac:(rewrite map_length; lia) Ho) as H.
    cbn [app length Z.of_nat] in H.
    destruct (go_IsRRset_loop1 _ _ _ _ _) as [c st]. cbn [fst] in H. subst c. destruct st. reflexivity.
  Qed.

  Theorem gen_signatureMatchesRRset_lemma fuel g sr s set :
    sig_agrees g sr s ->
    (forall h t, set = h :: t -> one_rrset h t /\ (length (pres (r_owner h)) + 2 <= fuel)%nat) ->
    go_signatureMatchesRRset fuel g (map emb set) = Some (sig_matches_rrset sr s set).
  Proof.
    intros (Gn & Gc & Gt & Gl & Gs) Hset. unfold go_signatureMatchesRRset, sig_matches_rrset.
    destruct set as [|h t]; [reflexivity|]. destruct (Hset h t eq_refl) as (Ho & Hf).
    rewrite (gen_IsRRset_lemma h t Ho). unfold go_len at 1. cbn [map length].
    replace (Z.of_nat (S (length (map emb t))) =? 0)%Z with false by (symmetry; apply Z.eqb_neq; lia).
    cbn [negb orb]. rewrite go_idx_0. cbv zeta. unfold go_RRSIG_Header.
    rewrite emb_name, emb_type, emb_class, Gn, Gc, Gt, Gl, Gs, canon_p.
    rewrite (gen_CountLabel_lemma fuel (r_owner h) Hf).
    unfold go_fqdn_ascii. rewrite fqdn_p, lower_p.
    rewrite (gen_NameInZone_lemma lbl lbl_nonempty lbl_plain lbl_inj fuel (r_owner h) (s_signer s) ltac:(lia)).
    rewrite equal_fold_pres.
    replace (Z.of_N (s_labels s) <=? Z.of_nat (length (r_owner h)))%Z with (N.to_nat (s_labels s) <=? length (r_owner h))%nat.
    2:{ destruct (N.to_nat (s_labels s) <=? length (r_owner h))%nat eqn:E; symmetry;
        [apply Nat.leb_le in E; apply Z.leb_le; lia|apply Nat.leb_gt in E; apply Z.leb_gt; lia]. }
    reflexivity.
  Qed.
End Match.
