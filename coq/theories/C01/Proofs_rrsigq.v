(* C01 — the question type rides on every referral and every denial of a walk: it must not decide what they hand down.
   Finding rrsig-question-insecure-delegation: verifyDNSSEC's "we don't need to verify rrsig questions" shortcut answers
   (false, nil) — "cannot be verified, treat as insecure" — for ANY response to an RRSIG question, referrals included. *)
From Sdns Require Import Common.Base Gen.C01 C01.Model C01.Proofs_sig.
Open Scope N_scope.

(* the same response met while resolving a question of another type *)
Definition requery (m : msg) (t : N) : msg := mk_msg (m_id m) (m_qname m) t (m_rcode m) (m_ans m) (m_ns m) (m_ad m).

(* a world: zone [1] has the key K (material 7, tag 99), the walk holds the DS set of [1] that matches it; the referral to
   [2;1] carries a DS RRset nobody signed (its RRSIG is junk) *)
Definition rq_keymsg : msg := mk_msg 5 [1] T_DNSKEY 0 [mk_rr [1] T_DNSKEY 1 20 (RdKey 257 3 15 7 99)] [] false.
Definition rq_pds : list rr := [mk_rr [1] T_DS 1 21 (RdDS 99 15 2 (DigOf 2 [1] 257 3 15 7) 0)].
Definition E_rq : env := mk_env (fun _ => 0) 100%Z true [mk_key [] 1 257 3 15 1 11] (fun _ _ => LErr 1)
   (fun n => if name_eqb n [1] then LMsg rq_keymsg else LErr 2) (fun _ _ _ => LErr 1)
   (fun _ _ _ _ => OErr ENoSignatures) (fun _ _ _ _ => WErr ENoSignatures).
Definition rq_forged_ref (t : N) : msg := mk_msg 6 [3; 2; 1] t 0 []
  [mk_rr [2; 1] T_NS 1 30 RdOther; mk_rr [2; 1] T_DS 1 31 (RdDS 5 15 2 (DigJunk 9) 0);
   mk_rr [2; 1] T_RRSIG 1 32 (RdSig (mk_sig T_DS 15 2 3600 200 0 99 [1] (SigJunk 1) 0))] false.

(* "A zone is treated as unsigned only on a validated proof": what verifyDNSSEC says about a response with an EMPTY answer
   section — every referral, every denial — does not depend on the type of the question being resolved (the DNSKEY question
   about the signer itself apart, which is the signer's own key set).  So a referral hands down the same DS set, and a denial
   gets the same verdict, whether the client asked for A, RRSIG, NSEC, ANY …  Was `…_refuted` before the repair. *)
Theorem referral_verdict_independent_of_qtype_lemma E s resp dss t :
  m_ans resp = [] -> m_qtype resp <> T_DNSKEY -> t <> T_DNSKEY ->
  verify_dnssec E s (requery resp t) dss = verify_dnssec E s resp dss.
Proof.
  intros Ha H1 H2. unfold verify_dnssec, requery. cbn [m_qtype m_qname m_ans m_ns m_id].
  apply N.eqb_neq in H1, H2. rewrite H1, H2, Ha. cbn [andb]. rewrite !andb_false_r. reflexivity.
Qed.

(* the witness of the refuted statement this replaces: refused for both question types now *)
Example forged_referral_refused_for_rrsig_question_too :
  validate_delegation E_rq false (rq_forged_ref 1) [2; 1] rq_pds (Some [1]) = Er ESig /\
  validate_delegation E_rq false (rq_forged_ref T_RRSIG) [2; 1] rq_pds (Some [1]) = Er ESig /\
  has_supported_ds rq_pds = true.
Proof. vm_compute. repeat split; reflexivity. Qed.
