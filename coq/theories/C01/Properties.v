(* C01 — property theorems only.  Each is closed by [exact <lemma>]; the lemmas live in
   Proofs_*.v, the model in Model.v; Gen/C01.v is regenerated from /repo on every run.

   Reading guide.  [honest] = key materials whose private half only the zone's signer holds;
   [zone_signed] = the octet strings that signer really signed; [unforgeable l] = every
   signature term under honest material occurring in l is one of those (Dolev-Yao).  The key tag is
   a free field of every key, so each statement holds for every tag assignment (collisions
   included); [nrank] (Go's string order) and the record order are universally quantified. *)
From Sdns Require Import Common.Base Common.GoList Gen.C01 C01.Model C01.Proofs_sig C01.Proofs_chain C01.Proofs_f9 C01.Proofs_top C01.Proofs_deleg C01.Proofs_pad C01.Proofs_chase C01.Proofs_zone C01.Proofs_descent C01.Proofs_descent_min C01.Proofs_filter C01.Proofs_rrsigq C01.Proofs_match.
Open Scope N_scope.

(* VerifyDS: success means a supported DS of the parent's set is the digest of a key of the child's
   set bound to it by tag, algorithm, class, owner, protocol 3 and the ZONE bit *)
Theorem verify_ds_sound : forall keys dsset u,
  verify_ds keys dsset = (u, None) -> exists d k, In d dsset /\ In k keys /\ ds_binds d k.
Proof. exact verify_ds_sound. Qed.
Print Assumptions verify_ds_sound.

(* VerifyRRSIG: accept + authentic keys ⇒ every Answer record is a signature, a correct DNAME
   synthesis, or belongs to an in-zone RRset that the zone's signer signed in exactly this
   composition (owner up to wildcard expansion, class, type, rdata set) within its validity window;
   likewise every in-zone Authority record other than NS.  Out-of-zone Answer records are fatal. *)
Theorem verify_rrsig_sound : forall (honest : N -> Prop) (zone_signed : signed -> Prop) nrank now signer keys ans ns,
  verify_rrsig nrank now signer keys ans ns = (true, None) ->
  (forall k, In k keys -> honest (k_mat k)) ->
  unforgeable honest zone_signed (ans ++ ns) ->
  let dn := dnames_of signer ans ns in
  (forall r, In r ans -> is_sig r = false -> is_synth dn r = false ->
     in_zone (r_owner r) signer = true /\ exists set, vouched_set zone_signed now signer ans ns dn r set) /\
  (forall r, In r ns -> passes signer dn true r = true -> exists set, vouched_set zone_signed now signer ans ns dn r set).
Proof. exact verify_rrsig_sound_lemma. Qed.
Print Assumptions verify_rrsig_sound.

(* chain_sound: a DNSKEY answer accepted by verifyDNSSEC against an authentic DS set contains only the
   zone's own keys — every key count, every tag assignment.  (True of the code since d62d15b; the validator
   as it was before is kept in Proofs_chain.v with the witness on which it failed, see the Example below.) *)
Theorem chain_sound : chain_sound_statement verify_dnssec.
Proof. exact chain_sound_lemma. Qed.
Print Assumptions chain_sound.

Theorem chain_sound_link : forall (honest : N -> Prop) (zone_signed : signed -> Prop) E signer resp parentDS,
  root_own signer resp = false -> own_query signer resp = true ->
  (forall d k, In d parentDS -> ds_binds d k -> honest (k_mat k)) ->
  unforgeable honest zone_signed (m_ans resp) -> publishes_own_keys honest zone_signed (m_ans resp) ->
  verify_dnssec E signer resp parentDS = (true, None) ->
  forall k, In k (keys_of_msg signer resp) -> honest (k_mat k).
Proof. exact keys_fixed_honest. Qed.
Print Assumptions chain_sound_link.

(* verifyDNSSEC: accept ⇒ every validated RRset was signed by the zone.  Keys fetched through a sub-query are
   the store's; [chain_sound] is what keeps those authentic (they entered through the DNSKEY-answer path). *)
Theorem verify_dnssec_sound : forall (honest : N -> Prop) (zone_signed : signed -> Prop) E signer resp parentDS,
  root_own signer resp = false ->
  (forall d k, In d parentDS -> ds_binds d k -> honest (k_mat k)) ->
  (if own_query signer resp
   then unforgeable honest zone_signed (m_ans resp) /\ publishes_own_keys honest zone_signed (m_ans resp)
   else forall m, e_key E signer = LMsg m -> forall k, In k (keys_of_msg signer m) -> honest (k_mat k)) ->
  unforgeable honest zone_signed (m_ans resp ++ m_ns resp) ->
  verify_dnssec E signer resp parentDS = (true, None) ->
  let dn := dnames_of signer (m_ans resp) (m_ns resp) in
  (forall r, In r (m_ans resp) -> is_sig r = false -> is_synth dn r = false ->
     in_zone (r_owner r) signer = true /\
     exists set, vouched_set zone_signed (e_now E) signer (m_ans resp) (m_ns resp) dn r set) /\
  (forall r, In r (m_ns resp) -> passes signer dn true r = true ->
     exists set, vouched_set zone_signed (e_now E) signer (m_ans resp) (m_ns resp) dn r set).
Proof. exact verify_dnssec_sound_lemma. Qed.
Print Assumptions verify_dnssec_sound.

(* the root's own DNSKEY answer is validated with the configured anchors only *)
Theorem verify_root_keys_sound : forall (honest : N -> Prop) (zone_signed : signed -> Prop) E resp,
  (forall k, In k (e_anchors E) -> honest (k_mat k)) ->
  unforgeable honest zone_signed (m_ans resp ++ m_ns resp) ->
  verify_root_keys E resp = (true, None) ->
  let dn := dnames_of [] (m_ans resp) (m_ns resp) in
  (forall r, In r (m_ans resp) -> is_sig r = false -> is_synth dn r = false ->
     in_zone (r_owner r) [] = true /\
     exists set, vouched_set zone_signed (e_now E) [] (m_ans resp) (m_ns resp) dn r set) /\
  (forall r, In r (m_ns resp) -> passes [] dn true r = true ->
     exists set, vouched_set zone_signed (e_now E) [] (m_ans resp) (m_ns resp) dn r set).
Proof. exact verify_root_keys_sound. Qed.
Print Assumptions verify_root_keys_sound.

(* induction on the referral depth: starting from honest keys at the top, each hop validates the child's DS
   answer with the parent's keys and the child's DNSKEY answer against that DS set; the keys reached at any
   depth are that zone's own — any depth, any key counts, any key tags *)
Theorem chain_sound_depth : forall (honest : name -> N -> Prop) (zsigned : name -> signed -> Prop) E,
  (forall z l, unforgeable (honest z) (zsigned z) l) ->
  (forall z l, publishes_own_keys (honest z) (zsigned z) l) ->
  (forall z c a lb o e i t sg ow cl rds, zsigned z (Signed c a lb o e i t sg ow cl rds) -> c = T_DS ->
      forall d k, In (r_id d) rds -> r_type d = T_DS -> ds_binds d k -> honest (r_owner d) (k_mat k)) ->
  forall hops z keys, keys_honest honest z keys -> chain_ok E z keys hops ->
  let '(c, kc) := last_keys z keys hops in keys_honest honest c kc.
Proof. exact chain_sound_fixed_lemma. Qed.
Print Assumptions chain_sound_depth.

Theorem anchor_ds_authentic : forall (honest : name -> N -> Prop) E ds0,
  (forall k, In k (e_anchors E) -> honest [] (k_mat k)) ->
  ds_from_root_keys E = Ok ds0 -> ds_authentic honest [] ds0.
Proof. exact root_ds_authentic. Qed.
Print Assumptions anchor_ds_authentic.

(* answer_ad_sound: AD=1 ⇒ an ancestor signer exists and every Answer record that is not a signature or a
   correct DNAME synthesis lies in that signer's zone inside an RRset the signer signed in exactly that
   composition and validity window.  Hypotheses, by source of the DS set that authenticated the signer:
     anchor      — the configured anchors are honest;
     inherited   — the DS set in hand is authentic for the zone it names (the descent's invariant:
                   [chain_sound_depth], [referral_ds_authentic]);
     store       — DNSKEY answers in the store went through verifyDNSSEC ([chain_sound]); a DS answer stored
                   WITH AD is authentic (this theorem, one level down);
   Since the repair of finding unsigned-ds-trust-link (F9) the code supplies the rest itself: findDS drops a DS RRset
   taken from a sub-query answer that does not carry AD ([trust_link_provenance]). *)
Theorem answer_ad_sound : forall (honest : name -> N -> Prop) (zsigned : name -> signed -> Prop) E qname qtype cd resp0 pds zone m,
  let resp := bailiwick zone resp0 in
  (forall z l, unforgeable (honest z) (zsigned z) l) ->
  (forall z l, publishes_own_keys (honest z) (zsigned z) l) ->
  (forall k, In k (e_anchors E) -> honest [] (k_mat k)) ->
  (forall d rest, pds = d :: rest -> forall d' k, In d' pds -> ds_binds d' k -> honest (r_owner d) (k_mat k)) ->
  (forall z km, e_key E z = LMsg km -> forall k, In k (keys_of_msg z km) -> honest z (k_mat k)) ->
  (forall z dm, e_ds E z false = LMsg dm -> m_ad dm = true ->
     forall d k, In d (extract (m_ans dm) (Some z) T_DS) -> ds_binds d k -> honest z (k_mat k)) ->
  dname_target resp = None ->
  validate_answer E qname qtype cd resp0 pds zone = Accept m -> m_ad resp0 = false -> m_ad m = true ->
  exists s, in_zone qname s = true /\
    let dn := dnames_of s (m_ans resp) (m_ns resp) in
    forall r, In r (m_ans resp) -> is_sig r = false -> is_synth dn r = false ->
      in_zone (r_owner r) s = true /\
      exists set, vouched_set (zsigned s) (e_now E) s (m_ans resp) (m_ns resp) dn r set.
Proof. exact answer_ad_sound_min_lemma. Qed.
Print Assumptions answer_ad_sound.

(* every non-empty DS set findDS hands to verifyDNSSEC is the inherited one, the anchors', or comes from a sub-query
   answer that was itself authenticated (was refuted before the F9 repair) *)
Theorem trust_link_provenance : forall E s qname pds ds,
  find_ds E (Some s) qname pds false = Ok ds -> ds <> [] -> ds_provenance_ok E s pds ds.
Proof. exact trust_link_provenance_lemma. Qed.
Print Assumptions trust_link_provenance.

(* unconditionally: AD=1 ⇒ not CD, an anchor exists, some RRSIG names an ancestor signer, a non-empty DS
   set was found for it, verifyDNSSEC accepted the response under it, and every wildcard expansion
   carries an authenticated next-closer denial.  (The provenance of that DS set: [trust_link_provenance].) *)
Theorem answer_ad_partial : forall E qname qtype cd resp0 pds zone m,
  let resp := bailiwick zone resp0 in
  dname_target resp = None ->
  validate_answer E qname qtype cd resp0 pds zone = Accept m -> m_ad resp0 = false ->
  m_ad m = true ->
  cd = false /\ (e_dnssec E = true -> e_anchors E <> []) /\
  exists s ds, In s (find_signers (e_nrank E) (m_ans resp) qname true) /\
    in_zone qname s = true /\
    find_ds E (Some s) qname pds false = Ok ds /\ ds <> [] /\
    verify_dnssec E s resp ds = (true, None) /\
    verify_wildcard (fun nc => e_wild E (m_id resp) (denial_records (filter_zone (m_ns resp) s)) nc s) (m_ans resp) true = (true, None).
Proof. exact answer_ad_partial_lemma. Qed.
Print Assumptions answer_ad_partial.

(* RFC 4035 §5.3.4 / "dropped or foreign NSEC or NSEC3": the next-closer check of a wildcard expansion is shown only
   NSEC/NSEC3 records of the authority section that lie inside the zone of the signer verifyDNSSEC has just accepted —
   owner and, for NSEC, next name (the records VerifyRRSIG skipped as out-of-zone were validated by nobody) *)
Theorem wildcard_denial_view_in_signer_zone : forall ns s r,
  In r (denial_records (filter_zone ns s)) ->
  In r ns /\ in_zone (r_owner r) s = true /\
  (forall nx, r_rd r = RdNsec nx -> in_zone nx s = true) /\
  ((r_type r =? T_NSEC) || (r_type r =? T_NSEC3)) = true.
Proof. exact denial_view_in_signer_zone_lemma. Qed.
Print Assumptions wildcard_denial_view_in_signer_zone.

(* …hence padding the authority section, front or back, with any records owned outside that zone (unsigned, or
   signed by a sibling or the parent) leaves the wildcard verdict of answer() what it was: a foreign span over qname
   cannot stand in for the zone's own denial *)
Theorem foreign_padding_inert : forall E id ans ns pre post s,
  (forall r, In r (pre ++ post) -> in_zone (r_owner r) s = false) ->
  verify_wildcard (fun nc => e_wild E id (denial_records (filter_zone (pre ++ ns ++ post) s)) nc s) ans true =
  verify_wildcard (fun nc => e_wild E id (denial_records (filter_zone ns s)) nc s) ans true.
Proof. exact wildcard_step_ignores_foreign_padding_lemma. Qed.
Print Assumptions foreign_padding_inert.

Theorem straddling_nsec_inert : forall ns s r nx,
  r_rd r = RdNsec nx -> in_zone nx s = false ->
  denial_records (filter_zone (r :: ns) s) = denial_records (filter_zone ns s).
Proof. exact straddling_nsec_inert_lemma. Qed.
Print Assumptions straddling_nsec_inert.

(* "padded with foreign records": VerifyRRSIG gives the same verdict with and without authority records owned outside
   the signer's zone; at most the NAME of the error changes, and only when the message proper holds no RRSIG at all while
   the padding does *)
Theorem verify_rrsig_ignores_foreign_authority : forall nrank now signer keys ans ns pre post,
  foreign signer (pre ++ post) ->
  let padded := verify_rrsig nrank now signer keys ans (pre ++ ns ++ post) in
  let plain := verify_rrsig nrank now signer keys ans ns in
  fst padded = fst plain /\ (snd padded = None <-> snd plain = None) /\
  ((filter is_sig (pre ++ post) = [] \/ filter is_sig (ans ++ ns) <> []) -> padded = plain).
Proof. exact verify_rrsig_ignores_foreign_authority_lemma. Qed.
Print Assumptions verify_rrsig_ignores_foreign_authority.

(* …and answer() as a whole: same verdict, same AD, same sections, for every padding (front and back) that lies outside
   the zone of every candidate signer.  This is the statement the seeded change C01-7 falsifies: with the bailiwick filter
   moved behind the next-closer check a foreign span turns Fail EWildcardNoDenial into Accept with AD. *)
Theorem answer_ignores_foreign_authority : forall E qname qtype cd resp pre post pds zone,
  (forall s, In s (find_signers (e_nrank E) (m_ans (bailiwick zone resp)) qname true) -> foreign s (pre ++ post)) ->
  filter is_sig (pre ++ post) = [] ->
  dname_target (bailiwick zone resp) = None ->
  validate_answer E qname qtype cd (pad_ns resp pre post) pds zone = validate_answer E qname qtype cd resp pds zone.
Proof. exact answer_ignores_foreign_authority_lemma. Qed.
Print Assumptions answer_ignores_foreign_authority.

(* the general form — ANY padding owned outside every candidate signer's zone, RRSIGs included, with or without a DNAME
   leg, for a response that arrives with AD clear (setTags): the two outcomes agree for the client ([osim]): both refusals
   (only the error's name may differ), or the same reply — question, rcode, answer section, AD — whose authority sections can
   differ only when the reply carries NO AD (the unvalidated NODATA splice of a DNAME leg lets the section through untouched) *)
Theorem answer_foreign_padding_general : forall E qname qtype cd resp pre post pds zone,
  (forall s, In s (find_signers (e_nrank E) (m_ans (bailiwick zone resp)) qname true) -> foreign s (pre ++ post)) ->
  m_ad resp = false ->
  osim (validate_answer E qname qtype cd (pad_ns resp pre post) pds zone) (validate_answer E qname qtype cd resp pds zone).
Proof. exact answer_foreign_padding_general_lemma. Qed.
Print Assumptions answer_foreign_padding_general.

(* unsigned data is served only when the zone is not secure or an insecure delegation is proven, and that
   proof rests on a DS-denial response verifyDNSSEC accepted *)
Theorem unsigned_only_when_insecure : forall E qname qtype resp0 pds zone m,
  let resp := bailiwick zone resp0 in
  dname_target resp = None ->
  validate_answer E qname qtype false resp0 pds zone = Accept m ->
  find_signers (e_nrank E) (m_ans resp) qname true = [] ->
  is_zone_secure E qname pds zone = false \/ proven_insecure_delegation E zone qname pds = true.
Proof. exact unsigned_only_when_insecure_lemma. Qed.
Print Assumptions unsigned_only_when_insecure.

Theorem insecure_needs_validated_proof : forall E zone qname pds,
  proven_insecure_delegation E zone qname pds = true ->
  exists signer ds child m, lookup_ds E child true = Ok m /\ verify_dnssec E signer m ds = (true, None).
Proof. exact insecure_needs_validated_proof_lemma. Qed.
Print Assumptions insecure_needs_validated_proof.

(* validateDelegation: every way a DS set can be handed to the child zone (six, exhaustive) *)
Theorem validate_delegation_reasons : forall E resp q pds zone ds,
  validate_delegation E false resp q pds zone = Ok ds ->
  (e_dnssec E = true -> e_anchors E <> []) /\
  exists eds, effective_ds E pds zone = Ok eds /\ deleg_reason E resp q pds zone eds ds.
Proof. exact validate_delegation_inv. Qed.
Print Assumptions validate_delegation_reasons.

(* "a zone is treated as unsigned only on a validated proof that its parent holds no usable DS": under a parent
   with a usable DS set the child comes out with an EMPTY DS set only with a validated denial (in the referral
   or fetched), or because the signer named in the referral has no usable DS itself *)
Theorem insecure_child_needs_proof : forall E resp q pds zone,
  validate_delegation E false resp q pds zone = Ok [] ->
  forall eds, effective_ds E pds zone = Ok eds -> has_supported_ds eds = true ->
  (exists s dss k b, verify_dnssec E s resp dss = (true, None) /\ e_orc E k (m_id resp) q s = OOk b) \/
  (exists ins, authenticated_delegation_ds E (parent_signer zone) q eds = Ok ([], ins)) \/
  (exists s, In s (find_signers (e_nrank E) (m_ns resp) q false) /\ in_zone q s = true /\
     ((find_ds E (Some s) q eds false = Ok [] /\ unsigned_is_bogus E q eds zone = false) \/
      exists dss, find_ds E (Some s) q eds false = Ok dss /\ dss <> [] /\ verify_dnssec E s resp dss = (false, None))).
Proof. exact insecure_child_needs_proof. Qed.
Print Assumptions insecure_child_needs_proof.

(* finding rrsig-question-insecure-delegation (repaired): what verifyDNSSEC says about a response with an EMPTY answer section —
   every referral, every denial — does not depend on the type of the question being resolved (the signer's own DNSKEY question
   apart): a referral hands down the same DS set and a denial gets the same verdict whether the client asked for A, RRSIG,
   NSEC, ANY …; the `(false, None)` of insecure_child_needs_proof's last disjunct is no longer reachable through the question
   type.  Was `referral_verdict_independent_of_qtype_refuted`. *)
Theorem referral_verdict_independent_of_qtype : forall E s resp dss t,
  m_ans resp = [] -> m_qtype resp <> T_DNSKEY -> t <> T_DNSKEY ->
  verify_dnssec E s (requery resp t) dss = verify_dnssec E s resp dss.
Proof. exact referral_verdict_independent_of_qtype_lemma. Qed.
Print Assumptions referral_verdict_independent_of_qtype.

(* the DS set a signed referral hands down is authentic for the child (the descent's invariant, one hop) *)
Theorem referral_ds_authentic : forall (honest : name -> N -> Prop) (zsigned : name -> signed -> Prop),
  (forall z l, unforgeable (honest z) (zsigned z) l) ->
  (forall z c a lb o e i t sg ow cl rds, zsigned z (Signed c a lb o e i t sg ow cl rds) -> c = T_DS ->
      forall d k, In (r_id d) rds -> r_type d = T_DS -> ds_binds d k -> honest (r_owner d) (k_mat k)) ->
  forall E resp q s dss,
  m_qtype resp <> T_DNSKEY -> in_zone q s = true ->
  (forall km, e_key E s = LMsg km -> forall k, In k (keys_of_msg s km) -> honest s (k_mat k)) ->
  ds_authentic honest s dss ->
  verify_dnssec E s resp dss = (true, None) ->
  ds_authentic honest q (extract (m_ns resp) (Some q) T_DS).
Proof. exact referral_ds_authentic_lemma. Qed.
Print Assumptions referral_ds_authentic.

(* authority(): AD on a negative response rests on an ancestor signer, a non-empty DS set, verifyDNSSEC's
   acceptance and a denial the verifier of its family accepted (for NSEC3: as fully authenticated, no opt-out) *)
Theorem negative_ad_rests_on_validated_denial : forall E qname qtype resp pds zone m,
  validate_negative E qname qtype false resp pds zone = Accept m -> m_ad resp = false -> m_ad m = true ->
  (e_dnssec E = true -> e_anchors E <> []) /\
  exists s ds, In s (find_signers (e_nrank E) (m_ns resp) qname false) /\ in_zone qname s = true /\
    find_ds E (Some s) qname pds false = Ok ds /\ ds <> [] /\ verify_dnssec E s resp ds = (true, None) /\
    ((m_rcode resp =? RC_NXDOMAIN) || ((m_rcode resp =? 0) && match m_ans resp with [] => true | _ => false end) = true ->
       exists k, e_orc E k (m_id resp) qname s = OOk true \/
                 ((k = K_NXDN \/ k = K_NODATAN) /\ exists b, e_orc E k (m_id resp) qname s = OOk b)).
Proof. exact negative_ad_lemma. Qed.
Print Assumptions negative_ad_rests_on_validated_denial.

(* tamper_servfail: the tamper operators are an inductive type closed under composition (drop, inject
   adversary-made records, edit any field keeping or replacing the signature octets, duplicate, reorder);
   whatever combination is applied to a genuine response, the validator refuses it or everything it
   lets through is what the zone's signer signed — never altered data *)
Theorem tamper_servfail : forall (honest : N -> Prop) (zone_signed : signed -> Prop) nrank now signer keys ans0 ns0 ans ns,
  (forall k, In k keys -> honest (k_mat k)) ->
  unforgeable honest zone_signed (ans0 ++ ns0) ->
  tamper honest (ans0 ++ ns0) (ans ++ ns) ->
  (exists e, verify_rrsig nrank now signer keys ans ns = (false, Some e)) \/
  (let dn := dnames_of signer ans ns in
   (forall r, In r ans -> is_sig r = false -> is_synth dn r = false ->
      in_zone (r_owner r) signer = true /\ exists set, vouched_set zone_signed now signer ans ns dn r set) /\
   (forall r, In r ns -> passes signer dn true r = true -> exists set, vouched_set zone_signed now signer ans ns dn r set)).
Proof. exact tamper_servfail_lemma. Qed.
Print Assumptions tamper_servfail.

Theorem no_anchor_fail_closed : forall E qname qtype resp pds zone,
  e_dnssec E = true -> e_anchors E = [] ->
  (exists e, validate_answer E qname qtype false resp pds zone = Fail e /\ (e = ETrustAnchorsUnavailable \/ exists i, e = EDnameLeg i)) /\
  (exists e, validate_negative E qname qtype false resp pds zone = Fail e /\ (e = ETrustAnchorsUnavailable \/ e = EQuestion)) /\
  (forall q, validate_delegation E false resp q pds zone = Er ETrustAnchorsUnavailable).
Proof. exact no_anchor_fail_closed_lemma. Qed.
Print Assumptions no_anchor_fail_closed.

Theorem failure_has_ede :
  Forall (fun e => ede_known (ede e))
    [ENoDNSKEY; EMissingKSK; EFailedToConvertKSK; EMismatchingDS; ENoSignatures; EMissingDNSKEY;
     EInvalidSignaturePeriod; EMissingSigned; EDSRecords; ETrustAnchorsUnavailable; ENSECMissingCoverage;
     EWildcardNoDenial; EAlg; ESig; EPack; EDSSetEmpty; EDSNotFound; EQuestion].
Proof. exact ede_of_model_errors. Qed.
Print Assumptions failure_has_ede.

(* AD toward the client: only if the response had it, the client did not set CD, and set DO or AD *)
Theorem client_ad_discipline : forall q ad,
  client_ad q ad = true -> ad = true /\ q_cd q = false /\ (q_do q = true \/ q_ad q = true).
Proof. exact client_ad_discipline_lemma. Qed.
Print Assumptions client_ad_discipline.

Theorem client_ad_discipline_cached : forall q stored,
  client_ad_cached q stored = true -> stored = true /\ q_cd q = false /\ (q_do q = true \/ q_ad q = true).
Proof. exact client_ad_cached_lemma. Qed.
Print Assumptions client_ad_discipline_cached.

Theorem cache_clears_ad_on_cd : forall q stored, cache_ad q stored = true -> stored = true /\ q_cd q = false.
Proof. exact cache_ad_lemma. Qed.
Print Assumptions cache_clears_ad_on_cd.

(* replies composed from the caches (alias chase over separately filed entries, decoded path and byte path): AD toward the
   client means no CD, DO or AD set, and EVERY hop of the chase was filed with AD; the path is a chain of alias links *)
Theorem chase_ad_every_hop : forall q st fuel qn path complete,
  walk st fuel qn [] = (path, complete) ->
  forall owners, is_prefix owners path = true -> served_ad q st owners = true ->
  q_cd q = false /\ (q_do q = true \/ q_ad q = true) /\ linked st path /\
  forall n, In n owners -> exists e, cs_find st n = Some e /\ ce_ad e = true.
Proof. exact chase_ad_every_hop_lemma. Qed.
Print Assumptions chase_ad_every_hop.

(* … and each of those bits is a verdict of the validator: in a store filled by filing resolver outcomes, every hop of an AD
   reply stands for an answer validate_answer accepted with AD (what that implies: answer_ad_partial, answer_ad_sound) *)
Theorem served_ad_rests_on_verdicts : forall q st owners (filed : N -> outcome),
  (forall n e, cs_find st n = Some e -> filed_ad (filed n) = Some (ce_ad e)) ->
  served_ad q st owners = true ->
  forall n, In n owners -> exists m, filed n = Accept m /\ m_ad m = true.
Proof. exact served_ad_rests_on_verdicts_lemma. Qed.
Print Assumptions served_ad_rests_on_verdicts.

Theorem one_unauthenticated_hop_clears_ad : forall q st owners n e,
  In n owners -> cs_find st n = Some e -> ce_ad e = false -> served_ad q st owners = false.
Proof. exact one_bad_hop_no_ad_lemma. Qed.
Print Assumptions one_unauthenticated_hop_clears_ad.

(* the reply additionalAnswer composes for a chain that ends — in data or in a DENIAL (the last entry then hands in only the
   rcode and the authority section): AD means the client's flags allow it and EVERY entry that contributed a record, to the
   answer OR to the authority section, was filed with AD *)
Theorem chase_reply_ad_sound : forall q st fuel qn r,
  chase_reply q st fuel qn = Some r -> cr_ad r = true ->
  q_cd q = false /\ (q_do q = true \/ q_ad q = true) /\
  forall n, In n (cr_answer r ++ cr_auth r) -> exists e, cs_find st n = Some e /\ ce_ad e = true.
Proof. exact chase_reply_ad_sound_lemma. Qed.
Print Assumptions chase_reply_ad_sound.

(* a denial at the end of an alias chain is ONE entry's (no alias link, a denial, NXDOMAIN iff the rcode says so), and the
   composed reply carries AD only if that denial itself was filed with AD, however many authenticated aliases led to it *)
Theorem chased_denial_rests_on_its_own_verdict : forall q st fuel qn r,
  chase_reply q st fuel qn = Some r -> (cr_auth r <> [] \/ cr_rcode r = 3) ->
  exists l e, cr_auth r = [l] /\ cs_find st l = Some e /\ ce_next e = None /\ ce_term e <> TData /\
              (cr_rcode r = 3 <-> ce_term e = TNxDomain) /\
              (cr_ad r = true -> ce_ad e = true) /\ (ce_ad e = false -> cr_ad r = false).
Proof. exact chased_denial_rests_on_its_own_verdict_lemma. Qed.
Print Assumptions chased_denial_rests_on_its_own_verdict.

(* the descent (resolve / processAuthoritySection / processDelegation) and the delegation cache: "DS RRset inherited down
   the referral path and cached with each delegation".  If every DS set in the delegation cache was handed down — from the
   root's empty set through referrals validateDelegation accepted, each coherent, strictly below the zone asked and on the
   path to the name — then after ANY walk over ANY transcript of upstream responses the cache still holds only such sets,
   and the walk ended in answer()'s / authority()'s verdict over such a set, in a bare upstream FAILURE rcode (neither NOERROR nor NXDOMAIN) without data, or in
   an error.  (An empty cache is sound: dc_sound_nil; so this covers every history of walks on one resolver.) *)
Theorem descent_keeps_handed_down_ds : forall E q t cd dc resps,
  dc_sound E q cd dc ->
  dc_sound E q cd (dr_cache (resolve_from_cache E q t cd dc resps)) /\
  final_verdict E q t cd (dr_out (resolve_from_cache E q t cd dc resps)).
Proof. exact resolve_from_cache_sound_lemma. Qed.
Print Assumptions descent_keeps_handed_down_ds.

(* AD on the reply of a walk is answer()'s or authority()'s own AD, computed for a zone at or above the name with a DS set
   handed down to that zone (answer_ad_sound / negative_ad_rests_on_validated_denial say what that AD means) *)
Theorem descent_ad_rests_on_handed_down_ds : forall E q t cd dc resps m,
  dc_sound E q cd dc ->
  dr_out (resolve_from_cache E q t cd dc resps) = Accept m -> m_ad m = true ->
  exists zone pds resp, handed_down E q cd zone pds /\ in_zone q zone = true /\
    (validate_answer E q t cd resp pds (Some zone) = Accept m \/
     validate_negative E q t cd resp pds (Some zone) = Accept m).
Proof. exact descent_ad_rests_on_handed_down_ds_lemma. Qed.
Print Assumptions descent_ad_rests_on_handed_down_ds.

(* "a zone is treated as unsigned only on a validated proof": below the root the walk holds an EMPTY DS set for a zone only
   because validate_delegation returned the empty set for the referral into it, met with the parent's handed-down set
   (insecure_child_needs_proof says what that return rests on) *)
Theorem empty_ds_only_from_validate_delegation : forall E q cd zone,
  handed_down E q cd zone [] -> zone <> [] ->
  exists parent pds resp, handed_down E q cd parent pds /\ in_zone zone parent = true /\ name_eqb zone parent = false /\
    validate_delegation E cd resp zone pds (Some parent) = Ok [].
Proof. exact empty_ds_only_from_validate_delegation_lemma. Qed.
Print Assumptions empty_ds_only_from_validate_delegation.

(* finding bare-denial-unvalidated (fixed by 199ba21).  authority() refuses a response with an empty authority section whenever the zone
   is_zone_secure and no insecure delegation below it is proven (any rcode, any answer section, CD=0, an anchor present) ... *)
Theorem bare_denial_refused_by_authority : forall E q t resp pds zone,
  m_ns resp = [] -> m_qtype resp = t -> m_qname resp = q ->
  (e_dnssec E = true -> e_anchors E <> []) ->
  is_zone_secure E q pds zone = true -> proven_insecure_delegation E zone q pds = false ->
  validate_negative E q t false resp pds zone = Fail ENoSignatures.
Proof. exact bare_denial_refused_by_authority_lemma. Qed.
Print Assumptions bare_denial_refused_by_authority.

(* ... and the walk asks it (since 199ba21): such a response fails the walk wherever it arrives *)
Theorem bare_denial_fails_closed : forall E q t zone pds dc resp rest,
  m_ans resp = [] -> m_ns resp = [] -> (m_rcode resp = 0 \/ m_rcode resp = RC_NXDOMAIN) ->
  m_qtype resp = t -> m_qname resp = q ->
  (e_dnssec E = true -> e_anchors E <> []) ->
  is_zone_secure E q pds (Some zone) = true -> proven_insecure_delegation E (Some zone) q pds = false ->
  dr_out (descend E q t false zone pds dc (resp :: rest)) = Fail ENoSignatures.
Proof. exact bare_denial_fails_closed_lemma. Qed.
Print Assumptions bare_denial_fails_closed.

(* "missing its denial proof -> SERVFAIL": every NOERROR / NXDOMAIN reply of a walk — data, NODATA or name error — is answer()'s
   or authority()'s verdict for a zone on the path to q with a DS set handed down to that zone (what is handed back without
   a verdict is an upstream failure rcode with empty sections).  Was `descent_denial_is_validated_refuted` before 199ba21. *)
Theorem descent_denial_is_validated : forall E q t cd dc resps m,
  dc_sound E q cd dc ->
  dr_out (resolve_from_cache E q t cd dc resps) = Accept m -> (m_rcode m = 0 \/ m_rcode m = RC_NXDOMAIN) ->
  exists zone pds resp, handed_down E q cd zone pds /\ in_zone q zone = true /\
    (validate_answer E q t cd resp pds (Some zone) = Accept m \/
     validate_negative E q t cd resp pds (Some zone) = Accept m).
Proof. exact descent_denial_is_validated_lemma. Qed.
Print Assumptions descent_denial_is_validated.

(* the descent with QNAME minimisation (RFC 7816; Model.descend_m = resolve / processAuthoritySection / processDelegation with
   their `minimized` branches, Resolver.minimize, the level bookkeeping, the restart without minimisation).
   With minimisation off for the walk — the nomin argument internal callers pass — it IS the wave-6 model, for every transcript,
   cache, cfg.QnameMinLevel and RFC 8020 oracle: everything proved about [descend] / [resolve_from_cache] holds for it *)
Theorem descent_nomin_is_descend : forall E aggr qmin q t cd dc resps,
  resolve_from_cache_m E aggr qmin q t cd true dc resps = resolve_from_cache E q t cd dc resps.
Proof. exact descent_nomin_is_descend_lemma. Qed.
Print Assumptions descent_nomin_is_descend.

(* with minimisation on, for ANY transcript of upstream responses, any level setting, any oracle: a sound delegation cache stays
   sound, and the walk ends in answer()'s verdict about the name, in authority()'s verdict about the name or about the SUFFIX of
   it that was actually asked, in the RFC 8020 cut (below), in a bare upstream FAILURE rcode without data, or in an error *)
Theorem descent_min_keeps_handed_down_ds : forall E aggr qmin q t cd nomin dc resps,
  dc_sound E q cd dc ->
  dc_sound E q cd (dr_cache (resolve_from_cache_m E aggr qmin q t cd nomin dc resps)) /\
  final_verdict_m E q t cd (dr_out (resolve_from_cache_m E aggr qmin q t cd nomin dc resps)).
Proof. exact descent_min_keeps_handed_down_ds_lemma. Qed.
Print Assumptions descent_min_keeps_handed_down_ds.

(* AD on the reply of a minimised walk is answer()'s own AD about the name, authority()'s own AD about the name or a suffix of it,
   or — the RFC 8020 cut, NXDOMAIN for the whole name on the strength of a name error for an ancestor — the AD of authority()'s
   verdict on an NXDOMAIN response about a suffix of the name: never a verdict nobody computed, never one about a name off the
   path, always with a DS set handed down to a zone at or above the name *)
Theorem descent_min_ad_rests_on_verdict : forall E aggr qmin q t cd nomin dc resps m,
  dc_sound E q cd dc ->
  dr_out (resolve_from_cache_m E aggr qmin q t cd nomin dc resps) = Accept m -> m_ad m = true ->
  exists zone pds resp mq, handed_down E q cd zone pds /\ in_zone q zone = true /\ in_zone q mq = true /\
    (validate_answer E q t cd resp pds (Some zone) = Accept m \/
     validate_negative E mq t cd resp pds (Some zone) = Accept m \/
     (exists r, m_rcode resp = RC_NXDOMAIN /\ validate_negative E mq t cd resp pds (Some zone) = Accept r /\
                m_ad r = true /\ m = requestion r q)).
Proof. exact descent_min_ad_rests_on_verdict_lemma. Qed.
Print Assumptions descent_min_ad_rests_on_verdict.

(* "missing its denial proof -> SERVFAIL" for minimised walks (since 199ba21): every NOERROR / NXDOMAIN reply is answer()'s verdict
   about the name, authority()'s verdict about the name or a suffix of it, or the RFC 8020 cut on top of an authenticated one *)
Theorem descent_min_denial_is_validated : forall E aggr qmin q t cd nomin dc resps m,
  dc_sound E q cd dc ->
  dr_out (resolve_from_cache_m E aggr qmin q t cd nomin dc resps) = Accept m -> (m_rcode m = 0 \/ m_rcode m = RC_NXDOMAIN) ->
  exists zone pds resp mq, handed_down E q cd zone pds /\ in_zone q zone = true /\ in_zone q mq = true /\
    (validate_answer E q t cd resp pds (Some zone) = Accept m \/
     validate_negative E mq t cd resp pds (Some zone) = Accept m \/
     (exists r, m_rcode resp = RC_NXDOMAIN /\ validate_negative E mq t cd resp pds (Some zone) = Accept r /\
                m_ad r = true /\ m = requestion r q)).
Proof. exact descent_min_denial_is_validated_lemma. Qed.
Print Assumptions descent_min_denial_is_validated.

(* a validating reader meets only bits filed for CD=0 requests, and they are the resolver's verdict *)
Theorem filed_for_validating_readers : forall v cd a p1, file_verdict v cd = (Some a, p1) -> cd = false /\ a = v.
Proof. exact file_verdict_cd0_lemma. Qed.
Print Assumptions filed_for_validating_readers.

(* the zone-membership test every bailiwick / signer / foreign-record decision rests on: the model's label-level [in_zone] IS the
   code's dnsutil.NameInZone (machine-translated, with its escaped-dot loop) on the presentation of names whose labels are
   non-empty and free of '.' and backslash — for every such labelling, every pair of names, any fuel >= 1 *)
Theorem in_zone_is_NameInZone : forall (lbl : N -> list N),
  (forall l, lbl l <> []) -> (forall l c, In c (lbl l) -> c <> 46 /\ c <> 92) -> (forall a b, lbl a = lbl b -> a = b) ->
  forall fuel n z, (1 <= fuel)%nat -> go_NameInZone fuel (pres lbl n) (pres lbl z) = Some (in_zone n z).
Proof. exact gen_NameInZone_lemma. Qed.
Print Assumptions in_zone_is_NameInZone.
(* the zone filter in front of the wildcard next-closer check and of the NSEC / NSEC3 denial checks: the model's [filter_zone] IS
   the code's dnsutil.FilterRRsToZone — machine-translated with its range loop, dns.RR as a sum type, dns.CanonicalName and
   NameInZone — on the presentation of names whose labels are non-empty and free of '.', backslash and upper-case letters, for
   every list of records, every zone, any fuel >= 1, and EVERY representation [emb] of the model's records as dns.RR values that
   agrees on the owner name, on "the dynamic type is *dns.NSEC" and on the NSEC's next name *)
Theorem filter_zone_is_FilterRRsToZone : forall (lbl : N -> list N),
  (forall l, lbl l <> []) -> (forall l c, In c (lbl l) -> c <> 46 /\ c <> 92) -> (forall a b, lbl a = lbl b -> a = b) ->
  (forall l c, In c (lbl l) -> c < 65 \/ 90 < c) ->
  forall emb : rr -> I_RR,
  (forall r, T_RR_Header_Name (I_RR_Header (emb r)) = pres lbl (r_owner r)) ->
  (forall r, match r_rd r with
             | RdNsec nx => exists v, emb r = I_RR_of_NSEC v /\ T_NSEC_NextDomain v = pres lbl nx
             | _ => forall v, emb r <> I_RR_of_NSEC v end) ->
  forall fuel l z, (1 <= fuel)%nat ->
  go_FilterRRsToZone fuel (map emb l) (pres lbl z) = Some (map emb (filter_zone l z)).
Proof. exact gen_FilterRRsToZone_lemma. Qed.
Print Assumptions filter_zone_is_FilterRRsToZone.

(* the binding of a signature to the RRset it may cover — class, type covered, label count, owner, owner inside the signer's zone;
   what verify_one_sig, the signature index and spec_rrsig rest on: the model's [sig_matches_rrset] IS the code's
   dnssec.signatureMatchesRRset, machine-translated together with miekg's dns.IsRRset, dns.CountLabel / dns.NextLabel (three loops),
   dns.CanonicalName, dns.Fqdn, strings.ToLower / EqualFold and dnsutil.NameInZone — on the presentation of names whose labels are
   non-empty and free of '.', backslash and upper-case letters, for every representation of the records as dns.RR values and of
   the signature as a dns.RRSIG that agrees on the fields the function reads, for RRsets as the validator forms them (one owner,
   type, class), with fuel >= length of the owner's presentation + 2.  (Replaces the source-text pin sig_matches_src.) *)
Theorem sig_matches_rrset_is_signatureMatchesRRset : forall (lbl : N -> list N),
  (forall l, lbl l <> []) -> (forall l c, In c (lbl l) -> c <> 46 /\ c <> 92) -> (forall a b, lbl a = lbl b -> a = b) ->
  (forall l c, In c (lbl l) -> c < 65 \/ 90 < c) ->
  forall emb : rr -> I_RR,
  (forall r, T_RR_Header_Name (I_RR_Header (emb r)) = pres lbl (r_owner r)) ->
  (forall r, T_RR_Header_Rrtype (I_RR_Header (emb r)) = r_type r) ->
  (forall r, T_RR_Header_Class (I_RR_Header (emb r)) = r_class r) ->
  forall fuel g sr s set, sig_agrees lbl g sr s ->
  (forall h t, set = h :: t -> one_rrset h t /\ (length (pres lbl (r_owner h)) + 2 <= fuel)%nat) ->
  go_signatureMatchesRRset fuel g (map emb set) = Some (sig_matches_rrset sr s set).
Proof. exact gen_signatureMatchesRRset_lemma. Qed.
Print Assumptions sig_matches_rrset_is_signatureMatchesRRset.

(* dns.CountLabel (with dns.NextLabel and its backslash scan) on such a presentation counts the labels *)
Theorem CountLabel_counts_labels : forall (lbl : N -> list N),
  (forall l, lbl l <> []) -> (forall l c, In c (lbl l) -> c <> 46 /\ c <> 92) -> (forall a b, lbl a = lbl b -> a = b) ->
  (forall l c, In c (lbl l) -> c < 65 \/ 90 < c) ->
  forall fuel n, (length (pres lbl n) + 2 <= fuel)%nat -> go_CountLabel fuel (pres lbl n) = Some (Z.of_nat (length n)).
Proof. exact gen_CountLabel_lemma. Qed.
Print Assumptions CountLabel_counts_labels.
Example sig_match_tie_instance :   (* labels "a"+l: an RRSIG(A) owned by c.b.a., signer b.a., 3 labels, over the A RRset of c.b.a.: bound; 4 labels, or signer cb.a.: not *)
  let lbl := fun l : N => [97 + l] in
  let hdr := fun n t => mk_T_RR_Header (pres lbl n) t 1 300 0 in
  let set := [I_RR_other 1 (hdr [2; 1; 0] 1); I_RR_other 1 (hdr [2; 1; 0] 1)] in
  let g := fun labels signer => mk_T_RRSIG (hdr [2; 1; 0] 46) 1 15 labels 300 0 0 7 signer [] in
  go_signatureMatchesRRset 9 (g 3 (pres lbl [1; 0])) set = Some true /\
  go_signatureMatchesRRset 9 (g 4 (pres lbl [1; 0])) set = Some false /\
  go_signatureMatchesRRset 9 (g 3 [99; 98; 46; 97; 46]) set = Some false /\
  go_CountLabel 9 (pres lbl [2; 1; 0]) = Some 3%Z.
Proof. vm_compute. repeat split; reflexivity. Qed.

Example in_zone_tie_instance :   (* labels "a"+l: c.b.a. is below b.a., cb.a. is not below b.a. *)
  let lbl := fun l : N => [97 + l] in
  go_NameInZone 1 (pres lbl [2; 1; 0]) (pres lbl [1; 0]) = Some true /\
  go_NameInZone 1 [99; 98; 46; 97; 46] [98; 46; 97; 46] = Some false.
Proof. vm_compute. split; reflexivity. Qed.

(* non-vacuity: a genuine signed answer is accepted and its record vouched; the chain hypotheses are
   met by a two-hop world (computed) *)
Example accept_example :
  let z : name := [1] in let o : name := [2; 1] in
  let k := mk_key z 1 256 3 15 5 77 in
  let a := mk_rr o 1 1 9 RdOther in
  let s := mk_sig 1 15 2 300 2000 1000 77 z (SigBy 5 (Signed 1 15 2 300 2000 1000 77 z o 1 [9])) 1 in
  verify_rrsig (fun _ => 0) 1500%Z z [k] [a; mk_rr o T_RRSIG 1 10 (RdSig s)] [] = (true, None).
Proof. vm_compute. reflexivity. Qed.

(* for the record: the validator as it was before d62d15b fails chain_sound on the computed witness
   (reverting that commit must make the check report it) *)
Example before_d62d15b_any_key_could_sign_the_dnskey_rrset : ~ chain_sound_statement verify_dnssec_before_d62d15b.
Proof. exact old_variant_refuted. Qed.
Example current_code_rejects_that_witness : verify_dnssec E0 zn forged_keys ds_parent = (false, Some EMissingDNSKEY).
Proof. exact current_rejects_witness. Qed.

(* the witness that refuted answer_ad_sound before the F9 repair is refused now *)
Example f9_witness_is_refused : validate_answer E9 q 1 false forged pds (Some p) = Fail EDSRecords.
Proof. exact f9_witness_refused. Qed.
