(* C01 — translator ties: what Gen/C01.v (regenerated from /repo on every run) says now is what
   the model assumes.  If the Go source changes one of these, the lemma stops compiling. *)
From Coq Require Import String Ascii.
From Sdns Require Import Common.Base Gen.C01 C01.Model.
Open Scope N_scope.

Fixpoint bytes_of (s : string) : list N :=
  match s with EmptyString => [] | String a r => N_of_ascii a :: bytes_of r end.
Definition strip_ws (l : list N) : list N := filter (fun c => negb ((c =? 9) || (c =? 10) || (c =? 32))) l.
Definition src (s : string) : list N := strip_ws (bytes_of s).

(* the supported DS digest types and DNSKEY algorithms, as numbers: every octet value, exhaustively *)
Definition octets : list N := map N.of_nat (seq 0 256).
Lemma gen_supported_digests : filter go_IsSupportedDSDigest octets = [1; 2; 4].
Proof. vm_compute. reflexivity. Qed.
Lemma gen_supported_algs : filter go_IsSupportedDNSKEYAlgorithm octets = [5; 7; 8; 10; 13; 14; 15].
Proof. vm_compute. reflexivity. Qed.
Lemma gen_supported_is_translated : forall dt a,
  supported_digest dt = go_IsSupportedDSDigest dt /\ supported_alg a = go_IsSupportedDNSKEYAlgorithm a.
Proof. intros; split; reflexivity. Qed.
Lemma gen_zone_masks : sig_candidate_zone_mask = 256 /\ ds_candidate_zone_mask = sig_candidate_zone_mask.
Proof. vm_compute. split; reflexivity. Qed.
(* IsSupportedDS(ds *dns.DS) — translated with miekg's dns.DS as a Record (on a non-nil pointer): the conjunction the model
   uses in verify_one_ds / has_supported_ds / ds_binds_b *)
Lemma gen_IsSupportedDS : forall ds : Sdns.Gen.C01.T_DS,
  go_IsSupportedDS ds = supported_digest (T_DS_DigestType ds) && supported_alg (T_DS_Algorithm ds).
Proof. intros. reflexivity. Qed.
Lemma gen_root_ds_digest : root_ds_digest = 2.
Proof. vm_compute. reflexivity. Qed.

(* candidate filters and binding predicates: the conjunctions the model restates *)
Lemma gen_sig_candidate_src : map strip_ws sig_candidate_src =
  [src "KeyTag(key) == sig.KeyTag && key.Algorithm == sig.Algorithm && key.Header().Class == sig.Header().Class && strings.EqualFold(key.Header().Name, sig.SignerName) && key.Protocol == 3 && key.Flags&dns.ZONE != 0"].
Proof. vm_compute. reflexivity. Qed.
Lemma gen_ds_candidate_src : map strip_ws ds_candidate_src =
  [src "KeyTag(key) == parentDS.KeyTag && key.Algorithm == parentDS.Algorithm && key.Header().Class == parentDS.Header().Class && strings.EqualFold(key.Header().Name, parentDS.Header().Name) && key.Protocol == 3 && key.Flags&dns.ZONE != 0"].
Proof. vm_compute. reflexivity. Qed.
(* signatureMatchesRRset: no longer a source-text pin — machine-translated, gen_signatureMatchesRRset_lemma in Proofs_match.v *)
Lemma gen_validate_signer_src : map strip_ws validate_signer_src =
  [src "if signer == """""; src "if !dnsutil.NameInZone(strings.ToLower(dns.Fqdn(qname)), strings.ToLower(dns.Fqdn(signer)))"].
Proof. vm_compute. reflexivity. Qed.
Lemma gen_candidate_protocols : sig_candidate_protocol = 3 /\ ds_candidate_protocol = 3.
Proof. vm_compute. split; reflexivity. Qed.
Lemma gen_key_flags : zone_key_flags_a = 256 /\ zone_key_flags_b = 257 /\ root_key_flags = 257.
Proof. vm_compute. repeat split; reflexivity. Qed.

(* EDE codes of the DNSSEC sentinels (dnssec/errors.go) *)
Lemma gen_ede_codes :
  map ede [ENoDNSKEY; EMissingKSK; EFailedToConvertKSK; EMismatchingDS; ENoSignatures; EMissingDNSKEY;
           EInvalidSignaturePeriod; EMissingSigned; EDSRecords; ETrustAnchorsUnavailable; ENSECMissingCoverage; EWildcardNoDenial]
  = [9; 9; 6; 6; 10; 9; 7; 6; 6; 0; 12; 6].
Proof. vm_compute. reflexivity. Qed.

(* AD discipline: the two places edns computes noad, the two places it applies it, the three
   places the cache clears AD for a CD request, and setTags clearing the upstream's AD *)
Lemma gen_noad_src : map strip_ws noad_src =
  [src "req.CheckingDisabled || (!req.AuthenticatedData && !do)"; src "req.CD() || (!req.AD() && !req.DO())"].
Proof. vm_compute. reflexivity. Qed.
Lemma gen_noad_apply_src :
  map strip_ws noad_msg_apply_src = [src "if w.noad { m.AuthenticatedData = false"] /\
  map strip_ws noad_wire_apply_src = [src "if w.noad && info.AuthenticatedData { wire.ClearAD(body) info.AuthenticatedData = false"].
Proof. vm_compute. split; reflexivity. Qed.
Lemma gen_cache_cd_src :
  map strip_ws cache_tomsg_cd_src = [src "if req.CheckingDisabled { resp.AuthenticatedData = false"] /\
  map strip_ws cache_wire_cd_src = [src "if req.CheckingDisabled && authData { wire.ClearAD(body) authData = false";
                                    src "if req.CD() && authData { wire.ClearAD(body) authData = false"].
Proof. vm_compute. split; reflexivity. Qed.
Lemma gen_settags_src : map strip_ws settags_ad_src = [src "resp.AuthenticatedData = false"].
Proof. vm_compute. reflexivity. Qed.
