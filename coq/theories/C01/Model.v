(* C01 — DNSSEC validation: executable symbolic model (definitions only).

   Written line by line from
     middleware/resolver/dnssec/verify.go   (VerifyDS*, VerifyRRSIG*, verifyOneSigWithWork,
                                             signatureMatchesRRset, usable*Candidate, ValidateSigner,
                                             isSynthesizedCNAME)
     middleware/resolver/dnssec/wildcard.go (VerifyWildcardAnswerForZoneWithWork)
     middleware/resolver/resolver.go        (findRRSIGSigners, findDS, isZoneSecure,
                                             provenInsecureDelegation, authenticatedDelegationDS,
                                             verifyDNSSEC, verifyRootKeys, answer, authority,
                                             validateDelegation)
     middleware/edns/{edns,wire}.go, middleware/cache/{types,entry_wire}.go (AD discipline)

   Cryptography is symbolic (Dolev-Yao): a signature is either the term
   [SigBy material signed-data] or junk; a DS digest is either the term
   [DigOf type key-identity] or junk.  Verification is structural equality,
   which builds collision-freeness of the digests and existential
   unforgeability into the term algebra (named in the trusted base).  The key
   tag is a free field of the key: nothing relates it to the key material, so
   every statement covers colliding tags.

   Denial-of-existence verification (NSEC/NSEC3 semantics, property C02) and the
   order in which Go sorts strings are arguments ([e_orc], [e_wild], [e_nrank]). *)
From Sdns Require Import Common.Base Gen.C01.
Open Scope N_scope.

(* ------------------------------------------------------------------ names *)
(* labels most specific first; the root is [].  A label is an opaque number
   (the drivers fold case before numbering: every comparison in the code paths
   modelled here is case-insensitive or made on lower-cased names). *)
Definition name := list N.
Fixpoint name_eqb (a b : name) : bool :=
  match a, b with
  | [], [] => true
  | x :: a', y :: b' => (x =? y) && name_eqb a' b'
  | _, _ => false
  end.
Definition lastn (k : nat) (n : name) : name := skipn (length n - k) n.
(* dnsutil.NameInZone on canonical names: zone is a label-wise suffix of name *)
Definition in_zone (n z : name) : bool :=
  (length z <=? length n)%nat && name_eqb (lastn (length z) n) z.
Fixpoint common_prefix_len (a b : name) : nat :=
  match a, b with
  | x :: a', y :: b' => if x =? y then S (common_prefix_len a' b') else O
  | _, _ => O
  end.
(* dnsname.CompareSuffix: number of trailing labels shared *)
Definition compare_suffix (a b : name) : nat := common_prefix_len (rev a) (rev b).
Definition wild_label : N := 0.

Definition T_NS : N := 2.   Definition T_CNAME : N := 5.  Definition T_SOA : N := 6.
Definition T_DNAME : N := 39. Definition T_DS : N := 43.  Definition T_RRSIG : N := 46.
Definition T_NSEC : N := 47. Definition T_DNSKEY : N := 48. Definition T_NSEC3 : N := 50.
Definition RC_NXDOMAIN : N := 3. Definition RC_SERVFAIL : N := 2.

(* ------------------------------------------------------- algorithms (tie) *)
(* the supported DS digest types and DNSKEY algorithms ARE the translated Go functions
   (dnssec.IsSupportedDSDigest / IsSupportedDNSKEYAlgorithm, with miekg's constant values filled in by
   the type checker): editing either switch in /repo changes these definitions *)
Definition supported_digest (dt : N) : bool := go_IsSupportedDSDigest dt.
Definition supported_alg (a : N) : bool := go_IsSupportedDNSKEYAlgorithm a.
(* dsRRFromRootKeys: the digest type handed to DNSKEYToDSWithWork (the source says dns.DH, whose VALUE is 2 = SHA-256) *)
Definition root_ds_digest : N := root_ds_digest_code.

(* ------------------------------------------------------------- data terms *)
Record key := mk_key { k_owner : name; k_class : N; k_flags : N; k_proto : N; k_alg : N;
                       k_mat : N;   (* identity of the key material (public/private pair) *)
                       k_tag : N }. (* key tag: ARBITRARY *)
Inductive digest :=
| DigOf (dt : N) (owner : name) (flags proto alg mat : N)  (* hash_dt(owner | flags | proto | alg | material) *)
| DigJunk (id : N)       (* well-formed digest bytes not of that form *)
| DigBad.                (* undecodable / empty digest field *)
(* the octets an RRSIG signs (RFC 4034 §3.1.8.1): RRSIG RDATA minus the
   signature, then the RRset in canonical form; rds = canonical rdata ids,
   ascending, duplicates removed *)
Inductive signed :=
| Signed (cov alg labels ottl exp inc tag : N) (signer owner : name) (cls : N) (rds : list N).
Inductive sigbody :=
| SigBy (mat : N) (sd : signed)   (* produced with the private half of material [mat] over [sd] *)
| SigJunk (id : N).               (* any other octets (random, bit-flipped, truncated) *)
Record sigd := mk_sig { s_cov : N; s_alg : N; s_labels : N; s_ottl : N; s_exp : N; s_inc : N; s_tag : N;
                        s_signer : name; s_body : sigbody;
                        s_rank : N }. (* position in uniqueSortedRRSIGs' order (duplicates share it) *)
Inductive rdata :=
| RdOther
| RdCname (t : name)
| RdDname (t : name)
| RdNsec (next : name)
| RdDS (tag alg dt : N) (dg : digest) (rank : N)   (* rank: position in uniqueSortedDSRecords' order *)
| RdKey (flags proto alg mat tag : N)
| RdSig (s : sigd).
Record rr := mk_rr { r_owner : name; r_type : N; r_class : N;
                     r_id : N;      (* identity of the canonical RDATA octets *)
                     r_rd : rdata }.

Definition key_of (r : rr) : option key :=
  match r_rd r with
  | RdKey f p a m t => Some (mk_key (r_owner r) (r_class r) f p a m t)
  | _ => None
  end.
Definition sig_of (r : rr) : option sigd := match r_rd r with RdSig s => Some s | _ => None end.
Definition is_sig (r : rr) : bool := r_type r =? T_RRSIG.

Definition digest_eqb (a b : digest) : bool :=
  match a, b with
  | DigOf d o f p al m, DigOf d' o' f' p' al' m' =>
      (d =? d') && name_eqb o o' && (f =? f') && (p =? p') && (al =? al') && (m =? m')
  | DigJunk i, DigJunk j => i =? j
  | DigBad, DigBad => true
  | _, _ => false
  end.
Fixpoint nlist_eqb (a b : list N) : bool :=
  match a, b with
  | [], [] => true
  | x :: a', y :: b' => (x =? y) && nlist_eqb a' b'
  | _, _ => false
  end.
Definition signed_eqb (a b : signed) : bool :=
  match a, b with
  | Signed c al l o e i t sg ow cl rds, Signed c' al' l' o' e' i' t' sg' ow' cl' rds' =>
      (c =? c') && (al =? al') && (l =? l') && (o =? o') && (e =? e') && (i =? i') && (t =? t') &&
      name_eqb sg sg' && name_eqb ow ow' && (cl =? cl') && nlist_eqb rds rds'
  end.

(* ------------------------------------------------------------------ errors *)
Inductive err :=
| ENoDNSKEY | EMissingKSK | EFailedToConvertKSK | EMismatchingDS | ENoSignatures | EMissingDNSKEY
| EInvalidSignaturePeriod | EMissingSigned | EDSRecords | ETrustAnchorsUnavailable
| ENSECMissingCoverage | EWildcardNoDenial
| EAlg | ESig                 (* dns.ErrAlg, dns.ErrSig *)
| EPack                       (* "dns: bad rdata": the signed data cannot be built (Labels = 0 under a non-root owner) *)
| EDSSetEmpty                 (* "DS RR set empty" *)
| EDSNotFound                 (* lookupDS: "DS or NSEC records not found" *)
| EQuestion                   (* ErrQuestion *)
| ELookup (id : N)            (* a sub-query failed *)
| EOracle (id : N)            (* error of a denial verifier (C02's domain); id = its EDE code *)
| EDnameLeg (id : N).         (* checkDname failed *)
Definition err_eqb (a b : err) : bool :=
  match a, b with
  | ENoDNSKEY, ENoDNSKEY | EMissingKSK, EMissingKSK | EFailedToConvertKSK, EFailedToConvertKSK
  | EMismatchingDS, EMismatchingDS | ENoSignatures, ENoSignatures | EMissingDNSKEY, EMissingDNSKEY
  | EInvalidSignaturePeriod, EInvalidSignaturePeriod | EMissingSigned, EMissingSigned
  | EDSRecords, EDSRecords | ETrustAnchorsUnavailable, ETrustAnchorsUnavailable
  | ENSECMissingCoverage, ENSECMissingCoverage | EWildcardNoDenial, EWildcardNoDenial
  | EAlg, EAlg | ESig, ESig | EPack, EPack | EDSSetEmpty, EDSSetEmpty | EDSNotFound, EDSNotFound
  | EQuestion, EQuestion => true
  | ELookup i, ELookup j | EOracle i, EOracle j | EDnameLeg i, EDnameLeg j => i =? j
  | _, _ => false
  end.
(* RFC 8914 code the client is told (dnssec/errors.go through ErrorToEDE): the Code field of each sentinel,
   evaluated by srcgen as a Go constant expression (miekg's dns.ExtendedErrorCode… values) *)
Definition ede (e : err) : N :=
  match e with
  | ENoDNSKEY => ede_ErrNoDNSKEY
  | EMissingKSK => ede_ErrMissingKSK
  | EFailedToConvertKSK => ede_ErrFailedToConvertKSK
  | EMismatchingDS => ede_ErrMismatchingDS
  | ENoSignatures => ede_ErrNoSignatures
  | EMissingDNSKEY => ede_ErrMissingDNSKEY
  | EInvalidSignaturePeriod => ede_ErrInvalidSignaturePeriod
  | EMissingSigned => ede_ErrMissingSigned
  | EDSRecords => ede_ErrDSRecords
  | ETrustAnchorsUnavailable => ede_ErrTrustAnchorsUnavailable
  | ENSECMissingCoverage => ede_ErrNSECMissingCoverage
  | EWildcardNoDenial => ede_ErrWildcardNoDenial
  | EOracle c => c
  | _ => 0          (* untyped errors: ExtendedErrorCodeOther with the message *)
  end.

(* ------------------------------------------------------------- small tools *)
Definition extract (l : list rr) (owner : option name) (t : N) : list rr :=
  filter (fun r => (r_type r =? t) && match owner with None => true | Some o => name_eqb (r_owner r) o end) l.
(* dnsutil.FilterRRsToZone *)
Definition filter_zone (l : list rr) (z : name) : list rr :=
  filter (fun r => in_zone (r_owner r) z &&
                   match r_rd r with RdNsec nx => in_zone nx z | _ => true end) l.
Definition has_supported_ds (l : list rr) : bool :=
  existsb (fun r => match r_rd r with RdDS _ a dt _ _ => supported_digest dt && supported_alg a | _ => false end) l.

Fixpoint insert_by {A} (lt : A -> A -> bool) (x : A) (l : list A) : list A :=
  match l with
  | [] => [x]
  | y :: r => if lt x y then x :: l else y :: insert_by lt x r
  end.
Definition sort_by {A} (lt : A -> A -> bool) (l : list A) : list A := fold_right (insert_by lt) [] l.
Fixpoint dedup_by {A} (eqb : A -> A -> bool) (l : list A) : list A :=
  match l with
  | [] => []
  | x :: r => if existsb (eqb x) r then dedup_by eqb r else x :: dedup_by eqb r
  end.
(* keeps FIRST occurrences, in order *)
Fixpoint nub_by {A} (eqb : A -> A -> bool) (seen : list A) (l : list A) : list A :=
  match l with
  | [] => []
  | x :: r => if existsb (eqb x) seen then nub_by eqb seen r else x :: nub_by eqb (x :: seen) r
  end.

(* RRSIG.ValidityPeriod (miekg/dns): RFC 1982 serial arithmetic, Go's int64
   division truncates toward zero *)
Definition year68 : Z := 2147483648%Z.
Definition valid_period (inc exp : N) (now : Z) : bool :=
  let modi := Z.quot (Z.of_N inc - now) year68 in
  let mode := Z.quot (Z.of_N exp - now) year68 in
  let ti := (Z.of_N inc + modi * year68)%Z in
  let te := (Z.of_N exp + mode * year68)%Z in
  (ti <=? now)%Z && (now <=? te)%Z.

(* ---------------------------------------------------------------- VerifyDS *)
(* key.Flags&dns.ZONE != 0 — the mask is read from usableSignatureCandidate; usableDSCandidate's is tied to it (gen_zone_masks) *)
Definition zone_bit (flags : N) : bool := negb (N.land flags sig_candidate_zone_mask =? 0).
(* usableDSCandidate *)
Definition usable_ds_candidate (dsr : rr) (tag alg : N) (k : key) : bool :=
  (k_tag k =? tag) && (k_alg k =? alg) && (k_class k =? r_class dsr) &&
  name_eqb (k_owner k) (r_owner dsr) && (k_proto k =? ds_candidate_protocol) && zone_bit (k_flags k).
(* dsDigestMatches *)
Definition ds_digest_matches (k : key) (dt : N) (dg : digest) : bool :=
  supported_digest dt && digest_eqb dg (DigOf dt (k_owner k) (k_flags k) (k_proto k) (k_alg k) (k_mat k)).

Definition ds_rank (r : rr) : N := match r_rd r with RdDS _ _ _ _ rk => rk | _ => 0 end.
Definition is_ds (r : rr) : bool := match r_rd r with RdDS _ _ _ _ _ => true | _ => false end.
(* uniqueSortedDSRecords: order and duplicate identity are the code's own (rank) *)
Definition sorted_ds (l : list rr) : list rr :=
  sort_by (fun a b => ds_rank a <? ds_rank b) (nub_by (fun a b => ds_rank a =? ds_rank b) [] (filter is_ds l)).

Inductive ds_step := DsMatched | DsSkip | DsErr (e : err).
Definition verify_one_ds (keys : list key) (dsr : rr) : ds_step :=
  match r_rd dsr with
  | RdDS tag alg dt dg _ =>
      if negb (supported_digest dt && supported_alg alg) then DsSkip else
      let raw := filter (fun k => k_tag k =? tag) keys in
      match raw with
      | [] => DsErr EMissingKSK
      | _ =>
          let cands := filter (usable_ds_candidate dsr tag alg) raw in
          match cands with
          | [] => DsErr EMissingKSK
          | _ =>
              match dg with
              | DigBad => DsErr EMismatchingDS
              | _ => if existsb (fun k => ds_digest_matches k dt dg) cands then DsMatched
                     else DsErr EMismatchingDS
              end
          end
      end
  | _ => DsSkip
  end.
Fixpoint verify_ds_loop (keys : list key) (l : list rr) (supported : bool) (last : option err)
  : bool * bool * option err :=   (* matched, any supported, lastErr *)
  match l with
  | [] => (false, supported, last)
  | d :: r =>
      match verify_one_ds keys d with
      | DsMatched => (true, true, last)
      | DsSkip => verify_ds_loop keys r supported last
      | DsErr e => verify_ds_loop keys r true (Some e)
      end
  end.
(* VerifyDSWithWork: (unsupportedOnly, err) *)
Definition verify_ds (keys : list key) (dsset : list rr) : bool * option err :=
  let l := sorted_ds dsset in
  match verify_ds_loop keys l false None with
  | (true, _, _) => (false, None)
  | (false, sup, last) =>
      match l with
      | [] => (false, Some EMissingKSK)
      | _ => if negb sup then (true, Some EFailedToConvertKSK)
             else (false, Some (match last with Some e => e | None => EMissingKSK end))
      end
  end.

(* ------------------------------------------------------------- VerifyRRSIG *)
(* isSynthesizedCNAME *)
Definition is_synth_cname (owner target : name) (dnames : list rr) : bool :=
  existsb (fun d =>
    match r_rd d with
    | RdDname dt =>
        let dl := length (r_owner d) in
        negb (dl =? 0)%nat && (dl <? length owner)%nat &&
        (compare_suffix (r_owner d) owner =? dl)%nat &&
        name_eqb (firstn (length owner - dl) owner ++ dt) target
    | _ => false
    end) dnames.

(* RRset identity inside VerifyRRSIG *)
Definition gkey := (name * N * N)%type.
Definition gkey_eqb (a b : gkey) : bool :=
  let '(n, t, c) := a in let '(n', t', c') := b in name_eqb n n' && (t =? t') && (c =? c').
Fixpoint group_add (k : gkey) (r : rr) (g : list (gkey * list rr)) : list (gkey * list rr) :=
  match g with
  | [] => [(k, [r])]
  | (k', l) :: rest => if gkey_eqb k k' then (k', l ++ [r]) :: rest else (k', l) :: group_add k r rest
  end.
Fixpoint group_find {A} (k : gkey) (g : list (gkey * A)) : option A :=
  match g with
  | [] => None
  | (k', l) :: rest => if gkey_eqb k k' then Some l else group_find k rest
  end.

(* the collect closure: None = an out-of-zone record in the ANSWER section *)
Fixpoint collect (signer : name) (dnames : list rr) (from_auth : bool) (l : list rr)
         (g : list (gkey * list rr)) (bad : bool) : list (gkey * list rr) * bool :=
  match l with
  | [] => (g, bad)
  | r :: rest =>
      if is_sig r then collect signer dnames from_auth rest g bad else
      if (r_type r =? T_NS) && from_auth then collect signer dnames from_auth rest g bad else
      if match r_rd r with RdCname t => (r_type r =? T_CNAME) && is_synth_cname (r_owner r) t dnames | _ => false end
      then collect signer dnames from_auth rest g bad else
      if negb (in_zone (r_owner r) signer) then
        collect signer dnames from_auth rest g (bad || negb from_auth)
      else collect signer dnames from_auth rest (group_add (r_owner r, r_type r, r_class r) r g) bad
  end.

(* canonical RRset content: ascending distinct rdata ids *)
Definition canon_rds (set : list rr) : list N :=
  sort_by N.ltb (dedup_by N.eqb (map r_id set)).
(* owner as signed: wildcard-ised when the label count exceeds RRSIG.Labels *)
Definition signed_owner (labels : N) (owner : name) : name :=
  if (N.to_nat labels <? length owner)%nat then wild_label :: lastn (N.to_nat labels) owner else owner.
Definition signed_of (sr : rr) (s : sigd) (set : list rr) : signed :=
  match set with
  | [] => Signed 0 0 0 0 0 0 0 [] [] 0 []
  | h :: _ => Signed (s_cov s) (s_alg s) (s_labels s) (s_ottl s) (s_exp s) (s_inc s) (s_tag s) (s_signer s)
                     (signed_owner (s_labels s) (r_owner h)) (r_class h) (canon_rds set)
  end.
(* usableSignatureCandidate *)
Definition usable_sig_candidate (sr : rr) (s : sigd) (k : key) : bool :=
  (k_tag k =? s_tag s) && (k_alg k =? s_alg s) && (k_class k =? r_class sr) &&
  name_eqb (k_owner k) (s_signer s) && (k_proto k =? sig_candidate_protocol) && zone_bit (k_flags k).
(* signatureMatchesRRset *)
Definition sig_matches_rrset (sr : rr) (s : sigd) (set : list rr) : bool :=
  match set with
  | [] => false
  | h :: _ => (r_class h =? r_class sr) && (r_type h =? s_cov s) &&
              (N.to_nat (s_labels s) <=? length (r_owner h))%nat &&
              name_eqb (r_owner h) (r_owner sr) && in_zone (r_owner h) (s_signer s)
  end.
(* the public-key operation, symbolically *)
Definition crypto_ok (k : key) (sr : rr) (s : sigd) (set : list rr) : bool :=
  match s_body s with
  | SigBy m sd => (m =? k_mat k) && signed_eqb sd (signed_of sr s set)
  | SigJunk _ => false
  end.
(* verifyOneSigWithWork: None = verified *)
Definition verify_one_sig (now : Z) (keys : list key) (set : list rr) (sr : rr) (s : sigd) : option err :=
  let cands := filter (fun k => k_tag k =? s_tag s) keys in
  match cands with
  | [] => Some EMissingDNSKEY
  | _ =>
      if negb (existsb (fun k => name_eqb (k_owner k) (s_signer s)) cands) then Some EMissingDNSKEY else
      if negb (valid_period (s_inc s) (s_exp s) now) then Some EInvalidSignaturePeriod else
      if negb (supported_alg (s_alg s)) then Some EAlg else
      if negb (sig_matches_rrset sr s set) then Some EMissingSigned else
      let eligible := filter (usable_sig_candidate sr s) cands in
      match eligible with
      | [] => Some EMissingDNSKEY
      | _ =>
          (* canonicalRRset: Labels = 0 under a non-root owner rebuilds the unpackable name "*.." *)
          if (s_labels s =? 0) && match set with h :: _ => negb (length (r_owner h) =? 0)%nat | [] => false end
          then Some EPack else
          if existsb (fun k => crypto_ok k sr s set) eligible then None else Some ESig
      end
  end.

Definition sig_rank (r : rr) : N := match r_rd r with RdSig s => s_rank s | _ => 0 end.
(* uniqueSortedRRSIGs *)
Definition sorted_sigs (l : list rr) : list rr :=
  sort_by (fun a b => sig_rank a <? sig_rank b) (nub_by (fun a b => sig_rank a =? sig_rank b) [] l).

Fixpoint try_sigs (now : Z) (keys : list key) (set : list rr) (sigs : list rr) (last : option err) : option err :=
  match sigs with
  | [] => Some (match last with Some e => e | None => EMissingSigned end)
  | sr :: rest =>
      match sig_of sr with
      | None => try_sigs now keys set rest last
      | Some s =>
          match verify_one_sig now keys set sr s with
          | None => None
          | Some e => try_sigs now keys set rest (Some e)
          end
      end
  end.

Definition gkey_lt (nrank : name -> N) (a b : gkey) : bool :=
  let '(n, t, c) := a in let '(n', t', c') := b in
  if negb (name_eqb n n') then nrank n <? nrank n' else
  if negb (t =? t') then t <? t' else c <? c'.

Fixpoint check_groups (now : Z) (keys : list key) (sigidx : list (gkey * list rr))
         (gs : list (gkey * list rr)) : option err :=
  match gs with
  | [] => None
  | (k, set) :: rest =>
      match group_find k sigidx with
      | None => Some EMissingSigned
      | Some sl =>
          match try_sigs now keys set (sorted_sigs sl) None with
          | Some e => Some e
          | None => check_groups now keys sigidx rest
          end
      end
  end.

Definition sig_index (signer : name) (sigs : list rr) : list (gkey * list rr) :=
  fold_left (fun g sr =>
    match sig_of sr with
    | Some s => if in_zone (r_owner sr) signer then group_add (r_owner sr, s_cov s, r_class sr) sr g else g
    | None => g
    end) sigs [].

(* VerifyRRSIGWithWork: (ok, err) *)
Definition verify_rrsig (nrank : name -> N) (now : Z) (signer : name) (keys : list key)
           (ans ns : list rr) : bool * option err :=
  match keys with
  | [] => (false, Some EMissingDNSKEY)
  | _ =>
      let dnames := filter (fun r => match r_rd r with RdDname _ => in_zone (r_owner r) signer | _ => false end) (ans ++ ns) in
      let '(g1, bad1) := collect signer dnames false ans [] false in
      let '(g, bad) := collect signer dnames true ns g1 bad1 in
      if bad then (false, Some EMissingSigned) else
      match g with
      | [] => (true, None)
      | _ =>
          let sigs := filter is_sig ans ++ filter is_sig ns in
          match sigs with
          | [] => (false, Some ENoSignatures)
          | _ =>
              let gs := sort_by (fun a b => gkey_lt nrank (fst a) (fst b)) g in
              match check_groups now keys (sig_index signer sigs) gs with
              | Some e => (false, Some e)
              | None => (true, None)
              end
          end
      end
  end.

(* dnssec.ValidateSigner (a signer read off the wire is never the empty string) *)
Definition validate_signer (signer qname : name) : option err :=
  if in_zone qname signer then None else Some EDSRecords.

(* ----------------------------------------------------- wildcard expansions *)
Inductive wres := WErr (e : err) | WRes (denied authenticated : bool).
(* VerifyWildcardAnswerForZoneWithWork; [orc next_closer] abstracts
   nextCloserDeniedWithWork on the response's NSEC/NSEC3 records *)
Fixpoint verify_wildcard (orc : name -> wres) (ans : list rr) (secure : bool) : bool * option err :=
  match ans with
  | [] => (secure, None)
  | r :: rest =>
      match sig_of r with
      | None => verify_wildcard orc rest secure
      | Some s =>
          if (length (r_owner r) <=? N.to_nat (s_labels s))%nat then verify_wildcard orc rest secure else
          match orc (lastn (N.to_nat (s_labels s) + 1) (r_owner r)) with
          | WErr e => (false, Some e)
          | WRes denied auth =>
              if negb denied then (false, Some EWildcardNoDenial)
              else verify_wildcard orc rest (secure && auth)
          end
      end
  end.

(* ----------------------------------------------------------- the resolver *)
Record msg := mk_msg { m_id : N; m_qname : name; m_qtype : N; m_rcode : N;
                       m_ans : list rr; m_ns : list rr; m_ad : bool }.
Inductive lookup := LErr (id : N) | LMsg (m : msg).
Inductive ores := OErr (e : err) | OOk (secure : bool).
Inductive res (A : Type) := Er (e : err) | Ok (a : A).
Arguments Er {A} e. Arguments Ok {A} a.

(* oracle kinds *)
Definition K_DELEG3 : N := 1. Definition K_DELEGN : N := 2.
Definition K_NXD3 : N := 3.   Definition K_NODATA3 : N := 4.
Definition K_NXDN : N := 5.   Definition K_NODATAN : N := 6.

Record env := mk_env {
  e_nrank : name -> N;                       (* Go's string order on the names in play *)
  e_now : Z;
  e_dnssec : bool;                           (* cfg.DNSSEC == "on" *)
  e_anchors : list key;                      (* Resolver.rootKeys *)
  e_ds : name -> bool -> lookup;             (* subQuery(name DS, cd) *)
  e_key : name -> lookup;                    (* subQuery(name DNSKEY) *)
  e_dname : name -> N -> bool -> lookup;     (* internalExchange(target, qtype, cd) *)
  e_orc : N -> N -> name -> name -> ores;    (* kind, message id, subject, signer zone *)
  e_wild : N -> list rr -> name -> name -> wres
    (* message id, the NSEC/NSEC3 records of the authority section the verifier is SHOWN, next closer, signer zone.
       nextCloserDeniedWithWork's NSEC branch does no zone binding of its own, so which records reach it is
       part of the answer() logic and therefore of the model, not of the oracle *)
}.

(* dsRRFromRootKeys *)
Definition ds_from_root_keys (E : env) : res (list rr) :=
  match e_anchors E with
  | [] => Er ETrustAnchorsUnavailable
  | ks => Ok (map (fun k => mk_rr (k_owner k) T_DS (k_class k) 0
                      (RdDS (k_tag k) (k_alg k) root_ds_digest
                            (DigOf root_ds_digest (k_owner k) (k_flags k) (k_proto k) (k_alg k) (k_mat k))
                            (k_mat k))) ks)
  end.

(* lookupDS *)
Definition lookup_ds (E : env) (n : name) (cd : bool) : res msg :=
  match e_ds E n cd with
  | LErr i => Er (ELookup i)
  | LMsg m => match m_ans m, m_ns m with [], [] => Er EDSNotFound | _, _ => Ok m end
  end.

(* findDS with signer == "": walk candidate cuts from the DS owner toward qname *)
Fixpoint ds_walk (E : env) (qname : name) (cd : bool) (fuel n : nat) (cur : list rr) : res (list rr) :=
  match fuel with
  | O => Ok cur
  | S f =>
      if (length qname <=? n)%nat then Ok cur else
      let cand := lastn (n + 1) qname in
      match lookup_ds E cand cd with
      | Er e => Er e
      | Ok m =>
          match extract (m_ans m) (Some cand) T_DS with
          | [] => Ok []
          | ds => ds_walk E qname cd f (compare_suffix cand qname) ds
          end
      end
  end.
(* findDS; signer = None is the empty string *)
Definition find_ds (E : env) (signer : option name) (qname : name) (parentDS : list rr) (cd : bool)
  : res (list rr) :=
  match signer, parentDS with
  | Some [], [] => ds_from_root_keys E
  | _, [] => Ok []
  | None, d :: _ => ds_walk E qname cd (S (length qname)) (compare_suffix (r_owner d) qname) parentDS
  | Some s, d :: _ =>
      if name_eqb (r_owner d) s then Ok parentDS else
      match lookup_ds E s cd with
      | Er e => Er e
      | Ok m =>
          (* an answer the sub-query's own CD=0 validation did not authenticate supplies no trust link *)
          Ok (if cd || m_ad m then extract (m_ans m) (Some s) T_DS else [])
      end
  end.

(* isZoneSecure; zone = None is the empty string *)
Definition is_zone_secure (E : env) (qname : name) (parentDS : list rr) (zone : option name) : bool :=
  if negb (has_supported_ds parentDS) then false else
  match parentDS with
  | [] => false
  | d :: _ =>
      if match zone with Some z => name_eqb (r_owner d) z | None => false end then true else
      let probe := match zone with Some z => z | None => tl qname end in
      match find_ds E None probe parentDS false with
      | Er _ => true
      | Ok ds => has_supported_ds ds
      end
  end.

(* findRRSIGSigners *)
Definition find_signers (nrank : name -> N) (sect : list rr) (qname : name) (in_answer : bool) : list name :=
  let have o t := existsb (fun r => negb (is_sig r) && name_eqb (r_owner r) o && (r_type r =? t)) sect in
  let cands := flat_map (fun r =>
      match sig_of r with
      | Some s => if have (r_owner r) (s_cov s) &&
                     (negb in_answer || name_eqb (r_owner r) qname || (s_cov s =? T_DNAME))
                  then [s_signer s] else []
      | None => []
      end) sect in
  sort_by (fun a b => if negb (length a =? length b)%nat then (length b <? length a)%nat else nrank a <? nrank b)
          (nub_by name_eqb [] cands).

Definition keys_of_msg (signer : name) (m : msg) : list key :=
  flat_map (fun r => if r_type r =? T_DNSKEY then
      match key_of r with
      | Some k => if name_eqb (k_owner k) signer && ((k_flags k =? zone_key_flags_a) || (k_flags k =? zone_key_flags_b))
                  then [k] else []
      | None => []
      end else []) (m_ans m).

(* verifyRootKeys *)
Definition verify_root_keys (E : env) (m : msg) : bool * option err :=
  let keys := filter (fun k => k_flags k =? root_key_flags) (e_anchors E) in
  match keys with
  | [] => (false, Some ETrustAnchorsUnavailable)
  | _ =>
      match ds_from_root_keys E with
      | Er e => (false, Some e)
      | Ok dsset =>
          match verify_ds keys dsset with
          | (_, Some e) => (false, Some e)
          | (_, None) =>
              match verify_rrsig (e_nrank E) (e_now E) [] keys (m_ans m) (m_ns m) with
              | (_, Some e) => (false, Some e)
              | (_, None) => (true, None)
              end
          end
      end
  end.

(* DSMatchedKeys (d62d15b): the keys a supported DS of the set vouches for — one VerifyDS per key *)
Definition ds_binds_b (d : rr) (k : key) : bool :=
  match r_rd d with
  | RdDS tag alg dt dg _ =>
      supported_digest dt && supported_alg alg && (k_tag k =? tag) && (k_alg k =? alg) && (k_class k =? r_class d) &&
      name_eqb (k_owner k) (r_owner d) && (k_proto k =? ds_candidate_protocol) && zone_bit (k_flags k) &&
      digest_eqb dg (DigOf dt (k_owner k) (k_flags k) (k_proto k) (k_alg k) (k_mat k))
  | _ => false
  end.
Definition ds_matched (ds : list rr) (keys : list key) : list key :=
  filter (fun k => existsb (fun d => ds_binds_b d k) ds) keys.
(* the signer's DNSKEY RRset and the signatures over it *)
Definition dnskey_part (signer : name) (km : msg) : list rr :=
  filter (fun r => name_eqb (r_owner r) signer &&
                   ((r_type r =? T_DNSKEY) || match sig_of r with Some s => (r_type r =? T_RRSIG) && (s_cov s =? T_DNSKEY) | None => false end))
         (m_ans km).

(* verifyDNSSEC: (ok, err).  Since d62d15b: when the response under validation IS the signer's DNSKEY
   answer, its DNSKEY RRset must verify under a key that a DS of the parent's set matches, before any other
   key of the set is believed (keys obtained through the sub-query path went through this when that DNSKEY
   answer was itself resolved). *)
Definition verify_dnssec (E : env) (signer : name) (resp : msg) (parentDS : list rr) : bool * option err :=
  let own := (m_qtype resp =? T_DNSKEY) && name_eqb (m_qname resp) signer in
  if own && match signer with [] => true | _ => false end then verify_root_keys E resp else
  match (if own then LMsg resp else e_key E signer) with
  | LErr i => (false, Some (ELookup i))
  | LMsg km =>
      let keys := keys_of_msg signer km in
      match keys with
      | [] => (false, Some ENoDNSKEY)
      | _ =>
          match parentDS with
          | [] => (false, Some EDSSetEmpty)
          | _ =>
              match verify_ds keys parentDS with
              | (true, Some _) => (false, None)        (* unsupported-only DS: insecure *)
              | (false, Some e) => (false, Some e)
              | (_, None) =>
                  match (if own then
                           match ds_matched parentDS keys with
                           | [] => (false, Some EMissingKSK)
                           | anchored => verify_rrsig (e_nrank E) (e_now E) signer anchored (dnskey_part signer km) []
                           end
                         else (true, None)) with
                  | (_, Some e) => (false, Some e)
                  | (false, None) => (false, None)
                  | (true, None) =>
                      (* the answer to an RRSIG question is not verifiable; a referral or a denial met while resolving one
                         (empty answer section) is verified like any other (since the rrsig-question repair) *)
                      if (m_qtype resp =? T_RRSIG) && match m_ans resp with [] => false | _ => true end then (false, None) else
                      match verify_rrsig (e_nrank E) (e_now E) signer keys (m_ans resp) (m_ns resp) with
                      | (_, Some e) => (false, Some e)
                      | (false, None) => (false, None)
                      | (true, None) => (true, None)
                      end
                  end
              end
          end
      end
  end.

(* authenticatedDelegationDS: (dsset, insecure) *)
Definition authenticated_delegation_ds (E : env) (signer child : name) (parentDS : list rr)
  : res (list rr * bool) :=
  match lookup_ds E child true with
  | Er e => Er e
  | Ok m =>
      match verify_dnssec E signer m parentDS with
      | (_, Some e) => Er e
      | (false, None) => Er EDSRecords
      | (true, None) =>
          match extract (m_ans m) (Some child) T_DS with
          | (_ :: _) as ds => Ok (ds, negb (has_supported_ds ds))
          | [] =>
              match filter_zone (extract (m_ns m) None T_NSEC3) signer with
              | _ :: _ => match e_orc E K_DELEG3 (m_id m) child signer with OErr e => Er e | OOk _ => Ok ([], true) end
              | [] =>
                  match filter_zone (extract (m_ns m) None T_NSEC) signer with
                  | _ :: _ => match e_orc E K_DELEGN (m_id m) child signer with OErr e => Er e | OOk _ => Ok ([], true) end
                  | [] => Er ENSECMissingCoverage
                  end
              end
          end
      end
  end.

(* provenInsecureDelegation; zone = None is "" which dns.Fqdn turns into the root *)
Fixpoint pid_loop (E : env) (qname : name) (fuel n : nat) (cur_signer : name) (cur_ds : list rr) : bool :=
  match fuel with
  | O => false
  | S f =>
      if (length qname <? n)%nat then false else
      let cand := lastn n qname in
      match authenticated_delegation_ds E cur_signer cand cur_ds with
      | Er _ => false
      | Ok (_, true) => true
      | Ok ((_ :: _) as ds, false) => pid_loop E qname f (S n) cand ds
      | Ok ([], false) => false
      end
  end.
Definition proven_insecure_delegation (E : env) (zone : option name) (qname : name) (parentDS : list rr) : bool :=
  let z := match zone with Some z => z | None => [] end in
  if name_eqb qname z || negb (in_zone qname z) then false else
  pid_loop E qname (S (length qname)) (S (length z)) z parentDS.

(* dnsutil.DnameTarget *)
Definition dname_target (m : msg) : option name :=
  match filter (fun r => match r_rd r with RdDname _ => true | _ => false end) (m_ans m) with
  | d :: _ =>
      match r_rd d with
      | RdDname t =>
          let ol := length (r_owner d) in
          if (ol =? 0)%nat || (length (m_qname m) <=? ol)%nat then None else
          if negb (compare_suffix (r_owner d) (m_qname m) =? ol)%nat then None else
          Some (firstn (length (m_qname m) - ol) (m_qname m) ++ t)
      | _ => None
      end
  | [] => None
  end.

Inductive outcome := Fail (e : err) | Accept (m : msg).

(* unsignedIsBogus: what an empty DS set for a candidate signer means *)
Definition unsigned_is_bogus (E : env) (qname : name) (parentDS : list rr) (zone : option name) : bool :=
  is_zone_secure E qname parentDS zone && negb (proven_insecure_delegation E zone qname parentDS).

(* the per-signer retry loop shared by answer() and authority():
   Fail / settled-insecure / settled with (ok, signer) *)
Inductive settle := SFail (e : err) | SInsecure | SVerified (ok : bool) (signer : name).
Fixpoint signer_loop (E : env) (qname : name) (resp : msg) (parentDS : list rr) (zone : option name)
         (signers : list name) (last : option err) : settle :=
  match signers with
  | [] => SFail (match last with Some e => e | None => ENoSignatures end)
  | s :: rest =>
      match validate_signer s qname with
      | Some e => signer_loop E qname resp parentDS zone rest (Some e)
      | None =>
          match find_ds E (Some s) qname parentDS false with
          | Er e => signer_loop E qname resp parentDS zone rest (Some e)
          | Ok [] =>
              if unsigned_is_bogus E qname parentDS zone
              then signer_loop E qname resp parentDS zone rest (Some EDSRecords)
              else SInsecure
          | Ok ds =>
              match verify_dnssec E s resp ds with
              | (_, Some e) => signer_loop E qname resp parentDS zone rest (Some e)
              | (ok, None) => SVerified ok s
              end
          end
      end
  end.

(* the nsecSet / nsec3Set split at the head of VerifyWildcardAnswerForZoneWithWork: what of a section the
   next-closer check looks at *)
Definition denial_records (ns : list rr) : list rr :=
  filter (fun r => (r_type r =? T_NSEC) || (r_type r =? T_NSEC3)) ns.

(* Resolver.answer (resp arrives from setTags with AD clear) *)
(* bailiwick (767eb6f): answer records owned outside the answering zone are dropped first *)
Definition bailiwick (zone : option name) (resp : msg) : msg :=
  mk_msg (m_id resp) (m_qname resp) (m_qtype resp) (m_rcode resp)
         (match zone with Some z => filter_zone (m_ans resp) z | None => m_ans resp end)
         (m_ns resp) (m_ad resp).
Definition validate_answer_core (E : env) (qname : name) (qtype : N) (cd : bool) (resp : msg)
           (parentDS : list rr) (zone : option name) : outcome :=
  let tgt := if qtype =? T_CNAME then None else
             match dname_target resp with None => None | Some t => Some (e_dname E t qtype cd) end in
  match tgt with
  | Some (LErr i) => Fail (EDnameLeg i)
  | _ =>
      let validated : res msg :=
        if cd then Ok resp else
        if e_dnssec E && match e_anchors E with [] => true | _ => false end then Er ETrustAnchorsUnavailable else
        match find_signers (e_nrank E) (m_ans resp) qname true with
        | [] =>
            if is_zone_secure E qname parentDS zone && negb (proven_insecure_delegation E zone qname parentDS)
            then Er ENoSignatures else Ok resp
        | signers =>
            match signer_loop E qname resp parentDS zone signers None with
            | SFail e => Er e
            | SInsecure => Ok resp
            | SVerified false _ => Ok (mk_msg (m_id resp) (m_qname resp) (m_qtype resp) (m_rcode resp) (m_ans resp) (m_ns resp) false)
            | SVerified true s =>
                (* resp.Ns = FilterRRsToZone(resp.Ns, signer) runs BEFORE VerifyWildcardAnswerForZoneWithWork(resp, …):
                   the next-closer check sees only what verifyDNSSEC has just authenticated *)
                let ns' := filter_zone (m_ns resp) s in
                match verify_wildcard (fun nc => e_wild E (m_id resp) (denial_records ns') nc s) (m_ans resp) true with
                | (_, Some e) => Er e
                | (sec, None) => Ok (mk_msg (m_id resp) (m_qname resp) (m_qtype resp) (m_rcode resp) (m_ans resp) ns' sec)
                end
            end
        end in
      match validated with
      | Er e => Fail e
      | Ok r =>
          match tgt with
          | Some (LMsg t) =>
              (* dnameLegFailure: a target leg that came back SERVFAIL fails the outer query (the handler then builds
                 SERVFAIL + the leg's Extended DNS Error) instead of lending its rcode to a reply that keeps the DNAME *)
              if m_rcode t =? RC_SERVFAIL then Fail (EDnameLeg RC_SERVFAIL) else
              let ad := if cd then m_ad r else m_ad r && m_ad t in
              let ans := m_ans r ++ m_ans t in
              if m_rcode t =? RC_NXDOMAIN then Accept (mk_msg (m_id r) (m_qname r) (m_qtype r) (m_rcode t) ans (m_ns t) ad)
              else match m_ans t with
                   | [] => Accept (mk_msg (m_id r) (m_qname r) (m_qtype r) (m_rcode t) ans (m_ns r ++ m_ns t) ad)
                   | _ => Accept (mk_msg (m_id r) (m_qname r) (m_qtype r) (m_rcode t) ans [] ad)
                   end
          | _ => Accept (mk_msg (m_id r) (m_qname r) (m_qtype r) (m_rcode r) (m_ans r) [] (m_ad r))
          end
      end
  end.

Definition validate_answer (E : env) (qname : name) (qtype : N) (cd : bool) (resp : msg)
           (parentDS : list rr) (zone : option name) : outcome :=
  validate_answer_core E qname qtype cd (bailiwick zone resp) parentDS zone.

(* Resolver.authority: negative answers and authority-only responses *)
Definition validate_negative (E : env) (qname : name) (qtype : N) (cd : bool) (resp : msg)
           (parentDS : list rr) (zone : option name) : outcome :=
  if negb ((qtype =? m_qtype resp) && name_eqb qname (m_qname resp)) then Fail EQuestion else
  if cd then Accept resp else
  if e_dnssec E && match e_anchors E with [] => true | _ => false end then Fail ETrustAnchorsUnavailable else
  match find_signers (e_nrank E) (m_ns resp) qname false with
  | [] =>
      if is_zone_secure E qname parentDS zone && negb (proven_insecure_delegation E zone qname parentDS)
      then Fail ENoSignatures else Accept resp
  | signers =>
      match signer_loop E qname resp parentDS zone signers None with
      | SFail e => Fail e
      | SInsecure => Accept resp
      | SVerified ok s =>
          if negb (e_dnssec E && ok) then Accept resp else
          let nsec3 := filter_zone (extract (m_ns resp) None T_NSEC3) s in
          let nsec := filter_zone (extract (m_ns resp) None T_NSEC) s in
          let nx := m_rcode resp =? RC_NXDOMAIN in
          let negative := nx || ((m_rcode resp =? 0) && match m_ans resp with [] => true | _ => false end) in
          let verdict : ores :=
            if negb negative then OOk true else
            match nsec3, nsec with
            | _ :: _, _ => e_orc E (if nx then K_NXD3 else K_NODATA3) (m_id resp) qname s
            | [], _ :: _ => match e_orc E (if nx then K_NXDN else K_NODATAN) (m_id resp) qname s with
                            | OErr e => OErr e | OOk _ => OOk true end
            | [], [] => OErr ENSECMissingCoverage
            end in
          match verdict with
          | OErr e => Fail e
          | OOk sec => Accept (mk_msg (m_id resp) (m_qname resp) (m_qtype resp) (m_rcode resp) (m_ans resp) (m_ns resp) sec)
          end
      end
  end.

(* Resolver.validateDelegation: the DS set the child inherits.
   q = owner of the referral's NS RRset. *)
Inductive dsettle := DFail (e : err) | DUnverified (ds : list rr) | DVerified (signer : name).
Fixpoint deleg_loop (E : env) (q : name) (resp : msg) (orig : list rr) (zone : option name)
         (signers : list name) (last : option err) : dsettle :=
  match signers with
  | [] => DFail (match last with Some e => e | None => EDSRecords end)
  | s :: rest =>
      match validate_signer s q with
      | Some e => deleg_loop E q resp orig zone rest (Some e)
      | None =>
          match find_ds E (Some s) q orig false with
          | Er e => deleg_loop E q resp orig zone rest (Some e)
          | Ok [] =>
              if unsigned_is_bogus E q orig zone then deleg_loop E q resp orig zone rest (Some EDSRecords)
              else DUnverified []
          | Ok ds =>
              if negb (has_supported_ds ds) then DUnverified ds else
              match verify_dnssec E s resp ds with
              | (_, Some e) => deleg_loop E q resp orig zone rest (Some e)
              | (false, None) => DUnverified []
              | (true, None) => DVerified s
              end
          end
      end
  end.
Definition validate_delegation (E : env) (cd : bool) (resp : msg) (q : name)
           (parentDS : list rr) (zone : option name) : res (list rr) :=
  if cd then find_ds E None q parentDS true else
  if e_dnssec E && match e_anchors E with [] => true | _ => false end then Er ETrustAnchorsUnavailable else
  let parent_signer := match zone with Some z => z | None => [] end in
  let eff : res (list rr) :=
    match parent_signer, parentDS with
    | [], [] => ds_from_root_keys E
    | _, _ => Ok parentDS
    end in
  match eff with
  | Er e => Er e
  | Ok eds =>
      match find_signers (e_nrank E) (m_ns resp) q false with
      | [] =>
          if negb (has_supported_ds eds) then Ok parentDS else
          match authenticated_delegation_ds E parent_signer q eds with
          | Er e => Er e
          | Ok (ds, _) => Ok ds
          end
      | signers =>
          match deleg_loop E q resp eds zone signers None with
          | DFail e => Er e
          | DUnverified ds => Ok ds
          | DVerified s =>
              match extract (m_ns resp) (Some q) T_DS with
              | (_ :: _) as child => Ok child
              | [] =>
                  match filter_zone (extract (m_ns resp) None T_NSEC3) s with
                  | _ :: _ => match e_orc E K_DELEG3 (m_id resp) q s with OErr e => Er e | OOk _ => Ok [] end
                  | [] =>
                      match filter_zone (extract (m_ns resp) None T_NSEC) s with
                      | _ :: _ => match e_orc E K_DELEGN (m_id resp) q s with OErr e => Er e | OOk _ => Ok [] end
                      | [] => Er ENSECMissingCoverage
                      end
                  end
              end
          end
      end
  end.

(* ------------------------------------------------------------ the descent *)
(* Resolver.resolve / processAuthoritySection / processDelegation with QNAME minimisation off: one upstream response
   per step.  What travels down is (zone asked, DS set held for it) — resolveState.servers.Zone / parentDS — and the
   delegation cache files, per cut crossed, the DS set validateDelegation returned (authority.Delegation.DSSet). *)
(* extractDelegationInfo: the first NS record anchors the referral (owner, class); the others must agree *)
Definition first_ns (ns : list rr) : option rr := find (fun r => r_type r =? T_NS) ns.
Definition has_soa (ns : list rr) : bool := existsb (fun r => r_type r =? T_SOA) ns.
Definition ns_coherent (ns : list rr) (f : rr) : bool :=
  forallb (fun r => negb (r_type r =? T_NS) || (name_eqb (r_owner r) (r_owner f) && (r_class r =? r_class f))) ns.
(* progressingReferral: strictly below the zone asked and on the path to qname *)
Definition progressing (referral zone qname : name) : bool :=
  in_zone referral zone && negb (name_eqb referral zone) && in_zone qname referral.
(* validReferral (class IN questions) *)
Definition valid_referral (ns : list rr) (f : rr) (zone qname : name) : bool :=
  ns_coherent ns f && (r_class f =? 1) && progressing (r_owner f) zone qname.
(* filterAuthorityRecords *)
Definition filter_authority (ns : list rr) : list rr :=
  filter (fun r => (r_type r =? T_SOA) || (r_type r =? T_NSEC) || (r_type r =? T_NSEC3) || (r_type r =? T_RRSIG)) ns.
Definition with_ns (m : msg) (ns : list rr) : msg :=
  mk_msg (m_id m) (m_qname m) (m_qtype m) (m_rcode m) (m_ans m) ns (m_ad m).
(* resolve: an answer under SERVFAIL / NXDOMAIN is taken as NOERROR *)
Definition fix_rcode (m : msg) : msg :=
  if (m_rcode m =? RC_SERVFAIL) || (m_rcode m =? RC_NXDOMAIN)
  then mk_msg (m_id m) (m_qname m) (m_qtype m) 0 (m_ans m) (m_ns m) (m_ad m) else m.
(* the delegation cache of the request's CD partition: cut |-> DS set filed with it *)
Definition dcache := list (name * list rr).
Fixpoint dc_find (dc : dcache) (z : name) : option (list rr) :=
  match dc with
  | [] => None
  | (z', ds) :: r => if name_eqb z z' then Some ds else dc_find r z
  end.
(* searchCache: the deepest cached cut at or above qname, else the root with no DS *)
Fixpoint search_cache (dc : dcache) (q : name) : name * list rr :=
  match dc_find dc q with
  | Some ds => (q, ds)
  | None => match q with [] => ([], []) | _ :: p => search_cache dc p end
  end.
Definition EL_TRANSCRIPT : N := 96.   (* the transcript ended before the resolution did (never observed) *)
Definition EL_PARENT : N := 97.       (* errParentDetection: a referral that does not progress *)
Record dresult := mk_dresult { dr_out : outcome; dr_cache : dcache; dr_left : nat }.
Fixpoint descend (E : env) (q : name) (t : N) (cd : bool) (zone : name) (pds : list rr) (dc : dcache)
         (resps : list msg) : dresult :=
  match resps with
  | [] => mk_dresult (Fail (ELookup EL_TRANSCRIPT)) dc 0
  | resp :: rest =>
      let fin := fun o => mk_dresult o dc (length rest) in
      match m_ans resp with
      | _ :: _ => fin (validate_answer E q t cd (fix_rcode resp) pds (Some zone))
      | [] =>
          match m_ns resp with
          | [] =>
              (* a name error or an empty NOERROR without SOA / NSEC is still a denial: authority() judges it (since
                 199ba21); any other rcode is an upstream failure handed back as it came *)
              if (m_rcode resp =? RC_NXDOMAIN) || (m_rcode resp =? 0)
              then fin (validate_negative E q t cd resp pds (Some zone))
              else fin (Accept (mk_msg (m_id resp) q t (m_rcode resp) [] [] false))
          | ns =>
              match first_ns ns with
              | None => fin (validate_negative E q t cd resp pds (Some zone))
              | Some f =>
                  if has_soa ns then fin (validate_negative E q t cd (with_ns resp (filter_authority ns)) pds (Some zone))
                  else if negb (valid_referral ns f zone q) then fin (Fail (ELookup EL_PARENT))
                  else match validate_delegation E cd resp (r_owner f) pds (Some zone) with
                       | Er e => fin (Fail e)
                       | Ok ds =>
                           match dc_find dc (r_owner f) with
                           | Some cached => descend E q t cd (r_owner f) cached dc rest   (* resolveWithCachedNameservers *)
                           | None =>
                               let dc' := if e_dnssec E && match e_anchors E with [] => true | _ => false end
                                          then dc else (r_owner f, ds) :: dc in
                               descend E q t cd (r_owner f) ds dc' rest
                           end
                       end
              end
          end
      end
  end.
(* Resolve(root = true): start at the deepest cached cut *)
Definition resolve_from_cache (E : env) (q : name) (t : N) (cd : bool) (dc : dcache) (resps : list msg) : dresult :=
  let '(zone, pds) := search_cache dc q in descend E q t cd zone pds dc resps.

(* ---- the descent with QNAME minimisation (RFC 7816) ----
   Resolver.minimize: at [level] the question sent is the last level+1 labels of the name (same qtype) as long as that is
   shorter than the name, level < cfg.QnameMinLevel, and minimisation is on for this walk.  What a minimised question does
   in resolve / processAuthoritySection / processDelegation: an answer, an empty NOERROR, a bare non-success rcode, an
   authority section with SOA or CNAME -> one label deeper at the SAME servers with the SAME DS set; a name error with SOA
   goes through authority() first and ends the walk when it fails, or — RFC 8020 — as NXDOMAIN for the whole name when it
   was authenticated and is eligible for aggressive use ([aggr], by message id: dnssec.EvaluateAggressiveNSEC/NSEC3 agree
   with the rcode and no Opt-Out span is involved); a referral is judged against the FULL name; a referral shallower than
   the level reached restarts the walk without minimisation (from the delegation cache, nothing filed for this referral). *)
Definition minimise (qmin : nat) (nomin : bool) (level : nat) (q : name) : name * bool :=
  if (qmin =? 0)%nat || nomin || (qmin <=? level)%nat || (length q <=? S level)%nat then (q, false)
  else (lastn (S level) q, true).
Definition requestion (m : msg) (q : name) : msg :=
  mk_msg (m_id m) q (m_qtype m) (m_rcode m) (m_ans m) (m_ns m) (m_ad m).
Fixpoint descend_m (E : env) (aggr : N -> bool) (qmin : nat) (q : name) (t : N) (cd nomin : bool) (level : nat)
         (zone : name) (pds : list rr) (dc : dcache) (resps : list msg) : dresult :=
  match resps with
  | [] => mk_dresult (Fail (ELookup EL_TRANSCRIPT)) dc 0
  | resp :: rest =>
      let fin := fun o => mk_dresult o dc (length rest) in
      let mq := fst (minimise qmin nomin level q) in
      let minimized := snd (minimise qmin nomin level q) in
      let retry := descend_m E aggr qmin q t cd nomin (S level) zone pds dc rest in
      match m_ans resp with
      | _ :: _ => if minimized then retry else fin (validate_answer E q t cd (fix_rcode resp) pds (Some zone))
      | [] =>
          match m_ns resp with
          | [] => if minimized then retry else
                  (* since 199ba21: a name error / empty NOERROR without SOA or NSEC is a denial, authority() judges it *)
                  if (m_rcode resp =? RC_NXDOMAIN) || (m_rcode resp =? 0)
                  then fin (validate_negative E q t cd resp pds (Some zone))
                  else fin (Accept (mk_msg (m_id resp) q t (m_rcode resp) [] [] false))
          | ns =>
              let cut := if minimized && (m_rcode resp =? RC_NXDOMAIN) && has_soa ns
                         then match validate_negative E mq t cd resp pds (Some zone) with
                              | Fail e => Some (Fail e)
                              | Accept r => if m_ad r && aggr (m_id resp) then Some (Accept (requestion r q)) else None
                              end
                         else None in
              match cut with
              | Some o => fin o
              | None =>
                  if minimized && existsb (fun r => (r_type r =? T_SOA) || (r_type r =? T_CNAME)) ns then retry else
                  match first_ns ns with
                  | None => fin (validate_negative E mq t cd resp pds (Some zone))
                  | Some f =>
                      if has_soa ns then fin (validate_negative E mq t cd (with_ns resp (filter_authority ns)) pds (Some zone))
                      else if negb (valid_referral ns f zone q) then fin (Fail (ELookup EL_PARENT))
                      else match validate_delegation E cd resp (r_owner f) pds (Some zone) with
                           | Er e => fin (Fail e)
                           | Ok ds =>
                               let nlevel := length (r_owner f) in
                               if (nlevel <? level)%nat then
                                 if (0 <? qmin)%nat && negb nomin
                                 then descend_m E aggr qmin q t cd true (length (fst (search_cache dc q)))
                                                (fst (search_cache dc q)) (snd (search_cache dc q)) dc rest
                                 else fin (Fail (ELookup EL_PARENT))
                               else
                               match dc_find dc (r_owner f) with
                               | Some cached =>
                                   descend_m E aggr qmin q t cd nomin (Nat.max (S level) nlevel) (r_owner f) cached dc rest
                               | None =>
                                   let dc' := if e_dnssec E && match e_anchors E with [] => true | _ => false end
                                              then dc else (r_owner f, ds) :: dc in
                                   descend_m E aggr qmin q t cd nomin nlevel (r_owner f) ds dc' rest
                               end
                           end
                  end
              end
          end
      end
  end.
(* Resolve(root = true, nomin): start at the deepest cached cut, at the level of that cut *)
Definition resolve_from_cache_m (E : env) (aggr : N -> bool) (qmin : nat) (q : name) (t : N) (cd nomin : bool)
           (dc : dcache) (resps : list msg) : dresult :=
  descend_m E aggr qmin q t cd nomin (length (fst (search_cache dc q))) (fst (search_cache dc q)) (snd (search_cache dc q)) dc resps.

(* ------------------------------------------------- AD toward the client *)
Record creq := mk_creq { q_cd : bool; q_do : bool; q_ad : bool }.
(* edns.ResponseWriter: noad, then WriteMsg / WriteWire *)
Definition noad (q : creq) : bool := q_cd q || (negb (q_ad q) && negb (q_do q)).
Definition client_ad (q : creq) (resp_ad : bool) : bool := if noad q then false else resp_ad.
(* CacheEntry.ToMsg / serveWireInto / serveWireIntoRequest: stored AD, cleared on CD *)
Definition cache_ad (q : creq) (stored_ad : bool) : bool := if q_cd q then false else stored_ad.
(* a cache hit served through the edns writer *)
Definition client_ad_cached (q : creq) (stored_ad : bool) : bool := client_ad q (cache_ad q stored_ad).

(* ------------------------------------------- the cache as a store of verdicts; the alias chase over it *)
(* One entry per (folded) name and CD partition: the AD bit the answer was filed with, and either the name its CNAME
   points at (compared without regard to letter case since a4faf69: names are numbers here, the drivers fold) or
   terminal data.  ResponseWriter.WriteMsg files what the resolver answered under the partition of the REQUEST's CD bit,
   AD bit as the resolver set it. *)
(* what an entry without an alias link ends the chase with: data of the type asked, a NODATA denial (NOERROR, an SOA in
   the authority section) or an NXDOMAIN denial — [ce_term] is read only where [ce_next] is [None] *)
Inductive cterm := TData | TNoData | TNxDomain.
Record centry := mk_centry { ce_ad : bool; ce_next : option N; ce_term : cterm }.
Definition cstore := list (N * centry).
Fixpoint cs_find (st : cstore) (n : N) : option centry :=
  match st with
  | [] => None
  | (n', e) :: r => if n =? n' then Some e else cs_find r n
  end.
(* filing a verdict: (partition CD=0, partition CD=1) after one write *)
Definition file_verdict (verdict_ad req_cd : bool) : option bool * option bool :=
  if req_cd then (None, Some verdict_ad) else (Some verdict_ad, None).
(* what the resolver's outcome leaves to be filed *)
Definition filed_ad (o : outcome) : option bool := match o with Accept m => Some (m_ad m) | Fail _ => None end.

(* the alias path from a name: entries visited in order, and whether it ended in terminal data (a missing entry, a
   revisited name or an exhausted budget end it incomplete) *)
Fixpoint walk (st : cstore) (fuel : nat) (cur : N) (seen : list N) : list N * bool :=
  match fuel with
  | O => ([], false)
  | S f =>
      if existsb (N.eqb cur) seen then ([], false) else
      match cs_find st cur with
      | None => ([], false)
      | Some e =>
          match ce_next e with
          | None => ([cur], true)
          | Some t => let '(p, c) := walk st f t (cur :: seen) in (cur :: p, c)
          end
      end
  end.
Definition stored_ad (st : cstore) (n : N) : bool :=
  match cs_find st n with Some e => ce_ad e | None => false end.
(* searchAdditionalAnswer / composeWireChase: the composed reply is authentic only if every entry that contributed
   records is; then the CD clear of the cache and the noad rule of the edns writer *)
Definition composed_ad (st : cstore) (owners : list N) : bool := forallb (stored_ad st) owners.
Definition served_ad (q : creq) (st : cstore) (owners : list N) : bool := client_ad_cached q (composed_ad st owners).
Fixpoint is_prefix (a b : list N) : bool :=
  match a, b with
  | [], _ => true
  | x :: a', y :: b' => (x =? y) && is_prefix a' b'
  | _ :: _, [] => false
  end.
(* Cache.additionalAnswer over the store, a chain that ends: the reply composed for the client.  Every alias entry hands
   in its answer records; the entry the chain ends at hands in answer records (data) or ONLY authority records and the
   rcode (a denial: searchAdditionalAnswer merges res.Ns, the NXDOMAIN branch copies the rcode).  The AD bit is the AND
   over EVERY entry visited — the one that contributed nothing but the denial included — then the client's flags. *)
Record creply := mk_creply { cr_rcode : N; cr_ad : bool; cr_answer : list N; cr_auth : list N }.
Definition term_of (st : cstore) (n : N) : cterm :=
  match cs_find st n with Some e => ce_term e | None => TData end.
Definition chase_reply (q : creq) (st : cstore) (fuel : nat) (qn : N) : option creply :=
  let '(path, complete) := walk st fuel qn [] in
  if complete then
    let l := last path 0 in
    Some (mk_creply (match term_of st l with TNxDomain => 3 | _ => 0 end)
                    (served_ad q st path)
                    (match term_of st l with TData => path | _ => removelast path end)
                    (match term_of st l with TData => [] | _ => [l] end))
  else None.
(* the entry of the question's own name aliases onto that very name *)
Definition self_alias (st : cstore) (qn : N) : bool :=
  match cs_find st qn with Some e => match ce_next e with Some t => t =? qn | None => false end | None => false end.

