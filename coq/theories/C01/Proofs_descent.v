(* C01 — the descent: "parent DS chain: DS RRset inherited down the referral path and cached with each delegation".
   Every DS set the walk validates with — carried down from the previous cut, or taken from the delegation cache — was
   handed down from the root's empty set through referrals that validateDelegation accepted, each strictly below the
   zone asked and on the path to the name; the reply of the walk is a verdict of answer() / authority() computed with
   such a set.  (What validate_delegation's acceptance means per hop: validate_delegation_reasons,
   insecure_child_needs_proof, referral_ds_authentic; what answer()'s AD means given an authentic inherited set:
   answer_ad_sound.) *)
From Sdns Require Import Common.Base Gen.C01 C01.Model C01.Proofs_sig.
Open Scope N_scope.

(* a DS set handed down to a zone on the way to q: the root's empty set, or what validate_delegation returned for a
   referral — coherent, class IN, strictly below the zone asked, an ancestor of q — met with a handed-down set *)
Inductive handed_down (E : env) (q : name) (cd : bool) : name -> list rr -> Prop :=
| hd_root : handed_down E q cd [] []
| hd_cut zone pds resp f ds :
    handed_down E q cd zone pds ->
    first_ns (m_ns resp) = Some f -> valid_referral (m_ns resp) f zone q = true ->
    validate_delegation E cd resp (r_owner f) pds (Some zone) = Ok ds ->
    handed_down E q cd (r_owner f) ds.

Definition dc_sound (E : env) (q : name) (cd : bool) (dc : dcache) : Prop :=
  forall z ds, dc_find dc z = Some ds -> handed_down E q cd z ds.

(* what a walk can end with *)
Inductive final_verdict (E : env) (q : name) (t : N) (cd : bool) : outcome -> Prop :=
| fv_answer zone pds resp : handed_down E q cd zone pds ->
    final_verdict E q t cd (validate_answer E q t cd resp pds (Some zone))
| fv_negative zone pds resp : handed_down E q cd zone pds ->
    final_verdict E q t cd (validate_negative E q t cd resp pds (Some zone))
| fv_bare id rc : rc <> 0 -> rc <> RC_NXDOMAIN -> final_verdict E q t cd (Accept (mk_msg id q t rc [] [] false))
| fv_fail e : final_verdict E q t cd (Fail e).

Lemma dc_find_cons dc z ds z' :
  dc_find ((z, ds) :: dc) z' = if name_eqb z' z then Some ds else dc_find dc z'.
Proof. reflexivity. Qed.

Lemma dc_sound_cons E q cd dc z ds :
  dc_sound E q cd dc -> handed_down E q cd z ds -> dc_sound E q cd ((z, ds) :: dc).
Proof.
  intros Hs Hh z' ds'. rewrite dc_find_cons. destruct (name_eqb z' z) eqn:En.
  - intros H. injection H as <-. apply name_eqb_eq in En. subst z'. exact Hh.
  - apply Hs.
Qed.

Lemma dc_sound_nil E q cd : dc_sound E q cd [].
Proof. intros z ds H. discriminate. Qed.

Lemma descend_invariant E q t cd : forall resps zone pds dc,
  handed_down E q cd zone pds -> dc_sound E q cd dc ->
  dc_sound E q cd (dr_cache (descend E q t cd zone pds dc resps)) /\
  final_verdict E q t cd (dr_out (descend E q t cd zone pds dc resps)).
Proof.
  induction resps as [|resp rest IH]; intros zone pds dc Hh Hs; cbn [descend].
  - split; [exact Hs|constructor].
  - destruct (m_ans resp) as [|a0 al] eqn:Ea.
    + destruct (m_ns resp) as [|n0 nl] eqn:En.
      * destruct ((m_rcode resp =? RC_NXDOMAIN) || (m_rcode resp =? 0)) eqn:Erc.
        -- cbn. split; [exact Hs|econstructor; exact Hh].
        -- apply orb_false_iff in Erc as [E3 E0]. apply N.eqb_neq in E3, E0.
           cbn. split; [exact Hs|constructor; assumption].
      * destruct (first_ns (n0 :: nl)) as [f|] eqn:Ef.
        -- destruct (has_soa (n0 :: nl)).
           ++ cbn. split; [exact Hs|econstructor; exact Hh].
           ++ destruct (valid_referral (n0 :: nl) f zone q) eqn:Ev; cbn [negb].
              ** destruct (validate_delegation E cd resp (r_owner f) pds (Some zone)) as [e|ds] eqn:Evd.
                 --- cbn. split; [exact Hs|constructor].
                 --- assert (Hnew : handed_down E q cd (r_owner f) ds).
                     { eapply hd_cut; [exact Hh| | |exact Evd]; rewrite En; assumption. }
                     destruct (dc_find dc (r_owner f)) as [cached|] eqn:Ec.
                     +++ apply IH; [apply Hs; exact Ec|exact Hs].
                     +++ apply IH; [exact Hnew|].
                         destruct (e_dnssec E && match e_anchors E with [] => true | _ :: _ => false end);
                           [exact Hs|apply dc_sound_cons; assumption].
              ** cbn. split; [exact Hs|constructor].
        -- cbn. split; [exact Hs|econstructor; exact Hh].
    + cbn. split; [exact Hs|econstructor; exact Hh].
Qed.

Lemma search_cache_sound E q cd dc : dc_sound E q cd dc ->
  forall q', handed_down E q cd (fst (search_cache dc q')) (snd (search_cache dc q')).
Proof.
  intros Hs. induction q' as [|l p IH]; cbn [search_cache].
  - destruct (dc_find dc []) as [ds|] eqn:Ef; cbn; [apply Hs; exact Ef|constructor].
  - destruct (dc_find dc (l :: p)) as [ds|] eqn:Ef; cbn; [apply Hs; exact Ef|exact IH].
Qed.

(* Resolve from the delegation cache: the cache stays sound and the reply is a verdict over a handed-down set *)
Theorem resolve_from_cache_sound_lemma E q t cd dc resps :
  dc_sound E q cd dc ->
  dc_sound E q cd (dr_cache (resolve_from_cache E q t cd dc resps)) /\
  final_verdict E q t cd (dr_out (resolve_from_cache E q t cd dc resps)).
Proof.
  intros Hs. unfold resolve_from_cache. pose proof (search_cache_sound E q cd dc Hs q) as Hh.
  destruct (search_cache dc q) as [zone pds]. cbn in Hh. apply descend_invariant; assumption.
Qed.

(* every zone a handed-down set belongs to is an ancestor of (or is) the name being resolved *)
Lemma lastn_0 (n : name) : lastn 0 n = [].
Proof. unfold lastn. rewrite Nat.sub_0_r. apply skipn_all. Qed.
Lemma in_zone_root n : in_zone n [] = true.
Proof. unfold in_zone. cbn [length]. rewrite lastn_0. reflexivity. Qed.
Lemma handed_down_on_path E q cd zone pds : handed_down E q cd zone pds -> in_zone q zone = true.
Proof.
  induction 1 as [|zone pds resp f ds _ _ _ Hv _]; [apply in_zone_root|].
  unfold valid_referral, progressing in Hv.
  apply andb_true_iff in Hv as [_ Hv]. apply andb_true_iff in Hv as [_ Hv]. exact Hv.
Qed.

(* the first walk of a history (empty cache), then any number of further walks: AD on a reply is answer()'s or
   authority()'s own AD, computed for a zone on the path to q with a DS set handed down to that zone *)
Theorem descent_ad_rests_on_handed_down_ds_lemma E q t cd dc resps m :
  dc_sound E q cd dc ->
  dr_out (resolve_from_cache E q t cd dc resps) = Accept m -> m_ad m = true ->
  exists zone pds resp, handed_down E q cd zone pds /\ in_zone q zone = true /\
    (validate_answer E q t cd resp pds (Some zone) = Accept m \/
     validate_negative E q t cd resp pds (Some zone) = Accept m).
Proof.
  intros Hs Ho Had. destruct (resolve_from_cache_sound_lemma E q t cd dc resps Hs) as [_ Hf].
  revert Ho. generalize (dr_out (resolve_from_cache E q t cd dc resps)) Hf. clear Hf.
  intros o Hf Ho. destruct Hf as [zone pds resp Hh|zone pds resp Hh|id rc|e].
  - exists zone, pds, resp. split; [exact Hh|]. split; [eapply handed_down_on_path; exact Hh|]. left. exact Ho.
  - exists zone, pds, resp. split; [exact Hh|]. split; [eapply handed_down_on_path; exact Hh|]. right. exact Ho.
  - injection Ho as Hm. rewrite <- Hm in Had. cbn in Had. discriminate.
  - discriminate.
Qed.

(* "missing its denial proof -> SERVFAIL": every NOERROR / NXDOMAIN reply of a walk — data, NODATA or name error — is
   answer()'s or authority()'s verdict for a zone on the path to q with a DS set handed down to that zone; what is handed
   back without a verdict is an upstream failure rcode with empty sections *)
Theorem descent_denial_is_validated_lemma E q t cd dc resps m :
  dc_sound E q cd dc ->
  dr_out (resolve_from_cache E q t cd dc resps) = Accept m -> (m_rcode m = 0 \/ m_rcode m = RC_NXDOMAIN) ->
  exists zone pds resp, handed_down E q cd zone pds /\ in_zone q zone = true /\
    (validate_answer E q t cd resp pds (Some zone) = Accept m \/
     validate_negative E q t cd resp pds (Some zone) = Accept m).
Proof.
  intros Hs Ho Hrc. destruct (resolve_from_cache_sound_lemma E q t cd dc resps Hs) as [_ Hf].
  revert Ho. generalize (dr_out (resolve_from_cache E q t cd dc resps)) Hf. clear Hf.
  intros o Hf Ho. destruct Hf as [zone pds resp Hh|zone pds resp Hh|id rc H0 H3|e].
  - exists zone, pds, resp. split; [exact Hh|]. split; [eapply handed_down_on_path; exact Hh|]. left. exact Ho.
  - exists zone, pds, resp. split; [exact Hh|]. split; [eapply handed_down_on_path; exact Hh|]. right. exact Ho.
  - injection Ho as Hm. rewrite <- Hm in Hrc. cbn in Hrc. destruct Hrc; contradiction.
  - discriminate.
Qed.

(* "a zone is treated as unsigned only on a validated proof": an EMPTY handed-down set below the root exists only
   because validate_delegation returned the empty set for the referral into that zone, met with a handed-down set *)
Theorem empty_ds_only_from_validate_delegation_lemma E q cd zone :
  handed_down E q cd zone [] -> zone <> [] ->
  exists parent pds resp, handed_down E q cd parent pds /\ in_zone zone parent = true /\ name_eqb zone parent = false /\
    validate_delegation E cd resp zone pds (Some parent) = Ok [].
Proof.
  intros Hh Hne. remember (@nil rr) as ds0 eqn:Eds.
  destruct Hh as [|parent pds resp f ds Hp Hf Hv Hvd]; [congruence|].
  subst ds. exists parent, pds, resp. split; [exact Hp|].
  unfold valid_referral, progressing in Hv.
  apply andb_true_iff in Hv as [_ Hv].
  apply andb_true_iff in Hv as [Hv1 _]. apply andb_true_iff in Hv1 as [Hz Hn].
  split; [exact Hz|]. split; [apply negb_true_iff; exact Hn|exact Hvd].
Qed.

(* ---- a denial that shows nothing (finding bare-denial-unvalidated) ---- *)
(* authority() on a response whose authority section is empty: no signer can be named, so for a zone that is_zone_secure,
   without a proven insecure delegation below it, the response is refused — whatever its rcode and answer section, for a
   validating request (CD=0) of any resolver that has an anchor (or runs with dnssec off) *)
Lemma find_signers_nil rank q ia : find_signers rank [] q ia = [].
Proof. reflexivity. Qed.

Theorem bare_denial_refused_by_authority_lemma E q t resp pds zone :
  m_ns resp = [] -> m_qtype resp = t -> m_qname resp = q ->
  (e_dnssec E = true -> e_anchors E <> []) ->
  is_zone_secure E q pds zone = true -> proven_insecure_delegation E zone q pds = false ->
  validate_negative E q t false resp pds zone = Fail ENoSignatures.
Proof.
  intros Hns Ht Hq Ha Hs Hp. unfold validate_negative.
  rewrite Ht, Hq, N.eqb_refl, name_eqb_refl. cbn [andb negb].
  replace (e_dnssec E && match e_anchors E with [] => true | _ :: _ => false end) with false.
  2:{ destruct (e_dnssec E); [|reflexivity]. destruct (e_anchors E); [exfalso; apply Ha; reflexivity|reflexivity]. }
  rewrite Hns, find_signers_nil, Hs, Hp. reflexivity.
Qed.

(* ... and since the bare-denial repair the walk asks it: a name error or an empty NOERROR with empty sections, met by a
   validating walk that holds a DS set under which the zone is_zone_secure, no insecure delegation proven, fails the walk
   (SERVFAIL + EDE "RRSIGs missing" at the handler) wherever in the transcript it arrives, whatever the cache holds *)
Theorem bare_denial_fails_closed_lemma E q t zone pds dc resp rest :
  m_ans resp = [] -> m_ns resp = [] -> (m_rcode resp = 0 \/ m_rcode resp = RC_NXDOMAIN) ->
  m_qtype resp = t -> m_qname resp = q ->
  (e_dnssec E = true -> e_anchors E <> []) ->
  is_zone_secure E q pds (Some zone) = true -> proven_insecure_delegation E (Some zone) q pds = false ->
  dr_out (descend E q t false zone pds dc (resp :: rest)) = Fail ENoSignatures.
Proof.
  intros Ha Hn Hrc Ht Hq Hanch Hs Hp. cbn [descend]. rewrite Ha, Hn.
  replace ((m_rcode resp =? RC_NXDOMAIN) || (m_rcode resp =? 0)) with true
    by (destruct Hrc as [-> | ->]; reflexivity).
  cbn [dr_out]. apply bare_denial_refused_by_authority_lemma; assumption.
Qed.
(* the witness of the refuted statement this replaces (the code before the repair accepted both) *)
Definition K_bare_root : key := mk_key [] 1 257 3 15 1 11.
Definition ds_bare : rr := mk_rr [1] T_DS 1 7 (RdDS 22 15 2 (DigOf 2 [1] 257 3 15 2) 0).
Definition E_bare : env := mk_env (fun _ => 0) 0%Z true [K_bare_root] (fun _ _ => LErr 1) (fun _ => LErr 1) (fun _ _ _ => LErr 1)
                                  (fun _ _ _ _ => OErr ENoSignatures) (fun _ _ _ _ => WErr ENoSignatures).
Definition bare_msg (rc : N) : msg := mk_msg 9 [2; 1] 1 rc [] [] false.
Example bare_denials_now_refused :
  dr_out (descend E_bare [2; 1] 1 false [1] [ds_bare] [] [bare_msg RC_NXDOMAIN]) = Fail ENoSignatures /\
  dr_out (descend E_bare [2; 1] 1 false [1] [ds_bare] [] [bare_msg 0]) = Fail ENoSignatures /\
  dr_out (descend E_bare [2; 1] 1 false [1] [ds_bare] [] [bare_msg 5]) = Accept (mk_msg 9 [2; 1] 1 5 [] [] false) /\
  dr_out (descend E_bare [2; 1] 1 true [1] [ds_bare] [] [bare_msg RC_NXDOMAIN]) = Accept (bare_msg RC_NXDOMAIN).
Proof. vm_compute. repeat split; reflexivity. Qed.

(* non-vacuity: a world with no anchors and CD set walks root -> [1] -> answer; the cut is NOT filed (no anchor), and
   with an anchorless validating client the walk fails closed at the first referral *)
Definition E_desc : env := mk_env (fun _ => 0) 0%Z true [] (fun _ _ => LErr 1) (fun _ => LErr 1) (fun _ _ _ => LErr 1)
                                  (fun _ _ _ _ => OErr ENoSignatures) (fun _ _ _ _ => WErr ENoSignatures).
Definition ref1 : msg := mk_msg 1 [2; 1] 1 0 [] [mk_rr [1] T_NS 1 5 RdOther] false.
Definition ans1 : msg := mk_msg 2 [2; 1] 1 0 [mk_rr [2; 1] 1 1 6 RdOther] [] false.
Example descent_fails_closed_without_anchor :
  dr_out (resolve_from_cache E_desc [2; 1] 1 false [] [ref1; ans1]) = Fail ETrustAnchorsUnavailable /\
  dr_left (resolve_from_cache E_desc [2; 1] 1 false [] [ref1; ans1]) = 1%nat.
Proof. vm_compute. split; reflexivity. Qed.
Example referral_off_the_path_is_refused :
  dr_out (resolve_from_cache E_desc [2; 1] 1 true [] [mk_msg 1 [2; 1] 1 0 [] [mk_rr [3] T_NS 1 5 RdOther] false; ans1])
    = Fail (ELookup EL_PARENT).
Proof. vm_compute. reflexivity. Qed.
Example search_cache_deepest :
  search_cache [([1], [mk_rr [1] T_DS 1 7 RdOther]); ([2; 1], [])] [3; 2; 1] = ([2; 1], []) /\
  search_cache [([1], [mk_rr [1] T_DS 1 7 RdOther])] [3; 2; 1] = ([1], [mk_rr [1] T_DS 1 7 RdOther]) /\
  search_cache [] [3; 2; 1] = ([], []).
Proof. vm_compute. repeat split; reflexivity. Qed.
