(* C17 — property theorems only.  Each is closed by [exact <lemma>] so that it cannot be
   quietly weakened; the lemmas live in Proofs_*.v; the model in Model.v; Gen/C17.v is
   regenerated from /repo on every run. *)
From Coq Require Import String Permutation Sorting.Sorted.
From Sdns Require Import Common.Base Common.GoList Gen.C17 C17.Model C17.Proofs_arith C17.Proofs_search C17.Run C17.Proofs_set C17.Proofs_loops C17.Proofs_writer C17.Proofs_policy C17.Proofs_views C17.Proofs_closest C17.Proofs_recspec C17.Proofs_handler.
Open Scope N_scope.

(* translator ties: the Go functions, as translated from the source now, are the order on
   128-bit numbers and the saturating low-bit mask *)
Theorem u128_lessEq_is_order : forall a b, u128_wf a -> u128_wf b -> go_u128_lessEq a b = (uval a <=? uval b).
Proof. exact gen_u128_lessEq. Qed.
Print Assumptions u128_lessEq_is_order.

Theorem ones_is_mask : forall n, go_ones n = if (n <=? 0)%Z then 0 else if (64 <=? n)%Z then two64 - 1 else 2 ^ Z.to_N n - 1.
Proof. exact gen_ones. Qed.
Print Assumptions ones_is_mask.

(* translator ties, loops: the binary search of Set.Contains and the running-maximum loop of
   compile(), as translated from the Go source now (Gen/C17.v, item kind loopfunc), compute what
   the model's bsearch / run_max compute — for every slice a program can hold (fewer than 2^62
   spans, so that the midpoint int(uint(i+j)>>1) is exact), with the iteration budget stated *)
Theorem contains_loop_is_model_search : forall spans k, (Z.of_nat (length spans) < 2 ^ 62)%Z ->
  go_Set_Contains_loop1_run (S (length spans)) (map to_T spans) k 0%Z (Z.of_nat (length spans)) =
  (let r := bsearch (fun m => go_u128_lessEq (s_lo (nth m spans dummy_span)) k) (length spans) 0 (length spans) in
   (GoNext, (map to_T spans, k, Z.of_nat r, Z.of_nat r))).
Proof. exact gen_contains_search_model. Qed.
Print Assumptions contains_loop_is_model_search.

Theorem compile_loop_is_running_max : forall l mx,
  go_compile_loop1_run (map to_T l) mx = (GoNext, (map to_T (run_max mx l), last_max mx l)).
Proof. exact gen_compile_running_max. Qed.
Print Assumptions compile_loop_is_running_max.

(* bounds: first and last address of a masked prefix, for every family, length and address *)
Theorem bounds_exact : forall p, prefix_ok p = true ->
  let '(lo, hi) := bounds p in
  uval lo = range_lo p /\ uval hi = range_hi p /\ u128_wf lo /\ u128_wf hi /\ range_hi p < 2 ^ Z.to_N (width (p_is4 p)).
Proof. exact bounds_spec. Qed.
Print Assumptions bounds_exact.

(* the stabbing query is exact for EVERY span list (overlaps, nesting, adjacency, duplicates)
   and EVERY order sort.Slice may produce (any permutation sorted by start) *)
Theorem contains_exact : forall (l l' : list span) (k : T_u128),
  Forall span_wf l -> u128_wf k -> Permutation l l' -> StronglySorted lo_le l' ->
  contains_compiled (run_max zero128 l') k = existsb (stabs (uval k)) l.
Proof. exact contains_compiled_exact. Qed.
Print Assumptions contains_exact.

(* membership is exactly "the address lies in at least one configured CIDR"; an IPv4-mapped
   IPv6 source counts as IPv4; families never mix *)
Theorem membership_exact : forall ps a,
  Forall (fun p => prefix_ok p = true) ps -> addr_ok a ->
  set_contains (new_set ps) a = spec_contains ps a.
Proof. exact set_contains_exact. Qed.
Print Assumptions membership_exact.

Theorem mapped_source_counts_as_v4 : forall ps v, v < 2 ^ 32 ->
  spec_contains ps (mk_addr false (mapped_prefix + v)) = spec_contains ps (mk_addr true v).
Proof. exact mapped_counts_as_v4. Qed.
Print Assumptions mapped_source_counts_as_v4.

Theorem family_separation : forall p a, in_prefix p a = true -> p_is4 p = a_is4 (unmap a).
Proof. exact spec_family_separation. Qed.
Print Assumptions family_separation.

(* access list: a source outside the list is dropped (no Next, no write); internal requests bypass *)
Theorem accesslist_exact : forall ps internal src,
  Forall (fun p => prefix_ok p = true) ps -> (forall a, src = Some a -> addr_ok a) ->
  acl_serve (new_set ps) internal src =
  if internal || match src with Some a => spec_contains ps a | None => false end then AclNext else AclDrop.
Proof. exact acl_exact. Qed.
Print Assumptions accesslist_exact.

(* the configured list: empty = open default; a list whose entries all fail to parse denies all *)
Theorem accesslist_config_exact : forall n_entries ps internal src,
  Forall (fun p => prefix_ok p = true) ps -> (forall a, src = Some a -> addr_ok a) ->
  acl_serve (new_set (acl_effective n_entries ps)) internal src =
  if internal || match src with Some a => spec_contains (acl_effective n_entries ps) a | None => false end then AclNext else AclDrop.
Proof. exact acl_config_exact. Qed.
Print Assumptions accesslist_config_exact.

Theorem unparsable_only_list_denies_all : forall n_entries src,
  n_entries <> 0 -> acl_serve (new_set (acl_effective n_entries [])) false src = AclDrop.
Proof. exact all_malformed_denies. Qed.
Print Assumptions unparsable_only_list_denies_all.

(* views: first matching view in declaration order, by the same containment rule *)
Theorem first_match_view : forall views a i0,
  Forall (Forall (fun p => prefix_ok p = true)) views -> addr_ok a ->
  first_view (map new_set views) a i0 =
  (fix go (vs : list (list prefix)) (i : nat) : option nat :=
     match vs with [] => None | v :: r => if spec_contains v a then Some i else go r (S i) end) views i0.
Proof. exact first_view_spec. Qed.
Print Assumptions first_match_view.

(* internal sub-pipelines: exactly the handlers not skipped, order kept; with the ClientOnly set
   and chain order read from the source now, neither internal sub-pipeline contains the access
   list, the rate limiter, reflex or views *)
Theorem subpipeline_exact : forall handlers skip h,
  In h (sub_pipeline handlers skip) <-> In h handlers /\ ~ In h skip.
Proof. exact sub_pipeline_spec. Qed.
Print Assumptions subpipeline_exact.

Theorem subqueries_skip_client_policy : forall h,
  In h (queryer_sub handler_order) \/ In h (prefetch_sub handler_order) ->
  ~ In h [n_accesslist; n_ratelimit; n_reflex; n_views] /\ ~ In h client_only.
Proof. exact internal_subpipelines_have_no_client_policy. Qed.
Print Assumptions subqueries_skip_client_policy.

Theorem accesslist_ahead_of_answering_handlers :
  names_eqb_list handler_order defaults_chain = true /\
  match index_of n_accesslist defaults_chain 0 with
  | Some ia => names_eqb_list (firstn ia defaults_chain) [n_recovery; n_metrics; n_dnstap]
  | None => false
  end = true.
Proof. exact (conj chain_matches_gen accesslist_first_policy). Qed.
Print Assumptions accesslist_ahead_of_answering_handlers.

(* ---- who is internal (responseWriter.Reset), on every transport address type ---- *)

(* source-text tie: the statements of Reset that decide w.internal are the ones the model was
   written from (each address-type arm tests ITS OWN a.Port; no other assignment) *)
Theorem reset_classification_pinned :
  reset_arms = [bytes_of "UDPAddr"%string; bytes_of "TCPAddr"%string] /\
  reset_tail = [bytes_of "internal = i.Internal()"%string] /\
  reset_internal_assignments =
    [bytes_of "false"%string; bytes_of "a.Port == 0 && a.IP.Equal(internalIP)"%string;
     bytes_of "a.Port == 0 && a.IP.Equal(internalIP)"%string; bytes_of "i.Internal()"%string].
Proof. exact reset_text_pinned. Qed.
Print Assumptions reset_classification_pinned.

Theorem sentinel_is_one_address :
  sentinel_v4 = 2130706687 /\ buffer_remote_v4 = sentinel_v4 /\ buffer_remote_port = 0%Z /\
  ((mock_sentinel_o0 * 256 + mock_sentinel_o1) * 256 + mock_sentinel_o2) * 256 + mock_sentinel_o3 = sentinel_v4.
Proof. exact sentinel_values. Qed.
Print Assumptions sentinel_is_one_address.

(* internal <=> the writer was created by the sub-query pipeline: the transport declares it
   (BufferWriter.Internal) or the remote is the sentinel with port 0 — for every transport *)
Theorem internal_iff_subquery_writer : forall r,
  writer_internal r = true <->
  r_says r = Some true \/ (r_kind r <> KOther /\ r_port r = 0%Z /\ ip_is_sentinel (r_ip r) = true).
Proof. exact internal_iff. Qed.
Print Assumptions internal_iff_subquery_writer.

Theorem internal_classification_is_spec : forall r, (forall a, r_ip r = Some a -> addr_ok a) ->
  writer_internal r = spec_subquery r.
Proof. exact writer_internal_is_spec. Qed.
Print Assumptions internal_classification_is_spec.

Theorem client_is_never_internal : forall r,
  r_says r <> Some true -> (r_port r <> 0%Z \/ ip_is_sentinel (r_ip r) = false) -> writer_internal r = false.
Proof. exact client_never_internal. Qed.
Print Assumptions client_is_never_internal.

Theorem subquery_writer_is_internal :
  writer_internal subquery_remote = true /\ sentinel_remote subquery_remote = true /\
  (forall w, r_says subquery_remote = Some (go_BufferWriter_Internal w)).
Proof. exact subquery_internal. Qed.
Print Assumptions subquery_writer_is_internal.

(* translator tie: the getters the handlers call (ch.Writer.Internal(), ch.Writer.RemoteIP()) return the fields Reset
   stored - the model's [writer_internal r] / [writer_remote_ip r] are what every handler sees *)
Theorem writer_getters_read_what_reset_stored : forall w,
  go_responseWriter_Internal w = T_responseWriter_internal w /\ go_responseWriter_RemoteIP w = T_responseWriter_remoteip w.
Proof. exact writer_getters. Qed.
Print Assumptions writer_getters_read_what_reset_stored.

(* the DoH / DoH3 writer (internal/mock.Writer) computes its own Internal() by the same rule and so
   adds nothing: behind it a request is internal exactly on the address signature *)
Theorem doh_writer_adds_no_internal : forall r,
  r_says r = Some (transport_says r) -> writer_internal r = sentinel_remote r.
Proof. exact mock_writer_adds_nothing. Qed.
Print Assumptions doh_writer_adds_no_internal.

Theorem mock_writer_classification_pinned :
  mock_arms = [bytes_of "UDPAddr"%string; bytes_of "TCPAddr"%string].
Proof. exact mock_text_pinned. Qed.
Print Assumptions mock_writer_classification_pinned.

(* the access list as the chain runs it, for every transport: exact *)
Theorem accesslist_exact_on_every_transport : forall n_entries ps r,
  Forall (fun p => prefix_ok p = true) ps -> (forall a, r_ip r = Some a -> addr_ok a) ->
  acl_serve_remote (new_set (acl_effective n_entries ps)) r =
  if spec_allowed (acl_effective n_entries ps) r then AclNext else AclDrop.
Proof. exact acl_remote_config_exact. Qed.
Print Assumptions accesslist_exact_on_every_transport.

(* ... and every client (real source port, or not the sentinel address) is judged by containment
   of its peer address and nothing else, whatever the address type *)
Theorem every_client_is_judged_by_the_list : forall ps r,
  Forall (fun p => prefix_ok p = true) ps -> (forall a, r_ip r = Some a -> addr_ok a) ->
  r_says r <> Some true -> (r_port r <> 0%Z \/ ip_is_sentinel (r_ip r) = false) ->
  acl_serve_remote (new_set ps) r =
  match spec_client_ip r with
  | Some a => if spec_contains ps a then AclNext else AclDrop
  | None => AclDrop
  end.
Proof. exact acl_client_judged. Qed.
Print Assumptions every_client_is_judged_by_the_list.

(* views as the chain runs them: skipped for genuine sub-queries only, first matching view *)
Theorem views_exact_on_every_transport : forall (views : list (list prefix * bool)) r,
  Forall (fun v => Forall (fun p => prefix_ok p = true) (fst v)) views -> (forall a, r_ip r = Some a -> addr_ok a) ->
  view_serve_remote (map (fun v => (new_set (fst v), snd v)) views) r =
  if spec_subquery r then None else
  match spec_client_ip r with Some a => spec_first_view views a 0 | None => None end.
Proof. exact view_remote_exact. Qed.
Print Assumptions views_exact_on_every_transport.

Example writer_examples :
  (* a TCP client FROM the sentinel address with a real port is a client, and is dropped by a LAN list *)
  let lan := [mk_prefix true 167772160 8] in
  let tcp_client := mk_remote KTcp (Some (mk_addr true 2130706687)) 40000 None in
  writer_internal tcp_client = false /\ acl_serve_remote (new_set lan) tcp_client = AclDrop /\
  (* the mapped form over the DoH writer (which reports Internal() = false) likewise *)
  writer_internal (mk_remote KTcp (Some (mk_addr false (mapped_prefix + 2130706687))) 443 (Some false)) = false /\
  (* the sub-query writer passes *)
  acl_serve_remote (new_set lan) subquery_remote = AclNext /\
  (* neighbours of the sentinel with port 0 are clients *)
  writer_internal (mk_remote KUdp (Some (mk_addr true 2130706686)) 0 None) = false /\
  writer_internal (mk_remote KUdp (Some (mk_addr true 2130706944)) 0 None) = false.
Proof. vm_compute. repeat split. Qed.

(* ---- what an internal request skips downstream: the per-client rate limiter (and reflex) ---- *)

Theorem policy_guards_pinned :
  ratelimit_passes = [bytes_of "ch.Replay()"%string; bytes_of "w.Internal()"%string; bytes_of "r.rate == 0"%string;
                      bytes_of "w.RemoteIP() == nil"%string; bytes_of "w.RemoteIP().IsLoopback()"%string] /\
  reflex_passes = [bytes_of "w.Internal() || w.RemoteIP() == nil || w.RemoteIP().IsLoopback()"%string].
Proof. exact policy_guards_text. Qed.
Print Assumptions policy_guards_pinned.

(* the limiter's exemptions are exactly: internal, limiter off, no peer address, loopback peer *)
Theorem ratelimit_exemptions_exact : forall r rate,
  rl_charged rate r = false <->
  writer_internal r = true \/ rate = 0 \/ writer_remote_ip r = None \/
  (exists a, writer_remote_ip r = Some a /\ is_loopback a = true).
Proof. exact rl_exemptions. Qed.
Print Assumptions ratelimit_exemptions_exact.

Theorem ratelimit_decision_is_spec : forall rate r, (forall a, r_ip r = Some a -> addr_ok a) ->
  rl_charged rate r =
  negb (spec_subquery r) && negb (rate =? 0) &&
  match spec_client_ip r with Some a => negb (spec_loopback a) | None => false end.
Proof. exact rl_charged_is_spec. Qed.
Print Assumptions ratelimit_decision_is_spec.

(* a flood from a client address is held to its budget on every transport address type *)
Theorem client_flood_is_rate_limited : forall rate n r a,
  rate <> 0 -> r_says r <> Some true -> (r_port r <> 0%Z \/ ip_is_sentinel (r_ip r) = false) ->
  writer_remote_ip r = Some a -> is_loopback a = false ->
  flood_answered rate n r = N.min n rate.
Proof. exact client_flood_limited. Qed.
Print Assumptions client_flood_is_rate_limited.

(* a sub-query never is: on the handler order and ClientOnly set read from the source now *)
Theorem subquery_is_never_rate_limited : forall via rate n,
  sub_flood_answered handler_order via rate n = n /\
  flood_answered rate n subquery_remote = n /\
  mem_name n_ratelimit_name (queryer_sub handler_order) = false /\
  mem_name n_ratelimit_name (prefetch_sub handler_order) = false.
Proof. exact subquery_never_limited. Qed.
Print Assumptions subquery_is_never_rate_limited.

Example flood_examples :
  (* 12 queries at 3 per minute: a LAN client over UDP, over TCP, in IPv4-mapped form over the DoH writer: 3 pass *)
  flood_answered 3 12 (mk_remote KUdp (Some (mk_addr true 167838211)) 4242 None) = 3 /\
  flood_answered 3 12 (mk_remote KTcp (Some (mk_addr true 167838211)) 4242 None) = 3 /\
  flood_answered 3 12 (mk_remote KTcp (Some (mk_addr false (mapped_prefix + 167838211))) 443 (Some false)) = 3 /\
  (* the sub-query writer: all 12; a transport that declares itself internal: all 12; limiter off: all 12 *)
  flood_answered 3 12 subquery_remote = 12 /\
  flood_answered 3 12 (mk_remote KUdp (Some (mk_addr true 167838211)) 4242 (Some true)) = 12 /\
  flood_answered 0 12 (mk_remote KUdp (Some (mk_addr true 167838211)) 4242 None) = 12 /\
  (* a client from the sentinel address with a real port is NOT internal; it is exempt only as a loopback peer *)
  writer_internal (mk_remote KTcp (Some (mk_addr true 2130706687)) 40000 None) = false /\
  is_loopback (mk_addr true 2130706687) = true.
Proof. vm_compute. repeat split. Qed.

(* ---- which records a matched view serves ---- *)

(* translator tie: views.nameMatches, as translated from the source now — a plain owner covers exactly
   itself; an owner "*.S" covers exactly the names H ++ "." ++ S (strictly below S, on a label boundary) *)
Theorem nameMatches_is_wildcard_cover : forall owner q,
  let o := go_canonical_name_ascii owner in
  go_nameMatches owner q = true <->
  (go_has_prefix N.eqb o [42; 46] = false /\ o = q) \/
  (exists s h, o = 42 :: 46 :: s /\ q = (h ++ [46]) ++ s).
Proof. exact gen_nameMatches. Qed.
Print Assumptions nameMatches_is_wildcard_cover.

(* a view answers a question iff it holds a record of the asked type whose owner covers the name *)
Theorem view_answers_iff_a_record_matches : forall answers qname qtype,
  view_has_record answers qname qtype = existsb (rec_matches (go_canonical_name_ascii qname) qtype) answers.
Proof. exact view_has_record_iff. Qed.
Print Assumptions view_answers_iff_a_record_matches.

(* an exact owner beats every covering wildcard; nothing is served that does not match name and type *)
Theorem view_serves_exact_over_wildcard : forall answers qname qtype,
  let q := go_canonical_name_ascii qname in
  (existsb (fun rr => rec_matches q qtype rr && negb (wildcard_owner (go_canonical_name_ascii (fst rr)))) answers = true ->
   Forall (exact_rec answers q qtype) (view_answer answers qname qtype)) /\
  Forall (fun j => exact_rec answers q qtype j \/ wild_rec answers q qtype j) (view_answer answers qname qtype).
Proof. exact view_answer_kinds. Qed.
Print Assumptions view_serves_exact_over_wildcard.

Example view_record_examples :
  let b := bytes_of in
  let recs := [(b "*.example."%string, 1); (b "example."%string, 1); (b "*.sub.example."%string, 1); (b "sub.example."%string, 1); (b "HOST.Example."%string, 1)] in
  view_answer recs (b "x.sub.example."%string) 1 = [2%nat] /\      (* closest enclosing wildcard *)
  view_answer recs (b "sub.example."%string) 1 = [3%nat] /\        (* exact owner beats the covering wildcard *)
  view_answer recs (b "Host.EXAMPLE."%string) 1 = [4%nat] /\       (* case-insensitive *)
  view_answer recs (b "xsub.example."%string) 1 = [0%nat] /\       (* label boundary: not below sub.example. *)
  view_answer recs (b "example."%string) 1 = [1%nat] /\            (* a wildcard does not cover its own suffix *)
  view_answer recs (b "x.sub.example."%string) 28 = [].             (* other type: falls through *)
Proof. vm_compute. repeat split. Qed.

(* ---- the views handler as a whole (session 4): guards + first-match view selection + that view's records ---- *)

(* views.ServeDNS on every transport: skipped for genuine sub-queries only, a transport without a client
   address passes, otherwise the views are tried in declaration order by the same containment rule as
   the access list ([spec_contains]: the address lies in at least one of the view's CIDRs) *)
Theorem views_handler_exact : forall (views : list (list prefix * list vrec)) r q t,
  views_wf views -> (forall a, r_ip r = Some a -> addr_ok a) ->
  views_serve (compiled_views views) r q t =
  if spec_subquery r then VNext else
  match spec_client_ip r with Some a => ref_views_loop views a q t 0 | None => VNext end.
Proof. exact views_serve_exact_l. Qed.
Print Assumptions views_handler_exact.

(* view i answers with records l  <=>  the request is a client's, i is the FIRST view in declaration order
   whose networks contain the client's address, and l is the non-empty selection among view i's own records *)
Theorem view_answers_iff_first_containing_view_has_record : forall views r q t i l,
  views_wf views -> (forall a, r_ip r = Some a -> addr_ok a) ->
  views_serve (compiled_views views) r q t = VAnswer i l <->
  spec_subquery r = false /\
  exists a v, spec_client_ip r = Some a /\ nth_error views i = Some v /\ spec_contains (fst v) a = true /\
              (forall j w, (j < i)%nat -> nth_error views j = Some w -> spec_contains (fst w) a = false) /\
              l = view_answer (snd v) q t /\ l <> [].
Proof. exact views_answer_iff. Qed.
Print Assumptions view_answers_iff_first_containing_view_has_record.

(* the first containing view decides alone: without a record for the question the query falls through, whatever
   later views contain the client and hold *)
Theorem first_containing_view_decides : forall views r q t a i v,
  views_wf views -> (forall a, r_ip r = Some a -> addr_ok a) ->
  spec_client_ip r = Some a -> nth_error views i = Some v -> spec_contains (fst v) a = true ->
  (forall j w, (j < i)%nat -> nth_error views j = Some w -> spec_contains (fst w) a = false) ->
  views_serve (compiled_views views) r q t =
  if spec_subquery r then VNext else
  match view_answer (snd v) q t with [] => VNext | l => VAnswer i l end.
Proof. exact first_containing_view_decides_alone. Qed.
Print Assumptions first_containing_view_decides.

(* a client no view contains is never answered by a view *)
Theorem client_outside_every_view_falls_through : forall views r q t,
  views_wf views -> (forall a, r_ip r = Some a -> addr_ok a) ->
  (forall a, spec_client_ip r = Some a -> Forall (fun v => spec_contains (fst v) a = false) views) ->
  views_serve (compiled_views views) r q t = VNext.
Proof. exact uncontained_client_falls_through. Qed.
Print Assumptions client_outside_every_view_falls_through.

Example views_handler_examples :
  let b := bytes_of in
  let views := [([mk_prefix true 167772416 24], [(b "host.example."%string, 1)]);            (* 10.0.1.0/24 *)
                ([mk_prefix true 167772160 16], [(b "*.example."%string, 1); (b "host.example."%string, 1)])] in   (* 10.0.0.0/16 *)
  let client ip := mk_remote KUdp (Some (mk_addr true ip)) 4242 None in
  views_wf views /\
  (* inside both: the first view answers with its own record *)
  views_serve (compiled_views views) (client 167772421) (b "host.example."%string) 1 = VAnswer 0 [0%nat] /\
  (* inside both, the first has no record: falls through although the second has a covering wildcard *)
  views_serve (compiled_views views) (client 167772421) (b "x.example."%string) 1 = VNext /\
  (* inside the second only: exact owner beats the wildcard *)
  views_serve (compiled_views views) (client 167772677) (b "HOST.example."%string) 1 = VAnswer 1 [1%nat] /\
  views_serve (compiled_views views) (client 167772677) (b "x.example."%string) 1 = VAnswer 1 [0%nat] /\
  (* outside every view; the IPv4-mapped form of an inside address; a genuine sub-query; a TCP client FROM the sentinel address *)
  views_serve (compiled_views views) (client 168427525) (b "host.example."%string) 1 = VNext /\
  views_serve (compiled_views views) (mk_remote KTcp (Some (mk_addr false (mapped_prefix + 167772421))) 53000 None) (b "host.example."%string) 1 = VAnswer 0 [0%nat] /\
  views_serve (compiled_views views) subquery_remote (b "host.example."%string) 1 = VNext /\
  views_serve (compiled_views [([mk_prefix true 2130706432 8], [(b "host.example."%string, 1)])])
              (mk_remote KTcp (Some (mk_addr true 2130706687)) 40000 None) (b "host.example."%string) 1 = VAnswer 0 [0%nat].
Proof. vm_compute. repeat split; repeat constructor. Qed.

(* ---- the client-policy part of the default chain (session 4): access list, then views, then the cache ---- *)

(* source-order tie: over the handler order gen.go has now, the chain walk is "the access list decides first,
   then views, and what is left is resolved" (reordering the list in the source breaks this proof) *)
Theorem chain_policy_order : forall acl views r q t,
  chain_walk handler_order acl views r q t = chain_serve acl views r q t.
Proof. exact chain_walk_is_serve. Qed.
Print Assumptions chain_policy_order.

(* a query whose source is outside the access list gets no reply and no resolution - also when a view contains
   the source and holds a record for the question *)
Theorem denied_source_gets_nothing_even_inside_a_view : forall ne ps views r q t,
  Forall (fun p => prefix_ok p = true) ps -> (forall a, r_ip r = Some a -> addr_ok a) ->
  spec_allowed (acl_effective ne ps) r = false ->
  chain_walk handler_order (new_set (acl_effective ne ps)) (compiled_views views) r q t = CDrop.
Proof. exact chain_denied. Qed.
Print Assumptions denied_source_gets_nothing_even_inside_a_view.

(* an admitted request: a genuine sub-query is never answered by a view; a client is answered by the first view
   containing it when that view has a record (no resolution), and resolved otherwise *)
Theorem admitted_request_view_or_resolution : forall ne ps views r q t,
  Forall (fun p => prefix_ok p = true) ps -> views_wf views -> (forall a, r_ip r = Some a -> addr_ok a) ->
  spec_allowed (acl_effective ne ps) r = true ->
  chain_walk handler_order (new_set (acl_effective ne ps)) (compiled_views views) r q t =
  if spec_subquery r then CResolve else
  match spec_client_ip r with
  | Some a => match ref_views_loop views a q t 0 with VAnswer i l => CView i l | VNext => CResolve end
  | None => CResolve
  end.
Proof. exact chain_admitted. Qed.
Print Assumptions admitted_request_view_or_resolution.

Example chain_examples :
  let b := bytes_of in
  let lan := [mk_prefix true 167772160 8] in                                                  (* 10.0.0.0/8 *)
  let views := [([mk_prefix true 167772416 24; mk_prefix true 3405803776 24], [(b "*.example."%string, 1)])] in  (* 10.0.1.0/24, 203.0.113.0/24 *)
  let client ip := mk_remote KUdp (Some (mk_addr true ip)) 4242 None in
  let walk := chain_walk handler_order (new_set (acl_effective 1 lan)) (compiled_views views) in
  (* admitted and inside the view: the view answers; admitted, outside the view: resolved *)
  walk (client 167772421) (b "x.example."%string) 1 = CView 0 [0%nat] /\
  walk (client 167837957) (b "x.example."%string) 1 = CResolve /\
  (* 203.0.113.9 is inside the view but outside the access list: nothing *)
  walk (client 3405803785) (b "x.example."%string) 1 = CDrop /\
  (* a genuine sub-query passes both and is resolved *)
  walk subquery_remote (b "x.example."%string) 1 = CResolve.
Proof. vm_compute. repeat split. Qed.

(* ---- which records a matched view serves, in closed form (session 5): closest encloser ---- *)

(* the selection loop of views.ServeDNS returns, for EVERY record list and question: all the matching records with a
   non-wildcard owner in configuration order - or, there being none, all the matching wildcard records whose owner is
   as long as the longest matching wildcard owner, in configuration order ([closest_answer]: filters and a maximum,
   no loop state) *)
Theorem view_answer_is_closest_encloser_selection : forall answers qname qtype,
  view_answer answers qname qtype = closest_answer answers qname qtype.
Proof. exact view_answer_closed. Qed.
Print Assumptions view_answer_is_closest_encloser_selection.

Theorem exact_owner_matches_are_all_served : forall answers qname qtype,
  let q := go_canonical_name_ascii qname in
  existsb (fun rr => rec_matches q qtype rr && negb (wildcard_owner (go_canonical_name_ascii (fst rr)))) answers = true ->
  forall j, In j (view_answer answers qname qtype) <-> exact_rec answers q qtype j.
Proof. exact exact_matches_are_all_served. Qed.
Print Assumptions exact_owner_matches_are_all_served.

(* no exact-owner match: record j is served iff it is a matching wildcard and no matching wildcard has a longer owner *)
Theorem wildcards_served_are_exactly_the_closest : forall answers qname qtype,
  let q := go_canonical_name_ascii qname in
  existsb (fun rr => rec_matches q qtype rr && negb (wildcard_owner (go_canonical_name_ascii (fst rr)))) answers = false ->
  forall j, In j (view_answer answers qname qtype) <->
            exists rr, nth_error answers j = Some rr /\ rec_matches q qtype rr = true /\
                       wildcard_owner (go_canonical_name_ascii (fst rr)) = true /\
                       forall k rr', nth_error answers k = Some rr' -> rec_matches q qtype rr' = true ->
                                     wildcard_owner (go_canonical_name_ascii (fst rr')) = true ->
                                     (go_len (go_canonical_name_ascii (fst rr')) <= go_len (go_canonical_name_ascii (fst rr)))%Z.
Proof. exact wildcards_served_are_the_closest. Qed.
Print Assumptions wildcards_served_are_exactly_the_closest.

(* ... and that is what the INDEPENDENT specification oracle of Run.v says ([spec_view_answer]: its own cover test by
   skipn / nth, its own wildcard test, owner lengths and their maximum - the formulation every viewrec / viewsfull /
   chain-view case is judged by), for every record list whose owners are fully qualified (what dns.NewRR hands
   views.New) and every question: on this case kind "model = observed" implies "observed satisfies the specification" *)
Theorem view_answer_is_the_specified_selection : forall answers qname qtype,
  Forall (fun rr => go_is_fqdn_ascii (fst rr) = true) answers ->
  view_answer answers qname qtype = spec_view_answer answers qname qtype.
Proof. exact view_answer_is_spec. Qed.
Print Assumptions view_answer_is_the_specified_selection.

(* the two cover tests - views.nameMatches as translated from the source, and the specification's - agree on every
   owner in canonical form and every name *)
Theorem nameMatches_is_the_specified_cover : forall o q,
  go_canonical_name_ascii o = o -> go_nameMatches o q = spec_covers o q.
Proof. exact covers_agree. Qed.
Print Assumptions nameMatches_is_the_specified_cover.

Example closest_encloser_examples :
  let b := bytes_of in
  let recs := [(b "*.example."%string, 1); (b "*.a.example."%string, 1); (b "*.EXAMPLE."%string, 1); (b "*.a.example"%string, 1);
               (b "*.b.a.example."%string, 28); (b "*."%string, 1)] in
  (* two equally close wildcards (one written without the final dot): both, in order; the shorter ones and the root wildcard lose *)
  view_answer recs (b "x.a.example."%string) 1 = [1%nat; 3%nat] /\
  closest_answer recs (b "x.a.example."%string) 1 = [1%nat; 3%nat] /\
  view_answer recs (b "y.example."%string) 1 = [0%nat; 2%nat] /\
  (* only the root wildcard covers it (depth 0 = the loop's initial best) *)
  view_answer recs (b "other.test."%string) 1 = [5%nat] /\
  (* the deeper wildcard is of another type: not a candidate *)
  view_answer recs (b "x.b.a.example."%string) 1 = [1%nat; 3%nat] /\
  (* fully qualified owners (hypothesis of view_answer_is_the_specified_selection) and the oracle's verdict on them *)
  let fq := [(b "*.example."%string, 1); (b "*.a.example."%string, 1); (b "HOST.a.example."%string, 1)] in
  Forall (fun rr => go_is_fqdn_ascii (fst rr) = true) fq /\
  spec_view_answer fq (b "x.a.example."%string) 1 = [1%nat] /\ spec_view_answer fq (b "host.A.example."%string) 1 = [2%nat].
Proof. vm_compute. repeat split; repeat constructor. Qed.

(* ---- a resolver-internal sub-query against access list and views (session 5): two independent mechanisms ---- *)

(* the flag alone: an internal request passes the access list and views in ANY pipeline - whatever handlers it holds, in
   whatever order - for every list, view configuration and question *)
Theorem internal_request_passes_any_pipeline : forall order acl views r q t,
  writer_internal r = true -> chain_walk order acl views r q t = CResolve.
Proof. exact internal_walk_resolves. Qed.
Print Assumptions internal_request_passes_any_pipeline.

(* the pipeline alone: a pipeline that holds neither the access list nor views polices nobody, whoever asks *)
Theorem policy_free_pipeline_polices_nobody : forall order acl views r q t,
  policy_free order = true -> chain_walk order acl views r q t = CResolve.
Proof. exact policy_free_walk_resolves. Qed.
Print Assumptions policy_free_pipeline_polices_nobody.

(* both hold for what the source builds NOW (handler order, ClientOnly set, sub-query writer): a sub-query through the
   queryer (via 0) or the prefetch queryer (via 1) is resolved whatever the access list and the views say *)
Theorem subquery_is_never_subjected_to_access_or_view_policy : forall via acl views q t,
  subquery_walk handler_order via acl views q t = CResolve /\
  policy_free (sub_order handler_order via) = true /\ writer_internal subquery_remote = true.
Proof. exact subquery_never_policed. Qed.
Print Assumptions subquery_is_never_subjected_to_access_or_view_policy.

Example subquery_walk_examples :
  let b := bytes_of in
  let views := compiled_views [([mk_prefix true 2130706432 8], [(b "host.example."%string, 1)])] in          (* 127.0.0.0/8 *)
  let deny_all := new_set (acl_effective 1 []) in                                                             (* one entry, unparsable *)
  let loopback := new_set (acl_effective 1 [mk_prefix true 2130706432 8]) in
  let tcp_client := mk_remote KTcp (Some (mk_addr true 2130706687)) 40000 None in                             (* 127.0.0.255:40000 *)
  (* a CLIENT from the sub-query writer's address is policed: dropped by the deny-all list, answered by its view *)
  chain_walk handler_order deny_all views tcp_client (b "host.example."%string) 1 = CDrop /\
  chain_walk handler_order loopback views tcp_client (b "host.example."%string) 1 = CView 0 [0%nat] /\
  (* the sub-query is not: through either sub-pipeline, and even through the full client chain *)
  subquery_walk handler_order 0 deny_all views (b "host.example."%string) 1 = CResolve /\
  subquery_walk handler_order 1 loopback views (b "host.example."%string) 1 = CResolve /\
  chain_walk handler_order deny_all views subquery_remote (b "host.example."%string) 1 = CResolve /\
  (* the client chain itself is not policy-free *)
  policy_free handler_order = false.
Proof. vm_compute. repeat split. Qed.

(* non-vacuity: concrete lists and addresses meeting the hypotheses, with both verdicts *)
Example membership_example :
  let ps := [mk_prefix true 167772160 8; mk_prefix false 42540766411282592856903984951653826560 32; mk_prefix true 167837696 16] in
  Forall (fun p => prefix_ok p = true) ps /\
  addr_ok (mk_addr true 184549375) /\ set_contains (new_set ps) (mk_addr true 184549375) = true /\
  set_contains (new_set ps) (mk_addr true 184549376) = false /\
  set_contains (new_set ps) (mk_addr false (mapped_prefix + 167772161)) = true.
Proof. vm_compute. repeat split; repeat constructor. Qed.
