(* C17 — property theorems only.  Each is closed by [exact <lemma>] so that it cannot be
   quietly weakened; the lemmas live in Proofs_*.v; the model in Model.v; Gen/C17.v is
   regenerated from /repo on every run. *)
From Coq Require Import Permutation Sorting.Sorted.
From Sdns Require Import Common.Base Common.GoList Gen.C17 C17.Model C17.Proofs_arith C17.Proofs_search C17.Proofs_set C17.Proofs_loops.
Open Scope N_scope.

(* translator ties: the Go functions, as translated from the source now, are the order on
   128-bit numbers and the saturating low-bit mask *)
Theorem u128_lessEq_is_order : forall a b, u128_wf a -> u128_wf b -> go_u128_lessEq a b = (uval a <=? uval b).
Proof. exact gen_u128_lessEq. Qed.
Print Assumptions u128_lessEq_is_order.

Theorem ones_is_mask : forall n, go_ones n = if (n <=? 0)%Z then 0 else if (64 <=? n)%Z then two64 - 1 else 2 ^ Z.to_N n - 1.
Proof. exact gen_ones. Qed.
Print Assumptions ones_is_mask.

(* translator ties, loops: the binary search of Set.Contains and the running-maximum loop of
   compile(), as translated from the Go source now (Gen/C17.v, item kind loopfunc), compute what
   the model's bsearch / run_max compute — for every slice a program can hold (fewer than 2^62
   spans, so that the midpoint int(uint(i+j)>>1) is exact), with the iteration budget stated *)
Theorem contains_loop_is_model_search : forall spans k, (Z.of_nat (length spans) < 2 ^ 62)%Z ->
  go_Set_Contains_loop1_run (S (length spans)) (map to_T spans) k 0%Z (Z.of_nat (length spans)) =
  (let r := bsearch (fun m => go_u128_lessEq (s_lo (nth m spans dummy_span)) k) (length spans) 0 (length spans) in
   (GoNext, (map to_T spans, k, Z.of_nat r, Z.of_nat r))).
Proof. exact gen_contains_search_model. Qed.
Print Assumptions contains_loop_is_model_search.

Theorem compile_loop_is_running_max : forall l mx,
  go_compile_loop1_run (map to_T l) mx = (GoNext, (map to_T (run_max mx l), last_max mx l)).
Proof. exact gen_compile_running_max. Qed.
Print Assumptions compile_loop_is_running_max.

(* bounds: first and last address of a masked prefix, for every family, length and address *)
Theorem bounds_exact : forall p, prefix_ok p = true ->
  let '(lo, hi) := bounds p in
  uval lo = range_lo p /\ uval hi = range_hi p /\ u128_wf lo /\ u128_wf hi /\ range_hi p < 2 ^ Z.to_N (width (p_is4 p)).
Proof. exact bounds_spec. Qed.
Print Assumptions bounds_exact.

(* the stabbing query is exact for EVERY span list (overlaps, nesting, adjacency, duplicates)
   and EVERY order sort.Slice may produce (any permutation sorted by start) *)
Theorem contains_exact : forall (l l' : list span) (k : T_u128),
  Forall span_wf l -> u128_wf k -> Permutation l l' -> StronglySorted lo_le l' ->
  contains_compiled (run_max zero128 l') k = existsb (stabs (uval k)) l.
Proof. exact contains_compiled_exact. Qed.
Print Assumptions contains_exact.

(* membership is exactly "the address lies in at least one configured CIDR"; an IPv4-mapped
   IPv6 source counts as IPv4; families never mix *)
Theorem membership_exact : forall ps a,
  Forall (fun p => prefix_ok p = true) ps -> addr_ok a ->
  set_contains (new_set ps) a = spec_contains ps a.
Proof. exact set_contains_exact. Qed.
Print Assumptions membership_exact.

Theorem mapped_source_counts_as_v4 : forall ps v, v < 2 ^ 32 ->
  spec_contains ps (mk_addr false (mapped_prefix + v)) = spec_contains ps (mk_addr true v).
Proof. exact mapped_counts_as_v4. Qed.
Print Assumptions mapped_source_counts_as_v4.

Theorem family_separation : forall p a, in_prefix p a = true -> p_is4 p = a_is4 (unmap a).
Proof. exact spec_family_separation. Qed.
Print Assumptions family_separation.

(* access list: a source outside the list is dropped (no Next, no write); internal requests bypass *)
Theorem accesslist_exact : forall ps internal src,
  Forall (fun p => prefix_ok p = true) ps -> (forall a, src = Some a -> addr_ok a) ->
  acl_serve (new_set ps) internal src =
  if internal || match src with Some a => spec_contains ps a | None => false end then AclNext else AclDrop.
Proof. exact acl_exact. Qed.
Print Assumptions accesslist_exact.

(* the configured list: empty = open default; a list whose entries all fail to parse denies all *)
Theorem accesslist_config_exact : forall n_entries ps internal src,
  Forall (fun p => prefix_ok p = true) ps -> (forall a, src = Some a -> addr_ok a) ->
  acl_serve (new_set (acl_effective n_entries ps)) internal src =
  if internal || match src with Some a => spec_contains (acl_effective n_entries ps) a | None => false end then AclNext else AclDrop.
Proof. exact acl_config_exact. Qed.
Print Assumptions accesslist_config_exact.

Theorem unparsable_only_list_denies_all : forall n_entries src,
  n_entries <> 0 -> acl_serve (new_set (acl_effective n_entries [])) false src = AclDrop.
Proof. exact all_malformed_denies. Qed.
Print Assumptions unparsable_only_list_denies_all.

(* views: first matching view in declaration order, by the same containment rule *)
Theorem first_match_view : forall views a i0,
  Forall (Forall (fun p => prefix_ok p = true)) views -> addr_ok a ->
  first_view (map new_set views) a i0 =
  (fix go (vs : list (list prefix)) (i : nat) : option nat :=
     match vs with [] => None | v :: r => if spec_contains v a then Some i else go r (S i) end) views i0.
Proof. exact first_view_spec. Qed.
Print Assumptions first_match_view.

(* internal sub-pipelines: exactly the handlers not skipped, order kept; with the ClientOnly set
   and chain order read from the source now, neither internal sub-pipeline contains the access
   list, the rate limiter, reflex or views *)
Theorem subpipeline_exact : forall handlers skip h,
  In h (sub_pipeline handlers skip) <-> In h handlers /\ ~ In h skip.
Proof. exact sub_pipeline_spec. Qed.
Print Assumptions subpipeline_exact.

Theorem subqueries_skip_client_policy : forall h,
  In h (queryer_sub handler_order) \/ In h (prefetch_sub handler_order) ->
  ~ In h [n_accesslist; n_ratelimit; n_reflex; n_views] /\ ~ In h client_only.
Proof. exact internal_subpipelines_have_no_client_policy. Qed.
Print Assumptions subqueries_skip_client_policy.

Theorem accesslist_ahead_of_answering_handlers :
  names_eqb_list handler_order defaults_chain = true /\
  match index_of n_accesslist defaults_chain 0 with
  | Some ia => names_eqb_list (firstn ia defaults_chain) [n_recovery; n_metrics; n_dnstap]
  | None => false
  end = true.
Proof. exact (conj chain_matches_gen accesslist_first_policy). Qed.
Print Assumptions accesslist_ahead_of_answering_handlers.

(* non-vacuity: concrete lists and addresses meeting the hypotheses, with both verdicts *)
Example membership_example :
  let ps := [mk_prefix true 167772160 8; mk_prefix false 42540766411282592856903984951653826560 32; mk_prefix true 167837696 16] in
  Forall (fun p => prefix_ok p = true) ps /\
  addr_ok (mk_addr true 184549375) /\ set_contains (new_set ps) (mk_addr true 184549375) = true /\
  set_contains (new_set ps) (mk_addr true 184549376) = false /\
  set_contains (new_set ps) (mk_addr false (mapped_prefix + 167772161)) = true.
Proof. vm_compute. repeat split; repeat constructor. Qed.
