(* C17 — who is "internal": responseWriter.Reset's classification of a transport's remote
   address, the source-text pins that tie the model to the code, and what the access list and
   views do with it on every transport. *)
From Coq Require Import String Ascii.
From Sdns Require Import Common.Base Gen.C17 C17.Model C17.Run C17.Proofs_set.
Open Scope N_scope.

Definition bytes_of (s : string) : list N := map (fun c => N.of_nat (nat_of_ascii c)) (list_ascii_of_string s).

(* the statements of Reset that decide w.internal, as they stand in the source now: one
   `w.internal = a.Port == 0 && a.IP.Equal(internalIP)` in the net.UDPAddr arm and one in the
   net.TCPAddr arm (each with its own a.Port), the early return, the Internal() interface
   fallback, and no other assignment to w.internal in the function *)
Lemma reset_text_pinned :
  reset_arms = [bytes_of "UDPAddr"; bytes_of "TCPAddr"] /\
  reset_tail = [bytes_of "internal = i.Internal()"] /\
  reset_internal_assignments =
    [bytes_of "false"; bytes_of "a.Port == 0 && a.IP.Equal(internalIP)";
     bytes_of "a.Port == 0 && a.IP.Equal(internalIP)"; bytes_of "i.Internal()"].
Proof. vm_compute. repeat split. Qed.

(* the three copies of the sentinel (responseWriter, BufferWriter's remote, mock.Writer used by
   DoH) are the same address, 127.0.0.255, and the sub-query writer's port is 0 *)
Lemma sentinel_values :
  sentinel_v4 = 2130706687 /\ buffer_remote_v4 = sentinel_v4 /\ buffer_remote_port = 0%Z /\
  ((mock_sentinel_o0 * 256 + mock_sentinel_o1) * 256 + mock_sentinel_o2) * 256 + mock_sentinel_o3 = sentinel_v4.
Proof. vm_compute. repeat split. Qed.

Lemma ip_is_sentinel_spec a : addr_ok a ->
  ip_is_sentinel (Some a) = a_is4 (unmap a) && (a_val (unmap a) =? 2130706687).
Proof.
  intros Hok. unfold ip_is_sentinel, unmap, is4in6.
  replace sentinel_v4 with 2130706687 by (vm_compute; reflexivity).
  destruct a as [is4 v]; cbn [a_is4 a_val] in *. destruct is4; cbn [negb andb].
  - reflexivity.
  - destruct (v / 2 ^ 32 =? 65535) eqn:E; cbn [a_is4 a_val andb].
    + apply N.eqb_eq in E. apply eq_true_iff_eq. rewrite !N.eqb_eq. unfold mapped_prefix.
      pose proof (N.div_mod v (2 ^ 32) ltac:(discriminate)) as Hd. rewrite E in Hd.
      change (2 ^ 32) with 4294967296 in *. lia.
    + destruct (v =? mapped_prefix + 2130706687) eqn:F; [|reflexivity].
      apply N.eqb_eq in F. subst v. vm_compute in E. discriminate.
Qed.

(* the model's classification is the specification's, on every address type *)
Lemma writer_internal_is_spec r : (forall a, r_ip r = Some a -> addr_ok a) ->
  writer_internal r = spec_subquery r.
Proof.
  destruct r as [k ip port says]; cbn [r_ip]. intros Hok.
  unfold writer_internal, sentinel_remote, spec_subquery; cbn [r_kind r_ip r_port r_says].
  assert (Hs : (port =? 0)%Z && ip_is_sentinel ip =
               match ip with None => false | Some a => (port =? 0)%Z && a_is4 (unmap a) && (a_val (unmap a) =? 2130706687) end).
  { destruct ip as [a|]; [|cbn; apply andb_false_r].
    rewrite (ip_is_sentinel_spec a (Hok a eq_refl)). apply andb_assoc. }
  destruct says as [[|]|]; destruct k; rewrite ?Hs; destruct ip as [a|];
    repeat match goal with |- context [if ?c then _ else _] => destruct c end; reflexivity.
Qed.

Lemma writer_remote_ip_is_spec r : writer_remote_ip r = spec_client_ip r.
Proof. reflexivity. Qed.

(* internal <=> the transport declares it, or the remote is the sub-query pipeline's signature
   (stream/datagram address, the sentinel IP, port 0) — for every transport address type *)
Lemma internal_iff r :
  writer_internal r = true <->
  r_says r = Some true \/ (r_kind r <> KOther /\ r_port r = 0%Z /\ ip_is_sentinel (r_ip r) = true).
Proof.
  destruct r as [k ip port says]. unfold writer_internal, sentinel_remote; cbn [r_kind r_ip r_port r_says].
  split.
  - destruct k; try destruct ((port =? 0)%Z && ip_is_sentinel ip) eqn:E;
      try (apply andb_true_iff in E; destruct E as [E1 E2]; apply Z.eqb_eq in E1; intros _; right; repeat split; [discriminate|exact E1|exact E2]);
      destruct says as [[|]|]; intros H; try discriminate; left; reflexivity.
  - intros [H|(Hk & Hp & Hi)].
    + subst says. destruct k; try destruct ((port =? 0)%Z && ip_is_sentinel ip); reflexivity.
    + subst port. rewrite Hi. destruct k; [reflexivity|reflexivity|congruence].
Qed.

(* a client — a peer with a real (non-zero) source port, or any address other than the sentinel,
   on a transport that does not declare itself internal — is never internal, whatever the
   address type; so no transport can talk its way past client policy with an address alone *)
Lemma client_never_internal r :
  r_says r <> Some true -> (r_port r <> 0%Z \/ ip_is_sentinel (r_ip r) = false) -> writer_internal r = false.
Proof.
  intros Hs Hc. destruct (writer_internal r) eqn:E; [|reflexivity].
  apply internal_iff in E. destruct E as [E|(_ & Hp & Hi)]; [contradiction|].
  destruct Hc as [Hc|Hc]; [contradiction|congruence].
Qed.

(* the writer Queryer.Query installs (constants read from the source) is internal twice over:
   by its own Internal() and by the address signature *)
Lemma subquery_internal :
  writer_internal subquery_remote = true /\ sentinel_remote subquery_remote = true /\
  (forall w, r_says subquery_remote = Some (go_BufferWriter_Internal w)).
Proof. vm_compute. repeat split. Qed.

(* a transport that computes Internal() by the mock writer's rule (the DoH / DoH3 writer) cannot
   widen the internal class: the chain's writer says internal for it exactly on the signature *)
Lemma mock_rule_is_sentinel r : transport_says r = sentinel_remote r.
Proof.
  unfold transport_says, sentinel_remote, ip_is_sentinel.
  change mock_sentinel_v4 with sentinel_v4. reflexivity.
Qed.

Lemma mock_writer_adds_nothing r :
  r_says r = Some (transport_says r) -> writer_internal r = sentinel_remote r.
Proof.
  intros H. unfold writer_internal. destruct (sentinel_remote r) eqn:E; [reflexivity|].
  rewrite H. cbn. rewrite (mock_rule_is_sentinel r). exact E.
Qed.

Lemma mock_text_pinned :
  mock_arms = [bytes_of "UDPAddr"; bytes_of "TCPAddr"].
Proof. vm_compute. reflexivity. Qed.

(* access list on every transport: exactly the specification — a genuine sub-query passes,
   every client is judged by containment of the peer address, a transport without a usable peer
   address is dropped *)
Lemma acl_remote_exact ps r :
  Forall (fun p => prefix_ok p = true) ps -> (forall a, r_ip r = Some a -> addr_ok a) ->
  acl_serve_remote (new_set ps) r = if spec_allowed ps r then AclNext else AclDrop.
Proof.
  intros Hps Hok. unfold acl_serve_remote, spec_allowed.
  rewrite acl_exact; [| exact Hps |].
  - rewrite (writer_internal_is_spec r Hok), writer_remote_ip_is_spec. reflexivity.
  - intros a Ha. apply Hok. unfold writer_remote_ip in Ha. destruct (r_kind r); try exact Ha; discriminate.
Qed.

Lemma acl_remote_config_exact ne ps r :
  Forall (fun p => prefix_ok p = true) ps -> (forall a, r_ip r = Some a -> addr_ok a) ->
  acl_serve_remote (new_set (acl_effective ne ps)) r = if spec_allowed (acl_effective ne ps) r then AclNext else AclDrop.
Proof.
  intros Hps Hok. apply acl_remote_exact; [|exact Hok].
  unfold acl_effective. destruct (ne =? 0); [|exact Hps].
  repeat constructor.
Qed.

Lemma acl_client_judged ps r :
  Forall (fun p => prefix_ok p = true) ps -> (forall a, r_ip r = Some a -> addr_ok a) ->
  r_says r <> Some true -> (r_port r <> 0%Z \/ ip_is_sentinel (r_ip r) = false) ->
  acl_serve_remote (new_set ps) r =
  match spec_client_ip r with
  | Some a => if spec_contains ps a then AclNext else AclDrop
  | None => AclDrop
  end.
Proof.
  intros Hps Hok Hs Hc. rewrite (acl_remote_exact ps r Hps Hok). unfold spec_allowed.
  rewrite <- (writer_internal_is_spec r Hok), (client_never_internal r Hs Hc). cbn [orb].
  destruct (spec_client_ip r); reflexivity.
Qed.

(* views on every transport: skipped for genuine sub-queries only; a client is answered by the
   first view (declaration order) whose networks contain it, by the same containment rule *)
Lemma view_remote_exact (views : list (list prefix * bool)) r :
  Forall (fun v => Forall (fun p => prefix_ok p = true) (fst v)) views -> (forall a, r_ip r = Some a -> addr_ok a) ->
  view_serve_remote (map (fun v => (new_set (fst v), snd v)) views) r =
  if spec_subquery r then None else
  match spec_client_ip r with Some a => spec_first_view views a 0 | None => None end.
Proof.
  intros Hv Hok. unfold view_serve_remote.
  rewrite (writer_internal_is_spec r Hok), writer_remote_ip_is_spec.
  destruct (spec_subquery r); [reflexivity|].
  destruct (spec_client_ip r) as [a|] eqn:Ea; [|reflexivity].
  assert (Ha : addr_ok a).
  { apply Hok. unfold spec_client_ip in Ea. destruct (r_kind r); try exact Ea; discriminate. }
  rewrite map_map. cbn [fst].
  (* generalise the start index and the offset into the list *)
  assert (G : forall pre vs i, i = length pre ->
            Forall (fun v => Forall (fun p => prefix_ok p = true) (fst v)) vs ->
            match first_view (map (fun v : list prefix * bool => new_set (fst v)) vs) a i with
            | Some j => if snd (nth j (map (fun v => (new_set (fst v), snd v)) (pre ++ vs)) (mk_ipset [] [], false)) then Some j else None
            | None => None
            end = spec_first_view vs a i).
  { intros pre vs. revert pre. induction vs as [|v vs IH]; intros pre i Hi Hf; [reflexivity|].
    inversion Hf as [|? ? Hv1 Hf']; subst. cbn [map first_view spec_first_view].
    rewrite (set_contains_exact (fst v) a Hv1 Ha).
    destruct (spec_contains (fst v) a).
    - rewrite map_app, app_nth2; rewrite map_length; [|lia]. rewrite Nat.sub_diag. cbn. reflexivity.
    - specialize (IH (pre ++ [v]) (S (length pre))). rewrite <- app_assoc in IH. cbn [app] in IH.
      apply IH; [rewrite app_length; cbn; lia|exact Hf']. }
  exact (G [] views 0%nat eq_refl Hv).
Qed.

(* what the handlers read: responseWriter.Internal() / RemoteIP(), as translated from the source now, hand back the two
   fields Reset stored and nothing else (no second look at the address, no loopback shortcut) *)
Lemma writer_getters w :
  go_responseWriter_Internal w = T_responseWriter_internal w /\ go_responseWriter_RemoteIP w = T_responseWriter_remoteip w.
Proof. split; reflexivity. Qed.
