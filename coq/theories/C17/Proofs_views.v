(* C17 — which records a matched view serves: views.nameMatches as translated from the source
   (Gen/C17.v) characterised, and the selection loop of views.ServeDNS (Model.view_select). *)
From Sdns Require Import Common.Base Common.GoList Gen.C17 C17.Model.
Open Scope N_scope.

Lemma has_suffix_spec (s p : list N) : go_has_suffix N.eqb s p = true <-> exists h, s = h ++ p.
Proof.
  unfold go_has_suffix. rewrite andb_true_iff, go_bytes_eqb_eq, Nat.leb_le. split.
  - intros [Hl He]. exists (firstn (length s - length p) s).
    transitivity (firstn (length s - length p) s ++ skipn (length s - length p) s); [symmetry; apply firstn_skipn|].
    rewrite He. reflexivity.
  - intros [h ->]. rewrite app_length. split; [lia|].
    replace (length h + length p - length p)%nat with (length h + 0)%nat by lia.
    rewrite skipn_app, Nat.add_0_r, skipn_all. cbn. replace (length h - length h)%nat with 0%nat by lia. reflexivity.
Qed.

Lemma has_prefix2_spec (o : list N) a b : go_has_prefix N.eqb o [a; b] = true <-> exists s, o = a :: b :: s.
Proof.
  unfold go_has_prefix. rewrite go_bytes_eqb_eq. cbn [length]. split.
  - destruct o as [|x [|y s]]; cbn; intros H; try discriminate. inversion H. eauto.
  - intros [s ->]. reflexivity.
Qed.

(* views.nameMatches, as translated from the source: a non-wildcard owner covers exactly itself; an owner
   "*.S" covers exactly the names H ++ S with H non-empty and ending in a label separator *)
Theorem gen_nameMatches owner q :
  let o := go_canonical_name_ascii owner in
  go_nameMatches owner q = true <->
  (go_has_prefix N.eqb o [42; 46] = false /\ o = q) \/
  (exists s h, o = 42 :: 46 :: s /\ q = (h ++ [46]) ++ s).
Proof.
  cbv zeta. unfold go_nameMatches. set (o := go_canonical_name_ascii owner).
  destruct (go_has_prefix N.eqb o [42; 46]) eqn:P; cbn [negb].
  - apply has_prefix2_spec in P. destruct P as [s Hs]. rewrite Hs.
    change (go_slice_from (42 :: 46 :: s) 2) with s.
    destruct (go_has_suffix N.eqb q s) eqn:S; cbn [negb].
    + apply has_suffix_spec in S. destruct S as [h ->].
      destruct (go_list_eqb N.eqb (h ++ s) s) eqn:E.
      * apply go_bytes_eqb_eq in E. assert (h = []) by (apply (f_equal (@length N)) in E; rewrite app_length in E; destruct h; [reflexivity|cbn in E; lia]).
        subst h. split; [discriminate|]. intros [[H _]|(s' & h' & Hs' & Hq)]; [discriminate|].
        inversion Hs'; subst s'. apply (f_equal (@length N)) in Hq. rewrite !app_length in Hq. cbn in Hq. lia.
      * assert (Hh : go_slice_to (h ++ s) (go_len (h ++ s) - go_len s) = h).
        { unfold go_slice_to. rewrite go_len_app. replace (go_len h + go_len s - go_len s)%Z with (go_len h) by lia.
          unfold go_len. rewrite Nat2Z.id. rewrite firstn_app, firstn_all, Nat.sub_diag. cbn. apply app_nil_r. }
        rewrite Hh. rewrite has_suffix_spec. split.
        -- intros [h' ->]. right. exists s, h'. split; reflexivity.
        -- intros [[H _]|(s' & h' & Hs' & Hq)]; [discriminate|]. inversion Hs'; subst s'.
           apply app_inv_tail in Hq. eauto.
    + split; [discriminate|]. intros [[H _]|(s' & h' & Hs' & Hq)]; [discriminate|]. inversion Hs'; subst s'.
      assert (go_has_suffix N.eqb q s = true) by (apply has_suffix_spec; eauto). congruence.
  - rewrite go_bytes_eqb_eq. split.
    + intros H. left. split; [reflexivity|exact H].
    + intros [[_ H]|(s & h & Hs & _)]; [exact H|].
      assert (go_has_prefix N.eqb o [42; 46] = true) by (apply has_prefix2_spec; eauto). congruence.
Qed.

Lemma wildcard_len o : wildcard_owner o = true -> (0 <= go_len o - 2)%Z.
Proof.
  unfold wildcard_owner. intros H. apply has_prefix2_spec in H. destruct H as [s ->].
  unfold go_len. cbn [length]. lia.
Qed.

Lemma view_select_nonempty answers q ty : forall i e w b, ((0 < b)%Z -> w <> []) ->
  let '(e', w') := view_select answers q ty i e w b in
  (e' <> [] \/ w' <> []) <-> (e <> [] \/ w <> [] \/ existsb (rec_matches q ty) answers = true).
Proof.
  induction answers as [|rr rest IH]; intros i e w b Hb; cbn [view_select existsb].
  - split; [intros [H|H]; auto|intros [H|[H|H]]; auto; discriminate].
  - unfold rec_matches at 1. destruct (snd rr =? ty) eqn:T; cbn [negb andb].
    2:{ specialize (IH (S i) e w b Hb). destruct (view_select rest q ty (S i) e w b). rewrite IH. cbn [orb]. reflexivity. }
    destruct (go_nameMatches (go_canonical_name_ascii (fst rr)) q) eqn:M; cbn [negb orb].
    2:{ specialize (IH (S i) e w b Hb). destruct (view_select rest q ty (S i) e w b). rewrite IH. reflexivity. }
    destruct (wildcard_owner (go_canonical_name_ascii (fst rr))) eqn:W; cbn [negb].
    + pose proof (wildcard_len _ W) as Hl.
      destruct (b <? go_len (go_canonical_name_ascii (fst rr)) - 2)%Z eqn:B1.
      * specialize (IH (S i) e [i] (go_len (go_canonical_name_ascii (fst rr)) - 2)%Z ltac:(intros _; discriminate)).
        destruct (view_select rest q ty (S i) e [i] _). rewrite IH.
        split; intros _; right; [right; reflexivity|left; discriminate].
      * destruct (go_len (go_canonical_name_ascii (fst rr)) - 2 =? b)%Z eqn:B2.
        -- specialize (IH (S i) e (w ++ [i]) b ltac:(intros _; destruct w; discriminate)).
           destruct (view_select rest q ty (S i) e (w ++ [i]) b). rewrite IH.
           split; intros _; right; [right; reflexivity|left; destruct w; discriminate].
        -- assert (Hw : w <> []) by (apply Hb; lia).
           specialize (IH (S i) e w b Hb). destruct (view_select rest q ty (S i) e w b). rewrite IH.
           split; [intros [H|[H|H]]; auto|]. intros _. right. left. exact Hw.
    + specialize (IH (S i) (e ++ [i]) w b Hb). destruct (view_select rest q ty (S i) (e ++ [i]) w b). rewrite IH.
      split; intros _; [right; right; reflexivity|left; destruct e; discriminate].
Qed.

(* a view answers a question iff it holds a record of the asked type whose owner covers the name *)
Theorem view_has_record_iff answers qname qtype :
  view_has_record answers qname qtype = existsb (rec_matches (go_canonical_name_ascii qname) qtype) answers.
Proof.
  unfold view_has_record, view_answer.
  pose proof (view_select_nonempty answers (go_canonical_name_ascii qname) qtype 0%nat [] [] 0%Z ltac:(lia)) as H.
  destruct (view_select answers (go_canonical_name_ascii qname) qtype 0 [] [] 0) as [e w].
  destruct (existsb _ answers).
  - assert (G : e <> [] \/ w <> []) by (apply H; right; right; reflexivity).
    destruct e; [destruct w; [destruct G; congruence|reflexivity]|reflexivity].
  - destruct e as [|x e]; [destruct w as [|y w]; [reflexivity|]|].
    + assert (G : [] <> [] \/ [] <> [] \/ false = true) by (apply H; right; discriminate). destruct G as [G|[G|G]]; congruence.
    + assert (G : [] <> [] \/ [] <> [] \/ false = true) by (apply H; left; discriminate). destruct G as [G|[G|G]]; congruence.
Qed.

(* an exact owner beats every covering wildcard: once an exact record matched, no wildcard record is served *)
Lemma view_select_exact_kept answers q ty : forall i e w b, e <> [] ->
  fst (view_select answers q ty i e w b) <> [].
Proof.
  induction answers as [|rr rest IH]; intros i e w b He; cbn [view_select]; [exact He|].
  repeat match goal with |- context [if ?c then _ else _] => destruct c end; try (apply IH; exact He).
  apply IH. destruct e; discriminate.
Qed.

Definition exact_rec (all : list vrec) (q : list N) (ty : N) (j : nat) : Prop :=
  exists rr, nth_error all j = Some rr /\ rec_matches q ty rr = true /\
             wildcard_owner (go_canonical_name_ascii (fst rr)) = false.
Definition wild_rec (all : list vrec) (q : list N) (ty : N) (j : nat) : Prop :=
  exists rr, nth_error all j = Some rr /\ rec_matches q ty rr = true /\
             wildcard_owner (go_canonical_name_ascii (fst rr)) = true.

Lemma view_select_sorts answers q ty : forall pre e w b,
  Forall (exact_rec (pre ++ answers) q ty) e -> Forall (wild_rec (pre ++ answers) q ty) w ->
  let '(e', w') := view_select answers q ty (length pre) e w b in
  Forall (exact_rec (pre ++ answers) q ty) e' /\ Forall (wild_rec (pre ++ answers) q ty) w'.
Proof.
  induction answers as [|rr rest IH]; intros pre e w b He Hw; cbn [view_select]; [split; assumption|].
  assert (Hn : nth_error (pre ++ rr :: rest) (length pre) = Some rr)
    by (rewrite nth_error_app2, Nat.sub_diag by lia; reflexivity).
  assert (Hre : pre ++ rr :: rest = (pre ++ [rr]) ++ rest) by (rewrite <- app_assoc; reflexivity).
  assert (Hl : S (length pre) = length (pre ++ [rr])) by (rewrite app_length; cbn; lia).
  rewrite Hl. rewrite Hre in *.
  destruct (snd rr =? ty) eqn:T; cbn [negb]; [|apply IH; assumption].
  destruct (go_nameMatches (go_canonical_name_ascii (fst rr)) q) eqn:M; cbn [negb]; [|apply IH; assumption].
  assert (Hm : rec_matches q ty rr = true) by (unfold rec_matches; rewrite T, M; reflexivity).
  destruct (wildcard_owner (go_canonical_name_ascii (fst rr))) eqn:W; cbn [negb].
  - assert (Hi : wild_rec ((pre ++ [rr]) ++ rest) q ty (length pre)) by (exists rr; auto).
    destruct (b <? _)%Z; [apply IH; [assumption|constructor; [exact Hi|constructor]]|].
    destruct (_ =? b)%Z; apply IH; try assumption. apply Forall_app. split; [assumption|constructor; [exact Hi|constructor]].
  - assert (Hi : exact_rec ((pre ++ [rr]) ++ rest) q ty (length pre)) by (exists rr; auto).
    apply IH; [|assumption]. apply Forall_app. split; [assumption|constructor; [exact Hi|constructor]].
Qed.

(* an exact owner beats every covering wildcard (RFC 4592 3.2 as the code reads it): when a record with a
   non-wildcard owner matches, every record served has a non-wildcard owner; otherwise every record served
   is a matching wildcard; and nothing is served that does not match name and type *)
Theorem view_answer_kinds answers qname qtype :
  let q := go_canonical_name_ascii qname in
  (existsb (fun rr => rec_matches q qtype rr && negb (wildcard_owner (go_canonical_name_ascii (fst rr)))) answers = true ->
   Forall (exact_rec answers q qtype) (view_answer answers qname qtype)) /\
  Forall (fun j => exact_rec answers q qtype j \/ wild_rec answers q qtype j) (view_answer answers qname qtype).
Proof.
  cbv zeta. unfold view_answer.
  pose proof (view_select_sorts answers (go_canonical_name_ascii qname) qtype [] [] [] 0%Z (Forall_nil _) (Forall_nil _)) as H.
  cbn [app length] in H.
  destruct (view_select answers (go_canonical_name_ascii qname) qtype 0 [] [] 0) as [e w] eqn:E. destruct H as [He Hw].
  split.
  - intros Hex. destruct e as [|x e]; [|exact He]. exfalso.
    (* an exact match was seen, so the exact list cannot be empty *)
    assert (G : forall ans i e0 w0 b0, existsb (fun rr => rec_matches (go_canonical_name_ascii qname) qtype rr && negb (wildcard_owner (go_canonical_name_ascii (fst rr)))) ans = true ->
                fst (view_select ans (go_canonical_name_ascii qname) qtype i e0 w0 b0) <> []).
    { induction ans as [|rr rest IH]; intros i e0 w0 b0 Hx; [discriminate|]. cbn [existsb] in Hx. cbn [view_select].
      apply orb_true_iff in Hx. destruct Hx as [Hx|Hx].
      - apply andb_true_iff in Hx. destruct Hx as [Hm Hnw]. unfold rec_matches in Hm. apply andb_true_iff in Hm. destruct Hm as [T M].
        rewrite T, M. cbn [negb]. rewrite Hnw. apply view_select_exact_kept. destruct e0; discriminate.
      - repeat match goal with |- context [if ?c then _ else _] => destruct c end; apply IH; exact Hx. }
    specialize (G answers 0%nat [] [] 0%Z Hex). rewrite E in G. apply G. reflexivity.
  - destruct e as [|x e].
    + eapply Forall_impl; [|exact Hw]. intros j Hj. right. exact Hj.
    + eapply Forall_impl; [|exact He]. intros j Hj. left. exact Hj.
Qed.
