(* C17 — what a request flagged internal is allowed to skip downstream: the per-client rate
   limiter's entry decision, floods, and sub-query floods through the internal sub-pipelines. *)
From Coq Require Import String Ascii.
From Sdns Require Import Common.Base Gen.C17 C17.Model C17.Run C17.Proofs_set C17.Proofs_writer.
Open Scope N_scope.

(* the entry guards of ratelimit.ServeDNS (every `if c { ch.Next(ctx); return }` at the top level of
   the function, in order) and of reflex.ServeDNS, as they stand in the source now *)
Lemma policy_guards_text :
  ratelimit_passes = [bytes_of "ch.Replay()"; bytes_of "w.Internal()"; bytes_of "r.rate == 0";
                      bytes_of "w.RemoteIP() == nil"; bytes_of "w.RemoteIP().IsLoopback()"] /\
  reflex_passes = [bytes_of "w.Internal() || w.RemoteIP() == nil || w.RemoteIP().IsLoopback()"].
Proof. vm_compute. split; reflexivity. Qed.

Lemma is_loopback_spec a : addr_ok a -> is_loopback a = spec_loopback a.
Proof.
  intros Hok. unfold is_loopback, spec_loopback.
  pose proof (unmap_ok a Hok) as Hu. unfold addr_ok in Hu.
  destruct (a_is4 (unmap a)); [|reflexivity].
  apply eq_true_iff_eq. rewrite andb_true_iff, N.eqb_eq, N.leb_le, N.ltb_lt.
  change (2 ^ 24) with 16777216. change (2 ^ 32) with 4294967296 in Hu.
  pose proof (N.div_mod (a_val (unmap a)) 16777216 ltac:(discriminate)) as Hd.
  pose proof (N.mod_lt (a_val (unmap a)) 16777216 ltac:(discriminate)) as Hm.
  lia.
Qed.

(* the exemptions from the rate limiter are exactly: internal, limiter off, no peer address, loopback peer *)
Lemma rl_exemptions r rate :
  rl_charged rate r = false <->
  writer_internal r = true \/ rate = 0 \/ writer_remote_ip r = None \/
  (exists a, writer_remote_ip r = Some a /\ is_loopback a = true).
Proof.
  unfold rl_charged. destruct (writer_internal r); [split; auto|].
  destruct (rate =? 0) eqn:E; [apply N.eqb_eq in E; split; auto|]. apply N.eqb_neq in E.
  destruct (writer_remote_ip r) as [a|]; [|split; auto].
  destruct (is_loopback a) eqn:L; cbn [negb]; split; intros H; try reflexivity; try discriminate.
  - right. right. right. exists a. auto.
  - destruct H as [H|[H|[H|(b & Hb & Hl)]]]; try discriminate; try contradiction.
    inversion Hb; subst b. congruence.
Qed.

(* the decision is the specification's: only a genuine sub-query is exempt because of WHO asks *)
Lemma rl_charged_is_spec rate r : (forall a, r_ip r = Some a -> addr_ok a) ->
  rl_charged rate r =
  negb (spec_subquery r) && negb (rate =? 0) &&
  match spec_client_ip r with Some a => negb (spec_loopback a) | None => false end.
Proof.
  intros Hok. unfold rl_charged. rewrite (writer_internal_is_spec r Hok), writer_remote_ip_is_spec.
  destruct (spec_subquery r); [reflexivity|]. destruct (rate =? 0); [reflexivity|]. cbn [negb andb].
  destruct (spec_client_ip r) as [a|] eqn:Ea; [|reflexivity].
  rewrite is_loopback_spec; [reflexivity|].
  apply Hok. unfold spec_client_ip in Ea. destruct (r_kind r); try exact Ea; discriminate.
Qed.

(* a flood from a client address is limited to its budget on EVERY transport address type *)
Lemma client_flood_limited rate n r a :
  rate <> 0 -> r_says r <> Some true -> (r_port r <> 0%Z \/ ip_is_sentinel (r_ip r) = false) ->
  writer_remote_ip r = Some a -> is_loopback a = false ->
  flood_answered rate n r = N.min n rate.
Proof.
  intros Hr Hs Hc Ha Hl. unfold flood_answered, rl_charged.
  rewrite (client_never_internal r Hs Hc), Ha, Hl.
  apply N.eqb_neq in Hr. rewrite Hr. reflexivity.
Qed.

(* ... and the sentinel address buys nothing: 127.0.0.255 with a real port is a client (it is
   exempt only as every loopback peer is) *)
Lemma sentinel_address_client_not_internal kind port says :
  port <> 0%Z -> says <> Some true ->
  writer_internal (mk_remote kind (Some (mk_addr true 2130706687)) port says) = false.
Proof. intros Hp Hs. apply client_never_internal; cbn; auto. Qed.

(* a sub-query is never limited: the limiter is not in either internal sub-pipeline (ClientOnly set
   and handler order read from the source), and if it were it would see the sub-query writer *)
Lemma subquery_never_limited via rate n :
  sub_flood_answered handler_order via rate n = n /\
  flood_answered rate n subquery_remote = n /\
  mem_name n_ratelimit_name (queryer_sub handler_order) = false /\
  mem_name n_ratelimit_name (prefetch_sub handler_order) = false.
Proof.
  assert (Q : mem_name n_ratelimit_name (queryer_sub handler_order) = false) by (vm_compute; reflexivity).
  assert (P : mem_name n_ratelimit_name (prefetch_sub handler_order) = false) by (vm_compute; reflexivity).
  assert (F : flood_answered rate n subquery_remote = n).
  { unfold flood_answered, rl_charged.
    replace (writer_internal subquery_remote) with true by (vm_compute; reflexivity). reflexivity. }
  repeat split; auto. unfold sub_flood_answered. destruct (via =? 0); [rewrite Q|rewrite P]; reflexivity.
Qed.
