(* C17 — the stabbing query: binary search + running maximum = "some span contains k". *)
From Coq Require Import Permutation Sorting.Sorted.
From Sdns Require Import Common.Base Gen.C17 C17.Model C17.Proofs_arith.
Open Scope nat_scope.

(* ---------------- generic binary search over a "true then false" predicate *)
Lemma div2_mid i j : i < j -> i <= Nat.div2 (i + j) < j.
Proof. intros H. rewrite Nat.div2_div. split; [apply Nat.div_le_lower_bound|apply Nat.div_lt_upper_bound]; lia. Qed.

Lemma bsearch_spec (f : nat -> bool) (n : nat) :
  (forall a b, a <= b -> b < n -> f b = true -> f a = true) ->
  forall fuel i j, j - i <= fuel -> i <= j -> j <= n ->
  (forall x, x < i -> f x = true) -> (forall x, j <= x -> x < n -> f x = false) ->
  let r := bsearch f fuel i j in
  r <= n /\ (forall x, x < r -> f x = true) /\ (forall x, r <= x -> x < n -> f x = false).
Proof.
  intros Hmono. induction fuel as [|fuel IH]; intros i j Hf Hij Hjn Hlo Hhi; cbn [bsearch].
  - assert (i = j) by lia. subst j. repeat split; auto; try lia.
  - destruct (Nat.ltb_spec i j) as [Hlt|Hge].
    + pose proof (div2_mid i j Hlt) as [Hm1 Hm2]. set (m := Nat.div2 (i + j)) in *.
      destruct (f m) eqn:Efm.
      * apply IH; try lia.
        -- intros x Hx. apply (Hmono x m); try lia. exact Efm.
        -- exact Hhi.
      * apply IH; try lia.
        -- exact Hlo.
        -- intros x Hx Hxn. destruct (f x) eqn:Efx; [|reflexivity].
           rewrite (Hmono m x) in Efm; try lia; try discriminate. exact Efx.
    + assert (i = j) by lia. subst j. repeat split; auto; try lia.
Qed.

(* ---------------- spans *)
Definition span_wf (s : span) : Prop := u128_wf (s_lo s) /\ u128_wf (s_hi s).
Definition lo_le (a b : span) : Prop := (uval (s_lo a) <= uval (s_lo b))%N.
Definition stabs (k : N) (s : span) : bool := ((uval (s_lo s) <=? k) && (k <=? uval (s_hi s)))%N.

Fixpoint maxhi (m : N) (l : list span) : N :=
  match l with [] => m | s :: r => maxhi (N.max m (uval (s_hi s))) r end.

Lemma maxhi_spec l : forall m k, (k <= maxhi m l)%N <-> (k <= m)%N \/ exists s, In s l /\ (k <= uval (s_hi s))%N.
Proof.
  induction l as [|s r IH]; intros m k; cbn [maxhi].
  - split; [auto|]. intros [H|[s [[] _]]]. exact H.
  - rewrite IH. split.
    + intros [H|[t [Ht Hk]]].
      * destruct (N.max_spec m (uval (s_hi s))) as [[_ E]|[_ E]]; rewrite E in H; [right; exists s; cbn; auto|auto].
      * right. exists t. cbn. auto.
    + intros [H|[t [[<-|Ht] Hk]]].
      * left. lia.
      * left. lia.
      * right. exists t. auto.
Qed.

Lemma run_max_length l : forall mx, length (run_max mx l) = length l.
Proof. induction l as [|s r IH]; intros mx; cbn; [reflexivity|]. rewrite IH. reflexivity. Qed.

Definition zero128 : T_u128 := mk_T_u128 0 0.
Lemma zero128_wf : u128_wf zero128. Proof. split; reflexivity. Qed.

Lemma run_max_nth l : forall mx i, Forall span_wf l -> u128_wf mx -> i < length l ->
  let s := nth i (run_max mx l) dummy_span in
  s_lo s = s_lo (nth i l dummy_span) /\
  uval (s_max s) = maxhi (uval mx) (firstn (S i) l).
Proof.
  induction l as [|s r IH]; intros mx i Hwf Hmx Hi; [cbn in Hi; lia|].
  inversion Hwf as [|? ? [Hs1 Hs2] Hr]; subst.
  cbn [run_max].
  set (mx' := if go_u128_lessEq mx (s_hi s) then s_hi s else mx).
  assert (Hmx' : u128_wf mx' /\ uval mx' = N.max (uval mx) (uval (s_hi s))).
  { unfold mx'. rewrite gen_u128_lessEq by assumption.
    destruct (N.leb_spec (uval mx) (uval (s_hi s))); split; auto; lia. }
  destruct Hmx' as [Hw' Hv'].
  destruct i as [|i].
  - cbn. split; [reflexivity|]. exact Hv'.
  - cbn [nth firstn maxhi]. cbn in Hi. rewrite <- Hv'. apply IH; auto. lia.
Qed.

(* sortedness by span start, index form *)
Lemma sorted_nth l : StronglySorted lo_le l ->
  forall a b, a <= b -> b < length l -> lo_le (nth a l dummy_span) (nth b l dummy_span).
Proof.
  induction 1 as [|s r Hr IH Hall]; intros a b Hab Hb; [cbn in Hb; lia|].
  destruct a as [|a], b as [|b]; cbn [nth]; cbn in Hb.
  - unfold lo_le. lia.
  - rewrite Forall_forall in Hall. apply Hall. apply nth_In. lia.
  - lia.
  - apply IH; lia.
Qed.

Lemma existsb_perm {A} (f : A -> bool) l l' : Permutation l l' -> existsb f l = existsb f l'.
Proof.
  intros HP. apply Bool.eq_iff_eq_true. rewrite !existsb_exists.
  split; intros [x [Hx Hf]]; exists x; split; auto; [eapply Permutation_in|eapply Permutation_in; [apply Permutation_sym|]]; eauto.
Qed.

Lemma In_firstn_nth {A} (d : A) l n x : In x (firstn n l) <-> exists i, i < n /\ i < length l /\ nth i l d = x.
Proof.
  revert n. induction l as [|a l IH]; intros n.
  - rewrite firstn_nil. split; [intros []|]. intros [i [_ [H _]]]. cbn in H. lia.
  - destruct n as [|n]; cbn [firstn].
    + split; [intros []|]. intros [i [H _]]. lia.
    + cbn [In]. rewrite IH. split.
      * intros [<-|[i [H1 [H2 H3]]]]; [exists 0; cbn; repeat split; lia|exists (S i); cbn; repeat split; auto; lia].
      * intros [[|i] [H1 [H2 H3]]]; cbn in *; [left; auto|right; exists i; repeat split; auto; lia].
Qed.

(* ---------------- the theorem *)
Theorem contains_compiled_exact (l l' : list span) (k : T_u128) :
  Forall span_wf l -> u128_wf k ->
  Permutation l l' -> StronglySorted lo_le l' ->
  contains_compiled (run_max zero128 l') k = existsb (stabs (uval k)) l.
Proof.
  intros Hwf Hk HP Hs.
  assert (Hwf' : Forall span_wf l') by (rewrite Forall_forall in *; intros x Hx; apply Hwf; eapply Permutation_in; [apply Permutation_sym|]; eauto).
  rewrite (existsb_perm _ _ _ HP). clear HP Hwf l.
  unfold contains_compiled.
  destruct l' as [|s0 r0] eqn:El; [reflexivity|]. rewrite <- El in *.
  assert (Hne : run_max zero128 l' <> []) by (rewrite El; discriminate).
  destruct (run_max zero128 l') as [|c0 cr] eqn:Ec; [contradiction|]. rewrite <- Ec in *. clear Hne c0 cr Ec.
  rewrite run_max_length. set (n := length l').
  set (f := fun m => go_u128_lessEq (s_lo (nth m (run_max zero128 l') dummy_span)) k).
  assert (Hf : forall m, m < n -> f m = (uval (s_lo (nth m l' dummy_span)) <=? uval k)%N).
  { intros m Hm. unfold f. destruct (run_max_nth l' zero128 m Hwf' zero128_wf Hm) as [E _]. rewrite E.
    apply gen_u128_lessEq; [|exact Hk]. rewrite Forall_forall in Hwf'. apply Hwf', nth_In. exact Hm. }
  assert (Hmono : forall a b, a <= b -> b < n -> f b = true -> f a = true).
  { intros a b Hab Hb. rewrite !Hf by lia. rewrite !N.leb_le. pose proof (sorted_nth l' Hs a b Hab Hb) as H. unfold lo_le in H. lia. }
  destruct (bsearch_spec f n Hmono n 0 n ltac:(lia) ltac:(lia) ltac:(lia) ltac:(intros; lia) ltac:(intros; lia)) as [Hrn [Htrue Hfalse]].
  set (r := bsearch f n 0 n) in *.
  destruct r as [|i'] eqn:Er.
  - (* no span starts at or before k *)
    symmetry. apply Bool.not_true_iff_false. rewrite existsb_exists. intros [s [Hin Hst]].
    destruct (In_nth _ _ dummy_span Hin) as [x [Hx Ex]]. specialize (Hfalse x ltac:(lia) Hx). rewrite Hf in Hfalse by exact Hx.
    unfold stabs in Hst. rewrite Ex in Hfalse. apply andb_true_iff in Hst as [H1 _]. congruence.
  - destruct (run_max_nth l' zero128 i' Hwf' zero128_wf ltac:(lia)) as [_ Emax].
    assert (Hwm : u128_wf (s_max (nth i' (run_max zero128 l') dummy_span))).
    { (* the running maximum is one of the his or zero: prove well-formedness through its value *)
      clear -Hwf'. generalize zero128_wf. generalize zero128. revert i'.
      induction l' as [|s r IH]; intros i mx Hmx; [destruct i; exact zero128_wf|].
      inversion Hwf' as [|? ? [Hs1 Hs2] Hr]; subst. cbn [run_max].
      assert (u128_wf (if go_u128_lessEq mx (s_hi s) then s_hi s else mx)) by (destruct (go_u128_lessEq mx (s_hi s)); auto).
      destruct i; cbn [nth s_max]; auto. }
    rewrite gen_u128_lessEq by assumption. rewrite Emax. change (uval zero128) with 0%N.
    apply Bool.eq_iff_eq_true. rewrite N.leb_le, maxhi_spec, existsb_exists. split.
    + intros [H0|[s [Hin Hk']]].
      * (* k = 0: the first span starts at 0 <= k and ends at >= 0 *)
        exists (nth 0 l' dummy_span). split; [apply nth_In; lia|].
        unfold stabs. apply andb_true_iff. split; [|apply N.leb_le; lia].
        specialize (Htrue 0 ltac:(lia)). rewrite Hf in Htrue by lia. exact Htrue.
      * exists s. split; [eapply (proj1 (In_firstn_nth dummy_span _ _ _)) in Hin as [x [_ [Hx <-]]]; apply nth_In; exact Hx|].
        apply (In_firstn_nth dummy_span) in Hin as [x [Hx1 [Hx2 Ex]]].
        unfold stabs. apply andb_true_iff. split; [|apply N.leb_le; exact Hk'].
        specialize (Htrue x ltac:(lia)). rewrite Hf in Htrue by lia. rewrite Ex in Htrue. exact Htrue.
    + intros [s [Hin Hst]]. right. exists s. unfold stabs in Hst. apply andb_true_iff in Hst as [H1 H2]. apply N.leb_le in H2.
      split; [|exact H2].
      destruct (In_nth _ _ dummy_span Hin) as [x [Hx Ex]].
      apply (In_firstn_nth dummy_span). exists x. repeat split; auto.
      destruct (Nat.lt_ge_cases x (S i')) as [L|L]; [exact L|].
      specialize (Hfalse x L Hx). rewrite Hf in Hfalse by exact Hx. rewrite Ex in Hfalse. congruence.
Qed.
