(* C17 — arithmetic facts: u128 order, ones, bounds, prefix membership as a range. *)
From Coq Require Import Permutation Sorting.Sorted.
From Sdns Require Import Common.Base Gen.C17 C17.Model.
Open Scope N_scope.

Lemma two64_pos : 0 < two64. Proof. reflexivity. Qed.
Lemma two64_eq : two64 = 2 ^ 64. Proof. reflexivity. Qed.

(* ---- translator lemma: u128.lessEq is the order on the number *)
Lemma gen_u128_lessEq a b :
  u128_wf a -> u128_wf b -> go_u128_lessEq a b = (uval a <=? uval b).
Proof.
  intros [Ha1 Ha2] [Hb1 Hb2]. unfold go_u128_lessEq, uval.
  destruct a as [ah al], b as [bh bl]; cbn [T_u128_hi T_u128_lo] in *.
  destruct (N.ltb_spec ah bh) as [H|H]; cbn [orb].
  - symmetry. apply N.leb_le. nia.
  - destruct (N.eqb_spec ah bh) as [E|E]; cbn [andb].
    + subst. destruct (N.leb_spec al bl); symmetry; [apply N.leb_le|apply N.leb_gt]; nia.
    + symmetry. apply N.leb_gt. nia.
Qed.

Lemma uval_of_val v : uval (of_val v) = v.
Proof.
  unfold uval, of_val; cbn [T_u128_hi T_u128_lo].
  pose proof (N.div_mod v two64 ltac:(discriminate)). lia.
Qed.
Lemma of_val_wf v : v < 2 ^ 128 -> u128_wf (of_val v).
Proof.
  intros H. unfold u128_wf, of_val; cbn [T_u128_hi T_u128_lo]. split.
  - apply N.div_lt_upper_bound; [discriminate|]. exact H.
  - apply N.mod_lt. discriminate.
Qed.

(* ---- translator lemma: ones n = 2^n - 1, saturating *)
Lemma gen_ones n :
  go_ones n = if (n <=? 0)%Z then 0 else if (64 <=? n)%Z then two64 - 1 else 2 ^ Z.to_N n - 1.
Proof.
  unfold go_ones.
  destruct (Z.leb_spec n 0) as [H0|H0]; [reflexivity|].
  destruct (Z.leb_spec 64 n) as [H1|H1]; [reflexivity|].
  assert (Hn : Z_to_uw two64 n = Z.to_N n).
  { unfold Z_to_uw. rewrite Z.mod_small; [reflexivity|]. change (Z.of_N two64) with 18446744073709551616%Z. lia. }
  rewrite Hn. rewrite N.shiftl_1_l.
  assert (Hlt : 2 ^ Z.to_N n < two64).
  { rewrite two64_eq. apply N.pow_lt_mono_r; lia. }
  assert (Hpos : 0 < 2 ^ Z.to_N n) by (apply N.neq_0_lt_0, N.pow_nonzero; discriminate).
  rewrite wrap64_small by exact Hlt.
  unfold subw. change (1 mod two64) with 1.
  replace (2 ^ Z.to_N n + (two64 - 1)) with ((2 ^ Z.to_N n - 1) + 1 * two64) by lia.
  rewrite N.mod_add by discriminate. apply N.mod_small. lia.
Qed.

Lemma ones_as_N_ones h : (0 <= h <= 64)%Z -> go_ones h = N.ones (Z.to_N h).
Proof.
  intros H. rewrite gen_ones, N.ones_equiv.
  destruct (Z.leb_spec h 0); [replace h with 0%Z by lia; reflexivity|].
  destruct (Z.leb_spec 64 h); [replace h with 64%Z by lia; reflexivity|].
  rewrite N.pred_sub. reflexivity.
Qed.

(* lor with a low mask on a number whose low bits are clear is addition *)
Lemma lor_ones_add x h : x mod 2 ^ h = 0 -> N.lor x (N.ones h) = x + N.ones h.
Proof.
  intros H. assert (L : N.land x (N.ones h) = 0) by (rewrite N.land_ones; exact H).
  rewrite <- N.lxor_lor by exact L. symmetry. apply N.add_nocarry_lxor. exact L.
Qed.

(* ---- membership in a prefix is membership in [masked, masked + 2^host - 1] *)
Lemma div_eq_range a v P : 0 < P ->
  (v / P =? a / P) = ((a - a mod P <=? v) && (v <=? a - a mod P + P - 1)).
Proof.
  intros HP.
  pose proof (N.div_mod a P ltac:(lia)) as Ha. pose proof (N.mod_lt a P ltac:(lia)) as Ha'.
  pose proof (N.div_mod v P ltac:(lia)) as Hv. pose proof (N.mod_lt v P ltac:(lia)) as Hv'.
  revert Ha Ha' Hv Hv'.
  generalize (a / P) (a mod P) (v / P) (v mod P). intros qa ra qv rv Ha Ha' Hv Hv'.
  assert (E : a - ra = P * qa) by lia. rewrite E.
  destruct (N.eqb_spec qv qa) as [Q|Q].
  - symmetry. apply andb_true_iff. split; apply N.leb_le; subst qv; lia.
  - symmetry. apply andb_false_iff.
    destruct (N.lt_ge_cases qv qa) as [L|L].
    + left. apply N.leb_gt. nia.
    + right. apply N.leb_gt. assert (qa + 1 <= qv) by lia. nia.
Qed.

Definition host_of (p : prefix) : N := Z.to_N (width (p_is4 p) - p_bits p).
Definition range_lo (p : prefix) : N := masked p.
Definition range_hi (p : prefix) : N := masked p + 2 ^ host_of p - 1.

Lemma masked_mod p : masked p mod 2 ^ host_of p = 0.
Proof.
  unfold masked. fold (host_of p). set (P := 2 ^ host_of p).
  assert (HP : P <> 0) by (apply N.pow_nonzero; discriminate).
  pose proof (N.div_mod (p_addr p) P HP) as H1. pose proof (N.mod_lt (p_addr p) P HP) as H2.
  assert (E : p_addr p - p_addr p mod P = p_addr p / P * P).
  { revert H1 H2. generalize (p_addr p / P) (p_addr p mod P). intros q r H1 H2. lia. }
  rewrite E. apply N.mod_mul. exact HP.
Qed.

Lemma in_prefix_range p a :
  in_prefix p a =
  Bool.eqb (p_is4 p) (a_is4 (unmap a)) &&
  ((range_lo p <=? a_val (unmap a)) && (a_val (unmap a) <=? range_hi p)).
Proof.
  unfold in_prefix, range_lo, range_hi, masked. fold (host_of p). cbv zeta.
  f_equal. apply div_eq_range. apply N.neq_0_lt_0, N.pow_nonzero. discriminate.
Qed.

(* ---- bounds: lo = masked, hi = masked + 2^host - 1, both well formed *)
Lemma prefix_ok_facts p : prefix_ok p = true ->
  (0 <= p_bits p <= width (p_is4 p))%Z /\ p_addr p < 2 ^ Z.to_N (width (p_is4 p)).
Proof.
  unfold prefix_ok. intros H. apply andb_true_iff in H as [H H3]. apply andb_true_iff in H as [H1 H2].
  apply Z.leb_le in H1, H2. apply N.ltb_lt in H3. auto.
Qed.

Lemma masked_le p : masked p <= p_addr p.
Proof. unfold masked. lia. Qed.

Lemma pow_split (a b : N) : 2 ^ (a + b) = 2 ^ a * 2 ^ b.
Proof. apply N.pow_add_r. Qed.

Lemma bounds_spec p : prefix_ok p = true ->
  let '(lo, hi) := bounds p in
  uval lo = range_lo p /\ uval hi = range_hi p /\ u128_wf lo /\ u128_wf hi /\ range_hi p < 2 ^ Z.to_N (width (p_is4 p)).
Proof.
  intros Hok. apply prefix_ok_facts in Hok as [Hb Ha].
  pose proof (masked_le p) as Hle. pose proof (masked_mod p) as Hmod.
  unfold bounds, range_lo, range_hi. set (m := masked p) in *. set (h := host_of p) in *.
  assert (Hw : (width (p_is4 p) = 32 \/ width (p_is4 p) = 128)%Z) by (destruct (p_is4 p); cbn; auto).
  assert (Hh : Z.of_N h = (width (p_is4 p) - p_bits p)%Z) by (unfold h, host_of; lia).
  assert (HP : 0 < 2 ^ h) by (apply N.neq_0_lt_0, N.pow_nonzero; discriminate).
  (* m is a multiple of 2^h, below 2^width, so m + 2^h <= 2^width *)
  assert (Hm128 : m < 2 ^ 128).
  { eapply N.le_lt_trans; [exact Hle|]. eapply N.lt_le_trans; [exact Ha|]. apply N.pow_le_mono_r; [discriminate|]. destruct Hw as [-> | ->]; cbn; lia. }
  assert (Htop : m + 2 ^ h <= 2 ^ Z.to_N (width (p_is4 p))).
  { set (W := Z.to_N (width (p_is4 p))) in *.
    assert (HW : W = (W - h) + h) by lia.
    apply N.mod_divide in Hmod; [|lia]. destruct Hmod as [q Hq].
    assert (q < 2 ^ (W - h)).
    { apply N.mul_lt_mono_pos_r with (p := 2 ^ h); [exact HP|]. rewrite <- Hq, <- pow_split, <- HW. lia. }
    rewrite HW, pow_split, Hq. nia. }
  pose proof (of_val_wf m Hm128) as Hwf. pose proof (uval_of_val m) as Huv.
  destruct (of_val m) as [mh ml] eqn:Eov. unfold u128_wf, uval in *; cbn [T_u128_hi T_u128_lo] in *.
  destruct Hwf as [Hmh Hml].
  destruct ((width (p_is4 p) =? 32)%Z || (width (p_is4 p) - p_bits p <? 64)%Z) eqn:Ebr.
  - (* host bits all in the low word *)
    assert (Hh64 : h <= 64).
    { apply orb_true_iff in Ebr as [E|E]; [apply Z.eqb_eq in E|apply Z.ltb_lt in E]; lia. }
    rewrite ones_as_N_ones by lia. replace (Z.to_N (width (p_is4 p) - p_bits p)) with h by lia.
    assert (Hlm : ml mod 2 ^ h = 0).
    { (* m = mh*2^64 + ml, 2^h | 2^64 *)
      assert (E64 : two64 = 2 ^ (64 - h) * 2 ^ h) by (rewrite <- pow_split, two64_eq; f_equal; lia).
      rewrite <- Huv in Hmod. rewrite E64, N.mul_assoc in Hmod.
      rewrite N.add_comm, N.mod_add in Hmod by lia. exact Hmod. }
    rewrite lor_ones_add by exact Hlm. rewrite N.ones_equiv, N.pred_sub.
    cbn [T_u128_hi T_u128_lo].
    assert (Hfit : ml + (2 ^ h - 1) < two64).
    { (* ml is a multiple of 2^h below 2^64 *)
      apply N.mod_divide in Hlm; [|lia]. destruct Hlm as [q Hq].
      assert (E64 : two64 = 2 ^ (64 - h) * 2 ^ h) by (rewrite <- pow_split, two64_eq; f_equal; lia).
      assert (q < 2 ^ (64 - h)) by (apply N.mul_lt_mono_pos_r with (p := 2 ^ h); [exact HP|]; lia).
      rewrite E64, Hq. nia. }
    repeat split; try lia.
  - (* v6 with host >= 64: low word all ones *)
    apply orb_false_iff in Ebr as [E1 E2]. apply Z.eqb_neq in E1. apply Z.ltb_ge in E2.
    assert (Hw128 : width (p_is4 p) = 128%Z) by lia.
    assert (Hh64 : 64 <= h <= 128) by lia.
    rewrite ones_as_N_ones by lia. replace (Z.to_N (width (p_is4 p) - p_bits p - 64)) with (h - 64) by lia.
    cbn [T_u128_hi T_u128_lo].
    assert (Eh : 2 ^ h = 2 ^ (h - 64) * two64) by (rewrite two64_eq, <- pow_split; f_equal; lia).
    (* ml = 0 and mh multiple of 2^(h-64) *)
    assert (Hml0 : ml = 0).
    { assert (Hd : m mod two64 = 0).
      { apply N.mod_divide in Hmod; [|lia]. destruct Hmod as [q Hq]. rewrite Hq, Eh, N.mul_assoc. apply N.mod_mul. discriminate. }
      rewrite <- Huv in Hd. rewrite N.add_comm, N.mod_add in Hd by discriminate. rewrite N.mod_small in Hd by exact Hml. exact Hd. }
    subst ml.
    assert (Hmhm : mh mod 2 ^ (h - 64) = 0).
    { apply N.mod_divide in Hmod; [|lia]. destruct Hmod as [q Hq]. rewrite <- Huv, Eh in Hq.
      assert (mh = q * 2 ^ (h - 64)) by nia. subst mh. apply N.mod_mul. apply N.pow_nonzero. discriminate. }
    rewrite lor_ones_add by exact Hmhm. rewrite N.ones_equiv, N.pred_sub.
    assert (HP' : 0 < 2 ^ (h - 64)) by (apply N.neq_0_lt_0, N.pow_nonzero; discriminate).
    assert (Hfit : mh + (2 ^ (h - 64) - 1) < two64).
    { apply N.mod_divide in Hmhm; [|lia]. destruct Hmhm as [q Hq].
      assert (E64 : two64 = 2 ^ (128 - h) * 2 ^ (h - 64)) by (rewrite <- pow_split, two64_eq; f_equal; lia).
      assert (q < 2 ^ (128 - h)) by (apply N.mul_lt_mono_pos_r with (p := 2 ^ (h - 64)); [exact HP'|]; lia).
      rewrite E64, Hq. nia. }
    rewrite Hw128 in Htop. change (Z.to_N 128) with 128 in Htop.
    repeat split; try lia; try (rewrite Hw128; change (Z.to_N 128) with 128; lia).
    rewrite Eh. pose proof two64_pos. nia.
Qed.
