(* C17 — the two loops of internal/ipset as the translator reads them
   (Gen/C17.v: go_Set_Contains_loop1, go_compile_loop1, regenerated from the Go
   source on every run) compute what the hand-written model computes
   (Model.bsearch, Model.run_max).  A change of either Go loop changes the
   generated Fixpoint and these lemmas are re-checked against it. *)
From Sdns Require Import Common.Base Common.GoList Gen.C17 C17.Model.
Open Scope Z_scope.

Definition to_T (s : span) : T_span := mk_T_span (s_lo s) (s_hi s) (s_max s).

Lemma to_T_dummy : to_T dummy_span = zero_T_span.
Proof. reflexivity. Qed.

Lemma idx_map_to_T spans m : (m < length spans)%nat ->
  go_idx zero_T_span (map to_T spans) (Z.of_nat m) = to_T (nth m spans dummy_span).
Proof.
  intros _. rewrite go_idx_nth by lia. rewrite Nat2Z.id, <- to_T_dummy. apply map_nth.
Qed.

(* the midpoint int(uint(i+j) >> 1) is (i+j)/2 as long as i+j fits an int *)
Lemma mid_eq (i j : nat) : Z.of_nat (i + j) < 2 ^ 63 ->
  N_to_s64 (N.shiftr (Z_to_uw two64 (Z.of_nat i + Z.of_nat j)) 1) = Z.of_nat (Nat.div2 (i + j)).
Proof.
  intros H. unfold Z_to_uw, N_to_s64, two64, wrap64.
  replace (Z.of_nat i + Z.of_nat j) with (Z.of_nat (i + j)) by lia.
  set (s := (i + j)%nat) in *.
  rewrite Z.mod_small by (change (Z.of_N 18446744073709551616) with (2 ^ 64); lia).
  rewrite N.shiftr_div_pow2. change (2 ^ 1)%N with 2%N.
  assert (Hd : Z.of_nat (Nat.div2 s) = Z.of_nat s / 2).
  { rewrite Nat.div2_div. rewrite Nat2Z.inj_div. reflexivity. }
  rewrite Hd.
  assert (Hq : Z.of_N (Z.to_N (Z.of_nat s) / 2) = Z.of_nat s / 2).
  { rewrite N2Z.inj_div. rewrite Z2N.id by lia. reflexivity. }
  assert (Hb : Z.of_nat s / 2 < 2 ^ 62) by (apply Z.div_lt_upper_bound; lia).
  assert (Hs : (Z.to_N (Z.of_nat s) / 2 < 18446744073709551616)%N) by lia.
  rewrite N.mod_small by exact Hs.
  rewrite Hq.
  destruct (Z.of_nat s / 2 <? 9223372036854775808) eqn:E; [reflexivity|].
  apply Z.ltb_ge in E. lia.
Qed.

Lemma div2_bounds i j : (i < j)%nat -> (i <= Nat.div2 (i + j) < j)%nat.
Proof. intros H. rewrite Nat.div2_div. split; [apply Nat.div_le_lower_bound|apply Nat.div_lt_upper_bound]; lia. Qed.

(* the binary search of Set.Contains: with more budget than the interval is wide the
   generated loop ends normally, i = j = what the model's search returns *)
Lemma gen_contains_loop fuel spans k : Z.of_nat (length spans) < 2 ^ 62 ->
  forall lf i j, (i <= j <= length spans)%nat -> (j - i < lf)%nat ->
  go_Set_Contains_loop1 fuel lf (map to_T spans) k (Z.of_nat i) (Z.of_nat j) =
  (let r := bsearch (fun m => go_u128_lessEq (s_lo (nth m spans dummy_span)) k) lf i j in
   (GoNext, (map to_T spans, k, Z.of_nat r, Z.of_nat r))).
Proof.
  intros Hlen. induction lf as [|lf IH]; intros i j Hij Hlf; [lia|].
  cbn [go_Set_Contains_loop1 bsearch].
  destruct (Z.of_nat i <? Z.of_nat j) eqn:E.
  - apply Z.ltb_lt in E. assert (Hlt : (i < j)%nat) by lia.
    assert (E' : (i <? j)%nat = true) by (apply Nat.ltb_lt; exact Hlt). rewrite E'.
    pose proof (div2_bounds i j Hlt) as Hm.
    rewrite mid_eq by lia.
    rewrite idx_map_to_T by lia. cbn [to_T T_span_lo].
    destruct (go_u128_lessEq (s_lo (nth (Nat.div2 (i + j)) spans dummy_span)) k) eqn:F.
    + replace (Z.of_nat (Nat.div2 (i + j)) + 1) with (Z.of_nat (S (Nat.div2 (i + j)))) by lia.
      rewrite IH by lia. reflexivity.
    + rewrite IH by lia. reflexivity.
  - apply Z.ltb_ge in E. assert (E' : (i <? j)%nat = false) by (apply Nat.ltb_ge; lia). rewrite E'.
    cbv zeta. replace j with i by lia. reflexivity.
Qed.

(* the whole first half of Contains after the family has been chosen: the index the Go loop
   leaves in i (and in j) is the index the model's contains_compiled continues with *)
Theorem gen_contains_search spans k : Z.of_nat (length spans) < 2 ^ 62 ->
  go_Set_Contains_loop1_run (S (length spans)) (map to_T spans) k 0 (Z.of_nat (length spans)) =
  (let r := bsearch (fun m => go_u128_lessEq (s_lo (nth m spans dummy_span)) k) (S (length spans)) 0 (length spans) in
   (GoNext, (map to_T spans, k, Z.of_nat r, Z.of_nat r))).
Proof.
  intros H. unfold go_Set_Contains_loop1_run. change 0 with (Z.of_nat 0).
  apply gen_contains_loop; [exact H|lia|lia].
Qed.

(* one more unit of budget does not change what a finished search returns *)
Lemma bsearch_fuel_irrelevant f : forall lf i j, (j - i <= lf)%nat -> bsearch f (S lf) i j = bsearch f lf i j.
Proof.
  induction lf as [|lf IH]; intros i j H.
  - cbn [bsearch]. destruct (i <? j)%nat eqn:E; [apply Nat.ltb_lt in E; lia|reflexivity].
  - change (bsearch f (S (S lf)) i j) with
      (if (i <? j)%nat then let m := Nat.div2 (i + j) in if f m then bsearch f (S lf) (S m) j else bsearch f (S lf) i m else i).
    change (bsearch f (S lf) i j) with
      (if (i <? j)%nat then let m := Nat.div2 (i + j) in if f m then bsearch f lf (S m) j else bsearch f lf i m else i).
    destruct (i <? j)%nat eqn:E; [|reflexivity]. apply Nat.ltb_lt in E.
    pose proof (div2_bounds i j E) as Hm. cbv zeta.
    destruct (f (Nat.div2 (i + j))); apply IH; lia.
Qed.

(* ---------------- compile(): the running maximum ---------------- *)

Lemma go_idx_mid {A} (d : A) pre x post : go_idx d (pre ++ x :: post) (Z.of_nat (length pre)) = x.
Proof. rewrite go_idx_nth by lia. rewrite Nat2Z.id. apply nth_middle. Qed.

Lemma go_upd_mid {A} (pre : list A) x y post : go_upd (pre ++ x :: post) (Z.of_nat (length pre)) y = pre ++ y :: post.
Proof.
  unfold go_upd. destruct (Z.of_nat (length pre) <? 0) eqn:E; [lia|]. rewrite Nat2Z.id. clear E.
  induction pre as [|h t IH]; cbn [app length go_upd_nat]; [reflexivity|]. rewrite IH. reflexivity.
Qed.

Fixpoint last_max (mx : T_u128) (l : list span) : T_u128 :=
  match l with
  | [] => mx
  | s :: r => last_max (if go_u128_lessEq mx (s_hi s) then s_hi s else mx) r
  end.

Lemma gen_compile_loop : forall l pre mx lf rs,
  length rs = (length pre + length l)%nat -> (length l < lf)%nat ->
  go_compile_loop1 rs lf (Z.of_nat (length pre)) (map to_T (pre ++ l)) mx =
  (GoNext, (map to_T (pre ++ run_max mx l), last_max mx l)).
Proof.
  induction l as [|s r IH]; intros pre mx lf rs Hrs Hlf; (destruct lf as [|lf]; [lia|]);
    cbn [go_compile_loop1].
  - assert (E : Z.of_nat (length pre) <? go_len rs = false) by (apply Z.ltb_ge; unfold go_len; cbn [length] in Hrs; lia).
    rewrite E. reflexivity.
  - assert (E : Z.of_nat (length pre) <? go_len rs = true) by (apply Z.ltb_lt; unfold go_len; cbn [length] in Hrs; lia).
    rewrite E. rewrite map_app. cbn [map]. rewrite <- (map_length to_T pre).
    rewrite !go_idx_mid. cbn [to_T T_span_hi T_span_lo].
    cbn [run_max last_max].
    destruct (go_u128_lessEq mx (s_hi s)) eqn:F; rewrite go_upd_mid, map_length.
    + set (X := mk_span (s_lo s) (s_hi s) (s_hi s)).
      change (mk_T_span (s_lo s) (s_hi s) (s_hi s)) with (to_T X).
      replace (map to_T pre ++ to_T X :: map to_T r) with (map to_T ((pre ++ [X]) ++ r))
        by (rewrite <- app_assoc, map_app; reflexivity).
      replace (Z.of_nat (length pre) + 1) with (Z.of_nat (length (pre ++ [X])))
        by (rewrite app_length; cbn [length]; lia).
      rewrite (IH (pre ++ [X]) (s_hi s) lf rs) by (rewrite ?app_length; cbn [length] in *; lia).
      rewrite <- app_assoc. reflexivity.
    + set (X := mk_span (s_lo s) (s_hi s) mx).
      change (mk_T_span (s_lo s) (s_hi s) mx) with (to_T X).
      replace (map to_T pre ++ to_T X :: map to_T r) with (map to_T ((pre ++ [X]) ++ r))
        by (rewrite <- app_assoc, map_app; reflexivity).
      replace (Z.of_nat (length pre) + 1) with (Z.of_nat (length (pre ++ [X])))
        by (rewrite app_length; cbn [length]; lia).
      rewrite (IH (pre ++ [X]) mx lf rs) by (rewrite ?app_length; cbn [length] in *; lia).
      rewrite <- app_assoc. reflexivity.
Qed.

(* the loop of compile() over a freshly sorted slice writes exactly Model.run_max *)
Theorem gen_compile_running_max l mx :
  go_compile_loop1_run (map to_T l) mx = (GoNext, (map to_T (run_max mx l), last_max mx l)).
Proof.
  unfold go_compile_loop1_run. cbv zeta.
  pose proof (gen_compile_loop l [] mx (S (length (map to_T l))) (map to_T l)) as H.
  cbn [length app] in H. change (Z.of_nat 0) with 0 in H. apply H; rewrite map_length; lia.
Qed.

(* with exactly the budget contains_compiled gives its own search *)
Theorem gen_contains_search_model spans k : Z.of_nat (length spans) < 2 ^ 62 ->
  go_Set_Contains_loop1_run (S (length spans)) (map to_T spans) k 0 (Z.of_nat (length spans)) =
  (let r := bsearch (fun m => go_u128_lessEq (s_lo (nth m spans dummy_span)) k) (length spans) 0 (length spans) in
   (GoNext, (map to_T spans, k, Z.of_nat r, Z.of_nat r))).
Proof.
  intros H. rewrite gen_contains_search by exact H. cbv zeta.
  rewrite bsearch_fuel_irrelevant by lia. reflexivity.
Qed.

(* premises are satisfiable and the loops really run: three spans, a key in the middle *)
Example gen_loops_run :
  let u := fun x => mk_T_u128 0 x in
  let l := [mk_span (u 10%N) (u 20%N) (u 0%N); mk_span (u 15%N) (u 17%N) (u 0%N); mk_span (u 40%N) (u 50%N) (u 0%N)] in
  snd (go_compile_loop1_run (map to_T l) (u 0%N)) = (map to_T (run_max (u 0%N) l), u 50%N) /\
  fst (go_Set_Contains_loop1_run 4 (map to_T (run_max (u 0%N) l)) (u 18%N) 0 3) = GoNext /\
  snd (go_Set_Contains_loop1_run 4 (map to_T (run_max (u 0%N) l)) (u 18%N) 0 3) = (map to_T (run_max (u 0%N) l), u 18%N, 2, 2) /\
  fst (go_Set_Contains_loop1_run 1 (map to_T (run_max (u 0%N) l)) (u 18%N) 0 3) = GoOof.
Proof. vm_compute. repeat split. Qed.
