(* C17 — views.ServeDNS as a whole (Model.views_serve): the guards, first-match selection over the views in
   declaration order by the same containment rule as the access list, and the records of the selected view. *)
From Sdns Require Import Common.Base Common.GoList Gen.C17 C17.Model C17.Proofs_arith C17.Proofs_search C17.Run
     C17.Proofs_set C17.Proofs_writer C17.Proofs_views.
Open Scope N_scope.

Definition views_wf (views : list (list prefix * list vrec)) : Prop :=
  Forall (fun v => Forall (fun p => prefix_ok p = true) (fst v)) views.
(* what views.New builds: per view the compiled set of its parsable networks and its parsable records *)
Definition compiled_views (views : list (list prefix * list vrec)) : list (ipset * list vrec) :=
  map (fun v => (new_set (fst v), snd v)) views.

(* the view loop with containment read as the specification's per-prefix scan *)
Fixpoint ref_views_loop (views : list (list prefix * list vrec)) (a : addr) (q : list N) (t : N) (i : nat) : views_outcome :=
  match views with
  | [] => VNext
  | v :: rest =>
      if spec_contains (fst v) a then
        match view_answer (snd v) q t with [] => VNext | l => VAnswer i l end
      else ref_views_loop rest a q t (S i)
  end.

Lemma views_loop_ref views a q t : forall i, views_wf views -> addr_ok a ->
  views_loop (compiled_views views) a q t i = ref_views_loop views a q t i.
Proof.
  induction views as [|v rest IH]; intros i Hv Ha; cbn [compiled_views map views_loop ref_views_loop fst snd]; [reflexivity|].
  inversion Hv; subst. rewrite set_contains_exact by auto.
  destruct (spec_contains (fst v) a); cbn [negb]; [reflexivity|]. apply IH; auto.
Qed.

(* the whole handler: skipped for genuine sub-queries only; a transport without a client address passes;
   otherwise the view loop over the client's address *)
Lemma views_serve_exact_l views r q t :
  views_wf views -> (forall a, r_ip r = Some a -> addr_ok a) ->
  views_serve (compiled_views views) r q t =
  if spec_subquery r then VNext else
  match spec_client_ip r with Some a => ref_views_loop views a q t 0 | None => VNext end.
Proof.
  intros Hv Hok. destruct views as [|v rest].
  - cbn. destruct (spec_subquery r); [reflexivity|]. destruct (spec_client_ip r); reflexivity.
  - unfold views_serve. cbn [compiled_views map].
    rewrite (writer_internal_is_spec r Hok), writer_remote_ip_is_spec.
    destruct (spec_subquery r); [reflexivity|].
    destruct (spec_client_ip r) as [a|] eqn:Ea; [|reflexivity].
    assert (Ha : addr_ok a).
    { apply Hok. unfold spec_client_ip in Ea. destruct (r_kind r); try exact Ea; discriminate. }
    exact (views_loop_ref (v :: rest) a q t 0%nat Hv Ha).
Qed.

(* view i answers with records l exactly when i is the FIRST view (declaration order) whose networks contain
   the address, and l is the non-empty selection of that view's own records *)
Lemma ref_views_loop_answer views a q t : forall i0 i l,
  ref_views_loop views a q t i0 = VAnswer i l <->
  exists k v, i = (i0 + k)%nat /\ nth_error views k = Some v /\ spec_contains (fst v) a = true /\
              (forall j w, (j < k)%nat -> nth_error views j = Some w -> spec_contains (fst w) a = false) /\
              l = view_answer (snd v) q t /\ l <> [].
Proof.
  induction views as [|v rest IH]; intros i0 i l; cbn [ref_views_loop].
  - split; [discriminate|]. intros (k & w & _ & Hn & _). destruct k; discriminate.
  - destruct (spec_contains (fst v) a) eqn:C.
    + split.
      * intros H. exists 0%nat, v. destruct (view_answer (snd v) q t) as [|x xs] eqn:E; [discriminate|].
        inversion H; subst. repeat split; auto; try lia. discriminate.
      * intros (k & w & Hi & Hn & Hc & Hlt & Hl & Hne). destruct k as [|k].
        -- cbn in Hn. inversion Hn; subst w. subst l i. rewrite Nat.add_0_r.
           destruct (view_answer (snd v) q t); [congruence|reflexivity].
        -- specialize (Hlt 0%nat v ltac:(lia) eq_refl). congruence.
    + rewrite IH. split.
      * intros (k & w & Hi & Hn & Hc & Hlt & Hl & Hne). exists (S k), w. repeat split; auto; try lia.
        intros j u Hj Hu. destruct j as [|j]; [cbn in Hu; inversion Hu; subst u; exact C|].
        cbn in Hu. apply (Hlt j u); [lia|exact Hu].
      * intros (k & w & Hi & Hn & Hc & Hlt & Hl & Hne). destruct k as [|k].
        -- cbn in Hn. inversion Hn; subst w. congruence.
        -- exists k, w. repeat split; auto; try lia.
           intros j u Hj Hu. apply (Hlt (S j) u); [lia|exact Hu].
Qed.

Theorem views_answer_iff views r q t i l :
  views_wf views -> (forall a, r_ip r = Some a -> addr_ok a) ->
  views_serve (compiled_views views) r q t = VAnswer i l <->
  spec_subquery r = false /\
  exists a v, spec_client_ip r = Some a /\ nth_error views i = Some v /\ spec_contains (fst v) a = true /\
              (forall j w, (j < i)%nat -> nth_error views j = Some w -> spec_contains (fst w) a = false) /\
              l = view_answer (snd v) q t /\ l <> [].
Proof.
  intros Hv Hok. rewrite (views_serve_exact_l views r q t Hv Hok).
  destruct (spec_subquery r).
  - split; [discriminate|]. intros [H _]. discriminate.
  - destruct (spec_client_ip r) as [a|].
    + rewrite ref_views_loop_answer. cbn [Nat.add]. split.
      * intros (k & v & -> & H). split; [reflexivity|]. exists a, v. split; [reflexivity|exact H].
      * intros (_ & a' & v & Ha & H). inversion Ha; subst a'. exists i, v. split; [reflexivity|exact H].
    + split; [discriminate|]. intros (_ & a & v & Ha & _). discriminate.
Qed.

(* a view that contains the client but has no record for the question ends the search: the query falls
   through even when a LATER view contains the client too and holds a record *)
Theorem first_containing_view_decides_alone views r q t a i v :
  views_wf views -> (forall a, r_ip r = Some a -> addr_ok a) ->
  spec_client_ip r = Some a -> nth_error views i = Some v -> spec_contains (fst v) a = true ->
  (forall j w, (j < i)%nat -> nth_error views j = Some w -> spec_contains (fst w) a = false) ->
  views_serve (compiled_views views) r q t =
  if spec_subquery r then VNext else
  match view_answer (snd v) q t with [] => VNext | l => VAnswer i l end.
Proof.
  intros Hv Hok Ha Hn Hc Hlt. rewrite (views_serve_exact_l views r q t Hv Hok), Ha.
  destruct (spec_subquery r); [reflexivity|].
  assert (G : forall vs i0 k, nth_error vs k = Some v ->
              (forall j w, (j < k)%nat -> nth_error vs j = Some w -> spec_contains (fst w) a = false) ->
              ref_views_loop vs a q t i0 = match view_answer (snd v) q t with [] => VNext | l => VAnswer (i0 + k) l end).
  { induction vs as [|u rest IH]; intros i0 k Hk Hl; [destruct k; discriminate|].
    destruct k as [|k]; cbn [ref_views_loop].
    - cbn in Hk. inversion Hk; subst u. rewrite Hc, Nat.add_0_r. reflexivity.
    - rewrite (Hl 0%nat u ltac:(lia) eq_refl). rewrite (IH (S i0) k Hk).
      + replace (S i0 + k)%nat with (i0 + S k)%nat by lia. reflexivity.
      + intros j w Hj Hw. apply (Hl (S j) w); [lia|exact Hw]. }
  rewrite (G views 0%nat i Hn Hlt). reflexivity.
Qed.

(* no view contains the client: nothing is answered *)
Theorem uncontained_client_falls_through views r q t :
  views_wf views -> (forall a, r_ip r = Some a -> addr_ok a) ->
  (forall a, spec_client_ip r = Some a -> Forall (fun v => spec_contains (fst v) a = false) views) ->
  views_serve (compiled_views views) r q t = VNext.
Proof.
  intros Hv Hok Hnone. rewrite (views_serve_exact_l views r q t Hv Hok).
  destruct (spec_subquery r); [reflexivity|]. destruct (spec_client_ip r) as [a|]; [|reflexivity].
  specialize (Hnone a eq_refl). clear Hv. generalize 0%nat.
  induction Hnone as [|v rest Hc _ IH]; intros i0; cbn [ref_views_loop]; [reflexivity|]. rewrite Hc. apply IH.
Qed.

(* ---------------- the client-policy part of the default chain *)

(* one step of the walk, by what the head handler is (the walk is never unfolded over the whole list: every
   level holds three copies of the recursive call) *)
Lemma chain_walk_skip h rest acl views r q t :
  name_eqb h n_h_accesslist = false -> name_eqb h n_h_views = false -> name_eqb h cache_handler_name = false ->
  chain_walk (h :: rest) acl views r q t = chain_walk rest acl views r q t.
Proof. intros A B C. cbn [chain_walk]. rewrite A, B, C. reflexivity. Qed.
Lemma chain_walk_at_acl h rest acl views r q t :
  name_eqb h n_h_accesslist = true ->
  chain_walk (h :: rest) acl views r q t =
  match acl_serve_remote acl r with AclDrop => CDrop | AclNext => chain_walk rest acl views r q t end.
Proof. intros A. cbn [chain_walk]. rewrite A. reflexivity. Qed.
Lemma chain_walk_at_views h rest acl views r q t :
  name_eqb h n_h_accesslist = false -> name_eqb h n_h_views = true ->
  chain_walk (h :: rest) acl views r q t =
  match views_serve views r q t with VAnswer i l => CView i l | VNext => chain_walk rest acl views r q t end.
Proof. intros A B. cbn [chain_walk]. rewrite A, B. reflexivity. Qed.
Lemma chain_walk_at_cache h rest acl views r q t :
  name_eqb h n_h_accesslist = false -> name_eqb h n_h_views = false -> name_eqb h cache_handler_name = true ->
  chain_walk (h :: rest) acl views r q t = CResolve.
Proof. intros A B C. cbn [chain_walk]. rewrite A, B, C. reflexivity. Qed.

Ltac walk_skip := repeat (rewrite chain_walk_skip by (vm_compute; reflexivity)).

(* source-order tie: with the handler order gen.go has NOW, the walk is "access list, then views, then resolve" *)
Lemma chain_walk_is_serve acl views r q t :
  chain_walk handler_order acl views r q t = chain_serve acl views r q t.
Proof.
  unfold chain_serve, handler_order.
  walk_skip. rewrite chain_walk_at_acl by (vm_compute; reflexivity).
  destruct (acl_serve_remote acl r); [|reflexivity].
  walk_skip. rewrite chain_walk_at_views by (vm_compute; reflexivity).
  destruct (views_serve views r q t); [|reflexivity].
  walk_skip. rewrite chain_walk_at_cache by (vm_compute; reflexivity). reflexivity.
Qed.

(* a source outside the access list gets nothing - also when a view contains it and holds a record *)
Lemma chain_denied ne ps views r q t :
  Forall (fun p => prefix_ok p = true) ps -> (forall a, r_ip r = Some a -> addr_ok a) ->
  spec_allowed (acl_effective ne ps) r = false ->
  chain_walk handler_order (new_set (acl_effective ne ps)) (compiled_views views) r q t = CDrop.
Proof.
  intros Hps Hok Hd. rewrite chain_walk_is_serve. unfold chain_serve.
  rewrite (acl_remote_config_exact ne ps r Hps Hok), Hd. reflexivity.
Qed.

(* an admitted request: a genuine sub-query is resolved (no view answers it); a client is answered by the first
   view containing it that has a record, with no resolution, else resolved *)
Lemma chain_admitted ne ps views r q t :
  Forall (fun p => prefix_ok p = true) ps -> views_wf views -> (forall a, r_ip r = Some a -> addr_ok a) ->
  spec_allowed (acl_effective ne ps) r = true ->
  chain_walk handler_order (new_set (acl_effective ne ps)) (compiled_views views) r q t =
  if spec_subquery r then CResolve else
  match spec_client_ip r with
  | Some a => match ref_views_loop views a q t 0 with VAnswer i l => CView i l | VNext => CResolve end
  | None => CResolve
  end.
Proof.
  intros Hps Hv Hok Ha. rewrite chain_walk_is_serve. unfold chain_serve.
  rewrite (acl_remote_config_exact ne ps r Hps Hok), Ha, (views_serve_exact_l views r q t Hv Hok).
  destruct (spec_subquery r); [reflexivity|]. destruct (spec_client_ip r); reflexivity.
Qed.

(* ---------------- a resolver-internal sub-query against the client policy: two independent mechanisms *)

(* (1) the flag: a request whose writer is internal passes the access list and views in ANY pipeline, whatever
   handlers it holds and in whatever order, whatever the list and the views say *)
Lemma internal_walk_resolves order acl views r q t :
  writer_internal r = true -> chain_walk order acl views r q t = CResolve.
Proof.
  intros Hi. induction order as [|h rest IH]; [reflexivity|]. cbn [chain_walk].
  unfold acl_serve_remote, acl_serve, views_serve. rewrite Hi.
  destruct (name_eqb h n_h_accesslist); [exact IH|].
  destruct (name_eqb h n_h_views); [destruct views; exact IH|].
  destruct (name_eqb h cache_handler_name); [reflexivity|exact IH].
Qed.

(* (2) the pipeline: a pipeline that holds neither the access list nor views polices nobody - whoever asks *)
Lemma policy_free_walk_resolves order acl views r q t :
  policy_free order = true -> chain_walk order acl views r q t = CResolve.
Proof.
  unfold policy_free. induction order as [|h rest IH]; intros Hf; [reflexivity|].
  cbn [forallb] in Hf. apply andb_true_iff in Hf. destruct Hf as [Hh Hr]. apply andb_true_iff in Hh. destruct Hh as [A B].
  apply negb_true_iff in A. apply negb_true_iff in B. cbn [chain_walk]. rewrite A, B.
  destruct (name_eqb h cache_handler_name); [reflexivity|exact (IH Hr)].
Qed.

Lemma sub_orders_policy_free via : policy_free (sub_order handler_order via) = true.
Proof. unfold sub_order. destruct (via =? 0); vm_compute; reflexivity. Qed.

(* both hold for the sub-query pipelines the source builds NOW and the writer Queryer.Query installs: the sub-query
   is resolved for every access list, every view configuration and every question *)
Lemma subquery_walk_resolves via acl views q t :
  subquery_walk handler_order via acl views q t = CResolve.
Proof. unfold subquery_walk. apply policy_free_walk_resolves, sub_orders_policy_free. Qed.
Lemma subquery_never_policed via acl views q t :
  subquery_walk handler_order via acl views q t = CResolve /\
  policy_free (sub_order handler_order via) = true /\ writer_internal subquery_remote = true.
Proof. split; [apply subquery_walk_resolves|]. split; [apply sub_orders_policy_free|apply subquery_internal]. Qed.
