(* C17 — access control: executable model of internal/ipset (compile +
   stabbing query), accesslist decision, view selection and the
   sub-pipeline filter.  Definitions only; proofs are in Proofs.v.

   [go_ones] and [go_u128_lessEq] come from Gen/C17.v, translated from the
   Go source on every run; everything else is written by hand from
   internal/ipset/ipset.go and tied to the code by the correspondence
   driver (harness/overlay/internal/ipset/zz_verif_c17_test.go). *)
From Sdns Require Import Common.Base Common.GoList Gen.C17.
Open Scope N_scope.

(* an address as a number *)
Definition uval (a : T_u128) : N := T_u128_hi a * two64 + T_u128_lo a.
Definition u128_wf (a : T_u128) : Prop := T_u128_hi a < two64 /\ T_u128_lo a < two64.
Definition of_val (v : N) : T_u128 := mk_T_u128 (v / two64) (v mod two64).

Record span := mk_span { s_lo : T_u128; s_hi : T_u128; s_max : T_u128 }.

(* a parsed prefix: family, address (already a number), prefix length *)
Record prefix := mk_prefix { p_is4 : bool; p_addr : N; p_bits : Z }.
Definition width (is4 : bool) : Z := if is4 then 32%Z else 128%Z.
Definition prefix_ok (p : prefix) : bool :=
  (0 <=? p_bits p)%Z && (p_bits p <=? width (p_is4 p))%Z && (p_addr p <? 2 ^ Z.to_N (width (p_is4 p))).

(* netip.Prefix.Masked: clear the host bits *)
Definition masked (p : prefix) : N :=
  let host := Z.to_N (width (p_is4 p) - p_bits p) in
  p_addr p - p_addr p mod 2 ^ host.

(* ipset.bounds, statement by statement *)
Definition bounds (p : prefix) : T_u128 * T_u128 :=
  let lo := of_val (masked p) in
  let w := width (p_is4 p) in
  let host := (w - p_bits p)%Z in
  if (w =? 32)%Z || (host <? 64)%Z
  then (lo, mk_T_u128 (T_u128_hi lo) (N.lor (T_u128_lo lo) (go_ones host)))
  else (lo, mk_T_u128 (N.lor (T_u128_hi lo) (go_ones (host - 64))) (two64 - 1)).

Definition span_of (p : prefix) : span :=
  let '(lo, hi) := bounds p in mk_span lo hi (mk_T_u128 0 0).

(* sort.Slice with the comparison of compile(): strictly-less on lo.  Go's
   sort is not stable; the model uses insertion sort and the theorems are
   stated for every sorted permutation. *)
Definition lo_lt (a b : span) : bool :=
  if negb (T_u128_hi (s_lo a) =? T_u128_hi (s_lo b))
  then T_u128_hi (s_lo a) <? T_u128_hi (s_lo b)
  else T_u128_lo (s_lo a) <? T_u128_lo (s_lo b).
Fixpoint insert_span (x : span) (l : list span) : list span :=
  match l with
  | [] => [x]
  | y :: ys => if lo_lt y x then y :: insert_span x ys else x :: l
  end.
Definition sort_spans (l : list span) : list span := fold_right insert_span [] l.

(* the running maximum loop of compile() *)
Fixpoint run_max (mx : T_u128) (l : list span) : list span :=
  match l with
  | [] => []
  | s :: r =>
      let mx' := if go_u128_lessEq mx (s_hi s) then s_hi s else mx in
      mk_span (s_lo s) (s_hi s) mx' :: run_max mx' r
  end.
Definition compile (l : list span) : list span := run_max (mk_T_u128 0 0) (sort_spans l).

(* the hand-written binary search of Contains; fuel = len(spans) suffices *)
Fixpoint bsearch (f : nat -> bool) (fuel i j : nat) : nat :=
  match fuel with
  | O => i
  | S fuel' =>
      if (i <? j)%nat then
        let m := Nat.div2 (i + j) in
        if f m then bsearch f fuel' (S m) j else bsearch f fuel' i m
      else i
  end.
Definition dummy_span : span := mk_span (mk_T_u128 0 0) (mk_T_u128 0 0) (mk_T_u128 0 0).
Definition contains_compiled (spans : list span) (k : T_u128) : bool :=
  match spans with
  | [] => false
  | _ =>
      let i := bsearch (fun m => go_u128_lessEq (s_lo (nth m spans dummy_span)) k) (length spans) 0 (length spans) in
      match i with
      | O => false
      | S i' => go_u128_lessEq k (s_max (nth i' spans dummy_span))
      end
  end.

(* a Set: two compiled families; Contains with 4-in-6 unmapping *)
Record ipset := mk_ipset { set_v4 : list span; set_v6 : list span }.
Definition new_set (ps : list prefix) : ipset :=
  mk_ipset (compile (map span_of (filter p_is4 ps)))
           (compile (map span_of (filter (fun p => negb (p_is4 p)) ps))).

(* an address as the driver reports it: 16 bytes as a number + "is 4 byte form" *)
Record addr := mk_addr { a_is4 : bool; a_val : N }.
Definition mapped_prefix : N := 0xffff * 2 ^ 32.           (* ::ffff:0:0/96 *)
Definition is4in6 (a : addr) : bool := negb (a_is4 a) && (a_val a / 2 ^ 32 =? 0xffff).
Definition unmap (a : addr) : addr := if is4in6 a then mk_addr true (a_val a mod 2 ^ 32) else a.
Definition key (a : addr) : T_u128 := if a_is4 a then mk_T_u128 0 (a_val a) else of_val (a_val a).
Definition set_contains (s : ipset) (a : addr) : bool :=
  let a := unmap a in
  contains_compiled (if a_is4 a then set_v4 s else set_v6 s) (key a).

(* -------- specification: "the address lies in at least one configured CIDR" *)
Definition in_prefix (p : prefix) (a : addr) : bool :=
  let a := unmap a in
  Bool.eqb (p_is4 p) (a_is4 a) &&
  (let host := Z.to_N (width (p_is4 p) - p_bits p) in a_val a / 2 ^ host =? p_addr p / 2 ^ host).
Definition spec_contains (ps : list prefix) (a : addr) : bool := existsb (fun p => in_prefix p a) ps.

(* -------- handlers *)
(* accesslist.ServeDNS: what happens to a request *)
Inductive acl_outcome := AclNext | AclDrop.
Definition acl_serve (s : ipset) (internal : bool) (src : option addr) : acl_outcome :=
  if internal then AclNext else
  match src with
  | None => AclDrop                 (* ContainsIP of an invalid net.IP is false *)
  | Some a => if set_contains s a then AclNext else AclDrop
  end.

(* -------- who is "internal": middleware.responseWriter.Reset, statement by statement.
   A transport reports its peer as a net.Addr; Reset looks at the dynamic type
   (net.UDPAddr: UDP, DoQ; net.TCPAddr: TCP, DoT, the DoH/DoH3 mock writer, the
   sub-query BufferWriter; anything else: no address at all), the IP bytes, the port,
   and at an optional Internal() method of the transport.  The IP is the driver's
   [option addr]: None = nil / not 4 or 16 bytes; a_is4 = the 4-byte form. *)
Inductive addr_kind := KUdp | KTcp | KOther.
Record remote := mk_remote {
  r_kind : addr_kind;
  r_ip : option addr;
  r_port : Z;
  r_says : option bool          (* the transport's own Internal(), when it has the method *)
}.
(* var internalIP = net.IPv4(a, b, c, d) — octets read from the source (Gen/C17.v) *)
Definition sentinel_v4 : N := ((sentinel_o0 * 256 + sentinel_o1) * 256 + sentinel_o2) * 256 + sentinel_o3.
(* net.IP.Equal(internalIP): the 4-byte form or the 16-byte IPv4-mapped form of the same address *)
Definition ip_is_sentinel (ip : option addr) : bool :=
  match ip with
  | None => false
  | Some a => if a_is4 a then a_val a =? sentinel_v4 else a_val a =? mapped_prefix + sentinel_v4
  end.
(* the switch over the address type: w.remoteip, w.internal *)
Definition writer_remote_ip (r : remote) : option addr :=
  match r_kind r with KUdp | KTcp => r_ip r | KOther => None end.
Definition sentinel_remote (r : remote) : bool :=
  match r_kind r with
  | KUdp | KTcp => (r_port r =? 0)%Z && ip_is_sentinel (r_ip r)
  | KOther => false
  end.
(* ... then: if w.internal { return }; if the transport has Internal(), take what it says *)
Definition writer_internal (r : remote) : bool :=
  if sentinel_remote r then true else match r_says r with Some b => b | None => false end.
(* internal/mock.NewWriter (the DoH / DoH3 writer): the same two-arm rule with its own copy of the
   sentinel (octets read from the source) *)
Definition mock_sentinel_v4 : N :=
  ((mock_sentinel_o0 * 256 + mock_sentinel_o1) * 256 + mock_sentinel_o2) * 256 + mock_sentinel_o3.
Definition transport_says (r : remote) : bool :=
  match r_kind r with
  | KUdp | KTcp =>
      (r_port r =? 0)%Z &&
      match r_ip r with
      | None => false
      | Some a => if a_is4 a then a_val a =? mock_sentinel_v4 else a_val a =? mapped_prefix + mock_sentinel_v4
      end
  | KOther => false
  end.
(* the writer Queryer.Query installs for a resolver-internal sub-query (middleware.BufferWriter):
   bufferRemoteAddr octets / port and Internal() read from the source *)
Definition buffer_remote_v4 : N := ((buffer_o0 * 256 + buffer_o1) * 256 + buffer_o2) * 256 + buffer_o3.
Definition subquery_remote : remote :=
  (* net.IPv4(..) is the 16-byte IPv4-mapped form *)
  mk_remote KTcp (Some (mk_addr false (mapped_prefix + buffer_remote_v4))) buffer_remote_port
            (Some true).   (* BufferWriter.Internal(): [forall w, go_BufferWriter_Internal w = true], Proofs_writer *)
(* accesslist.ServeDNS as the chain runs it: Internal() and RemoteIP() of the chain's writer *)
Definition acl_serve_remote (s : ipset) (r : remote) : acl_outcome :=
  acl_serve s (writer_internal r) (writer_remote_ip r).

(* accesslist.New: an EMPTY configured list means the open default (0.0.0.0/0, ::/0);
   a non-empty list whose entries all fail to parse stays empty = deny everything *)
Definition acl_effective (n_entries : N) (ps : list prefix) : list prefix :=
  if n_entries =? 0 then [mk_prefix true 0 0%Z; mk_prefix false 0 0%Z] else ps.

(* views: index of the first view whose networks contain the client *)
Fixpoint first_view (views : list ipset) (a : addr) (i : nat) : option nat :=
  match views with
  | [] => None
  | v :: r => if set_contains v a then Some i else first_view r a (S i)
  end.

(* views.ServeDNS as the chain runs it: no views or an internal writer -> next; no client IP ->
   next; otherwise the first view containing the client decides (it answers iff it has a record) *)
Definition view_serve_remote (views : list (ipset * bool)) (r : remote) : option nat :=
  if writer_internal r then None else
  match writer_remote_ip r with
  | None => None
  | Some a =>
      match first_view (map fst views) a 0 with
      | Some i => if snd (nth i views (mk_ipset [] [], false)) then Some i else None
      | None => None
      end
  end.

(* Pipeline.SubPipeline(skip...) / autoWire *)
Definition name_eqb (a b : list N) : bool :=
  (length a =? length b)%nat && forallb (fun xy => fst xy =? snd xy) (combine a b).
Definition mem_name (n : list N) (l : list (list N)) : bool := existsb (name_eqb n) l.
Definition sub_pipeline (handlers skip : list (list N)) : list (list N) :=
  filter (fun h => negb (mem_name h skip)) handlers.
Definition queryer_sub (handlers : list (list N)) : list (list N) := sub_pipeline handlers client_only.
Definition prefetch_sub (handlers : list (list N)) : list (list N) :=
  sub_pipeline handlers (client_only ++ [cache_handler_name]).

(* -------- what else an internal request skips: the per-client rate limiter.
   ratelimit.ServeDNS entry guards in their order (after the replay pass-through): Internal(),
   rate = 0, no peer address, loopback peer (net.IP.IsLoopback: 127/8 for an address with an IPv4
   form, ::1 otherwise); everything else is charged against its source's bucket. *)
Definition is_loopback (a : addr) : bool :=
  let u := unmap a in if a_is4 u then a_val u / 2 ^ 24 =? 127 else a_val u =? 1.
Definition rl_charged (rate : N) (r : remote) : bool :=
  if writer_internal r then false else
  if rate =? 0 then false else
  match writer_remote_ip r with
  | None => false
  | Some a => negb (is_loopback a)
  end.
(* a flood of n cookie-less queries from one remote whose bucket is fresh, faster than the refill
   (rate per minute, burst = rate): how many pass the limiter *)
Definition flood_answered (rate n : N) (r : remote) : N := if rl_charged rate r then N.min n rate else n.
(* a flood of n sub-queries through an internal sub-pipeline (via 0 = the queryer's, 1 = the
   prefetch queryer's): the limiter only sees them if it is in that sub-pipeline at all, and then
   it sees the sub-query writer *)
Definition n_ratelimit_name : list N := [114;97;116;101;108;105;109;105;116].
Definition sub_flood_answered (handlers : list (list N)) (via rate n : N) : N :=
  let sub := if via =? 0 then queryer_sub handlers else prefetch_sub handlers in
  if mem_name n_ratelimit_name sub then flood_answered rate n subquery_remote else n.

(* -------- which records a matched view serves: the loop over cv.answers of views.ServeDNS, statement by
   statement ([go_nameMatches] is views.nameMatches as translated from the source; names are octet
   strings, ASCII). Records are numbered in configuration order; the result is the list of the indices
   served, in order: the exact-owner matches if there are any, else the wildcard matches whose owner has
   the longest suffix seen (bestWildSuffix starts at 0). *)

Definition vrec := (list N * N)%type.
Definition wildcard_owner (o : list N) : bool := go_has_prefix N.eqb o [42; 46].
Definition rec_matches (qname : list N) (qtype : N) (rr : vrec) : bool :=
  (snd rr =? qtype) && go_nameMatches (go_canonical_name_ascii (fst rr)) qname.
Fixpoint view_select (answers : list vrec) (qname : list N) (qtype : N) (i : nat)
         (exact wild : list nat) (best : Z) : list nat * list nat :=
  match answers with
  | [] => (exact, wild)
  | rr :: rest =>
      if negb (snd rr =? qtype) then view_select rest qname qtype (S i) exact wild best else
      let owner := go_canonical_name_ascii (fst rr) in
      if negb (go_nameMatches owner qname) then view_select rest qname qtype (S i) exact wild best else
      if negb (wildcard_owner owner) then view_select rest qname qtype (S i) (exact ++ [i]) wild best else
      let sl := (go_len owner - 2)%Z in
      if (best <? sl)%Z then view_select rest qname qtype (S i) exact [i] sl
      else if (sl =? best)%Z then view_select rest qname qtype (S i) exact (wild ++ [i]) best
      else view_select rest qname qtype (S i) exact wild best
  end.
Definition view_answer (answers : list vrec) (qname : list N) (qtype : N) : list nat :=
  let '(e, w) := view_select answers (go_canonical_name_ascii qname) qtype 0 [] [] 0%Z in
  match e with [] => w | _ => e end.
Definition view_has_record (answers : list vrec) (qname : list N) (qtype : N) : bool :=
  match view_answer answers qname qtype with [] => false | _ => true end.


(* -------- views.ServeDNS as a whole (session 4): the guards, the loop over v.views in declaration order and,
   inside the first view whose networks contain the client, the record selection above. Outcome: the query
   goes on down the chain (no views / internal writer / no client address / no view contains the client /
   the FIRST containing view has no record for the question: `break`), or view i answers with these records.
   A later view is never consulted once one contained the client. *)
Inductive views_outcome := VNext | VAnswer (view : nat) (recs : list nat).
Fixpoint views_loop (views : list (ipset * list vrec)) (a : addr) (qname : list N) (qtype : N) (i : nat) : views_outcome :=
  match views with
  | [] => VNext
  | cv :: rest =>
      if negb (set_contains (fst cv) a) then views_loop rest a qname qtype (S i) else   (* continue *)
      match view_answer (snd cv) qname qtype with
      | [] => VNext                                                                      (* break *)
      | l => VAnswer i l
      end
  end.
Definition views_serve (views : list (ipset * list vrec)) (r : remote) (qname : list N) (qtype : N) : views_outcome :=
  match views with
  | [] => VNext
  | _ =>
      if writer_internal r then VNext else
      match writer_remote_ip r with
      | None => VNext
      | Some a => views_loop views a qname qtype 0
      end
  end.

(* -------- the client-policy part of the default chain (session 4): one client query for a name no handler in
   between knows, as a walk over the handler order read from gen.go. The access list cancels or passes;
   views answers or passes; every other handler ahead of the cache passes such a query on; at the cache
   the walk ends: the query is resolved (or answered from the cache). *)
Inductive chain_outcome := CDrop | CView (view : nat) (recs : list nat) | CResolve.
Definition n_h_accesslist : list N := [97;99;99;101;115;115;108;105;115;116].
Definition n_h_views : list N := [118;105;101;119;115].
Fixpoint chain_walk (order : list (list N)) (acl : ipset) (views : list (ipset * list vrec)) (r : remote)
         (qname : list N) (qtype : N) : chain_outcome :=
  match order with
  | [] => CResolve
  | h :: rest =>
      if name_eqb h n_h_accesslist then
        match acl_serve_remote acl r with
        | AclDrop => CDrop
        | AclNext => chain_walk rest acl views r qname qtype
        end
      else if name_eqb h n_h_views then
        match views_serve views r qname qtype with
        | VAnswer i l => CView i l
        | VNext => chain_walk rest acl views r qname qtype
        end
      else if name_eqb h cache_handler_name then CResolve
      else chain_walk rest acl views r qname qtype
  end.
(* what the walk amounts to when the access list runs ahead of views and views ahead of the cache *)
Definition chain_serve (acl : ipset) (views : list (ipset * list vrec)) (r : remote) (qname : list N) (qtype : N) : chain_outcome :=
  match acl_serve_remote acl r with
  | AclDrop => CDrop
  | AclNext => match views_serve views r qname qtype with VAnswer i l => CView i l | VNext => CResolve end
  end.

(* -------- a resolver-internal sub-query as a walk (session 5): Queryer.Query binds a chain over the internal
   sub-pipeline autoWire built for it (via 0: the queryer's = the handler order minus the ClientOnly handlers;
   via 1: the prefetch queryer's = that minus the cache) to the sub-query writer and runs it. *)
Definition sub_order (order : list (list N)) (via : N) : list (list N) :=
  if via =? 0 then queryer_sub order else prefetch_sub order.
Definition subquery_walk (order : list (list N)) (via : N) (acl : ipset) (views : list (ipset * list vrec))
           (qname : list N) (qtype : N) : chain_outcome :=
  chain_walk (sub_order order via) acl views subquery_remote qname qtype.
(* a pipeline that holds neither the access list nor views *)
Definition policy_free (order : list (list N)) : bool :=
  forallb (fun h => negb (name_eqb h n_h_accesslist) && negb (name_eqb h n_h_views)) order.
