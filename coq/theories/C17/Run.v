(* C17 — correspondence: case type and the two checkers evaluated with
   vm_compute on the observations the Go drivers recorded.
   check_case: the model computes what the implementation did.
   spec_case : what the implementation did satisfies the specification. *)
From Sdns Require Export Common.Base Common.GoList Gen.C17 C17.Model.
Open Scope N_scope.

Inductive case :=
  (* parsed (good) prefixes of the configured list; probes with ipset.Contains result *)
| CaseSet (ps : list prefix) (probes : list (addr * bool))
  (* responseWriter.Reset through Chain.Reset / Chain.ResetWire on a transport reporting this
     remote: what the chain's writer then says for Internal() and RemoteIP() *)
| CaseWriter (r : remote) (internal : bool) (remote_ip : option addr)
  (* the writer Queryer.Query really installs for a sub-query, as a handler of the sub-pipeline
     sees it: the transport's remote and the chain writer's Internal() *)
| CaseSubquery (r : remote) (internal : bool)
  (* a transport that computes its own Internal() from its peer address (internal/mock.Writer: what
     server.ServeHTTP builds for every DoH / DoH3 request): the remote it reports, incl. what it says *)
| CaseTransportSays (r : remote)
  (* access list through the real handler, the chain's writer bound to a transport reporting
     this remote: outcome 0 = Next called and nothing written,
     1 = cancelled: Next not called and nothing written, anything else = something else *)
| CaseAcl (n_entries : N) (ps : list prefix) (r : remote) (outcome : N)
  (* views: per view its prefixes; which view index answered (None: fell through) *)
| CaseView (views : list (list prefix * bool)) (r : remote) (answered : option nat)
  (* SubPipeline(skip...) on a pipeline with these handler names: resulting names *)
| CaseSub (handlers skip result : list (list N))
  (* the real default chain (everything ahead of the resolver) with a counting stand-in for
     the resolver: path 0 = wire fast path, 1 = decoded UDP, 2 = decoded TCP; the queried
     name was / was not already cached; did the client get a reply; resolver invocations *)
| CaseChain (n_entries : N) (ps : list prefix) (r : remote) (path : N) (cached replied : bool) (resolver_calls : N)
  (* a burst of n high-amplification queries from one source through the same chain: was any
     of them answered; resolver invocations over the burst *)
| CaseChainBurst (n_entries : N) (ps : list prefix) (r : remote) (n : N) (any_reply : bool) (resolver_calls : N)
  (* the same chain with the per-client rate limit set to [rate] per minute: a flood of n cookie-less
     queries for distinct cold names from one remote with a fresh bucket, faster than the refill:
     how many were answered, resolver invocations *)
| CaseChainFlood (n_entries : N) (ps : list prefix) (rate : N) (r : remote) (path n answered resolver_calls : N)
  (* a flood of n sub-queries through the queryer (via 0) / prefetch queryer (via 1) that autoWire
     injected into a handler of that chain (rate limit and reflex block mode on): how many answered *)
| CaseSubFlood (via rate n answered : N)
  (* one view covering the client, these records (owner as parsed, type), this question: the indices of
     the records served, in order ([] = the view had no record and the query fell through) *)
| CaseViewRecords (answers : list vrec) (qname : list N) (qtype : N) (served : list nat)
  (* the whole views handler: per view its networks and its records, the transport's remote, the question:
     which view answered with which of ITS records, in order (None: the query went on down the chain) *)
| CaseViewsFull (views : list (list prefix * list vrec)) (r : remote) (qname : list N) (qtype : N)
                (answered : option (nat * list nat))
  (* the real default chain with views configured (counting stand-in for the resolver): one query over transport
     path [path] for a name that was / was not resolved before: which view answered with which records (None:
     no view did), did the client get a reply, resolver invocations *)
| CaseChainView (n_entries : N) (ps : list prefix) (views : list (list prefix * list vrec)) (r : remote) (path : N)
                (qname : list N) (qtype : N) (cached : bool) (answered : option (nat * list nat)) (replied : bool)
                (resolver_calls : N)
  (* the same chain (access list + views configured): ONE genuine sub-query through the queryer (via 0) / prefetch
     queryer (via 1) autoWire injected into a handler of that chain; the name was / was not resolved before: which
     view answered (None: no view did), did the sub-query get a response, resolver invocations *)
| CaseSubChain (via n_entries : N) (ps : list prefix) (views : list (list prefix * list vrec))
               (qname : list N) (qtype : N) (cached : bool) (answered : option (nat * list nat)) (replied : bool)
               (resolver_calls : N).

Definition all_ok (ps : list prefix) : bool := forallb prefix_ok ps.

Definition opt_nat_eqb (a b : option nat) : bool :=
  match a, b with
  | None, None => true
  | Some x, Some y => (x =? y)%nat
  | _, _ => false
  end.
Definition addr_eqb (a b : addr) : bool := Bool.eqb (a_is4 a) (a_is4 b) && (a_val a =? a_val b).
Definition opt_addr_eqb (a b : option addr) : bool :=
  match a, b with
  | None, None => true
  | Some x, Some y => addr_eqb x y
  | _, _ => false
  end.
Definition kind_eqb (a b : addr_kind) : bool :=
  match a, b with KUdp, KUdp | KTcp, KTcp | KOther, KOther => true | _, _ => false end.
Definition opt_bool_eqb (a b : option bool) : bool :=
  match a, b with
  | None, None => true
  | Some x, Some y => Bool.eqb x y
  | _, _ => false
  end.
Definition remote_eqb (a b : remote) : bool :=
  kind_eqb (r_kind a) (r_kind b) && opt_addr_eqb (r_ip a) (r_ip b) && (r_port a =? r_port b)%Z &&
  opt_bool_eqb (r_says a) (r_says b).

(* -------- specification of "resolver-internal sub-query", written without the model and without
   the constants read from the source: the transport itself declares the request internal, or it
   carries the sub-query pipeline's signature — a stream/datagram peer 127.0.0.255 (plain or
   IPv4-mapped) with port 0, which no client socket has.  Everything else is a client and its
   address is the peer address the transport reports (none for a foreign address type). *)
Definition spec_subquery (r : remote) : bool :=
  match r_says r with
  | Some true => true
  | _ =>
      match r_kind r, r_ip r with
      | KOther, _ => false
      | _, None => false
      | _, Some a => (r_port r =? 0)%Z && a_is4 (unmap a) && (a_val (unmap a) =? 2130706687)
      end
  end.
Definition spec_client_ip (r : remote) : option addr :=
  match r_kind r with KOther => None | _ => r_ip r end.
Definition spec_loopback (a : addr) : bool :=
  let u := unmap a in
  if a_is4 u then (2130706432 <=? a_val u) && (a_val u <? 2147483648) else a_val u =? 1.
Definition spec_allowed (ps : list prefix) (r : remote) : bool :=
  spec_subquery r || match spec_client_ip r with Some a => spec_contains ps a | None => false end.

Fixpoint nats_eqb (a b : list nat) : bool :=
  match a, b with
  | [], [] => true
  | x :: xs, y :: ys => (x =? y)%nat && nats_eqb xs ys
  | _, _ => false
  end.
(* specification of the records a view serves, written without the model's loop: among the records of
   the asked type whose owner covers the name — a plain owner covers exactly itself; "*.S" covers every
   name strictly below S — the plain-owner ones if any, otherwise the wildcards with the longest owner *)
Definition spec_is_wild (o : list N) : bool := match o with 42 :: 46 :: _ => true | _ => false end.
Definition spec_covers (o q : list N) : bool :=
  match o with
  | 42 :: 46 :: s =>
      (length s <? length q)%nat && go_list_eqb N.eqb (skipn (length q - length s) q) s &&
      (nth (length q - length s - 1) q 0 =? 46)
  | _ => go_list_eqb N.eqb o q
  end.
Definition spec_view_answer (answers : list vrec) (qname : list N) (qtype : N) : list nat :=
  let q := go_canonical_name_ascii qname in
  let idx := combine (seq 0 (length answers)) (map (fun rr => (go_canonical_name_ascii (fst rr), snd rr)) answers) in
  let m := filter (fun p => (snd (snd p) =? qtype) && spec_covers (fst (snd p)) q) idx in
  match filter (fun p => negb (spec_is_wild (fst (snd p)))) m with
  | [] =>
      let wl := filter (fun p => spec_is_wild (fst (snd p))) m in
      let mx := fold_left Nat.max (map (fun p => length (fst (snd p))) wl) 0%nat in
      map fst (filter (fun p => (length (fst (snd p)) =? mx)%nat) wl)
  | ex => map fst ex
  end.

Fixpoint names_eqb (a b : list (list N)) : bool :=
  match a, b with
  | [], [] => true
  | x :: xs, y :: ys => name_eqb x y && names_eqb xs ys
  | _, _ => false
  end.

Fixpoint spec_first_view (views : list (list prefix * bool)) (a : addr) (i : nat) : option nat :=
  match views with
  | [] => None
  | v :: r => if spec_contains (fst v) a then (if snd v then Some i else None) else spec_first_view r a (S i)
  end.

(* specification of the whole views handler, without the model: a genuine sub-query and a transport without a
   client address pass; otherwise the first view (declaration order) whose networks contain the client
   decides alone: it answers with the records [spec_view_answer] picks, or — having none — lets the query
   fall through, whatever later views hold *)
Fixpoint spec_views_pick (views : list (list prefix * list vrec)) (a : addr) (qname : list N) (qtype : N) (i : nat)
  : option (nat * list nat) :=
  match views with
  | [] => None
  | v :: rest =>
      if spec_contains (fst v) a then
        match spec_view_answer (snd v) qname qtype with [] => None | l => Some (i, l) end
      else spec_views_pick rest a qname qtype (S i)
  end.
Definition outcome_eqb (o : views_outcome) (obs : option (nat * list nat)) : bool :=
  match o, obs with
  | VNext, None => true
  | VAnswer i l, Some (j, m) => (i =? j)%nat && nats_eqb l m
  | _, _ => false
  end.
Definition opt_pick_eqb (a b : option (nat * list nat)) : bool :=
  match a, b with
  | None, None => true
  | Some (i, l), Some (j, m) => (i =? j)%nat && nats_eqb l m
  | _, _ => false
  end.

Definition check_case (c : case) : bool :=
  match c with
  | CaseSet ps probes =>
      all_ok ps && let s := new_set ps in forallb (fun pr => Bool.eqb (set_contains s (fst pr)) (snd pr)) probes
  | CaseWriter r internal rip =>
      Bool.eqb (writer_internal r) internal && opt_addr_eqb (writer_remote_ip r) rip
  | CaseSubquery r internal => remote_eqb r subquery_remote && Bool.eqb (writer_internal r) internal
  | CaseTransportSays r => opt_bool_eqb (r_says r) (Some (transport_says r))
  | CaseAcl ne ps r outcome =>
      all_ok ps && match acl_serve_remote (new_set (acl_effective ne ps)) r with AclNext => outcome =? 0 | AclDrop => outcome =? 1 end
  | CaseView views r answered =>
      forallb (fun v => all_ok (fst v)) views &&
      opt_nat_eqb (view_serve_remote (map (fun v => (new_set (fst v), snd v)) views) r) answered
  | CaseSub handlers skip result => names_eqb (sub_pipeline handlers skip) result
  | CaseChain ne ps r path cached replied calls =>
      all_ok ps &&
      match acl_serve_remote (new_set (acl_effective ne ps)) r with
      (* a client that passes is answered: from the cache without resolution when the name is
         cached, else by exactly one resolution (what the cache does with a request flagged
         internal is not this property's business: only that it is let through) *)
      | AclNext => replied && (writer_internal r || (calls =? (if cached then 0 else 1)))
      | AclDrop => negb replied && (calls =? 0)
      end
  | CaseChainBurst ne ps r n any_reply calls =>
      all_ok ps &&
      match acl_serve_remote (new_set (acl_effective ne ps)) r with
      | AclNext => true
      | AclDrop => negb any_reply && (calls =? 0)
      end
  | CaseChainFlood ne ps rate r path n answered calls =>
      all_ok ps &&
      match acl_serve_remote (new_set (acl_effective ne ps)) r with
      | AclNext => (answered =? flood_answered rate n r) && (writer_internal r || (calls =? answered))
      | AclDrop => (answered =? 0) && (calls =? 0)
      end
  | CaseSubFlood via rate n answered => answered =? sub_flood_answered handler_order via rate n
  | CaseViewRecords answers qname qtype served => nats_eqb (view_answer answers qname qtype) served
  | CaseViewsFull views r qname qtype answered =>
      forallb (fun v => all_ok (fst v)) views &&
      outcome_eqb (views_serve (map (fun v => (new_set (fst v), snd v)) views) r qname qtype) answered
  | CaseChainView ne ps views r path qname qtype cached answered replied calls =>
      all_ok ps && forallb (fun v => all_ok (fst v)) views &&
      match chain_walk handler_order (new_set (acl_effective ne ps)) (map (fun v => (new_set (fst v), snd v)) views) r qname qtype with
      | CDrop => negb replied && (calls =? 0) && opt_pick_eqb None answered
      | CView i l => replied && (calls =? 0) && opt_pick_eqb (Some (i, l)) answered
      | CResolve => replied && opt_pick_eqb None answered && (writer_internal r || (calls =? (if cached then 0 else 1)))
      end
  | CaseSubChain via ne ps views qname qtype cached answered replied calls =>
      all_ok ps && forallb (fun v => all_ok (fst v)) views &&
      match subquery_walk handler_order via (new_set (acl_effective ne ps)) (map (fun v => (new_set (fst v), snd v)) views) qname qtype with
      | CDrop => negb replied && (calls =? 0) && opt_pick_eqb None answered
      | CView i l => replied && (calls =? 0) && opt_pick_eqb (Some (i, l)) answered
        (* resolved: one resolution; the queryer's sub-pipeline keeps the cache, so a name resolved before may cost none *)
      | CResolve => replied && opt_pick_eqb None answered && ((calls =? 1) || (cached && (via =? 0) && (calls =? 0)))
      end
  end.

Definition spec_case (c : case) : bool :=
  match c with
  | CaseSet ps probes => forallb (fun pr => Bool.eqb (spec_contains ps (fst pr)) (snd pr)) probes
  | CaseWriter r internal rip =>
      (* client policy is skipped for genuine sub-queries ONLY: on every transport address type *)
      Bool.eqb (spec_subquery r) internal && opt_addr_eqb (spec_client_ip r) rip
  | CaseSubquery r internal => internal && spec_subquery r
  | CaseTransportSays r =>
      (* such a transport declares internal exactly the sub-query signature, nothing else *)
      opt_bool_eqb (r_says r) (Some (spec_subquery (mk_remote (r_kind r) (r_ip r) (r_port r) None)))
  | CaseAcl ne ps r outcome =>
      if spec_allowed (acl_effective ne ps) r then outcome =? 0 else outcome =? 1
  | CaseView views r answered =>
      (* the first view (declaration order) whose networks contain the client decides:
         it answers if it has a record for the question, otherwise the query falls
         through; internal requests skip views *)
      opt_nat_eqb (if spec_subquery r then None else
                   match spec_client_ip r with Some a => spec_first_view views a 0 | None => None end) answered
  | CaseSub handlers skip result =>
      forallb (fun h => negb (mem_name h skip)) result &&
      names_eqb (filter (fun h => negb (mem_name h skip)) handlers) result
  | CaseChain ne ps r path cached replied calls =>
      (* outside the list: no reply and no resolution, on every path, cached or not;
         inside (or a genuine sub-query): a reply *)
      if spec_allowed (acl_effective ne ps) r then replied else negb replied && (calls =? 0)
  | CaseChainBurst ne ps r n any_reply calls =>
      if spec_allowed (acl_effective ne ps) r then true else negb any_reply && (calls =? 0)
  | CaseChainFlood ne ps rate r path n answered calls =>
      (* a genuine sub-query is never limited; a denied source gets nothing; an admitted client with
         a routable address is limited to its budget on every transport (loopback peers and peers
         without an address are outside what the property states: answered in full) *)
      if spec_subquery r then answered =? n
      else if negb (spec_allowed (acl_effective ne ps) r) then (answered =? 0) && (calls =? 0)
      else match spec_client_ip r with
           | Some a => if negb (rate =? 0) && negb (spec_loopback a) then answered =? N.min n rate else answered =? n
           | None => true
           end
  | CaseSubFlood via rate n answered => answered =? n
  | CaseViewRecords answers qname qtype served => nats_eqb (spec_view_answer answers qname qtype) served
  | CaseViewsFull views r qname qtype answered =>
      opt_pick_eqb (if spec_subquery r then None else
                    match spec_client_ip r with Some a => spec_views_pick views a qname qtype 0 | None => None end) answered
  | CaseChainView ne ps views r path qname qtype cached answered replied calls =>
      (* outside the access list: nothing, even when a view contains the source and holds a record; a genuine
         sub-query is let through and no view answers it; an admitted client is answered by its view without any
         resolution, or - no view answering - by the cache / exactly one resolution *)
      if negb (spec_allowed (acl_effective ne ps) r) then negb replied && (calls =? 0) && opt_pick_eqb None answered
      else if spec_subquery r then replied && opt_pick_eqb None answered
      else match match spec_client_ip r with Some a => spec_views_pick views a qname qtype 0 | None => None end with
           | Some p => replied && (calls =? 0) && opt_pick_eqb (Some p) answered
           | None => replied && opt_pick_eqb None answered && (calls =? (if cached then 0 else 1))
           end
  | CaseSubChain via ne ps views qname qtype cached answered replied calls =>
      (* a resolver-internal sub-query is never subjected to the access list or to views: whatever the list and the
         views say it gets its response, and not from a view *)
      replied && opt_pick_eqb None answered
  end.
