(* C17 — correspondence: case type and the two checkers evaluated with
   vm_compute on the observations the Go drivers recorded.
   check_case: the model computes what the implementation did.
   spec_case : what the implementation did satisfies the specification. *)
From Sdns Require Export Common.Base Gen.C17 C17.Model.
Open Scope N_scope.

Inductive case :=
  (* parsed (good) prefixes of the configured list; probes with ipset.Contains result *)
| CaseSet (ps : list prefix) (probes : list (addr * bool))
  (* access list through the real handler: outcome 0 = Next called and nothing written,
     1 = cancelled: Next not called and nothing written, anything else = something else *)
| CaseAcl (n_entries : N) (ps : list prefix) (internal : bool) (src : option addr) (outcome : N)
  (* views: per view its prefixes; which view index answered (None: fell through) *)
| CaseView (views : list (list prefix * bool)) (internal : bool) (src : addr) (answered : option nat)
  (* SubPipeline(skip...) on a pipeline with these handler names: resulting names *)
| CaseSub (handlers skip result : list (list N))
  (* the real default chain (everything ahead of the resolver) with a counting stand-in for
     the resolver: path 0 = wire fast path, 1 = decoded UDP, 2 = decoded TCP; the queried
     name was / was not already cached; did the client get a reply; resolver invocations *)
| CaseChain (n_entries : N) (ps : list prefix) (src : addr) (path : N) (cached replied : bool) (resolver_calls : N)
  (* a burst of n high-amplification queries from one source through the same chain: was any
     of them answered; resolver invocations over the burst *)
| CaseChainBurst (n_entries : N) (ps : list prefix) (src : addr) (n : N) (any_reply : bool) (resolver_calls : N).

Definition all_ok (ps : list prefix) : bool := forallb prefix_ok ps.

Definition opt_nat_eqb (a b : option nat) : bool :=
  match a, b with
  | None, None => true
  | Some x, Some y => (x =? y)%nat
  | _, _ => false
  end.
Fixpoint names_eqb (a b : list (list N)) : bool :=
  match a, b with
  | [], [] => true
  | x :: xs, y :: ys => name_eqb x y && names_eqb xs ys
  | _, _ => false
  end.

Fixpoint spec_first_view (views : list (list prefix * bool)) (a : addr) (i : nat) : option nat :=
  match views with
  | [] => None
  | v :: r => if spec_contains (fst v) a then (if snd v then Some i else None) else spec_first_view r a (S i)
  end.

Definition check_case (c : case) : bool :=
  match c with
  | CaseSet ps probes =>
      all_ok ps && let s := new_set ps in forallb (fun pr => Bool.eqb (set_contains s (fst pr)) (snd pr)) probes
  | CaseAcl ne ps internal src outcome =>
      all_ok ps && match acl_serve (new_set (acl_effective ne ps)) internal src with AclNext => outcome =? 0 | AclDrop => outcome =? 1 end
  | CaseView views internal src answered =>
      forallb (fun v => all_ok (fst v)) views &&
      opt_nat_eqb (if internal then None else
                   match first_view (map (fun v => new_set (fst v)) views) src 0 with
                   | Some i => if snd (nth i views ([], false)) then Some i else None
                   | None => None
                   end) answered
  | CaseSub handlers skip result => names_eqb (sub_pipeline handlers skip) result
  | CaseChain ne ps src path cached replied calls =>
      all_ok ps &&
      match acl_serve (new_set (acl_effective ne ps)) false (Some src) with
      | AclNext => replied && (calls =? (if cached then 0 else 1))
      | AclDrop => negb replied && (calls =? 0)
      end
  | CaseChainBurst ne ps src n any_reply calls =>
      all_ok ps &&
      match acl_serve (new_set (acl_effective ne ps)) false (Some src) with
      | AclNext => true
      | AclDrop => negb any_reply && (calls =? 0)
      end
  end.

Definition spec_case (c : case) : bool :=
  match c with
  | CaseSet ps probes => forallb (fun pr => Bool.eqb (spec_contains ps (fst pr)) (snd pr)) probes
  | CaseAcl ne ps internal src outcome =>
      let allowed := internal || match src with Some a => spec_contains (acl_effective ne ps) a | None => false end in
      if allowed then outcome =? 0 else outcome =? 1
  | CaseView views internal src answered =>
      (* the first view (declaration order) whose networks contain the client decides:
         it answers if it has a record for the question, otherwise the query falls
         through; internal requests skip views *)
      opt_nat_eqb (if internal then None else spec_first_view views src 0) answered
  | CaseSub handlers skip result =>
      forallb (fun h => negb (mem_name h skip)) result &&
      names_eqb (filter (fun h => negb (mem_name h skip)) handlers) result
  | CaseChain ne ps src path cached replied calls =>
      (* outside the list: no reply and no resolution, on every path, cached or not;
         inside: a reply *)
      if spec_contains (acl_effective ne ps) src then replied else negb replied && (calls =? 0)
  | CaseChainBurst ne ps src n any_reply calls =>
      if spec_contains (acl_effective ne ps) src then true else negb any_reply && (calls =? 0)
  end.
