(* C17 - the record selection of a view: the model's loop (Model.view_answer, built on views.nameMatches as translated
   from the source) computes what the INDEPENDENT specification oracle of Run.v (spec_view_answer: its own cover test
   by skipn / nth, its own wildcard test, lengths and a maximum) says - for every record list whose owners are fully
   qualified (what dns.NewRR hands views.New) and every question. *)
From Sdns Require Import Common.Base Common.GoList Gen.C17 C17.Model C17.Run C17.Proofs_views C17.Proofs_closest.
Open Scope N_scope.

Ltac all_bits := repeat (match goal with p : positive |- _ => destruct p as [p|p|]; try reflexivity end).

Lemma spec_is_wild_is o : spec_is_wild o = wildcard_owner o.
Proof.
  unfold wildcard_owner, go_has_prefix. destruct o as [|a [|b s]]; try reflexivity.
  - destruct a as [|p]; [reflexivity|]. all_bits.
  - cbn [length firstn Nat.leb go_list_eqb]. destruct a as [|p]; [reflexivity|]. all_bits.
    all: destruct b as [|p]; [reflexivity|]; all_bits.
Qed.

Definition covers_wild (s q : list N) : bool :=
  (length s <? length q)%nat && go_list_eqb N.eqb (skipn (length q - length s) q) s &&
  (nth (length q - length s - 1) q 0 =? 46).
Lemma spec_covers_unfold o q :
  spec_covers o q = if spec_is_wild o then covers_wild (skipn 2 o) q else go_list_eqb N.eqb o q.
Proof.
  destruct o as [|a [|b s]]; try reflexivity.
  - destruct a as [|p]; [reflexivity|]. all_bits.
  - destruct a as [|p]; [reflexivity|]. all_bits.
    all: destruct b as [|p]; [reflexivity|]; all_bits.
Qed.

Lemma firstn_snoc {A} (d : A) : forall (l : list A) k, (k < length l)%nat -> firstn (S k) l = firstn k l ++ [nth k l d].
Proof.
  induction l as [|x r IH]; intros k Hk; [cbn in Hk; lia|].
  destruct k as [|k]; [reflexivity|]. cbn [firstn nth app]. f_equal. apply IH. cbn in Hk. lia.
Qed.

Lemma covers_wild_spec s q : covers_wild s q = true <-> exists h, q = (h ++ [46]) ++ s.
Proof.
  unfold covers_wild. rewrite !andb_true_iff, Nat.ltb_lt, go_bytes_eqb_eq, N.eqb_eq. split.
  - intros [[Hl Hs] Hn]. set (n := (length q - length s)%nat) in *.
    assert (Hq : q = firstn n q ++ s) by (rewrite <- Hs; symmetry; apply firstn_skipn).
    destruct n as [|k] eqn:En; [lia|].
    rewrite (firstn_snoc 0) in Hq by lia. replace (S k - 1)%nat with k in Hn by lia. rewrite Hn in Hq.
    exists (firstn k q). exact Hq.
  - intros [h ->]. rewrite !app_length. cbn [length].
    replace (length h + 1 + length s - length s)%nat with (length h + 1)%nat by lia.
    split; [split; [lia|]|].
    + rewrite skipn_app. rewrite app_length. cbn [length]. rewrite skipn_all2 by (rewrite app_length; cbn; lia).
      replace (length h + 1 - (length h + 1))%nat with 0%nat by lia. reflexivity.
    + replace (length h + 1 - 1)%nat with (length h) by lia.
      rewrite app_nth1 by (rewrite app_length; cbn; lia). rewrite app_nth2 by lia. rewrite Nat.sub_diag. reflexivity.
Qed.

(* the two cover tests agree on an owner in canonical form *)
Lemma covers_agree o q : go_canonical_name_ascii o = o -> go_nameMatches o q = spec_covers o q.
Proof.
  intros Hc. apply Bool.eq_iff_eq_true. pose proof (gen_nameMatches o q) as G. cbv zeta in G. rewrite Hc in G. rewrite G.
  rewrite spec_covers_unfold, spec_is_wild_is. fold (wildcard_owner o).
  destruct (wildcard_owner o) eqn:W.
  - unfold wildcard_owner in W. pose proof W as W'. apply has_prefix2_spec in W'. destruct W' as [s ->]. cbn [skipn].
    rewrite covers_wild_spec. split.
    + intros [[H _]|(s' & h & Hs & Hq)]; [congruence|]. inversion Hs; subst s'. eauto.
    + intros [h Hq]. right. exists s, h. split; [reflexivity|exact Hq].
  - rewrite go_bytes_eqb_eq. unfold wildcard_owner in W. split.
    + intros [[_ H]|(s & h & Hs & _)]; [exact H|]. subst o.
      assert (X : go_has_prefix N.eqb (42 :: 46 :: s) [42; 46] = true) by (apply has_prefix2_spec; eauto). congruence.
    + intros H. left. split; [reflexivity|exact H].
Qed.

(* canonical form is stable for a fully qualified name *)
Lemma lower_byte_dot c : go_ascii_lower_byte c = 46 <-> c = 46.
Proof. unfold go_ascii_lower_byte. destruct ((65 <=? c) && (c <=? 90)) eqn:E; lia. Qed.
Lemma lower_byte_bs c : go_ascii_lower_byte c = 92 <-> c = 92.
Proof. unfold go_ascii_lower_byte. destruct ((65 <=? c) && (c <=? 90)) eqn:E; lia. Qed.
Lemma trailing_bs_lower r : go_trailing_backslashes (go_ascii_lower r) = go_trailing_backslashes r.
Proof.
  induction r as [|c r IH]; [reflexivity|]. cbn [go_ascii_lower map].
  destruct (N.eq_dec c 92) as [->|Hc].
  - change (go_ascii_lower_byte 92) with 92. cbn [go_trailing_backslashes]. f_equal. exact IH.
  - assert (Hl : go_ascii_lower_byte c <> 92) by (rewrite lower_byte_bs; exact Hc).
    assert (G : forall x t, x <> 92 -> go_trailing_backslashes (x :: t) = 0%nat).
    { intros x t Hx. destruct x as [|p]; [reflexivity|]. cbn. all_bits. exfalso. apply Hx. reflexivity. }
    rewrite (G _ _ Hl), (G _ _ Hc). reflexivity.
Qed.
Definition fq_rev (l : list N) : bool :=
  match l with 46 :: r => Nat.even (go_trailing_backslashes r) | _ => false end.
Lemma fq_rev_ne x t : x <> 46 -> fq_rev (x :: t) = false.
Proof. intros Hx. unfold fq_rev. destruct x as [|p]; [reflexivity|]. all_bits. exfalso. apply Hx. reflexivity. Qed.
Lemma is_fqdn_lower s : go_is_fqdn_ascii (go_ascii_lower s) = go_is_fqdn_ascii s.
Proof.
  change (fq_rev (rev (go_ascii_lower s)) = fq_rev (rev s)).
  unfold go_ascii_lower. rewrite <- map_rev. destruct (rev s) as [|c r]; [reflexivity|]. cbn [map].
  destruct (N.eq_dec c 46) as [->|Hc].
  - change (go_ascii_lower_byte 46) with 46. unfold fq_rev. fold (go_ascii_lower r). rewrite trailing_bs_lower. reflexivity.
  - assert (Hl : go_ascii_lower_byte c <> 46) by (rewrite lower_byte_dot; exact Hc).
    rewrite (fq_rev_ne _ _ Hl), (fq_rev_ne _ _ Hc). reflexivity.
Qed.
Lemma canonical_idem s : go_is_fqdn_ascii s = true ->
  go_canonical_name_ascii (go_canonical_name_ascii s) = go_canonical_name_ascii s.
Proof.
  intros H. unfold go_canonical_name_ascii, go_fqdn_ascii. rewrite H. rewrite is_fqdn_lower, H. apply go_ascii_lower_idem.
Qed.

(* ---- list plumbing ---- *)
Lemma combine_map_r {A B C} (f : B -> C) : forall (l : list A) (l' : list B),
  combine l (map f l') = map (fun p => (fst p, f (snd p))) (combine l l').
Proof. induction l as [|x r IH]; intros [|y r']; cbn; try reflexivity. f_equal. apply IH. Qed.
Lemma filter_map_comm {A B} (g : A -> B) (P : B -> bool) l : filter P (map g l) = map g (filter (fun x => P (g x)) l).
Proof. induction l as [|x r IH]; [reflexivity|]. cbn. destruct (P (g x)); cbn; rewrite IH; reflexivity. Qed.

Lemma nat_fold_max : forall L a,
  (Z.of_nat (fold_left Nat.max L a) - 2 = fold_left Z.max (map (fun n => Z.of_nat n - 2) L) (Z.of_nat a - 2))%Z.
Proof.
  induction L as [|n r IH]; intros a; [reflexivity|]. cbn [fold_left map]. rewrite IH. f_equal. lia.
Qed.
Lemma fold_max_base l b c : (exists x, In x l /\ (b <= x)%Z /\ (c <= x)%Z) -> fold_left Z.max l b = fold_left Z.max l c.
Proof.
  intros (x & Hx & Hb & Hc).
  destruct (fold_max_spec l b) as (B1 & B2 & B3). destruct (fold_max_spec l c) as (C1 & C2 & C3).
  pose proof (B2 x Hx). pose proof (C2 x Hx).
  assert (fold_left Z.max l b <= fold_left Z.max l c)%Z by (destruct B3 as [E|I]; [lia|apply C2; exact I]).
  assert (fold_left Z.max l c <= fold_left Z.max l b)%Z by (destruct C3 as [E|I]; [lia|apply B2; exact I]).
  lia.
Qed.

Definition canon_rec (p : nat * vrec) : nat * (list N * N) := (fst p, (go_canonical_name_ascii (fst (snd p)), snd (snd p))).

(* the model's loop = the independent specification oracle, for fully qualified owners *)
Theorem view_answer_is_spec answers qname qtype :
  Forall (fun rr => go_is_fqdn_ascii (fst rr) = true) answers ->
  view_answer answers qname qtype = spec_view_answer answers qname qtype.
Proof.
  intros Hfq. rewrite view_answer_closed. unfold closest_answer, spec_view_answer.
  set (q := go_canonical_name_ascii qname).
  rewrite (combine_map_r (fun rr : vrec => (go_canonical_name_ascii (fst rr), snd rr))).
  fold (numbered 0 answers). change (fun p : nat * vrec => (fst p, (go_canonical_name_ascii (fst (snd p)), snd (snd p)))) with canon_rec.
  rewrite filter_map_comm.
  assert (HM : filter (fun x => (snd (snd (canon_rec x)) =? qtype) && spec_covers (fst (snd (canon_rec x))) q) (numbered 0 answers)
               = matching q qtype 0 answers).
  { unfold matching. apply filter_ext_in. intros [k rr] Hin. cbn [canon_rec fst snd]. unfold rec_matches. f_equal.
    apply in_combine_r in Hin. rewrite Forall_forall in Hfq. specialize (Hfq rr Hin). cbn beta in Hfq.
    symmetry. apply covers_agree. apply canonical_idem. exact Hfq. }
  rewrite HM. set (M := matching q qtype 0 answers).
  rewrite !filter_map_comm.
  assert (HE : filter (fun x => negb (spec_is_wild (fst (snd (canon_rec x))))) M = exact_part M).
  { unfold exact_part. apply filter_ext. intros p. cbn [canon_rec fst snd]. rewrite spec_is_wild_is. reflexivity. }
  assert (HW : filter (fun x => spec_is_wild (fst (snd (canon_rec x)))) M = wild_part M).
  { unfold wild_part. apply filter_ext. intros p. cbn [canon_rec fst snd]. rewrite spec_is_wild_is. reflexivity. }
  rewrite HE, HW.
  assert (Hfst : forall l, map fst (map canon_rec l) = map fst l) by (intros l; rewrite map_map; reflexivity).
  destruct (exact_part M) as [|x ex].
  2:{ change (map canon_rec (x :: ex)) with (canon_rec x :: map canon_rec ex). cbv iota.
      change (canon_rec x :: map canon_rec ex) with (map canon_rec (x :: ex)). rewrite Hfst. reflexivity. }
  cbn [map]. rewrite Hfst. rewrite map_map. cbn [canon_rec fst snd].
  set (W := wild_part M). f_equal. unfold at_depth. apply filter_ext_in. intros p Hp.
  set (LN := map (fun x : nat * vrec => length (go_canonical_name_ascii (fst (snd x)))) W).
  assert (HLZ : map (fun p => depth_of (snd p)) W = map (fun n => (Z.of_nat n - 2)%Z) LN).
  { unfold LN. rewrite map_map. reflexivity. }
  assert (Hmx : max_depth W = (Z.of_nat (fold_left Nat.max LN 0%nat) - 2)%Z).
  { unfold max_depth. rewrite nat_fold_max, <- HLZ. apply fold_max_base.
    exists (depth_of (snd p)). split; [apply in_map_iff; exists p; split; [reflexivity|exact Hp]|].
    unfold W, wild_part in Hp. apply filter_In in Hp. destruct Hp as [_ Hwild].
    pose proof (wildcard_len _ Hwild) as Hl. unfold depth_of. cbn. lia. }
  rewrite Hmx. unfold depth_of, owner_of, go_len.
  destruct (Nat.eqb_spec (length (go_canonical_name_ascii (fst (snd p)))) (fold_left Nat.max LN 0%nat)) as [E|E];
    destruct (Z.eqb_spec (Z.of_nat (length (go_canonical_name_ascii (fst (snd p)))) - 2) (Z.of_nat (fold_left Nat.max LN 0%nat) - 2)) as [F|F];
    try reflexivity; lia.
Qed.
