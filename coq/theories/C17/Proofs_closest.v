(* C17 — the record-selection loop of views.ServeDNS (Model.view_select) in closed form: which records are
   served, all of them, in which order.  The loop keeps two lists and a running best depth; this file shows
   that what it returns is "every exact-owner match, in configuration order — or, there being none, every
   matching wildcard whose owner is as long as the longest matching wildcard owner, in configuration order"
   (closest encloser), for every record list and question. *)
From Sdns Require Import Common.Base Common.GoList Gen.C17 C17.Model C17.Proofs_views.
Open Scope N_scope.

Definition owner_of (rr : vrec) : list N := go_canonical_name_ascii (fst rr).
Definition is_wild_rec (rr : vrec) : bool := wildcard_owner (owner_of rr).
Definition depth_of (rr : vrec) : Z := (go_len (owner_of rr) - 2)%Z.

(* the records numbered from i in configuration order, and the ones that match the question *)
Definition numbered (i : nat) (answers : list vrec) : list (nat * vrec) := combine (seq i (length answers)) answers.
Definition matching (q : list N) (ty : N) (i : nat) (answers : list vrec) : list (nat * vrec) :=
  filter (fun p => rec_matches q ty (snd p)) (numbered i answers).
Definition exact_part (l : list (nat * vrec)) := filter (fun p => negb (is_wild_rec (snd p))) l.
Definition wild_part (l : list (nat * vrec)) := filter (fun p => is_wild_rec (snd p)) l.
Definition max_depth (l : list (nat * vrec)) : Z := fold_left Z.max (map (fun p => depth_of (snd p)) l) 0%Z.
Definition at_depth (d : Z) (l : list (nat * vrec)) := filter (fun p => (depth_of (snd p) =? d)%Z) l.

(* what view_answer returns, without the loop *)
Definition closest_answer (answers : list vrec) (qname : list N) (qtype : N) : list nat :=
  let M := matching (go_canonical_name_ascii qname) qtype 0 answers in
  match exact_part M with
  | [] => map fst (at_depth (max_depth (wild_part M)) (wild_part M))
  | ex => map fst ex
  end.

(* the wildcard bookkeeping of the loop as a fold over the matching wildcards *)
Fixpoint wild_fold (l : list (nat * vrec)) (w : list nat) (b : Z) : list nat * Z :=
  match l with
  | [] => (w, b)
  | p :: r =>
      let sl := depth_of (snd p) in
      if (b <? sl)%Z then wild_fold r [fst p] sl
      else if (sl =? b)%Z then wild_fold r (w ++ [fst p]) b
      else wild_fold r w b
  end.

Lemma numbered_cons i rr rest : numbered i (rr :: rest) = (i, rr) :: numbered (S i) rest.
Proof. reflexivity. Qed.

Lemma matching_cons q ty i rr rest :
  matching q ty i (rr :: rest) =
  if rec_matches q ty rr then (i, rr) :: matching q ty (S i) rest else matching q ty (S i) rest.
Proof. reflexivity. Qed.
Lemma exact_part_cons p l : exact_part (p :: l) = if is_wild_rec (snd p) then exact_part l else p :: exact_part l.
Proof. unfold exact_part. cbn [filter]. destruct (is_wild_rec (snd p)); reflexivity. Qed.
Lemma wild_part_cons p l : wild_part (p :: l) = if is_wild_rec (snd p) then p :: wild_part l else wild_part l.
Proof. reflexivity. Qed.

Lemma view_select_closed q ty answers : forall i e w b,
  view_select answers q ty i e w b =
  (e ++ map fst (exact_part (matching q ty i answers)),
   fst (wild_fold (wild_part (matching q ty i answers)) w b)).
Proof.
  induction answers as [|rr rest IH]; intros i e w b.
  - cbn. rewrite app_nil_r. reflexivity.
  - rewrite matching_cons. cbn [view_select]. unfold rec_matches.
    destruct (snd rr =? ty) eqn:T; cbn [negb andb]; [|apply IH].
    destruct (go_nameMatches (go_canonical_name_ascii (fst rr)) q) eqn:Mt; cbn [negb]; [|apply IH].
    rewrite exact_part_cons, wild_part_cons. cbn [snd]. unfold is_wild_rec, owner_of.
    destruct (wildcard_owner (go_canonical_name_ascii (fst rr))) eqn:W; cbn [negb].
    + cbn [wild_fold fst snd]. unfold depth_of, owner_of.
      destruct (b <? go_len (go_canonical_name_ascii (fst rr)) - 2)%Z; [apply IH|].
      destruct (go_len (go_canonical_name_ascii (fst rr)) - 2 =? b)%Z; apply IH.
    + rewrite IH. cbn [map fst]. rewrite <- app_assoc. reflexivity.
Qed.

Lemma filter_none {A} (f : A -> bool) l : (forall x, In x l -> f x = false) -> filter f l = [].
Proof.
  induction l as [|x r IH]; intros H; [reflexivity|]. cbn. rewrite (H x (or_introl eq_refl)). apply IH.
  intros y Hy. apply H. right. exact Hy.
Qed.

Lemma wild_fold_closed : forall l P w b,
  (forall p, In p P -> (depth_of (snd p) <= b)%Z) ->
  w = map fst (at_depth b P) ->
  snd (wild_fold l w b) = fold_left Z.max (map (fun p => depth_of (snd p)) l) b /\
  fst (wild_fold l w b) = map fst (at_depth (snd (wild_fold l w b)) (P ++ l)).
Proof.
  induction l as [|p r IH]; intros P w b HP Hw.
  - cbn. rewrite app_nil_r. split; [reflexivity|exact Hw].
  - cbn [wild_fold map fold_left]. replace (P ++ p :: r) with ((P ++ [p]) ++ r) by (rewrite <- app_assoc; reflexivity).
    destruct (b <? depth_of (snd p))%Z eqn:B1.
    + replace (Z.max b (depth_of (snd p))) with (depth_of (snd p)) by lia.
      apply IH.
      * intros x Hx. apply in_app_or in Hx. destruct Hx as [Hx|[<-|[]]]; [specialize (HP x Hx)|]; lia.
      * unfold at_depth. rewrite filter_app. rewrite filter_none.
        2:{ intros x Hx. specialize (HP x Hx). lia. }
        cbn. rewrite Z.eqb_refl. reflexivity.
    + destruct (depth_of (snd p) =? b)%Z eqn:B2.
      * replace (Z.max b (depth_of (snd p))) with b by lia.
        apply IH.
        -- intros x Hx. apply in_app_or in Hx. destruct Hx as [Hx|[<-|[]]]; [specialize (HP x Hx)|]; lia.
        -- unfold at_depth. rewrite filter_app, map_app. cbn. rewrite B2. cbn. rewrite Hw. reflexivity.
      * replace (Z.max b (depth_of (snd p))) with b by lia.
        apply IH.
        -- intros x Hx. apply in_app_or in Hx. destruct Hx as [Hx|[<-|[]]]; [specialize (HP x Hx)|]; lia.
        -- unfold at_depth. rewrite filter_app, map_app. cbn. rewrite B2. cbn. rewrite app_nil_r. exact Hw.
Qed.

(* the loop = the closed form, for every record list and question *)
Theorem view_answer_closed answers qname qtype :
  view_answer answers qname qtype = closest_answer answers qname qtype.
Proof.
  unfold view_answer, closest_answer. rewrite view_select_closed. cbn [app].
  set (M := matching (go_canonical_name_ascii qname) qtype 0 answers).
  destruct (wild_fold_closed (wild_part M) [] [] 0%Z) as [Hb Hw]; [intros p []|reflexivity|].
  destruct (exact_part M) as [|x ex]; [|reflexivity].
  cbn [map]. rewrite Hw, Hb. reflexivity.
Qed.

(* ---- the closed form read as membership statements ---- *)

Lemma in_numbered answers : forall i j rr,
  In (j, rr) (numbered i answers) <-> (i <= j)%nat /\ nth_error answers (j - i) = Some rr.
Proof.
  induction answers as [|x rest IH]; intros i j rr.
  - cbn. split; [intros []|]. intros [_ H]. destruct (j - i)%nat; discriminate.
  - rewrite numbered_cons. cbn [In]. rewrite IH. split.
    + intros [H|[Hle Hn]].
      * inversion H; subst. rewrite Nat.sub_diag. split; [lia|reflexivity].
      * split; [lia|]. replace (j - i)%nat with (S (j - S i)) by lia. exact Hn.
    + intros [Hle Hn]. destruct (Nat.eq_dec i j) as [->|Hne].
      * rewrite Nat.sub_diag in Hn. cbn in Hn. inversion Hn. left. reflexivity.
      * right. split; [lia|]. replace (j - i)%nat with (S (j - S i)) in Hn by lia. exact Hn.
Qed.

Lemma in_matching q ty answers j rr :
  In (j, rr) (matching q ty 0 answers) <-> nth_error answers j = Some rr /\ rec_matches q ty rr = true.
Proof.
  unfold matching. rewrite filter_In, in_numbered, Nat.sub_0_r. cbn [snd]. split; [intros [[_ H] M]|intros [H M]]; auto.
  split; [split; [lia|exact H]|exact M].
Qed.

Lemma fold_max_spec : forall l b,
  (b <= fold_left Z.max l b)%Z /\ (forall x, In x l -> (x <= fold_left Z.max l b)%Z) /\
  (fold_left Z.max l b = b \/ In (fold_left Z.max l b) l).
Proof.
  induction l as [|x r IH]; intros b; cbn [fold_left In].
  - repeat split; [lia|intros x []|left; reflexivity].
  - destruct (IH (Z.max b x)) as (H1 & H2 & H3). repeat split.
    + lia.
    + intros y [<-|Hy]; [lia|apply H2; exact Hy].
    + destruct H3 as [H3|H3]; [|right; right; exact H3].
      destruct (Z.max_spec b x) as [[_ E]|[_ E]]; rewrite E in *; [right; left; symmetry; exact H3|left; exact H3].
Qed.

(* an exact-owner match present: exactly the exact-owner matches are served *)
Theorem exact_matches_are_all_served answers qname qtype :
  let q := go_canonical_name_ascii qname in
  existsb (fun rr => rec_matches q qtype rr && negb (wildcard_owner (go_canonical_name_ascii (fst rr)))) answers = true ->
  forall j, In j (view_answer answers qname qtype) <-> exact_rec answers q qtype j.
Proof.
  cbv zeta. intros Hex j. rewrite view_answer_closed. unfold closest_answer.
  set (q := go_canonical_name_ascii qname) in *. set (M := matching q qtype 0 answers).
  assert (Hin : forall j, In j (map fst (exact_part M)) <-> exact_rec answers q qtype j).
  { intros k. rewrite in_map_iff. unfold exact_rec, exact_part. split.
    - intros ([k' rr] & <- & H). apply filter_In in H. destruct H as [H W]. apply in_matching in H. cbn [snd fst] in *.
      exists rr. repeat split; try tauto. unfold is_wild_rec, owner_of in W. destruct (wildcard_owner _); [discriminate|reflexivity].
    - intros (rr & Hn & Hm & W). exists (k, rr). split; [reflexivity|]. apply filter_In. split.
      + apply in_matching. auto.
      + cbn [snd]. unfold is_wild_rec, owner_of. rewrite W. reflexivity. }
  destruct (exact_part M) as [|x ex] eqn:E; [|apply Hin].
  exfalso. apply existsb_exists in Hex. destruct Hex as (rr & Hr & Hc). apply andb_true_iff in Hc. destruct Hc as [Hm W].
  apply In_nth_error in Hr. destruct Hr as [k Hk].
  assert (G : exact_rec answers q qtype k) by (exists rr; repeat split; auto; destruct (wildcard_owner _); [discriminate|reflexivity]).
  apply Hin in G. exact G.
Qed.

(* no exact-owner match: record j is served iff it is a matching wildcard and no matching wildcard has a
   longer owner (the closest enclosers, all of them) *)
Theorem wildcards_served_are_the_closest answers qname qtype :
  let q := go_canonical_name_ascii qname in
  existsb (fun rr => rec_matches q qtype rr && negb (wildcard_owner (go_canonical_name_ascii (fst rr)))) answers = false ->
  forall j, In j (view_answer answers qname qtype) <->
            exists rr, nth_error answers j = Some rr /\ rec_matches q qtype rr = true /\
                       wildcard_owner (go_canonical_name_ascii (fst rr)) = true /\
                       forall k rr', nth_error answers k = Some rr' -> rec_matches q qtype rr' = true ->
                                     wildcard_owner (go_canonical_name_ascii (fst rr')) = true ->
                                     (go_len (go_canonical_name_ascii (fst rr')) <= go_len (go_canonical_name_ascii (fst rr)))%Z.
Proof.
  cbv zeta. intros Hex j. rewrite view_answer_closed. unfold closest_answer.
  set (q := go_canonical_name_ascii qname) in *. set (M := matching q qtype 0 answers).
  assert (E : exact_part M = []).
  { unfold exact_part. apply filter_none. intros [k rr] Hk. apply in_matching in Hk. destruct Hk as [Hn Hm]. cbn [snd].
    destruct (is_wild_rec rr) eqn:W'; [reflexivity|]. exfalso. apply nth_error_In in Hn.
    assert (X : existsb (fun rr => rec_matches q qtype rr && negb (wildcard_owner (go_canonical_name_ascii (fst rr)))) answers = true).
    { apply existsb_exists. exists rr. split; [exact Hn|]. rewrite Hm. unfold is_wild_rec, owner_of in W'. rewrite W'. reflexivity. }
    congruence. }
  rewrite E.
  assert (Hw : forall k rr, In (k, rr) (wild_part M) <->
                nth_error answers k = Some rr /\ rec_matches q qtype rr = true /\ wildcard_owner (go_canonical_name_ascii (fst rr)) = true).
  { intros k rr. unfold wild_part, M. rewrite filter_In, in_matching. cbn [snd]. unfold is_wild_rec, owner_of. tauto. }
  destruct (fold_max_spec (map (fun p => depth_of (snd p)) (wild_part M)) 0%Z) as (H0 & Hall & Hatt).
  fold (max_depth (wild_part M)) in H0, Hall, Hatt.
  rewrite in_map_iff. unfold at_depth. split.
  - intros ([k rr] & <- & H). apply filter_In in H. destruct H as [H D]. cbn [fst snd] in *.
    pose proof (proj1 (Hw k rr) H) as (Hn & Hm & W). exists rr. repeat split; auto.
    intros k' rr' Hn' Hm' W'. assert (I : In (k', rr') (wild_part M)) by (apply Hw; auto).
    specialize (Hall (depth_of rr')). unfold depth_of, owner_of in *.
    assert (In (go_len (go_canonical_name_ascii (fst rr')) - 2)%Z (map (fun p => (go_len (go_canonical_name_ascii (fst (snd p))) - 2)%Z) (wild_part M))).
    { apply in_map_iff. exists (k', rr'). split; [reflexivity|exact I]. }
    specialize (Hall H1). lia.
  - intros (rr & Hn & Hm & W & Hmax). exists (j, rr). split; [reflexivity|]. apply filter_In. split; [apply Hw; auto|].
    cbn [snd]. pose proof (wildcard_len _ W) as Hl.
    assert (I : In (depth_of rr) (map (fun p => depth_of (snd p)) (wild_part M))).
    { apply in_map_iff. exists (j, rr). split; [reflexivity|apply Hw; auto]. }
    pose proof (Hall _ I) as Hle.
    destruct Hatt as [Hz|Hin].
    + unfold depth_of, owner_of in *. lia.
    + apply in_map_iff in Hin. destruct Hin as ([k' rr'] & Hd & Hk'). cbn [snd] in Hd.
      apply Hw in Hk'. destruct Hk' as (Hn' & Hm' & W'). specialize (Hmax k' rr' Hn' Hm' W').
      unfold depth_of, owner_of in *. lia.
Qed.
