(* C17 — from the stabbing query to "the address lies in at least one configured
   CIDR"; access-list decision, first-match view, sub-pipeline filter. *)
From Coq Require Import Permutation Sorting.Sorted.
From Sdns Require Import Common.Base Gen.C17 C17.Model C17.Proofs_arith C17.Proofs_search.
Open Scope N_scope.

(* ---------------- the sort of compile() yields a sorted permutation *)
Lemma lo_lt_spec a b : u128_wf (s_lo a) -> u128_wf (s_lo b) ->
  lo_lt a b = (uval (s_lo a) <? uval (s_lo b)).
Proof.
  intros [Ha1 Ha2] [Hb1 Hb2]. unfold lo_lt, uval.
  destruct (s_lo a) as [ah al], (s_lo b) as [bh bl]; cbn [T_u128_hi T_u128_lo] in *.
  destruct (N.eqb_spec ah bh) as [E|E]; cbn [negb].
  - subst. destruct (N.ltb_spec al bl); symmetry; [apply N.ltb_lt|apply N.ltb_ge]; nia.
  - destruct (N.ltb_spec ah bh); symmetry; [apply N.ltb_lt|apply N.ltb_ge]; nia.
Qed.

Lemma insert_perm x l : Permutation (x :: l) (insert_span x l).
Proof.
  induction l as [|y ys IH]; cbn [insert_span]; [apply Permutation_refl|].
  destruct (lo_lt y x); [|apply Permutation_refl].
  eapply Permutation_trans; [apply perm_swap|]. apply perm_skip. exact IH.
Qed.

Lemma sort_perm l : Permutation l (sort_spans l).
Proof.
  induction l as [|x xs IH]; cbn; [constructor|].
  eapply Permutation_trans; [apply perm_skip; exact IH|]. apply insert_perm.
Qed.

Lemma lo_le_trans a b c : lo_le a b -> lo_le b c -> lo_le a c.
Proof. unfold lo_le. lia. Qed.

Lemma insert_sorted x l : span_wf x -> Forall span_wf l -> StronglySorted lo_le l -> StronglySorted lo_le (insert_span x l).
Proof.
  intros Hx Hl Hs. induction Hs as [|y ys Hys IH Hall]; cbn [insert_span].
  - repeat constructor.
  - inversion Hl as [|? ? Hy Hl']; subst.
    rewrite lo_lt_spec by (apply Hy || apply Hx).
    destruct (N.ltb_spec (uval (s_lo y)) (uval (s_lo x))) as [L|L].
    + constructor; [apply IH; exact Hl'|].
      rewrite Forall_forall. intros z Hz. apply (Permutation_in _ (Permutation_sym (insert_perm x ys))) in Hz.
      destruct Hz as [<-|Hz]; [unfold lo_le; lia|]. rewrite Forall_forall in Hall. apply Hall. exact Hz.
    + constructor; [constructor; assumption|].
      constructor; [exact L|]. rewrite Forall_forall in *. intros z Hz. eapply lo_le_trans; [exact L|]. apply Hall. exact Hz.
Qed.

Lemma sort_sorted l : Forall span_wf l -> StronglySorted lo_le (sort_spans l).
Proof.
  induction l as [|x xs IH]; intros H; cbn; [constructor|].
  inversion H; subst. apply insert_sorted; auto.
  rewrite Forall_forall in *. intros z Hz. apply (Permutation_in _ (Permutation_sym (sort_perm xs))) in Hz. auto.
Qed.

Theorem compile_contains_exact l k : Forall span_wf l -> u128_wf k ->
  contains_compiled (compile l) k = existsb (stabs (uval k)) l.
Proof.
  intros Hl Hk. unfold compile. apply contains_compiled_exact; auto using sort_perm, sort_sorted.
Qed.

(* ---------------- addresses *)
Definition addr_ok (a : addr) : Prop := if a_is4 a then a_val a < 2 ^ 32 else a_val a < 2 ^ 128.

Lemma unmap_ok a : addr_ok a -> addr_ok (unmap a).
Proof.
  unfold unmap, addr_ok. intros H. destruct (is4in6 a); [|exact H]. cbn. apply N.mod_lt. discriminate.
Qed.

Lemma key_spec a : addr_ok a -> u128_wf (key a) /\ uval (key a) = a_val a.
Proof.
  unfold addr_ok, key. destruct (a_is4 a); intros H.
  - split; [split; cbn; [reflexivity|]|unfold uval; cbn; lia]. eapply N.lt_trans; [exact H|reflexivity].
  - split; [apply of_val_wf; exact H|apply uval_of_val].
Qed.

Lemma span_of_spec p : prefix_ok p = true ->
  span_wf (span_of p) /\ forall v, stabs v (span_of p) = ((range_lo p <=? v) && (v <=? range_hi p)).
Proof.
  intros Hok. pose proof (bounds_spec p Hok) as H. unfold span_of. destruct (bounds p) as [lo hi].
  destruct H as [E1 [E2 [W1 [W2 _]]]]. split; [split; assumption|].
  intros v. unfold stabs; cbn [s_lo s_hi]. rewrite E1, E2. reflexivity.
Qed.

Lemma existsb_filter {A} (f g : A -> bool) l : existsb g (filter f l) = existsb (fun x => f x && g x) l.
Proof.
  induction l as [|x xs IH]; cbn; [reflexivity|]. destruct (f x); cbn; rewrite IH; reflexivity.
Qed.

Lemma existsb_ext_in {A} (f g : A -> bool) l : (forall x, In x l -> f x = g x) -> existsb f l = existsb g l.
Proof.
  induction l as [|x xs IH]; intros H; cbn; [reflexivity|]. rewrite (H x) by (left; reflexivity). rewrite IH; [reflexivity|].
  intros y Hy. apply H. right. exact Hy.
Qed.

Lemma existsb_map {A B} (h : A -> B) (f : B -> bool) l : existsb f (map h l) = existsb (fun x => f (h x)) l.
Proof. induction l as [|x xs IH]; cbn; [reflexivity|]. rewrite IH. reflexivity. Qed.

(* ---------------- the property: Contains = "in at least one configured CIDR" *)
Theorem set_contains_exact (ps : list prefix) (a : addr) :
  Forall (fun p => prefix_ok p = true) ps -> addr_ok a ->
  set_contains (new_set ps) a = spec_contains ps a.
Proof.
  intros Hps Ha. unfold set_contains, spec_contains. cbv zeta.
  pose proof (unmap_ok a Ha) as Ha'. destruct (key_spec (unmap a) Ha') as [Hkw Hkv].
  assert (Hfam : forall fam : prefix -> bool,
             (forall p, fam p = Bool.eqb (p_is4 p) (a_is4 (unmap a))) ->
             contains_compiled (compile (map span_of (filter fam ps))) (key (unmap a)) = existsb (fun p => in_prefix p a) ps).
  { intros fam Hf. rewrite compile_contains_exact; [|rewrite Forall_forall; intros s Hs; apply in_map_iff in Hs as [p [<- Hp]]; apply filter_In in Hp as [Hp _]; rewrite Forall_forall in Hps; apply span_of_spec; auto|exact Hkw].
    rewrite existsb_map, existsb_filter. apply existsb_ext_in. intros p Hp.
    rewrite Forall_forall in Hps. destruct (span_of_spec p (Hps p Hp)) as [_ E]. rewrite E, Hkv, in_prefix_range, Hf. reflexivity. }
  unfold new_set. destruct (a_is4 (unmap a)) eqn:E4; cbn [set_v4 set_v6].
  - apply Hfam. intros p. destruct (p_is4 p); reflexivity.
  - apply Hfam. intros p. destruct (p_is4 p); reflexivity.
Qed.

(* family separation and 4-in-6 are part of the specification itself *)
Lemma spec_family_separation p a : in_prefix p a = true -> p_is4 p = a_is4 (unmap a).
Proof. unfold in_prefix. cbv zeta. intros H. apply andb_true_iff in H as [H _]. apply Bool.eqb_prop. exact H. Qed.

Lemma mapped_counts_as_v4 ps v : v < 2 ^ 32 ->
  spec_contains ps (mk_addr false (mapped_prefix + v)) = spec_contains ps (mk_addr true v).
Proof.
  intros Hv. unfold spec_contains. apply existsb_ext_in. intros p _. unfold in_prefix. cbv zeta.
  assert (E : unmap (mk_addr false (mapped_prefix + v)) = mk_addr true v).
  { unfold unmap, is4in6, mapped_prefix; cbn [a_is4 a_val negb andb].
    replace ((0xffff * 2 ^ 32 + v) / 2 ^ 32) with 0xffff by (rewrite N.add_comm, N.div_add by discriminate; rewrite N.div_small by exact Hv; reflexivity).
    rewrite N.eqb_refl. cbn [andb]. f_equal. rewrite N.add_comm, N.mod_add by discriminate. apply N.mod_small. exact Hv. }
  rewrite E. reflexivity.
Qed.

(* an entry that does not parse never reaches the set: the set built from a list
   with bad entries is the set built from the good ones — by construction of the
   driver/model interface (only parsed prefixes are passed); stated over filter *)
Lemma bad_entry_never_widens (ps : list prefix) a :
  Forall (fun p => prefix_ok p = true) ps -> addr_ok a ->
  forall extra, spec_contains ps a = true -> spec_contains (ps ++ extra) a = true.
Proof.
  intros _ _ extra H. unfold spec_contains in *. rewrite existsb_app, H. reflexivity.
Qed.

(* ---------------- access list: deny = no Next, no write; internal bypass *)
Theorem acl_exact ps internal src :
  Forall (fun p => prefix_ok p = true) ps -> (forall a, src = Some a -> addr_ok a) ->
  acl_serve (new_set ps) internal src =
  if internal || match src with Some a => spec_contains ps a | None => false end then AclNext else AclDrop.
Proof.
  intros Hps Ha. unfold acl_serve. destruct internal; [reflexivity|]. cbn [orb].
  destruct src as [a|]; [|reflexivity]. rewrite set_contains_exact by auto. reflexivity.
Qed.

Lemma acl_config_exact n_entries ps internal src :
  Forall (fun p => prefix_ok p = true) ps -> (forall a, src = Some a -> addr_ok a) ->
  acl_serve (new_set (acl_effective n_entries ps)) internal src =
  if internal || match src with Some a => spec_contains (acl_effective n_entries ps) a | None => false end then AclNext else AclDrop.
Proof.
  intros Hps Ha. apply acl_exact; [|exact Ha]. unfold acl_effective. destruct (n_entries =? 0); [|exact Hps].
  repeat constructor.
Qed.

Lemma all_malformed_denies n_entries src :
  n_entries <> 0 -> acl_serve (new_set (acl_effective n_entries [])) false src = AclDrop.
Proof.
  intros Hn. unfold acl_effective. destruct (N.eqb_spec n_entries 0) as [E|E]; [contradiction|].
  unfold acl_serve. destruct src as [a|]; [|reflexivity]. unfold set_contains, new_set; cbn.
  destruct (a_is4 (unmap a)); reflexivity.
Qed.

(* ---------------- views: first matching view in declaration order *)
Theorem first_view_spec views a : forall i0,
  Forall (Forall (fun p => prefix_ok p = true)) views -> addr_ok a ->
  first_view (map new_set views) a i0 =
  (fix go (vs : list (list prefix)) (i : nat) : option nat :=
     match vs with [] => None | v :: r => if spec_contains v a then Some i else go r (S i) end) views i0.
Proof.
  induction views as [|v r IH]; intros i0 Hv Ha; cbn [map first_view]; [reflexivity|].
  inversion Hv; subst. rewrite set_contains_exact by auto. destruct (spec_contains v a); [reflexivity|]. apply IH; auto.
Qed.

(* ---------------- sub-pipelines *)
Lemma name_eqb_refl n : name_eqb n n = true.
Proof.
  unfold name_eqb. rewrite Nat.eqb_refl. cbn [andb]. induction n as [|x xs IH]; cbn; [reflexivity|].
  rewrite N.eqb_refl. exact IH.
Qed.
Lemma name_eqb_eq a : forall b, name_eqb a b = true -> a = b.
Proof.
  unfold name_eqb. induction a as [|x xs IH]; intros [|y ys] H; cbn in H; try discriminate; [reflexivity|].
  apply andb_true_iff in H as [Hl H]. cbn in H. apply andb_true_iff in H as [Hxy H]. apply N.eqb_eq in Hxy. subst y.
  f_equal. apply IH. rewrite Hl. exact H.
Qed.
Lemma mem_name_In n l : mem_name n l = true <-> In n l.
Proof.
  unfold mem_name. rewrite existsb_exists. split.
  - intros [x [Hx E]]. apply name_eqb_eq in E. subst. exact Hx.
  - intros H. exists n. split; [exact H|apply name_eqb_refl].
Qed.

Theorem sub_pipeline_spec handlers skip h :
  In h (sub_pipeline handlers skip) <-> In h handlers /\ ~ In h skip.
Proof.
  unfold sub_pipeline. rewrite filter_In. rewrite <- (mem_name_In h skip). destruct (mem_name h skip); cbn.
  - split; intros [H1 H2]; [discriminate|exfalso; apply H2; reflexivity].
  - split; intros [H1 H2]; split; auto; discriminate.
Qed.

(* order of the remaining handlers is preserved: sub_pipeline is a sublist filter *)
Theorem sub_pipeline_order handlers skip :
  sub_pipeline handlers skip = filter (fun h => negb (mem_name h skip)) handlers.
Proof. reflexivity. Qed.

(* the generated facts about the real chain (Gen/C17.v is re-read from /repo each run) *)
Definition str (l : list N) := l.
Definition n_accesslist := [97;99;99;101;115;115;108;105;115;116].
Definition n_ratelimit := [114;97;116;101;108;105;109;105;116].
Definition n_reflex := [114;101;102;108;101;120].
Definition n_views := [118;105;101;119;115].

Fixpoint index_of (n : list N) (l : list (list N)) (i : nat) : option nat :=
  match l with [] => None | x :: r => if name_eqb n x then Some i else index_of n r (S i) end.

(* client policy handlers are all ClientOnly, hence absent from internal sub-pipelines *)
Lemma client_policy_is_client_only :
  forallb (fun n => mem_name n client_only) [n_accesslist; n_ratelimit; n_reflex; n_views] = true.
Proof. vm_compute. reflexivity. Qed.

Lemma queryer_sub_unfold handlers : queryer_sub handlers = sub_pipeline handlers client_only.
Proof. reflexivity. Qed.
Lemma prefetch_sub_unfold handlers : prefetch_sub handlers = sub_pipeline handlers (client_only ++ [cache_handler_name]).
Proof. reflexivity. Qed.

Theorem internal_subpipelines_have_no_client_policy h :
  In h (queryer_sub handler_order) \/ In h (prefetch_sub handler_order) ->
  ~ In h [n_accesslist; n_ratelimit; n_reflex; n_views] /\ ~ In h client_only.
Proof.
  assert (Hco : forall x, In x [n_accesslist; n_ratelimit; n_reflex; n_views] -> In x client_only).
  { pose proof client_policy_is_client_only as H. rewrite forallb_forall in H. intros x Hx. apply mem_name_In, H, Hx. }
  (* the sub-pipelines are rewritten by an equation before sub_pipeline_spec is used: left to conversion under [In]
     (a fixpoint applied to concrete lists) the kernel evaluates the filters at Qed (minutes) *)
  intros [H|H].
  - rewrite queryer_sub_unfold in H. apply sub_pipeline_spec in H. destruct H as [_ Hn].
    split; [intros Hx; apply Hn, Hco, Hx|exact Hn].
  - rewrite prefetch_sub_unfold in H. apply sub_pipeline_spec in H. destruct H as [_ Hn].
    split; [intros Hx; apply Hn, in_or_app; left; apply Hco, Hx|intros Hx; apply Hn, in_or_app; left; exact Hx].
Qed.

(* the chain the binary registers is the list gen.go declares, and nothing that can
   answer a query or cause resolution runs ahead of the access list: the handlers
   before it are exactly recovery, metrics, dnstap *)
Fixpoint names_eqb_list (a b : list (list N)) : bool :=
  match a, b with
  | [], [] => true
  | x :: xs, y :: ys => name_eqb x y && names_eqb_list xs ys
  | _, _ => false
  end.
Definition n_recovery := [114;101;99;111;118;101;114;121].
Definition n_metrics := [109;101;116;114;105;99;115].
Definition n_dnstap := [100;110;115;116;97;112].

Lemma chain_matches_gen : names_eqb_list handler_order defaults_chain = true.
Proof. vm_compute. reflexivity. Qed.

Lemma accesslist_first_policy :
  match index_of n_accesslist defaults_chain 0 with
  | Some ia => names_eqb_list (firstn ia defaults_chain) [n_recovery; n_metrics; n_dnstap]
  | None => false
  end = true.
Proof. vm_compute. reflexivity. Qed.
