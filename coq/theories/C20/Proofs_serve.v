(* C20 — the handler: gates, response dispatch, synthesis, TTL, AD. *)
From Coq Require Import String Ascii.
From Sdns Require Import Common.Base Gen.C20 C20.Model C20.Spec C20.Proofs_gen C20.Proofs_embed.
Open Scope N_scope.

(* ---------------- compileConfig only keeps legal prefixes ---------------- *)
Lemma wkp_validates : validate_prefix wkp_net = true.
Proof. reflexivity. Qed.

Lemma compile_prefixes_valid cf p :
  In p (c_prefixes (compile cf)) ->
  validate_prefix (cp_net p) = true /\ cp_wk p = is_well_known (cp_net p)
  /\ (p = mk_cprefix wkp_net true \/ In (Some (cp_net p)) (cf_prefixes cf)).
Proof.
  unfold compile. cbn [c_prefixes].
  set (ps := flat_map _ (cf_prefixes cf)).
  assert (forall x, In x ps -> validate_prefix (cp_net x) = true /\ cp_wk x = is_well_known (cp_net x)
                               /\ In (Some (cp_net x)) (cf_prefixes cf)) as H.
  { intros x Hx. subst ps. apply in_flat_map in Hx as (o & Ho & Hx). destruct o as [n|]; [|destruct Hx].
    destruct (validate_prefix n) eqn:V; [|destruct Hx]. destruct Hx as [<-|[]]. cbn. auto. }
  destruct ps as [|y ps'] eqn:E.
  - intros [<-|[]]. cbn. split; [reflexivity|]. split; [reflexivity|]. left. reflexivity.
  - intros Hin. destruct (H p Hin) as (A & B & C). auto.
Qed.

(* ---------------- the gates of ServeDNS ---------------- *)
Definition gates_open (c : compiled) (q : query) : bool :=
  (q_nq q =? 1) && (q_class q =? class_in) && negb (q_internal q) && q_rd q && negb (q_cd q)
  && client_eligible c (q_client q).

Lemma gate_wrap v c q :
  gate v c q = GWrap ->
  gates_open c q = true /\ q_type q = type_aaaa /\ zone_excluded c (lower (q_name q)) = false.
Proof.
  unfold gate, gates_open.
  destruct (q_nq q =? 1); cbn [negb andb]; [|discriminate].
  destruct (q_class q =? class_in); cbn [negb andb]; [|discriminate].
  destruct (q_internal q); cbn [negb andb]; [discriminate|].
  destruct (q_rd q); cbn [negb andb]; [|discriminate].
  destruct (q_cd q); cbn [negb andb]; [discriminate|].
  destruct (client_eligible c (q_client q)); cbn [negb andb]; [|discriminate].
  destruct (q_type q =? type_aaaa) eqn:Ea; cbn [orb negb].
  - apply N.eqb_eq in Ea. rewrite Ea. change (type_aaaa =? type_ptr) with false. cbv iota.
    destruct (zone_excluded c (lower (q_name q))); [discriminate|]. auto.
  - destruct (q_type q =? type_ptr) eqn:Ep; cbn [negb]; [|discriminate].
    destruct (has_suffix _ _); [|discriminate]. destruct (ptr_target _ _ _); discriminate.
Qed.

Lemma gate_ptr v c q v4 :
  gate v c q = GPtr v4 ->
  gates_open c q = true /\ q_type q = type_ptr /\ ptr_target v c (lower (q_name q)) = Some v4.
Proof.
  unfold gate, gates_open.
  destruct (q_nq q =? 1); cbn [negb andb]; [|discriminate].
  destruct (q_class q =? class_in); cbn [negb andb]; [|discriminate].
  destruct (q_internal q); cbn [negb andb]; [discriminate|].
  destruct (q_rd q); cbn [negb andb]; [|discriminate].
  destruct (q_cd q); cbn [negb andb]; [discriminate|].
  destruct (client_eligible c (q_client q)); cbn [negb andb]; [|discriminate].
  destruct (q_type q =? type_aaaa) eqn:Ea; cbn [orb negb].
  - apply N.eqb_eq in Ea. rewrite Ea. change (type_aaaa =? type_ptr) with false. cbv iota.
    destruct (zone_excluded c (lower (q_name q))); discriminate.
  - destruct (q_type q =? type_ptr) eqn:Ep; cbn [negb]; [|discriminate].
    apply N.eqb_eq in Ep.
    destruct (has_suffix _ _); [|discriminate]. destruct (ptr_target _ _ _) as [w|] eqn:T; [|discriminate].
    intros H. injection H as <-. auto.
Qed.

(* ---------------- dispatch: when does WriteMsg look up A / synthesise ---------------- *)
(* the downstream response leaves room for synthesis *)
Definition down_allows (c : compiled) (m : msg) (mark : N) (work : bool) : bool :=
  negb (m_trunc m) && negb (m_nq m =? 0) && negb (m_rcode m =? rcode_nxdomain)
  && negb (is_dnssec_failure m) && negb ((mark =? 1) || (mark =? 2) || (mark =? 3)) && negb (has_ede m ede_cached)
  && negb ((m_rcode m =? rcode_servfail) && work)
  && (negb (m_rcode m =? 0)
      || forallb (fun r => negb (is_aaaa r) || aaaa_excluded c r) (m_answer m)).

Lemma no_kept_all_excluded c ans :
  (let '(_, had, kept, _) := filter_aaaa c ans in had && (0 <? kept)%nat) = false ->
  forallb (fun r => negb (is_aaaa r) || aaaa_excluded c r) ans = true.
Proof.
  unfold filter_aaaa. intros H. apply forallb_forall. intros r Hr.
  destruct (is_aaaa r) eqn:Ea; [|reflexivity]. cbn [negb orb].
  destruct (aaaa_excluded c r) eqn:Ex; [reflexivity|]. exfalso.
  assert (existsb is_aaaa ans = true) as Hh by (apply existsb_exists; eauto).
  rewrite Hh in H. cbn [andb] in H. apply Nat.ltb_ge in H.
  assert (In r (filter (fun r => is_aaaa r && negb (aaaa_excluded c r)) ans)) as Hin.
  { apply filter_In. split; [exact Hr|]. rewrite Ea, Ex. reflexivity. }
  destruct (filter _ ans); [destruct Hin | cbn in H; lia].
Qed.

(* the message handed to synthesise *)
Definition filtered_msg (c : compiled) (m : msg) : msg :=
  if m_rcode m =? 0 then
    mk_msg (m_trunc m) (m_nq m) (m_rcode m) (m_ad m) (m_edes m) (filter (fun r => negb (aaaa_excluded c r)) (m_answer m)) (m_ns m)
  else m.
Definition filtered_same (c : compiled) (m : msg) : bool :=
  if m_rcode m =? 0 then (length (filter (aaaa_excluded c) (m_answer m)) =? 0)%nat else true.

Lemma write_msg_reaches_synthesise v c m mark work al cut :
  x_aq (write_msg v c m mark work al cut) = true \/ x_path (write_msg v c m mark work al cut) = PSynth
  \/ x_path (write_msg v c m mark work al cut) = PFallback \/ x_path (write_msg v c m mark work al cut) = PABasis ->
  down_allows c m mark work = true
  /\ write_msg v c m mark work al cut = synthesise v c (filtered_msg c m) (filtered_same c m) al cut.
Proof.
  unfold write_msg, down_allows, filtered_msg, filtered_same.
  destruct (m_trunc m); cbn [orb negb andb x_aq x_path]; [intros [H|[H|[H|H]]]; discriminate|].
  destruct (m_nq m =? 0); cbn [orb negb andb x_aq x_path]; [intros [H|[H|[H|H]]]; discriminate|].
  destruct (m_rcode m =? rcode_nxdomain) eqn:E3; cbn [orb negb andb x_aq x_path]; [intros [H|[H|[H|H]]]; discriminate|].
  destruct (is_dnssec_failure m); cbn [orb negb andb x_aq x_path]; [intros [H|[H|[H|H]]]; discriminate|].
  destruct (mark =? 1) eqn:M1; cbn [orb negb andb x_aq x_path]; [intros [H|[H|[H|H]]]; discriminate|].
  destruct (has_ede m ede_cached); cbn [orb negb andb x_aq x_path]; [intros [H|[H|[H|H]]]; discriminate|].
  destruct (mark =? 2) eqn:M2; cbn [orb negb andb x_aq x_path]; [intros [H|[H|[H|H]]]; discriminate|].
  destruct (mark =? 3) eqn:M3; cbn [orb negb andb x_aq x_path]; [intros [H|[H|[H|H]]]; discriminate|].
  destruct ((m_rcode m =? rcode_servfail) && work); cbn [orb negb andb x_aq x_path]; [intros [H|[H|[H|H]]]; discriminate|].
  destruct (m_rcode m =? 0) eqn:E0; cbn [negb orb].
  - pose proof (no_kept_all_excluded c (m_answer m)) as K. unfold filter_aaaa in *.
    destruct (existsb is_aaaa (m_answer m) && (0 <? length (filter (fun r => is_aaaa r && negb (aaaa_excluded c r)) (m_answer m)))%nat) eqn:EK.
    + destruct (0 <? length (filter (aaaa_excluded c) (m_answer m)))%nat; cbn [x_aq x_path]; intros [H|[H|[H|H]]]; discriminate.
    + intros _. rewrite (K eq_refl). split; reflexivity.
  - intros _. split; reflexivity.
Qed.

(* what synthesise can return *)
Lemma synthesise_synth v c m same al cut :
  x_path (synthesise v c m same al cut) = PSynth ->
  exists ar, al = QResp ar /\ m_rcode ar = 0
    /\ filter is_a (m_answer ar) <> []
    /\ synth_rrs c (synth_ttl v (m_ns m) (filter is_a (m_answer ar)) cut) (filter is_a (m_answer ar)) <> []
    /\ synthesise v c m same al cut =
       mk_result PSynth
         (Some (mk_reply false 0 false (basis_edes m)
                  (map (cap_ttl (synth_ttl v (m_ns m) (filter is_a (m_answer ar)) cut)) (filter is_chain (m_answer ar))
                   ++ synth_rrs c (synth_ttl v (m_ns m) (filter is_a (m_answer ar)) cut) (filter is_a (m_answer ar)))))
         true true.
Proof.
  unfold synthesise, fallback. destruct al as [|k| |ar]; cbn [x_path]; try discriminate.
  - destruct ((k =? 0) || (k =? 1)); cbn [x_path]; discriminate.
  - destruct (m_rcode ar =? 0) eqn:E0; cbn [negb orb x_path]; [|discriminate].
    destruct (length (filter is_a (m_answer ar)) =? 0)%nat eqn:EA; cbn [x_path]; [discriminate|].
    destruct (length (synth_rrs _ _ _) =? 0)%nat eqn:ES; cbn [x_path]; [discriminate|].
    intros _. exists ar. apply N.eqb_eq in E0. repeat split; auto.
    + intros E. rewrite E in EA. discriminate.
    + intros E. rewrite E in ES. discriminate.
Qed.

(* ---------------- the whole handler ---------------- *)
Lemma serve_wrapped v cf q down work al cut :
  x_aq (serve v cf q down work al cut) = true /\ q_type q = type_aaaa
  \/ x_path (serve v cf q down work al cut) = PSynth
  \/ x_path (serve v cf q down work al cut) = PFallback \/ x_path (serve v cf q down work al cut) = PABasis ->
  gate v (compile cf) q = GWrap /\
  exists m mark, down = Some (m, mark) /\ serve v cf q down work al cut = write_msg v (compile cf) m mark work al cut.
Proof.
  unfold serve. destruct (gate v (compile cf) q) as [| |v4|] eqn:G.
  - destruct down as [[m mk]|]; cbn [x_aq x_path]; intros [[H _]|[H|[H|H]]]; discriminate.
  - destruct down as [[m mk]|]; cbn [x_aq x_path]; intros [[H _]|[H|[H|H]]]; discriminate.
  - apply gate_ptr in G as (_ & T & _). intros [[_ H]|[H|[H|H]]].
    + rewrite T in H. discriminate.
    + revert H. unfold ptr_reply. destruct al as [|k| |ar]; cbn [x_path]; try discriminate.
      * destruct ((k =? 0) || (k =? 1)); discriminate.
      * destruct (m_rcode ar =? 0); discriminate.
    + revert H. unfold ptr_reply. destruct al as [|k| |ar]; cbn [x_path]; try discriminate.
      * destruct ((k =? 0) || (k =? 1)); discriminate.
      * destruct (m_rcode ar =? 0); discriminate.
    + revert H. unfold ptr_reply. destruct al as [|k| |ar]; cbn [x_path]; try discriminate.
      * destruct ((k =? 0) || (k =? 1)); discriminate.
      * destruct (m_rcode ar =? 0); discriminate.
  - destruct down as [[m mk]|]; cbn [x_aq x_path]; [|intros [[H _]|[H|[H|H]]]; discriminate].
    intros _. split; [reflexivity|]. eauto.
Qed.

(* synth_only_when: a synthesised reply — and already the secondary A lookup —
   happens only behind every gate and only when the downstream response
   leaves room for it *)
Lemma synth_only_when_lem v cf q down work al cut :
  x_path (serve v cf q down work al cut) = PSynth \/ (x_aq (serve v cf q down work al cut) = true /\ q_type q = type_aaaa) ->
  gates_open (compile cf) q = true /\ q_type q = type_aaaa
  /\ zone_excluded (compile cf) (lower (q_name q)) = false
  /\ exists m mark, down = Some (m, mark) /\ down_allows (compile cf) m mark work = true.
Proof.
  intros H.
  destruct (serve_wrapped v cf q down work al cut) as (G & m & mark & -> & E); [tauto|].
  apply gate_wrap in G as (A & B & C). split; [exact A|]. split; [exact B|]. split; [exact C|].
  exists m, mark. split; [reflexivity|].
  rewrite E in H. apply write_msg_reaches_synthesise with (v := v) (al := al) (cut := cut). tauto.
Qed.

Lemma synth_needs_a_answer v cf q down work al cut :
  x_path (serve v cf q down work al cut) = PSynth ->
  exists ar, al = QResp ar /\ m_rcode ar = 0 /\ exists o t ip, In (RA o t ip) (m_answer ar).
Proof.
  intros H. destruct (serve_wrapped v cf q down work al cut) as (G & m & mark & -> & E); [tauto|].
  rewrite E in H. destruct (write_msg_reaches_synthesise v (compile cf) m mark work al cut) as (_ & E2); [tauto|].
  rewrite E2 in H. apply synthesise_synth in H as (ar & -> & R0 & NA & _). exists ar. split; [reflexivity|]. split; [exact R0|].
  destruct (filter is_a (m_answer ar)) as [|r l] eqn:F; [congruence|].
  assert (In r (filter is_a (m_answer ar))) as I by (rewrite F; left; reflexivity).
  apply filter_In in I as (I & A). destruct r; try discriminate. eauto.
Qed.

(* ---------------- what is synthesised ---------------- *)
Lemma synth_rrs_in c ttl addrs r :
  In r (synth_rrs c ttl addrs) <->
  exists p owner t ip v4,
    In p (c_prefixes c) /\ In (RA owner t ip) addrs /\ to4 ip = Some v4
    /\ should_exclude_a c v4 p = false /\ r = RAAAA owner ttl (embed (cp_net p) v4).
Proof.
  unfold synth_rrs. rewrite in_flat_map. split.
  - intros (p & Hp & H). apply in_flat_map in H as (a & Ha & H).
    unfold synth_one in H. destruct a as [o t ip| | | | |]; try destruct H.
    destruct (to4 ip) as [v4|] eqn:T; [|destruct H].
    destruct (should_exclude_a c v4 p) eqn:X; [destruct H|]. destruct H as [<-|[]].
    exists p, o, t, ip, v4. auto.
  - intros (p & o & t & ip & v4 & Hp & Ha & T & X & ->). exists p. split; [exact Hp|].
    apply in_flat_map. exists (RA o t ip). split; [exact Ha|]. unfold synth_one. rewrite T, X. left. reflexivity.
Qed.

Lemma cap_ttl_not_aaaa ttl r : is_chain r = true -> is_aaaa (cap_ttl ttl r) = false.
Proof. destruct r; cbn; try discriminate; reflexivity. Qed.

(* the AAAA records of a synthesised answer section are exactly synth_rrs *)
Lemma synth_answer_aaaa c ttl chain addrs r :
  Forall (fun x => is_chain x = true) chain ->
  is_aaaa r = true ->
  (In r (map (cap_ttl ttl) chain ++ synth_rrs c ttl addrs) <-> In r (synth_rrs c ttl addrs)).
Proof.
  intros Hc Ha. rewrite in_app_iff. split; [|auto]. intros [H|H]; [|exact H]. exfalso.
  apply in_map_iff in H as (x & <- & Hx). rewrite Forall_forall in Hc.
  rewrite cap_ttl_not_aaaa in Ha by (apply Hc; exact Hx). discriminate.
Qed.

(* ---------------- TTL ---------------- *)
Lemma fold_min_le_init l init :
  fold_left (fun ttl a => if a_ttl a <? ttl then a_ttl a else ttl) l init <= init.
Proof.
  revert init. induction l as [|a l IH]; intros init; cbn [fold_left]; [lia|].
  specialize (IH (if a_ttl a <? init then a_ttl a else init)).
  destruct (a_ttl a <? init) eqn:E; [apply N.ltb_lt in E; lia | lia].
Qed.
Lemma fold_min_le_each l init a :
  In a l -> fold_left (fun ttl a => if a_ttl a <? ttl then a_ttl a else ttl) l init <= a_ttl a.
Proof.
  revert init. induction l as [|b l IH]; intros init; [intros []|]. cbn [fold_left]. intros [->|H].
  - pose proof (fold_min_le_init l (if a_ttl a <? init then a_ttl a else init)) as L.
    destruct (a_ttl a <? init) eqn:E; [lia | apply N.ltb_ge in E; lia].
  - apply IH. exact H.
Qed.
(* the request tree's bound only ever lowers the TTL, to at most itself *)
Lemma bound_ttl_le cut ttl : bound_ttl cut ttl <= ttl.
Proof. unfold bound_ttl. destruct cut as [s|]; [|lia]. destruct (s <? ttl) eqn:E; [apply N.ltb_lt in E|]; lia. Qed.
Lemma bound_ttl_le_cut s ttl : bound_ttl (Some s) ttl <= s.
Proof. unfold bound_ttl. destruct (s <? ttl) eqn:E; [|apply N.ltb_ge in E]; lia. Qed.
Lemma bound_ttl_min s ttl : bound_ttl (Some s) ttl = N.min s ttl.
Proof. unfold bound_ttl. destruct (s <? ttl) eqn:E; [apply N.ltb_lt in E | apply N.ltb_ge in E]; lia. Qed.
Lemma bound_ttl_none ttl : bound_ttl None ttl = ttl.
Proof. reflexivity. Qed.

Lemma synth_ttl_le_a v ns addrs cut o t ip : In (RA o t ip) addrs -> synth_ttl v ns addrs cut <= t.
Proof.
  intros H. unfold synth_ttl.
  pose proof (fold_min_le_each addrs (ttl_ceiling v ns) (RA o t ip) H) as L. cbn [a_ttl] in L.
  pose proof (bound_ttl_le cut (fold_left (fun ttl a => if a_ttl a <? ttl then a_ttl a else ttl) addrs (ttl_ceiling v ns))). lia.
Qed.
Lemma synth_ttl_le_ceiling v ns addrs cut : synth_ttl v ns addrs cut <= ttl_ceiling v ns.
Proof.
  unfold synth_ttl. pose proof (fold_min_le_init addrs (ttl_ceiling v ns)).
  pose proof (bound_ttl_le cut (fold_left (fun ttl a => if a_ttl a <? ttl then a_ttl a else ttl) addrs (ttl_ceiling v ns))). lia.
Qed.
Lemma synth_ttl_le_cut v ns addrs s : synth_ttl v ns addrs (Some s) <= s.
Proof. apply bound_ttl_le_cut. Qed.
(* an unbounded tree: the TTL of the tree before af44539 *)
Lemma synth_ttl_unbounded v ns addrs :
  synth_ttl v ns addrs None = fold_left (fun ttl a => if a_ttl a <? ttl then a_ttl a else ttl) addrs (ttl_ceiling v ns).
Proof. reflexivity. Qed.
(* exactly the minimum of the three: every A TTL, the ceiling, the bound *)
Lemma synth_ttl_is_min v ns addrs s :
  synth_ttl v ns addrs (Some s) = N.min s (synth_ttl v ns addrs None).
Proof. apply bound_ttl_min. Qed.

(* the bound RFC 6147 5.1.7 asks for *)
Definition neg_ttl_bound (ns : list (option (N * N))) : N :=
  match first_soa ns with Some (t, mn) => N.min t mn | None => 600 end.

Lemma ttl_ceiling_fixed v ns : fx_negttl v = true -> ttl_ceiling v ns = neg_ttl_bound ns.
Proof.
  intros F. unfold ttl_ceiling, neg_ttl_bound. rewrite F. destruct (first_soa ns) as [[t mn]|]; [|reflexivity].
  destruct (mn <? t) eqn:E; [apply N.ltb_lt in E | apply N.ltb_ge in E]; lia.
Qed.
Lemma ttl_ceiling_old_positive ns :
  match first_soa ns with Some (t, mn) => 0 < t /\ 0 < mn | None => True end ->
  ttl_ceiling old ns = neg_ttl_bound ns.
Proof.
  unfold ttl_ceiling, neg_ttl_bound, negative_aaaa_ttl. cbn [fx_negttl old].
  destruct (first_soa ns) as [[t mn]|]; [|reflexivity]. intros [Ht Hm].
  replace (0 <? mn) with true by (symmetry; apply N.ltb_lt; exact Hm). cbn [andb].
  destruct (mn <? t) eqn:E; [apply N.ltb_lt in E | apply N.ltb_ge in E].
  - replace (0 <? mn) with true by (symmetry; apply N.ltb_lt; exact Hm). lia.
  - replace (0 <? t) with true by (symmetry; apply N.ltb_lt; exact Ht). lia.
Qed.
(* current tree: SOA TTL 3600, MINIMUM 0, one A record with TTL 300 *)
Lemma ttl_ceiling_old_witness :
  let ns := [Some (3600, 0)] in
  neg_ttl_bound ns = 0 /\ synth_ttl old ns [RA (bs "h.ex.t.") 300 [192; 0; 9; 1]] None = 300.
Proof. split; reflexivity. Qed.

Lemma filter_all P (l : list rr) : Forall (fun x => P x = true) (filter P l).
Proof. apply Forall_forall. intros x H. apply filter_In in H. tauto. Qed.

Lemma filtered_msg_ns c m : m_ns (filtered_msg c m) = m_ns m.
Proof. unfold filtered_msg. destruct (m_rcode m =? 0); reflexivity. Qed.

(* the reply of the synthesis path *)
Lemma synth_reply_shape v cf q down work al cut :
  x_path (serve v cf q down work al cut) = PSynth ->
  exists m mark ar,
    down = Some (m, mark) /\ al = QResp ar /\
    let addrs := filter is_a (m_answer ar) in
    let ttl := synth_ttl v (m_ns m) addrs cut in
    x_reply (serve v cf q down work al cut) =
      Some (mk_reply false 0 false (basis_edes (filtered_msg (compile cf) m))
              (map (cap_ttl ttl) (filter is_chain (m_answer ar)) ++ synth_rrs (compile cf) ttl addrs))
    /\ synth_rrs (compile cf) ttl addrs <> [].
Proof.
  intros H. destruct (serve_wrapped v cf q down work al cut) as (G & m & mark & -> & E); [tauto|].
  rewrite E in *. destruct (write_msg_reaches_synthesise v (compile cf) m mark work al cut) as (_ & E2); [tauto|].
  rewrite E2 in *. apply synthesise_synth in H as (ar & -> & R0 & NA & NS & ->).
  exists m, mark, ar. rewrite filtered_msg_ns in *. cbn [x_reply]. auto.
Qed.

(* owner, address, exclusions and TTL of every synthesised AAAA *)
Lemma synthesised_aaaa_sound v cf q m mark work ar cut r o t e :
  x_path (serve v cf q (Some (m, mark)) work (QResp ar) cut) = PSynth ->
  x_reply (serve v cf q (Some (m, mark)) work (QResp ar) cut) = Some r ->
  In (RAAAA o t e) (r_answer r) ->
  (exists p ta ip v4,
      In p (c_prefixes (compile cf)) /\ In (RA o ta ip) (m_answer ar) /\ to4 ip = Some v4
      /\ e = embed (cp_net p) v4
      /\ (is_well_known (cp_net p) = true -> existsb (fun n => net_contains n v4) (c_excl_a (compile cf)) = false))
  /\ (forall o' ta ip, In (RA o' ta ip) (m_answer ar) -> t <= ta)
  /\ t <= ttl_ceiling v (m_ns m)
  /\ (forall s, cut = Some s -> t <= s).
Proof.
  intros HP HR HI. destruct (synth_reply_shape _ _ _ _ _ _ _ HP) as (m' & mark' & ar' & Ed & Ea & R & _).
  injection Ed as <- <-. injection Ea as <-. cbv zeta in R. rewrite R in HR. injection HR as <-. cbn [r_answer] in HI.
  apply synth_answer_aaaa in HI; [| apply filter_all | reflexivity ].
  apply synth_rrs_in in HI as (p & o' & ta & ip & v4 & Hp & Ha & T & X & E). injection E as -> -> ->.
  apply filter_In in Ha as (Ha & _). split; [|split; [|split]].
  - exists p, ta, ip, v4. repeat split; auto. intros W.
    destruct (compile_prefixes_valid cf p Hp) as (_ & Wk & _). unfold should_exclude_a in X. rewrite Wk, W in X. exact X.
  - intros o2 t2 ip2 H2. apply synth_ttl_le_a with (o := o2) (ip := ip2). apply filter_In. split; [exact H2 | reflexivity].
  - apply synth_ttl_le_ceiling.
  - intros s ->. apply synth_ttl_le_cut.
Qed.

(* ... and every allowed (prefix, A) pair is there *)
Lemma synthesised_aaaa_complete v cf q m mark work ar cut r p o ta ip v4 :
  x_path (serve v cf q (Some (m, mark)) work (QResp ar) cut) = PSynth ->
  x_reply (serve v cf q (Some (m, mark)) work (QResp ar) cut) = Some r ->
  In p (c_prefixes (compile cf)) -> In (RA o ta ip) (m_answer ar) -> to4 ip = Some v4 ->
  should_exclude_a (compile cf) v4 p = false ->
  exists t, In (RAAAA o t (embed (cp_net p) v4)) (r_answer r).
Proof.
  intros HP HR Hp Ha T X. destruct (synth_reply_shape _ _ _ _ _ _ _ HP) as (m' & mark' & ar' & Ed & Ea & R & _).
  injection Ed as <- <-. injection Ea as <-. cbv zeta in R. rewrite R in HR. injection HR as <-. cbn [r_answer].
  eexists. apply in_app_iff. right. apply synth_rrs_in.
  exists p, o, ta, ip, v4. repeat split; auto. apply filter_In. split; [exact Ha | reflexivity].
Qed.

(* ---------------- AD ---------------- *)
Lemma never_ad_gen v cf q down work al cut r :
  x_reply (serve v cf q down work al cut) = Some r -> r_same r = false ->
  fx_fallback_ad v = true \/ x_path (serve v cf q down work al cut) <> PFallback ->
  r_ad r = false.
Proof.
  unfold serve. destruct (gate v (compile cf) q) as [| |v4|].
  - destruct down as [[m mk]|]; cbn [x_reply]; [|discriminate]. intros H. injection H as <-. cbn. discriminate.
  - destruct down as [[m mk]|]; cbn [x_reply]; [|discriminate]. intros H. injection H as <-. cbn. discriminate.
  - unfold ptr_reply. destruct al as [|k| |ar]; cbn [x_reply].
    + intros H. injection H as <-. reflexivity.
    + destruct ((k =? 0) || (k =? 1)); cbn [x_reply]; intros H; injection H as <-; reflexivity.
    + intros H. injection H as <-. reflexivity.
    + destruct (m_rcode ar =? 0); cbn [x_reply]; intros H; injection H as <-; reflexivity.
  - destruct down as [[m mk]|]; cbn [x_reply]; [|discriminate].
    assert (forall m' same aq, x_reply (fallback v m' same aq) = Some r -> r_same r = false ->
              fx_fallback_ad v = true \/ x_path (fallback v m' same aq) <> PFallback -> r_ad r = false) as FB.
    { intros m' same aq. unfold fallback. cbn [x_reply x_path]. destruct same.
      - intros H. injection H as <-. cbn. discriminate.
      - destruct (fx_fallback_ad v).
        + intros H. injection H as <-. reflexivity.
        + intros _ _ [F|F]; [discriminate | congruence]. }
    assert (forall m' same, x_reply (synthesise v (compile cf) m' same al cut) = Some r -> r_same r = false ->
              fx_fallback_ad v = true \/ x_path (synthesise v (compile cf) m' same al cut) <> PFallback -> r_ad r = false) as SY.
    { intros m' same. unfold synthesise. destruct al as [|k| |ar].
      - apply FB.
      - destruct ((k =? 0) || (k =? 1)); [|apply FB]. cbn [x_reply]. intros H. injection H as <-. reflexivity.
      - apply FB.
      - destruct (negb (m_rcode ar =? 0) || (length (filter is_a (m_answer ar)) =? 0)%nat).
        + cbn [x_reply]. intros H. injection H as <-. reflexivity.
        + destruct (length (synth_rrs _ _ _) =? 0)%nat; [apply FB|]. cbn [x_reply]. intros H. injection H as <-. reflexivity. }
    unfold write_msg.
    repeat match goal with
    | |- context [if ?c then mk_result PPass _ _ _ else _] => destruct c; [cbn [x_reply]; intros H; injection H as <-; cbn; discriminate|]
    end.
    destruct ((m_rcode m =? rcode_servfail) && work); [cbn [x_reply]; intros H; injection H as <-; reflexivity|].
    destruct (m_rcode m =? 0); [|apply SY].
    destruct (filter_aaaa (compile cf) (m_answer m)) as [[[ans had] kept] stripped].
    destruct (had && (0 <? kept)%nat); [|apply SY].
    destruct (0 <? stripped)%nat; cbn [x_reply]; intros H; injection H as <-; [reflexivity | cbn; discriminate].
Qed.

(* the current tree: validated answer of IPv4-mapped AAAA only, A in 10/8 under the WKP *)
Definition ad_witness_cf : config := mk_config [Some wkp_net] [] [] None None.
Definition ad_witness_q : query := mk_query 1 1 28 (bs "h.ex.t.") true false true false [203; 0; 113; 9].
Definition ad_witness_down : msg :=
  mk_msg false 1 0 true (Some []) [RAAAA (bs "h.ex.t.") 60 (v4in6_prefix ++ [1; 2; 3; 4])] [].
Definition ad_witness_a : msg := mk_msg false 1 0 false None [RA (bs "h.ex.t.") 300 [10; 0; 0; 1]] [].
Lemma never_ad_witness :
  let x := serve old ad_witness_cf ad_witness_q (Some (ad_witness_down, 0)) false (QResp ad_witness_a) None in
  x_path x = PFallback /\ x_reply x = Some (mk_reply false 0 true [] []).
Proof. split; reflexivity. Qed.

(* ---------------- the property statements, assembled ---------------- *)
Definition soa_positive (m : msg) : Prop :=
  match first_soa (m_ns m) with Some (t, mn) => 0 < t /\ 0 < mn | None => True end.

Lemma owner_and_ttl_with v cf q m mark work ar cut r o t e :
  ttl_ceiling v (m_ns m) = spec_negative_ttl m ->
  x_path (serve v cf q (Some (m, mark)) work (QResp ar) cut) = PSynth ->
  x_reply (serve v cf q (Some (m, mark)) work (QResp ar) cut) = Some r ->
  In (RAAAA o t e) (r_answer r) ->
  (exists ta ip, In (RA o ta ip) (m_answer ar))
  /\ (forall o' ta ip, In (RA o' ta ip) (m_answer ar) -> t <= ta)
  /\ t <= spec_negative_ttl m
  /\ (forall s, cut = Some s -> t <= s).
Proof.
  intros HC HP HR HI. destruct (synthesised_aaaa_sound _ _ _ _ _ _ _ _ _ _ _ _ HP HR HI) as ((p & ta & ip & v4 & _ & Ha & _) & B & C & D).
  split; [eauto|]. split; [exact B|]. split; [rewrite <- HC; exact C | exact D].
Qed.
Lemma owner_and_ttl_fixed_lem v cf q m mark work ar cut r o t e :
  fx_negttl v = true ->
  x_path (serve v cf q (Some (m, mark)) work (QResp ar) cut) = PSynth ->
  x_reply (serve v cf q (Some (m, mark)) work (QResp ar) cut) = Some r ->
  In (RAAAA o t e) (r_answer r) ->
  (exists ta ip, In (RA o ta ip) (m_answer ar))
  /\ (forall o' ta ip, In (RA o' ta ip) (m_answer ar) -> t <= ta)
  /\ t <= spec_negative_ttl m
  /\ (forall s, cut = Some s -> t <= s).
Proof. intros F. apply owner_and_ttl_with. apply (ttl_ceiling_fixed v (m_ns m) F). Qed.
Lemma owner_and_ttl_partial_lem cf q m mark work ar cut r o t e :
  soa_positive m ->
  x_path (serve old cf q (Some (m, mark)) work (QResp ar) cut) = PSynth ->
  x_reply (serve old cf q (Some (m, mark)) work (QResp ar) cut) = Some r ->
  In (RAAAA o t e) (r_answer r) ->
  (exists ta ip, In (RA o ta ip) (m_answer ar))
  /\ (forall o' ta ip, In (RA o' ta ip) (m_answer ar) -> t <= ta)
  /\ t <= spec_negative_ttl m
  /\ (forall s, cut = Some s -> t <= s).
Proof. intros F. apply owner_and_ttl_with. apply (ttl_ceiling_old_positive (m_ns m) F). Qed.

Definition ttl_witness_down : msg := mk_msg false 1 0 true (Some []) [] [Some (3600, 0)].
Definition ttl_witness_a : msg := mk_msg false 1 0 false None [RA (bs "h.ex.t.") 300 [192; 0; 9; 1]; RA (bs "h.ex.t.") 300 [10; 0; 0; 1]] [].
Lemma owner_and_ttl_refuted_lem :
  exists cf q m mark work ar r o t e,
    x_path (serve old cf q (Some (m, mark)) work (QResp ar) None) = PSynth
    /\ x_reply (serve old cf q (Some (m, mark)) work (QResp ar) None) = Some r
    /\ In (RAAAA o t e) (r_answer r)
    /\ spec_negative_ttl m < t.
Proof.
  exists ad_witness_cf, ad_witness_q, ttl_witness_down, 0, false, ttl_witness_a.
  eexists. exists (bs "h.ex.t."), 300, [0; 100; 255; 155; 0; 0; 0; 0; 0; 0; 0; 0; 192; 0; 9; 1].
  split; [reflexivity|]. split; [reflexivity|]. split; [left; reflexivity|]. reflexivity.
Qed.

(* the owner is the end of the alias chain whenever the A records are *)
Lemma owner_follows_chain_lem v cf q m mark work ar cut r o t e :
  (forall o' ta ip, In (RA o' ta ip) (m_answer ar) -> o' = chain_terminal 16 (q_name q) (m_answer ar)) ->
  x_path (serve v cf q (Some (m, mark)) work (QResp ar) cut) = PSynth ->
  x_reply (serve v cf q (Some (m, mark)) work (QResp ar) cut) = Some r ->
  In (RAAAA o t e) (r_answer r) ->
  o = chain_terminal 16 (q_name q) (m_answer ar).
Proof.
  intros HW HP HR HI. destruct (synthesised_aaaa_sound _ _ _ _ _ _ _ _ _ _ _ _ HP HR HI) as ((p & ta & ip & v4 & _ & Ha & _) & _).
  eapply HW. exact Ha.
Qed.

Lemma never_ad_refuted_lem :
  exists cf q down work al r,
    x_reply (serve old cf q down work al None) = Some r /\ r_same r = false /\ r_ad r = true.
Proof.
  exists ad_witness_cf, ad_witness_q, (Some (ad_witness_down, 0)), false, (QResp ad_witness_a). eexists.
  split; [reflexivity|]. split; reflexivity.
Qed.

Lemma never_ad_partial_lem cf q down work al cut r :
  x_reply (serve old cf q down work al cut) = Some r -> r_same r = false ->
  x_path (serve old cf q down work al cut) <> PFallback ->
  r_ad r = false.
Proof. intros H1 H2 H3. exact (never_ad_gen old cf q down work al cut r H1 H2 (or_intror H3)). Qed.
Lemma never_ad_fixed_lem v cf q down work al cut r :
  fx_fallback_ad v = true ->
  x_reply (serve v cf q down work al cut) = Some r -> r_same r = false -> r_ad r = false.
Proof. intros F H1 H2. exact (never_ad_gen v cf q down work al cut r H1 H2 (or_introl F)). Qed.

(* ---------------- the tree as it is ---------------- *)
Lemma owner_and_ttl_now cf q m mark work ar cut r o t e :
  x_path (serve cur cf q (Some (m, mark)) work (QResp ar) cut) = PSynth ->
  x_reply (serve cur cf q (Some (m, mark)) work (QResp ar) cut) = Some r ->
  In (RAAAA o t e) (r_answer r) ->
  (exists ta ip, In (RA o ta ip) (m_answer ar))
  /\ (forall o' ta ip, In (RA o' ta ip) (m_answer ar) -> t <= ta)
  /\ t <= spec_negative_ttl m
  /\ (forall s, cut = Some s -> t <= s).
Proof. apply owner_and_ttl_fixed_lem. reflexivity. Qed.

Lemma never_ad_now cf q down work al cut r :
  x_reply (serve cur cf q down work al cut) = Some r -> r_same r = false -> r_ad r = false.
Proof. apply never_ad_fixed_lem. reflexivity. Qed.

(* ---------------- alias chains of any length ---------------- *)
(* [alias_chain q l t]: following the CNAME records of l in order leads from
   q to t (owners are matched case-insensitively, as DNS names are); DNAME
   records are carried along — the CNAME the resolver synthesises from a
   DNAME follows it in the answer section. *)
Inductive alias_chain : list N -> list rr -> list N -> Prop :=
| ac_end q t : lower q = lower t -> alias_chain q [] t
| ac_cname q o ttl tgt rest t :
    lower o = lower q -> alias_chain tgt rest t -> alias_chain q (RCNAME o ttl tgt :: rest) t
| ac_dname q o ttl tgt rest t :
    alias_chain q rest t -> alias_chain q (RDNAME o ttl tgt :: rest) t.

Lemma alias_chain_cap ttl q l t : alias_chain q l t -> alias_chain q (map (cap_ttl ttl) l) t.
Proof. induction 1; cbn [map cap_ttl]; constructor; auto. Qed.

Lemma filter_chain_idem (l : list rr) : filter is_chain (filter is_chain l) = filter is_chain l.
Proof.
  induction l as [|x l IH]; [reflexivity|]. cbn [filter]. destruct (is_chain x) eqn:E; [|exact IH].
  cbn [filter]. rewrite E, IH. reflexivity.
Qed.
Lemma filter_chain_cap ttl (l : list rr) :
  filter is_chain (map (cap_ttl ttl) (filter is_chain l)) = map (cap_ttl ttl) (filter is_chain l).
Proof.
  induction l as [|x l IH]; [reflexivity|]. cbn [filter]. destruct (is_chain x) eqn:E; [|exact IH].
  cbn [map filter]. destruct x; try discriminate E; cbn [cap_ttl is_chain]; rewrite IH; reflexivity.
Qed.
Lemma filter_chain_synth c ttl addrs : filter is_chain (synth_rrs c ttl addrs) = [].
Proof.
  assert (forall r, In r (synth_rrs c ttl addrs) -> is_chain r = false) as H.
  { intros r Hr. apply synth_rrs_in in Hr as (p & o & t & ip & v4 & _ & _ & _ & _ & ->). reflexivity. }
  induction (synth_rrs c ttl addrs) as [|x l IH]; [reflexivity|].
  cbn [filter]. rewrite (H x (or_introl eq_refl)). apply IH. intros r Hr. apply H. right. exact Hr.
Qed.

(* the synthesised reply carries the alias chain of the A response — whatever
   its length — from the queried name to its end, and every synthesised AAAA
   sits at that end *)
Lemma owner_after_alias_chain_lem v cf q m mark work ar cut r t :
  x_path (serve v cf q (Some (m, mark)) work (QResp ar) cut) = PSynth ->
  x_reply (serve v cf q (Some (m, mark)) work (QResp ar) cut) = Some r ->
  alias_chain (q_name q) (filter is_chain (m_answer ar)) t ->
  (forall o ta ip, In (RA o ta ip) (m_answer ar) -> o = t) ->
  alias_chain (q_name q) (filter is_chain (r_answer r)) t
  /\ (forall o ttl e, In (RAAAA o ttl e) (r_answer r) -> o = t)
  /\ (exists ttl e, In (RAAAA t ttl e) (r_answer r)).
Proof.
  intros HP HR HC HA.
  destruct (synth_reply_shape _ _ _ _ _ _ _ HP) as (m' & mark' & ar' & Ed & Ea & R & NE).
  injection Ed as <- <-. injection Ea as <-. cbv zeta in R, NE. rewrite R in HR. injection HR as <-. cbn [r_answer].
  split; [|split].
  - rewrite filter_app, filter_chain_cap, filter_chain_synth, app_nil_r. apply alias_chain_cap. exact HC.
  - intros o ttl e HI. apply synth_answer_aaaa in HI; [| apply filter_all | reflexivity ].
    apply synth_rrs_in in HI as (p & o' & ta & ip & v4 & _ & Ha & _ & _ & E). injection E as -> _ _.
    apply filter_In in Ha as (Ha & _). eapply HA. exact Ha.
  - destruct (synth_rrs (compile cf) _ _) as [|x l] eqn:ES; [congruence|].
    assert (In x (synth_rrs (compile cf) (synth_ttl v (m_ns m) (filter is_a (m_answer ar)) cut) (filter is_a (m_answer ar)))) as Hx
      by (rewrite ES; left; reflexivity).
    apply synth_rrs_in in Hx as (p & o' & ta & ip & v4 & _ & Ha & _ & _ & ->).
    apply filter_In in Ha as (Ha & _). rewrite (HA _ _ _ Ha).
    eexists _, _. apply in_app_iff. right. left. reflexivity.
Qed.

(* ---------------- the request tree's bound (af44539) ---------------- *)
Lemma cap_ttl_le ttl r : is_chain r = true -> rr_ttl (cap_ttl ttl r) <= ttl.
Proof.
  destruct r as [| |o t x|o t x| |]; cbn; try discriminate; intros _;
    (destruct (ttl <? t) eqn:E; [lia | apply N.ltb_ge in E; lia]).
Qed.
(* no record of a synthesised answer section — alias chain included — outlives
   the request tree: every TTL is at most the whole seconds left of its bound *)
Lemma synth_reply_within_bound_lem v cf q m mark work ar s r x :
  x_path (serve v cf q (Some (m, mark)) work (QResp ar) (Some s)) = PSynth ->
  x_reply (serve v cf q (Some (m, mark)) work (QResp ar) (Some s)) = Some r ->
  In x (r_answer r) -> rr_ttl x <= s.
Proof.
  intros HP HR HI.
  destruct (synth_reply_shape _ _ _ _ _ _ _ HP) as (m' & mark' & ar' & Ed & Ea & R & _).
  injection Ed as <- <-. injection Ea as <-. cbv zeta in R. rewrite R in HR. injection HR as <-. cbn [r_answer] in HI.
  pose proof (synth_ttl_le_cut v (m_ns m) (filter is_a (m_answer ar)) s) as L.
  apply in_app_iff in HI as [HI|HI].
  - apply in_map_iff in HI as (y & <- & Hy). apply filter_In in Hy as (_ & Hc).
    eapply N.le_trans; [apply cap_ttl_le; exact Hc | exact L].
  - apply synth_rrs_in in HI as (p & o & t & ip & v4 & _ & _ & _ & _ & ->). exact L.
Qed.
(* an unbounded tree (no ResponseMeta, or no cut folded in) is served exactly
   as a tree whose bound lies beyond every TTL in play *)
Lemma far_bound_is_no_bound v ns addrs s :
  ttl_ceiling v ns <= s -> synth_ttl v ns addrs (Some s) = synth_ttl v ns addrs None.
Proof.
  intros H. rewrite synth_ttl_is_min. pose proof (synth_ttl_le_ceiling v ns addrs None). lia.
Qed.

Lemma synth_ttl_min_with_bound_lem v ns addrs s :
  synth_ttl v ns addrs (Some s) = N.min s (synth_ttl v ns addrs None)
  /\ (ttl_ceiling v ns <= s -> synth_ttl v ns addrs (Some s) = synth_ttl v ns addrs None).
Proof. exact (conj (synth_ttl_is_min v ns addrs s) (far_bound_is_no_bound v ns addrs s)). Qed.

(* ---------------- through the production Queryer ---------------- *)
Lemma wire_synth_needs_answered_sub_query cf q down s cut :
  x_path (serve_wire cf q down s cut) = PSynth ->
  exists m mark, s = SubWrite m mark /\ mark <> 2 /\ mark <> 3 /\ m_rcode m = 0
                 /\ exists o t ip, In (RA o t ip) (m_answer m).
Proof.
  unfold serve_wire. intros H. apply synth_needs_a_answer in H as (ar & E & R & A).
  destruct s as [|m mark]; cbn [al_of_script] in E; [discriminate|].
  destruct (mark =? 2) eqn:E2; [discriminate|]. destruct (mark =? 3) eqn:E3; [discriminate|].
  injection E as <-. apply N.eqb_neq in E2, E3. eauto 8.
Qed.
