(* C20 — the secondary query (session 4): what DNS64 asks the Queryer.
   Model.sub_query; tied to the code by the [o_subq] component of every
   handler case (the *dns.Msg the Queryer received / the request the
   sub-pipeline's handler saw over UDP). *)
From Coq Require Import String Ascii.
From Sdns Require Import Common.Base Gen.C20 C20.Model C20.Spec
  C20.Proofs_embed C20.Proofs_ptr C20.Proofs_serve.
Open Scope N_scope.

(* asked exactly when the model says the Queryer was called *)
Lemma sub_query_asked v cf q down work al cut :
  sub_query v cf q down work al cut = None <-> x_aq (serve v cf q down work al cut) = false.
Proof.
  unfold sub_query. destruct (x_aq (serve v cf q down work al cut)).
  - split; [|discriminate]. destruct (gate v (compile cf) q); discriminate.
  - split; reflexivity.
Qed.

Lemma gates_open_cd c q : gates_open c q = true -> q_cd q = false.
Proof.
  unfold gates_open. intros H.
  repeat (apply andb_prop in H as [H ?]).
  destruct (q_cd q); [discriminate | reflexivity].
Qed.

(* a synthesised reply is built from an answered lookup *)
Lemma synth_was_asked v cf q down work al cut :
  x_path (serve v cf q down work al cut) = PSynth -> x_aq (serve v cf q down work al cut) = true.
Proof.
  intros H. destruct (serve_wrapped v cf q down work al cut) as (G & m & mark & -> & E); [tauto|].
  rewrite E in *. destruct (write_msg_reaches_synthesise v (compile cf) m mark work al cut) as (_ & E2); [tauto|].
  rewrite E2 in *. apply synthesise_synth in H as (ar & _ & _ & _ & _ & ->). reflexivity.
Qed.

(* AAAA: the lookup asks for the A records of the queried name, spelled as
   the client spelled it, class IN, RD set, CD clear *)
Lemma a_lookup_question_lem v cf q down work al cut s :
  q_type q = type_aaaa -> sub_query v cf q down work al cut = Some s ->
  s = mk_subq (q_name q) type_a class_in true false.
Proof.
  intros T. unfold sub_query. destruct (x_aq (serve v cf q down work al cut)) eqn:A; [|discriminate].
  destruct (serve_wrapped v cf q down work al cut) as (G & _); [left; auto|].
  rewrite G. intros H. injection H as <-.
  apply gate_wrap in G as (O & _ & _). unfold a_subq. rewrite (gates_open_cd _ _ O). reflexivity.
Qed.

Lemma synthesis_rests_on_a_lookup_lem v cf q down work al cut :
  x_path (serve v cf q down work al cut) = PSynth ->
  sub_query v cf q down work al cut = Some (mk_subq (q_name q) type_a class_in true false)
  /\ exists ar, al = QResp ar /\ m_rcode ar = 0.
Proof.
  intros H. pose proof (synth_was_asked _ _ _ _ _ _ _ H) as A.
  destruct (synth_only_when_lem v cf q down work al cut) as (_ & T & _); [left; exact H|].
  destruct (synth_needs_a_answer v cf q down work al cut H) as (ar & -> & R & _).
  split; [|eauto].
  destruct (sub_query v cf q down work (QResp ar) cut) as [s|] eqn:S.
  - f_equal. eapply a_lookup_question_lem; eauto.
  - apply sub_query_asked in S. congruence.
Qed.

(* PTR: the chase asks for the PTR records of the in-addr.arpa name of the
   address handlePTR decoded — the name the reply's CNAME points at *)
Lemma ptr_chase_question_lem v cf q down work al cut s :
  q_type q = type_ptr -> sub_query v cf q down work al cut = Some s ->
  exists v4, ptr_target v (compile cf) (lower (q_name q)) = Some v4
    /\ s = mk_subq (in_addr_arpa v4) type_ptr class_in true false
    /\ forall r, x_reply (serve v cf q down work al cut) = Some r ->
                 x_path (serve v cf q down work al cut) = PPtr ->
                 exists rest, r_answer r = RCNAME (q_name q) ptr_synth_ttl (sq_name s) :: rest.
Proof.
  intros T. unfold sub_query. destruct (x_aq (serve v cf q down work al cut)) eqn:A; [|discriminate].
  revert A. unfold serve. destruct (gate v (compile cf) q) as [| |v4|] eqn:G.
  - destruct down as [[m mk]|]; cbn [x_aq]; discriminate.
  - destruct down as [[m mk]|]; cbn [x_aq]; discriminate.
  - intros A H. injection H as <-. apply gate_ptr in G as (_ & _ & P).
    exists v4. split; [exact P|]. split; [reflexivity|].
    cbn [ptr_subq sq_name]. unfold ptr_reply.
    destruct al as [|k| |ar]; cbn [x_reply x_path].
    + intros r H _. injection H as <-. cbn [r_answer]. eauto.
    + destruct ((k =? 0) || (k =? 1)); cbn [x_reply x_path]; [intros r _; discriminate|].
      intros r H _. injection H as <-. cbn [r_answer]. eauto.
    + intros r H _. injection H as <-. cbn [r_answer]. eauto.
    + destruct (m_rcode ar =? 0); cbn [x_reply x_path]; intros r H _; injection H as <-; cbn [r_answer]; eauto.
  - apply gate_wrap in G as (_ & T' & _). rewrite T in T'. discriminate.
Qed.

(* what extractIPv4 hands back are octets of the address *)
Lemma nthb_ok l i : bytes_ok l -> nthb l i < 256.
Proof.
  intros B. unfold nthb. destruct (nth_in_or_default i l 0) as [I | ->]; [|lia].
  unfold bytes_ok in B. rewrite Forall_forall in B. apply B, I.
Qed.

Lemma extract_bytes_ok v p a w : length a = 16%nat -> bytes_ok a -> extract v p a = Some w -> bytes_ok w.
Proof.
  intros L B. unfold extract.
  destruct (negb _); [discriminate|]. destruct (negb (valid_bits (n_ones p))); [discriminate|].
  unfold to16. rewrite L. cbn [Nat.eqb].
  assert (forall i j k l, bytes_ok [nthb a i; nthb a j; nthb a k; nthb a l]) as Q.
  { intros. repeat constructor; apply nthb_ok, B. }
  repeat match goal with
         | |- (if ?c then _ else _) = Some _ -> _ => destruct c
         end; intros H; try discriminate; injection H as <-; try apply Q.
  repeat constructor; lia.
Qed.

(* "the matching ip6.arpa PTR query maps back to the same IPv4 address": the
   in-addr.arpa name that is chased (and that the reply's CNAME points at)
   reads back as an IPv4 address whose RFC 6052 embedding under a configured
   prefix is the queried address *)
Lemma ptr_chase_names_embedded_address_lem cf q down work al cut s addr :
  Forall (fun p => legal_prefix (cp_net p) /\ bytes_ok (n_ip (cp_net p))) (c_prefixes (compile cf)) ->
  length addr = 16%nat -> bytes_ok addr -> lower (q_name q) = arpa_name addr -> q_type q = type_ptr ->
  sub_query cur cf q down work al cut = Some s ->
  sq_type s = type_ptr /\ sq_class s = class_in /\ sq_rd s = true /\ sq_cd s = false
  /\ exists p w, In p (c_prefixes (compile cf)) /\ addr = embed (cp_net p) w /\ length w = 4%nat
       /\ should_exclude_a (compile cf) w p = false
       /\ spec_parse_in_addr (sq_name s) = Some w.
Proof.
  intros F L B E T S.
  destruct (ptr_chase_question_lem cur cf q down work al cut s T S) as (v4 & P & -> & _).
  cbn [sq_type sq_class sq_rd sq_cd sq_name]. repeat (split; [reflexivity|]).
  unfold ptr_target in P. rewrite E, parse_arpa_name in P by assumption.
  pose proof (ptr_find_sound _ _ _ _ _ P) as (p0 & _ & X0 & _).
  pose proof (extract_bytes_ok _ _ _ _ L B X0) as B4.
  destruct (ptr_find_embedding_legal _ _ _ _ F L B P) as (p & I & Ea & L4 & X).
  exists p, v4. repeat (split; [assumption|]). apply in_addr_roundtrip; assumption.
Qed.

(* one configured prefix: the very address that was embedded *)
Lemma ptr_chase_single_prefix_lem cf q down work al cut s cp v4 :
  c_prefixes (compile cf) = [cp] -> legal_prefix (cp_net cp) -> bytes_ok (n_ip (cp_net cp)) ->
  length v4 = 4%nat -> bytes_ok v4 ->
  lower (q_name q) = arpa_name (embed (cp_net cp) v4) -> q_type q = type_ptr ->
  sub_query cur cf q down work al cut = Some s ->
  spec_parse_in_addr (sq_name s) = Some v4.
Proof.
  intros Hc Lp Bp L4 B4 E T S.
  destruct (ptr_chase_names_embedded_address_lem cf q down work al cut s (embed (cp_net cp) v4)) as (_ & _ & _ & _ & p & w & I & Ee & Lw & _ & R); auto.
  - rewrite Hc. constructor; [auto | constructor].
  - apply embed_layout_legal; auto.
  - apply bytes_ok_embed_legal; auto.
  - rewrite Hc in I. destruct I as [<-|[]].
    pose proof (extract_embed_legal (cp_net cp) v4 Lp L4) as X1.
    pose proof (extract_embed_legal (cp_net cp) w Lp Lw) as X2.
    rewrite Ee in X1. rewrite X1 in X2. injection X2 as ->. exact R.
Qed.

(* ---------------- forward, then reverse (session 4) ----------------
   Every AAAA the handler synthesises can be asked back: the PTR route's
   decoding of its ip6.arpa name succeeds — whatever the number and nesting
   of the configured prefixes — and yields an IPv4 address whose embedding
   under a configured prefix (not excluded there) is that address.  (The
   driver ties this with the "-of-synth" cases: an address just synthesised is
   asked back under the same configuration.) *)
Lemma to4_some ip v4 : to4 ip = Some v4 -> bytes_ok ip -> length v4 = 4%nat /\ bytes_ok v4.
Proof.
  unfold to4. destruct (length ip =? 4)%nat eqn:E4.
  - intros H B. injection H as <-. apply Nat.eqb_eq in E4. auto.
  - destruct ((length ip =? 16)%nat && is_mapped ip) eqn:E; [|discriminate].
    intros H B. assert (skipn 12 ip = v4) as <- by congruence. apply andb_prop in E as [E _]. apply Nat.eqb_eq in E.
    split; [rewrite skipn_length; lia|].
    unfold bytes_ok in *. rewrite <- (firstn_skipn 12 ip) in B. apply Forall_app in B. tauto.
Qed.

Lemma synthesised_address_reverses_lem cf q m mark work ar cut r o t e :
  Forall (fun p => legal_prefix (cp_net p) /\ bytes_ok (n_ip (cp_net p))) (c_prefixes (compile cf)) ->
  (forall o' ta ip, In (RA o' ta ip) (m_answer ar) -> bytes_ok ip) ->
  x_path (serve cur cf q (Some (m, mark)) work (QResp ar) cut) = PSynth ->
  x_reply (serve cur cf q (Some (m, mark)) work (QResp ar) cut) = Some r ->
  In (RAAAA o t e) (r_answer r) ->
  exists w, ptr_target cur (compile cf) (lower (arpa_name e)) = Some w
    /\ exists p, In p (c_prefixes (compile cf)) /\ e = embed (cp_net p) w /\ length w = 4%nat
                 /\ should_exclude_a (compile cf) w p = false.
Proof.
  intros F BA HP HR HI.
  destruct (synthesised_aaaa_sound cur _ _ _ _ _ _ _ _ _ _ _ HP HR HI) as ((p & ta & ip & v4 & Hp & Ha & T & -> & W) & _).
  pose proof F as F'. rewrite Forall_forall in F'. destruct (F' p Hp) as (Lp & Bp).
  destruct (to4_some _ _ T (BA _ _ _ Ha)) as (L4 & B4).
  assert (should_exclude_a (compile cf) v4 p = false) as X.
  { unfold should_exclude_a. destruct (compile_prefixes_valid cf p Hp) as (_ & -> & _).
    destruct (is_well_known (cp_net p)) eqn:K; [cbn [andb]; apply W; reflexivity | reflexivity]. }
  destruct (ptr_target_translates (compile cf) p v4 Hp Lp Bp L4 B4 X) as (w & P).
  exists w. split; [exact P|].
  assert (bytes_ok (embed (cp_net p) v4)) as Be by (apply bytes_ok_embed_legal; auto).
  unfold ptr_target in P. rewrite lower_arpa_name in P by exact Be.
  assert (length (embed (cp_net p) v4) = 16%nat) as Le by (apply embed_layout_legal; auto).
  rewrite parse_arpa_name in P by assumption.
  destruct (ptr_find_embedding_legal _ _ _ _ F Le Be P) as (p' & I & E & Lw & Xw). eauto.
Qed.

(* ---------------- excluded zones, however they are spelled (session 4) ----------------
   An exclude_zones entry counts whatever its letter case, the blanks around it
   and with or without the final dot (compileConfig: TrimSpace . ToLower, then
   the dot), and a query counts whatever its letter case: a name that is the
   zone or ends in "." ++ zone is never synthesised for, and not even looked up. *)
Definition fq (z : list N) : list N := if has_suffix z [46] then z else z ++ [46].

Lemma zone_compiled cf z :
  In z (cf_zones cf) -> trim_space (lower z) <> [] -> In (fq (trim_space (lower z))) (c_zones (compile cf)).
Proof.
  intros I NE. unfold compile. cbn [c_zones]. apply in_flat_map. exists z. split; [exact I|].
  unfold norm_zone, fq. destruct (trim_space (lower z)) as [|c r] eqn:E; [congruence|].
  destruct (has_suffix (c :: r) [46]); left; reflexivity.
Qed.

Lemma zone_excluded_in c qn zn :
  In zn (c_zones c) -> qn = zn \/ has_suffix qn (46 :: zn) = true -> zone_excluded c qn = true.
Proof.
  intros I H. unfold zone_excluded. apply existsb_exists. exists zn. split; [exact I|].
  destruct H as [-> | ->]; [rewrite list_eqb_refl; reflexivity | apply orb_true_r].
Qed.

Lemma excluded_zone_no_synthesis cf q down work al cut z :
  In z (cf_zones cf) -> trim_space (lower z) <> [] ->
  lower (q_name q) = fq (trim_space (lower z))
  \/ has_suffix (lower (q_name q)) (46 :: fq (trim_space (lower z))) = true ->
  x_path (serve cur cf q down work al cut) <> PSynth
  /\ (q_type q = type_aaaa -> x_aq (serve cur cf q down work al cut) = false).
Proof.
  intros I NE H.
  assert (zone_excluded (compile cf) (lower (q_name q)) = true) as Z
    by (eapply zone_excluded_in; [apply zone_compiled; eassumption | exact H]).
  split.
  - intros HP. destruct (synth_only_when_lem cur cf q down work al cut (or_introl HP)) as (_ & _ & Z' & _). congruence.
  - intros T. destruct (x_aq (serve cur cf q down work al cut)) eqn:A; [|reflexivity].
    destruct (synth_only_when_lem cur cf q down work al cut (or_intror (conj A T))) as (_ & _ & Z' & _). congruence.
Qed.
