(* C20 — RFC 6052: embedIPv4 / extractIPv4 / validatePrefix.  All statements
   are symbolic in the sixteen prefix bytes and the four address bytes. *)
From Coq Require Import String Ascii.
From Sdns Require Import Common.Base Gen.C20 C20.Model C20.Spec C20.Proofs_gen.
Open Scope N_scope.

(* a prefix as net.ParseCIDR + validatePrefix deliver it: 16 bytes, host part zero *)
Definition masked (p : ipnet) : bool := all_zero (skipn (N.to_nat (n_ones p / 8)) (n_ip p)).
Definition wf_prefix (p : ipnet) : Prop :=
  validate_prefix p = true /\ length (n_ip p) = 16%nat /\ masked p = true.
(* the corner in which the current tree fails: the embedded address has
   ::ffff:a.b.c.d form although the prefix has not *)
Definition quirk (p : ipnet) (v4 : list N) : bool := is_mapped (embed p v4) && negb (is_mapped (n_ip p)).

Lemma valid_bits_cases b : valid_bits b = true -> b = 32 \/ b = 40 \/ b = 48 \/ b = 56 \/ b = 64 \/ b = 96.
Proof.
  unfold valid_bits. rewrite gen_valid_prefix_bits. cbn [existsb]. rewrite !orb_true_iff, !N.eqb_eq. intuition discriminate.
Qed.
Lemma valid_bits_ok b : b = 32 \/ b = 40 \/ b = 48 \/ b = 56 \/ b = 64 \/ b = 96 -> valid_bits b = true.
Proof. intros [->|[->|[->|[->|[->| ->]]]]]; reflexivity. Qed.

Lemma validate_prefix_inv p :
  validate_prefix p = true ->
  n_mlen p = 16 /\ (n_ones p = 32 \/ n_ones p = 40 \/ n_ones p = 48 \/ n_ones p = 56 \/ n_ones p = 64 \/ n_ones p = 96)
  /\ (n_ones p = 96 -> (9 <= length (n_ip p))%nat -> nthb (n_ip p) 8 = 0).
Proof.
  unfold validate_prefix. intros H. apply andb_prop in H as [H Hu]. apply andb_prop in H as [Hm Hb].
  apply N.eqb_eq in Hm. split; [exact Hm|]. split; [apply valid_bits_cases; exact Hb|].
  intros E L. rewrite E in Hu. rewrite N.eqb_refl in Hu. cbn [andb] in Hu.
  apply Nat.leb_le in L. rewrite L in Hu. cbn [andb] in Hu.
  apply negb_true_iff in Hu. apply negb_false_iff in Hu. apply N.eqb_eq in Hu. exact Hu.
Qed.

Ltac explode_list l :=
  repeat match goal with
  | H : length l = _ |- _ => destruct l as [|? l]; cbn [length] in H; try discriminate H; try (apply Nat.succ_inj in H)
  end.

Lemma length16 (l : list N) : length l = 16%nat ->
  exists a0 a1 a2 a3 a4 a5 a6 a7 a8 a9 a10 a11 a12 a13 a14 a15, l = [a0;a1;a2;a3;a4;a5;a6;a7;a8;a9;a10;a11;a12;a13;a14;a15].
Proof.
  intros H. do 16 (destruct l as [|? l]; [discriminate H|]). destruct l; [|discriminate H]. repeat eexists.
Qed.
Lemma length4 (l : list N) : length l = 4%nat -> exists a b c d, l = [a; b; c; d].
Proof. intros H. do 4 (destruct l as [|? l]; [discriminate H|]). destruct l; [|discriminate H]. repeat eexists. Qed.

Lemma all_zero_cons x l : all_zero (x :: l) = true -> x = 0 /\ all_zero l = true.
Proof. cbn. intros H. apply andb_prop in H as [A B]. apply N.eqb_eq in A. auto. Qed.

Ltac zero_tail H :=
  repeat (apply all_zero_cons in H; let E := fresh "E" in destruct H as [E H]; subst).

Lemma land_eqb_refl a m : (N.land a m =? N.land a m) = true.
Proof. apply N.eqb_refl. Qed.
Lemma land0_eqb a b : (N.land a 0 =? N.land b 0) = true.
Proof. rewrite !N.land_0_r. reflexivity. Qed.

Arguments is_mapped : simpl never.

Lemma mask_bytes_16 ones : mask_bytes ones 16 =
  map (mask_byte ones) [0;1;2;3;4;5;6;7;8;9;10;11;12;13;14;15]%nat.
Proof. reflexivity. Qed.

(* the shape of a well-formed prefix, per length *)
Lemma wf_prefix_shape p : wf_prefix p ->
  exists a0 a1 a2 a3 a4 a5 a6 a7 a9 a10 a11,
    (p = mk_net [a0;a1;a2;a3;0;0;0;0;0;0;0;0;0;0;0;0] 32 16) \/
    (p = mk_net [a0;a1;a2;a3;a4;0;0;0;0;0;0;0;0;0;0;0] 40 16) \/
    (p = mk_net [a0;a1;a2;a3;a4;a5;0;0;0;0;0;0;0;0;0;0] 48 16) \/
    (p = mk_net [a0;a1;a2;a3;a4;a5;a6;0;0;0;0;0;0;0;0;0] 56 16) \/
    (p = mk_net [a0;a1;a2;a3;a4;a5;a6;a7;0;0;0;0;0;0;0;0] 64 16) \/
    (p = mk_net [a0;a1;a2;a3;a4;a5;a6;a7;0;a9;a10;a11;0;0;0;0] 96 16).
Proof.
  intros (Hv & Hl & Hm). destruct p as [ip ones mlen]. cbn in *.
  apply validate_prefix_inv in Hv. cbn in Hv. destruct Hv as (-> & Hb & Hu).
  destruct (length16 _ Hl) as (a0&a1&a2&a3&a4&a5&a6&a7&a8&a9&a10&a11&a12&a13&a14&a15&->).
  unfold masked in Hm. cbn [n_ones n_ip] in Hm.
  exists a0, a1, a2, a3, a4, a5, a6, a7, a9, a10, a11.
  destruct Hb as [->|[->|[->|[->|[->| ->]]]]].
  - left. change (N.to_nat (32 / 8)) with 4%nat in Hm. cbn [skipn] in Hm. zero_tail Hm. reflexivity.
  - right; left. change (N.to_nat (40 / 8)) with 5%nat in Hm. cbn [skipn] in Hm. zero_tail Hm. reflexivity.
  - do 2 right; left. change (N.to_nat (48 / 8)) with 6%nat in Hm. cbn [skipn] in Hm. zero_tail Hm. reflexivity.
  - do 3 right; left. change (N.to_nat (56 / 8)) with 7%nat in Hm. cbn [skipn] in Hm. zero_tail Hm. reflexivity.
  - do 4 right; left. change (N.to_nat (64 / 8)) with 8%nat in Hm. cbn [skipn] in Hm. zero_tail Hm. reflexivity.
  - do 5 right. change (N.to_nat (96 / 8)) with 12%nat in Hm. cbn [skipn] in Hm. zero_tail Hm.
    assert (a8 = 0) as -> by (apply Hu; [reflexivity | cbn; lia]). reflexivity.
Qed.

(* ---------------- Contains, without the To4 shortening in play ---------------- *)
Lemma net_contains_plain n ip :
  n_mlen n = 16 -> length (n_ip n) = 16%nat -> is_mapped (n_ip n) = false ->
  length ip = 16%nat -> is_mapped ip = false ->
  net_contains n ip = masked_eqb (n_ip n) (mask_bytes (n_ones n) 16) ip.
Proof.
  intros Hm Hl Hn Hi Hx. unfold net_contains, net_num_mask, to4.
  rewrite Hi, Hl, Hn, Hx, Hm. cbn [Nat.eqb andb N.eqb Pos.eqb N.to_nat].
  rewrite Hl, Hi. change (Pos.to_nat 16) with 16%nat. reflexivity.
Qed.
Lemma net_contains_mapped n ip :
  n_mlen n = 16 -> length (n_ip n) = 16%nat -> is_mapped (n_ip n) = true ->
  length ip = 16%nat -> is_mapped ip = true ->
  net_contains n ip = masked_eqb (skipn 12 (n_ip n)) (skipn 12 (mask_bytes (n_ones n) 16)) (skipn 12 ip).
Proof.
  intros Hm Hl Hn Hi Hx. unfold net_contains, net_num_mask, to4.
  rewrite Hi, Hl, Hn, Hx, Hm. cbn [Nat.eqb andb N.eqb Pos.eqb N.to_nat].
  change (Pos.to_nat 16) with 16%nat.
  destruct (length16 _ Hi) as (b0&b1&b2&b3&b4&b5&b6&b7&b8&b9&b10&b11&b12&b13&b14&b15&->).
  destruct (length16 _ Hl) as (c0&c1&c2&c3&c4&c5&c6&c7&c8&c9&c10&c11&c12&c13&c14&c15&->).
  reflexivity.
Qed.

Ltac solve_masked :=
  cbn [masked_eqb]; rewrite ?land_eqb_refl, ?land0_eqb; reflexivity.

(* ---------------- extract (embed) ---------------- *)
Lemma quirk_le64 p v4 : is_mapped (n_ip p) = false -> quirk p v4 = false -> is_mapped (embed p v4) = false.
Proof. unfold quirk. intros ->. cbn [negb]. rewrite andb_true_r. auto. Qed.

Lemma extract_embed_old p v4 :
  wf_prefix p -> length v4 = 4%nat -> quirk p v4 = false -> extract old p (embed p v4) = Some v4.
Proof.
  intros W H4 Hq.
  destruct (length4 _ H4) as (v0&v1&v2&v3&->).
  destruct (wf_prefix_shape _ W) as (a0&a1&a2&a3&a4&a5&a6&a7&a9&a10&a11&[->|[->|[->|[->|[->| ->]]]]]).
  1-5: (apply quirk_le64 in Hq; [|reflexivity]);
       unfold extract; cbn [old fx_contains];
       rewrite net_contains_plain; [| reflexivity | reflexivity | reflexivity | reflexivity | exact Hq ].
  - change (mask_bytes (n_ones _) 16) with [255;255;255;255;0;0;0;0;0;0;0;0;0;0;0;0].
    replace (masked_eqb _ _ _) with true by (symmetry; cbn [n_ip]; change (embed _ _) with [a0;a1;a2;a3;v0;v1;v2;v3;0;0;0;0;0;0;0;0]; solve_masked).
    reflexivity.
  - change (mask_bytes (n_ones _) 16) with [255;255;255;255;255;0;0;0;0;0;0;0;0;0;0;0].
    replace (masked_eqb _ _ _) with true by (symmetry; cbn [n_ip]; change (embed _ _) with [a0;a1;a2;a3;a4;v0;v1;v2;0;v3;0;0;0;0;0;0]; solve_masked).
    reflexivity.
  - change (mask_bytes (n_ones _) 16) with [255;255;255;255;255;255;0;0;0;0;0;0;0;0;0;0].
    replace (masked_eqb _ _ _) with true by (symmetry; cbn [n_ip]; change (embed _ _) with [a0;a1;a2;a3;a4;a5;v0;v1;0;v2;v3;0;0;0;0;0]; solve_masked).
    reflexivity.
  - change (mask_bytes (n_ones _) 16) with [255;255;255;255;255;255;255;0;0;0;0;0;0;0;0;0].
    replace (masked_eqb _ _ _) with true by (symmetry; cbn [n_ip]; change (embed _ _) with [a0;a1;a2;a3;a4;a5;a6;v0;0;v1;v2;v3;0;0;0;0]; solve_masked).
    reflexivity.
  - change (mask_bytes (n_ones _) 16) with [255;255;255;255;255;255;255;255;0;0;0;0;0;0;0;0].
    replace (masked_eqb _ _ _) with true by (symmetry; cbn [n_ip]; change (embed _ _) with [a0;a1;a2;a3;a4;a5;a6;a7;0;v0;v1;v2;v3;0;0;0]; solve_masked).
    reflexivity.
  - (* /96: prefix and embedded address are mapped or not together *)
    set (p := mk_net [a0;a1;a2;a3;a4;a5;a6;a7;0;a9;a10;a11;0;0;0;0] 96 16) in *.
    assert (is_mapped (embed p [v0;v1;v2;v3]) = is_mapped (n_ip p)) as Hsame by reflexivity.
    unfold extract; cbn [old fx_contains].
    destruct (is_mapped (n_ip p)) eqn:Em.
    + rewrite net_contains_mapped; [| reflexivity | reflexivity | exact Em | reflexivity | exact Hsame ].
      replace (masked_eqb _ _ _) with true by (symmetry; subst p; cbn [n_ip n_ones];
        change (skipn 12 (mask_bytes 96 16)) with [0;0;0;0];
        change (skipn 12 (embed _ _)) with [v0;v1;v2;v3]; cbn [skipn]; solve_masked).
      reflexivity.
    + rewrite net_contains_plain; [| reflexivity | reflexivity | exact Em | reflexivity | exact Hsame ].
      replace (masked_eqb _ _ _) with true by (symmetry; subst p; cbn [n_ip n_ones];
        change (mask_bytes 96 16) with [255;255;255;255;255;255;255;255;255;255;255;255;0;0;0;0];
        change (embed _ _) with [a0;a1;a2;a3;a4;a5;a6;a7;0;a9;a10;a11;v0;v1;v2;v3]; solve_masked).
      reflexivity.
Qed.

(* with the comparison of fix.patch (hunk 3) there is no side condition *)
Lemma extract_embed_fixed v p v4 :
  fx_contains v = true -> wf_prefix p -> length v4 = 4%nat -> extract v p (embed p v4) = Some v4.
Proof.
  intros Hv W H4.
  destruct (length4 _ H4) as (v0&v1&v2&v3&->).
  destruct (wf_prefix_shape _ W) as (a0&a1&a2&a3&a4&a5&a6&a7&a9&a10&a11&[->|[->|[->|[->|[->| ->]]]]]);
    unfold extract; rewrite Hv;
    match goal with |- context [net_contains16 ?p ?e] =>
      replace (net_contains16 p e) with true
        by (symmetry; unfold net_contains16;
            match goal with |- context [to16 (n_ip ?q)] => let l := eval cbn in (n_ip q) in change (to16 (n_ip q)) with (Some l) end;
            match goal with |- context [to16 (embed ?q ?w)] => let l := eval vm_compute in (embed q w) in change (to16 (embed q w)) with (Some l) end;
            cbn [n_mlen n_ones N.eqb Pos.eqb andb];
            match goal with |- context [mask_bytes ?o 16] => let m := eval vm_compute in (mask_bytes o 16) in change (mask_bytes o 16) with m end;
            solve_masked)
    end; reflexivity.
Qed.

(* the current tree does fail there: ::/56 and 0.0.255.255 *)
Lemma extract_embed_witness :
  let p := mk_net (zeros 16) 56 16 in
  let v4 := [0; 0; 255; 255] in
  wf_prefix p /\ length v4 = 4%nat /\ embed p v4 = [0;0;0;0;0;0;0;0;0;0;255;255;0;0;0;0] /\ extract old p (embed p v4) = None.
Proof. repeat split; reflexivity. Qed.

(* and only there: the corner needs an all-zero /56 or /64 prefix *)
Lemma quirk_only_zero_prefix p v4 :
  wf_prefix p -> length v4 = 4%nat -> quirk p v4 = true ->
  (n_ones p = 56 \/ n_ones p = 64) /\ all_zero (firstn 7 (n_ip p)) = true.
Proof.
  intros W H4 Hq.
  destruct (length4 _ H4) as (v0&v1&v2&v3&->).
  destruct (wf_prefix_shape _ W) as (a0&a1&a2&a3&a4&a5&a6&a7&a9&a10&a11&[->|[->|[->|[->|[->| ->]]]]]).
  1-2: exfalso; revert Hq; unfold quirk; change (is_mapped (embed _ _)) with false; discriminate.
  1: { exfalso; revert Hq; unfold quirk, is_mapped.
       change (nthb (embed _ _) 10) with v3. change (nthb (embed _ _) 11) with 0.
       destruct (v3 =? 255); discriminate. }
  - split; [left; reflexivity|]. unfold quirk in Hq. apply andb_prop in Hq as [Hq _].
    unfold is_mapped in Hq. apply andb_prop in Hq as [_ Hq].
    change (firstn 10 (embed _ _)) with [a0;a1;a2;a3;a4;a5;a6;v0;0;v1] in Hq.
    cbn [n_ip firstn]. cbn [all_zero forallb] in *.
    repeat (apply andb_prop in Hq as [? Hq]). repeat (apply andb_true_intro; split); assumption.
  - split; [right; reflexivity|]. unfold quirk in Hq. apply andb_prop in Hq as [Hq _].
    unfold is_mapped in Hq. apply andb_prop in Hq as [_ Hq].
    change (firstn 10 (embed _ _)) with [a0;a1;a2;a3;a4;a5;a6;a7;0;v0] in Hq.
    cbn [n_ip firstn]. cbn [all_zero forallb] in *.
    repeat (apply andb_prop in Hq as [? Hq]). repeat (apply andb_true_intro; split); assumption.
  - exfalso. revert Hq. unfold quirk.
    change (is_mapped (embed _ _)) with (is_mapped [a0;a1;a2;a3;a4;a5;a6;a7;0;a9;a10;a11;0;0;0;0]).
    cbn [n_ip]. destruct (is_mapped _); discriminate.
Qed.

Lemma extract_embed_partial p v4 :
  wf_prefix p -> length v4 = 4%nat ->
  all_zero (firstn 7 (n_ip p)) = false ->
  extract old p (embed p v4) = Some v4.
Proof.
  intros W H4 Hz. apply extract_embed_old; auto.
  destruct (quirk p v4) eqn:Q; [|reflexivity].
  apply quirk_only_zero_prefix in Q; auto. destruct Q as [_ Q]. congruence.
Qed.

(* ---------------- layout ---------------- *)
Definition suffix_start (bits : N) : nat :=
  if bits =? 32 then 8 else if bits =? 40 then 10 else if bits =? 48 then 11
  else if bits =? 56 then 12 else if bits =? 64 then 13 else 16.

Lemma embed_layout p v4 :
  wf_prefix p -> length v4 = 4%nat ->
  spec_embed p v4 = Some (embed p v4)
  /\ length (embed p v4) = 16%nat
  /\ nthb (embed p v4) 8 = 0
  /\ firstn (N.to_nat (n_ones p / 8)) (embed p v4) = firstn (N.to_nat (n_ones p / 8)) (n_ip p)
  /\ all_zero (skipn (suffix_start (n_ones p)) (embed p v4)) = true.
Proof.
  intros W H4.
  destruct (length4 _ H4) as (v0&v1&v2&v3&->).
  destruct (wf_prefix_shape _ W) as (a0&a1&a2&a3&a4&a5&a6&a7&a9&a10&a11&[->|[->|[->|[->|[->| ->]]]]]);
    repeat split; reflexivity.
Qed.

Lemma spec_valid_of_wf p : wf_prefix p -> spec_valid_prefix p = true.
Proof.
  intros W. destruct (wf_prefix_shape _ W) as (a0&a1&a2&a3&a4&a5&a6&a7&a9&a10&a11&[->|[->|[->|[->|[->| ->]]]]]); reflexivity.
Qed.

(* ---------------- validatePrefix ---------------- *)
Lemma illegal_prefix_rejected_lem p :
  validate_prefix p = true ->
  n_mlen p = 16 /\ In (n_ones p) [32; 40; 48; 56; 64; 96]
  /\ (n_ones p = 96 -> (9 <= length (n_ip p))%nat -> nthb (n_ip p) 8 = 0).
Proof.
  intros H. apply validate_prefix_inv in H. destruct H as (A & B & C). split; [exact A|]. split; [|exact C].
  cbn. intuition.
Qed.
Lemma validate_agrees_spec p :
  length (n_ip p) = 16%nat -> validate_prefix p = spec_valid_prefix p.
Proof.
  intros L. unfold validate_prefix, spec_valid_prefix, valid_bits. rewrite gen_valid_prefix_bits, L.
  cbn [existsb Nat.leb Nat.eqb]. unfold spec_positions.
  destruct (n_mlen p =? 16); cbn [andb]; [|reflexivity].
  destruct (n_ones p =? 32) eqn:E1; [apply N.eqb_eq in E1; rewrite E1; reflexivity|].
  destruct (n_ones p =? 40) eqn:E2; [apply N.eqb_eq in E2; rewrite E2; reflexivity|].
  destruct (n_ones p =? 48) eqn:E3; [apply N.eqb_eq in E3; rewrite E3; reflexivity|].
  destruct (n_ones p =? 56) eqn:E4; [apply N.eqb_eq in E4; rewrite E4; reflexivity|].
  destruct (n_ones p =? 64) eqn:E5; [apply N.eqb_eq in E5; rewrite E5; reflexivity|].
  destruct (n_ones p =? 96) eqn:E6; [apply N.eqb_eq in E6; rewrite E6|reflexivity].
  cbn. destruct (nthb (n_ip p) 8 =? 0); reflexivity.
Qed.

(* ---------------- extract is the inverse: only conformant addresses ---------------- *)
Definition bytes_ok (l : list N) : Prop := Forall (fun b => b < 256) l.

Lemma land_255 x : x < 256 -> N.land x 255 = x.
Proof. intros H. change 255 with (N.ones 8). rewrite N.land_ones. apply N.mod_small. exact H. Qed.

Lemma net_contains_true_plain n ip :
  n_mlen n = 16 -> length (n_ip n) = 16%nat -> is_mapped (n_ip n) = false -> length ip = 16%nat ->
  net_contains n ip = true ->
  is_mapped ip = false /\ masked_eqb (n_ip n) (mask_bytes (n_ones n) 16) ip = true.
Proof.
  intros Hm Hl Hn Hi C. destruct (is_mapped ip) eqn:Ex.
  - exfalso. revert C. unfold net_contains, net_num_mask, to4. rewrite Hi, Hl, Hn, Ex, Hm.
    cbn [Nat.eqb andb N.eqb Pos.eqb]. rewrite Hl.
    destruct (length16 _ Hi) as (b0&b1&b2&b3&b4&b5&b6&b7&b8&b9&b10&b11&b12&b13&b14&b15&->).
    cbn. discriminate.
  - split; [reflexivity|]. rewrite net_contains_plain in C; auto.
Qed.

Ltac split_andb H :=
  repeat match type of H with
  | (_ && _) = true => let A := fresh "A" in apply andb_prop in H as [A H]
  end.
Ltac eqb_to_eq :=
  repeat match goal with
  | H : (_ =? _) = true |- _ => apply N.eqb_eq in H
  end.
Ltac bytes_inv H :=
  repeat match type of H with
  | bytes_ok (_ :: _) => let A := fresh "B" in inversion H as [|? ? A H']; clear H; rename H' into H; subst
  | Forall _ (_ :: _) => let A := fresh "B" in inversion H as [|? ? A H']; clear H; rename H' into H; subst
  end.
Ltac chase H :=
  repeat match type of H with
  | (if negb (?x =? 0) then _ else _) = _ =>
      let E := fresh "Z" in destruct (x =? 0) eqn:E; cbn [negb] in H; [|discriminate H]
  | (if ?c then _ else _) = _ =>
      let E := fresh "Z" in destruct c eqn:E; [|discriminate H]
  end.

Lemma extract_sound_old p a v4 :
  wf_prefix p -> bytes_ok (n_ip p) -> length a = 16%nat -> bytes_ok a ->
  extract old p a = Some v4 -> a = embed p v4 /\ length v4 = 4%nat.
Proof.
  intros W Bp La Ba H.
  destruct (length16 _ La) as (b0&b1&b2&b3&b4&b5&b6&b7&b8&b9&b10&b11&b12&b13&b14&b15&->).
  destruct (wf_prefix_shape _ W) as (a0&a1&a2&a3&a4&a5&a6&a7&a9&a10&a11&[->|[->|[->|[->|[->| ->]]]]]);
    unfold extract in H; cbn [old fx_contains] in H;
    (destruct (net_contains _ _) eqn:C; [|discriminate H]);
    cbn [negb n_ones] in H;
    match type of H with context [valid_bits ?b] => change (valid_bits b) with true in H end;
    cbn [negb] in H;
    change (to16 _) with (Some [b0;b1;b2;b3;b4;b5;b6;b7;b8;b9;b10;b11;b12;b13;b14;b15]) in H;
    cbn [N.eqb Pos.eqb nthb nth skipn all_zero forallb] in H;
    chase H; injection H as <-; (split; [|reflexivity]).
  6: { (* /96 *)
    set (p := mk_net [a0;a1;a2;a3;a4;a5;a6;a7;0;a9;a10;a11;0;0;0;0] 96 16) in *.
    destruct (is_mapped (n_ip p)) eqn:Em.
    - (* both in ::ffff:0:0/96 form *)
      assert (is_mapped [b0;b1;b2;b3;b4;b5;b6;b7;b8;b9;b10;b11;b12;b13;b14;b15] = true) as Ea.
      { destruct (is_mapped [b0;b1;b2;b3;b4;b5;b6;b7;b8;b9;b10;b11;b12;b13;b14;b15]) eqn:Ea; [reflexivity|].
        exfalso. revert C. unfold net_contains, net_num_mask, to4. rewrite Ea, Em. cbn. discriminate. }
      unfold is_mapped in Em, Ea. subst p. cbn [n_ip nthb nth firstn all_zero forallb] in Em, Ea.
      repeat match goal with Z : (_ && _) = true |- _ => apply andb_prop in Z as [? ?] end.
      eqb_to_eq. subst. reflexivity.
    - apply net_contains_true_plain in C; [| reflexivity | reflexivity | exact Em | reflexivity ].
      destruct C as [_ C]. subst p. cbn [n_ip n_ones] in C.
      change (mask_bytes 96 16) with [255;255;255;255;255;255;255;255;255;255;255;255;0;0;0;0] in C.
      cbn [masked_eqb] in C. split_andb C. eqb_to_eq. cbn [n_ip] in Bp. bytes_inv Bp. bytes_inv Ba.
      rewrite !land_255 in * by assumption. subst. reflexivity. }
  all: apply net_contains_true_plain in C; [| reflexivity | reflexivity | reflexivity | reflexivity ];
       destruct C as [_ C]; cbn [n_ip n_ones] in C;
       match type of C with context [mask_bytes ?o 16] => let m := eval vm_compute in (mask_bytes o 16) in change (mask_bytes o 16) with m in C end;
       cbn [masked_eqb] in C; split_andb C;
       repeat match goal with Z : (_ && _) = true |- _ => split_andb Z end;
       eqb_to_eq; cbn [n_ip] in Bp; bytes_inv Bp; bytes_inv Ba;
       rewrite ?land_255 in * by assumption; subst; reflexivity.
Qed.

Lemma extract_rejects_nonconformant_lem p a :
  wf_prefix p -> bytes_ok (n_ip p) -> length a = 16%nat -> bytes_ok a ->
  (forall v4, a <> embed p v4) -> extract old p a = None.
Proof.
  intros W Bp La Ba Hn. destruct (extract old p a) as [v4|] eqn:E; [|reflexivity].
  apply extract_sound_old in E; auto. destruct E as [E _]. exfalso. exact (Hn v4 E).
Qed.
(* in particular a non-zero "u" octet or a non-zero suffix *)
Lemma extract_rejects_u_or_suffix p a :
  wf_prefix p -> bytes_ok (n_ip p) -> length a = 16%nat -> bytes_ok a ->
  nthb a 8 <> 0 \/ all_zero (skipn (suffix_start (n_ones p)) a) = false ->
  extract old p a = None.
Proof.
  intros W Bp La Ba Hbad. destruct (extract old p a) as [v4|] eqn:E; [|reflexivity].
  apply extract_sound_old in E; auto. destruct E as [-> L4].
  destruct (embed_layout p v4 W L4) as (_ & _ & U & _ & S).
  destruct Hbad as [Hb | Hb]; [contradiction | congruence].
Qed.

(* ---------------- the tree as it is (prefixContains) ---------------- *)
Lemma extract_embed_now p v4 :
  wf_prefix p -> length v4 = 4%nat -> extract cur p (embed p v4) = Some v4.
Proof. apply extract_embed_fixed. reflexivity. Qed.

Lemma extract_sound_fixed v p a v4 :
  fx_contains v = true ->
  wf_prefix p -> bytes_ok (n_ip p) -> length a = 16%nat -> bytes_ok a ->
  extract v p a = Some v4 -> a = embed p v4 /\ length v4 = 4%nat.
Proof.
  intros Hv W Bp La Ba H.
  destruct (length16 _ La) as (b0&b1&b2&b3&b4&b5&b6&b7&b8&b9&b10&b11&b12&b13&b14&b15&->).
  destruct (wf_prefix_shape _ W) as (a0&a1&a2&a3&a4&a5&a6&a7&a9&a10&a11&[->|[->|[->|[->|[->| ->]]]]]);
    unfold extract in H; rewrite Hv in H;
    (destruct (net_contains16 _ _) eqn:C; [|discriminate H]);
    cbn [negb n_ones] in H;
    match type of H with context [valid_bits ?b] => change (valid_bits b) with true in H end;
    cbn [negb] in H;
    change (to16 _) with (Some [b0;b1;b2;b3;b4;b5;b6;b7;b8;b9;b10;b11;b12;b13;b14;b15]) in H;
    cbn [N.eqb Pos.eqb nthb nth skipn all_zero forallb] in H;
    chase H; injection H as <-; (split; [|reflexivity]);
    unfold net_contains16 in C; cbn [n_ip n_ones n_mlen] in C;
    match type of C with context [to16 ?l] => change (to16 l) with (Some l) in C end;
    change (to16 [b0;b1;b2;b3;b4;b5;b6;b7;b8;b9;b10;b11;b12;b13;b14;b15])
      with (Some [b0;b1;b2;b3;b4;b5;b6;b7;b8;b9;b10;b11;b12;b13;b14;b15]) in C;
    match type of C with context [mask_bytes ?o 16] => let m := eval vm_compute in (mask_bytes o 16) in change (mask_bytes o 16) with m in C end;
    cbn [N.eqb Pos.eqb andb masked_eqb] in C; split_andb C;
    repeat match goal with Z : (_ && _) = true |- _ => split_andb Z end;
    eqb_to_eq; cbn [n_ip] in Bp; bytes_inv Bp; bytes_inv Ba;
    rewrite ?land_255 in * by assumption; subst; reflexivity.
Qed.

Lemma extract_sound_now p a v4 :
  wf_prefix p -> bytes_ok (n_ip p) -> length a = 16%nat -> bytes_ok a ->
  extract cur p a = Some v4 -> a = embed p v4 /\ length v4 = 4%nat.
Proof. apply extract_sound_fixed. reflexivity. Qed.

Lemma extract_rejects_u_or_suffix_now p a :
  wf_prefix p -> bytes_ok (n_ip p) -> length a = 16%nat -> bytes_ok a ->
  nthb a 8 <> 0 \/ all_zero (skipn (suffix_start (n_ones p)) a) = false ->
  extract cur p a = None.
Proof.
  intros W Bp La Ba Hbad. destruct (extract cur p a) as [v4|] eqn:E; [|reflexivity].
  apply extract_sound_now in E; auto. destruct E as [-> L4].
  destruct (embed_layout p v4 W L4) as (_ & _ & U & _ & S).
  destruct Hbad as [Hb | Hb]; [contradiction | congruence].
Qed.

(* ---------------- no "host part is zero" hypothesis ----------------
   net.ParseCIDR delivers masked prefixes, but nothing in embedIPv4 /
   extractIPv4 (since prefixContains) depends on it: a prefix is legal when
   validatePrefix accepts it and it has 16 bytes. *)
Definition legal_prefix (p : ipnet) : Prop := validate_prefix p = true /\ length (n_ip p) = 16%nat.
Definition mask_prefix (p : ipnet) : ipnet :=
  let pb := N.to_nat (n_ones p / 8) in
  mk_net (firstn pb (n_ip p) ++ zeros (16 - pb)) (n_ones p) (n_mlen p).

Lemma masked_eqb_ext nn nn' m x :
  length nn = length nn' ->
  (forall i, nth i m 0 = 0 \/ nth i nn 0 = nth i nn' 0) ->
  masked_eqb nn m x = masked_eqb nn' m x.
Proof.
  revert nn' m x. induction nn as [|a nn IH]; intros [|a' nn'] m x L H; try discriminate L; [reflexivity|].
  destruct m as [|k m]; [reflexivity|]. destruct x as [|b x]; [reflexivity|]. cbn [masked_eqb].
  rewrite (IH nn' m x); [| cbn in L; lia | intros i; exact (H (S i)) ].
  destruct (H 0%nat) as [E|E]; cbn in E; subst; [rewrite !N.land_0_r|]; reflexivity.
Qed.

Lemma legal_shape p : legal_prefix p ->
  exists a0 a1 a2 a3 a4 a5 a6 a7 a8 a9 a10 a11 a12 a13 a14 a15 ones,
    p = mk_net [a0;a1;a2;a3;a4;a5;a6;a7;a8;a9;a10;a11;a12;a13;a14;a15] ones 16
    /\ (ones = 32 \/ ones = 40 \/ ones = 48 \/ ones = 56 \/ ones = 64 \/ ones = 96)
    /\ (ones = 96 -> a8 = 0).
Proof.
  intros (Hv & Hl). destruct p as [ip ones mlen]. cbn in *.
  apply validate_prefix_inv in Hv. cbn in Hv. destruct Hv as (-> & Hb & Hu).
  destruct (length16 _ Hl) as (a0&a1&a2&a3&a4&a5&a6&a7&a8&a9&a10&a11&a12&a13&a14&a15&->).
  exists a0,a1,a2,a3,a4,a5,a6,a7,a8,a9,a10,a11,a12,a13,a14,a15,ones. split; [reflexivity|]. split; [exact Hb|].
  intros E. apply Hu; [exact E | cbn; lia].
Qed.

Lemma mask_prefix_wf p : legal_prefix p -> wf_prefix (mask_prefix p).
Proof.
  intros L. destruct (legal_shape p L) as (a0&a1&a2&a3&a4&a5&a6&a7&a8&a9&a10&a11&a12&a13&a14&a15&ones&->&Hb&Hu).
  destruct Hb as [->|[->|[->|[->|[->| ->]]]]]; try (repeat split; reflexivity).
  rewrite (Hu eq_refl). repeat split; reflexivity.
Qed.
Lemma mask_prefix_embed p v4 : legal_prefix p -> embed (mask_prefix p) v4 = embed p v4.
Proof.
  intros L. destruct (legal_shape p L) as (a0&a1&a2&a3&a4&a5&a6&a7&a8&a9&a10&a11&a12&a13&a14&a15&ones&->&Hb&_).
  destruct Hb as [->|[->|[->|[->|[->| ->]]]]]; reflexivity.
Qed.
Lemma mask_prefix_spec_embed p v4 : legal_prefix p -> spec_embed (mask_prefix p) v4 = spec_embed p v4.
Proof.
  intros L. destruct (legal_shape p L) as (a0&a1&a2&a3&a4&a5&a6&a7&a8&a9&a10&a11&a12&a13&a14&a15&ones&->&Hb&_).
  destruct Hb as [->|[->|[->|[->|[->| ->]]]]]; reflexivity.
Qed.
Lemma mask_prefix_bytes_ok p : legal_prefix p -> bytes_ok (n_ip p) -> bytes_ok (n_ip (mask_prefix p)).
Proof.
  intros L B. destruct (legal_shape p L) as (a0&a1&a2&a3&a4&a5&a6&a7&a8&a9&a10&a11&a12&a13&a14&a15&ones&->&Hb&_).
  cbn [n_ip] in B. bytes_inv B.
  destruct Hb as [->|[->|[->|[->|[->| ->]]]]];
    match goal with |- bytes_ok (n_ip (mask_prefix ?q)) => let l := eval cbn in (n_ip (mask_prefix q)) in change (n_ip (mask_prefix q)) with l end;
    repeat constructor; assumption || lia.
Qed.
Lemma mask_prefix_extract p a : legal_prefix p -> extract cur (mask_prefix p) a = extract cur p a.
Proof.
  intros L. destruct (legal_shape p L) as (a0&a1&a2&a3&a4&a5&a6&a7&a8&a9&a10&a11&a12&a13&a14&a15&ones&->&Hb&_).
  assert (forall q q', n_ones q = n_ones q' -> net_contains16 q a = net_contains16 q' a -> extract cur q a = extract cur q' a) as Hx.
  { intros q q' E1 E2. unfold extract. cbn [cur fx_contains]. rewrite E1, E2. reflexivity. }
  destruct Hb as [->|[->|[->|[->|[->| ->]]]]]; apply Hx; try reflexivity;
    unfold net_contains16;
    match goal with |- context [to16 (n_ip (mask_prefix ?q))] =>
      let l := eval cbn in (n_ip (mask_prefix q)) in change (to16 (n_ip (mask_prefix q))) with (Some l) end;
    match goal with |- context [to16 (n_ip (mk_net ?l ?o ?k))] => change (to16 (n_ip (mk_net l o k))) with (Some l) end;
    destruct (to16 a) as [x|]; try reflexivity; cbn [n_mlen n_ones mask_prefix N.eqb Pos.eqb andb];
    match goal with |- context [mask_bytes ?o 16] => let m := eval vm_compute in (mask_bytes o 16) in change (mask_bytes o 16) with m end;
    (apply masked_eqb_ext; [reflexivity|]);
    intros i; do 16 (destruct i as [|i]; [cbn; auto|]); cbn; destruct i; auto.
Qed.

Lemma extract_embed_legal p v4 :
  legal_prefix p -> length v4 = 4%nat -> extract cur p (embed p v4) = Some v4.
Proof.
  intros L H4. rewrite <- mask_prefix_extract, <- mask_prefix_embed by exact L.
  apply extract_embed_now; [apply mask_prefix_wf; exact L | exact H4].
Qed.
Lemma extract_sound_legal p a v4 :
  legal_prefix p -> bytes_ok (n_ip p) -> length a = 16%nat -> bytes_ok a ->
  extract cur p a = Some v4 -> a = embed p v4 /\ length v4 = 4%nat.
Proof.
  intros L Bp La Ba H. rewrite <- mask_prefix_extract in H by exact L. rewrite <- mask_prefix_embed by exact L.
  apply extract_sound_now; auto; [apply mask_prefix_wf | apply mask_prefix_bytes_ok]; auto.
Qed.
Lemma embed_layout_legal p v4 :
  legal_prefix p -> length v4 = 4%nat ->
  spec_embed p v4 = Some (embed p v4)
  /\ length (embed p v4) = 16%nat
  /\ nthb (embed p v4) 8 = 0
  /\ firstn (N.to_nat (n_ones p / 8)) (embed p v4) = firstn (N.to_nat (n_ones p / 8)) (n_ip p)
  /\ all_zero (skipn (suffix_start (n_ones p)) (embed p v4)) = true.
Proof.
  intros L H4. destruct (legal_shape p L) as (a0&a1&a2&a3&a4&a5&a6&a7&a8&a9&a10&a11&a12&a13&a14&a15&ones&->&Hb&Hu).
  destruct (length4 _ H4) as (v0&v1&v2&v3&->).
  destruct Hb as [->|[->|[->|[->|[->| ->]]]]]; try (repeat split; reflexivity).
  rewrite (Hu eq_refl). repeat split; reflexivity.
Qed.
Lemma extract_rejects_legal p a :
  legal_prefix p -> bytes_ok (n_ip p) -> length a = 16%nat -> bytes_ok a ->
  nthb a 8 <> 0 \/ all_zero (skipn (suffix_start (n_ones p)) a) = false ->
  extract cur p a = None.
Proof.
  intros L Bp La Ba Hbad. destruct (extract cur p a) as [v4|] eqn:E; [|reflexivity].
  apply extract_sound_legal in E; auto. destruct E as [-> L4].
  destruct (embed_layout_legal p v4 L L4) as (_ & _ & U & _ & S).
  destruct Hbad as [Hb | Hb]; [contradiction | congruence].
Qed.
