(* C20 — the reply built from the A response (RFC 6147 5.1.6,
   buildAResponseAsBasis) with the cap of 1a0e74f (capRelayedTTLs), and
   "inside a configured network" as a statement about numbers: what the
   model's net.IPNet.Contains accepts lies numerically inside the range. *)
From Coq Require Import String Ascii.
From Sdns Require Import Common.Base Gen.C20 C20.Model C20.Spec C20.Proofs_gen C20.Proofs_embed C20.Proofs_serve.
Open Scope N_scope.

(* ---------------- the relayed records ---------------- *)
Lemma rr_ttl_set_ttl t r : rr_ttl (set_ttl t r) = t.
Proof. destruct r; reflexivity. Qed.
Lemma set_ttl_same r : set_ttl (rr_ttl r) r = r.
Proof. destruct r; reflexivity. Qed.
Lemma is_chain_set_ttl t r : is_chain (set_ttl t r) = is_chain r.
Proof. destruct r; reflexivity. Qed.
Lemma is_aaaa_set_ttl t r : is_aaaa (set_ttl t r) = is_aaaa r.
Proof. destruct r; reflexivity. Qed.

Lemma relay_rr_none r : relay_rr None r = r.
Proof. unfold relay_rr. cbn [bound_ttl]. apply set_ttl_same. Qed.
Lemma relay_rrs_none l : relay_rrs None l = l.
Proof. unfold relay_rrs. induction l as [|x l IH]; cbn; [reflexivity|]. rewrite relay_rr_none. f_equal. exact IH. Qed.
Lemma relay_rr_ttl cut r : rr_ttl (relay_rr cut r) = bound_ttl cut (rr_ttl r).
Proof. unfold relay_rr. apply rr_ttl_set_ttl. Qed.
(* a record already inside the bound is relayed as it is (the code does not even copy it) *)
Lemma relay_rr_within s r : rr_ttl r <= s -> relay_rr (Some s) r = r.
Proof.
  intros H. unfold relay_rr. cbn [bound_ttl]. destruct (s <? rr_ttl r) eqn:E; [apply N.ltb_lt in E; lia|]. apply set_ttl_same.
Qed.

(* what synthesise returns on the A-basis path *)
Lemma synthesise_abasis v c m same al cut :
  x_path (synthesise v c m same al cut) = PABasis ->
  exists ar, al = QResp ar
    /\ (m_rcode ar <> 0 \/ filter is_a (m_answer ar) = [])
    /\ synthesise v c m same al cut =
       mk_result PABasis
         (Some (mk_reply false (m_rcode ar) false (basis_edes m) (relay_rrs cut (filter is_chain (m_answer ar))))) true true.
Proof.
  unfold synthesise, fallback. destruct al as [|k| |ar]; cbn [x_path]; try discriminate.
  - destruct ((k =? 0) || (k =? 1)); cbn [x_path]; discriminate.
  - destruct (m_rcode ar =? 0) eqn:E0; cbn [negb orb x_path].
    + destruct (length (filter is_a (m_answer ar)) =? 0)%nat eqn:EA; cbn [x_path].
      * intros _. exists ar. split; [reflexivity|]. split; [|reflexivity].
        right. apply Nat.eqb_eq in EA. destruct (filter is_a (m_answer ar)); [reflexivity|discriminate].
      * destruct (length (synth_rrs _ _ _) =? 0)%nat; cbn [x_path]; discriminate.
    + intros _. exists ar. split; [reflexivity|]. split; [|reflexivity]. left. apply N.eqb_neq. exact E0.
Qed.

Lemma basis_edes_filtered c m : basis_edes (filtered_msg c m) = basis_edes m.
Proof. unfold filtered_msg. destruct (m_rcode m =? 0); reflexivity. Qed.

(* the A-basis reply of the whole handler: the A response's rcode, AD clear,
   the alias chain of the A answer in its order, every record as it was except
   that a TTL beyond the request tree's bound is lowered to the bound *)
Lemma abasis_reply_lem v cf q down work al cut r :
  x_path (serve v cf q down work al cut) = PABasis ->
  x_reply (serve v cf q down work al cut) = Some r ->
  exists m mark ar, down = Some (m, mark) /\ al = QResp ar
    /\ (m_rcode ar <> 0 \/ filter is_a (m_answer ar) = [])
    /\ gates_open (compile cf) q = true /\ q_type q = type_aaaa
    /\ down_allows (compile cf) m mark work = true
    /\ r = mk_reply false (m_rcode ar) false (basis_edes m) (relay_rrs cut (filter is_chain (m_answer ar))).
Proof.
  intros HP HR.
  destruct (serve_wrapped v cf q down work al cut) as (G & m & mark & -> & E); [tauto|].
  apply gate_wrap in G as (GO & T & _).
  rewrite E in HP, HR.
  destruct (write_msg_reaches_synthesise v (compile cf) m mark work al cut) as (DA & E2); [tauto|].
  rewrite E2 in HP, HR. apply synthesise_abasis in HP as (ar & -> & K & R). rewrite R in HR. cbn [x_reply] in HR.
  injection HR as <-. exists m, mark, ar. rewrite basis_edes_filtered. repeat split; auto.
Qed.

Lemma abasis_within_bound_lem v cf q down work al cut r x :
  x_path (serve v cf q down work al cut) = PABasis ->
  x_reply (serve v cf q down work al cut) = Some r ->
  In x (r_answer r) ->
  r_ad r = false
  /\ (forall s, cut = Some s -> rr_ttl x <= s)
  /\ exists ar y, al = QResp ar /\ In y (m_answer ar) /\ is_chain y = true
       /\ x = set_ttl (bound_ttl cut (rr_ttl y)) y /\ rr_ttl x <= rr_ttl y.
Proof.
  intros HP HR HI.
  destruct (abasis_reply_lem _ _ _ _ _ _ _ _ HP HR) as (m & mark & ar & -> & -> & _ & _ & _ & _ & ->).
  cbn [r_ad r_answer] in *. split; [reflexivity|].
  unfold relay_rrs in HI. apply in_map_iff in HI as (y & <- & Hy). apply filter_In in Hy as (Hy & C).
  split.
  - intros s ->. rewrite relay_rr_ttl. apply bound_ttl_le_cut.
  - exists ar, y. repeat split; auto. rewrite relay_rr_ttl. apply bound_ttl_le.
Qed.

(* without a bound on the request tree the reply is the tree before 1a0e74f *)
Lemma abasis_unbounded_lem v cf q down work al r :
  x_path (serve v cf q down work al None) = PABasis ->
  x_reply (serve v cf q down work al None) = Some r ->
  exists ar, al = QResp ar /\ r_answer r = filter is_chain (m_answer ar).
Proof.
  intros HP HR.
  destruct (abasis_reply_lem _ _ _ _ _ _ _ _ HP HR) as (m & mark & ar & -> & -> & _ & _ & _ & _ & ->).
  exists ar. split; [reflexivity|]. cbn [r_answer]. apply relay_rrs_none.
Qed.

(* no AAAA record reaches the client on this path: nothing is synthesised *)
Lemma abasis_no_aaaa_lem v cf q down work al cut r x :
  x_path (serve v cf q down work al cut) = PABasis ->
  x_reply (serve v cf q down work al cut) = Some r ->
  In x (r_answer r) -> is_aaaa x = false.
Proof.
  intros HP HR HI.
  destruct (abasis_reply_lem _ _ _ _ _ _ _ _ HP HR) as (m & mark & ar & -> & -> & _ & _ & _ & _ & ->).
  cbn [r_answer] in HI. unfold relay_rrs in HI. apply in_map_iff in HI as (y & <- & Hy). apply filter_In in Hy as (_ & C).
  unfold relay_rr. rewrite is_aaaa_set_ttl. destruct y; try discriminate; reflexivity.
Qed.

(* non-vacuity (the first case the check reported against 1a0e74f): the A lookup
   ends in NXDOMAIN behind DNAME 15964 s + CNAME 0 s, the request tree ends in
   3599 s: the reply relays DNAME 3599 s + CNAME 0 s; without a bound, or with
   a bound beyond every TTL, the chain is relayed as it is *)
Definition ex_ab_cf : config := mk_config [Some (mk_net (zeros 16) 96 16)] [] [] None None.
Definition ex_ab_q : query := mk_query 1 1 28 (bs "h.ex.t.") true false true false [203; 0; 113; 9].
Definition ex_ab_down : msg := mk_msg false 1 0 false (Some []) [] [Some (1, 601)].
Definition ex_ab_a : msg :=
  mk_msg false 1 3 false None [RDNAME (bs "ex.t.") 15964 (bs "d.u."); RCNAME (bs "h.ex.t.") 0 (bs "h.d.u.")] [Some (1, 60)].
Example ex_abasis_cap :
  let run cut := serve cur ex_ab_cf ex_ab_q (Some (ex_ab_down, 0)) false (QResp ex_ab_a) cut in
  x_path (run (Some 3599)) = PABasis
  /\ x_reply (run (Some 3599)) =
     Some (mk_reply false 3 false [] [RDNAME (bs "ex.t.") 3599 (bs "d.u."); RCNAME (bs "h.ex.t.") 0 (bs "h.d.u.")])
  /\ x_reply (run None) = Some (mk_reply false 3 false [] (m_answer ex_ab_a))
  /\ x_reply (run (Some 86400)) = x_reply (run None)
  /\ x_reply (run (Some 0)) =
     Some (mk_reply false 3 false [] [RDNAME (bs "ex.t.") 0 (bs "d.u."); RCNAME (bs "h.ex.t.") 0 (bs "h.d.u.")]).
Proof. vm_compute. repeat split; reflexivity. Qed.

(* ---------------- synthesis is due (round 6) ----------------
   The converse of synth_only_when: behind every gate, with a downstream reply
   that leaves room and a lookup answered NOERROR with an A record that some
   compiled prefix does not exclude — wherever it stands in the answer, whatever
   its owner — the handler synthesises. *)
Lemma gate_wrap_conv v c q :
  gates_open c q = true -> q_type q = type_aaaa -> zone_excluded c (lower (q_name q)) = false -> gate v c q = GWrap.
Proof.
  unfold gates_open, gate. intros G T Z.
  destruct (q_nq q =? 1); cbn [negb andb] in *; [|discriminate].
  destruct (q_class q =? class_in); cbn [negb andb] in *; [|discriminate].
  destruct (q_internal q); cbn [negb andb] in *; [discriminate|].
  destruct (q_rd q); cbn [negb andb] in *; [|discriminate].
  destruct (q_cd q); cbn [negb andb] in *; [discriminate|].
  rewrite G. cbn [negb]. rewrite T. change (type_aaaa =? type_aaaa) with true. change (type_aaaa =? type_ptr) with false.
  cbn [orb negb]. rewrite Z. reflexivity.
Qed.

Lemma no_usable_aaaa c ans :
  forallb (fun r => negb (is_aaaa r) || aaaa_excluded c r) ans = true ->
  filter (fun r => is_aaaa r && negb (aaaa_excluded c r)) ans = [].
Proof.
  intros F. rewrite forallb_forall in F. induction ans as [|x l IH]; [reflexivity|]. cbn [filter].
  pose proof (F x (or_introl eq_refl)) as Hx.
  assert (is_aaaa x && negb (aaaa_excluded c x) = false) as ->.
  { destruct (is_aaaa x), (aaaa_excluded c x); cbn in *; congruence. }
  apply IH. intros y Hy. apply F. right. exact Hy.
Qed.

Lemma write_msg_conv v c m mark work al cut :
  down_allows c m mark work = true ->
  write_msg v c m mark work al cut = synthesise v c (filtered_msg c m) (filtered_same c m) al cut.
Proof.
  unfold down_allows, write_msg, filtered_msg, filtered_same. intros D.
  repeat (apply andb_prop in D as [D ?]).
  repeat match goal with H : negb _ = true |- _ => apply negb_true_iff in H end.
  repeat match goal with H : (_ || _) = false |- _ => apply orb_false_iff in H as [? ?] end.
  repeat match goal with H : ?x = false |- _ => rewrite H end. cbn [orb].
  destruct (m_rcode m =? 0) eqn:E0; [|reflexivity].
  match goal with H : _ || _ = true |- _ => cbn [negb orb] in H; rename H into F end.
  unfold filter_aaaa. rewrite (no_usable_aaaa c _ F). cbn [length Nat.ltb Nat.leb andb]. rewrite andb_false_r. reflexivity.
Qed.

Lemma synthesis_when_due_lem v cf q m mark work ar cut p o ta ip v4 :
  gates_open (compile cf) q = true -> q_type q = type_aaaa ->
  zone_excluded (compile cf) (lower (q_name q)) = false ->
  down_allows (compile cf) m mark work = true ->
  m_rcode ar = 0 ->
  In p (c_prefixes (compile cf)) -> In (RA o ta ip) (m_answer ar) -> to4 ip = Some v4 ->
  should_exclude_a (compile cf) v4 p = false ->
  x_path (serve v cf q (Some (m, mark)) work (QResp ar) cut) = PSynth
  /\ exists r t, x_reply (serve v cf q (Some (m, mark)) work (QResp ar) cut) = Some r
       /\ In (RAAAA o t (embed (cp_net p) v4)) (r_answer r).
Proof.
  intros G T Z D R0 Hp Ha T4 X.
  unfold serve. rewrite (gate_wrap_conv v _ _ G T Z). rewrite (write_msg_conv v _ _ _ _ _ _ D).
  unfold synthesise. rewrite R0. cbn [N.eqb negb orb].
  assert (In (RA o ta ip) (filter is_a (m_answer ar))) as Ia by (apply filter_In; split; [exact Ha | reflexivity]).
  destruct (filter is_a (m_answer ar)) as [|a0 l0] eqn:EA; [destruct Ia|]. cbn [length Nat.eqb]. rewrite <- EA in *.
  set (ttl := synth_ttl v (m_ns (filtered_msg (compile cf) m)) (filter is_a (m_answer ar)) cut).
  assert (In (RAAAA o ttl (embed (cp_net p) v4)) (synth_rrs (compile cf) ttl (filter is_a (m_answer ar)))) as Is.
  { apply synth_rrs_in. exists p, o, ta, ip, v4. auto. }
  destruct (synth_rrs (compile cf) ttl (filter is_a (m_answer ar))) as [|s0 sl] eqn:ES; [destruct Is|].
  cbn [length Nat.eqb x_path x_reply]. split; [reflexivity|].
  eexists _, ttl. split; [reflexivity|]. cbn [r_answer]. apply in_app_iff. right. exact Is.
Qed.

(* non-vacuity: the two hops of the chain swapped and the address first — still
   synthesised, owner c1.u., chain relayed in the order it came *)
Example ex_out_of_order :
  let a := mk_msg false 1 0 false None
             [RA (bs "c1.u.") 120 [192; 0; 9; 1]; RCNAME (bs "c0.u.") 300 (bs "c1.u."); RCNAME (bs "h.ex.t.") 300 (bs "c0.u.")] [] in
  let x := serve cur (mk_config [Some wkp_net] [] [] None None) ex_ab_q (Some (ex_ab_down, 0)) false (QResp a) None in
  x_path x = PSynth
  /\ x_reply x = Some (mk_reply false 0 false []
       [RCNAME (bs "c0.u.") 1 (bs "c1.u."); RCNAME (bs "h.ex.t.") 1 (bs "c0.u."); RAAAA (bs "c1.u.") 1 (embed wkp_net [192; 0; 9; 1])]).
Proof. vm_compute. split; reflexivity. Qed.
