(* C20 — the loops of synth.go as the translator reads them (Gen/C20.v,
   regenerated from /repo on every run) tied to the model's functions:
   bytesAllZero = Model.all_zero, and the label loop of parseIP6ArpaName =
   Model.nibbles followed by Model.pair_up on the reversed nibble list.
   A rewrite of either loop that keeps its behaviour keeps these lemmas; one
   that changes it breaks them. *)
From Coq Require Import String Ascii.
From Sdns Require Import Common.Base Common.GoList Gen.C20 C20.Model.
Open Scope N_scope.

(* ---------------- bytesAllZero ---------------- *)
Lemma gen_bytesAllZero_loop s : forall fuel i b,
  (length s - i < fuel)%nat ->
  go_bytesAllZero_loop1 s fuel (Z.of_nat i) b =
  (if all_zero (skipn i s) then GoNext else GoRet false, b).
Proof.
  induction fuel as [|fuel IH]; intros i b Hf; [lia|].
  cbn [go_bytesAllZero_loop1]. unfold go_len.
  destruct (Z.ltb (Z.of_nat i) (Z.of_nat (length s))) eqn:E.
  - apply Z.ltb_lt in E. rewrite go_idx_nth by lia. rewrite Nat2Z.id.
    assert (i < length s)%nat as Hi by lia.
    destruct (nth_split s 0 Hi) as (l1 & l2 & Es & El).
    assert (skipn i s = nth i s 0 :: l2) as Sk.
    { rewrite Es at 1. rewrite <- El. rewrite skipn_app, skipn_all, Nat.sub_diag. reflexivity. }
    rewrite Sk. unfold all_zero. cbn [forallb]. fold (all_zero l2).
    destruct (nth i s 0 =? 0) eqn:Z0; cbn [negb andb]; [|reflexivity].
    replace (Z.add (Z.of_nat i) 1) with (Z.of_nat (S i)) by lia. rewrite IH by lia.
    replace (skipn (S i) s) with l2; [reflexivity|].
    rewrite Es at 1. rewrite <- El. replace (S (length l1)) with (length l1 + 1)%nat by lia.
    rewrite skipn_app, skipn_all2 by lia. replace (length l1 + 1 - length l1)%nat with 1%nat by lia. reflexivity.
  - apply Z.ltb_ge in E. rewrite skipn_all2 by lia. reflexivity.
Qed.

Lemma gen_bytesAllZero l : go_bytesAllZero l = all_zero l.
Proof.
  unfold go_bytesAllZero. cbv zeta.
  pose proof (gen_bytesAllZero_loop l (S (length l)) 0%nat l) as H. cbn [Z.of_nat skipn] in H. rewrite H by lia.
  destruct (all_zero l); reflexivity.
Qed.

(* ---------------- the label loop of parseIP6ArpaName ---------------- *)
(* what the loop does to [out] for labels that are hex digits: nibble i of the
   name goes to nibble index 31-i, even = high half of byte index/2 (the Go
   statements, with Go's int arithmetic) *)
Fixpoint put_nibs (i : Z) (ns : list N) (out : list N) : list N :=
  match ns with
  | [] => out
  | n :: r =>
      let ni := Z.sub 31 i in
      let b := Z.quot ni 2 in
      put_nibs (Z.add i 1) r
        (if Z.eqb (Z.rem ni 2) 0
         then go_upd out b (N.lor (go_idx 0 out b) (wrap8 (N.shiftl n 4)))
         else go_upd out b (N.lor (go_idx 0 out b) n))
  end.

Lemma go_idx_app_mid {A} (d : A) pre x suf : go_idx d (pre ++ x :: suf) (Z.of_nat (length pre)) = x.
Proof. rewrite go_idx_nth by lia. rewrite Nat2Z.id, app_nth2 by lia. rewrite Nat.sub_diag. reflexivity. Qed.

(* the loop, from any position: it returns (nil, false) exactly when
   Model.nibbles rejects the remaining labels, and otherwise falls through
   with the nibbles or-ed into [out] *)
Lemma gen_parse_loop_from : forall suf pre fuel out,
  (length suf < fuel)%nat ->
  match nibbles suf with
  | Some ns =>
      go_parseIP6ArpaName_loop1 (pre ++ suf) fuel (Z.of_nat (length pre)) (pre ++ suf) out
      = (GoNext, (pre ++ suf, put_nibs (Z.of_nat (length pre)) ns out))
  | None =>
      exists st, go_parseIP6ArpaName_loop1 (pre ++ suf) fuel (Z.of_nat (length pre)) (pre ++ suf) out
                 = (GoRet ([], false), st)
  end.
Proof.
  induction suf as [|l suf IH]; intros pre fuel out Hf; (destruct fuel as [|fuel]; [cbn [length] in Hf; lia|]).
  - cbn [nibbles go_parseIP6ArpaName_loop1 put_nibs]. rewrite app_nil_r.
    assert (Z.ltb (Z.of_nat (length pre)) (go_len pre) = false) as Hlt by (apply Z.ltb_ge; unfold go_len; lia).
    rewrite Hlt. reflexivity.
  - cbn [go_parseIP6ArpaName_loop1].
    assert (Z.ltb (Z.of_nat (length pre)) (go_len (pre ++ l :: suf)) = true) as Hlt
      by (apply Z.ltb_lt; unfold go_len; rewrite app_length; cbn [length]; lia).
    rewrite Hlt. rewrite go_idx_app_mid. cbv zeta.
    destruct l as [|c [|d r]].
    + cbn [nibbles]. eexists. reflexivity.
    + change (go_len [c]) with 1%Z. cbn [Z.eqb Pos.eqb negb]. change (go_idx 0 [c] 0%Z) with c.
      cbn [nibbles]. destruct (go_hexNibble c) as [nib ok]. destruct ok; cbn [negb]; [|eexists; reflexivity].
      cbn [length] in Hf.
      assert (Z.add (Z.of_nat (length pre)) 1 = Z.of_nat (length (pre ++ [[c]]))) as Ei
        by (rewrite app_length; cbn [length]; lia).
      assert (pre ++ [c] :: suf = (pre ++ [[c]]) ++ suf) as Ep by (rewrite <- app_assoc; reflexivity).
      destruct (Z.eqb (Z.rem (Z.sub 31 (Z.of_nat (length pre))) 2) 0) eqn:Ev.
      * specialize (IH (pre ++ [[c]]) fuel
          (go_upd out (Z.quot (Z.sub 31 (Z.of_nat (length pre))) 2)
             (N.lor (go_idx 0 out (Z.quot (Z.sub 31 (Z.of_nat (length pre))) 2)) (wrap8 (N.shiftl nib 4)))) ltac:(lia)).
        rewrite Ei, Ep. destruct (nibbles suf) as [ns|].
        -- rewrite IH. cbn [put_nibs]. rewrite Ev, <- Ei. reflexivity.
        -- exact IH.
      * specialize (IH (pre ++ [[c]]) fuel
          (go_upd out (Z.quot (Z.sub 31 (Z.of_nat (length pre))) 2)
             (N.lor (go_idx 0 out (Z.quot (Z.sub 31 (Z.of_nat (length pre))) 2)) nib)) ltac:(lia)).
        rewrite Ei, Ep. destruct (nibbles suf) as [ns|].
        -- rewrite IH. cbn [put_nibs]. rewrite Ev, <- Ei. reflexivity.
        -- exact IH.
    + replace (Z.eqb (go_len (c :: d :: r)) 1) with false
        by (symmetry; apply Z.eqb_neq; unfold go_len; cbn [length]; lia).
      cbn [negb nibbles]. eexists. reflexivity.
Qed.

(* 32 nibbles, lowest first, or-ed into sixteen zero bytes = the bytes paired
   up from the highest nibble down *)
Lemma put_nibs_32 ns : length ns = 32%nat -> put_nibs 0 ns (zeros 16) = pair_up (rev ns).
Proof.
  intros H. do 32 (destruct ns as [|? ns]; [discriminate H|]). destruct ns; [|discriminate H]. clear H.
  cbv - [N.lor N.shiftl wrap8].
  repeat (f_equal; [rewrite N.lor_0_l; apply N.lor_comm|]).
  f_equal. rewrite N.lor_0_l. apply N.lor_comm.
Qed.

Lemma nibbles_length parts ns : nibbles parts = Some ns -> length ns = length parts.
Proof.
  revert ns. induction parts as [|l parts IH]; intros ns; cbn [nibbles].
  - intros E. injection E as <-. reflexivity.
  - destruct l as [|c [|d r]]; try discriminate. destruct (go_hexNibble c) as [nib ok]. destruct ok; [|discriminate].
    destruct (nibbles parts) as [ns'|]; [|discriminate]. intros E. injection E as <-. cbn [length]. rewrite (IH ns' eq_refl). reflexivity.
Qed.

(* the tie: on the 32 labels parseIP6ArpaName hands to its loop (with
   out = make(net.IP, 16)), the translated loop and the model agree *)
Lemma gen_parse_ip6_arpa_loop parts :
  length parts = 32%nat ->
  match nibbles parts with
  | Some ns => go_parseIP6ArpaName_loop1_run parts (zeros 16) = (GoNext, (parts, pair_up (rev ns)))
  | None => exists st, go_parseIP6ArpaName_loop1_run parts (zeros 16) = (GoRet ([], false), st)
  end.
Proof.
  intros H. unfold go_parseIP6ArpaName_loop1_run. cbv zeta.
  pose proof (gen_parse_loop_from parts [] (S (length parts)) (zeros 16) ltac:(lia)) as L.
  cbn [app length Z.of_nat] in L.
  destruct (nibbles parts) as [ns|] eqn:E; [|exact L].
  rewrite L. rewrite put_nibs_32; [reflexivity|]. rewrite (nibbles_length _ _ E). exact H.
Qed.

(* hence Model.parse_ip6_arpa, restated through the translated loop: the
   model's answer is what the Go function returns around that loop *)
Lemma parse_ip6_arpa_by_gen_loop qname :
  let q := trim_suffix (lower qname) [46] in
  has_suffix q sfx_ip6_arpa = true ->
  let parts := split_on 46 (trim_suffix q sfx_ip6_arpa) in
  length parts = 32%nat ->
  match parse_ip6_arpa qname with
  | Some a => go_parseIP6ArpaName_loop1_run parts (zeros 16) = (GoNext, (parts, a))
  | None => exists st, go_parseIP6ArpaName_loop1_run parts (zeros 16) = (GoRet ([], false), st)
  end.
Proof.
  intros q Hs parts Hl. unfold parse_ip6_arpa. fold q. rewrite Hs. cbn [negb]. fold parts.
  rewrite Hl. cbn [Nat.eqb negb].
  pose proof (gen_parse_ip6_arpa_loop parts Hl) as G. destruct (nibbles parts); exact G.
Qed.

(* ---------------- compiled.zoneExcluded and compiled.hasWellKnown ---------------- *)
Lemma skipn_nth_cons {A} (d : A) s i : (i < length s)%nat -> skipn i s = nth i s d :: skipn (S i) s.
Proof.
  revert i. induction s as [|x s IH]; intros i H; [cbn in H; lia|].
  destruct i; [reflexivity|]. cbn [skipn nth]. apply IH. cbn [length] in H. lia.
Qed.

Lemma go_list_eqb_model a b : go_list_eqb N.eqb a b = list_eqb a b.
Proof. revert b. induction a as [|x a IH]; intros [|y b]; cbn [go_list_eqb list_eqb]; try reflexivity. rewrite IH. reflexivity. Qed.
Lemma go_has_suffix_model s p : go_has_suffix N.eqb s p = has_suffix s p.
Proof. unfold go_has_suffix, has_suffix. rewrite go_list_eqb_model. reflexivity. Qed.

(* the model's test of one compiled zone *)
Definition zone_hit (qname z : list N) : bool := list_eqb qname z || has_suffix qname (46 :: z).

Lemma gen_zoneExcluded_loop s c q : forall fuel i,
  (length s - i < fuel)%nat ->
  go_compiled_zoneExcluded_loop1 s fuel (Z.of_nat i) c q =
  (if existsb (zone_hit q) (skipn i s) then GoRet true else GoNext, (c, q)).
Proof.
  induction fuel as [|fuel IH]; intros i Hf; [lia|].
  cbn [go_compiled_zoneExcluded_loop1]. unfold go_len.
  destruct (Z.ltb (Z.of_nat i) (Z.of_nat (length s))) eqn:E.
  - apply Z.ltb_lt in E. rewrite go_idx_nth by lia. rewrite Nat2Z.id.
    rewrite (skipn_nth_cons [] s i) by lia. cbn [existsb]. unfold zone_hit at 1.
    rewrite go_list_eqb_model, go_has_suffix_model. change ([46] ++ nth i s []) with (46 :: nth i s []).
    destruct (list_eqb q (nth i s [])); [reflexivity|]. cbn [orb].
    destruct (has_suffix q (46 :: nth i s [])); [reflexivity|].
    replace (Z.add (Z.of_nat i) 1) with (Z.of_nat (S i)) by lia. apply IH. lia.
  - apply Z.ltb_ge in E. rewrite skipn_all2 by lia. reflexivity.
Qed.

(* compiled.zoneExcluded as the Go source has it = Model.zone_excluded on the compiled zone list *)
Lemma gen_zoneExcluded c q :
  go_compiled_zoneExcluded c q = existsb (zone_hit q) (T_compiled_excludeZones c).
Proof.
  unfold go_compiled_zoneExcluded. cbv zeta.
  destruct (T_compiled_excludeZones c) as [|z zs] eqn:Ez; [reflexivity|].
  change (Z.eqb (go_len (z :: zs)) 0) with false. cbv iota.
  pose proof (gen_zoneExcluded_loop (z :: zs) c q (S (length (z :: zs))) 0%nat ltac:(lia)) as H.
  cbn [Z.of_nat skipn] in H. rewrite H. destruct (existsb (zone_hit q) (z :: zs)); reflexivity.
Qed.
Lemma gen_zoneExcluded_model (mc : Model.compiled) (gc : T_compiled) q :
  T_compiled_excludeZones gc = c_zones mc -> go_compiled_zoneExcluded gc q = zone_excluded mc q.
Proof. intros E. rewrite gen_zoneExcluded, E. reflexivity. Qed.

Lemma gen_hasWellKnown_loop s c : forall fuel i,
  (length s - i < fuel)%nat ->
  go_compiled_hasWellKnown_loop1 s fuel (Z.of_nat i) c =
  (if existsb T_compiledPrefix_wellKnown (skipn i s) then GoRet true else GoNext, c).
Proof.
  induction fuel as [|fuel IH]; intros i Hf; [lia|].
  cbn [go_compiled_hasWellKnown_loop1]. unfold go_len.
  destruct (Z.ltb (Z.of_nat i) (Z.of_nat (length s))) eqn:E.
  - apply Z.ltb_lt in E. rewrite go_idx_nth by lia. rewrite Nat2Z.id.
    rewrite (skipn_nth_cons zero_T_compiledPrefix s i) by lia. cbn [existsb].
    destruct (T_compiledPrefix_wellKnown (nth i s zero_T_compiledPrefix)); [reflexivity|]. cbn [orb].
    replace (Z.add (Z.of_nat i) 1) with (Z.of_nat (S i)) by lia. apply IH. lia.
  - apply Z.ltb_ge in E. rewrite skipn_all2 by lia. reflexivity.
Qed.

(* compiled.hasWellKnown (the gate of the exclude_a list in compileConfig and of
   shouldExcludeAOnPrefix's caller) = the model's [existsb cp_wk] *)
Lemma gen_hasWellKnown c :
  go_compiled_hasWellKnown c = existsb T_compiledPrefix_wellKnown (T_compiled_prefixes c).
Proof.
  unfold go_compiled_hasWellKnown. cbv zeta.
  pose proof (gen_hasWellKnown_loop (T_compiled_prefixes c) c (S (length (T_compiled_prefixes c))) 0%nat ltac:(lia)) as H.
  cbn [Z.of_nat skipn] in H. rewrite H. destruct (existsb _ _); reflexivity.
Qed.
Lemma gen_hasWellKnown_model (ps : list cprefix) (gc : T_compiled) :
  map T_compiledPrefix_wellKnown (T_compiled_prefixes gc) = map cp_wk ps ->
  go_compiled_hasWellKnown gc = existsb cp_wk ps.
Proof.
  intros E. rewrite gen_hasWellKnown.
  assert (forall A (f : A -> bool) l, existsb f l = existsb id (map f l)) as M
    by (intros A f l; induction l as [|x l IH]; cbn; [reflexivity | rewrite IH; reflexivity]).
  rewrite (M _ T_compiledPrefix_wellKnown), (M _ cp_wk), E. reflexivity.
Qed.

(* ---------------- the TTL minimum loop of synthesise (session 4) ----------------
   `for _, a := range addresses { if a.Hdr.Ttl < ttl { ttl = a.Hdr.Ttl } }` as the
   translator reads it (loop 1 of responseWriter.synthesise; dns.A and
   dns.RR_Header translate as Records): it falls through with the running
   minimum of the A TTLs below the initial value — the fold of Model.synth_ttl *)
Definition gttl (a : T_A) : N := T_RR_Header_Ttl (T_A_Hdr a).
Definition rr_as_A (r : rr) : T_A :=
  match r with
  | RA o t ip => mk_T_A (mk_T_RR_Header o 1 1 t 0) ip
  | _ => zero_T_A
  end.

Lemma gen_synth_ttl_loop_from : forall suf pre fuel va ttl,
  (length suf < fuel)%nat ->
  go_responseWriter_synthesise_loop1 (pre ++ suf) fuel (Z.of_nat (length pre)) va ttl
  = (GoNext, (va, fold_left (fun t a => if gttl a <? t then gttl a else t) suf ttl)).
Proof.
  induction suf as [|a suf IH]; intros pre fuel va ttl Hf; (destruct fuel as [|fuel]; [cbn [length] in Hf; lia|]).
  - cbn [go_responseWriter_synthesise_loop1 fold_left]. rewrite app_nil_r. unfold go_len.
    rewrite Z.ltb_irrefl. reflexivity.
  - cbn [go_responseWriter_synthesise_loop1 fold_left]. unfold go_len. rewrite app_length. cbn [length].
    replace (Z.of_nat (length pre) <? Z.of_nat (length pre + S (length suf)))%Z with true by (symmetry; apply Z.ltb_lt; lia).
    rewrite go_idx_app_mid. fold (gttl a).
    replace (Z.add (Z.of_nat (length pre)) 1) with (Z.of_nat (length (pre ++ [a]))) by (rewrite app_length; cbn [length]; lia).
    replace (pre ++ a :: suf) with ((pre ++ [a]) ++ suf) by (rewrite <- app_assoc; reflexivity).
    cbn [length] in Hf.
    destruct (gttl a <? ttl); apply IH; lia.
Qed.

Lemma gen_synth_ttl_loop gaddrs ttl :
  go_responseWriter_synthesise_loop1_run gaddrs ttl
  = (GoNext, (gaddrs, fold_left (fun t a => if gttl a <? t then gttl a else t) gaddrs ttl)).
Proof.
  unfold go_responseWriter_synthesise_loop1_run. cbv zeta.
  apply (gen_synth_ttl_loop_from gaddrs [] (S (length gaddrs)) gaddrs ttl). lia.
Qed.

Lemma fold_ttl_map (addrs : list rr) : forall ttl,
  fold_left (fun t a => if gttl a <? t then gttl a else t) (map rr_as_A addrs) ttl
  = fold_left (fun t a => if a_ttl a <? t then a_ttl a else t) addrs ttl.
Proof.
  induction addrs as [|r l IH]; intros ttl; [reflexivity|]. cbn [map fold_left].
  assert (gttl (rr_as_A r) = a_ttl r) as -> by (destruct r; reflexivity). apply IH.
Qed.

(* Model.synth_ttl is the translated loop run from the ceiling, then the tree's bound *)
Lemma synth_ttl_by_gen_loop v ns addrs cut :
  go_responseWriter_synthesise_loop1_run (map rr_as_A addrs) (ttl_ceiling v ns)
  = (GoNext, (map rr_as_A addrs, synth_ttl v ns addrs None))
  /\ synth_ttl v ns addrs cut = bound_ttl cut (synth_ttl v ns addrs None).
Proof.
  split; [|reflexivity].
  rewrite gen_synth_ttl_loop, fold_ttl_map. reflexivity.
Qed.
