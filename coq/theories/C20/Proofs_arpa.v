(* C20 — parseIP6ArpaName accepts ONLY the ip6.arpa names of addresses
   (session 5).  Proofs_ptr.v has the forward direction (the name of an address
   parses back to it); here: whatever name the parser accepts — any letter
   case, with or without the final dot — is, lower-cased and dot-terminated,
   the RFC 3596 name of the 16 bytes it returns.  With it the PTR theorems
   hold for all names, not only for names given as [arpa_name addr]. *)
From Coq Require Import String Ascii.
From Sdns Require Import Common.Base Gen.C20 C20.Model C20.Spec
  C20.Proofs_gen C20.Proofs_embed C20.Proofs_ptr C20.Proofs_serve C20.Proofs_subq.
Open Scope N_scope.

(* ---------------- strings.Split, undone ---------------- *)
Fixpoint join (ps : list (list N)) : list N :=
  match ps with
  | [] => []
  | [p] => p
  | p :: r => p ++ 46 :: join r
  end.

Lemma join_split s : join (split_on 46 s) = s.
Proof.
  induction s as [|c r IH]; [reflexivity|]. cbn [split_on].
  destruct (c =? 46) eqn:E.
  - apply N.eqb_eq in E. subst c. destruct (split_on 46 r) as [|h t] eqn:S.
    + cbn in IH. subst r. cbn in S. discriminate.
    + change (join ([] :: h :: t)) with ([] ++ 46 :: join (h :: t)). cbn [app]. rewrite IH. reflexivity.
  - destruct (split_on 46 r) as [|h t] eqn:S.
    + cbn in IH. subst r. reflexivity.
    + destruct t as [|h2 t]; cbn [join app] in *; rewrite <- IH; reflexivity.
Qed.

Lemma nibbles_shape parts ns : nibbles parts = Some ns ->
  exists cs, parts = map (fun c => [c]) cs /\ ns = map (fun c => fst (go_hexNibble c)) cs
    /\ Forall (fun c => snd (go_hexNibble c) = true) cs.
Proof.
  revert ns. induction parts as [|p r IH]; intros ns H.
  - injection H as <-. exists []. repeat split. constructor.
  - cbn [nibbles] in H. destruct p as [|c [|c2 p']]; try discriminate.
    destruct (go_hexNibble c) as [nib ok] eqn:E. destruct ok; [|discriminate].
    destruct (nibbles r) as [ns'|]; [|discriminate]. injection H as <-.
    destruct (IH ns' eq_refl) as (cs & -> & -> & F). exists (c :: cs). cbn [map]. rewrite E. cbn [fst].
    repeat split. constructor; [rewrite E; reflexivity | exact F].
Qed.

Lemma join_singletons c cs : join (map (fun x => [x]) (c :: cs)) ++ [46] = dotted (c :: cs).
Proof.
  revert c. induction cs as [|d cs IH]; intros c; [reflexivity|].
  change (join (map (fun x => [x]) (c :: d :: cs))) with ([c] ++ 46 :: join (map (fun x => [x]) (d :: cs))).
  cbn [app]. rewrite IH. reflexivity.
Qed.

Lemma has_suffix_split s suf : has_suffix s suf = true -> s = trim_suffix s suf ++ suf.
Proof.
  intros H. unfold trim_suffix. rewrite H. unfold has_suffix in H. apply andb_prop in H as [_ H].
  apply list_eqb_eq in H. rewrite <- H at 2. symmetry. apply firstn_skipn.
Qed.

Lemma bytes_ok_trim s suf : bytes_ok s -> bytes_ok (trim_suffix s suf).
Proof.
  unfold trim_suffix, bytes_ok. intros B. destruct (has_suffix s suf); [|exact B].
  rewrite <- (firstn_skipn (length s - length suf) s) in B. apply Forall_app in B. tauto.
Qed.
Lemma bytes_ok_lower s : bytes_ok s -> bytes_ok (lower s).
Proof.
  unfold bytes_ok, lower. intros B. apply Forall_map. eapply Forall_impl; [|exact B].
  intros c Hc. cbn beta. unfold lower_b. destruct ((65 <=? c) && (c <=? 90)) eqn:E; [|exact Hc].
  apply andb_prop in E as [_ E]. apply N.leb_le in E. lia.
Qed.

(* ---------------- digits and nibbles ---------------- *)
Lemma hex_digit_inverse c : c < 256 -> snd (go_hexNibble c) = true ->
  fst (go_hexNibble c) < 16 /\ c = hexchar (fst (go_hexNibble c)).
Proof.
  intros Hc. rewrite gen_hexNibble by exact Hc. unfold hex_value, hexchar.
  destruct ((48 <=? c) && (c <=? 57)) eqn:E1.
  - apply andb_prop in E1 as [A B]. apply N.leb_le in A, B. cbn [fst snd]. intros _.
    destruct (N.ltb_spec (c - 48) 10); lia.
  - destruct ((97 <=? c) && (c <=? 102)) eqn:E2; [|cbn; discriminate].
    apply andb_prop in E2 as [A B]. apply N.leb_le in A, B. cbn [fst snd]. intros _.
    destruct (N.ltb_spec (c - 87) 10); lia.
Qed.

Definition nib_table_ok : bool :=
  forallb (fun h => forallb (fun l =>
     let b := N.lor (wrap8 (N.shiftl h 4)) l in (b / 16 =? h) && (b mod 16 =? l) && (b <? 256))
     (map N.of_nat (seq 0 16))) (map N.of_nat (seq 0 16)).
Lemma nib_table : nib_table_ok = true.
Proof. vm_compute. reflexivity. Qed.
Lemma in_range16 (x : N) : x < 16 -> In x (map N.of_nat (seq 0 16)).
Proof. intros H. apply in_map_iff. exists (N.to_nat x). split; [apply N2Nat.id|]. apply in_seq. lia. Qed.
Lemma nib_pair h l : h < 16 -> l < 16 ->
  let b := N.lor (wrap8 (N.shiftl h 4)) l in b / 16 = h /\ b mod 16 = l /\ b < 256.
Proof.
  intros Hh Hl. pose proof nib_table as T. unfold nib_table_ok in T. rewrite forallb_forall in T.
  specialize (T h (in_range16 h Hh)). rewrite forallb_forall in T. specialize (T l (in_range16 l Hl)).
  cbv zeta in T. apply andb_prop in T as [T C]. apply andb_prop in T as [A B].
  apply N.eqb_eq in A, B. apply N.ltb_lt in C. cbv zeta. auto.
Qed.

Lemma pair_up_inverse k : forall ns, length ns = (2 * k)%nat -> Forall (fun n => n < 16) ns ->
  flat_map (fun b => [b / 16; b mod 16]) (pair_up ns) = ns /\ bytes_ok (pair_up ns) /\ length (pair_up ns) = k.
Proof.
  induction k as [|k IH]; intros ns L F.
  - destruct ns; [|discriminate]. repeat split. constructor.
  - destruct ns as [|h [|l r]]; cbn [length] in L; try lia.
    pose proof (Forall_inv F) as Hh. pose proof (Forall_inv_tail F) as F'.
    pose proof (Forall_inv F') as Hl. pose proof (Forall_inv_tail F') as F''. cbv beta in Hh, Hl.
    destruct (IH r ltac:(lia) F'') as (E & B & Lk). destruct (nib_pair h l Hh Hl) as (D & M & C).
    cbn [pair_up flat_map app length]. rewrite D, M, E, Lk. repeat split. constructor; assumption.
Qed.

Lemma map_hexchar_nibs l : map hexchar (flat_map (fun b => [b mod 16; b / 16]) l) = nibchars l.
Proof.
  induction l as [|b l IH]; [reflexivity|].
  change (nibchars (b :: l)) with (hexchar (b mod 16) :: hexchar (b / 16) :: nibchars l).
  cbn [flat_map app map]. rewrite IH. reflexivity.
Qed.

(* ---------------- the parser accepts only names of addresses ---------------- *)
Lemma parse_only_arpa_names qname a :
  bytes_ok qname -> parse_ip6_arpa qname = Some a ->
  length a = 16%nat /\ bytes_ok a /\ trim_suffix (lower qname) [46] ++ [46] = arpa_name a.
Proof.
  intros Bq. unfold parse_ip6_arpa. set (q := trim_suffix (lower qname) [46]).
  assert (bytes_ok q) as Bqq by (apply bytes_ok_trim, bytes_ok_lower, Bq).
  destruct (has_suffix q sfx_ip6_arpa) eqn:HS; cbn [negb]; [|discriminate].
  set (body := trim_suffix q sfx_ip6_arpa).
  assert (bytes_ok body) as Bb by (apply bytes_ok_trim, Bqq).
  destruct (length (split_on 46 body) =? 32)%nat eqn:L32; cbn [negb]; [|discriminate].
  destruct (nibbles (split_on 46 body)) as [ns|] eqn:Nb; [|discriminate]. intros H. injection H as <-.
  destruct (nibbles_shape _ _ Nb) as (cs & Ep & -> & Fh).
  apply Nat.eqb_eq in L32. rewrite Ep, map_length in L32.
  assert (body ++ [46] = dotted cs) as Ed.
  { rewrite <- (join_split body), Ep. destruct cs as [|c cs]; [discriminate|]. apply join_singletons. }
  (* every label is a hex digit below 256 *)
  assert (Forall (fun c => c < 256) cs) as Fb.
  { apply Forall_forall. intros c I.
    assert (In c (dotted cs)) as Id by (apply in_flat_map; exists c; split; [exact I | left; reflexivity]).
    rewrite <- Ed in Id. apply in_app_iff in Id as [Id|[<-|[]]]; [|lia].
    unfold bytes_ok in Bb. rewrite Forall_forall in Bb. apply Bb, Id. }
  set (ns := map (fun c => fst (go_hexNibble c)) cs).
  assert (Forall (fun n => n < 16) ns /\ cs = map hexchar ns) as (Fn & Ec).
  { subst ns. clear -Fh Fb. induction cs as [|c cs IH]; [split; [constructor | reflexivity]|].
    pose proof (Forall_inv Fh) as Hc. pose proof (Forall_inv_tail Fh) as Fh'.
    pose proof (Forall_inv Fb) as Hb. pose proof (Forall_inv_tail Fb) as Fb'. cbv beta in Hc, Hb.
    destruct (IH Fh' Fb') as (A & B). destruct (hex_digit_inverse c Hb Hc) as (V & E).
    cbn [map]. split; [constructor; assumption | rewrite <- B, <- E; reflexivity]. }
  assert (length (rev ns) = (2 * 16)%nat) as Lr by (rewrite rev_length; subst ns; rewrite map_length; exact L32).
  destruct (pair_up_inverse 16 (rev ns) Lr (Forall_rev Fn)) as (Ef & Ba & La).
  split; [exact La|]. split; [exact Ba|].
  rewrite arpa_name_dotted.
  assert (nibchars (rev (pair_up (rev ns))) = cs) as ->.
  { rewrite <- map_hexchar_nibs.
    pose proof (rev_nibvals (rev (pair_up (rev ns)))) as R. rewrite rev_involutive, Ef in R.
    apply (f_equal (@rev N)) in R. rewrite !rev_involutive in R. rewrite R. symmetry. exact Ec. }
  rewrite <- Ed. rewrite (has_suffix_split q sfx_ip6_arpa HS) at 1. fold body.
  rewrite <- !app_assoc. reflexivity.
Qed.

(* in the handler: a PTR question is translated only when its name — in any
   letter case — is the ip6.arpa name of a 16-byte address *)
Lemma lower_idem s : lower (lower s) = lower s.
Proof.
  unfold lower. rewrite map_map. apply map_ext. intros c. unfold lower_b.
  destruct ((65 <=? c) && (c <=? 90)) eqn:E; [|rewrite E; reflexivity].
  apply andb_prop in E as [A B]. apply N.leb_le in A, B.
  destruct (N.leb_spec 65 (c + 32)), (N.leb_spec (c + 32) 90); cbn [andb]; try reflexivity; lia.
Qed.

Lemma gate_ptr_suffix v c q v4 : gate v c q = GPtr v4 -> has_suffix (lower (q_name q)) (bs ".ip6.arpa.") = true.
Proof.
  unfold gate.
  destruct (negb (q_nq q =? 1)); [discriminate|]. destruct (negb (q_class q =? class_in)); [discriminate|].
  destruct (q_internal q); [discriminate|]. destruct (negb (q_rd q)); [discriminate|]. destruct (q_cd q); [discriminate|].
  destruct (negb (client_eligible c (q_client q))); [discriminate|].
  destruct (negb ((q_type q =? type_aaaa) || (q_type q =? type_ptr))); [discriminate|].
  destruct (q_type q =? type_ptr).
  - destruct (has_suffix (lower (q_name q)) (bs ".ip6.arpa.")); [reflexivity|discriminate].
  - destruct (zone_excluded c (lower (q_name q))); discriminate.
Qed.

Lemma ends_with_dot s x : has_suffix s (x ++ [46]) = true -> trim_suffix s [46] ++ [46] = s.
Proof.
  intros H. pose proof (has_suffix_split _ _ H) as E.
  remember (trim_suffix s (x ++ [46])) as t eqn:Ht. clear Ht H. subst s.
  rewrite app_assoc, trim_suffix_app, <- app_assoc. reflexivity.
Qed.

Lemma ptr_translated_only_arpa_names v c q v4 :
  bytes_ok (q_name q) -> gate v c q = GPtr v4 ->
  exists addr, length addr = 16%nat /\ bytes_ok addr /\ lower (q_name q) = arpa_name addr.
Proof.
  intros B G. pose proof (gate_ptr_suffix _ _ _ _ G) as S.
  apply gate_ptr in G as (_ & _ & P). unfold ptr_target in P.
  destruct (parse_ip6_arpa (lower (q_name q))) as [addr|] eqn:E; [|discriminate].
  destruct (parse_only_arpa_names _ _ (bytes_ok_lower _ B) E) as (L & Ba & N).
  exists addr. split; [exact L|]. split; [exact Ba|]. rewrite <- N, lower_idem.
  symmetry. apply (ends_with_dot _ (bs ".ip6.arpa")). exact S.
Qed.

(* "the matching ip6.arpa PTR query maps back to the same IPv4 address", for
   ALL names: whenever a PTR question is chased, its name is the ip6.arpa name
   of an address that is the RFC 6052 embedding, under a configured prefix that
   does not exclude it, of the IPv4 address whose in-addr.arpa name is chased *)
Lemma ptr_chase_all_names_lem cf q down work al cut s :
  Forall (fun p => legal_prefix (cp_net p) /\ bytes_ok (n_ip (cp_net p))) (c_prefixes (compile cf)) ->
  bytes_ok (q_name q) -> q_type q = type_ptr ->
  sub_query cur cf q down work al cut = Some s ->
  exists addr p w, length addr = 16%nat /\ lower (q_name q) = arpa_name addr
    /\ In p (c_prefixes (compile cf)) /\ addr = embed (cp_net p) w /\ length w = 4%nat
    /\ should_exclude_a (compile cf) w p = false
    /\ spec_parse_in_addr (sq_name s) = Some w
    /\ sq_type s = type_ptr /\ sq_class s = class_in /\ sq_rd s = true /\ sq_cd s = false.
Proof.
  intros F B T S.
  assert (exists v4, gate cur (compile cf) q = GPtr v4) as (v4 & G).
  { revert S. unfold sub_query. destruct (x_aq (serve cur cf q down work al cut)) eqn:A; [|discriminate]. intros _.
    revert A. unfold serve. destruct (gate cur (compile cf) q) as [| |v4|] eqn:G.
    - destruct down as [[m mk]|]; cbn [x_aq]; discriminate.
    - destruct down as [[m mk]|]; cbn [x_aq]; discriminate.
    - eauto.
    - apply gate_wrap in G as (_ & T' & _). rewrite T in T'. discriminate. }
  destruct (ptr_translated_only_arpa_names _ _ _ _ B G) as (addr & L & Ba & E).
  destruct (ptr_chase_names_embedded_address_lem cf q down work al cut s addr F L Ba E T S)
    as (A1 & A2 & A3 & A4 & p & w & I & Ee & Lw & X & R).
  exists addr, p, w. repeat split; assumption.
Qed.

(* non-vacuity: the name of 64:ff9b::c000:901 without its final dot and with
   upper-case digits is accepted and is, normalised, that address's name;
   a 2-label name, a two-digit label and a non-hex label are refused *)
Definition ex_addr : list N := embed wkp_net [192; 0; 9; 1].
Definition upper_b (c : N) : N := if (97 <=? c) && (c <=? 122) then c - 32 else c.
Example ex_parse_only :
  parse_ip6_arpa (map upper_b (removelast (arpa_name ex_addr))) = Some ex_addr
  /\ trim_suffix (lower (map upper_b (removelast (arpa_name ex_addr)))) [46] ++ [46] = arpa_name ex_addr
  /\ parse_ip6_arpa (bs "1.2.ip6.arpa.") = None
  /\ parse_ip6_arpa (bs "10" ++ skipn 1 (arpa_name ex_addr)) = None
  /\ parse_ip6_arpa (bs "g" ++ skipn 1 (arpa_name ex_addr)) = None.
Proof. vm_compute. repeat split; reflexivity. Qed.
