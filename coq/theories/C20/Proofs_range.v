(* C20 — "inside a configured network" as a statement about numbers.
   The model's net.IPNet.Contains (Model.net_contains: To4 shortening, byte
   masks, length comparison — written after the Go source) accepts an address
   only if it lies numerically inside the network's range in the 128-bit
   space (Spec.spec_in_net: IPv4 at ::ffff:0:0/96), and for an IPv4 network
   and an IPv4 address exactly then.  With it "eligible client", "excluded
   IPv4 range" and "excluded AAAA" of the handler theorems are statements
   about address ranges, not about the byte-mask algorithm. *)
From Coq Require Import String Ascii.
From Sdns Require Import Common.Base Gen.C20 C20.Model C20.Spec C20.Proofs_gen C20.Proofs_embed C20.Proofs_serve.
Open Scope N_scope.

(* ---------------- the mask, byte by byte ---------------- *)
Fixpoint mk_mask (ones : N) (len : nat) : list N :=
  match len with O => [] | S l => mask_byte ones 0 :: mk_mask (ones - 8) l end.

Lemma mask_byte_shift ones i : mask_byte ones (S i) = mask_byte (ones - 8) i.
Proof.
  unfold mask_byte. rewrite Nat2N.inj_succ. set (n := N.of_nat i).
  destruct (N.leb_spec (8 * N.succ n + 8) ones), (N.leb_spec (8 * n + 8) (ones - 8)); try lia; try reflexivity.
  destruct (N.leb_spec ones (8 * N.succ n)), (N.leb_spec (ones - 8) (8 * n)); try lia; try reflexivity.
  f_equal. f_equal. lia.
Qed.

Lemma mask_bytes_from ones i len : map (mask_byte ones) (seq (S i) len) = map (mask_byte (ones - 8)) (seq i len).
Proof. rewrite <- seq_shift, map_map. apply map_ext. intros a. apply mask_byte_shift. Qed.

Lemma mask_bytes_mk ones len : mask_bytes ones len = mk_mask ones len.
Proof.
  unfold mask_bytes. revert ones. induction len as [|l IH]; intros ones; [reflexivity|].
  cbn [seq map mk_mask]. f_equal. rewrite mask_bytes_from. apply IH.
Qed.

Lemma mk_mask_length ones len : length (mk_mask ones len) = len.
Proof. revert ones. induction len as [|l IH]; intros ones; cbn; [reflexivity|]. rewrite IH. reflexivity. Qed.

Lemma skipn_mk_mask k ones len : skipn k (mk_mask ones (k + len)) = mk_mask (ones - 8 * N.of_nat k) len.
Proof.
  revert ones. induction k as [|k IH]; intros ones.
  - cbn [skipn plus]. f_equal. lia.
  - cbn [plus mk_mask skipn]. rewrite IH. f_equal. lia.
Qed.

(* ---------------- big-endian value of a byte list ---------------- *)
Lemma fold_val l : forall acc, fold_left (fun acc b => acc * 256 + b) l acc = acc * 256 ^ N.of_nat (length l) + bytes_val l.
Proof.
  unfold bytes_val. induction l as [|x l IH]; intros acc.
  - cbn. lia.
  - cbn [fold_left length]. rewrite IH, (IH (0 * 256 + x)). rewrite Nat2N.inj_succ, N.pow_succ_r'. ring.
Qed.

Lemma bytes_val_cons x l : bytes_val (x :: l) = x * 256 ^ N.of_nat (length l) + bytes_val l.
Proof. unfold bytes_val at 1. cbn [fold_left]. rewrite fold_val. f_equal. Qed.

Lemma bytes_val_app a b : bytes_val (a ++ b) = bytes_val a * 256 ^ N.of_nat (length b) + bytes_val b.
Proof. unfold bytes_val at 1. rewrite fold_left_app. fold (bytes_val a). apply fold_val. Qed.

Lemma bytes_val_lt l : bytes_ok l -> bytes_val l < 256 ^ N.of_nat (length l).
Proof.
  induction 1 as [|x l Hx _ IH]; [cbn; lia|].
  rewrite bytes_val_cons. cbn [length]. rewrite Nat2N.inj_succ, N.pow_succ_r'.
  set (P := 256 ^ N.of_nat (length l)) in *. nia.
Qed.

Lemma pow256 n : 256 ^ n = 2 ^ (8 * n).
Proof. rewrite N.pow_mul_r. reflexivity. Qed.

(* ---------------- one masked byte ---------------- *)
Definition land_table_ok : bool :=
  forallb (fun j => forallb (fun x => N.land x (256 - 2 ^ j) =? x / 2 ^ j * 2 ^ j) (map N.of_nat (seq 0 256)))
          (map N.of_nat (seq 0 9)).
Lemma land_table : land_table_ok = true.
Proof. vm_compute. reflexivity. Qed.

Lemma in_range (x : N) (n : nat) : x < N.of_nat n -> In x (map N.of_nat (seq 0 n)).
Proof.
  intros H. apply in_map_iff. exists (N.to_nat x). split; [apply N2Nat.id|]. apply in_seq. lia.
Qed.

Lemma land_mask_div x j : x < 256 -> j <= 8 -> N.land x (256 - 2 ^ j) = x / 2 ^ j * 2 ^ j.
Proof.
  intros Hx Hj. pose proof land_table as T. unfold land_table_ok in T. rewrite forallb_forall in T.
  specialize (T j (in_range j 9 ltac:(lia))). rewrite forallb_forall in T.
  specialize (T x (in_range x 256 ltac:(lia))). apply N.eqb_eq in T. exact T.
Qed.

Lemma mask_byte0_low ones : ones < 8 -> mask_byte ones 0 = 256 - 2 ^ (8 - ones).
Proof.
  intros H. unfold mask_byte. cbn [N.of_nat]. change (8 * 0) with 0.
  destruct (N.leb_spec (0 + 8) ones); [lia|]. destruct (N.leb_spec ones 0).
  - assert (ones = 0) as -> by lia. reflexivity.
  - f_equal. f_equal. lia.
Qed.
Lemma mask_byte0_high ones : 8 <= ones -> mask_byte ones 0 = 255.
Proof. intros H. unfold mask_byte. cbn [N.of_nat]. change (8 * 0) with 0. destruct (N.leb_spec (0 + 8) ones); [reflexivity|lia]. Qed.

Lemma land_255 x : x < 256 -> N.land x 255 = x.
Proof. intros H. change 255 with (N.ones 8). rewrite N.land_ones. apply N.mod_small. exact H. Qed.

Lemma masked_zero a : forall b l, masked_eqb a (mk_mask 0 l) b = true.
Proof.
  induction a as [|x a IH]; intros b l; [reflexivity|].
  destruct l as [|l]; [reflexivity|]. destruct b as [|y b]; [reflexivity|].
  cbn [mk_mask masked_eqb]. change (mask_byte 0 0) with 0. rewrite !N.land_0_r. cbn [N.eqb andb]. apply IH.
Qed.

(* ---------------- masked comparison = equal leading bits ---------------- *)
Lemma masked_is_prefix a : forall b ones,
  length a = length b -> bytes_ok a -> bytes_ok b -> ones <= 8 * N.of_nat (length a) ->
  (masked_eqb a (mk_mask ones (length a)) b = true
   <-> bytes_val a / 2 ^ (8 * N.of_nat (length a) - ones) = bytes_val b / 2 ^ (8 * N.of_nat (length a) - ones)).
Proof.
  induction a as [|x a IH]; intros b ones HL Ba Bb Ho.
  - destruct b; [|discriminate]. cbn. tauto.
  - destruct b as [|y b]; [discriminate|]. injection HL as HL.
    inversion Ba as [|? ? Hx Ba']; subst. inversion Bb as [|? ? Hy Bb']; subst.
    cbn [length] in Ho. cbn [length mk_mask masked_eqb]. rewrite !bytes_val_cons, <- HL.
    pose proof (bytes_val_lt a Ba') as La. pose proof (bytes_val_lt b Bb') as Lb. rewrite <- HL in Lb.
    set (n := N.of_nat (length a)) in *. rewrite Nat2N.inj_succ in *. fold n in Ho |- *.
    rewrite pow256 in *. set (va := bytes_val a) in *. set (vb := bytes_val b) in *.
    destruct (N.le_gt_cases 8 ones) as [H8|H8].
    + (* a whole byte is masked in: it must be equal, the rest decides *)
      rewrite mask_byte0_high by exact H8. rewrite !land_255 by assumption.
      assert (ones - 8 <= 8 * n) as Ho' by lia.
      specialize (IH b (ones - 8) HL Ba' Bb' Ho'). fold n va vb in IH.
      replace (8 * N.succ n - ones) with (8 * n - (ones - 8)) by lia.
      set (e := 8 * n - (ones - 8)) in *.
      assert (2 ^ (8 * n) = 2 ^ (ones - 8) * 2 ^ e) as EM.
      { rewrite <- N.pow_add_r. f_equal. unfold e. lia. }
      assert (2 ^ e <> 0) as NZ by (apply N.pow_nonzero; lia).
      assert (forall z v, (z * 2 ^ (8 * n) + v) / 2 ^ e = z * 2 ^ (ones - 8) + v / 2 ^ e) as DV.
      { intros z v. rewrite EM. replace (z * (2 ^ (ones - 8) * 2 ^ e) + v) with (z * 2 ^ (ones - 8) * 2 ^ e + v) by ring.
        rewrite N.div_add_l by exact NZ. reflexivity. }
      rewrite !DV.
      assert (va / 2 ^ e < 2 ^ (ones - 8)) as Qa by (apply N.div_lt_upper_bound; [exact NZ | rewrite N.mul_comm, <- EM; exact La]).
      assert (vb / 2 ^ e < 2 ^ (ones - 8)) as Qb by (apply N.div_lt_upper_bound; [exact NZ | rewrite N.mul_comm, <- EM; exact Lb]).
      rewrite andb_true_iff, N.eqb_eq, IH. set (E := 2 ^ (ones - 8)) in *. set (qa := va / 2 ^ e) in *. set (qb := vb / 2 ^ e) in *.
      split; [intros [-> ->]; reflexivity|]. intros H. assert (x = y) by nia. subst. split; [reflexivity|lia].
    + (* the mask ends inside this byte: the remaining bytes are not compared *)
      rewrite mask_byte0_low by exact H8. replace (ones - 8) with 0 by lia. rewrite masked_zero, andb_true_r.
      rewrite !land_mask_div by (assumption || lia). rewrite N.eqb_eq.
      set (j := 8 - ones) in *.
      replace (8 * N.succ n - ones) with (8 * n + j) by (unfold j; lia).
      rewrite N.pow_add_r.
      assert (2 ^ (8 * n) <> 0) as NZ by (apply N.pow_nonzero; lia).
      assert (2 ^ j <> 0) as NZj by (apply N.pow_nonzero; lia).
      rewrite <- !N.div_div by assumption.
      rewrite !N.div_add_l by exact NZ. rewrite (N.div_small va), (N.div_small vb), !N.add_0_r by assumption.
      split; [intros H; apply N.mul_cancel_r in H; assumption | intros ->; reflexivity].
Qed.

(* ---------------- addresses as numbers ---------------- *)
Definition v4base : N := 65535 * 2 ^ 32.

Lemma mapped_value ip : length ip = 16%nat -> is_mapped ip = true ->
  bytes_val ip = v4base + bytes_val (skipn 12 ip).
Proof.
  intros L M. destruct (length16 _ L) as (b0&b1&b2&b3&b4&b5&b6&b7&b8&b9&b10&b11&b12&b13&b14&b15&->).
  unfold is_mapped, nthb in M. cbn [nth firstn all_zero forallb] in M.
  split_andb M. eqb_to_eq. subst. unfold bytes_val, v4base. cbn [fold_left skipn]. lia.
Qed.

Lemma addr128_16 ip : length ip = 16%nat -> addr128 ip = Some (bytes_val ip).
Proof. intros L. unfold addr128. rewrite L. reflexivity. Qed.
Lemma addr128_4 ip : length ip = 4%nat -> addr128 ip = Some (v4base + bytes_val ip).
Proof. intros L. unfold addr128. rewrite L. reflexivity. Qed.

Lemma bytes_ok_skipn k l : bytes_ok l -> bytes_ok (skipn k l).
Proof. unfold bytes_ok. intros H. rewrite <- (firstn_skipn k l) in H. apply Forall_app in H. tauto. Qed.

(* net.IP.To4: either the address has an IPv4 form — then it is the number
   ::ffff:a.b.c.d — or it has none and is not 4 bytes long *)
Lemma to4_cases ip : bytes_ok ip ->
  (exists x4, to4 ip = Some x4 /\ length x4 = 4%nat /\ bytes_ok x4 /\ addr128 ip = Some (v4base + bytes_val x4))
  \/ (to4 ip = None /\ length ip <> 4%nat /\ (length ip = 16%nat -> is_mapped ip = false)).
Proof.
  intros B. unfold to4. destruct (length ip =? 4)%nat eqn:E4.
  - apply Nat.eqb_eq in E4. left. exists ip. auto using addr128_4.
  - apply Nat.eqb_neq in E4. destruct (length ip =? 16)%nat eqn:E16; cbn [andb].
    + apply Nat.eqb_eq in E16. destruct (is_mapped ip) eqn:M.
      * left. exists (skipn 12 ip). split; [reflexivity|]. split; [rewrite skipn_length; lia|].
        split; [apply bytes_ok_skipn; exact B|]. rewrite addr128_16 by exact E16. f_equal. apply mapped_value; assumption.
      * right. auto.
    + right. apply Nat.eqb_neq in E16. split; [reflexivity|]. split; [exact E4|]. intros; contradiction.
Qed.

(* two numbers of the ::ffff:0:0/96 block agree on their leading 128-e bits *)
Lemma v4block_low va vb e : e <= 32 ->
  ((v4base + va) / 2 ^ e = (v4base + vb) / 2 ^ e <-> va / 2 ^ e = vb / 2 ^ e).
Proof.
  intros He. assert (2 ^ e <> 0) as NZ by (apply N.pow_nonzero; lia).
  assert (v4base = 65535 * 2 ^ (32 - e) * 2 ^ e) as ->.
  { unfold v4base. rewrite <- N.mul_assoc, <- N.pow_add_r. do 2 f_equal. lia. }
  rewrite !N.div_add_l by exact NZ. lia.
Qed.
Lemma v4block_high va vb e : 32 < e -> va < 2 ^ 32 -> vb < 2 ^ 32 ->
  (v4base + va) / 2 ^ e = (v4base + vb) / 2 ^ e.
Proof.
  intros He Ha Hb. replace e with (32 + (e - 32)) by lia. rewrite N.pow_add_r.
  assert (2 ^ 32 <> 0) as NZ by (apply N.pow_nonzero; lia).
  assert (2 ^ (e - 32) <> 0) as NZ' by (apply N.pow_nonzero; lia).
  rewrite <- !N.div_div by assumption. unfold v4base.
  rewrite !N.div_add_l by exact NZ. rewrite (N.div_small va), (N.div_small vb) by assumption. reflexivity.
Qed.

Lemma val4_lt x : length x = 4%nat -> bytes_ok x -> bytes_val x < 2 ^ 32.
Proof. intros L B. pose proof (bytes_val_lt x B) as H. rewrite L in H. exact H. Qed.

(* a network as net.ParseCIDR returns it: 4 bytes and a 4-byte mask, or 16 and 16 *)
Definition wf_net4 (n : ipnet) : Prop :=
  bytes_ok (n_ip n) /\ length (n_ip n) = 4%nat /\ n_mlen n = 4 /\ n_ones n <= 32.
Definition wf_net6 (n : ipnet) : Prop :=
  bytes_ok (n_ip n) /\ length (n_ip n) = 16%nat /\ n_mlen n = 16 /\ n_ones n <= 128.
Definition wf_net (n : ipnet) : Prop := wf_net4 n \/ wf_net6 n.

Lemma masked4 nn x ones : length nn = 4%nat -> length x = 4%nat -> bytes_ok nn -> bytes_ok x -> ones <= 32 ->
  (masked_eqb nn (mk_mask ones 4) x = true <-> bytes_val nn / 2 ^ (32 - ones) = bytes_val x / 2 ^ (32 - ones)).
Proof.
  intros Ln Lx Bn Bx Ho. pose proof (masked_is_prefix nn x ones ltac:(congruence) Bn Bx) as H.
  rewrite Ln in H. apply H. exact Ho.
Qed.

(* IPv4 network, an address that has an IPv4 form (4 bytes, or ::ffff:a.b.c.d):
   Contains says exactly "numerically inside" *)
Lemma contains4_iff n ip : wf_net4 n -> bytes_ok ip -> to4 ip <> None ->
  (net_contains n ip = true <-> spec_in_net n ip = true).
Proof.
  intros (Bn & Ln & Mn & On) B T4.
  assert (net_num_mask n = Some (n_ip n, mk_mask (n_ones n) 4)) as NM.
  { unfold net_num_mask, to4. rewrite Ln, Mn. cbn [Nat.eqb N.eqb Pos.eqb N.to_nat]. rewrite <- mask_bytes_mk. reflexivity. }
  assert (net128 n = Some (v4base + bytes_val (n_ip n), 96 + n_ones n)) as N8.
  { unfold net128. rewrite addr128_4 by exact Ln. rewrite Mn. reflexivity. }
  unfold net_contains, spec_in_net. rewrite NM, N8, Ln.
  destruct (to4_cases ip B) as [(x4 & T & L4 & B4 & A)|(T & _)]; [|contradiction].
  rewrite T, A, L4. cbn [Nat.eqb andb].
  rewrite masked4 by assumption.
  replace (128 - (96 + n_ones n)) with (32 - n_ones n) by lia.
  destruct (N.leb_spec (96 + n_ones n) 128); [|lia]. cbn [andb]. rewrite N.eqb_eq.
  rewrite v4block_low by lia. split; intros HH; congruence.
Qed.

(* any canonical network, any address: what Contains accepts lies numerically inside *)
Lemma contains_in_range n ip : wf_net n -> bytes_ok ip -> net_contains n ip = true -> spec_in_net n ip = true.
Proof.
  intros [W4|(Bn & Ln & Mn & On)] B C.
  - destruct (to4 ip) eqn:T.
    + apply (contains4_iff n ip W4 B); [congruence | exact C].
    + exfalso. destruct W4 as (Bn & Ln & Mn & On). revert C. unfold net_contains, net_num_mask. rewrite T.
      unfold to4 at 1. rewrite Ln, Mn. cbn [Nat.eqb N.eqb Pos.eqb]. rewrite Ln.
      destruct (to4_cases ip B) as [(x4 & T' & _)|(_ & N4 & _)]; [congruence|].
      destruct (length ip =? 4)%nat eqn:E; [apply Nat.eqb_eq in E; contradiction|]. discriminate.
  - unfold spec_in_net, net128. rewrite addr128_16 by exact Ln.
    assert ((n_mlen n =? 4) = false) as -> by (rewrite Mn; reflexivity).
    destruct (N.leb_spec (n_ones n) 128) as [_|]; [|lia]. cbn [andb].
    revert C. unfold net_contains, net_num_mask. rewrite Mn. cbn [N.eqb Pos.eqb N.to_nat]. change (Pos.to_nat 16) with 16%nat.
    rewrite mask_bytes_mk.
    destruct (to4_cases (n_ip n) Bn) as [(nn & Tn & Lnn & Bnn & An)|(Tn & _ & NMn)]; rewrite Tn.
    + (* the network itself is written in ::ffff: form: Go compares the IPv4 forms *)
      rewrite addr128_16 in An by exact Ln. injection An as An.
      change 16%nat with (12 + 4)%nat. rewrite skipn_mk_mask. change (8 * N.of_nat 12) with 96.
      destruct (to4_cases ip B) as [(x4 & T & L4 & B4 & A)|(T & N4 & _)]; rewrite T.
      * rewrite Lnn, L4, A. cbn [Nat.eqb andb]. intros C. rewrite An. apply N.eqb_eq.
        destruct (N.le_gt_cases 96 (n_ones n)) as [H96|H96].
        -- apply masked4 in C; try assumption; [|lia].
           replace (32 - (n_ones n - 96)) with (128 - n_ones n) in C by lia.
           apply v4block_low; [lia | symmetry; exact C].
        -- apply v4block_high; [lia | apply val4_lt; assumption | apply val4_lt; assumption].
      * rewrite Lnn. destruct (length ip =? 4)%nat eqn:E; [apply Nat.eqb_eq in E; contradiction|]. discriminate.
    + rewrite Ln. cbn [Nat.eqb andb]. rewrite Ln.
      destruct (to4_cases ip B) as [(x4 & T & L4 & B4 & A)|(T & N4 & _)]; rewrite T.
      * rewrite L4. discriminate.
      * destruct (length ip =? 16)%nat eqn:E; [|discriminate]. apply Nat.eqb_eq in E. cbn [andb]. intros C.
        rewrite addr128_16 by exact E. apply N.eqb_eq.
        pose proof (masked_is_prefix (n_ip n) ip (n_ones n) ltac:(congruence) Bn B) as H. rewrite Ln in H.
        symmetry. apply H; [exact On | exact C].
Qed.

(* ---------------- the handler's clauses, in numbers ---------------- *)
Lemma to4_of_4 v4 : length v4 = 4%nat -> to4 v4 = Some v4.
Proof. intros L. unfold to4. rewrite L. reflexivity. Qed.

Lemma to4_result ip v4 : bytes_ok ip -> to4 ip = Some v4 -> length v4 = 4%nat /\ bytes_ok v4.
Proof.
  intros B T. destruct (to4_cases ip B) as [(x4 & T' & L & B' & _)|(T' & _)]; [|congruence].
  rewrite T in T'. injection T' as <-. auto.
Qed.

(* "eligible client": with client networks configured, the client's address
   lies numerically inside one of them *)
Lemma eligible_in_network c ip :
  Forall wf_net (c_clients c) -> bytes_ok ip -> client_eligible c ip = true -> spec_eligible c ip = true.
Proof.
  intros W B. unfold client_eligible, spec_eligible. destruct (c_clients c) as [|n0 l] eqn:E; [reflexivity|].
  destruct (length ip =? 0)%nat; [discriminate|]. intros H. apply existsb_exists in H as (n & I & C).
  apply existsb_exists. exists n. split; [exact I|]. rewrite Forall_forall in W. apply contains_in_range; auto.
Qed.

Lemma synthesis_client_in_network_lem cf q down work al cut :
  Forall wf_net (c_clients (compile cf)) -> bytes_ok (q_client q) ->
  x_path (serve cur cf q down work al cut) = PSynth
  \/ (x_aq (serve cur cf q down work al cut) = true /\ q_type q = type_aaaa) ->
  c_clients (compile cf) = []
  \/ exists n, In n (c_clients (compile cf)) /\ spec_in_net n (q_client q) = true.
Proof.
  intros W B H. destruct (synth_only_when_lem cur cf q down work al cut H) as (G & _).
  unfold gates_open in G. apply andb_prop in G as [_ G].
  pose proof (eligible_in_network _ _ W B G) as S. unfold spec_eligible in S.
  destruct (c_clients (compile cf)) as [|n0 l] eqn:E; [left; reflexivity|]. right.
  apply existsb_exists in S. exact S.
Qed.

(* "skips excluded IPv4 ranges under the well-known prefix": the IPv4 address
   inside a synthesised AAAA under the well-known prefix lies numerically
   outside every excluded range *)
Lemma excluded_range_never_synthesised_lem cf q m mark work ar cut r o t e :
  Forall wf_net4 (c_excl_a (compile cf)) ->
  (forall o' ta ip, In (RA o' ta ip) (m_answer ar) -> bytes_ok ip) ->
  x_path (serve cur cf q (Some (m, mark)) work (QResp ar) cut) = PSynth ->
  x_reply (serve cur cf q (Some (m, mark)) work (QResp ar) cut) = Some r ->
  In (RAAAA o t e) (r_answer r) ->
  exists p v4, In p (c_prefixes (compile cf)) /\ e = embed (cp_net p) v4 /\ length v4 = 4%nat
    /\ (is_well_known (cp_net p) = true ->
        forall n, In n (c_excl_a (compile cf)) -> spec_in_net n v4 = false).
Proof.
  intros W BA HP HR HI.
  destruct (synthesised_aaaa_sound cur _ _ _ _ _ _ _ _ _ _ _ HP HR HI) as ((p & ta & ip & v4 & Hp & Ha & T & -> & X) & _).
  destruct (to4_result ip v4 (BA _ _ _ Ha) T) as (L4 & B4).
  exists p, v4. repeat split; auto. intros K n I.
  specialize (X K). destruct (spec_in_net n v4) eqn:S; [|reflexivity]. exfalso.
  rewrite Forall_forall in W.
  assert (net_contains n v4 = true) as C.
  { apply (contains4_iff n v4 (W n I) B4); [rewrite to4_of_4 by exact L4; discriminate | exact S]. }
  assert (existsb (fun n => net_contains n v4) (c_excl_a (compile cf)) = true) as Y
    by (apply existsb_exists; eauto).
  congruence.
Qed.

(* ... and an A record whose address lies inside an excluded range produces
   no AAAA under the well-known prefix at all *)
Lemma excluded_address_skipped_lem c ttl p o ta ip v4 n :
  wf_net4 n -> In n (c_excl_a c) -> cp_wk p = true ->
  bytes_ok ip -> to4 ip = Some v4 -> spec_in_net n v4 = true ->
  synth_one c ttl p (RA o ta ip) = [].
Proof.
  intros W I K B T S. destruct (to4_result ip v4 B T) as (L4 & B4).
  unfold synth_one. rewrite T. unfold should_exclude_a. rewrite K. cbn [andb].
  assert (existsb (fun n => net_contains n v4) (c_excl_a c) = true) as ->; [|reflexivity].
  apply existsb_exists. exists n. split; [exact I|].
  apply (contains4_iff n v4 W B4); [rewrite to4_of_4 by exact L4; discriminate | exact S].
Qed.

(* the default exclusion list of the source (read by the translator, parsed in
   Coq) consists of canonical IPv4 networks *)
Definition wf_net4b (n : ipnet) : bool :=
  forallb (fun b => b <? 256) (n_ip n) && (length (n_ip n) =? 4)%nat && (n_mlen n =? 4) && (n_ones n <=? 32).
Lemma wf_net4b_ok n : wf_net4b n = true -> wf_net4 n.
Proof.
  unfold wf_net4b, wf_net4. intros H. apply andb_prop in H as [H O]. apply andb_prop in H as [H M]. apply andb_prop in H as [H L].
  apply N.leb_le in O. apply N.eqb_eq in M. apply Nat.eqb_eq in L. repeat split; auto.
  unfold bytes_ok. apply Forall_forall. intros b I. rewrite forallb_forall in H. apply N.ltb_lt. auto.
Qed.
Lemma default_exclude_a_wf : Forall wf_net4 default_exclude_a.
Proof.
  apply Forall_forall. intros n I. apply wf_net4b_ok.
  assert (forallb wf_net4b default_exclude_a = true) as F by (vm_compute; reflexivity).
  rewrite forallb_forall in F. auto.
Qed.

(* non-vacuity: 10.1.2.3 is inside 10.0.0.0/8 and outside 100.64.0.0/10; an
   IPv4 client never matches an IPv6 network under Go's Contains although
   ::/0 covers it numerically (the theorem is one-directional for that reason) *)
Example ex_ranges :
  net_contains (mk_net [10;0;0;0] 8 4) [10;1;2;3] = true /\ spec_in_net (mk_net [10;0;0;0] 8 4) [10;1;2;3] = true
  /\ net_contains (mk_net [100;64;0;0] 10 4) [100;128;0;0] = false /\ spec_in_net (mk_net [100;64;0;0] 10 4) [100;128;0;0] = false
  /\ net_contains (mk_net [100;64;0;0] 10 4) (zeros 10 ++ [255;255;100;127;255;255]) = true
  /\ net_contains (mk_net (zeros 16) 0 16) [10;1;2;3] = false /\ spec_in_net (mk_net (zeros 16) 0 16) [10;1;2;3] = true
  /\ length default_exclude_a = 16%nat.
Proof. vm_compute. repeat split; reflexivity. Qed.

Lemma masked_compare_leading_bits a b ones :
  length a = length b -> bytes_ok a -> bytes_ok b -> ones <= 8 * N.of_nat (length a) ->
  (masked_eqb a (mask_bytes ones (length a)) b = true
   <-> bytes_val a / 2 ^ (8 * N.of_nat (length a) - ones) = bytes_val b / 2 ^ (8 * N.of_nat (length a) - ones)).
Proof. rewrite mask_bytes_mk. exact (masked_is_prefix a b ones). Qed.
