(* C20 — DNS64 synthesis: executable model of middleware/dns64
   (synth.go, config.go, dns64.go).  Definitions only; proofs are in
   Proofs_*.v, the property theorems in Properties.v.

   From Gen/C20.v (regenerated from /repo on every run): go_hexNibble,
   no_soa_ttl_ceiling, ptr_synth_ttl, the text of validPrefixBits, the case
   sets of the two `switch bits`, the default exclusion lists, the
   well-known prefix literal and the EDE constant names listed in
   isDNSSECFailure.  Everything else is written by hand from the Go source,
   statement by statement, and tied to the code by the correspondence
   driver harness/overlay/middleware/dns64/zz_verif_c20_test.go.

   Bytes are [N]; an IP address is the list of its bytes exactly as the Go
   value holds them (length 4 or 16; [] is a nil net.IP); a *net.IPNet is
   (IP bytes, number of leading ones of the mask, mask length in bytes) —
   every mask in this package comes out of net.ParseCIDR and is canonical.
   Names are byte strings in presentation form (ASCII, no escapes; see
   NOTES.md for the assumption). *)
From Coq Require Import String Ascii.
From Sdns Require Import Common.Base Gen.C20.
Open Scope N_scope.

(* ------------------------------------------------------------------ *)
(* byte strings                                                        *)

Fixpoint bs (s : string) : list N :=
  match s with
  | EmptyString => []
  | String a r => N_of_ascii a :: bs r
  end.

Definition nthb (l : list N) (i : nat) : N := nth i l 0.
Definition zeros (n : nat) : list N := repeat 0 n.
Definition all_zero (l : list N) : bool := forallb (fun b => b =? 0) l.

Fixpoint list_eqb (a b : list N) : bool :=
  match a, b with
  | [], [] => true
  | x :: xs, y :: ys => (x =? y) && list_eqb xs ys
  | _, _ => false
  end.

Definition has_suffix (s suf : list N) : bool :=
  (length suf <=? length s)%nat && list_eqb (skipn (length s - length suf) s) suf.
Definition trim_suffix (s suf : list N) : list N :=
  if has_suffix s suf then firstn (length s - length suf) s else s.

(* strings.ToLower on ASCII *)
Definition lower_b (c : N) : N := if (65 <=? c) && (c <=? 90) then c + 32 else c.
Definition lower (s : list N) : list N := map lower_b s.

(* strings.Split(s, sep) for a one-byte separator: never the empty list *)
Fixpoint split_on (sep : N) (s : list N) : list (list N) :=
  match s with
  | [] => [[]]
  | c :: r =>
      if c =? sep then [] :: split_on sep r
      else match split_on sep r with
           | [] => [[c]]
           | h :: t => (c :: h) :: t
           end
  end.

(* strings.TrimSpace on ASCII: \t \n \v \f \r and space *)
Definition is_space (c : N) : bool := ((9 <=? c) && (c <=? 13)) || (c =? 32).
Fixpoint drop_space (s : list N) : list N :=
  match s with
  | c :: r => if is_space c then drop_space r else s
  | [] => []
  end.
Definition trim_space (s : list N) : list N := rev (drop_space (rev (drop_space s))).

(* decimal text <-> numbers (config literals read by srcgen; %d of inAddrArpa) *)
Definition is_digit (c : N) : bool := (48 <=? c) && (c <=? 57).
Definition parse_dec (s : list N) : option N :=
  match s with
  | [] => None
  | _ => if forallb is_digit s then Some (fold_left (fun acc c => acc * 10 + (c - 48)) s 0) else None
  end.
Definition dec3 (n : N) : list N :=
  if n <? 10 then [48 + n]
  else if n <? 100 then [48 + n / 10; 48 + n mod 10]
  else [48 + n / 100; 48 + (n / 10) mod 10; 48 + n mod 10].

Fixpoint somes {A} (l : list (option A)) : list A :=
  match l with
  | [] => []
  | Some x :: r => x :: somes r
  | None :: r => somes r
  end.

(* ------------------------------------------------------------------ *)
(* net.IP / net.IPNet as this package uses them                        *)

(* net.IP.To4: the 4-byte form, the v4-in-v6 form, or nil.  (Go tests the
   ten zero bytes first; the conjunction is pure, the order is chosen so
   that the model reduces on partly known lists.) *)
Definition is_mapped (ip : list N) : bool :=
  (nthb ip 10 =? 255) && (nthb ip 11 =? 255) && all_zero (firstn 10 ip).
Definition to4 (ip : list N) : option (list N) :=
  if (length ip =? 4)%nat then Some ip
  else if (length ip =? 16)%nat && is_mapped ip then Some (skipn 12 ip)
  else None.
Definition v4in6_prefix : list N := zeros 10 ++ [255; 255].
(* net.IP.To16 *)
Definition to16 (ip : list N) : option (list N) :=
  if (length ip =? 4)%nat then Some (v4in6_prefix ++ ip)
  else if (length ip =? 16)%nat then Some ip
  else None.

Record ipnet := mk_net { n_ip : list N; n_ones : N; n_mlen : N }.

(* net.CIDRMask(ones, 8*len) *)
Definition mask_byte (ones : N) (i : nat) : N :=
  let lo := 8 * N.of_nat i in
  if lo + 8 <=? ones then 255
  else if ones <=? lo then 0
  else 256 - 2 ^ (8 - (ones - lo)).
Definition mask_bytes (ones : N) (len : nat) : list N := map (mask_byte ones) (seq 0 len).

(* net.networkNumberAndMask *)
Definition net_num_mask (n : ipnet) : option (list N * list N) :=
  let m := mask_bytes (n_ones n) (N.to_nat (n_mlen n)) in
  match to4 (n_ip n) with
  | Some ip4 =>
      if n_mlen n =? 4 then Some (ip4, m)
      else if n_mlen n =? 16 then Some (ip4, skipn 12 m)
      else None
  | None =>
      if (length (n_ip n) =? 16)%nat && (n_mlen n =? 16) then Some (n_ip n, m) else None
  end.

Fixpoint masked_eqb (nn m ip : list N) : bool :=
  match nn, m, ip with
  | a :: nn', k :: m', b :: ip' => (N.land a k =? N.land b k) && masked_eqb nn' m' ip'
  | _, _, _ => true
  end.

(* net.IPNet.Contains.  For an invalid network Go compares against an
   empty network number; networks here are always ParseCIDR results. *)
Definition net_contains (n : ipnet) (ip : list N) : bool :=
  let x := match to4 ip with Some x4 => x4 | None => ip end in
  match net_num_mask n with
  | Some (nn, m) => (length x =? length nn)%nat && masked_eqb nn m x
  | None => (length x =? 0)%nat
  end.

(* prefixContains (synth.go, since 3d56ccc): all 128 bits of the 16-byte
   forms, no To4 shortening.  extractIPv4 and handlePTR use it; the [old]
   variant used net.IPNet.Contains there. *)
Definition net_contains16 (n : ipnet) (ip : list N) : bool :=
  match to16 (n_ip n), to16 ip with
  | Some nn, Some x => (n_mlen n =? 16) && masked_eqb nn (mask_bytes (n_ones n) 16) x
  | _, _ => false
  end.

(* net.IP.Equal *)
Definition ip_equal (a b : list N) : bool :=
  if (length a =? length b)%nat then list_eqb a b
  else if (length a =? 4)%nat && (length b =? 16)%nat then list_eqb (firstn 12 b) v4in6_prefix && list_eqb a (skipn 12 b)
  else if (length a =? 16)%nat && (length b =? 4)%nat then list_eqb (firstn 12 a) v4in6_prefix && list_eqb (skipn 12 a) b
  else false.

(* ------------------------------------------------------------------ *)
(* The three places repaired by commit 3d56ccc (props/C20/fix.patch).  A
   flag set to true is the code as it is now; false is the behaviour before
   the repair, kept only so that the old defects stay stated (Examples in
   Proofs_examples.v) and the revert-regression has a name.  [cur] is the
   tree as it is and the only variant check_case accepts; [old] is the
   pre-fix tree. *)
Record variant := mk_variant { fx_negttl : bool; fx_fallback_ad : bool; fx_contains : bool }.
Definition cur : variant := mk_variant true true true.
Definition old : variant := mk_variant false false false.

(* ------------------------------------------------------------------ *)
(* synth.go                                                            *)

Definition valid_prefix_bits : list N :=
  somes (map parse_dec valid_prefix_bits_txt).
Definition valid_bits (b : N) : bool := existsb (N.eqb b) valid_prefix_bits.

(* validatePrefix (p != nil) *)
Definition validate_prefix (p : ipnet) : bool :=
  (n_mlen p =? 16)
  && valid_bits (n_ones p)
  && negb ((n_ones p =? 96) && (9 <=? length (n_ip p))%nat && negb (nthb (n_ip p) 8 =? 0)).

Fixpoint set_at (i : nat) (v : N) (l : list N) : list N :=
  match l, i with
  | [], _ => []
  | _ :: t, O => v :: t
  | h :: t, S i' => h :: set_at i' v t
  end.

(* embedIPv4: make(16); copy(out[:bits/8], prefix.IP[:bits/8]); switch bits *)
Definition embed (p : ipnet) (v4 : list N) : list N :=
  let bits := n_ones p in
  let pb := N.to_nat (bits / 8) in
  let out := firstn pb (n_ip p) ++ zeros (16 - pb) in
  let a := nthb v4 0 in let b := nthb v4 1 in let c := nthb v4 2 in let d := nthb v4 3 in
  if bits =? 32 then set_at 4 a (set_at 5 b (set_at 6 c (set_at 7 d out)))
  else if bits =? 40 then set_at 5 a (set_at 6 b (set_at 7 c (set_at 9 d out)))
  else if bits =? 48 then set_at 6 a (set_at 7 b (set_at 9 c (set_at 10 d out)))
  else if bits =? 56 then set_at 7 a (set_at 9 b (set_at 10 c (set_at 11 d out)))
  else if bits =? 64 then set_at 9 a (set_at 10 b (set_at 11 c (set_at 12 d out)))
  else if bits =? 96 then set_at 12 a (set_at 13 b (set_at 14 c (set_at 15 d out)))
  else out.

(* extractIPv4 *)
Definition extract (v : variant) (p : ipnet) (addr : list N) : option (list N) :=
  let bits := n_ones p in
  if negb ((if fx_contains v then net_contains16 else net_contains) p addr) then None
  else if negb (valid_bits bits) then None
  else match to16 addr with
  | None => None
  | Some a =>
    let g := nthb a in
    if bits =? 32 then
      (if all_zero (skipn 8 a) then Some [g 4%nat; g 5%nat; g 6%nat; g 7%nat] else None)
    else if bits =? 40 then
      (if negb (g 8%nat =? 0) then None
       else if all_zero (skipn 10 a) then Some [g 5%nat; g 6%nat; g 7%nat; g 9%nat] else None)
    else if bits =? 48 then
      (if negb (g 8%nat =? 0) then None
       else if all_zero (skipn 11 a) then Some [g 6%nat; g 7%nat; g 9%nat; g 10%nat] else None)
    else if bits =? 56 then
      (if negb (g 8%nat =? 0) then None
       else if all_zero (skipn 12 a) then Some [g 7%nat; g 9%nat; g 10%nat; g 11%nat] else None)
    else if bits =? 64 then
      (if negb (g 8%nat =? 0) then None
       else if all_zero (skipn 13 a) then Some [g 9%nat; g 10%nat; g 11%nat; g 12%nat] else None)
    else if bits =? 96 then Some [g 12%nat; g 13%nat; g 14%nat; g 15%nat]
    else Some [0; 0; 0; 0]
  end.

(* parseIP6ArpaName.  The nibble of label i goes to nibble index 31-i:
   even index = high half of byte index/2. *)
Definition sfx_ip6_arpa : list N := bs ".ip6.arpa".
Fixpoint nibbles (parts : list (list N)) : option (list N) :=
  match parts with
  | [] => Some []
  | [c] :: r =>
      let '(nib, ok) := go_hexNibble c in
      if ok then match nibbles r with Some ns => Some (nib :: ns) | None => None end else None
  | _ :: _ => None
  end.
Fixpoint pair_up (ns : list N) : list N :=
  match ns with
  | h :: l :: r => N.lor (wrap8 (N.shiftl h 4)) l :: pair_up r
  | _ => []
  end.
Definition parse_ip6_arpa (qname : list N) : option (list N) :=
  let q := trim_suffix (lower qname) [46] in
  if negb (has_suffix q sfx_ip6_arpa) then None else
  let parts := split_on 46 (trim_suffix q sfx_ip6_arpa) in
  if negb (length parts =? 32)%nat then None else
  match nibbles parts with
  | None => None
  | Some ns => Some (pair_up (rev ns))
  end.

(* inAddrArpa *)
Definition in_addr_arpa (ip : list N) : list N :=
  match to4 ip with
  | None => []
  | Some v4 =>
      dec3 (nthb v4 3) ++ [46] ++ dec3 (nthb v4 2) ++ [46] ++ dec3 (nthb v4 1) ++ [46] ++ dec3 (nthb v4 0)
      ++ bs ".in-addr.arpa."
  end.

(* ------------------------------------------------------------------ *)
(* config.go                                                           *)

(* the literals srcgen reads, as networks *)
Definition apply_mask (ip : list N) (ones : N) : list N :=
  map (fun '(b, i) => N.land b (mask_byte ones i)) (combine ip (seq 0 (length ip))).
(* an IPv4 field: decimal, at most three digits, no leading zero (netip) *)
Definition parse_octet (f : list N) : option N :=
  match f with
  | 48 :: _ :: _ => None
  | _ => if (3 <? length f)%nat then None else parse_dec f
  end.
Definition parse_cidr4 (s : list N) : option ipnet :=
  match split_on 47 s with
  | [a; n] =>
      match map parse_octet (split_on 46 a), parse_dec n with
      | [Some b0; Some b1; Some b2; Some b3], Some ones =>
          if forallb (fun b => b <? 256) [b0; b1; b2; b3] && (ones <=? 32)
          then Some (mk_net (apply_mask [b0; b1; b2; b3] ones) ones 4) else None
      | _, _ => None
      end
  | _ => None
  end.
Definition default_exclude_a : list ipnet := somes (map parse_cidr4 default_exclude_a_txt).

(* IPv6 CIDR text as net.ParseCIDR reads it (hex groups, one "::", no
   dotted-quad tail, no zone): used for the two IPv6 literals of the source,
   tied to net.ParseCIDR by the driver's "cidr-*" cases *)
Definition hex_digit (c : N) : option N :=
  if (48 <=? c) && (c <=? 57) then Some (c - 48)
  else if (97 <=? c) && (c <=? 102) then Some (c - 87)
  else if (65 <=? c) && (c <=? 70) then Some (c - 55)
  else None.
Definition parse_hex16 (g : list N) : option N :=
  match g with
  | [] => None
  | _ =>
      if (4 <? length g)%nat then None
      else fold_left (fun acc c => match acc, hex_digit c with
                                   | Some a, Some d => Some (a * 16 + d)
                                   | _, _ => None
                                   end) g (Some 0)
  end.
(* split at the first "::" *)
Fixpoint split_dcolon (s : list N) : option (list N * list N) :=
  match s with
  | 58 :: ((58 :: r) as _) => Some ([], r)
  | c :: r => match split_dcolon r with
              | Some (h, t) => Some (c :: h, t)
              | None => None
              end
  | [] => None
  end.
Definition parse_groups (s : list N) : option (list N) :=
  match s with
  | [] => Some []
  | _ => let gs := map parse_hex16 (split_on 58 s) in
         if forallb (fun o => match o with Some _ => true | None => false end) gs then Some (somes gs) else None
  end.
Definition parse_ip6 (s : list N) : option (list N) :=
  let groups :=
    match split_dcolon s with
    | Some (h, t) =>
        match parse_groups h, parse_groups t with
        | Some gh, Some gt =>
            if (length gh + length gt <=? 7)%nat
            then Some (gh ++ repeat 0 (8 - (length gh + length gt)) ++ gt) else None
        | _, _ => None
        end
    | None =>
        match parse_groups s with
        | Some g => if (length g =? 8)%nat then Some g else None
        | None => None
        end
    end in
  match groups with
  | Some g => Some (flat_map (fun x => [x / 256; x mod 256]) g)
  | None => None
  end.
Definition parse_cidr6 (s : list N) : option ipnet :=
  match split_on 47 s with
  | [a; n] =>
      match parse_ip6 a, parse_dec n with
      | Some ip, Some ones => if ones <=? 128 then Some (mk_net (apply_mask ip ones) ones 16) else None
      | _, _ => None
      end
  | _ => None
  end.

(* wellKnownPrefix = mustCIDR("64:ff9b::/96"), defaultExcludeAAAA = [mustCIDR("::ffff:0:0/96")]:
   the literals srcgen reads, parsed (values pinned by gen_wkp_net / gen_default_exclude_aaaa) *)
Definition wkp_net : ipnet :=
  match map parse_cidr6 well_known_prefix_txt with
  | [Some n] => n
  | _ => mk_net [] 0 0
  end.
Definition wkp_ip : list N := n_ip wkp_net.
Definition default_exclude_aaaa : list ipnet := somes (map parse_cidr6 default_exclude_aaaa_txt).

(* isWellKnownPrefix *)
Definition is_well_known (p : ipnet) : bool := (n_ones p =? n_ones wkp_net) && ip_equal (n_ip p) wkp_ip.

(* what the driver hands to config.Config: every CIDR string is reported
   as its net.ParseCIDR result ([None] = parse error) *)
Record config := mk_config {
  cf_prefixes  : list (option ipnet);
  cf_clients   : list (option ipnet);
  cf_zones     : list (list N);
  cf_excl_a    : option (list (option ipnet));     (* None: field left nil *)
  cf_excl_aaaa : option (list (option ipnet)) }.

Record cprefix := mk_cprefix { cp_net : ipnet; cp_wk : bool }.
Record compiled := mk_compiled {
  c_prefixes : list cprefix; c_clients : list ipnet; c_zones : list (list N);
  c_excl_a : list ipnet; c_excl_aaaa : list ipnet }.

Definition norm_zone (z : list N) : list (list N) :=
  let z := trim_space (lower z) in
  match z with
  | [] => []
  | _ => if has_suffix z [46] then [z] else [z ++ [46]]
  end.

(* compileConfig (cfg.DNS64.Enabled) *)
Definition compile (cf : config) : compiled :=
  let ps := flat_map (fun o => match o with
                               | Some p => if validate_prefix p then [mk_cprefix p (is_well_known p)] else []
                               | None => [] end) (cf_prefixes cf) in
  let ps := match ps with [] => [mk_cprefix wkp_net true] | _ => ps end in
  let ea := if existsb cp_wk ps then
              match cf_excl_a cf with
              | None => default_exclude_a
              | Some l => filter (fun n => n_mlen n =? 4) (somes l)
              end
            else [] in
  let e6 := match cf_excl_aaaa cf with
            | None => default_exclude_aaaa
            | Some l => filter (fun n => n_mlen n =? 16) (somes l)
            end in
  mk_compiled ps (somes (cf_clients cf)) (flat_map norm_zone (cf_zones cf)) ea e6.

Definition should_exclude_aaaa (c : compiled) (ip : list N) : bool :=
  existsb (fun n => net_contains n ip) (c_excl_aaaa c).
Definition client_eligible (c : compiled) (ip : list N) : bool :=
  match c_clients c with
  | [] => true
  | _ => if (length ip =? 0)%nat then false else existsb (fun n => net_contains n ip) (c_clients c)
  end.
Definition zone_excluded (c : compiled) (qname : list N) : bool :=
  existsb (fun z => list_eqb qname z || has_suffix qname (46 :: z)) (c_zones c).
(* excludedV4 + shouldExcludeAOnPrefix *)
Definition should_exclude_a (c : compiled) (v4 : list N) (p : cprefix) : bool :=
  cp_wk p && existsb (fun n => net_contains n v4) (c_excl_a c).

(* ------------------------------------------------------------------ *)
(* dns64.go                                                            *)

Inductive rr :=
| RA     (owner : list N) (ttl : N) (ip : list N)
| RAAAA  (owner : list N) (ttl : N) (ip : list N)
| RCNAME (owner : list N) (ttl : N) (target : list N)
| RDNAME (owner : list N) (ttl : N) (target : list N)
| RPTR   (owner : list N) (ttl : N) (target : list N)
| ROther (owner : list N) (ttl : N) (rtype : N).

(* a response as far as this middleware reads it.  m_edes: None = no OPT
   record; m_ns: per authority RR, Some (TTL, MINIMUM) for an SOA *)
Record msg := mk_msg {
  m_trunc : bool; m_nq : N; m_rcode : N; m_ad : bool;
  m_edes : option (list N); m_answer : list rr; m_ns : list (option (N * N)) }.

Record query := mk_query {
  q_nq : N; q_class : N; q_type : N; q_name : list N;
  q_rd : bool; q_cd : bool; q_opt : bool; q_internal : bool; q_client : list N }.

(* the scripted Queryer: not wired / error (0 recursion-work limit,
   1 resolution-attempt limit, other) / nil response / response *)
Inductive alookup := QNone | QErr (k : N) | QNilResp | QResp (m : msg).

(* the EDE codes of the `switch ede.InfoCode` in isDNSSECFailure (srcgen with
   full_imports evaluates the dns.ExtendedErrorCode… constants; an arm counts
   when it returns true), the code hasExtendedError is asked for in
   isCachedFailureResponse, and the code synthesise attaches *)
Definition dnssec_failure_codes : list N :=
  map (fun p => Z.to_N (fst p)) (filter (fun p => Z.eqb (snd p) 1) dnssec_failure_switch).
Definition ede_forged : N := synth_ede.
Definition ede_cached : N := cached_failure_ede.

Definition rcode_servfail : N := 2.
Definition rcode_nxdomain : N := 3.
Definition type_a : N := 1.
Definition type_ptr : N := 12.
Definition type_aaaa : N := 28.
Definition class_in : N := 1.

Definition edes_of (m : msg) : list N := match m_edes m with Some l => l | None => [] end.
(* isDNSSECFailure *)
Definition is_dnssec_failure (m : msg) : bool :=
  (m_rcode m =? rcode_servfail) && existsb (fun c => existsb (N.eqb c) dnssec_failure_codes) (edes_of m).
(* hasExtendedError *)
Definition has_ede (m : msg) (code : N) : bool :=
  (m_rcode m =? rcode_servfail) && existsb (N.eqb code) (edes_of m).
(* dnsutil.SetEDE: only when the message has an OPT *)
Definition add_ede (e : option (list N)) (code : N) : option (list N) :=
  match e with Some l => Some (l ++ [code]) | None => None end.

Definition is_aaaa (r : rr) : bool := match r with RAAAA _ _ _ => true | _ => false end.
Definition is_chain (r : rr) : bool := match r with RCNAME _ _ _ | RDNAME _ _ _ => true | _ => false end.
Definition is_a (r : rr) : bool := match r with RA _ _ _ => true | _ => false end.
Definition is_ptr (r : rr) : bool := match r with RPTR _ _ _ => true | _ => false end.

(* filterUpstreamAAAA: (answer after filtering, hadAAAA, kept, stripped) *)
Definition aaaa_excluded (c : compiled) (r : rr) : bool :=
  match r with RAAAA _ _ ip => should_exclude_aaaa c ip | _ => false end.
Definition filter_aaaa (c : compiled) (ans : list rr) : list rr * bool * nat * nat :=
  let had := existsb is_aaaa ans in
  let stripped := length (filter (aaaa_excluded c) ans) in
  let kept := length (filter (fun r => is_aaaa r && negb (aaaa_excluded c r)) ans) in
  (filter (fun r => negb (aaaa_excluded c r)) ans, had, kept, stripped).

(* negativeAAAATTL.  Now: first SOA -> (min(Hdr.Ttl, MINIMUM), true), none ->
   (0, false), and the caller takes the 600 s ceiling only when not found.
   Before 3d56ccc ([old]): ttl := Hdr.Ttl, MINIMUM taken only when
   0 < MINIMUM < ttl; no SOA -> 0, and the caller treated 0 as "no SOA". *)
Fixpoint first_soa (ns : list (option (N * N))) : option (N * N) :=
  match ns with
  | [] => None
  | Some s :: _ => Some s
  | None :: r => first_soa r
  end.
Definition negative_aaaa_ttl (ns : list (option (N * N))) : N :=
  match first_soa ns with
  | Some (ttl, minttl) => if (0 <? minttl) && (minttl <? ttl) then minttl else ttl
  | None => 0
  end.
Definition ttl_ceiling (v : variant) (ns : list (option (N * N))) : N :=
  if fx_negttl v then
    match first_soa ns with
    | Some (ttl, minttl) => if minttl <? ttl then minttl else ttl
    | None => no_soa_ttl_ceiling
    end
  else
    let neg := negative_aaaa_ttl ns in
    if 0 <? neg then neg else no_soa_ttl_ceiling.
Definition a_ttl (r : rr) : N := match r with RA _ t _ => t | _ => 0 end.
(* since af44539: the request tree's bound.  [cut] is what synthesise reads off
   the tree at that moment: None = ResponseMetaFrom(ctx).CutUntil() is zero
   (unbounded, or no ResponseMeta at all), Some s = the whole seconds left until
   that instant, uint64(max(0, time.Until(cut)) / time.Second).  The TTL is
   lowered to it, never raised. *)
Definition bound_ttl (cut : option N) (ttl : N) : N :=
  match cut with
  | Some secs => if secs <? ttl then secs else ttl
  | None => ttl
  end.
Definition synth_ttl (v : variant) (ns : list (option (N * N))) (addrs : list rr) (cut : option N) : N :=
  bound_ttl cut (fold_left (fun ttl a => if a_ttl a <? ttl then a_ttl a else ttl) addrs (ttl_ceiling v ns)).

Definition rr_ttl (r : rr) : N :=
  match r with
  | RA _ t _ | RAAAA _ t _ | RCNAME _ t _ | RDNAME _ t _ | RPTR _ t _ | ROther _ t _ => t
  end.
Definition cap_ttl (ttl : N) (r : rr) : rr :=
  match r with
  | RCNAME o t x => RCNAME o (if ttl <? t then ttl else t) x
  | RDNAME o t x => RDNAME o (if ttl <? t then ttl else t) x
  | _ => r
  end.

(* capRelayedTTLs (dns64.go, since 1a0e74f), one record: whatever its type, a
   relayed record whose TTL exceeds the seconds left of the request tree's
   bound is replaced by a copy carrying exactly those seconds; without a
   bound (CutUntil() zero) nothing changes.  (OPT records are skipped by the
   code; the model's answer sections never hold one.) *)
Definition set_ttl (t : N) (r : rr) : rr :=
  match r with
  | RA o _ x => RA o t x | RAAAA o _ x => RAAAA o t x | RCNAME o _ x => RCNAME o t x
  | RDNAME o _ x => RDNAME o t x | RPTR o _ x => RPTR o t x | ROther o _ x => ROther o t x
  end.
Definition relay_rr (cut : option N) (r : rr) : rr := set_ttl (bound_ttl cut (rr_ttl r)) r.
Definition relay_rrs (cut : option N) (l : list rr) : list rr := map (relay_rr cut) l.

(* the (prefix, A) double loop of synthesise *)
Definition synth_one (c : compiled) (ttl : N) (p : cprefix) (a : rr) : list rr :=
  match a with
  | RA owner _ ip =>
      match to4 ip with
      | None => []
      | Some v4 => if should_exclude_a c v4 p then [] else [RAAAA owner ttl (embed (cp_net p) v4)]
      end
  | _ => []
  end.
Definition synth_rrs (c : compiled) (ttl : N) (addrs : list rr) : list rr :=
  flat_map (fun p => flat_map (synth_one c ttl p) addrs) (c_prefixes c).

(* what reaches the client *)
Record reply := mk_reply {
  r_same : bool;              (* the very message the next handler wrote *)
  r_rcode : N; r_ad : bool; r_edes : list N; r_answer : list rr }.

Inductive path :=
| PNothing        (* the next handler wrote nothing *)
| PNext           (* not a candidate: next handler's reply untouched *)
| PPtrNext        (* PTR not under a configured Pref64: next handler *)
| PPtr            (* PTR translated: CNAME to in-addr.arpa *)
| PPtrLocalFail
| PPass           (* wrapped, passed through unchanged *)
| PPassFiltered   (* native AAAA kept, excluded ones stripped *)
| PLocalFail      (* SERVFAIL built from the request *)
| PFallback       (* no synthesis possible: (filtered) original *)
| PABasis         (* RFC 6147 5.1.6: A response is the basis *)
| PSynth.

Record result := mk_result { x_path : path; x_reply : option reply; x_aq : bool; x_next : bool }.

Definition reply_of (same : bool) (m : msg) : reply :=
  mk_reply same (m_rcode m) (m_ad m) (edes_of m) (m_answer m).
Definition local_fail_reply : reply := mk_reply false rcode_servfail false [] [].

(* handlePTR: the prefix loop *)
Fixpoint ptr_find (v : variant) (c : compiled) (addr : list N) (ps : list cprefix) : option (list N) :=
  match ps with
  | [] => None
  | p :: r =>
      if negb ((if fx_contains v then net_contains16 else net_contains) (cp_net p) addr) then ptr_find v c addr r
      else match extract v (cp_net p) addr with
           | None => ptr_find v c addr r
           | Some v4 => if should_exclude_a c v4 p then ptr_find v c addr r else Some v4
           end
  end.
Definition ptr_target (v : variant) (c : compiled) (qname : list N) : option (list N) :=
  match parse_ip6_arpa qname with
  | None => None
  | Some addr => ptr_find v c addr (c_prefixes c)
  end.

Inductive gate_res := GNext | GPtrNext | GPtr (v4 : list N) | GWrap.

(* DNS64.ServeDNS up to the wrap *)
Definition gate (v : variant) (c : compiled) (q : query) : gate_res :=
  if negb (q_nq q =? 1) then GNext
  else if negb (q_class q =? class_in) then GNext
  else if q_internal q then GNext
  else if negb (q_rd q) then GNext
  else if q_cd q then GNext
  else if negb (client_eligible c (q_client q)) then GNext
  else if negb ((q_type q =? type_aaaa) || (q_type q =? type_ptr)) then GNext
  else
    let qn := lower (q_name q) in
    if q_type q =? type_ptr then
      (if has_suffix qn (bs ".ip6.arpa.") then
         match ptr_target v c qn with Some v4 => GPtr v4 | None => GPtrNext end
       else GPtrNext)
    else if zone_excluded c qn then GNext
    else GWrap.

(* handlePTR after the target is known *)
Definition ptr_reply (q : query) (v4 : list N) (al : alookup) : result :=
  let cname := RCNAME (q_name q) ptr_synth_ttl (in_addr_arpa v4) in
  let ok answers := mk_result PPtr (Some (mk_reply false 0 false [] answers)) in
  match al with
  | QNone => ok [cname] false false
  | QErr k =>
      if (k =? 0) || (k =? 1) then mk_result PPtrLocalFail (Some local_fail_reply) true false
      else ok [cname] true false
  | QNilResp => ok [cname] true false
  | QResp m =>
      if m_rcode m =? 0 then ok (cname :: filter is_ptr (m_answer m)) true false
      else ok [cname] true false
  end.

(* responseWriter.synthesise + the tail of WriteMsg.  [m] is the message
   handed to synthesise (already filtered), [same] whether it is still the
   very message the next handler wrote. *)
Definition basis_edes (orig : msg) : list N :=
  match (if m_ad orig then add_ede (m_edes orig) ede_forged else m_edes orig) with Some l => l | None => [] end.

(* synth == nil: the (already AAAA-filtered) original is written.  When
   records were stripped it is a copy: AD is cleared and EDE 4 attached like
   on the other rewriting paths (before 3d56ccc the upstream's AD stayed). *)
Definition fallback (v : variant) (m : msg) (same : bool) (aq : bool) : result :=
  let r := if same then reply_of true m
           else if fx_fallback_ad v
                then mk_reply false (m_rcode m) false (basis_edes m) (m_answer m)
                else reply_of false m in
  mk_result PFallback (Some r) aq true.

Definition synthesise (v : variant) (c : compiled) (m : msg) (same : bool) (al : alookup) (cut : option N) : result :=
  match al with
  | QNone => fallback v m same false
  | QErr k =>
      if (k =? 0) || (k =? 1) then mk_result PLocalFail (Some local_fail_reply) true true
      else fallback v m same true
  | QNilResp => fallback v m same true
  | QResp ar =>
      let chain := filter is_chain (m_answer ar) in
      let addrs := filter is_a (m_answer ar) in
      if negb (m_rcode ar =? 0) || (length addrs =? 0)%nat then
        (* buildAResponseAsBasis: the alias chain of the A answer is relayed,
           since 1a0e74f capped by the request tree's bound (capRelayedTTLs) *)
        mk_result PABasis (Some (mk_reply false (m_rcode ar) false (basis_edes m) (relay_rrs cut chain))) true true
      else
        let ttl := synth_ttl v (m_ns m) addrs cut in
        let syn := synth_rrs c ttl addrs in
        if (length syn =? 0)%nat then fallback v m same true
        else mk_result PSynth (Some (mk_reply false 0 false (basis_edes m) (map (cap_ttl ttl) chain ++ syn))) true true
  end.

(* responseWriter.WriteMsg.  mark: 0 none, 1 the ResponseMeta cached-failure
   marker, 2 / 3 a request-local failure marker (attempt limit / other);
   work: a recursion-work enforcement error is latched on the request;
   cut: the request tree's bound as synthesise will read it (see bound_ttl). *)
Definition write_msg (v : variant) (c : compiled) (m : msg) (mark : N) (work : bool) (al : alookup) (cut : option N) : result :=
  let pass := mk_result PPass (Some (reply_of true m)) false true in
  if m_trunc m || (m_nq m =? 0) then pass
  else if m_rcode m =? rcode_nxdomain then pass
  else if is_dnssec_failure m then pass
  else if (mark =? 1) || has_ede m ede_cached then pass
  else if (mark =? 2) || (mark =? 3) then pass
  else if (m_rcode m =? rcode_servfail) && work then mk_result PLocalFail (Some local_fail_reply) false true
  else if m_rcode m =? 0 then
    let '(ans, had, kept, stripped) := filter_aaaa c (m_answer m) in
    if had && (0 <? kept)%nat then
      (if (0 <? stripped)%nat
       then mk_result PPassFiltered
              (Some (mk_reply false (m_rcode m) false (basis_edes m) ans)) false true
       else pass)
    else
      synthesise v c (mk_msg (m_trunc m) (m_nq m) (m_rcode m) (m_ad m) (m_edes m) ans (m_ns m))
                 (stripped =? 0)%nat al cut
  else synthesise v c m true al cut.

(* the whole handler in front of a scripted next handler ([down] = what it
   writes, with its marker) and a scripted Queryer *)
Definition serve (v : variant) (cf : config) (q : query) (down : option (msg * N)) (work : bool) (al : alookup) (cut : option N) : result :=
  let c := compile cf in
  let untouched p :=
    match down with
    | Some (m, _) => mk_result p (Some (reply_of true m)) false true
    | None => mk_result PNothing None false true
    end in
  match gate v c q with
  | GNext => untouched PNext
  | GPtrNext => untouched PPtrNext
  | GPtr v4 => ptr_reply q v4 al
  | GWrap =>
      match down with
      | None => mk_result PNothing None false true
      | Some (m, mark) => write_msg v c m mark work al cut
      end
  end.

(* ------------------------------------------------------------------ *)
(* The production composition (what the UDP driver runs): server ->
   pipeline [dns64; next] -> the auto-wired middleware.pipelineQueryer,
   which runs the secondary query through the sub-pipeline without the
   ClientOnly handlers, i.e. through the same next handler.  For the
   sub-query that handler writes nothing, or a message with a marker:
   pipelineQueryer.Query turns "nothing" into ErrNoResponse and a
   request-local marker into the marked error. *)
Inductive sub_script := SubNothing | SubWrite (m : msg) (mark : N).
Definition al_of_script (s : sub_script) : alookup :=
  match s with
  | SubNothing => QErr 2
  | SubWrite m mark => if mark =? 2 then QErr 1 else if mark =? 3 then QErr 2 else QResp m
  end.
Definition serve_wire (cf : config) (q : query) (down : option (msg * N)) (s : sub_script) (cut : option N) : result :=
  serve cur cf q down false (al_of_script s) cut.

(* ------------------------------------------------------------------ *)
(* The secondary query: what DNS64 asks the Queryer (session 4).
   synthesise:  aReq.SetQuestion(w.req.Question[0].Name, dns.TypeA);
                aReq.RecursionDesired = true; aReq.CheckingDisabled = w.req.CheckingDisabled
                — the client's name as the client spelled it (w.req is the
                materialised request, not the lower-cased w.qname);
   handlePTR:   sub.SetQuestion(inAddrArpa(v4), dns.TypePTR); sub.RecursionDesired = true
                — the very name the CNAME of the reply points at.
   miekg's SetQuestion makes one question of class IN and sets RD.  The
   Queryer is asked at most once per request ([x_aq]). *)
Record subq := mk_subq { sq_name : list N; sq_type : N; sq_class : N; sq_rd : bool; sq_cd : bool }.
Definition a_subq (q : query) : subq := mk_subq (q_name q) type_a class_in true (q_cd q).
Definition ptr_subq (v4 : list N) : subq := mk_subq (in_addr_arpa v4) type_ptr class_in true false.
Definition sub_query (v : variant) (cf : config) (q : query) (down : option (msg * N)) (work : bool) (al : alookup) (cut : option N) : option subq :=
  if x_aq (serve v cf q down work al cut) then
    match gate v (compile cf) q with
    | GPtr v4 => Some (ptr_subq v4)
    | _ => Some (a_subq q)
    end
  else None.
