(* C20 — the specification the observed behaviour is judged against,
   written independently of the model's algorithms: addresses as numbers in
   the 128-bit space, RFC 6052 section 2.2 as a table of octet positions,
   zones as label lists, RFC 8914 DNSSEC codes and RFC 6147 5.1.7's 600 s
   as literals.  Definitions only. *)
From Coq Require Import String Ascii.
From Sdns Require Import Common.Base Gen.C20 C20.Model.
Open Scope N_scope.

(* ---------------- addresses and networks as numbers ---------------- *)
Definition bytes_val (l : list N) : N := fold_left (fun acc b => acc * 256 + b) l 0.
(* IPv4 lives at ::ffff:0:0/96 *)
Definition addr128 (ip : list N) : option N :=
  if (length ip =? 4)%nat then Some (65535 * 2 ^ 32 + bytes_val ip)
  else if (length ip =? 16)%nat then Some (bytes_val ip)
  else None.
Definition net128 (n : ipnet) : option (N * N) :=
  match addr128 (n_ip n) with
  | Some v => Some (v, if n_mlen n =? 4 then 96 + n_ones n else n_ones n)
  | None => None
  end.
Definition spec_in_net (n : ipnet) (ip : list N) : bool :=
  match net128 n, addr128 ip with
  | Some (b, l), Some a => (l <=? 128) && (a / 2 ^ (128 - l) =? b / 2 ^ (128 - l))
  | _, _ => false
  end.

(* ---------------- RFC 6052 2.2 ---------------- *)
(* where the four IPv4 octets go, per prefix length *)
Definition spec_positions (pl : N) : option (list nat) :=
  if pl =? 32 then Some [4; 5; 6; 7]%nat
  else if pl =? 40 then Some [5; 6; 7; 9]%nat
  else if pl =? 48 then Some [6; 7; 9; 10]%nat
  else if pl =? 56 then Some [7; 9; 10; 11]%nat
  else if pl =? 64 then Some [9; 10; 11; 12]%nat
  else if pl =? 96 then Some [12; 13; 14; 15]%nat
  else None.
Fixpoint pos_index (i : nat) (pos : list nat) (k : nat) : option nat :=
  match pos with
  | [] => None
  | p :: r => if (p =? i)%nat then Some k else pos_index i r (S k)
  end.
Definition spec_embed (p : ipnet) (v4 : list N) : option (list N) :=
  match spec_positions (n_ones p) with
  | None => None
  | Some pos =>
      Some (map (fun i => if (i <? N.to_nat (n_ones p / 8))%nat then nthb (n_ip p) i
                          else match pos_index i pos 0 with
                               | Some k => nthb v4 k
                               | None => 0
                               end) (seq 0 16))
  end.
(* a legal Pref64::/n: IPv6, one of the six lengths, bits 64..71 zero *)
Definition spec_valid_prefix (p : ipnet) : bool :=
  (n_mlen p =? 16) && (length (n_ip p) =? 16)%nat &&
  match spec_positions (n_ones p) with
  | Some _ => (n_ones p <? 96) || (nthb (n_ip p) 8 =? 0)
  | None => false
  end.
(* the candidate IPv4 address of an embedded address: read the positions back *)
Definition spec_unembed (p : ipnet) (a : list N) : option (list N) :=
  match spec_positions (n_ones p) with
  | Some pos => Some (map (nthb a) pos)
  | None => None
  end.
Definition spec_wkp (p : ipnet) : bool :=
  (n_ones p =? 96) && list_eqb (n_ip p) (map N_of_nat [0; 100; 255; 155; 0; 0; 0; 0; 0; 0; 0; 0; 0; 0; 0; 0]%nat).

(* the ip6.arpa name of an address (RFC 3596 2.5): nibbles, lowest first *)
Definition hexchar (n : N) : N := if n <? 10 then 48 + n else 87 + n.
Definition byte_nibbles_rev (b : N) : list N := [hexchar (b mod 16); 46; hexchar (b / 16); 46].
Definition arpa_name (a : list N) : list N :=
  flat_map byte_nibbles_rev (rev a) ++ bs "ip6.arpa.".
(* d.c.b.a.in-addr.arpa. read back *)
Definition spec_parse_in_addr (t : list N) : option (list N) :=
  match split_on 46 t with
  | [d; c; b; a; x; y; z] =>
      if list_eqb x (bs "in-addr") && list_eqb y (bs "arpa") && list_eqb z [] then
        match parse_dec a, parse_dec b, parse_dec c, parse_dec d with
        | Some a', Some b', Some c', Some d' =>
            if forallb (fun v => v <? 256) [a'; b'; c'; d'] then Some [a'; b'; c'; d'] else None
        | _, _, _, _ => None
        end
      else None
  | _ => None
  end.

(* ---------------- zones as label lists ---------------- *)
Definition labels (name : list N) : list (list N) :=
  filter (fun l => negb (length l =? 0)%nat) (split_on 46 (lower name)).
Fixpoint labels_eqb (a b : list (list N)) : bool :=
  match a, b with
  | [], [] => true
  | x :: xs, y :: ys => list_eqb x y && labels_eqb xs ys
  | _, _ => false
  end.
Definition label_suffix (zone name : list (list N)) : bool :=
  (length zone <=? length name)%nat && labels_eqb (skipn (length name - length zone) name) zone.
Definition spec_zone_excluded (c : compiled) (qname : list N) : bool :=
  existsb (fun z => label_suffix (labels z) (labels qname)) (c_zones c).

(* ---------------- who may be served ---------------- *)
Definition spec_eligible (c : compiled) (ip : list N) : bool :=
  match c_clients c with
  | [] => true
  | _ => existsb (fun n => spec_in_net n ip) (c_clients c)
  end.
(* definitely eligible under either reading of a mixed-family comparison *)
Definition spec_eligible_strict (c : compiled) (ip : list N) : bool :=
  match c_clients c with
  | [] => true
  | _ => existsb (fun n => spec_in_net n ip && net_contains n ip) (c_clients c)
  end.
(* IPv4 ranges that must not be translated through the well-known prefix
   when the operator configured none: the not-globally-reachable entries of
   the IANA IPv4 special-purpose registry (RFC 6052 3.1, RFC 6890) *)
Definition spec_default_excluded_v4 : list ipnet :=
  [ mk_net [0;0;0;0] 8 4; mk_net [10;0;0;0] 8 4; mk_net [100;64;0;0] 10 4; mk_net [127;0;0;0] 8 4;
    mk_net [169;254;0;0] 16 4; mk_net [172;16;0;0] 12 4; mk_net [192;0;0;0] 24 4; mk_net [192;0;2;0] 24 4;
    mk_net [192;88;99;0] 24 4; mk_net [192;168;0;0] 16 4; mk_net [198;18;0;0] 15 4; mk_net [198;51;100;0] 24 4;
    mk_net [203;0;113;0] 24 4; mk_net [224;0;0;0] 4 4; mk_net [240;0;0;0] 4 4; mk_net [255;255;255;255] 32 4 ].
Definition spec_excluded_a (cf : config) (v4 : list N) : bool :=
  existsb (fun n => spec_in_net n v4)
    (match cf_excl_a cf with
     | None => spec_default_excluded_v4
     | Some _ => c_excl_a (compile cf)
     end).
Definition spec_excluded_aaaa (c : compiled) (ip : list N) : bool :=
  existsb (fun n => spec_in_net n ip) (c_excl_aaaa c).

(* RFC 8914 codes that report a DNSSEC validation failure *)
Definition spec_dnssec_codes : list N := [1; 2; 5; 6; 7; 8; 9; 10; 11; 12; 27].
Definition spec_validation_failure (m : msg) : bool :=
  (m_rcode m =? 2) && existsb (fun c => existsb (N.eqb c) spec_dnssec_codes) (edes_of m).

(* RFC 2308 negative TTL of a response: min(SOA TTL, SOA MINIMUM) of its
   SOA; RFC 6147 5.1.7: 600 s when there is none *)
Definition spec_negative_ttl (m : msg) : N :=
  match first_soa (m_ns m) with
  | Some (t, mn) => N.min t mn
  | None => 600
  end.

(* the name an alias chain starting at [name] ends at (CNAME owners are
   matched case-insensitively; a DNAME is followed through the CNAME the
   resolver synthesises for it) *)
Fixpoint chain_terminal (fuel : nat) (name : list N) (chain : list rr) : list N :=
  match fuel with
  | O => name
  | S f =>
      match find (fun r => match r with RCNAME o _ _ => list_eqb (lower o) (lower name) | _ => false end) chain with
      | Some (RCNAME _ _ t) => chain_terminal f t chain
      | _ => name
      end
  end.

(* the configured prefixes that are legal, or the well-known one (RFC 6147 5.2) *)
Definition spec_prefixes (cf : config) : list ipnet :=
  match filter spec_valid_prefix (somes (cf_prefixes cf)) with
  | [] => [wkp_net]
  | l => l
  end.
